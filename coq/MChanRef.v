(* C11, multi channel: no stranded sender / receiver on the faithful model
   coq/MChan.v with the two-list protocol of /repo (onelist = false), for any
   number of fibers, ANY programs (a fiber may mix sends and receives), any
   schedule, any size.

   1. [Cov] (MChanRefBase.v, the wake-credit invariant of MChanAbs.Inv2 carried
      out on the concrete states) holds in every reachable state.
   2. Liveness pointers: a mutex hand-off in flight has a live popper ([J], as in
      MutexProofs.v); a fiber popped from a channel list has a live waker ([CJ]).
   3. In a state where no fiber can take a step, every fiber is finished or
      asleep on the channel with its kind blocked by the buffer (senders: buffer
      full, receivers: buffer empty); nobody sleeps in the mutex queue. *)
From Coq Require Import List ZArith Lia Bool Arith.
From LF Require Import Conc T1K MChan MChanExclBase MChanExclSteps MChanExclNodes MChanExcl.
From LF Require Import MChanRefBase MChanRefInv MChanRefCs.
From LF Require MChanProofs MChanProofs2.
Import ListNotations.
Local Open Scope Z_scope.

Lemma cov_init k progs : Cov (ginit false k progs).
Proof.
  constructor.
  - reflexivity.
  - intros kk H. exfalso. apply H. reflexivity.
  - intros t. unfold tfact. cbn. exact I.
  - intros kk t [].
  - intros t a (p0 & k0 & [E|E]); discriminate.
Qed.

Lemma cov_step x t : Inv x -> Cov x -> status_of (gb x) t = SReady -> Cov (gstep x t).
Proof.
  intros HI HV St. pose proof (step_inv x t HI St) as HI'.
  unfold status_of in St. destruct (Nat.ltb_spec t (nthr (gb x))) as [Ht|Ht]; [|discriminate].
  destruct (I_thr x HI t) as (p & Hs & HL & HX).
  destruct (is_cs p) eqn:Ec.
  - destruct p; try discriminate.
    apply (cov_cs x t HI HV (proj1 (proj2 (proj2 (proj2 (proj1 HL))))) Ht f c Hs HL HX).
  - apply (cov_kstep x t p HI HI' HV Hs Ec). intros ->. rewrite Hs in St. discriminate.
Qed.

Theorem greach_cov k progs x : greach false k progs x -> Cov x.
Proof.
  induction 1 as [|x t R IH St]; [apply cov_init|].
  apply cov_step; [apply (greach_inv false k progs x R)|exact IH|exact St].
Qed.

(* ---------------- an in-flight hand-off of the mutex has a live popper ---------------- *)
Definition J (x : gst) : Prop :=
  forall f w, hand x f = HPopped w \/ hand x f = HNode w ->
    role x f = Owner /\ exists kf tl, stk (gb x) w = stk_of (PK kf tl) /\ kpre kf = false.

Lemma stk_gstep_self x t :
  stk (gb (gstep x t)) t =
  snd (kstepC (onelist (gb x)) (csize (gb x)) (mem (gb x)) t (stk (gb x) t)).
Proof.
  rewrite gstep_base. unfold step.
  destruct (kstepC _ _ _ _ _) as [[m1 e1] s1]. cbn. apply upd_same.
Qed.

Lemma J_gen x t x' :
  J x -> (forall u, u <> t -> stk (gb x') u = stk (gb x) u) ->
  (forall f, hand x' f = hand x f \/ hand x' f = HNone \/ hand x' f = HWoken \/
             (role x' f = Owner /\ (hand x' f = HPopped t \/ hand x' f = HNode t) /\
              exists kf tl, stk (gb x') t = stk_of (PK kf tl) /\ kpre kf = false)) ->
  (forall f, hand x' f = hand x f -> role x f = Owner ->
             (exists w, hand x f = HPopped w \/ hand x f = HNode w) -> role x' f = Owner) ->
  (forall f, hand x f = HPopped t \/ hand x f = HNode t -> hand x' f = hand x f -> role x f = Owner ->
             exists kf tl, stk (gb x') t = stk_of (PK kf tl) /\ kpre kf = false) ->
  J x'.
Proof.
  intros HJ Hst H1 H2 H3 f w Hp.
  destruct (H1 f) as [E|[E|[E|(A & B & C)]]].
  - rewrite E in Hp. destruct (HJ f w Hp) as [Ho K]. split; [apply H2; eauto|].
    destruct (Nat.eq_dec w t) as [->|Nw]; [apply (H3 f); auto|rewrite (Hst w Nw); exact K].
  - rewrite E in Hp. destruct Hp; discriminate.
  - rewrite E in Hp. destruct Hp; discriminate.
  - split; [exact A|]. assert (w = t) as -> by (destruct B as [B|B], Hp as [Hp|Hp]; congruence). exact C.
Qed.

(* phases where the ghost hand/role maps do not change and t is not a post-pop popper *)
Lemma J_boring x t p :
  J x -> stk (gb x) t = stk_of p ->
  hand (gstep x t) = hand x -> role (gstep x t) = role x ->
  (forall kf tl, p = PK kf tl -> kpre kf = true) ->
  J (gstep x t).
Proof.
  intros HJ Hs Eh Er Hk. apply (J_gen x t); auto.
  - intros u Hu. now apply stk_gstep_other.
  - intros f. rewrite Eh. auto.
  - intros f _ Ho _. now rewrite Er.
  - intros f Hp _ _. destruct (HJ f t Hp) as [_ (kf & tl & E & K)].
    rewrite Hs in E. apply stk_of_K_inj in E. rewrite (Hk _ _ E) in K. discriminate.
Qed.

Lemma gstep_cs_ghost x t f c : stk (gb x) t = stk_of (PCs f c) -> csx x t f c ->
  hand (gstep x t) = hand x /\ role (gstep x t) = role x /\ gq (gstep x t) = gq x /\ debt (gstep x t) = debt x.
Proof.
  intros Hs HX. unfold gstep. rewrite Hs. pose proof (cs_top _ _ _ _ HX) as Ht.
  destruct f; try contradiction; cbn; auto; destruct c; auto.
Qed.

Ltac ghs Hs := unfold gstep; rewrite Hs; reflexivity.
Ltac jboring HJ Hs :=
  apply (J_boring _ _ _ HJ Hs);
  [ghs Hs | ghs Hs | intros ? ? E; first [discriminate E | injection E as <- _; reflexivity]].

Lemma J_step x t : Inv x -> J x -> status_of (gb x) t = SReady -> J (gstep x t).
Proof.
  intros HI HJ St. unfold status_of in St.
  destruct (Nat.ltb_spec t (nthr (gb x))) as [Ht|Ht]; [|discriminate].
  destruct (I_thr x HI t) as (p & Hs & HL & HX). rewrite Hs in St.
  assert (Hoth : forall u, u <> t -> stk (gb (gstep x t)) u = stk (gb x) u)
    by (intros u Hu; now apply stk_gstep_other).
  assert (HnK : (forall kf tl, p <> PK kf tl) -> forall f, hand x f = HPopped t \/ hand x f = HNode t -> False).
  { intros Hn f Hp. destruct (HJ f t Hp) as [_ (kf & tl & E & _)]. rewrite Hs in E.
    apply stk_of_K_inj in E. apply (Hn _ _ E). }
  assert (Hrel : forall r', settled (hand x t) ->
            hand (gstep x t) = hand x \/ hand (gstep x t) = upd (hand x) t HNone ->
            role (gstep x t) = upd (role x) t r' -> (forall kf tl, p <> PK kf tl) -> J (gstep x t)).
  { intros r' Hset Eh Er Hn. apply (J_gen x t); auto.
    - intros f. destruct Eh as [-> | ->]; [auto|]. unfold upd. destruct (Nat.eqb f t); auto.
    - intros f _ Ho (w & Hw). rewrite Er, upd_other; [exact Ho|].
      intros ->. destruct Hw as [Hw|Hw], Hset as [S0|S0]; congruence.
    - intros f Hp. exfalso. apply (HnK Hn f Hp). }
  destruct p as [pr| |a p k|f c|r p k|w a p k|kf tl|r p k|st r p k|y a p k].
  - jboring HJ Hs.
  - discriminate.
  - (* LSub *) apply (Hrel (if word (mem (gb x)) 0 - 1 =? 0 then Owner else Announced)); [apply HL|right; ghs Hs|ghs Hs|discriminate].
  - destruct (gstep_cs_ghost x t f c Hs HX) as (Eh & Er & _).
    apply (J_boring _ _ _ HJ Hs Eh Er). discriminate.
  - (* UAdd *) apply (Hrel Idle); [apply HL|left; ghs Hs|ghs Hs|discriminate].
  - destruct w; jboring HJ Hs.
  - assert (Hpost : forall kf', kpre kf' = false ->
              stk (gb (gstep x t)) t = stk_of (PK kf' tl) ->
              exists kf0 tl0, stk (gb (gstep x t)) t = stk_of (PK kf0 tl0) /\ kpre kf0 = false)
      by (intros kf' K E; exists kf', tl; auto).
    destruct kf.
    + jboring HJ Hs.
    + jboring HJ Hs.
    + (* KSetHead *)
      assert (Est : stk (gb (gstep x t)) t = stk_of (PK (KfData h nx) tl))
        by (rewrite stk_gstep_self, Hs; reflexivity).
      apply (J_gen x t); auto.
      * intros f. unfold gstep at 1 2 3 4 5. rewrite Hs. cbn -[tid_of_name gstep]. unfold upd.
        destruct (Nat.eqb f _); auto. right. right. right. split; [reflexivity|]. split; [auto|].
        apply (Hpost (KfData h nx)); auto.
      * intros f _ Ho _. unfold gstep. rewrite Hs. cbn -[tid_of_name]. unfold upd.
        destruct (Nat.eqb f _); auto.
      * intros f Hp. destruct (HJ f t Hp) as [_ (kf & tl0 & E & K)].
        rewrite Hs in E. apply stk_of_K_inj in E. injection E as <- _. discriminate.
    + jboring HJ Hs.
    + jboring HJ Hs.
    + (* KData *)
      assert (Est : stk (gb (gstep x t)) t = stk_of (PK (KfCopy h (ndata (mem (gb x)) nx)) tl))
        by (rewrite stk_gstep_self, Hs; reflexivity).
      apply (J_gen x t); auto.
      * intros f. left. ghs Hs.
      * intros f _ Ho _. replace (role (gstep x t)) with (role x) by (symmetry; ghs Hs). exact Ho.
      * intros f _ _ _. apply (Hpost (KfCopy h (ndata (mem (gb x)) nx))); auto.
    + (* KCopy *)
      assert (Est : stk (gb (gstep x t)) t = stk_of (PK (KfOut h) tl))
        by (rewrite stk_gstep_self, Hs; reflexivity).
      apply (J_gen x t); auto.
      * intros f. left. ghs Hs.
      * intros f _ Ho _. replace (role (gstep x t)) with (role x) by (symmetry; ghs Hs). exact Ho.
      * intros f _ _ _. apply (Hpost (KfOut h)); auto.
    + (* KOut *)
      destruct HX as (f0 & Hd0 & Hp1 & Hp2). change (ndata (mem (gb x)) h = fname f0) in Hd0.
      assert (Est : stk (gb (gstep x t)) t = stk_of (PK (KfState f0) tl)).
      { rewrite stk_gstep_self, Hs. cbn -[tid_of_name]. rewrite Hd0, tid_of_fname. reflexivity. }
      assert (Eh : hand (gstep x t) = upd (hand x) f0 (HNode t)).
      { unfold gstep. rewrite Hs. cbn -[tid_of_name]. rewrite Hd0, tid_of_fname. reflexivity. }
      assert (Er : role (gstep x t) = role x) by ghs Hs.
      apply (J_gen x t); auto.
      * intros f. rewrite Eh, Er. unfold upd. destruct (Nat.eqb_spec f f0) as [->|N]; auto.
        right. right. right. split; [exact Hp2|]. split; [auto|]. apply (Hpost (KfState f0)); auto.
      * intros f _ Ho _. now rewrite Er.
      * intros f _ _ _. apply (Hpost (KfState f0)); auto.
    + (* KState *)
      destruct HX as (Hp1 & Hp2). cbn in Hp1, Hp2.
      destruct (fstate (mem (gb x)) f =? ST_WAITING) eqn:E.
      * assert (Est : stk (gb (gstep x t)) t = stk_of (PK (KfReady f) tl))
          by (rewrite stk_gstep_self, Hs; cbn; rewrite E; reflexivity).
        assert (Eh : hand (gstep x t) = hand x) by (unfold gstep; rewrite Hs; cbn; rewrite E; reflexivity).
        assert (Er : role (gstep x t) = role x) by (unfold gstep; rewrite Hs; cbn; rewrite E; reflexivity).
        apply (J_gen x t); auto.
        -- intros g. rewrite Eh. auto.
        -- intros g _ Ho _. now rewrite Er.
        -- intros g _ _ _. apply (Hpost (KfReady f)); auto.
      * assert (Eh : hand (gstep x t) = upd (hand x) f HWoken) by (unfold gstep; rewrite Hs; cbn; rewrite E; reflexivity).
        assert (Er : role (gstep x t) = role x) by (unfold gstep; rewrite Hs; cbn; rewrite E; reflexivity).
        apply (J_gen x t); auto.
        -- intros g. rewrite Eh. unfold upd. destruct (Nat.eqb g f); auto.
        -- intros g _ Ho _. now rewrite Er.
        -- intros g Hg Eg Ho. exfalso. assert (g = f) as -> by apply (I_own1 x (I_C x HI) g f Ho Hp2).
           rewrite Eh, upd_same in Eg. rewrite <- Eg in Hg. destruct Hg; discriminate.
    + (* KReady *)
      destruct HX as ((Hp1 & Hp2) & _). cbn in Hp1, Hp2.
      assert (Eh : hand (gstep x t) = upd (hand x) f HWoken) by ghs Hs.
      assert (Er : role (gstep x t) = role x) by ghs Hs.
      apply (J_gen x t); auto.
      * intros g. rewrite Eh. unfold upd. destruct (Nat.eqb g f); auto.
      * intros g _ Ho _. now rewrite Er.
      * intros g Hg Eg Ho. exfalso. assert (g = f) as -> by apply (I_own1 x (I_C x HI) g f Ho Hp2).
        rewrite Eh, upd_same in Eg. rewrite <- Eg in Hg. destruct Hg; discriminate.
  - jboring HJ Hs.
  - jboring HJ Hs.
  - destruct y; try (jboring HJ Hs).
    apply (Hrel Idle); [apply HL|left; ghs Hs|ghs Hs|discriminate].
Qed.

Lemma J_init ol k progs : J (ginit ol k progs).
Proof. intros f w [H|H]; discriminate. Qed.

Theorem greach_J ol k progs x : greach ol k progs x -> J x.
Proof.
  induction 1 as [|x t R IH St]; [apply J_init|].
  apply J_step; auto. apply (greach_inv ol k progs x R).
Qed.

(* ---------------- a fiber popped from a channel list has a live waker ---------------- *)
Definition CJ (x : gst) : Prop :=
  forall f w, chand x f = CPopped w ->
    exists r p k, bot (stk (gb x) w) = Some (MWk5 r f p k) \/ bot (stk (gb x) w) = Some (MWk6 r f p k).

Lemma gstep_chand_cs x t f c : stk (gb x) t = stk_of (PCs f c) ->
  chand (gstep x t) =
  match f, c with
  | CWrite _ _, MWt3 _ _ _ => upd (chand x) t CQueued
  | CWrite _ _, MWk4 _ g _ _ => upd (chand x) g (CPopped t)
  | FStWrite g _, MWk6 _ _ _ _ => upd (chand x) g CWoken
  | _, _ => chand x
  end.
Proof.
  intros Hs. unfold gstep. rewrite Hs. cbn [stk_of].
  destruct f; try reflexivity; try (destruct c; reflexivity).
  destruct (fstate _ _ =? _); reflexivity.
Qed.

Lemma CJ_step x t : Inv x -> CJ x -> status_of (gb x) t = SReady -> CJ (gstep x t).
Proof.
  intros HI HC St.
  destruct (I_thr x HI t) as (p & Hs & HL & HX).
  assert (Hoth : forall u, u <> t -> stk (gb (gstep x t)) u = stk (gb x) u)
    by (intros u Hu; now apply stk_gstep_other).
  destruct (is_cs p) eqn:Ec.
  - destruct p as [| | |f c| | | | | |]; try discriminate. cbn [X] in HX.
    pose proof (gstep_chand_cs x t f c Hs) as Ech.
    assert (Hbt : bot (stk (gb x) t) = Some c) by (rewrite Hs; apply bot_two).
    (* who was popped by t so far *)
    assert (Hold : forall f0, chand x f0 = CPopped t ->
              exists r p k, c = MWk5 r f0 p k \/ c = MWk6 r f0 p k).
    { intros f0 H. destruct (HC f0 t H) as (r & p & k & [E|E]); rewrite Hbt in E; injection E as ->; eauto. }
    assert (Hkeep : forall f0 w, w <> t -> chand x f0 = CPopped w ->
              exists r p k, bot (stk (gb (gstep x t)) w) = Some (MWk5 r f0 p k) \/
                            bot (stk (gb (gstep x t)) w) = Some (MWk6 r f0 p k)).
    { intros f0 w Hw H. rewrite (Hoth w Hw). apply (HC f0 w H). }
    intros f0 w H. rewrite Ech in H.
    destruct c; cbn [csx] in HX; try contradiction;
      try (destruct f; (destruct (Nat.eq_dec w t) as [->|Nw];
             [destruct (Hold f0 H) as (? & ? & ? & [E|E]); discriminate E|apply (Hkeep f0 w Nw H)])).
    + (* MWk4: the pop *)
      destruct HX as (c0 & rest & Hl & -> & Eq).
      unfold upd in H. destruct (Nat.eqb_spec f0 f1) as [->|N].
      * injection H as <-. rewrite stk_gstep_self, Hs. cbn. eauto.
      * destruct (Nat.eq_dec w t) as [->|Nw]; [|apply (Hkeep f0 w Nw H)].
        destruct (Hold f0 H) as (? & ? & ? & [E|E]); discriminate E.
    + (* MWk5 *)
      destruct HX as (-> & Hg).
      destruct (Nat.eq_dec w t) as [->|Nw]; [|apply (Hkeep f0 w Nw H)].
      destruct (Hold f0 H) as (r0 & p0 & k0 & [E|E]); [|discriminate E]. injection E as -> -> -> ->.
      rewrite stk_gstep_self, Hs. cbn. eauto.
    + (* MWk6: the wake-up *)
      destruct HX as (-> & Hg). unfold upd in H. destruct (Nat.eqb_spec f0 f1) as [->|N]; [discriminate|].
      destruct (Nat.eq_dec w t) as [->|Nw]; [|apply (Hkeep f0 w Nw H)].
      destruct (Hold f0 H) as (r0 & p0 & k0 & [E|E]); [discriminate E|]. injection E as _ -> _ _. congruence.
    + (* MWt3: the push *)
      destruct HX as (c0 & Hl & -> & _). unfold upd in H. destruct (Nat.eqb_spec f0 t) as [->|N]; [discriminate|].
      destruct (Nat.eq_dec w t) as [->|Nw]; [|apply (Hkeep f0 w Nw H)].
      destruct (Hold f0 H) as (? & ? & ? & [E|E]); discriminate E.
  - destruct (gstep_chan_k x t p Hs Ec) as [Ech _]. intros f0 w H. rewrite Ech in H.
    destruct (Nat.eq_dec w t) as [->|Nw]; [|rewrite (Hoth w Nw); apply (HC f0 w H)].
    exfalso. destruct (HC f0 t H) as (r & p0 & k & E).
    assert (Hd : p <> PDone) by (intros ->; unfold status_of in St; rewrite Hs in St;
                                 destruct (t <? nthr (gb x))%nat; discriminate).
    destruct (bot_stk_of_coarse p Ec Hd) as (c & Hb & Hc). rewrite Hs, Hb in E.
    destruct E as [E|E]; injection E as ->; discriminate.
Qed.

Lemma CJ_init ol k progs : CJ (ginit ol k progs).
Proof. intros f w H. discriminate. Qed.

Theorem greach_CJ ol k progs x : greach ol k progs x -> CJ x.
Proof.
  induction 1 as [|x t R IH St]; [apply CJ_init|].
  apply CJ_step; auto. apply (greach_inv ol k progs x R).
Qed.

(* ---------------- states in which no fiber can take a step ---------------- *)
Lemma sumn_zero f n : (forall t, (t < n)%nat -> f t = O) -> sumn f n = O.
Proof.
  induction n as [|n IH]; intros H; [reflexivity|]. cbn.
  rewrite IH, (H n) by (intros; auto with arith). reflexivity.
Qed.

Lemma runnable_top s u fr r :
  (u < nthr s)%nat -> stk s u = fr :: r -> (fr = Asleep -> blocked (mem s) u = false) ->
  status_of s u = SReady.
Proof.
  intros Hu Hs Hb. unfold status_of. destruct (Nat.ltb_spec u (nthr s)); [|lia]. rewrite Hs.
  destruct fr; try reflexivity. cbn. rewrite Hb; reflexivity.
Qed.

Section Quiet.
Variable k : nat.
Variable progs : list (list mop).
Variable x : gst.
Hypothesis HG : greach false k progs x.
Hypothesis HQ : MChanProofs.nobody_runnable (gb x).
Notation s := (gb x).

Let HI : Inv x := greach_inv false k progs x HG.
Let HJ : J x := greach_J false k progs x HG.
Let HC : CJ x := greach_CJ false k progs x HG.
Let HV : Cov x := greach_cov k progs x HG.

Lemma greach_reachable : reachable M (init_ol false k progs) s.
Proof.
  clear HQ HI HJ HC HV. induction HG as [|y t R IH St]; [constructor|].
  rewrite gstep_base. apply (reach_step M _ (gb y) t (IH R) St).
Qed.

Lemma q_outside u : (nthr s <= u)%nat -> exists p, stk s u = [Start; FC (MNext p 1)].
Proof.
  apply (MChanProofs2.reach_excl_outside false k progs).
  apply reachable_reach_excl. apply greach_reachable.
Qed.

(* a fiber whose stack is not the initial one exists *)
Lemma q_exists u fr r : stk s u = fr :: r -> fr <> Start -> (u < nthr s)%nat.
Proof.
  intros Hs Hf. destruct (Nat.lt_ge_cases u (nthr s)) as [H|H]; [exact H|].
  destruct (q_outside u H) as (p & E). rewrite E in Hs. injection Hs as <- _. congruence.
Qed.

Lemma q_shape u : (u < nthr s)%nat ->
  stk s u = [] \/ ((exists r, stk s u = Asleep :: r) /\ blocked (mem s) u = true).
Proof.
  intros Hu. destruct (stk s u) as [|fr r] eqn:Es; [auto|]. right.
  destruct (blocked (mem s) u) eqn:Eb.
  - split; [|reflexivity]. destruct fr; try (exfalso; apply (HQ u); apply (runnable_top s u _ r Hu Es); discriminate).
    eauto.
  - exfalso. apply (HQ u). apply (runnable_top s u fr r Hu Es). auto.
Qed.

(* a fiber inside the wake loop can run *)
Lemma q_no_K w kf tl : stk s w = stk_of (PK kf tl) -> False.
Proof.
  intros Hs. assert (Hw : (w < nthr s)%nat).
  { destruct kf; cbn in Hs; eapply (q_exists w _ _ Hs); discriminate. }
  destruct (q_shape w Hw) as [E|[(r & E) _]]; rewrite Hs in E; destruct kf; discriminate.
Qed.

Lemma q_no_owner u : role x u <> Owner.
Proof.
  intros Ho. assert (Hu : (u < nthr s)%nat) by (apply (I_role_lt x (I_C x HI)); congruence).
  destruct (I_thr x HI u) as (q & Q1 & Q2 & Q3).
  destruct (q_shape u Hu) as [E|[(r & E) Hb]]; rewrite Q1 in E.
  - destruct q as [pr| |a p0 k0|f c|r p0 k0|w a p0 k0|kf tl|r p0 k0|st r p0 k0|y a p0 k0];
      try destruct w; try destruct kf; try destruct y; try discriminate.
    destruct Q2 as (_ & E'). cbn in E'. congruence.
  - destruct q as [pr| |a p0 k0|f c|r0 p0 k0|w a p0 k0|kf tl|r0 p0 k0|st r0 p0 k0|y a p0 k0];
      try destruct w; try destruct kf; try destruct y; try discriminate.
    + (* in the critical section *) cbn in E. injection E as -> _.
      pose proof (cs_top _ _ _ _ Q3) as T. exact T.
    + (* asleep in the mutex queue, handed the lock: the popper is alive *)
      destruct Q2 as (_ & W & [(A & _ & _)|(_ & B & _)]); [|cbn in B; congruence].
      cbn in A. unfold wq in W. cbn in W.
      destruct (hand x u) as [|w|w|] eqn:Hh; [destruct W; congruence| | |congruence].
      * destruct (HJ u w) as [_ (kf & tl & Ew & _)]; [rewrite Hh; auto|]. apply (q_no_K w kf tl Ew).
      * destruct (HJ u w) as [_ (kf & tl & Ew & _)]; [rewrite Hh; auto|]. apply (q_no_K w kf tl Ew).
    + (* asleep on the channel: not the owner *)
      destruct Q2 as (_ & _ & _ & _ & Hr & _). cbn in Hr. congruence.
Qed.
End Quiet.

Section Quiet2.
Variable k : nat.
Variable progs : list (list mop).
Variable x : gst.
Hypothesis HG : greach false k progs x.
Hypothesis HQ : MChanProofs.nobody_runnable (gb x).
Notation s := (gb x).

Let HI : Inv x := greach_inv false k progs x HG.
Let HC : CJ x := greach_CJ false k progs x HG.
Let HV : Cov x := greach_cov k progs x HG.

Lemma q_no_debt : debt x = None.
Proof.
  destruct (debt x) as [d|] eqn:Hd; [|reflexivity]. exfalso.
  destruct (I_debt_k x HI d Hd) as (kf & tl & E & _). apply (q_no_K k progs x HG HQ d kf tl E).
Qed.

Lemma q_no_ann u : role x u <> Announced.
Proof.
  intros Ha. pose proof (ann_counted x HI u Ha) as H1.
  destruct (I_nodebt x (I_C x HI) q_no_debt) as [E|E]; [|lia].
  destruct (cnt_ex (fun v => is_owner (role x v)) (nthr s)) as (v & _ & Hv); [fold (nown x); lia|].
  apply (q_no_owner k progs x HG HQ v). destruct (role x v); try discriminate; reflexivity.
Qed.

(* every fiber that is not finished sleeps on the channel, queued and not popped *)
Lemma q_sleeper u : (u < nthr s)%nat -> stk s u <> [] ->
  exists a p kk, stk s u = [Asleep; YLoop; FC (MWt5 a p kk)] /\ blocked (mem s) u = true /\
                 chand x u = CQueued.
Proof.
  intros Hu Hne. destruct (q_shape x HQ u Hu) as [E|[(r & E) Hb]]; [congruence|].
  destruct (I_thr x HI u) as (q & Q1 & Q2 & Q3). rewrite Q1 in E.
  destruct q as [pr| |a p0 k0|f c|r0 p0 k0|w a p0 k0|kf tl|r0 p0 k0|st r0 p0 k0|y a p0 k0];
    try destruct w; try destruct kf; try destruct y; try discriminate.
  - exfalso. cbn in E. injection E as -> _. apply (cs_top _ _ _ _ Q3).
  - (* asleep in the mutex queue: announced or owner *)
    exfalso. destruct Q2 as (_ & W & _). unfold wq in W. cbn in W.
    destruct (hand x u); destruct W as (Hr & _);
      first [apply (q_no_ann u Hr)|apply (q_no_owner k progs x HG HQ u Hr)].
  - exists a, p0, k0. split; [exact Q1|]. split; [exact Hb|].
    destruct Q2 as (_ & _ & _ & _ & _ & _ & [([Hq|(w & Hp)] & _)|(_ & Hb')]).
    + exact Hq.
    + exfalso. cbn in Hp. destruct (HC u w Hp) as (r1 & p1 & k1 & E1).
      apply (q_no_owner k progs x HG HQ w).
      destruct E1 as [E1|E1]; apply (bot_cs_owner x w _ HI E1); reflexivity.
    + cbn in Hb'. congruence.
Qed.

Lemma q_cover0 kk : cover x kk = O.
Proof.
  unfold cover. apply sumn_zero. intros u Hu. unfold wof.
  destruct (stk s u) as [|fr r] eqn:Es; [reflexivity|].
  destruct (q_sleeper u Hu) as (a & p & k0 & E & _ & Hq); [congruence|].
  rewrite Es in E. rewrite E, Hq. reflexivity.
Qed.

Lemma q_occ : 0 <= occ x <= csize s.
Proof.
  destruct (capacity_full false k progs s (greach_reachable k progs x HG)) as [H _]. exact H.
Qed.

(* the shape of a state in which nobody can run *)
Lemma q_final u : (u < nthr s)%nat ->
  stk s u = [] \/
  exists a p kk, stk s u = [Asleep; YLoop; FC (MWt5 a p kk)] /\ blocked (mem s) u = true /\
    match a with ASend _ => occ x = csize s | ARecv => occ x = 0 end.
Proof.
  intros Hu. destruct (stk s u) as [|fr r] eqn:Es; [auto|]. right.
  destruct (q_sleeper u Hu) as (a & p & k0 & E & Hb & Hq); [congruence|].
  exists a, p, k0. rewrite <- Es. split; [exact E|]. split; [exact Hb|].
  assert (Hin : In u (cq x (lcell (ak a)))).
  { apply (V_q x HV u a); [|exact Hq]. exists p, k0. left. rewrite E. reflexivity. }
  assert (Hne : cq x (lcell (ak a)) <> []) by (intros E0; rewrite E0 in Hin; destruct Hin).
  pose proof (V_cov x HV (ak a) Hne) as Hc. rewrite q_cover0 in Hc. pose proof q_occ as Ho.
  unfold avail in Hc. destruct a; cbn in Hc; lia.
Qed.
End Quiet2.

(* ---------------- the theorems, on states of the model ---------------- *)
(* a state in which nobody can run: every fiber is finished, or a sender asleep on a FULL
   channel, or a receiver asleep on an EMPTY channel; in particular nobody is asleep in the
   queue of the channel mutex *)
Theorem quiescent_shape :
  forall (k : nat) (progs : list (list mop)) (s : st),
    reachable M (init k progs) s -> MChanProofs.nobody_runnable s ->
    forall t, (t < nthr s)%nat ->
      status_of s t = SDone \/
      (MChanProofs.blocked_sender s t /\ MChanProofs.occupancy s = csize s) \/
      (MChanProofs.blocked_receiver s t /\ MChanProofs.occupancy s = 0).
Proof.
  intros k progs s R HQ t Ht.
  destruct (reachable_greach false k progs s R) as (x & HG & <-).
  assert (Hst : status_of (gb x) t = kstatus mc (mem (gb x)) t (stk (gb x) t)).
  { unfold status_of. destruct (Nat.ltb_spec t (nthr (gb x))); [reflexivity|lia]. }
  destruct (q_final k progs x HG HQ t Ht) as [E|(a & p & kk & E & Hb & Ho)].
  - left. rewrite Hst, E. reflexivity.
  - right. assert (Hbl : status_of (gb x) t = SBlocked) by (rewrite Hst, E; cbn; rewrite Hb; reflexivity).
    unfold MChanProofs.blocked_sender, MChanProofs.blocked_receiver, MChanProofs.occupancy.
    rewrite E. cbn [MChanProofs.sleeping_attempt]. unfold occ in Ho.
    destruct a as [v|]; [left|right]; (split; [|exact Ho]); (split; [exact Ht|]); (split; [exact Hbl|]); eauto.
Qed.

(* the strengthened notion: nobody can run although some fiber sleeps for another reason
   than a full (sender) / empty (receiver) channel -- covers a sender asleep although there
   is room, a receiver asleep although a message is buffered, and ANY fiber asleep in the
   queue of the channel mutex *)
Definition stranded_strong (s : st) : Prop :=
  MChanProofs.nobody_runnable s /\
  exists t, (t < nthr s)%nat /\ status_of s t = SBlocked /\
            ~ (MChanProofs.blocked_sender s t /\ MChanProofs.occupancy s = csize s) /\
            ~ (MChanProofs.blocked_receiver s t /\ MChanProofs.occupancy s = 0).

Theorem no_stranded_strong :
  forall (k : nat) (progs : list (list mop)) (s : st),
    reachable M (init k progs) s -> ~ stranded_strong s.
Proof.
  intros k progs s R (HQ & t & Ht & Hb & N1 & N2).
  destruct (quiescent_shape k progs s R HQ t Ht) as [E|[E|E]]; [congruence|auto|auto].
Qed.

Lemma stranded_strong_of_stranded s : MChanProofs.stranded s -> stranded_strong s.
Proof.
  intros (HQ & [(t & Hbs & Ho)|(t & Hbr & Ho)]); split; try exact HQ; exists t.
  - destruct Hbs as (Ht & Hb & v & Ha). split; [exact Ht|]. split; [exact Hb|]. split.
    + intros (_ & E). lia.
    + intros ((_ & _ & Ha') & _). congruence.
  - destruct Hbr as (Ht & Hb & Ha). split; [exact Ht|]. split; [exact Hb|]. split.
    + intros ((_ & _ & v & Ha') & _). congruence.
    + intros (_ & E). lia.
Qed.

(* the full statement announced in Properties_C11.v *)
Theorem no_stranded :
  forall (k : nat) (progs : list (list mop)) (s : st),
    reachable M (init k progs) s -> ~ MChanProofs.stranded s.
Proof.
  intros k progs s R H. apply (no_stranded_strong k progs s R). apply stranded_strong_of_stranded. exact H.
Qed.

(* the credit invariant itself, for states that are not quiescent: while a fiber is queued
   on the list of kind kk, what the buffer still allows to that kind is covered by fibers
   that are active for that kind (they will make an attempt of that kind before they sleep
   on the channel) or by a pending pop of that list *)
Theorem wake_credit :
  forall (k : nat) (progs : list (list mop)) (x : gst) (kk : bool),
    greach false k progs x -> cq x (lcell kk) <> [] -> avail x kk <= Z.of_nat (cover x kk).
Proof. intros k progs x kk G. apply (V_cov x (greach_cov k progs x G)). Qed.
