(* C11, multi channel: "no stranded sender / receiver" on the FAITHFUL model
   coq/MChan.v (two-list protocol, onelist = false) -- part 1: definitions.

   The abstract argument (MChanAbs.Inv2, wake credits) is carried out directly
   on the concrete states, over the ghost ownership machine of MChanExclBase.v
   (roles, gq, hand, debt, cq, chand), for ARBITRARY programs (a fiber may mix
   sends and receives; MChanAbs fixes one kind per fiber):
     acts S ch  = the kind (true = send) of the attempt the fiber with stack S
                  will make a decision for before it sleeps on the channel
                  (None: finished, or blocked on the channel and not yet popped)
     ppb k S    = the lock holder has committed an operation and is about to pop
                  the waiter list of kind k (between the high / low write and
                  the write that unlinks the top of the list)
     cover k    = number of fibers active for kind k + pending pops of list k
     avail k    = what kind k could still do to the buffer: size - (high - low)
                  for sends, high - low for receives
   credit invariant (V_cov): list k non-empty -> avail k <= cover k. *)
From Coq Require Import List ZArith Lia Bool Arith.
From LF Require Import Conc T1K MChan MChanExclBase.
Import ListNotations.
Local Open Scope Z_scope.

(* the client continuation at the bottom of a stack (= MChanProofs2.bottom) *)
Fixpoint bot (S : stack mc) : option mc :=
  match S with
  | [] => None
  | FC c :: [] => Some c
  | _ :: r => bot r
  end.

Definition ak (a : att) : bool := match a with ASend _ => true | ARecv => false end.
Definition hk (p : list mop) : option bool :=
  match p with [] => None | OSend _ :: _ => Some true | ORecv :: _ => Some false end.
Definition lcell (k : bool) : nat := if k then c_waiters else c_rwaiters.

Definition acts (S : stack mc) (ch : chst) : option bool :=
  match bot S with
  | None => None
  | Some c =>
    match c with
    | MNext p _ => hk p
    | MLocked a _ _ | MHigh a _ _ | MLow a _ _ _ => Some (ak a)
    | MSIdx _ _ _ | MSBuf _ _ | MSHigh2 _ _ => Some true
    | MRIdx _ _ | MRBuf _ _ _ | MRClr _ _ _ | MRLow2 _ _ _ => Some false
    | MWk0 _ _ _ _ => match S with CWrite c _ :: _ => Some (Nat.eqb c c_high) | _ => None end
    | MWk1 _ _ p _ | MWk2 _ _ p _ | MWk3 _ _ _ p _ | MWk4 _ _ p _ | MWk5 _ _ p _ | MWk6 _ _ p _
    | MUnl _ p _ => hk p
    | MWt1 _ _ _ | MWt2 _ _ _ | MWt3 _ _ _ | MWt4 _ _ _ => None
    | MWt5 a _ _ => match ch with CQueued => None | _ => Some (ak a) end
    end
  end.

Definition ppb (k : bool) (S : stack mc) : bool :=
  match bot S with
  | Some (MWk1 c0 _ _ _) | Some (MWk2 c0 _ _ _) | Some (MWk3 c0 _ _ _ _) => Nat.eqb c0 (lcell k)
  | Some (MWk4 _ _ _ _) => match S with CWrite c0 _ :: _ => Nat.eqb c0 (lcell k) | _ => false end
  | _ => false
  end.

Definition b2n (b : bool) : nat := if b then 1%nat else O.
Definition isk (o : option bool) (k : bool) : bool :=
  match o with Some k' => Bool.eqb k' k | None => false end.
Definition weight (k : bool) (S : stack mc) (ch : chst) : nat :=
  (b2n (isk (acts S ch) k) + b2n (ppb k S))%nat.

Fixpoint sumn (f : nat -> nat) (n : nat) : nat :=
  match n with O => O | S n' => (sumn f n' + f n')%nat end.

Definition wof (x : gst) (k : bool) (t : nat) : nat := weight k (stk (gb x) t) (chand x t).
Definition cover (x : gst) (k : bool) : nat := sumn (wof x k) (nthr (gb x)).

Definition occ (x : gst) : Z := cell (mem (gb x)) c_high - cell (mem (gb x)) c_low.
Definition avail (x : gst) (k : bool) : Z := if k then csize (gb x) - occ x else occ x.

(* what a fiber knows about the counters, by continuation *)
Definition tfact (x : gst) (t : nat) : Prop :=
  let C := cell (mem (gb x)) in
  let S := stk (gb x) t in
  match bot S with
  | Some (MLow _ hi _ _) => hi = C c_high
  | Some (MWk0 c0 _ _ _) =>
      match S with
      | CWrite c v :: _ => (c = c_high /\ v = C c_high + 1 /\ c0 = c_rwaiters) \/
                           (c = c_low /\ v = C c_low + 1 /\ c0 = c_waiters)
      | _ => True
      end
  | Some (MWt1 a _ _) | Some (MWt2 a _ _) | Some (MWt4 a _ _) => avail x (ak a) <= 0
  | Some (MWt3 a _ _) =>
      avail x (ak a) <= 0 /\ match S with CWrite c0 _ :: _ => c0 = lcell (ak a) | _ => True end
  | Some (MWt5 a _ _) => role x t = Owner -> avail x (ak a) <= 0
  | _ => True
  end.

(* bottom continuation of a fiber waiting on the channel, for attempt a *)
Definition waits (S : stack mc) (a : att) : Prop :=
  exists p k, bot S = Some (MWt5 a p k) \/ bot S = Some (MWt4 a p k).

Record Cov (x : gst) : Prop := {
  V_ol : onelist (gb x) = false;
  V_cov : forall k, cq x (lcell k) <> [] -> avail x k <= Z.of_nat (cover x k);
  V_thr : forall t, tfact x t;
  V_in : forall k t, In t (cq x (lcell k)) ->
         (t < nthr (gb x))%nat /\ exists a, waits (stk (gb x) t) a /\ ak a = k;
  V_q : forall t a, waits (stk (gb x) t) a -> chand x t = CQueued -> In t (cq x (lcell (ak a)))
}.

(* ---------------- sums ---------------- *)
Lemma sumn_ext f g n : (forall t, (t < n)%nat -> f t = g t) -> sumn f n = sumn g n.
Proof.
  induction n as [|n IH]; intros H; [reflexivity|]. cbn.
  rewrite IH, (H n) by (intros; auto with arith). reflexivity.
Qed.

Lemma sumn_upd f g n t : (t < n)%nat -> (forall u, u <> t -> f u = g u) ->
  (sumn f n + g t = sumn g n + f t)%nat.
Proof.
  induction n as [|n IH]; intros Ht H; [lia|]. cbn.
  destruct (Nat.eq_dec t n) as [->|N].
  - rewrite (sumn_ext f g n) by (intros u Hu; apply H; lia). lia.
  - rewrite (H n) by congruence. assert (t < n)%nat by lia. specialize (IH H0 H). lia.
Qed.

Lemma sumn_pos f n : (0 < sumn f n)%nat -> exists t, (t < n)%nat /\ (0 < f t)%nat.
Proof.
  induction n as [|n IH]; cbn; [lia|]. intros H.
  destruct (Nat.eq_dec (f n) 0) as [E|E].
  - destruct IH as (t & Ht & Hf); [lia|]. exists t. split; [lia|exact Hf].
  - exists n. split; lia.
Qed.

(* ---------------- one kernel step of a fiber outside the critical section ---------------- *)
(* frames of lock / unlock / yield / wait / wake (no client access, no client continuation) *)
Definition kfr (f : frame mc) : bool :=
  match f with
  | Start | YRead | YNext _ | SwRead | SwReady | SwDone | MRead | MFlip | MSlots
  | Asleep | Resume | YLoop
  | WSaving _ | WData _ | WNext _ _ | WXchg _ _ | WLink _ _ _
  | KHead _ _ _ | KNext _ _ _ _ | KSetHead _ _ _ _ _ | KData _ _ _ _ _
  | KCopy _ _ _ _ _ | KOut _ _ _ _ | KState _ _ _ _ | KReady _ _ _ _ | KSpin _ _ _
  | LSub _ | LWaited | UAdd _ | UWoke | UYield | UDone => true
  | _ => false
  end.

Lemma bot_app l c : forallb kfr l = true -> bot (l ++ [FC c]) = Some c.
Proof.
  induction l as [|f l IH]; [reflexivity|]. cbn [forallb app]. intros H.
  apply andb_prop in H. destruct H as [Hf Hl]. specialize (IH Hl).
  destruct f; try discriminate; cbn; (destruct (l ++ [FC c]) eqn:E; [destruct l; discriminate|exact IH]).
Qed.

Lemma wake_cell m f : cell (wake m f) = cell m.
Proof. unfold wake. destruct (blocked m f); reflexivity. Qed.

Section KStep.
Variable ol : bool.
Variable size : Z.
Variable t : nat.

Lemma cret_cell m c v : cell (fst (fst (cret ol size m t c v))) = cell m.
Proof.
  destruct c; cbn; try reflexivity.
  - destruct a; [destruct (hi - v <? size)|destruct (v <? hi)]; reflexivity.
  - destruct (v =? 0); reflexivity.
  - apply wake_cell.
Qed.

(* the result keeps the bottom continuation c under kernel frames, or control returned into c *)
Definition kp (m0 : kmem) (c : mc) (R : kmem * list Z * stack mc) : Prop :=
  let '(m1, e1, s1) := R in
  cell m1 = cell m0 /\
  ((exists l', s1 = l' ++ [FC c] /\ forallb kfr l' = true) \/
   (exists m' v', s1 = snd (cret ol size m' t c v') ++ [])).

Ltac kp_frames l c Hl Hm :=
  split; [try exact Hm; try (rewrite wake_cell; exact Hm); try reflexivity|];
  left;
  match goal with
  | |- exists l', ?a :: ?b :: ?d :: l ++ [FC c] = _ /\ _ => exists (a :: b :: d :: l); split; [reflexivity|exact Hl]
  | |- exists l', ?a :: ?b :: l ++ [FC c] = _ /\ _ => exists (a :: b :: l); split; [reflexivity|exact Hl]
  | |- exists l', ?a :: l ++ [FC c] = _ /\ _ => exists (a :: l); split; [reflexivity|exact Hl]
  | |- exists l', l ++ [FC c] = _ /\ _ => exists l; split; [reflexivity|exact Hl]
  end.

Lemma sleep_kp m0 m l c :
  forallb kfr l = true -> cell m = cell m0 -> kp m0 c (sleep mc m t (l ++ [FC c])).
Proof.
  intros Hl Hm. unfold sleep, kp. destruct (pend m t); cbn; kp_frames l c Hl Hm.
Qed.

Lemma run_slots_kp m0 m l c :
  forallb kfr l = true -> cell m = cell m0 -> slot_wait m t = None ->
  kp m0 c (run_slots mc m t (l ++ [FC c])).
Proof.
  intros Hl Hm Hw. unfold run_slots.
  set (R1 := if slot_sched m t then (wake (set_slot_sched m t false) t, ev t 901 919 (Zn t)) else (m, [])).
  assert (H1 : cell (fst R1) = cell m0 /\ slot_wait (fst R1) t = None).
  { unfold R1. destruct (slot_sched m t); cbn [fst]; [|auto]. rewrite wake_cell. split; [exact Hm|].
    unfold wake. destruct (blocked _ t); exact Hw. }
  destruct R1 as [m1 e1]. cbn [fst] in H1. destruct H1 as [C1 W1].
  set (m2 := match slot_mpmc m1 t with
             | Some q => set_mq (set_slot_mpmc m1 t None) q (mq m1 q ++ [t])
             | None => m1 end).
  assert (H2 : cell m2 = cell m0 /\ slot_wait m2 t = None).
  { unfold m2. destruct (slot_mpmc m1 t); auto. }
  destruct H2 as [C2 W2]. clearbody m2.
  destruct (slot_mutex m2 t) as [q|].
  - unfold kp. cbn. kp_frames l c Hl C2.
  - rewrite W2. pose proof (sleep_kp m0 m2 l c Hl C2) as K.
    destruct (sleep mc m2 t (l ++ [FC c])) as [[m3 e3] s3]. exact K.
Qed.
End KStep.

Section KStep2.
Variable ol : bool.
Variable size : Z.
Variable t : nat.
Notation kp := (kp ol size t).

Ltac kp_frames l c Hl Hm :=
  split; [try exact Hm; try (rewrite wake_cell; exact Hm); try reflexivity|];
  left;
  match goal with
  | |- exists l', ?a :: ?b :: ?d :: l ++ [FC c] = _ /\ _ => exists (a :: b :: d :: l); split; [reflexivity|exact Hl]
  | |- exists l', ?a :: ?b :: l ++ [FC c] = _ /\ _ => exists (a :: b :: l); split; [reflexivity|exact Hl]
  | |- exists l', ?a :: l ++ [FC c] = _ /\ _ => exists (a :: l); split; [reflexivity|exact Hl]
  | |- exists l', l ++ [FC c] = _ /\ _ => exists l; split; [reflexivity|exact Hl]
  end.

Lemma wake_slot_wait m f u : slot_wait (wake m f) u = slot_wait m u.
Proof. unfold wake. destruct (blocked m f); reflexivity. Qed.

Lemma ret_kp m0 l c : forall m v,
  forallb kfr l = true -> cell m = cell m0 -> slot_wait m t = None ->
  kp m0 c (ret mc (cret ol size) m t v (l ++ [FC c])).
Proof.
  induction l as [|f l IH]; intros m v Hl Hm Hw.
  - cbn. pose proof (cret_cell ol size t m c v) as Cc.
    destruct (cret ol size m t c v) as [[m1 e1] s1] eqn:E. cbn in Cc. split; [congruence|].
    right. exists m, v. rewrite E. reflexivity.
  - cbn [forallb] in Hl. apply andb_prop in Hl. destruct Hl as [Hf Hl].
    destruct f; try discriminate; cbn [app ret];
      try (apply IH; assumption);
      try (unfold kp; kp_frames l c Hl Hm).
    + (* MSlots *) apply run_slots_kp; assumption.
    + (* KSpin *) unfold kloop. destruct (wc <? cnt).
      * unfold kp. kp_frames l c Hl Hm.
      * apply IH; assumption.
    + (* UYield *) destruct (v =? 1).
      * unfold kp. kp_frames l c Hl Hm.
      * apply IH; assumption.
Qed.
End KStep2.

Section KStep3.
Variable ol : bool.
Variable size : Z.
Variable t : nat.
Notation kp := (kp ol size t).

Ltac kp_frames l c Hl Hm :=
  split; [try exact Hm; try (rewrite wake_cell; exact Hm); try reflexivity|];
  left;
  match goal with
  | |- exists l', ?a :: ?b :: ?d :: l ++ [FC c] = _ /\ _ => exists (a :: b :: d :: l); split; [reflexivity|exact Hl]
  | |- exists l', ?a :: ?b :: l ++ [FC c] = _ /\ _ => exists (a :: b :: l); split; [reflexivity|exact Hl]
  | |- exists l', ?a :: l ++ [FC c] = _ /\ _ => exists (a :: l); split; [reflexivity|exact Hl]
  | |- exists l', l ++ [FC c] = _ /\ _ => exists l; split; [reflexivity|exact Hl]
  end.

Ltac kp_ret m0 l c Hl :=
  match goal with
  | |- context [ret mc ?cr ?mm t ?v (l ++ [FC c])] =>
      let K := fresh "K" in
      assert (K : kp m0 c (ret mc cr mm t v (l ++ [FC c])));
      [ apply (ret_kp ol size t m0 l c mm v Hl);
        [ try reflexivity; try (rewrite wake_cell; reflexivity)
        | try assumption; try (rewrite wake_slot_wait; assumption) ]
      | destruct (ret mc cr mm t v (l ++ [FC c])) as [[? ?] ?]; exact K ]
  end.

Ltac kp_rs m0 l c :=
  match goal with
  | |- context [run_slots mc ?mm t (l ++ [FC c])] =>
      let K := fresh "K" in
      assert (K : kp m0 c (run_slots mc mm t (l ++ [FC c])))
        by (apply run_slots_kp; (assumption || reflexivity));
      destruct (run_slots mc mm t (l ++ [FC c])) as [[? ?] ?]; exact K
  end.

Lemma ksched_kp m0 m q cnt wc f e l c :
  forallb kfr l = true -> cell m = cell m0 -> slot_wait m t = None ->
  kp m0 c (ksched mc (cret ol size) m t q cnt wc f e (l ++ [FC c])).
Proof.
  intros Hl Hm Hw. unfold ksched, kloop.
  destruct (wc + 1 <? cnt).
  - unfold kp. kp_frames l c Hl Hm.
  - assert (K : kp m0 c (ret mc (cret ol size) (wake m f) t (wc + 1) (l ++ [FC c]))).
    { apply ret_kp; [exact Hl|rewrite wake_cell; exact Hm|rewrite wake_slot_wait; exact Hw]. }
    destruct (ret mc (cret ol size) (wake m f) t (wc + 1) (l ++ [FC c])) as [[? ?] ?]. exact K.
Qed.

(* one step of a fiber whose stack is kernel frames over the continuation c *)
Lemma kstep_kp m f l c :
  kfr f = true -> forallb kfr l = true -> slot_wait m t = None ->
  kp m c (kstepC ol size m t (f :: l ++ [FC c])).
Proof.
  intros Hf Hl Hw.
  destruct f; try discriminate; unfold kstepC; cbn [kstep].
  all: repeat match goal with
              | |- kp _ _ (if ?b then _ else _) => destruct b
              | |- kp _ _ (match nnext ?m ?h with O => _ | S _ => _ end) => destruct (nnext m h)
              | |- kp _ _ (match kloop _ _ _ _ with Some _ => _ | None => _ end) => unfold kloop
              | |- kp _ _ (match (if ?b then _ else _) with Some _ => _ | None => _ end) => destruct b
              end.
  all: try (kp_ret m l c Hl).
  all: try (unfold kp; kp_frames l c Hl (eq_refl (cell m))).
  all: try (apply ksched_kp; (assumption || reflexivity)).
  all: try (kp_rs m l c).
Qed.
End KStep3.
