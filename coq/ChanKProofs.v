(* C11: the signal protocol of include/fiber_signal.h on the ChanK machine.
   Invariant J (for the single waiting fiber w of the documented discipline):
   the signal word is NO_WAITER, RAISED or w itself; while w is registered and
   on its way to sleep / asleep, either the word still names w, or exactly one
   raiser has taken w out of the word and is committed to waking it (and makes
   it READY only after w's maintenance has set the ready-to-wake marker), or
   the wake-up has been delivered.  Arbitrary programs for w (wait, raise,
   channel operations); the other threads may do anything except wait. *)
From Coq Require Import List ZArith Lia Bool Arith.
From LF Require Import Conc T1K ChanK ChanKBase.
Import ListNotations.
Local Open Scope Z_scope.

(* ---------- the single-waiter discipline ---------- *)
Definition waits (o : cop) : bool :=
  match o with OWait | OURecv | OBRecv => true | _ => false end.
Definition nowait_p (p : list cop) : bool := forallb (fun o => negb (waits o)) p.

(* only fiber w ever calls fiber_signal_wait (directly or through a blocking receive) *)
Definition single_waiter (w : nat) (progs : list (list cop)) : Prop :=
  forall t, t <> w -> nowait_p (nth t progs []) = true.

(* a client continuation from which no wait can be reached *)
Definition nowait_c (c : cc) : bool :=
  match c with
  | KNext p _ => nowait_p p
  | KWClr _ _ _ | KWCas _ _ _ | KWSlept _ _ _ | KWClr2 _ _ _ | KWEnd _ _ _ => false
  | KRX p _ | KRSt _ p _ | KRSpin _ p _ | KRRdy _ p _ => nowait_p p
  | KUData _ p _ | KUNull _ p _ | KUXchg _ p _ | KULink p _ => nowait_p p
  | KUHead blk p _ | KUNxt blk _ p _ => negb blk && nowait_p p
  | KUSetHead _ _ p _ | KURead _ p _ | KUWrite _ p _ | KUUse p _ => nowait_p p
  | KBLow _ p _ | KBHigh _ _ p _ | KBSlot _ _ _ p _ | KBCas _ _ p _ | KBWrite p _ | KBYield _ p _ => nowait_p p
  | KQHigh blk p _ | KQLow blk _ p _ | KQSlot blk _ _ p _ => negb blk && nowait_p p
  | KQClear _ _ p _ | KQStore _ p _ => nowait_p p
  end.

Fixpoint bottom (s : stack cc) : option cc :=
  match s with
  | [] => None
  | f :: r => match r with
              | [] => match f with FC c => Some c | _ => None end
              | _ => bottom r
              end
  end.

Definition nowait_stk (s : stack cc) : bool :=
  match bottom s with Some c => nowait_c c | None => true end.

(* ---------- where the waiter is ---------- *)
Inductive phase :=
| PhStart                 (* before its first step *)
| PhOut                   (* not inside fiber_signal_wait *)
| PhPre0 | PhPre1         (* wait: about to clear scratch / about to CAS *)
| PhReg0                  (* CAS succeeded: about to set state WAITING *)
| PhRegY (y : yfr)        (* yielding towards sleep: slots armed *)
| PhMSet                  (* maintenance about to write the marker *)
| PhAsleep                (* marker set; sleeping or woken and not yet resumed *)
| PhResume                (* granted after the wake-up: about to set RUNNING *)
| PhWokeY (y : yfr)       (* the yield loop after resuming *)
| PhPost0 | PhPost1       (* about to clear scratch / about to clear the word *)
| PhBad.

Definition is_some {A} (o : option A) : bool := match o with Some _ => true | None => false end.

Definition wph (m : kmem) (t : nat) (s : stack cc) : phase :=
  match s with
  | [] => PhOut
  | [Start; FC _] => PhStart
  | [CWrite _ _; FC (KWClr _ _ _)] => PhPre0
  | [CCasC _ _ _ _; FC (KWCas _ _ _)] => PhPre1
  | [SWState _ _; FC (KWSlept _ _ _)] => PhReg0
  | [YRead; FC (KWSlept _ _ _)] => if is_some (slot_wait m t) then PhRegY YfRead else PhWokeY YfRead
  | [YNext st; FC (KWSlept _ _ _)] =>
      if is_some (slot_wait m t) then (if st =? ST_WAITING then PhRegY (YfNext st) else PhBad)
      else (if st =? ST_RUNNING then PhWokeY (YfNext st) else PhBad)
  | [SwRead; YLoop; FC (KWSlept _ _ _)] => PhRegY YfSwRead
  | [SwDone; YLoop; FC (KWSlept _ _ _)] => PhRegY YfSwDone
  | [MRead; YLoop; FC (KWSlept _ _ _)] => PhRegY YfMRead
  | [MSetWait c v; YLoop; FC (KWSlept _ _ _)] =>
      if (Nat.eqb c (c_scr t)) && (v =? READY_TO_WAKE) then PhMSet else PhBad
  | [Asleep; YLoop; FC (KWSlept _ _ _)] => PhAsleep
  | [Resume; YLoop; FC (KWSlept _ _ _)] => PhResume
  | [CWrite _ _; FC (KWClr2 _ _ _)] => PhPost0
  | [CStoreC _ _ _; FC (KWEnd _ _ _)] => PhPost1
  | [YRead; FC (KBYield _ _ _)] => PhOut
  | [YNext st; FC (KBYield _ _ _)] => if st =? ST_RUNNING then PhOut else PhBad
  | [_; FC _] => PhOut
  | _ => PhBad
  end.

(* registered and not yet resumed *)
Definition in_reg (p : phase) : bool :=
  match p with PhReg0 | PhRegY _ | PhMSet | PhAsleep => true | _ => false end.

(* the fiber a raiser has taken out of the word and must wake *)
Definition claims (s : stack cc) : option nat :=
  match s with
  | [CStoreC _ _ _; FC (KRSt f _ _)] => Some f
  | [CRead _; FC (KRSpin f _ _)] => Some f
  | [FStWrite _ _; FC (KRRdy f _ _)] => Some f
  | _ => None
  end.

Definition at_rdy (s : stack cc) : bool :=
  match s with [FStWrite _ _; FC (KRRdy _ _ _)] => true | _ => false end.

Section Inv.
  Variable w : nat.

  Definition word (s : st) : Z := cell (mem s) c_waiter.
  Definition scr (s : st) : Z := cell (mem s) (c_scr w).
  Definition ph (s : st) : phase := wph (mem s) w (stk s w).

  Definition quiet_slots (m : kmem) : Prop :=
    slot_wait m w = None /\ slot_sched m w = false /\ slot_mpmc m w = None.
  Definition armed_slots (m : kmem) : Prop :=
    slot_wait m w = Some (c_scr w, READY_TO_WAKE) /\ slot_sched m w = false /\ slot_mpmc m w = None.

  (* what holds of w's private state in each phase *)
  Definition local_ok (s : st) : Prop :=
    let m := mem s in
    match ph s with
    | PhStart => quiet_slots m /\ blocked m w = false
    | PhOut | PhPre0 | PhPost0 | PhPost1 =>
        quiet_slots m /\ fstate m w = ST_RUNNING /\ blocked m w = false
    | PhPre1 | PhReg0 =>
        quiet_slots m /\ fstate m w = ST_RUNNING /\ blocked m w = false /\ scr s = 0
    | PhRegY y =>
        armed_slots m /\ fstate m w = ST_WAITING /\ blocked m w = false /\ scr s = 0 /\
        match y with YfRead | YfNext _ | YfSwRead | YfSwDone | YfMRead => True | _ => False end
    | PhMSet => quiet_slots m /\ fstate m w = ST_WAITING /\ blocked m w = false /\ scr s = 0
    | PhAsleep =>
        quiet_slots m /\ scr s = READY_TO_WAKE /\
        ((blocked m w = true /\ fstate m w = ST_WAITING) \/
         (blocked m w = false /\ fstate m w = ST_READY /\ word s <> fname w /\
          forall r, claims (stk s r) = None))
    | PhResume => quiet_slots m /\ blocked m w = false
    | PhWokeY y =>
        quiet_slots m /\ fstate m w = ST_RUNNING /\ blocked m w = false /\
        match y with YfRead | YfNext _ => True | _ => False end
    | PhBad => False
    end.

  (* the other threads: never in a wait, never past a yield's state test
     (their state is RUNNING, so fiber_yield returns at once) *)
  Definition ostk_ok (s : stack cc) : bool :=
    nowait_stk s &&
    match s with
    | [] => true
    | [YNext st; FC _] => st =? ST_RUNNING
    | [_; FC _] => true
    | _ => false
    end.
  Definition is_start (s : stack cc) : bool := match s with [Start; FC _] => true | _ => false end.

  Definition no_claims (s : st) : Prop := forall r, claims (stk s r) = None.

  Record J (s : st) : Prop := {
    j_base : BInv s;
    j_dom : word s = NO_WAITER \/ word s = RAISED \/ word s = fname w;
    j_others : forall t, t <> w -> ostk_ok (stk s t) = true /\
                                   (is_start (stk s t) = true \/ fstate (mem s) t = ST_RUNNING);
    j_pend : pend (mem s) w = O;
    j_loc : local_ok s;
    j_claim_w : forall r f, claims (stk s r) = Some f -> f = w /\ r <> w;
    j_claim_uni : forall r r', claims (stk s r) <> None -> claims (stk s r') <> None -> r = r';
    j_reg : word s = fname w -> in_reg (ph s) = true /\ no_claims s;
    j_claimed : forall r, claims (stk s r) <> None -> in_reg (ph s) = true /\ word s <> fname w;
    j_rdy : forall r, at_rdy (stk s r) = true -> ph s = PhAsleep;
    j_woken : in_reg (ph s) = true -> word s <> fname w -> no_claims s ->
              ph s = PhAsleep /\ blocked (mem s) w = false
  }.
End Inv.

(* ---------- small facts ---------- *)
Lemma tid_of_fname f : tid_of_name (fname f) = f.
Proof. unfold tid_of_name, fname, Zn. replace (1000 + Z.of_nat f - 1000) with (Z.of_nat f) by lia. apply Nat2Z.id. Qed.

Lemma fname_ge f : 1000 <= fname f.
Proof. unfold fname, Zn. lia. Qed.

Lemma fname_inj t u : fname t = fname u -> t = u.
Proof. unfold fname, Zn. lia. Qed.

Ltac cells := unfold c_waiter, c_head, c_tail, c_high, c_low, c_scr, c_buf, c_dat, c_nxt in *; lia.

Lemma nowait_start t p k : nowait_p p = true -> nowait_stk (start t p k) = true.
Proof.
  destruct p as [|o r]; cbn; auto.
  destruct o; cbn; intros H; try discriminate; auto.
Qed.

Lemma ostk_start t p k : nowait_p p = true -> ostk_ok (start t p k) = true.
Proof.
  intros H. unfold ostk_ok. rewrite (nowait_start t p k H).
  destruct p as [|o r]; cbn; auto. destruct o; cbn in *; try discriminate; auto.
Qed.

Lemma claims_start t p k : claims (start t p k) = None.
Proof. destruct p as [|o r]; cbn; auto. destruct o; reflexivity. Qed.

Lemma at_rdy_start t p k : at_rdy (start t p k) = false.
Proof. destruct p as [|o r]; cbn; auto. destruct o; reflexivity. Qed.

Lemma at_rdy_claims s : at_rdy s = true -> claims s <> None.
Proof.
  intros H E. destruct s as [|f [|g [|h r]]]; cbn in *; try discriminate;
    destruct f; try discriminate; destruct g; try discriminate; destruct c; discriminate.
Qed.

Lemma ph_start m t p k : wph m t (start t p k) = PhOut \/ wph m t (start t p k) = PhPre0.
Proof. destruct p as [|o r]; cbn; auto. destruct o; cbn; auto. Qed.

Lemma init_J w size progs : single_waiter w progs -> J w (init size progs).
Proof.
  intros H. constructor.
  - apply init_binv.
  - left. reflexivity.
  - intros t Ht. cbn. split; auto. unfold ostk_ok, nowait_stk. cbn. rewrite (H t Ht). reflexivity.
  - reflexivity.
  - cbn. unfold quiet_slots. cbn. auto.
  - intros r f A. cbn in A. discriminate.
  - intros r r' A. cbn in A. congruence.
  - intros A. exfalso. cbn in A. pose proof (fname_ge w). lia.
  - intros r A. cbn in A. congruence.
  - intros r A. cbn in A. discriminate.
  - intros A. cbn in A. discriminate.
Qed.

(* ---------- everything J says about w depends only on this view ---------- *)
Definition wv (w : nat) (s : st) :=
  (cell (mem s) c_waiter, cell (mem s) (c_scr w), fstate (mem s) w, blocked (mem s) w, pend (mem s) w,
   slot_wait (mem s) w, slot_sched (mem s) w, slot_mpmc (mem s) w, stk s w).

Lemma J_transfer w s s' :
  J w s -> BInv s' -> wv w s' = wv w s ->
  (forall r, claims (stk s' r) = claims (stk s r)) ->
  (forall r, at_rdy (stk s' r) = at_rdy (stk s r)) ->
  (forall t, t <> w -> ostk_ok (stk s' t) = true /\
                       (is_start (stk s' t) = true \/ fstate (mem s') t = ST_RUNNING)) ->
  J w s'.
Proof.
  intros Hj B V C R O. unfold wv in V.
  injection V as V1 V2 V3 V4 V5 V6 V7 V8 V9.
  assert (Pw : word s' = word s) by exact V1.
  assert (Ps : scr w s' = scr w s) by exact V2.
  assert (Pp : ph w s' = ph w s).
  { unfold ph. rewrite V9. unfold wph. rewrite V6. reflexivity. }
  assert (Pn : no_claims s' <-> no_claims s).
  { unfold no_claims. split; intros A r; [rewrite <- C | rewrite C]; apply A. }
  destruct Hj as [Jb Jd Jo Jp Jl Jcw Jcu Jr Jc Jrd Jw].
  constructor; auto.
  - rewrite Pw. exact Jd.
  - rewrite V5. exact Jp.
  - unfold local_ok in *. rewrite Pp. unfold quiet_slots, armed_slots in *.
    rewrite ?V3, ?V4, ?V6, ?V7, ?V8, ?Ps, ?Pw.
    destruct (ph w s); auto.
    destruct Jl as (A & B0 & D). split; [exact A|]. split; [exact B0|].
    destruct D as [D|(D1 & D2 & D3 & D4)]; [left; exact D | right].
    split; [exact D1|]. split; [exact D2|]. split; [exact D3|].
    intros r. rewrite C. apply D4.
  - intros r f. rewrite C. apply Jcw.
  - intros r r'. rewrite !C. apply Jcu.
  - rewrite Pw, Pp, Pn. exact Jr.
  - intros r. rewrite C, Pw, Pp. apply Jc.
  - intros r. rewrite R, Pp. apply Jrd.
  - rewrite Pp, Pw, Pn, V4. exact Jw.
Qed.

Lemma stk_step_other s t u : u <> t -> stk (fst (step s t)) u = stk s u.
Proof.
  intros H. unfold step. destruct (kstep cc (cret (csize s)) (mem s) t (stk s t)) as [[m1 e1] s1].
  cbn. apply upd_other. exact H.
Qed.

Lemma ostk_ok_nowait s : ostk_ok s = true -> nowait_stk s = true.
Proof. unfold ostk_ok. intros H. apply andb_true_iff in H. tauto. Qed.

(* a step of another thread that is neither a raise's exchange nor a step of a claim holder *)
Definition quiet_res (w t : nat) (m : kmem) (res : kmem * list Z * stack cc) : Prop :=
  let '(m1, e1, s1) := res in
  cell m1 c_waiter = cell m c_waiter /\ cell m1 (c_scr w) = cell m (c_scr w) /\
  (forall u, u <> t -> fstate m1 u = fstate m u) /\ fstate m1 t = ST_RUNNING /\
  blocked m1 w = blocked m w /\ pend m1 w = pend m w /\ slot_wait m1 w = slot_wait m w /\
  slot_sched m1 w = slot_sched m w /\ slot_mpmc m1 w = slot_mpmc m w /\
  claims s1 = None /\ at_rdy s1 = false /\ ostk_ok s1 = true.

Lemma ostk_ok_intro s : nowait_stk s = true ->
  match s with [] => true | [YNext st; FC _] => st =? ST_RUNNING | [_; FC _] => true | _ => false end = true ->
  ostk_ok s = true.
Proof. intros A B. unfold ostk_ok. rewrite A, B. reflexivity. Qed.

Lemma other_quiet_res w s t :
  t <> w -> BInv s -> ostk_ok (stk s t) = true ->
  (is_start (stk s t) = true \/ fstate (mem s) t = ST_RUNNING) ->
  claims (stk s t) = None ->
  (forall p k, stk s t <> [CXchgC c_waiter RAISED 3; FC (KRX p k)]) ->
  quiet_res w t (mem s) (kstep cc (cret (csize s)) (mem s) t (stk s t)).
Proof.
  intros Htw B Ho0 Hf Hc Hx.
  unfold ostk_ok in Ho0. apply andb_true_iff in Ho0. destruct Ho0 as [Ho Ho2]. unfold nowait_stk in Ho.
  pose proof (b_shape s B t) as Sh.
  remember (stk s t) as S eqn:ES. destruct Sh.
  32: (destruct c; try contradiction; destruct y).
  all: cbn in Ho, Ho2; try discriminate Ho; try discriminate Ho2.
  all: try (exfalso; eapply Hx; reflexivity).
  all: try discriminate Hc.
  all: try (destruct blk; cbn in Ho; try discriminate Ho).
  all: rewrite ?andb_true_r in Ho.
  all: try (apply Z.eqb_eq in Ho2; subst st).
  all: cbn in Hf.
  all: try match type of Hf with
           | false = true \/ _ => destruct Hf as [Hf|Hf]; [discriminate Hf|]
           end.
  all: cbn.
  all: repeat match goal with |- context [if ?b then _ else _] => destruct b eqn:? end.
  all: cbn.
  all: rewrite ?app_nil_r.
  all: try (repeat split; fail).
  all: repeat split.
  all: try reflexivity.
  all: try assumption.
  all: try (rewrite upd_other by cells; reflexivity).
  all: try (rewrite claims_start; reflexivity).
  all: try (apply ostk_start; assumption).
  all: try (unfold ostk_ok, nowait_stk; cbn; rewrite ?Ho; reflexivity).
  all: try (intros u Hu; rewrite upd_other by assumption; reflexivity).
  all: try (apply upd_same).
  all: try (apply at_rdy_start).
  rewrite Hf. unfold ostk_ok, nowait_stk; cbn. rewrite Ho. reflexivity.
Qed.

Lemma other_quiet w s t :
  t <> w -> J w s -> claims (stk s t) = None ->
  (forall p k, stk s t <> [CXchgC c_waiter RAISED 3; FC (KRX p k)]) ->
  J w (fst (step s t)).
Proof.
  intros Htw Hj Hc Hx.
  pose proof (j_base w s Hj) as B.
  pose proof (binv_step s t B) as B'.
  destruct (j_others w s Hj t Htw) as [Ho Hf].
  pose proof (other_quiet_res w s t Htw B Ho Hf Hc Hx) as Q.
  revert B' Q. unfold step.
  destruct (kstep cc (cret (csize s)) (mem s) t (stk s t)) as [[m1 e1] s1]. cbn.
  intros B' (Q1 & Q2 & Q3 & Q4 & Q5 & Q6 & Q7 & Q8 & Q9 & Q10 & Q11 & Q12).
  apply (J_transfer w s); auto.
  - unfold wv. cbn. rewrite (upd_other _ t s1 w) by auto.
    rewrite Q1, Q2, (Q3 w) by auto. rewrite Q5, Q6, Q7, Q8, Q9. reflexivity.
  - intros r. cbn. destruct (Nat.eq_dec r t) as [->|Hn].
    + rewrite upd_same. congruence.
    + rewrite upd_other by assumption. reflexivity.
  - intros r. cbn. destruct (Nat.eq_dec r t) as [->|Hn].
    + rewrite upd_same. rewrite Q11. symmetry.
      destruct (at_rdy (stk s t)) eqn:E; auto. apply at_rdy_claims in E. congruence.
    + rewrite upd_other by assumption. reflexivity.
  - intros u Hu. cbn. destruct (Nat.eq_dec u t) as [->|Hn].
    + rewrite upd_same. split; auto.
    + rewrite upd_other by assumption. rewrite (Q3 u) by assumption. apply (j_others w s Hj u Hu).
Qed.

(* ---------- helpers for steps that change the word / the claims ---------- *)
Lemma ph_same w s s' :
  stk s' w = stk s w -> slot_wait (mem s') w = slot_wait (mem s) w -> ph w s' = ph w s.
Proof. intros A B. unfold ph, wph. rewrite A, B. reflexivity. Qed.

(* local_ok only looks at w's private view, and (when w is asleep and woken) at the word and the claims *)
Lemma local_ok_same w s s' :
  stk s' w = stk s w ->
  cell (mem s') (c_scr w) = cell (mem s) (c_scr w) ->
  fstate (mem s') w = fstate (mem s) w -> blocked (mem s') w = blocked (mem s) w ->
  slot_wait (mem s') w = slot_wait (mem s) w -> slot_sched (mem s') w = slot_sched (mem s) w ->
  slot_mpmc (mem s') w = slot_mpmc (mem s) w ->
  (ph w s = PhAsleep -> blocked (mem s) w = false -> word s <> fname w -> no_claims s ->
   word s' <> fname w /\ no_claims s') ->
  local_ok w s -> local_ok w s'.
Proof.
  intros A1 A2 A3 A4 A5 A6 A7 A8 L.
  pose proof (ph_same w s s' A1 A5) as Pp.
  unfold local_ok in *. rewrite Pp. unfold quiet_slots, armed_slots, scr in *.
  rewrite ?A2, ?A3, ?A4, ?A5, ?A6, ?A7.
  destruct (ph w s) eqn:E; auto.
  destruct L as (L1 & L2 & L3). split; [exact L1|]. split; [exact L2|].
  destruct L3 as [L3|(L3 & L4 & L5 & L6)]; [left; exact L3|right].
  destruct (A8 eq_refl L3 L5 L6) as [X Y]. auto.
Qed.

Lemma claims_upd s t x r :
  claims (upd (stk s) t x r) = if Nat.eqb r t then claims x else claims (stk s r).
Proof. unfold upd. destruct (Nat.eqb r t); reflexivity. Qed.

Lemma at_rdy_upd s t x r :
  at_rdy (upd (stk s) t x r) = if Nat.eqb r t then at_rdy x else at_rdy (stk s r).
Proof. unfold upd. destruct (Nat.eqb r t); reflexivity. Qed.

Lemma fname_nz f : (fname f =? NO_WAITER) || (fname f =? RAISED) = false.
Proof.
  pose proof (fname_ge f). apply orb_false_iff. split; apply Z.eqb_neq; unfold NO_WAITER, RAISED; lia.
Qed.

Lemma fname_ne_raised f : RAISED <> fname f.
Proof. pose proof (fname_ge f). unfold RAISED. lia. Qed.
Lemma fname_ne_nowaiter f : NO_WAITER <> fname f.
Proof. pose proof (fname_ge f). unfold NO_WAITER. lia. Qed.

Ltac upd_t t :=
  repeat match goal with
         | |- context [upd _ t _ ?r] =>
             destruct (Nat.eq_dec r t) as [->|?]; [rewrite upd_same | rewrite (upd_other _ t _ r) by assumption]
         | H : context [upd _ t _ ?r] |- _ =>
             destruct (Nat.eq_dec r t) as [->|?]; [rewrite upd_same in H | rewrite (upd_other _ t _ r) in H by assumption]
         end.

Lemma raise_xchg_other w s t p k :
  t <> w -> J w s -> stk s t = [CXchgC c_waiter RAISED 3; FC (KRX p k)] -> J w (fst (step s t)).
Proof.
  intros Htw Hj E.
  pose proof (binv_step s t (j_base w s Hj)) as B'. revert B'.
  assert (Hct : claims (stk s t) = None) by (rewrite E; reflexivity).
  destruct (j_others w s Hj t Htw) as [Ho Hf]. rewrite E in Ho, Hf. cbn in Hf.
  destruct Hf as [Hf|Hf]; [discriminate|].
  unfold ostk_ok, nowait_stk in Ho. cbn in Ho. rewrite andb_true_r in Ho.
  unfold step. rewrite E. cbn.
  destruct (Z.eq_dec (cell (mem s) c_waiter) (fname w)) as [D|D].
  - (* the word names w: t takes it out and is now committed to waking w *)
    rewrite D, fname_nz, tid_of_fname. cbn. intros B'.
    set (s' := {| mem := set_cell (mem s) c_waiter RAISED;
                  stk := upd (stk s) t [CStoreC c_waiter NO_WAITER 5; FC (KRSt w p k)];
                  nthr := nthr s; csize := csize s |}) in *.
    destruct (j_reg w s Hj D) as [Hreg Hnc].
    assert (Pp : ph w s' = ph w s) by (apply ph_same; cbn; [apply upd_other; auto | reflexivity]).
    assert (Pc : forall r, claims (stk s' r) = if Nat.eqb r t then Some w else None).
    { intros r. cbn. rewrite claims_upd. destruct (Nat.eqb_spec r t) as [->|?]; [reflexivity | apply Hnc]. }
    constructor.
    + exact B'.
    + right; left. reflexivity.
    + intros u Hu. cbn. upd_t t.
      * split; [unfold ostk_ok, nowait_stk; cbn; rewrite Ho; reflexivity | right; exact Hf].
      * apply (j_others w s Hj u Hu).
    + exact (j_pend w s Hj).
    + apply (local_ok_same w s s'); cbn; auto; try (apply upd_other; auto; cells).
      * intros _ _ A _. exfalso. apply A. exact D.
      * exact (j_loc w s Hj).
    + intros r f. rewrite Pc. destruct (Nat.eqb_spec r t) as [->|?]; [|discriminate].
      intros A. injection A as <-. auto.
    + intros r r'. rewrite !Pc. destruct (Nat.eqb_spec r t) as [->|?]; [|congruence].
      destruct (Nat.eqb_spec r' t) as [->|?]; congruence.
    + intros A. exfalso. apply (fname_ne_raised w). exact A.
    + intros r _. rewrite Pp. split; [exact Hreg | apply fname_ne_raised].
    + intros r. cbn. rewrite at_rdy_upd. destruct (Nat.eqb_spec r t) as [->|?]; [discriminate|].
      rewrite Pp. apply (j_rdy w s Hj).
    + intros _ _ A. exfalso. specialize (A t). rewrite Pc, Nat.eqb_refl in A. discriminate.
  - (* NO_WAITER or RAISED: the word becomes / stays RAISED, nobody is woken *)
    assert (Hq : (cell (mem s) c_waiter =? NO_WAITER) || (cell (mem s) c_waiter =? RAISED) = true).
    { destruct (j_dom w s Hj) as [A|[A|A]]; unfold word in A; rewrite A; try reflexivity. contradiction. }
    rewrite Hq. cbn. rewrite app_nil_r. intros B'.
    set (s' := {| mem := set_cell (mem s) c_waiter RAISED; stk := upd (stk s) t (start t p (S k)); nthr := nthr s; csize := csize s |}) in *.
    assert (Pp : ph w s' = ph w s) by (apply ph_same; cbn; [apply upd_other; auto | reflexivity]).
    assert (Pc : forall r, claims (stk s' r) = claims (stk s r)).
    { intros r. cbn. rewrite claims_upd. destruct (Nat.eqb_spec r t) as [->|?]; [rewrite claims_start; auto | reflexivity]. }
    assert (Pn : no_claims s' <-> no_claims s).
    { unfold no_claims. split; intros A r; [rewrite <- Pc | rewrite Pc]; apply A. }
    constructor.
    + exact B'.
    + right; left. reflexivity.
    + intros u Hu. cbn. upd_t t.
      * split; [apply ostk_start; exact Ho | right; exact Hf].
      * apply (j_others w s Hj u Hu).
    + exact (j_pend w s Hj).
    + apply (local_ok_same w s s'); cbn; auto; try (apply upd_other; auto; cells).
      * intros _ _ _ A. split; [apply fname_ne_raised | apply Pn; exact A].
      * exact (j_loc w s Hj).
    + intros r f. rewrite Pc. apply (j_claim_w w s Hj).
    + intros r r'. rewrite !Pc. apply (j_claim_uni w s Hj).
    + intros A. exfalso. apply (fname_ne_raised w). exact A.
    + intros r. rewrite Pc, Pp. intros A. destruct (j_claimed w s Hj r A) as [X Y]. split; auto. apply fname_ne_raised.
    + intros r. rewrite Pp. cbn. rewrite at_rdy_upd. destruct (Nat.eqb_spec r t) as [->|?].
      * rewrite at_rdy_start. discriminate.
      * apply (j_rdy w s Hj).
    + rewrite Pp, Pn. intros A _ C. cbn. apply (j_woken w s Hj A); auto.
Qed.

(* the claim holder clears the word *)
Lemma raise_store_step w s t f p k :
  J w s -> stk s t = [CStoreC c_waiter NO_WAITER 5; FC (KRSt f p k)] -> J w (fst (step s t)).
Proof.
  intros Hj E.
  pose proof (binv_step s t (j_base w s Hj)) as B'. revert B'.
  assert (Hct : claims (stk s t) = Some f) by (rewrite E; reflexivity).
  destruct (j_claim_w w s Hj t f Hct) as [-> Htw].
  destruct (j_others w s Hj t Htw) as [Ho Hf]. rewrite E in Ho, Hf. cbn in Hf.
  destruct Hf as [Hf|Hf]; [discriminate|].
  unfold ostk_ok, nowait_stk in Ho. cbn in Ho. rewrite andb_true_r in Ho.
  assert (Hcl : claims (stk s t) <> None) by congruence.
  destruct (j_claimed w s Hj t Hcl) as [Hreg Hne].
  unfold step. rewrite E. cbn. intros B'.
  set (s' := {| mem := set_cell (mem s) c_waiter NO_WAITER;
                stk := upd (stk s) t [CRead (c_scr w); FC (KRSpin w p k)];
                nthr := nthr s; csize := csize s |}) in *.
  assert (Pp : ph w s' = ph w s) by (apply ph_same; cbn; [apply upd_other; auto | reflexivity]).
  assert (Pc : forall r, claims (stk s' r) = claims (stk s r)).
  { intros r. cbn. rewrite claims_upd. destruct (Nat.eqb_spec r t) as [->|?]; [rewrite Hct; reflexivity | reflexivity]. }
  assert (Pn : no_claims s' <-> no_claims s).
  { unfold no_claims. split; intros A r; [rewrite <- Pc | rewrite Pc]; apply A. }
  constructor.
  - exact B'.
  - left. reflexivity.
  - intros u Hu. cbn. upd_t t.
    + split; [unfold ostk_ok, nowait_stk; cbn; rewrite Ho; reflexivity | right; exact Hf].
    + apply (j_others w s Hj u Hu).
  - exact (j_pend w s Hj).
  - apply (local_ok_same w s s'); cbn; auto; try (apply upd_other; auto; cells).
    + intros _ _ _ A. exfalso. specialize (A t). congruence.
    + exact (j_loc w s Hj).
  - intros r f. rewrite Pc. apply (j_claim_w w s Hj).
  - intros r r'. rewrite !Pc. apply (j_claim_uni w s Hj).
  - intros A. exfalso. apply (fname_ne_nowaiter w). exact A.
  - intros r. rewrite Pc, Pp. intros A. split; [exact Hreg | apply fname_ne_nowaiter].
  - intros r. rewrite Pp. cbn. rewrite at_rdy_upd. destruct (Nat.eqb_spec r t) as [->|?]; [discriminate|].
    apply (j_rdy w s Hj).
  - intros _ _ A. exfalso. apply Pn in A. specialize (A t). congruence.
Qed.

(* the claim holder polls w's marker *)
Lemma raise_spin_step w s t f p k :
  J w s -> stk s t = [CRead (c_scr f); FC (KRSpin f p k)] -> J w (fst (step s t)).
Proof.
  intros Hj E.
  pose proof (binv_step s t (j_base w s Hj)) as B'. revert B'.
  assert (Hct : claims (stk s t) = Some f) by (rewrite E; reflexivity).
  destruct (j_claim_w w s Hj t f Hct) as [-> Htw].
  destruct (j_others w s Hj t Htw) as [Ho Hf]. rewrite E in Ho, Hf. cbn in Hf.
  destruct Hf as [Hf|Hf]; [discriminate|].
  unfold ostk_ok, nowait_stk in Ho. cbn in Ho. rewrite andb_true_r in Ho.
  assert (Hcl : claims (stk s t) <> None) by congruence.
  destruct (j_claimed w s Hj t Hcl) as [Hreg Hne].
  unfold step. rewrite E. cbn.
  destruct (cell (mem s) (c_scr w) =? READY_TO_WAKE) eqn:Em; cbn; intros B'.
  - (* marker seen: w's maintenance has run, w is asleep *)
    apply Z.eqb_eq in Em.
    assert (Has : ph w s = PhAsleep).
    { pose proof (j_loc w s Hj) as L. unfold local_ok, scr in L.
      destruct (ph w s); try discriminate Hreg; auto;
        unfold READY_TO_WAKE in *; intuition lia. }
    set (s' := {| mem := mem s; stk := upd (stk s) t [FStWrite w ST_READY; FC (KRRdy w p k)];
                  nthr := nthr s; csize := csize s |}) in *.
    assert (Pp : ph w s' = ph w s) by (apply ph_same; cbn; [apply upd_other; auto | reflexivity]).
    assert (Pc : forall r, claims (stk s' r) = claims (stk s r)).
    { intros r. cbn. rewrite claims_upd. destruct (Nat.eqb_spec r t) as [->|?]; [rewrite Hct; reflexivity | reflexivity]. }
    assert (Pn : no_claims s' <-> no_claims s).
    { unfold no_claims. split; intros A r; [rewrite <- Pc | rewrite Pc]; apply A. }
    constructor.
    + exact B'.
    + exact (j_dom w s Hj).
    + intros u Hu. cbn. upd_t t.
      * split; [unfold ostk_ok, nowait_stk; cbn; rewrite Ho; reflexivity | right; exact Hf].
      * apply (j_others w s Hj u Hu).
    + exact (j_pend w s Hj).
    + apply (local_ok_same w s s'); cbn; auto; try (apply upd_other; auto).
      * intros _ _ _ A. exfalso. specialize (A t). congruence.
      * exact (j_loc w s Hj).
    + intros r f. rewrite Pc. apply (j_claim_w w s Hj).
    + intros r r'. rewrite !Pc. apply (j_claim_uni w s Hj).
    + intros A. exfalso. apply Hne. exact A.
    + intros r. rewrite Pc, Pp. apply (j_claimed w s Hj).
    + intros r _. rewrite Pp. exact Has.
    + intros _ _ A. exfalso. apply Pn in A. specialize (A t). congruence.
  - (* not yet: read again *)
    set (s' := {| mem := mem s; stk := upd (stk s) t [CRead (c_scr w); FC (KRSpin w p k)];
                  nthr := nthr s; csize := csize s |}) in *.
    apply (J_transfer w s); auto.
    + unfold wv. cbn. rewrite upd_other by auto. reflexivity.
    + intros r. cbn. rewrite claims_upd. destruct (Nat.eqb_spec r t) as [->|?]; [rewrite Hct; reflexivity | reflexivity].
    + intros r. cbn. rewrite at_rdy_upd. destruct (Nat.eqb_spec r t) as [->|?]; [rewrite E; reflexivity | reflexivity].
    + intros u Hu. cbn. upd_t t.
      * split; [unfold ostk_ok, nowait_stk; cbn; rewrite Ho; reflexivity | right; exact Hf].
      * apply (j_others w s Hj u Hu).
Qed.

(* the claim holder makes w READY and schedules it: the wake-up is delivered *)
Lemma raise_ready_step w s t f p k :
  J w s -> stk s t = [FStWrite f ST_READY; FC (KRRdy f p k)] -> J w (fst (step s t)).
Proof.
  intros Hj E.
  pose proof (binv_step s t (j_base w s Hj)) as B'. revert B'.
  assert (Hct : claims (stk s t) = Some f) by (rewrite E; reflexivity).
  destruct (j_claim_w w s Hj t f Hct) as [-> Htw].
  destruct (j_others w s Hj t Htw) as [Ho Hf]. rewrite E in Ho, Hf. cbn in Hf.
  destruct Hf as [Hf|Hf]; [discriminate|].
  unfold ostk_ok, nowait_stk in Ho. cbn in Ho. rewrite andb_true_r in Ho.
  assert (Hcl : claims (stk s t) <> None) by congruence.
  destruct (j_claimed w s Hj t Hcl) as [Hreg Hne].
  assert (Has : ph w s = PhAsleep) by (apply (j_rdy w s Hj t); rewrite E; reflexivity).
  pose proof (j_loc w s Hj) as L. unfold local_ok in L. rewrite Has in L.
  destruct L as (Lq & Ls & Lb).
  destruct Lb as [[Lb Lfs]|(_ & _ & _ & Lb)]; [|exfalso; specialize (Lb t); congruence].
  assert (Hnc : forall r, r <> t -> claims (stk s r) = None).
  { intros r Hr. destruct (claims (stk s r)) eqn:A; auto. exfalso. apply Hr.
    apply (j_claim_uni w s Hj); congruence. }
  unfold step. rewrite E. cbn. rewrite app_nil_r.
  unfold wake. cbn. rewrite Lb. cbn. intros B'.
  match goal with |- J w ?x => set (s' := x) in * end.
  assert (Pp : ph w s' = PhAsleep).
  { rewrite <- Has. apply ph_same; cbn; [apply upd_other; auto | reflexivity]. }
  assert (Pc : no_claims s').
  { intros r. cbn. rewrite claims_upd. destruct (Nat.eqb_spec r t) as [->|?]; [apply claims_start | apply Hnc; auto]. }
  constructor.
  - exact B'.
  - exact (j_dom w s Hj).
  - intros u Hu. cbn. upd_t t.
    + split; [apply ostk_start; exact Ho | right]. rewrite upd_other by auto. exact Hf.
    + rewrite upd_other by auto. apply (j_others w s Hj u Hu).
  - exact (j_pend w s Hj).
  - unfold local_ok. rewrite Pp. cbn. split; [exact Lq|]. split; [exact Ls|]. right.
    rewrite !upd_same. repeat split; auto.
  - intros r f A. rewrite Pc in A. discriminate.
  - intros r r' A. rewrite Pc in A. congruence.
  - intros A. exfalso. apply Hne. exact A.
  - intros r A. rewrite Pc in A. congruence.
  - intros r A. apply at_rdy_claims in A. rewrite Pc in A. congruence.
  - intros _ _ _. split; [exact Pp|]. cbn. apply upd_same.
Qed.

Lemma J_step_other w s t : t <> w -> J w s -> J w (fst (step s t)).
Proof.
  intros Htw Hj.
  pose proof (b_shape s (j_base w s Hj) t) as Sh.
  destruct (claims (stk s t)) eqn:Ec.
  - remember (stk s t) as S eqn:ES. destruct Sh; try discriminate Ec.
    + eapply raise_store_step; eauto.
    + eapply raise_spin_step; eauto.
    + eapply raise_ready_step; eauto.
    + destruct y; discriminate Ec.
  - remember (stk s t) as S eqn:ES. destruct Sh.
    8: { eapply raise_xchg_other; eauto. }
    all: apply other_quiet; auto; try (rewrite <- ES; exact Ec);
      intros p' k' Heq; rewrite <- ES in Heq; try discriminate Heq.
    destruct y; discriminate Heq.
Qed.

(* ---------- the waiter's own steps ---------- *)
(* a step of w outside fiber_signal_wait that is not a raise's exchange *)
Definition wquiet_res (w : nat) (m : kmem) (res : kmem * list Z * stack cc) : Prop :=
  let '(m1, e1, s1) := res in
  cell m1 c_waiter = cell m c_waiter /\ cell m1 (c_scr w) = cell m (c_scr w) /\
  (forall u, fstate m1 u = fstate m u) /\
  blocked m1 w = blocked m w /\ pend m1 w = pend m w /\ slot_wait m1 w = slot_wait m w /\
  slot_sched m1 w = slot_sched m w /\ slot_mpmc m1 w = slot_mpmc m w /\
  claims s1 = None /\ at_rdy s1 = false /\ (wph m1 w s1 = PhOut \/ wph m1 w s1 = PhPre0).

Lemma wquiet_step w s :
  BInv s -> wph (mem s) w (stk s w) = PhOut -> fstate (mem s) w = ST_RUNNING ->
  claims (stk s w) = None ->
  (forall p k, stk s w <> [CXchgC c_waiter RAISED 3; FC (KRX p k)]) ->
  wquiet_res w (mem s) (kstep cc (cret (csize s)) (mem s) w (stk s w)).
Proof.
  intros B Hp Hf Hc Hx.
  pose proof (b_shape s B w) as Sh.
  remember (stk s w) as S eqn:ES. destruct Sh.
  32: (destruct c; try contradiction; destruct y).
  all: cbn in Hp; try discriminate Hp.
  all: try (exfalso; eapply Hx; reflexivity).
  all: try discriminate Hc.
  all: try (repeat match type of Hp with context [if ?b then _ else _] => destruct b eqn:? end; discriminate Hp).
  all: try (destruct (st =? ST_RUNNING) eqn:Est; [apply Z.eqb_eq in Est; subst st | discriminate Hp]).
  all: cbn.
  all: repeat match goal with |- context [if ?b then _ else _] => destruct b eqn:? end.
  all: cbn.
  all: rewrite ?app_nil_r.
  all: repeat split.
  all: try reflexivity.
  all: try (rewrite upd_other by cells; reflexivity).
  all: try (rewrite claims_start; reflexivity).
  all: try (apply at_rdy_start).
  all: try (apply ph_start).
  all: try (left; reflexivity).
  all: try (right; reflexivity).
  rewrite Hf in Heqb. discriminate Heqb.
Qed.

(* what J says when w is not registered *)
Lemma J_unreg w s : J w s -> in_reg (ph w s) = false -> no_claims s /\ word s <> fname w.
Proof.
  intros Hj H. split.
  - intros r. destruct (claims (stk s r)) eqn:E; auto.
    assert (A : claims (stk s r) <> None) by congruence.
    destruct (j_claimed w s Hj r A) as [X _]. congruence.
  - intros A. destruct (j_reg w s Hj A) as [X _]. congruence.
Qed.

(* building J for a state in which w is outside the registered region and nobody claims *)
Lemma J_unreg_intro w s :
  BInv s ->
  (word s = NO_WAITER \/ word s = RAISED) ->
  (forall t, t <> w -> ostk_ok (stk s t) = true /\ (is_start (stk s t) = true \/ fstate (mem s) t = ST_RUNNING)) ->
  pend (mem s) w = O -> local_ok w s -> in_reg (ph w s) = false -> no_claims s -> J w s.
Proof.
  intros B D O P L R N. constructor.
  - exact B.
  - tauto.
  - exact O.
  - exact P.
  - exact L.
  - intros r f A. rewrite N in A. discriminate.
  - intros r r' A. rewrite N in A. congruence.
  - intros A. exfalso. destruct D as [D|D]; rewrite D in A;
      [apply (fname_ne_nowaiter w) | apply (fname_ne_raised w)]; exact A.
  - intros r A. rewrite N in A. congruence.
  - intros r A. apply at_rdy_claims in A. rewrite N in A. congruence.
  - intros A. congruence.
Qed.

Lemma J_word01 w s : J w s -> word s <> fname w -> word s = NO_WAITER \/ word s = RAISED.
Proof. intros Hj H. destruct (j_dom w s Hj) as [A|[A|A]]; auto. contradiction. Qed.

Lemma w_out_step w s :
  J w s -> ph w s = PhOut ->
  (forall p k, stk s w <> [CXchgC c_waiter RAISED 3; FC (KRX p k)]) ->
  J w (fst (step s w)).
Proof.
  intros Hj Hp Hx.
  pose proof (j_base w s Hj) as B. pose proof (binv_step s w B) as B'.
  assert (Hir : in_reg (ph w s) = false) by (rewrite Hp; reflexivity).
  destruct (J_unreg w s Hj Hir) as [Hnc Hne].
  pose proof (j_loc w s Hj) as L. unfold local_ok in L. rewrite Hp in L. destruct L as (Lq & Lf & Lb).
  pose proof (wquiet_step w s B Hp Lf (Hnc w) Hx) as Q.
  revert B' Q. unfold step.
  destruct (kstep cc (cret (csize s)) (mem s) w (stk s w)) as [[m1 e1] s1]. cbn.
  intros B' (Q1 & Q2 & Q3 & Q4 & Q5 & Q6 & Q7 & Q8 & Q9 & Q10 & Q11).
  match goal with |- J w ?x => set (s' := x) in * end.
  assert (Pp : ph w s' = PhOut \/ ph w s' = PhPre0).
  { unfold ph, s'. cbn. rewrite upd_same. exact Q11. }
  apply J_unreg_intro.
  - exact B'.
  - unfold word, s'. cbn. rewrite Q1. apply (J_word01 w s Hj Hne).
  - intros u Hu. unfold s'. cbn. rewrite upd_other by auto. rewrite Q3. apply (j_others w s Hj u Hu).
  - unfold s'. cbn. rewrite Q5. apply (j_pend w s Hj).
  - unfold local_ok, quiet_slots in *. unfold s' in *. cbn in *.
    destruct Pp as [Pp|Pp]; rewrite Pp; rewrite Q3, Q4, Q6, Q7, Q8; tauto.
  - destruct Pp as [Pp|Pp]; rewrite Pp; reflexivity.
  - intros r. unfold s'. cbn. rewrite claims_upd. destruct (Nat.eqb_spec r w); [exact Q9 | apply Hnc].
Qed.

(* w stays registered, nothing else changes *)
Lemma J_reg_step w s s' :
  J w s -> BInv s' -> in_reg (ph w s) = true -> ph w s <> PhAsleep -> in_reg (ph w s') = true ->
  word s' = word s ->
  (forall r, claims (stk s' r) = claims (stk s r)) ->
  (forall r, at_rdy (stk s' r) = at_rdy (stk s r)) ->
  (forall t, t <> w -> ostk_ok (stk s' t) = true /\ (is_start (stk s' t) = true \/ fstate (mem s') t = ST_RUNNING)) ->
  pend (mem s') w = O -> local_ok w s' -> J w s'.
Proof.
  intros Hj B' R NA R' W C A O P L.
  assert (Pn : no_claims s' <-> no_claims s).
  { unfold no_claims. split; intros X r; [rewrite <- C | rewrite C]; apply X. }
  constructor.
  - exact B'.
  - rewrite W. exact (j_dom w s Hj).
  - exact O.
  - exact P.
  - exact L.
  - intros r f. rewrite C. apply (j_claim_w w s Hj).
  - intros r r'. rewrite !C. apply (j_claim_uni w s Hj).
  - rewrite W. intros X. split; [exact R'|]. apply Pn. apply (j_reg w s Hj X).
  - intros r. rewrite C, W. intros X. split; [exact R'|]. apply (j_claimed w s Hj r X).
  - intros r. rewrite A. intros X. exfalso. apply NA. apply (j_rdy w s Hj r X).
  - rewrite W, Pn. intros _ X Y. exfalso. apply NA. apply (j_woken w s Hj R X Y).
Qed.

Ltac others_same Hj :=
  let u := fresh "u" in let Hu := fresh "Hu" in
  intros u Hu; cbn; rewrite ?upd_other by auto; apply (j_others _ _ Hj u Hu).

Ltac claims_same w :=
  let r := fresh "r" in
  intros r; cbn; rewrite ?claims_upd, ?at_rdy_upd;
  destruct (Nat.eqb_spec r w) as [->|?]; [|reflexivity].

Lemma ph_upd_w w s m x :
  ph w {| mem := m; stk := upd (stk s) w x; nthr := nthr s; csize := csize s |} = wph m w x.
Proof. unfold ph. cbn. rewrite upd_same. reflexivity. Qed.

Lemma w_start_step w s p k :
  J w s -> stk s w = [Start; FC (KNext p k)] -> J w (fst (step s w)).
Proof.
  intros Hj E.
  pose proof (binv_step s w (j_base w s Hj)) as B'. revert B'.
  assert (Hp : ph w s = PhStart) by (unfold ph; rewrite E; reflexivity).
  assert (Hir : in_reg (ph w s) = false) by (rewrite Hp; reflexivity).
  destruct (J_unreg w s Hj Hir) as [Hnc Hne].
  pose proof (j_loc w s Hj) as L. unfold local_ok in L. rewrite Hp in L. destruct L as (Lq & Lb).
  unfold step. rewrite E. cbn. rewrite app_nil_r. intros B'.
  match goal with |- J w ?x => set (s' := x) in * end.
  assert (Pp : ph w s' = PhOut \/ ph w s' = PhPre0) by (unfold s'; rewrite ph_upd_w; apply ph_start).
  apply J_unreg_intro.
  - exact B'.
  - apply (J_word01 w s Hj Hne).
  - intros u Hu. unfold s'. cbn. rewrite !upd_other by auto. apply (j_others w s Hj u Hu).
  - apply (j_pend w s Hj).
  - unfold local_ok, quiet_slots in *. unfold s' in *. cbn in *.
    destruct Pp as [Pp|Pp]; rewrite Pp; rewrite upd_same; tauto.
  - destruct Pp as [Pp|Pp]; rewrite Pp; reflexivity.
  - intros r. unfold s'. cbn. rewrite claims_upd. destruct (Nat.eqb_spec r w); [apply claims_start | apply Hnc].
Qed.

(* wait: scratch := NULL *)
Lemma w_clr_step w s a p k :
  J w s -> stk s w = [CWrite (c_scr w) 0; FC (KWClr a p k)] -> J w (fst (step s w)).
Proof.
  intros Hj E.
  pose proof (binv_step s w (j_base w s Hj)) as B'. revert B'.
  assert (Hp : ph w s = PhPre0) by (unfold ph; rewrite E; reflexivity).
  assert (Hir : in_reg (ph w s) = false) by (rewrite Hp; reflexivity).
  destruct (J_unreg w s Hj Hir) as [Hnc Hne].
  pose proof (j_loc w s Hj) as L. unfold local_ok in L. rewrite Hp in L. destruct L as (Lq & Lf & Lb).
  unfold step. rewrite E. cbn. intros B'.
  match goal with |- J w ?x => set (s' := x) in * end.
  assert (Pp : ph w s' = PhPre1) by (unfold s'; rewrite ph_upd_w; reflexivity).
  apply J_unreg_intro.
  - exact B'.
  - unfold word, s'. cbn. rewrite upd_other by cells. apply (J_word01 w s Hj Hne).
  - others_same Hj.
  - apply (j_pend w s Hj).
  - unfold local_ok, quiet_slots, scr in *. rewrite Pp. unfold s'. cbn. rewrite upd_same. tauto.
  - rewrite Pp. reflexivity.
  - intros r. unfold s'. cbn. rewrite claims_upd. destruct (Nat.eqb_spec r w); [reflexivity | apply Hnc].
Qed.

(* wait: the registering CAS *)
Lemma w_cas_step w s a p k :
  J w s -> stk s w = [CCasC c_waiter NO_WAITER (fname w) 3; FC (KWCas a p k)] -> J w (fst (step s w)).
Proof.
  intros Hj E.
  pose proof (binv_step s w (j_base w s Hj)) as B'. revert B'.
  assert (Hp : ph w s = PhPre1) by (unfold ph; rewrite E; reflexivity).
  assert (Hir : in_reg (ph w s) = false) by (rewrite Hp; reflexivity).
  destruct (J_unreg w s Hj Hir) as [Hnc Hne].
  pose proof (j_loc w s Hj) as L. unfold local_ok in L. rewrite Hp in L. destruct L as (Lq & Lf & Lb & Ls).
  unfold step. rewrite E. cbn.
  destruct (cell (mem s) c_waiter =? NO_WAITER) eqn:Ew; cbn; intros B'.
  - (* not raised: w registers itself *)
    match goal with |- J w ?x => set (s' := x) in * end.
    assert (Pp : ph w s' = PhReg0) by (unfold s'; rewrite ph_upd_w; reflexivity).
    assert (Pc : no_claims s').
    { intros r. unfold s'. cbn. rewrite claims_upd. destruct (Nat.eqb_spec r w); [reflexivity | apply Hnc]. }
    constructor.
    + exact B'.
    + right; right. unfold word, s'. cbn. rewrite ?upd_same. reflexivity.
    + others_same Hj.
    + apply (j_pend w s Hj).
    + unfold local_ok, quiet_slots, scr in *. rewrite Pp. unfold s'. cbn.
      rewrite upd_other by cells. tauto.
    + intros r f A. rewrite Pc in A. discriminate.
    + intros r r' A. rewrite Pc in A. congruence.
    + intros _. rewrite Pp. split; [reflexivity | exact Pc].
    + intros r A. rewrite Pc in A. congruence.
    + intros r A. apply at_rdy_claims in A. rewrite Pc in A. congruence.
    + intros _ A. exfalso. apply A. unfold word, s'. cbn. rewrite ?upd_same. reflexivity.
  - (* raised: the wait returns at once (the raise is seen) *)
    match goal with |- J w ?x => set (s' := x) in * end.
    assert (Pp : ph w s' = PhPost1) by (unfold s'; rewrite ph_upd_w; reflexivity).
    apply J_unreg_intro.
    + exact B'.
    + apply (J_word01 w s Hj Hne).
    + others_same Hj.
    + apply (j_pend w s Hj).
    + unfold local_ok, quiet_slots in *. rewrite Pp. unfold s'. cbn. tauto.
    + rewrite Pp. reflexivity.
    + intros r. unfold s'. cbn. rewrite claims_upd. destruct (Nat.eqb_spec r w); [reflexivity | apply Hnc].
Qed.

Ltac reg_step_tac w s Hj B' E Hp Pp :=
  match goal with |- J w ?x =>
    apply (J_reg_step w s x Hj B');
    [ rewrite Hp; reflexivity
    | rewrite Hp; discriminate
    | rewrite Pp; reflexivity
    | unfold word; cbn; rewrite ?upd_other by cells; reflexivity
    | let r := fresh "r" in intros r; cbn; rewrite claims_upd;
      destruct (Nat.eqb_spec r w) as [->|?]; [rewrite E; reflexivity | reflexivity]
    | let r := fresh "r" in intros r; cbn; rewrite at_rdy_upd;
      destruct (Nat.eqb_spec r w) as [->|?]; [rewrite E; reflexivity | reflexivity]
    | let u := fresh "u" in let Hu := fresh "Hu" in
      intros u Hu; cbn; rewrite ?upd_other by auto; apply (j_others w s Hj u Hu)
    | cbn; rewrite ?upd_other by auto; try apply (j_pend w s Hj)
    | ]
  end.

(* wait: state := WAITING, arm the deferred marker write *)
Lemma w_sw_step w s a p k :
  J w s -> stk s w = [SWState (c_scr w) READY_TO_WAKE; FC (KWSlept a p k)] -> J w (fst (step s w)).
Proof.
  intros Hj E.
  pose proof (binv_step s w (j_base w s Hj)) as B'. revert B'.
  assert (Hp : ph w s = PhReg0) by (unfold ph; rewrite E; reflexivity).
  pose proof (j_loc w s Hj) as L. unfold local_ok in L. rewrite Hp in L. destruct L as (Lq & Lf & Lb & Ls).
  destruct Lq as (Lq1 & Lq2 & Lq3).
  unfold step. rewrite E. cbn. intros B'.
  match goal with |- J w ?x => set (s' := x) in * end.
  assert (Pp : ph w s' = PhRegY YfRead).
  { unfold s'. rewrite ph_upd_w. cbn. rewrite upd_same. reflexivity. }
  unfold s' in *. reg_step_tac w s Hj B' E Hp Pp.
  unfold local_ok. rewrite Pp. unfold armed_slots, scr in *. cbn. rewrite !upd_same. tauto.
Qed.

(* the yield towards sleep and the maintenance *)
Lemma w_regy_step w s y a p k :
  J w s -> stk s w = ystack y ++ [FC (KWSlept a p k)] -> ph w s = PhRegY y -> J w (fst (step s w)).
Proof.
  intros Hj E Hp0.
  pose proof (binv_step s w (j_base w s Hj)) as B'. revert B'.
  pose proof (b_nomutex s (j_base w s Hj) w) as Nm.
  pose proof (j_loc w s Hj) as L. unfold local_ok in L. rewrite Hp0 in L.
  destruct L as ((La1 & La2 & La3) & Lf & Lb & Ls & Ly).
  pose proof Hp0 as Hp. unfold ph in Hp. rewrite E in Hp.
  destruct y; try contradiction; cbn in E, Hp.
  - (* YRead: reads WAITING *)
    unfold step. rewrite E. cbn. intros B'.
    match goal with |- J w ?x => set (s' := x) in * end.
    assert (Pp : ph w s' = PhRegY (YfNext ST_WAITING)).
    { unfold s'. rewrite ph_upd_w. cbn. rewrite La1, Lf. reflexivity. }
    unfold s' in *. reg_step_tac w s Hj B' E Hp0 Pp.
    unfold local_ok. rewrite Pp. unfold armed_slots, scr in *. cbn. tauto.
  - (* YNext WAITING: switch to the maintenance *)
    rewrite La1 in Hp. cbn in Hp.
    destruct (st =? ST_WAITING) eqn:Est; [|discriminate Hp]. apply Z.eqb_eq in Est. subst st.
    unfold step. rewrite E. cbn. intros B'.
    match goal with |- J w ?x => set (s' := x) in * end.
    assert (Pp : ph w s' = PhRegY YfSwRead) by (unfold s'; rewrite ph_upd_w; reflexivity).
    unfold s' in *. reg_step_tac w s Hj B' E Hp0 Pp.
    unfold local_ok. rewrite Pp. unfold armed_slots, scr in *. cbn. tauto.
  - (* SwRead *)
    unfold step. rewrite E. cbn. rewrite Lf. cbn. intros B'.
    match goal with |- J w ?x => set (s' := x) in * end.
    assert (Pp : ph w s' = PhRegY YfSwDone) by (unfold s'; rewrite ph_upd_w; reflexivity).
    unfold s' in *. reg_step_tac w s Hj B' E Hp0 Pp.
    unfold local_ok. rewrite Pp. unfold armed_slots, scr in *. cbn. tauto.
  - (* SwDone *)
    unfold step. rewrite E. cbn. intros B'.
    match goal with |- J w ?x => set (s' := x) in * end.
    assert (Pp : ph w s' = PhRegY YfMRead) by (unfold s'; rewrite ph_upd_w; reflexivity).
    unfold s' in *. reg_step_tac w s Hj B' E Hp0 Pp.
    unfold local_ok. rewrite Pp. unfold armed_slots, scr in *. cbn. tauto.
  - (* MRead: do_maintenance, the marker write is next *)
    unfold step. rewrite E. cbn. rewrite Lf. cbn.
    unfold run_slots. rewrite La2, La3, Nm, La1. cbn. intros B'.
    match goal with |- J w ?x => set (s' := x) in * end.
    assert (Pp : ph w s' = PhMSet).
    { unfold s'. rewrite ph_upd_w. cbn. rewrite Nat.eqb_refl. reflexivity. }
    unfold s' in *. reg_step_tac w s Hj B' E Hp0 Pp.
    unfold local_ok. rewrite Pp. unfold quiet_slots, scr in *. cbn. rewrite upd_same. tauto.
Qed.

(* the maintenance writes the marker and the fiber goes to sleep *)
Lemma w_mset_step w s c v a p k :
  J w s -> stk s w = [MSetWait c v; YLoop; FC (KWSlept a p k)] -> J w (fst (step s w)).
Proof.
  intros Hj E.
  pose proof (binv_step s w (j_base w s Hj)) as B'. revert B'.
  pose proof (j_loc w s Hj) as L. unfold local_ok in L.
  assert (Hp : ph w s = PhMSet /\ c = c_scr w /\ v = READY_TO_WAKE).
  { unfold ph in *. rewrite E in *. cbn in *.
    destruct (Nat.eqb_spec c (c_scr w)); cbn in *; [|contradiction].
    destruct (Z.eqb_spec v READY_TO_WAKE); cbn in *; [|contradiction]. auto. }
  destruct Hp as (Hp & -> & ->). rewrite Hp in L. destruct L as (Lq & Lf & Lb & Ls).
  unfold step. rewrite E. cbn. unfold sleep. cbn. rewrite (j_pend w s Hj). cbn. intros B'.
  match goal with |- J w ?x => set (s' := x) in * end.
  assert (Pp : ph w s' = PhAsleep) by (unfold s'; rewrite ph_upd_w; reflexivity).
  unfold s' in *. reg_step_tac w s Hj B' E Hp Pp.
  unfold local_ok. rewrite Pp. unfold quiet_slots, scr in *. cbn. rewrite !upd_same.
  split; [tauto|]. split; [reflexivity|]. left. auto.
Qed.

(* generic: a step of w that ends outside the registered region; the word keeps a value <> w *)
Ltac unreg_tac w s Hj B' Hnc Hne Pp :=
  apply J_unreg_intro;
  [ exact B'
  | unfold word; cbn; rewrite ?upd_other by cells; try apply (J_word01 w s Hj Hne)
  | let u := fresh "u" in let Hu := fresh "Hu" in
    intros u Hu; cbn; rewrite ?upd_other by auto; apply (j_others w s Hj u Hu)
  | cbn; try apply (j_pend w s Hj)
  |
  | rewrite Pp; reflexivity
  | let r := fresh "r" in intros r; cbn; rewrite claims_upd;
    destruct (Nat.eqb_spec r w); [try reflexivity; try apply claims_start | apply Hnc] ].

(* woken: the sleeping fiber is granted again *)
Lemma w_asleep_step w s a p k :
  J w s -> stk s w = [Asleep; YLoop; FC (KWSlept a p k)] -> blocked (mem s) w = false ->
  J w (fst (step s w)).
Proof.
  intros Hj E Hb.
  pose proof (binv_step s w (j_base w s Hj)) as B'. revert B'.
  assert (Hp : ph w s = PhAsleep) by (unfold ph; rewrite E; reflexivity).
  pose proof (j_loc w s Hj) as L. unfold local_ok in L. rewrite Hp in L. destruct L as (Lq & Ls & Lw).
  destruct Lw as [[Lw _]|(_ & Lf & Hne & Hnc)]; [congruence|].
  unfold step. rewrite E. cbn. intros B'.
  match goal with |- J w ?x => set (s' := x) in * end.
  assert (Pp : ph w s' = PhResume) by (unfold s'; rewrite ph_upd_w; reflexivity).
  unfold s' in *. unreg_tac w s Hj B' Hnc Hne Pp.
  unfold local_ok. rewrite Pp. cbn. tauto.
Qed.

Lemma w_resume_step w s a p k :
  J w s -> stk s w = [Resume; YLoop; FC (KWSlept a p k)] -> J w (fst (step s w)).
Proof.
  intros Hj E.
  pose proof (binv_step s w (j_base w s Hj)) as B'. revert B'.
  assert (Hp : ph w s = PhResume) by (unfold ph; rewrite E; reflexivity).
  assert (Hir : in_reg (ph w s) = false) by (rewrite Hp; reflexivity).
  destruct (J_unreg w s Hj Hir) as [Hnc Hne].
  pose proof (j_loc w s Hj) as L. unfold local_ok in L. rewrite Hp in L. destruct L as ((Lq1 & Lq2 & Lq3) & Lb).
  unfold step. rewrite E. cbn. intros B'.
  match goal with |- J w ?x => set (s' := x) in * end.
  assert (Pp : ph w s' = PhWokeY YfRead).
  { unfold s'. rewrite ph_upd_w. cbn. rewrite Lq1. reflexivity. }
  unfold s' in *. unreg_tac w s Hj B' Hnc Hne Pp.
  unfold local_ok. rewrite Pp. unfold quiet_slots. cbn. rewrite upd_same. tauto.
Qed.

(* the yield loop after resuming: the state is RUNNING, the yield returns *)
Lemma w_wokey_step w s y a p k :
  J w s -> stk s w = ystack y ++ [FC (KWSlept a p k)] -> ph w s = PhWokeY y -> J w (fst (step s w)).
Proof.
  intros Hj E Hp0.
  pose proof (binv_step s w (j_base w s Hj)) as B'. revert B'.
  assert (Hir : in_reg (ph w s) = false) by (rewrite Hp0; reflexivity).
  destruct (J_unreg w s Hj Hir) as [Hnc Hne].
  pose proof (j_loc w s Hj) as L. unfold local_ok in L. rewrite Hp0 in L.
  destruct L as ((Lq1 & Lq2 & Lq3) & Lf & Lb & Ly).
  pose proof Hp0 as Hp. unfold ph in Hp. rewrite E in Hp.
  destruct y; try contradiction; cbn in E, Hp.
  - unfold step. rewrite E. cbn. intros B'.
    match goal with |- J w ?x => set (s' := x) in * end.
    assert (Pp : ph w s' = PhWokeY (YfNext ST_RUNNING)).
    { unfold s'. rewrite ph_upd_w. cbn. rewrite Lq1, Lf. reflexivity. }
    unfold s' in *. unreg_tac w s Hj B' Hnc Hne Pp.
    unfold local_ok. rewrite Pp. unfold quiet_slots. cbn. tauto.
  - rewrite Lq1 in Hp. cbn in Hp.
    destruct (st =? ST_RUNNING) eqn:Est; [|discriminate Hp]. apply Z.eqb_eq in Est. subst st.
    unfold step. rewrite E. cbn. intros B'.
    match goal with |- J w ?x => set (s' := x) in * end.
    assert (Pp : ph w s' = PhPost0) by (unfold s'; rewrite ph_upd_w; reflexivity).
    unfold s' in *. unreg_tac w s Hj B' Hnc Hne Pp.
    unfold local_ok. rewrite Pp. unfold quiet_slots. cbn. tauto.
Qed.

Lemma w_clr2_step w s a p k :
  J w s -> stk s w = [CWrite (c_scr w) 0; FC (KWClr2 a p k)] -> J w (fst (step s w)).
Proof.
  intros Hj E.
  pose proof (binv_step s w (j_base w s Hj)) as B'. revert B'.
  assert (Hp : ph w s = PhPost0) by (unfold ph; rewrite E; reflexivity).
  assert (Hir : in_reg (ph w s) = false) by (rewrite Hp; reflexivity).
  destruct (J_unreg w s Hj Hir) as [Hnc Hne].
  pose proof (j_loc w s Hj) as L. unfold local_ok in L. rewrite Hp in L. destruct L as (Lq & Lf & Lb).
  unfold step. rewrite E. cbn. intros B'.
  match goal with |- J w ?x => set (s' := x) in * end.
  assert (Pp : ph w s' = PhPost1) by (unfold s'; rewrite ph_upd_w; reflexivity).
  unfold s' in *. unreg_tac w s Hj B' Hnc Hne Pp.
  unfold local_ok. rewrite Pp. unfold quiet_slots in *. cbn. tauto.
Qed.

(* wait: the final clear of the word; control returns to the caller *)
Lemma w_end_step w s a p k :
  J w s -> stk s w = [CStoreC c_waiter NO_WAITER 5; FC (KWEnd a p k)] -> J w (fst (step s w)).
Proof.
  intros Hj E.
  pose proof (binv_step s w (j_base w s Hj)) as B'. revert B'.
  assert (Hp : ph w s = PhPost1) by (unfold ph; rewrite E; reflexivity).
  assert (Hir : in_reg (ph w s) = false) by (rewrite Hp; reflexivity).
  destruct (J_unreg w s Hj Hir) as [Hnc Hne].
  pose proof (j_loc w s Hj) as L. unfold local_ok in L. rewrite Hp in L. destruct L as (Lq & Lf & Lb).
  unfold step. rewrite E. destruct a; cbn; rewrite ?app_nil_r; intros B';
  (match goal with |- J _ ?x => set (s' := x) in * end;
   assert (Pp : ph w s' = PhOut \/ ph w s' = PhPre0)
     by (unfold s'; rewrite ph_upd_w; first [apply ph_start | left; reflexivity]);
   unfold s' in *; apply J_unreg_intro;
    [ exact B'
    | left; reflexivity
    | intros u Hu; cbn; rewrite ?upd_other by auto; apply (j_others w s Hj u Hu)
    | cbn; apply (j_pend w s Hj)
    | unfold local_ok, quiet_slots in *; cbn in *; destruct Pp as [Pp|Pp]; rewrite Pp; tauto
    | destruct Pp as [Pp|Pp]; rewrite Pp; reflexivity
    | intros r; cbn; rewrite claims_upd; destruct (Nat.eqb_spec r w);
      [try reflexivity; try apply claims_start | apply Hnc] ]).
Qed.

(* w itself raises: the word cannot name w (it is not registered), nobody is woken *)
Lemma w_xchg_step w s p k :
  J w s -> stk s w = [CXchgC c_waiter RAISED 3; FC (KRX p k)] -> J w (fst (step s w)).
Proof.
  intros Hj E.
  pose proof (binv_step s w (j_base w s Hj)) as B'. revert B'.
  assert (Hp : ph w s = PhOut) by (unfold ph; rewrite E; reflexivity).
  assert (Hir : in_reg (ph w s) = false) by (rewrite Hp; reflexivity).
  destruct (J_unreg w s Hj Hir) as [Hnc Hne].
  pose proof (j_loc w s Hj) as L. unfold local_ok in L. rewrite Hp in L. destruct L as (Lq & Lf & Lb).
  assert (Hq : (cell (mem s) c_waiter =? NO_WAITER) || (cell (mem s) c_waiter =? RAISED) = true).
  { destruct (J_word01 w s Hj Hne) as [A|A]; unfold word in A; rewrite A; reflexivity. }
  unfold step. rewrite E. cbn. rewrite Hq. cbn. rewrite app_nil_r. intros B'.
  match goal with |- J w ?x => set (s' := x) in * end.
  assert (Pp : ph w s' = PhOut \/ ph w s' = PhPre0) by (unfold s'; rewrite ph_upd_w; apply ph_start).
  unfold s' in *; apply J_unreg_intro;
    [ exact B'
    | right; reflexivity
    | intros u Hu; cbn; rewrite ?upd_other by auto; apply (j_others w s Hj u Hu)
    | cbn; apply (j_pend w s Hj)
    | unfold local_ok, quiet_slots in *; cbn in *; destruct Pp as [Pp|Pp]; rewrite Pp; tauto
    | destruct Pp as [Pp|Pp]; rewrite Pp; reflexivity
    | intros r; cbn; rewrite claims_upd; destruct (Nat.eqb_spec r w); [apply claims_start | apply Hnc] ].
Qed.

Lemma ph_not_bad w s : J w s -> ph w s <> PhBad.
Proof. intros Hj A. pose proof (j_loc w s Hj) as L. unfold local_ok in L. rewrite A in L. exact L. Qed.

Lemma J_step_w w s : J w s -> status_of s w = SReady -> J w (fst (step s w)).
Proof.
  intros Hj Hst.
  pose proof (b_shape s (j_base w s Hj) w) as Sh.
  pose proof (ph_not_bad w s Hj) as Nb.
  remember (stk s w) as S eqn:ES. symmetry in ES.
  destruct Sh.
  32: {
    destruct c; try contradiction.
    - (* a yield inside fiber_signal_wait *)
      destruct (ph w s) eqn:Ep; try contradiction;
        unfold ph in Ep; rewrite ES in Ep.
      all: destruct y; cbn in Ep;
        repeat match type of Ep with context [if ?b then _ else _] => destruct b eqn:? end;
        try discriminate Ep.
      all: try (injection Ep as <-).
      all: try (eapply w_regy_step; [exact Hj | exact ES | unfold ph; rewrite ES; cbn;
                  repeat match goal with H : _ = true |- _ => rewrite H | H : _ = false |- _ => rewrite H end;
                  reflexivity]).
      all: try (eapply w_wokey_step; [exact Hj | exact ES | unfold ph; rewrite ES; cbn;
                  repeat match goal with H : _ = true |- _ => rewrite H | H : _ = false |- _ => rewrite H end;
                  reflexivity]).
      + eapply w_mset_step; [exact Hj | exact ES].
      + eapply w_asleep_step; [exact Hj | exact ES |].
        unfold status_of in Hst. destruct (w <? nthr s)%nat; [|discriminate].
        rewrite ES in Hst. cbn in Hst. destruct (blocked (mem s) w); [discriminate | reflexivity].
      + eapply w_resume_step; [exact Hj | exact ES].
    - (* a yield of the bounded send's retry loop *)
      apply w_out_step; auto.
      + destruct (ph w s) eqn:Ep; try contradiction; auto;
          unfold ph in Ep; rewrite ES in Ep; destruct y; cbn in Ep;
          repeat match type of Ep with context [if ?b then _ else _] => destruct b eqn:? end;
          discriminate Ep.
      + intros p' k' A. rewrite ES in A. destruct y; discriminate A.
  }
  all: try (eapply w_start_step; eauto; fail).
  all: try (eapply w_clr_step; eauto; fail).
  all: try (eapply w_cas_step; eauto; fail).
  all: try (eapply w_sw_step; eauto; fail).
  all: try (eapply w_clr2_step; eauto; fail).
  all: try (eapply w_end_step; eauto; fail).
  all: try (eapply w_xchg_step; eauto; fail).
  all: apply w_out_step; auto; [unfold ph; rewrite ES; reflexivity | intros p' k' A; rewrite ES in A; discriminate A].
Qed.

Theorem J_step w s t : J w s -> status_of s t = SReady -> J w (fst (step s t)).
Proof.
  intros Hj Hst. destruct (Nat.eq_dec t w) as [->|Hn].
  - apply J_step_w; auto.
  - apply J_step_other; auto.
Qed.

Theorem reachable_J w size progs s :
  single_waiter w progs -> reachable M (init size progs) s -> J w s.
Proof.
  intros H. apply (invariant_ind M).
  - apply init_J. exact H.
  - intros s0 t Hj Hst. apply J_step; auto.
Qed.

(* ---------- consequences stated on stacks (for Properties_C11.v) ---------- *)
Lemma ph_asleep_stack w s :
  BInv s -> ph w s = PhAsleep -> exists a p k, stk s w = [Asleep; YLoop; FC (KWSlept a p k)].
Proof.
  intros B H. pose proof (b_shape s B w) as Sh. unfold ph in H.
  remember (stk s w) as S eqn:ES. destruct Sh; cbn in H; try discriminate H.
  destruct c; try contradiction; destruct y; cbn in H;
    repeat match type of H with context [if ?b then _ else _] => destruct b end; try discriminate H.
  exists a, p, k. reflexivity.
Qed.

(* registered = the registering CAS of fiber_signal_wait succeeded and w has not yet been resumed *)
Definition registered (w : nat) (s : st) : Prop := in_reg (ph w s) = true.
(* r has exchanged the word while it named f and has not yet scheduled f *)
Definition committed (s : st) (r f : nat) : Prop := claims (stk s r) = Some f.
(* the wake-up has been delivered: w is runnable again *)
Definition wake_delivered (w : nat) (s : st) : Prop :=
  (exists a p k, stk s w = [Asleep; YLoop; FC (KWSlept a p k)]) /\ blocked (mem s) w = false.

(* threads beyond nthr never run: their stack is the initial one *)
Definition idle_beyond (s : st) : Prop := forall t, (nthr s <= t)%nat -> claims (stk s t) = None.

Lemma idle_beyond_reachable size progs s : reachable M (init size progs) s -> idle_beyond s.
Proof.
  apply (invariant_ind M).
  - intros t _. reflexivity.
  - intros s0 t H Hst u Hu.
    assert (Hn : nthr (fst (mstep M s0 t)) = nthr s0).
    { cbn. unfold step. destruct (kstep cc (cret (csize s0)) (mem s0) t (stk s0 t)) as [[m1 e1] s1]. reflexivity. }
    rewrite Hn in Hu.
    assert (Ht : (t < nthr s0)%nat).
    { cbn in Hst. unfold status_of in Hst. destruct (Nat.ltb_spec t (nthr s0)); [assumption | discriminate]. }
    cbn. rewrite stk_step_other by lia. apply H. exact Hu.
Qed.

Lemma claims_bounded_dec s n :
  (exists r, (r < n)%nat /\ claims (stk s r) <> None) \/ (forall r, (r < n)%nat -> claims (stk s r) = None).
Proof.
  induction n as [|n IH].
  - right. intros r Hr. lia.
  - destruct IH as [[r [Hr Hc]]|IH].
    + left. exists r. split; [lia | exact Hc].
    + destruct (claims (stk s n)) eqn:E.
      * left. exists n. split; [lia | congruence].
      * right. intros r Hr. destruct (Nat.eq_dec r n) as [->|?]; [exact E | apply IH; lia].
Qed.

Lemma no_lost_raise w s :
  J w s -> idle_beyond s -> registered w s -> word s <> fname w ->
  (exists r, r <> w /\ committed s r w) \/ wake_delivered w s.
Proof.
  intros Hj Hi R W.
  destruct (claims_bounded_dec s (nthr s)) as [[r [Hr Hc]]|Hn].
  - left. exists r. destruct (claims (stk s r)) as [f|] eqn:E; [|congruence].
    destruct (j_claim_w w s Hj r f E) as [-> Hne]. split; [exact Hne | exact E].
  - right.
    assert (N : no_claims s).
    { intros r. destruct (Nat.lt_ge_cases r (nthr s)); [apply Hn; assumption | apply Hi; assumption]. }
    destruct (j_woken w s Hj R W N) as [Hp Hb].
    split; [apply (ph_asleep_stack w s (j_base w s Hj) Hp) | exact Hb].
Qed.

(* the C01-style ordering: a raiser is about to make f READY and schedule it only
   when f's maintenance has already written the marker and f sleeps *)
Lemma wake_after_sleep w s r f p k :
  J w s -> stk s r = [FStWrite f ST_READY; FC (KRRdy f p k)] ->
  f = w /\ r <> w /\
  (exists a p' k', stk s w = [Asleep; YLoop; FC (KWSlept a p' k')]) /\
  cell (mem s) (c_scr w) = READY_TO_WAKE /\ blocked (mem s) w = true /\ fstate (mem s) w = ST_WAITING.
Proof.
  intros Hj E.
  assert (Hc : claims (stk s r) = Some f) by (rewrite E; reflexivity).
  destruct (j_claim_w w s Hj r f Hc) as [-> Hne].
  assert (Hp : ph w s = PhAsleep) by (apply (j_rdy w s Hj r); rewrite E; reflexivity).
  pose proof (j_loc w s Hj) as L. unfold local_ok in L. rewrite Hp in L. destruct L as (_ & Ls & Lw).
  destruct Lw as [[Lb Lf]|(_ & _ & _ & Ln)]; [|specialize (Ln r); congruence].
  repeat split; auto. apply (ph_asleep_stack w s (j_base w s Hj) Hp).
Qed.

(* "seen": a raise that exchanged before the registering CAS makes the CAS fail; the wait does not sleep *)
Lemma raise_seen s t a p k :
  stk s t = [CCasC c_waiter NO_WAITER (fname t) 3; FC (KWCas a p k)] -> cell (mem s) c_waiter <> NO_WAITER ->
  stk (fst (step s t)) t = [CStoreC c_waiter NO_WAITER 5; FC (KWEnd a p k)].
Proof.
  intros E H. unfold step. rewrite E. cbn.
  destruct (Z.eqb_spec (cell (mem s) c_waiter) NO_WAITER); [contradiction|]. cbn. apply upd_same.
Qed.

(* "remembered": while nobody is committed to a wake-up, a RAISED word stays RAISED under the
   steps of every thread other than the waiter *)
Lemma raise_remembered w s t :
  J w s -> t <> w -> no_claims s -> word s = RAISED -> word (fst (step s t)) = RAISED.
Proof.
  intros Hj Htw N W.
  pose proof (j_base w s Hj) as B. destruct (j_others w s Hj t Htw) as [Ho Hf].
  pose proof (b_shape s B t) as Sh.
  assert (Q : (exists p k, stk s t = [CXchgC c_waiter RAISED 3; FC (KRX p k)]) \/
              (forall p k, stk s t <> [CXchgC c_waiter RAISED 3; FC (KRX p k)])).
  { remember (stk s t) as S eqn:ES. destruct Sh; try (right; intros p' k' A; discriminate A).
    - left; eauto.
    - right. intros p' k' A. destruct y; discriminate A. }
  destruct Q as [(p & k & E)|Hx].
  - unfold word, step. rewrite E. cbn.
    destruct ((cell (mem s) c_waiter =? NO_WAITER) || (cell (mem s) c_waiter =? RAISED)); reflexivity.
  - pose proof (other_quiet_res w s t Htw B Ho Hf (N t) Hx) as Q.
    unfold word, step. destruct (kstep cc (cret (csize s)) (mem s) t (stk s t)) as [[m1 e1] s1]. cbn.
    destruct Q as (Q1 & _). rewrite Q1. exact W.
Qed.
