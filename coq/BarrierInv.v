(* C12: the protocol invariant of the barrier when exactly [count] fibers use it
   and either every fiber performs one round or count <= 2 (the regime in which
   the waiter list is never popped by the serial fiber of an earlier round).
   Kernel part: well-formedness of the MPSC waiter list (two-step push, single
   consumer, node hand-over), wake-up protocol of wait_in_mpsc_queue /
   wake_from_mpsc_queue.  Barrier part: generations. *)
From Coq Require Import List ZArith Lia Bool Arith.
From LF Require Import Conc T1K Barrier BarrierProofs.
Import ListNotations.
Local Open Scope Z_scope.

(* ---- remaining projections of lstep ---- *)
Lemma lstep_chain x t : chain (lstep x t) =
  match stk (base x) t with
  | WXchg _ n :: _ => chain x ++ [(n, t)]
  | KSetHead _ _ _ _ _ :: _ => tl (chain x)
  | _ => chain x
  end.
Proof. unfold lstep. destruct (stk (base x) t) as [|[] ?]; reflexivity. Qed.

Lemma lstep_infl x t : infl (lstep x t) =
  match stk (base x) t with
  | KSetHead _ _ _ _ _ :: _ => option_map snd (hd_error (chain x))
  | KState _ _ _ f :: _ => if fstate (mem (base x)) f =? ST_WAITING then infl x else None
  | KReady _ _ _ _ :: _ => None
  | _ => infl x
  end.
Proof. unfold lstep. destruct (stk (base x) t) as [|[] ?]; reflexivity. Qed.

Lemma lstep_pw x t : pw (lstep x t) =
  match stk (base x) t with
  | WFAdd _ _ _ :: _ => if (word (mem (base x)) 0 + 1) mod cnt (base x) =? 0 then pw x else pw x ++ [t]
  | KState _ _ _ f :: _ => if fstate (mem (base x)) f =? ST_WAITING then pw x else remove Nat.eq_dec f (pw x)
  | KReady _ _ _ f :: _ => remove Nat.eq_dec f (pw x)
  | _ => pw x
  end.
Proof. unfold lstep. destruct (stk (base x) t) as [|[] ?]; reflexivity. Qed.

(* ---- observations on stacks ---- *)
Definition is_ser (sg : stack bc) : Prop := exists n k, bot sg = Some (BRet n k 1).
Definition is_wait (sg : stack bc) : Prop := exists n k, bot sg = Some (BRet n k 0).
Definition rnd (sg : stack bc) : nat := match bot sg with Some c => round_of c | None => O end.
Definition pre_round (sg : stack bc) : option nat :=
  match sg with
  | [Start; FC (BNext _ k)] => Some k
  | [WFAdd _ _ _; FC (BArrived _ k)] => Some k
  | _ => None
  end.

(* number of waiters the serial fiber has scheduled so far *)
Definition wcof (sg : stack bc) : Z :=
  match sg with
  | KHead _ _ wc :: _ | KNext _ _ wc _ :: _ | KSetHead _ _ wc _ _ :: _ | KData _ _ wc _ _ :: _
  | KCopy _ _ wc _ _ :: _ | KOut _ _ wc _ :: _ | KState _ _ wc _ :: _ | KReady _ _ wc _ :: _ => wc
  | _ :: KSpin _ _ wc :: _ => wc
  | _ => 0
  end.

(* a node that is in nobody's [fnode] and not in the list: carried in a frame *)
Definition held (sg : stack bc) : nat :=
  match sg with
  | WNext _ nd :: _ | WXchg _ nd :: _ => nd
  | KData _ _ _ h _ :: _ | KCopy _ _ _ h _ :: _ | KOut _ _ _ h :: _ => h
  | _ => O
  end.

Definition linking (sg : stack bc) : Prop :=
  match sg with WLink _ _ _ :: _ => True | _ => False end.

(* the list from node a on: every entry is linked to its predecessor or its
   pusher is about to link it *)
Fixpoint linked (m : kmem) (sf : nat -> stack bc) (a : nat) (ch : list (nat * nat)) : Prop :=
  match ch with
  | [] => nnext m a = O
  | (b, u) :: rest =>
      ((nnext m a = b /\ ~ linking (sf u)) \/ (nnext m a = O /\ exists r, sf u = WLink 0 a b :: r))
      /\ linked m sf b rest
  end.
Fixpoint lastn (a : nat) (ch : list (nat * nat)) : nat :=
  match ch with [] => a | (b, _) :: rest => lastn b rest end.

Definition nodes (x : ist) : list nat := qhead (mem (base x)) 0%nat :: map fst (chain x).

(* ---- per-fiber clauses ---- *)
Definition Qp (x : ist) (u : nat) : Prop := In u (pw x).
Definition Cp (x : ist) (u : nat) : Prop := In u (map snd (chain x)).
Definition Fp (x : ist) (u : nat) : Prop := infl x = Some u.
Definition quiet (m : kmem) (u : nat) : Prop := pend m u = O /\ blocked m u = false.

Definition unq (x : ist) (u : nat) : Prop :=
  Qp x u /\ ~ Cp x u /\ ~ Fp x u /\ quiet (mem (base x)) u.
Definition presleep (x : ist) (u : nat) : Prop :=
  let m := mem (base x) in
  fstate m u = ST_SAVING /\ blocked m u = false /\
  ((Qp x u /\ (Cp x u \/ Fp x u) /\ pend m u = O) \/ (~ Qp x u /\ pend m u = 1%nat /\ fnode m u <> O)).
Definition postres (x : ist) (u : nat) : Prop :=
  let m := mem (base x) in
  fstate m u = ST_RUNNING /\ ~ Qp x u /\ quiet m u /\ fnode m u <> O.
Definition asleep_ok (x : ist) (u : nat) : Prop :=
  let m := mem (base x) in
  (Qp x u /\ (Cp x u \/ Fp x u) /\ pend m u = O /\ blocked m u = true /\ fstate m u = ST_WAITING)
  \/ (~ Qp x u /\ pend m u = O /\ blocked m u = false /\ fnode m u <> O /\
      (fstate m u = ST_WAITING \/ fstate m u = ST_READY)).
Definition serl (x : ist) (u : nat) : Prop :=
  let m := mem (base x) in
  ~ Qp x u /\ quiet m u /\ fnode m u <> O /\ fstate m u = ST_RUNNING.

Section Inv.
Variable count : Z.

Inductive lok (x : ist) (u : nat) : stack bc -> Prop :=
| lk_done : lok x u []
| lk_start n : quiet (mem (base x)) u -> fnode (mem (base x)) u <> O -> lok x u [Start; FC (BNext n 1)]
| lk_fadd n k : quiet (mem (base x)) u -> fnode (mem (base x)) u <> O -> fstate (mem (base x)) u = ST_RUNNING ->
               lok x u [WFAdd 0 1 5; FC (BArrived n k)]
| lk_wsaving n k : unq x u -> fnode (mem (base x)) u <> O -> lok x u [WSaving 0; FC (BRet n k 0)]
| lk_wdata n k : unq x u -> fnode (mem (base x)) u <> O -> fstate (mem (base x)) u = ST_SAVING ->
                 lok x u [WData 0; FC (BRet n k 0)]
| lk_wnext nd n k : unq x u -> fnode (mem (base x)) u = O -> nd <> O -> ndata (mem (base x)) nd = fname u ->
                    fstate (mem (base x)) u = ST_SAVING -> lok x u [WNext 0 nd; FC (BRet n k 0)]
| lk_wxchg nd n k : unq x u -> fnode (mem (base x)) u = O -> nd <> O -> ndata (mem (base x)) nd = fname u ->
                    fstate (mem (base x)) u = ST_SAVING -> nnext (mem (base x)) nd = O ->
                    lok x u [WXchg 0 nd; FC (BRet n k 0)]
| lk_wlink p nd n k : Qp x u -> In (nd, u) (chain x) -> ~ Fp x u -> quiet (mem (base x)) u ->
                      fstate (mem (base x)) u = ST_SAVING -> lok x u [WLink 0 p nd; FC (BRet n k 0)]
| lk_yread n k : presleep x u \/ postres x u -> lok x u [YRead; FC (BRet n k 0)]
| lk_ynext st n k : (st = ST_SAVING /\ presleep x u) \/ (st = ST_RUNNING /\ postres x u) ->
                    lok x u [YNext st; FC (BRet n k 0)]
| lk_swread n k : presleep x u -> lok x u [SwRead; YLoop; FC (BRet n k 0)]
| lk_swdone n k : presleep x u -> lok x u [SwDone; YLoop; FC (BRet n k 0)]
| lk_mread n k : presleep x u -> lok x u [MRead; YLoop; FC (BRet n k 0)]
| lk_mflip n k : presleep x u -> lok x u [MFlip; YLoop; FC (BRet n k 0)]
| lk_asleep n k : asleep_ok x u -> lok x u [Asleep; YLoop; FC (BRet n k 0)]
| lk_resume n k : ~ Qp x u -> quiet (mem (base x)) u -> fnode (mem (base x)) u <> O ->
                  lok x u [Resume; YLoop; FC (BRet n k 0)]
| lk_khead wc n k : serl x u -> infl x = None -> lok x u [KHead 0 (count - 1) wc; FC (BRet n k 1)]
| lk_knext wc h n k : serl x u -> infl x = None -> h = qhead (mem (base x)) 0%nat ->
                      lok x u [KNext 0 (count - 1) wc h; FC (BRet n k 1)]
| lk_ksethead wc h nx n k : serl x u -> infl x = None -> h = qhead (mem (base x)) 0%nat -> nx <> O ->
                            nnext (mem (base x)) h = nx ->
                            lok x u [KSetHead 0 (count - 1) wc h nx; FC (BRet n k 1)]
| lk_kdata wc h nx n k f : serl x u -> h <> O -> qhead (mem (base x)) 0%nat = nx -> infl x = Some f ->
                           ndata (mem (base x)) nx = fname f ->
                           lok x u [KData 0 (count - 1) wc h nx; FC (BRet n k 1)]
| lk_kcopy wc h d n k f : serl x u -> h <> O -> infl x = Some f -> d = fname f ->
                          lok x u [KCopy 0 (count - 1) wc h d; FC (BRet n k 1)]
| lk_kout wc h n k f : serl x u -> h <> O -> infl x = Some f -> ndata (mem (base x)) h = fname f ->
                       lok x u [KOut 0 (count - 1) wc h; FC (BRet n k 1)]
| lk_kstate wc f n k : serl x u -> infl x = Some f -> fnode (mem (base x)) f <> O ->
                       lok x u [KState 0 (count - 1) wc f; FC (BRet n k 1)]
| lk_kready wc f n k : serl x u -> infl x = Some f -> fnode (mem (base x)) f <> O ->
                       fstate (mem (base x)) f = ST_WAITING ->
                       lok x u [KReady 0 (count - 1) wc f; FC (BRet n k 1)]
| lk_kyread wc n k : serl x u -> infl x = None -> lok x u [YRead; KSpin 0 (count - 1) wc; FC (BRet n k 1)]
| lk_kynext wc n k : serl x u -> infl x = None ->
                     lok x u [YNext ST_RUNNING; KSpin 0 (count - 1) wc; FC (BRet n k 1)].

Definition noser (x : ist) : Prop := forall S, ~ is_ser (stk (base x) S).

(* generations *)
Record GA (x : ist) : Prop := {
  g_nthr : nthr (base x) = Z.to_nat count;
  g_word : 0 <= word (mem (base x)) 0%nat;
  g_ser1 : forall S S', is_ser (stk (base x) S) -> is_ser (stk (base x) S') -> S = S';
  g_serw : forall S, is_ser (stk (base x) S) ->
           (S < nthr (base x))%nat /\
           word (mem (base x)) 0%nat = Z.of_nat (rnd (stk (base x) S)) * count /\
           Z.of_nat (length (pw x)) = count - 1 - wcof (stk (base x) S) /\
           0 <= wcof (stk (base x) S) /\ (wcof (stk (base x) S) < count - 1 \/ count = 1);
  g_noser : noser x -> Z.of_nat (length (pw x)) = word (mem (base x)) 0%nat mod count;
  g_pw_nodup : NoDup (pw x);
  g_pw : forall u, In u (pw x) ->
         (u < nthr (base x))%nat /\ is_wait (stk (base x) u) /\
         (forall S, is_ser (stk (base x) S) -> rnd (stk (base x) u) = rnd (stk (base x) S)) /\
         (noser x -> Z.of_nat (rnd (stk (base x) u)) = word (mem (base x)) 0%nat / count + 1);
  g_pre : forall u k, (u < nthr (base x))%nat -> pre_round (stk (base x) u) = Some k ->
          noser x /\ Z.of_nat k = word (mem (base x)) 0%nat / count + 1;
  g_woken : forall u, is_wait (stk (base x) u) -> ~ In u (pw x) ->
            (forall S, is_ser (stk (base x) S) -> rnd (stk (base x) u) = rnd (stk (base x) S)) /\
            (noser x -> Z.of_nat (rnd (stk (base x) u)) = word (mem (base x)) 0%nat / count) /\
            Z.of_nat (rnd (stk (base x) u)) * count <= word (mem (base x)) 0%nat;
  g_rets : forall t k r, In (t, k, r) (rets x) -> Z.of_nat k * count <= word (mem (base x)) 0%nat;
  g_arr : forall i t k v, nth_error (arr x) i = Some (t, k, v) -> Z.of_nat k = Z.of_nat i / count + 1;
  g_wait_lt : forall u, is_wait (stk (base x) u) -> (u < nthr (base x))%nat;
  g_infl_none : noser x -> infl x = None
}.

(* the waiter list *)
Record GL (x : ist) : Prop := {
  g_nodes_nodup : NoDup (nodes x);
  g_nodes_nz : forall nd, In nd (nodes x) -> nd <> O;
  g_tail : qtail (mem (base x)) 0%nat = lastn (qhead (mem (base x)) 0%nat) (chain x);
  g_linked : linked (mem (base x)) (stk (base x)) (qhead (mem (base x)) 0%nat) (chain x);
  g_chain : forall nd u, In (nd, u) (chain x) -> ndata (mem (base x)) nd = fname u /\ In u (pw x);
  g_chain_nodup : NoDup (map snd (chain x));
  g_infl : forall f, infl x = Some f -> In f (pw x) /\ ~ In f (map snd (chain x))
}.

(* node ownership *)
Record GN (x : ist) : Prop := {
  g_fnode_inj : forall u u', fnode (mem (base x)) u <> O ->
                fnode (mem (base x)) u = fnode (mem (base x)) u' -> u = u';
  g_held_inj : forall u u', held (stk (base x) u) <> O ->
               held (stk (base x) u) = held (stk (base x) u') -> u = u';
  g_fnode_held : forall u u', fnode (mem (base x)) u <> O -> fnode (mem (base x)) u <> held (stk (base x) u');
  g_fnode_nodes : forall u, fnode (mem (base x)) u <> O -> ~ In (fnode (mem (base x)) u) (nodes x);
  g_held_nodes : forall u, held (stk (base x) u) <> O -> ~ In (held (stk (base x) u)) (nodes x)
}.

Record GM (x : ist) : Prop := {
  g_cnt : cnt (base x) = count;
  g_slots : slots_none (mem (base x));
  g_sched : forall u, slot_sched (mem (base x)) u = false;
  g_local : forall u, lok x u (stk (base x) u)
}.

Record G (x : ist) : Prop := { g_a : GA x; g_l : GL x; g_n : GN x; g_m : GM x }.
End Inv.
(* ---- frame lemmas: what a clause depends on ---- *)
Record same_at (m m' : kmem) (u : nat) : Prop := {
  sa_fstate : fstate m' u = fstate m u;
  sa_pend : pend m' u = pend m u;
  sa_blocked : blocked m' u = blocked m u;
  sa_fnode : fnode m' u = fnode m u
}.

Record same_ghost (x x' : ist) (u : nat) : Prop := {
  sg_q : Qp x' u <-> Qp x u;
  sg_c : Cp x' u <-> Cp x u;
  sg_f : Fp x' u <-> Fp x u;
  sg_in : forall nd, In (nd, u) (chain x') <-> In (nd, u) (chain x)
}.

Lemma quiet_frame m m' u : same_at m m' u -> quiet m u -> quiet m' u.
Proof. intros [A B C D] [P Q]. split; congruence. Qed.

Lemma unq_frame x x' u : same_at (mem (base x)) (mem (base x')) u -> same_ghost x x' u -> unq x u -> unq x' u.
Proof.
  intros S [Gq Gc Gf _] (A & B & C & D). split; [tauto|]. split; [tauto|]. split; [tauto|].
  eapply quiet_frame; eauto.
Qed.

Lemma presleep_frame x x' u :
  same_at (mem (base x)) (mem (base x')) u -> same_ghost x x' u -> presleep x u -> presleep x' u.
Proof.
  intros [A B C D] [Gq Gc Gf _]. unfold presleep. rewrite A, B, C, D. tauto.
Qed.

Lemma postres_frame x x' u :
  same_at (mem (base x)) (mem (base x')) u -> same_ghost x x' u -> postres x u -> postres x' u.
Proof.
  intros S [Gq Gc Gf _]. unfold postres. intros (A & B & C & D). destruct S as [S1 S2 S3 S4].
  split; [congruence|]. split; [tauto|]. split; [destruct C; split; congruence|congruence].
Qed.

Lemma asleep_frame x x' u :
  same_at (mem (base x)) (mem (base x')) u -> same_ghost x x' u -> asleep_ok x u -> asleep_ok x' u.
Proof.
  intros [A B C D] [Gq Gc Gf _]. unfold asleep_ok. rewrite A, B, C, D. tauto.
Qed.

Lemma serl_frame x x' u :
  same_at (mem (base x)) (mem (base x')) u -> same_ghost x x' u -> serl x u -> serl x' u.
Proof.
  intros S [Gq Gc Gf _]. unfold serl. intros (A & B & C & D). destruct S as [S1 S2 S3 S4].
  split; [tauto|]. split; [destruct B; split; congruence|]. split; congruence.
Qed.

Lemma lok_frame count x x' u sg :
  same_at (mem (base x)) (mem (base x')) u -> same_ghost x x' u ->
  (is_ser sg -> infl x' = infl x /\ qhead (mem (base x')) 0%nat = qhead (mem (base x)) 0%nat /\
                (forall f, infl x = Some f -> fnode (mem (base x')) f = fnode (mem (base x)) f /\
                     (fstate (mem (base x)) f = ST_WAITING -> fstate (mem (base x')) f = ST_WAITING)) /\
                ndata (mem (base x')) (qhead (mem (base x)) 0%nat) = ndata (mem (base x)) (qhead (mem (base x)) 0%nat) /\
                (nnext (mem (base x)) (qhead (mem (base x)) 0%nat) <> O ->
                 nnext (mem (base x')) (qhead (mem (base x)) 0%nat) = nnext (mem (base x)) (qhead (mem (base x)) 0%nat))) ->
  (held sg <> O -> ndata (mem (base x')) (held sg) = ndata (mem (base x)) (held sg) /\
                   nnext (mem (base x')) (held sg) = nnext (mem (base x)) (held sg)) ->
  lok count x u sg -> lok count x' u sg.
Proof.
  intros S Gh Hs Hh L.
  pose proof (quiet_frame _ _ _ S) as Fq. pose proof (unq_frame _ _ _ S Gh) as Fu.
  pose proof (presleep_frame _ _ _ S Gh) as Fp'. pose proof (postres_frame _ _ _ S Gh) as Fr.
  pose proof (asleep_frame _ _ _ S Gh) as Fa. pose proof (serl_frame _ _ _ S Gh) as Fs.
  destruct S as [S1 S2 S3 S4]. destruct Gh as [Gq Gc Gf Gi].
  destruct L; try solve [constructor; auto; try congruence; tauto].
  all: cbn [held] in Hh.
  all: try (destruct Hs as (A & B & C & D & E); [do 2 eexists; reflexivity|]).
  all: try solve [econstructor; eauto; try congruence; try tauto].
  - destruct (Hh H1) as [A B]. constructor; auto; congruence.
  - destruct (Hh H1) as [A B]. constructor; auto; congruence.
  - constructor; auto; try congruence; try tauto. apply Gi. assumption.
  - subst h. constructor; auto; try congruence. rewrite E; [assumption|]. congruence.
  - subst nx. apply (lk_kdata count x' u wc h _ n k f); auto; congruence.
  - destruct (Hh H0) as [Hd _]. apply (lk_kout count x' u wc h n k f); auto; congruence.
  - destruct (C _ H0) as [C1 C2]. constructor; auto; congruence.
  - destruct (C _ H0) as [C1 C2]. constructor; auto; congruence.
Qed.

Definition same_obs (sg sg' : stack bc) : Prop :=
  (is_ser sg' <-> is_ser sg) /\ (is_wait sg' <-> is_wait sg) /\
  (is_ser sg \/ is_wait sg -> rnd sg' = rnd sg /\ wcof sg' = wcof sg) /\
  (forall k, pre_round sg' = Some k -> pre_round sg = Some k).

Lemma same_obs_refl sg : same_obs sg sg.
Proof. repeat split; auto. Qed.

Lemma GA_frame count x x' :
  nthr (base x') = nthr (base x) -> word (mem (base x')) 0%nat = word (mem (base x)) 0%nat ->
  pw x' = pw x -> rets x' = rets x -> arr x' = arr x ->
  (noser x -> infl x' = None) ->
  (forall u, same_obs (stk (base x) u) (stk (base x') u)) ->
  GA count x -> GA count x'.
Proof.
  intros En Ew Ep Er Ea Hin Ho A.
  assert (Hs : forall u, is_ser (stk (base x') u) <-> is_ser (stk (base x) u)) by (intros u; apply Ho).
  assert (Hw : forall u, is_wait (stk (base x') u) <-> is_wait (stk (base x) u)) by (intros u; apply Ho).
  assert (Hn : noser x' <-> noser x).
  { unfold noser. split; intros H S; specialize (H S); rewrite Hs in *; exact H. }
  destruct A as [A1 A2 A3 A4 A5 A6 A7 A8 A9 A10 A11 A12 A13].
  constructor; rewrite ?En, ?Ew, ?Ep, ?Er, ?Ea; auto; try (intros u; rewrite Hw; apply A12);
    try (rewrite Hn; exact Hin).
  - intros S S'. rewrite !Hs. apply A3.
  - intros S HS. rewrite Hs in HS. destruct (Ho S) as (_ & _ & Hr & _).
    destruct (Hr (or_introl HS)) as [-> ->]. apply A4. exact HS.
  - rewrite Hn. exact A5.
  - intros u Hu. rewrite Hw, Hn. destruct (A7 u Hu) as (B1 & B2 & B3 & B4).
    destruct (Ho u) as (_ & _ & Hr & _). destruct (Hr (or_intror B2)) as [-> _].
    split; [exact B1|]. split; [exact B2|]. split; [|exact B4].
    intros S HS. rewrite Hs in HS. destruct (Ho S) as (_ & _ & Hr' & _).
    destruct (Hr' (or_introl HS)) as [-> _]. apply B3. exact HS.
  - intros u k Hu Hp. rewrite Hn. apply (A8 u k Hu). apply Ho. exact Hp.
  - intros u. rewrite Hw, Hn. intros H1 H2. destruct (A9 u H1 H2) as (B1 & B2 & B3).
    destruct (Ho u) as (_ & _ & Hr & _). destruct (Hr (or_intror H1)) as [-> _].
    split; [|split; [exact B2|exact B3]]. intros S HS. rewrite Hs in HS. destruct (Ho S) as (_ & _ & Hr' & _).
    destruct (Hr' (or_introl HS)) as [-> _]. apply B1. exact HS.
Qed.

Lemma linked_frame m m' (sf sf' : nat -> stack bc) ch : forall a,
  (forall nd, In nd (a :: map fst ch) -> nnext m' nd = nnext m nd) ->
  (forall u, In u (map snd ch) -> (linking (sf' u) <-> linking (sf u)) /\ (linking (sf u) -> sf' u = sf u)) ->
  linked m sf a ch -> linked m' sf' a ch.
Proof.
  induction ch as [|[b u] rest IH]; intros a Hn Hs L; cbn in *.
  - rewrite Hn by auto. exact L.
  - destruct L as [L1 L2]. destruct (Hs u (or_introl eq_refl)) as [S1 S2]. split.
    + rewrite Hn by auto. destruct L1 as [[A B]|[A [r B]]]; [left; tauto|right].
      split; [exact A|]. exists r. rewrite S2; [exact B|]. rewrite B. exact I.
    + apply IH; auto.
Qed.

Lemma linked_last m sf ch : forall a, linked m sf a ch -> nnext m (lastn a ch) = O.
Proof. induction ch as [|[b u] rest IH]; intros a L; cbn in *; [exact L|]. apply IH. apply L. Qed.

Lemma lastn_in a ch : In (lastn a ch) (a :: map fst ch).
Proof.
  revert a. induction ch as [|[b u] rest IH]; intros a; cbn; [auto|].
  right. apply (IH b).
Qed.

Lemma GL_frame x x' :
  qhead (mem (base x')) 0%nat = qhead (mem (base x)) 0%nat ->
  qtail (mem (base x')) 0%nat = qtail (mem (base x)) 0%nat ->
  (forall nd, In nd (nodes x) -> nnext (mem (base x')) nd = nnext (mem (base x)) nd) ->
  (forall nd, In nd (map fst (chain x)) -> ndata (mem (base x')) nd = ndata (mem (base x)) nd) ->
  chain x' = chain x -> (forall u, In u (pw x) -> In u (pw x')) -> infl x' = infl x ->
  (forall u, In u (map snd (chain x)) ->
     (linking (stk (base x') u) <-> linking (stk (base x) u)) /\
     (linking (stk (base x) u) -> stk (base x') u = stk (base x) u)) ->
  GL x -> GL x'.
Proof.
  intros Eh Et En Ed Ec Ep Ei Hs [L1 L2 L3 L4 L5 L6 L7].
  assert (Eno : nodes x' = nodes x) by (unfold nodes; rewrite Eh, Ec; reflexivity).
  constructor; rewrite ?Eno, ?Eh, ?Et, ?Ec, ?Ei; auto.
  - eapply linked_frame; [| |exact L4]; auto.
  - intros nd u H. destruct (L5 _ _ H) as [A B]. split; [|auto].
    rewrite Ed; [exact A|]. apply in_map_iff. exists (nd, u). auto.
  - intros f Hf. destruct (L7 _ Hf). auto.
Qed.

Lemma GN_frame x x' :
  (forall u, fnode (mem (base x')) u = fnode (mem (base x)) u) ->
  (forall u, held (stk (base x') u) = held (stk (base x) u)) ->
  nodes x' = nodes x ->
  GN x -> GN x'.
Proof.
  intros Ef Eh En [N1 N2 N3 N4 N5].
  constructor; intros *; rewrite ?Ef, ?Eh, ?En; auto.
Qed.

(* ---- steps that only touch the stepping fiber's own state/pend/blocked ---- *)
Record priv (m m' : kmem) (t : nat) : Prop := {
  pv_ndata : ndata m' = ndata m;
  pv_nnext : nnext m' = nnext m;
  pv_word : word m' = word m;
  pv_qhead : qhead m' = qhead m;
  pv_qtail : qtail m' = qtail m;
  pv_fnode : fnode m' = fnode m;
  pv_smutex : slot_mutex m' = slot_mutex m;
  pv_swait : slot_wait m' = slot_wait m;
  pv_smpmc : slot_mpmc m' = slot_mpmc m;
  pv_ssched : slot_sched m' = slot_sched m;
  pv_fstate : forall u, u <> t -> fstate m' u = fstate m u;
  pv_pend : forall u, u <> t -> pend m' u = pend m u;
  pv_blocked : forall u, u <> t -> blocked m' u = blocked m u
}.

Definition ghost_neutral (sg : stack bc) : Prop :=
  match sg with
  | WXchg _ _ :: _ | KSetHead _ _ _ _ _ :: _ | KState _ _ _ _ :: _ | KReady _ _ _ _ :: _ | WFAdd _ _ _ :: _ => False
  | _ => True
  end.

Lemma ghost_neutral_eq x t : ghost_neutral (stk (base x) t) ->
  chain (lstep x t) = chain x /\ infl (lstep x t) = infl x /\ pw (lstep x t) = pw x.
Proof.
  intros H. rewrite lstep_chain, lstep_infl, lstep_pw.
  destruct (stk (base x) t) as [|[] ?]; try contradiction; auto.
Qed.

Lemma bot_same_logs x t :
  bot (stk (base (lstep x t)) t) = bot (stk (base x) t) \/ (exists n k, bot (stk (base x) t) = Some (BNext n k)) ->
  rets (lstep x t) = rets x /\ arr (lstep x t) = arr x.
Proof.
  intros H. rewrite lstep_rets, lstep_arr. rewrite <- lstep_erase. destruct H as [H|(n & k & H)].
  - rewrite H. destruct (bot (stk (base x) t)) as [[]|]; auto.
  - rewrite H. auto.
Qed.

Lemma same_ghost_refl x x' u : pw x' = pw x -> chain x' = chain x -> infl x' = infl x -> same_ghost x x' u.
Proof. intros A B C. constructor; unfold Qp, Cp, Fp; rewrite ?A, ?B, ?C; tauto. Qed.

Lemma private_step count x t m1 e1 s1 :
  G count x ->
  kstep bc (cret count) (mem (base x)) t (stk (base x) t) = (m1, e1, s1) ->
  priv (mem (base x)) m1 t ->
  same_obs (stk (base x) t) s1 -> held s1 = held (stk (base x) t) ->
  ~ linking (stk (base x) t) -> ~ linking s1 ->
  (chain (lstep x t) = chain x /\ infl (lstep x t) = infl x /\ pw (lstep x t) = pw x) ->
  (bot s1 = bot (stk (base x) t) \/ exists n k, bot (stk (base x) t) = Some (BNext n k)) ->
  (infl x = Some t -> fstate (mem (base x)) t = ST_WAITING -> fstate m1 t = ST_WAITING) ->
  (mem (base (lstep x t)) = m1 -> pw (lstep x t) = pw x -> chain (lstep x t) = chain x ->
   infl (lstep x t) = infl x -> lok count (lstep x t) t s1) ->
  G count (lstep x t).
Proof.
  intros [A L N M] K P So Hh Nl Nl' Gn Hb Hw Hl.
  pose proof (g_cnt _ _ M) as Ec.
  assert (K' : kstep bc (cret (cnt (base x))) (mem (base x)) t (stk (base x) t) = (m1, e1, s1)) by (rewrite Ec; exact K).
  destruct (lstep_view x t m1 e1 s1 K') as (Em & Es & Eo & Ecn & Enn).
  destruct Gn as (Gc & Gi & Gp).
  assert (Eb : bot (stk (base (lstep x t)) t) = bot (stk (base x) t) \/ exists n k, bot (stk (base x) t) = Some (BNext n k))
    by (rewrite Es; exact Hb).
  destruct (bot_same_logs x t Eb) as [Gr Ga].
  destruct P as [P1 P2 P3 P4 P5 P6 P7 P8 P9 P10 P11 P12 P13].
  assert (Eno : nodes (lstep x t) = nodes x) by (unfold nodes; rewrite Em, P4, Gc; reflexivity).
  constructor.
  - apply (GA_frame count x); auto; try (rewrite Em, P3; reflexivity); try (intros Hns; rewrite Gi; apply (g_infl_none _ _ A Hns)).
    intros u. destruct (Nat.eq_dec u t) as [->|Ne]; [rewrite Es; exact So|].
    rewrite Eo by exact Ne. apply same_obs_refl.
  - apply (GL_frame x); auto; try (rewrite Em, ?P1, ?P2, ?P4, ?P5; reflexivity).
    + rewrite Gp. auto.
    + intros u _. destruct (Nat.eq_dec u t) as [->|Ne]; [rewrite Es; tauto|].
    rewrite Eo by exact Ne. tauto.
  - apply (GN_frame x); auto; try (intros; rewrite Em, P6; reflexivity).
    intros u. destruct (Nat.eq_dec u t) as [->|Ne]; [rewrite Es; exact Hh|]. rewrite Eo by exact Ne. reflexivity.
  - destruct M as [M1 M2 M3 M4]. constructor.
    + rewrite Ecn. exact M1.
    + rewrite Em. eapply slots_none_same; eauto.
    + intros u. rewrite Em, P10. apply M3.
    + intros u. destruct (Nat.eq_dec u t) as [->|Ne]; [rewrite Es; apply Hl; assumption|].
      rewrite Eo by exact Ne. apply (lok_frame count x); [| | | |apply M4].
      * rewrite Em. constructor; [apply P11|apply P12|apply P13|rewrite P6]; auto.
      * apply same_ghost_refl; assumption.
      * intros _. rewrite Em, P4, P1, P2, P6. repeat split; auto.
        intros Hf. destruct (Nat.eq_dec f t) as [->|Nf]; [apply Hw; assumption|].
        rewrite P11 by exact Nf. exact Hf.
      * intros _. rewrite Em, P1, P2. auto.
Qed.
Ltac priv_tac := constructor; try reflexivity; intros; cbn; try apply upd_other; auto.
Ltac obs := unfold same_obs, is_ser, is_wait, rnd; cbn; repeat split; intros;
  repeat match goal with
         | H : exists _, _ |- _ => destruct H
         | H : _ \/ _ |- _ => destruct H
         end; try discriminate; auto; try tauto; try (do 2 eexists; reflexivity).

Section Steps.
Variable count : Z.
Hypothesis Hcount : 1 <= count.

Lemma ghost_unq x x' t :
  pw x' = pw x -> chain x' = chain x -> infl x' = infl x ->
  pend (mem (base x')) t = pend (mem (base x)) t -> blocked (mem (base x')) t = blocked (mem (base x)) t ->
  unq x t -> unq x' t.
Proof.
  intros A B C D E (U1 & U2 & U3 & U4 & U5). unfold unq, Qp, Cp, Fp, quiet in *.
  rewrite A, B, C, D, E. tauto.
Qed.

Lemma step_wsaving x t n k :
  G count x -> stk (base x) t = [WSaving 0; FC (BRet n k 0)] -> G count (lstep x t).
Proof.
  intros Gx E. pose proof (g_local _ _ (g_m _ _ Gx) t) as L. rewrite E in L. inversion L; subst.
  match goal with H : unq _ _ |- _ => pose proof H as (Uq & Uc & Uf & Uqt) end.
  eapply (private_step count x t); [exact Gx|rewrite E; cbn [kstep]; reflexivity|..]; rewrite ?E.
  - priv_tac.
  - obs.
  - reflexivity.
  - cbn. tauto.
  - cbn. tauto.
  - apply ghost_neutral_eq; rewrite E; exact I.
  - left; reflexivity.
  - intros Hi. exfalso. exact (Uf Hi).
  - intros Em Ep Ech Ei. constructor.
    + eapply ghost_unq; eauto; rewrite Em; reflexivity.
    + rewrite Em. assumption.
    + rewrite Em. cbn. apply upd_same.
Qed.

Ltac inv_local Gx t E L :=
  pose proof (g_local _ _ (g_m _ _ Gx) t) as L; rewrite E in L; inversion L; subst; clear L.

Lemma ghost_presleep x x' t :
  pw x' = pw x -> chain x' = chain x -> infl x' = infl x -> mem (base x') = mem (base x) ->
  presleep x t -> presleep x' t.
Proof. intros A B C D. apply presleep_frame; [rewrite D; constructor; reflexivity|apply same_ghost_refl; auto]. Qed.
Lemma ghost_postres x x' t :
  pw x' = pw x -> chain x' = chain x -> infl x' = infl x -> mem (base x') = mem (base x) ->
  postres x t -> postres x' t.
Proof. intros A B C D. apply postres_frame; [rewrite D; constructor; reflexivity|apply same_ghost_refl; auto]. Qed.
Lemma ghost_serl x x' t :
  pw x' = pw x -> chain x' = chain x -> infl x' = infl x -> mem (base x') = mem (base x) ->
  serl x t -> serl x' t.
Proof. intros A B C D. apply serl_frame; [rewrite D; constructor; reflexivity|apply same_ghost_refl; auto]. Qed.

Lemma priv_refl m t : priv m m t.
Proof. constructor; auto. Qed.

Lemma step_wyread x t n k :
  G count x -> stk (base x) t = [YRead; FC (BRet n k 0)] -> G count (lstep x t).
Proof.
  intros Gx E. inv_local Gx t E L.
  eapply (private_step count x t); [exact Gx|rewrite E; cbn [kstep]; reflexivity|..]; rewrite ?E.
  - apply priv_refl.
  - obs.
  - reflexivity.
  - cbn; tauto.
  - cbn; tauto.
  - apply ghost_neutral_eq; rewrite E; exact I.
  - left; reflexivity.
  - auto.
  - intros Em Ep Ech Ei. constructor.
    match goal with H : _ \/ _ |- _ => destruct H as [P|P] end.
    + left. split; [apply P|]. eapply ghost_presleep; eauto.
    + right. split; [apply P|]. eapply ghost_postres; eauto.
Qed.

Lemma step_wynext_switch x t n k :
  G count x -> stk (base x) t = [YNext ST_SAVING; FC (BRet n k 0)] -> G count (lstep x t).
Proof.
  intros Gx E. inv_local Gx t E L.
  match goal with H : _ \/ _ |- _ => destruct H as [[_ P]|[P _]]; [|discriminate] end.
  eapply (private_step count x t); [exact Gx|rewrite E; cbn [kstep]; reflexivity|..]; rewrite ?E.
  - apply priv_refl.
  - obs.
  - reflexivity.
  - cbn; tauto.
  - cbn; tauto.
  - apply ghost_neutral_eq; rewrite E; exact I.
  - left; reflexivity.
  - auto.
  - intros Em Ep Ech Ei. constructor. eapply ghost_presleep; eauto.
Qed.

Lemma step_wswread x t n k :
  G count x -> stk (base x) t = [SwRead; YLoop; FC (BRet n k 0)] -> G count (lstep x t).
Proof.
  intros Gx E. inv_local Gx t E L.
  match goal with H : presleep _ _ |- _ => pose proof H as (Ps & _) end.
  eapply (private_step count x t); [exact Gx|rewrite E; cbn [kstep]; rewrite Ps; reflexivity|..]; rewrite ?E.
  - apply priv_refl.
  - obs.
  - reflexivity.
  - cbn; tauto.
  - cbn; tauto.
  - apply ghost_neutral_eq; rewrite E; exact I.
  - left; reflexivity.
  - auto.
  - intros Em Ep Ech Ei. constructor. eapply ghost_presleep; eauto.
Qed.

Lemma step_wswdone x t n k :
  G count x -> stk (base x) t = [SwDone; YLoop; FC (BRet n k 0)] -> G count (lstep x t).
Proof.
  intros Gx E. inv_local Gx t E L.
  eapply (private_step count x t); [exact Gx|rewrite E; cbn [kstep]; reflexivity|..]; rewrite ?E.
  - apply priv_refl.
  - obs.
  - reflexivity.
  - cbn; tauto.
  - cbn; tauto.
  - apply ghost_neutral_eq; rewrite E; exact I.
  - left; reflexivity.
  - auto.
  - intros Em Ep Ech Ei. constructor. eapply ghost_presleep; eauto.
Qed.

Lemma step_wmread x t n k :
  G count x -> stk (base x) t = [MRead; YLoop; FC (BRet n k 0)] -> G count (lstep x t).
Proof.
  intros Gx E. inv_local Gx t E L.
  match goal with H : presleep _ _ |- _ => pose proof H as (Ps & _) end.
  eapply (private_step count x t); [exact Gx|rewrite E; cbn [kstep]; rewrite Ps; reflexivity|..]; rewrite ?E.
  - apply priv_refl.
  - obs.
  - reflexivity.
  - cbn; tauto.
  - cbn; tauto.
  - apply ghost_neutral_eq; rewrite E; exact I.
  - left; reflexivity.
  - auto.
  - intros Em Ep Ech Ei. constructor. eapply ghost_presleep; eauto.
Qed.

Lemma step_wmflip x t n k :
  G count x -> stk (base x) t = [MFlip; YLoop; FC (BRet n k 0)] -> G count (lstep x t).
Proof.
  intros Gx E. inv_local Gx t E L.
  match goal with H : presleep _ _ |- _ => pose proof H as (Ps & Pb & Pc) end.
  pose proof (g_sched _ _ (g_m _ _ Gx) t) as Hsc. destruct (g_slots _ _ (g_m _ _ Gx) t) as (S1 & S2 & S3).
  destruct Pc as [(Pq & Pcf & Pp)|(Pq & Pp & Pf)].
  - eapply (private_step count x t); [exact Gx|rewrite E; cbn [kstep]; rewrite run_slots_plain by (cbn; assumption);
      cbn [pend set_fstate]; rewrite Pp; reflexivity|..]; rewrite ?E.
    + priv_tac.
    + obs.
    + reflexivity.
    + cbn; tauto.
    + cbn; tauto.
    + apply ghost_neutral_eq; rewrite E; exact I.
    + left; reflexivity.
    + intros _ Hw. rewrite Ps in Hw. discriminate.
    + intros Em Ep Ech Ei. constructor. left. unfold Qp, Cp, Fp in *. rewrite Ep, Ech, Ei, Em. cbn.
      rewrite !upd_same. auto.
  - eapply (private_step count x t); [exact Gx|rewrite E; cbn [kstep]; rewrite run_slots_plain by (cbn; assumption);
      cbn [pend set_fstate]; rewrite Pp; reflexivity|..]; rewrite ?E.
    + priv_tac.
    + obs.
    + reflexivity.
    + cbn; tauto.
    + cbn; tauto.
    + apply ghost_neutral_eq; rewrite E; exact I.
    + left; reflexivity.
    + intros _ Hw. rewrite Ps in Hw. discriminate.
    + intros Em Ep Ech Ei. constructor; unfold Qp, quiet in *; rewrite ?Ep, ?Em; cbn; rewrite ?upd_same; auto.
Qed.

Lemma step_wasleep x t n k :
  G count x -> status_of (base x) t = SReady ->
  stk (base x) t = [Asleep; YLoop; FC (BRet n k 0)] -> G count (lstep x t).
Proof.
  intros Gx Hst E. inv_local Gx t E L.
  assert (Hb : blocked (mem (base x)) t = false).
  { unfold status_of in Hst. rewrite E in Hst. cbn [kstatus] in Hst.
    destruct (t <? nthr (base x))%nat; [|discriminate]. destruct (blocked (mem (base x)) t); [discriminate|reflexivity]. }
  match goal with H : asleep_ok _ _ |- _ => destruct H as [(_ & _ & _ & Hb' & _)|(Aq & Ap & Ab & Af & As)] end; [congruence|].
  eapply (private_step count x t); [exact Gx|rewrite E; cbn [kstep]; reflexivity|..]; rewrite ?E.
  - apply priv_refl.
  - obs.
  - reflexivity.
  - cbn; tauto.
  - cbn; tauto.
  - apply ghost_neutral_eq; rewrite E; exact I.
  - left; reflexivity.
  - auto.
  - intros Em Ep Ech Ei. constructor; unfold Qp, quiet in *; rewrite ?Ep, ?Em; auto.
Qed.

Lemma step_wresume x t n k :
  G count x -> stk (base x) t = [Resume; YLoop; FC (BRet n k 0)] -> G count (lstep x t).
Proof.
  intros Gx E. inv_local Gx t E L.
  match goal with H : quiet _ _ |- _ => pose proof H as [Hp Hb] end.
  eapply (private_step count x t); [exact Gx|rewrite E; cbn [kstep ret]; reflexivity|..]; rewrite ?E.
  - priv_tac.
  - obs.
  - reflexivity.
  - cbn; tauto.
  - cbn; tauto.
  - apply ghost_neutral_eq; rewrite E; exact I.
  - left; reflexivity.
  - intros Hi. exfalso. destruct (g_infl _ (g_l _ _ Gx) _ Hi) as [Hq _]. contradiction.
  - intros Em Ep Ech Ei. constructor. right. unfold postres, Qp, quiet in *. rewrite Ep, Em. cbn.
    rewrite !upd_same. auto.
Qed.

Ltac pfin := first [apply priv_refl | obs | reflexivity | (cbn; tauto) | exact I | (left; reflexivity) | auto].

Lemma step_khead x t wc n k :
  G count x -> stk (base x) t = [KHead 0 (count - 1) wc; FC (BRet n k 1)] -> G count (lstep x t).
Proof.
  intros Gx E. inv_local Gx t E L.
  eapply (private_step count x t); [exact Gx|rewrite E; cbn [kstep]; reflexivity|..]; rewrite ?E.
  - apply priv_refl.
  - obs.
  - reflexivity.
  - cbn; tauto.
  - cbn; tauto.
  - apply ghost_neutral_eq; rewrite E; exact I.
  - left; reflexivity.
  - auto.
  - intros Em Ep Ech Ei. constructor; [eapply ghost_serl; eauto|congruence|rewrite Em; reflexivity].
Qed.

(* KNext when the next pointer is not NULL *)
Lemma step_knext_some x t wc h n k nx :
  G count x -> stk (base x) t = [KNext 0 (count - 1) wc h; FC (BRet n k 1)] ->
  nnext (mem (base x)) h = S nx -> G count (lstep x t).
Proof.
  intros Gx E Hn. inv_local Gx t E L.
  eapply (private_step count x t); [exact Gx|rewrite E; cbn [kstep]; rewrite Hn; reflexivity|..]; rewrite ?E.
  - apply priv_refl.
  - obs.
  - reflexivity.
  - cbn; tauto.
  - cbn; tauto.
  - apply ghost_neutral_eq; rewrite E; exact I.
  - left; reflexivity.
  - auto.
  - intros Em Ep Ech Ei. constructor; [eapply ghost_serl; eauto|congruence|rewrite Em; reflexivity|discriminate|rewrite Em; exact Hn].
Qed.

(* KNext on an empty list with more waiters to collect: yield and retry *)
Lemma step_knext_spin x t wc h n k :
  G count x -> stk (base x) t = [KNext 0 (count - 1) wc h; FC (BRet n k 1)] ->
  nnext (mem (base x)) h = O -> (0 <? count - 1) = true -> G count (lstep x t).
Proof.
  intros Gx E Hn Hc. inv_local Gx t E L.
  eapply (private_step count x t); [exact Gx|rewrite E; cbn [kstep]; rewrite Hn, Hc; reflexivity|..]; rewrite ?E.
  - apply priv_refl.
  - obs.
  - reflexivity.
  - cbn; tauto.
  - cbn; tauto.
  - apply ghost_neutral_eq; rewrite E; exact I.
  - left; reflexivity.
  - auto.
  - intros Em Ep Ech Ei. constructor; [eapply ghost_serl; eauto|congruence].
Qed.

Lemma step_kdata x t wc h nx n k :
  G count x -> stk (base x) t = [KData 0 (count - 1) wc h nx; FC (BRet n k 1)] -> G count (lstep x t).
Proof.
  intros Gx E. inv_local Gx t E L.
  eapply (private_step count x t); [exact Gx|rewrite E; cbn [kstep]; reflexivity|..]; rewrite ?E.
  - apply priv_refl.
  - obs.
  - reflexivity.
  - cbn; tauto.
  - cbn; tauto.
  - apply ghost_neutral_eq; rewrite E; exact I.
  - left; reflexivity.
  - auto.
  - intros Em Ep Ech Ei. eapply lk_kcopy; [eapply ghost_serl; eauto|assumption|rewrite Ei; eassumption|assumption].
Qed.

Lemma step_kyread x t wc n k :
  G count x -> stk (base x) t = [YRead; KSpin 0 (count - 1) wc; FC (BRet n k 1)] -> G count (lstep x t).
Proof.
  intros Gx E. inv_local Gx t E L.
  match goal with H : serl _ _ |- _ => pose proof H as (_ & _ & _ & Hr) end.
  eapply (private_step count x t); [exact Gx|rewrite E; cbn [kstep]; rewrite Hr; reflexivity|..]; rewrite ?E.
  - apply priv_refl.
  - obs.
  - reflexivity.
  - cbn; tauto.
  - cbn; tauto.
  - apply ghost_neutral_eq; rewrite E; exact I.
  - left; reflexivity.
  - auto.
  - intros Em Ep Ech Ei. constructor; [eapply ghost_serl; eauto|congruence].
Qed.

(* the yield of a failed pop returns at once: retry *)
Lemma step_kynext_retry x t wc n k :
  G count x -> stk (base x) t = [YNext ST_RUNNING; KSpin 0 (count - 1) wc; FC (BRet n k 1)] ->
  (wc <? count - 1) = true -> G count (lstep x t).
Proof.
  intros Gx E Hc. inv_local Gx t E L.
  eapply (private_step count x t); [exact Gx|rewrite E; cbn [kstep]; cbn [Z.eqb orb ST_RUNNING ST_WAITING ST_DONE ST_SAVING Pos.eqb];
    rewrite ret_kspin, Hc; reflexivity|..]; rewrite ?E.
  - apply priv_refl.
  - obs.
  - reflexivity.
  - cbn; tauto.
  - cbn; tauto.
  - apply ghost_neutral_eq; rewrite E; exact I.
  - left; reflexivity.
  - auto.
  - intros Em Ep Ech Ei. constructor; [eapply ghost_serl; eauto|congruence].
Qed.

Lemma step_start x t n :
  G count x -> stk (base x) t = [Start; FC (BNext n 1)] -> G count (lstep x t).
Proof.
  intros Gx E. inv_local Gx t E L.
  eapply (private_step count x t); [exact Gx|rewrite E; cbn [kstep]; rewrite ret_bnext; reflexivity|..]; rewrite ?E.
  - priv_tac.
  - destruct n; obs.
  - destruct n; reflexivity.
  - cbn; tauto.
  - destruct n; cbn; tauto.
  - apply ghost_neutral_eq; rewrite E; exact I.
  - right. do 2 eexists. reflexivity.
  - intros Hi. exfalso. destruct (g_infl _ (g_l _ _ Gx) _ Hi) as [Hq _].
    destruct (g_pw _ _ (g_a _ _ Gx) _ Hq) as (_ & (n' & k' & Hw) & _). rewrite E in Hw. discriminate.
  - intros Em Ep Ech Ei. destruct n; cbn; constructor; unfold quiet in *; rewrite ?Em; cbn; rewrite ?upd_same; auto.
Qed.

Lemma step_kstate_waiting x t wc f n k :
  G count x -> stk (base x) t = [KState 0 (count - 1) wc f; FC (BRet n k 1)] ->
  fstate (mem (base x)) f = ST_WAITING -> G count (lstep x t).
Proof.
  intros Gx E Hf. inv_local Gx t E L.
  eapply (private_step count x t); [exact Gx|rewrite E; cbn [kstep]; rewrite Hf; reflexivity|..]; rewrite ?E.
  - apply priv_refl.
  - obs.
  - reflexivity.
  - cbn; tauto.
  - cbn; tauto.
  - rewrite lstep_chain, lstep_infl, lstep_pw, E, Hf. auto.
  - left; reflexivity.
  - auto.
  - intros Em Ep Ech Ei. constructor; [eapply ghost_serl; eauto|congruence|rewrite Em; assumption|rewrite Em; assumption].
Qed.

(* a write to the node the stepping fiber carries in its frame *)
Record wr (m m' : kmem) (w : nat) : Prop := {
  wr_fstate : fstate m' = fstate m; wr_word : word m' = word m;
  wr_qhead : qhead m' = qhead m; wr_qtail : qtail m' = qtail m; wr_fnode : fnode m' = fnode m;
  wr_blocked : blocked m' = blocked m; wr_pend : pend m' = pend m;
  wr_smutex : slot_mutex m' = slot_mutex m; wr_swait : slot_wait m' = slot_wait m;
  wr_smpmc : slot_mpmc m' = slot_mpmc m; wr_ssched : slot_sched m' = slot_sched m;
  wr_ndata : forall nd, nd <> w -> ndata m' nd = ndata m nd;
  wr_nnext : forall nd, nd <> w -> nnext m' nd = nnext m nd
}.

Lemma held_write_step x t m1 e1 s1 w :
  G count x ->
  kstep bc (cret count) (mem (base x)) t (stk (base x) t) = (m1, e1, s1) ->
  w = held (stk (base x) t) -> w <> O -> held s1 = w ->
  wr (mem (base x)) m1 w ->
  same_obs (stk (base x) t) s1 -> ~ linking (stk (base x) t) -> ~ linking s1 ->
  (chain (lstep x t) = chain x /\ infl (lstep x t) = infl x /\ pw (lstep x t) = pw x) ->
  bot s1 = bot (stk (base x) t) ->
  (mem (base (lstep x t)) = m1 -> pw (lstep x t) = pw x -> chain (lstep x t) = chain x ->
   infl (lstep x t) = infl x -> lok count (lstep x t) t s1) ->
  G count (lstep x t).
Proof.
  intros [A L N M] K Hw Hnz Hh W So Nl Nl' (Gc & Gi & Gp) Hb Hl.
  pose proof (g_cnt _ _ M) as Ec.
  assert (K' : kstep bc (cret (cnt (base x))) (mem (base x)) t (stk (base x) t) = (m1, e1, s1)) by (rewrite Ec; exact K).
  destruct (lstep_view x t m1 e1 s1 K') as (Em & Es & Eo & Ecn & Enn).
  assert (Eb : bot (stk (base (lstep x t)) t) = bot (stk (base x) t) \/ exists n k, bot (stk (base x) t) = Some (BNext n k))
    by (left; rewrite Es; exact Hb).
  destruct (bot_same_logs x t Eb) as [Gr Ga].
  destruct W as [W1 W2 W3 W4 W5 W6 W7 W8 W9 W10 W11 W12 W13].
  assert (Eno : nodes (lstep x t) = nodes x) by (unfold nodes; rewrite Em, W3, Gc; reflexivity).
  assert (Hwn : ~ In w (nodes x)) by (rewrite Hw; apply (g_held_nodes _ N); rewrite <- Hw; exact Hnz).
  assert (Hne : forall nd, In nd (nodes x) -> nd <> w) by (intros nd Hi ->; exact (Hwn Hi)).
  constructor.
  - apply (GA_frame count x); auto; try (rewrite Em, W2; reflexivity); try (intros Hns; rewrite Gi; apply (g_infl_none _ _ A Hns)).
    intros u. destruct (Nat.eq_dec u t) as [->|Ne]; [rewrite Es; exact So|].
    rewrite Eo by exact Ne. apply same_obs_refl.
  - apply (GL_frame x); auto; try (rewrite Em, ?W3, ?W4; reflexivity).
    + intros nd Hi. rewrite Em. apply W13. auto.
    + intros nd Hi. rewrite Em. apply W12. apply Hne. right. exact Hi.
    + rewrite Gp. auto.
    + intros u _. destruct (Nat.eq_dec u t) as [->|Ne]; [rewrite Es; tauto|].
      rewrite Eo by exact Ne. tauto.
  - apply (GN_frame x); auto; try (intros; rewrite Em, W5; reflexivity).
    intros u. destruct (Nat.eq_dec u t) as [->|Ne]; [rewrite Es; congruence|]. rewrite Eo by exact Ne. reflexivity.
  - destruct M as [M1 M2 M3 M4]. constructor.
    + rewrite Ecn. exact M1.
    + rewrite Em. eapply slots_none_same; eauto.
    + intros u. rewrite Em, W11. apply M3.
    + intros u. destruct (Nat.eq_dec u t) as [->|Ne]; [rewrite Es; apply Hl; assumption|].
      rewrite Eo by exact Ne. apply (lok_frame count x); [| | | |apply M4].
      * rewrite Em. constructor; [rewrite W1|rewrite W7|rewrite W6|rewrite W5]; reflexivity.
      * apply same_ghost_refl; assumption.
      * intros _. rewrite Em, W3, W5, W1. repeat split; auto.
        -- apply W12. apply Hne. left. reflexivity.
        -- intros _. apply W13. apply Hne. left. reflexivity.
      * intros Hu. assert (held (stk (base x) u) <> w).
        { intros Eq. apply Ne. apply (g_held_inj _ N); [exact Hu|congruence]. }
        rewrite Em. split; [apply W12|apply W13]; assumption.
Qed.

Ltac wr_tac := constructor; try reflexivity; intros; cbn; apply upd_other; auto.

Lemma step_wnext x t nd n k :
  G count x -> stk (base x) t = [WNext 0 nd; FC (BRet n k 0)] -> G count (lstep x t).
Proof.
  intros Gx E. inv_local Gx t E L.
  eapply (held_write_step x t _ _ _ nd); [exact Gx|rewrite E; cbn [kstep]; reflexivity|..]; rewrite ?E.
  - reflexivity.
  - assumption.
  - reflexivity.
  - wr_tac.
  - obs.
  - cbn; tauto.
  - cbn; tauto.
  - apply ghost_neutral_eq; rewrite E; exact I.
  - reflexivity.
  - intros Em Ep Ech Ei. constructor; rewrite ?Em; cbn; rewrite ?upd_same; auto.
    eapply ghost_unq; eauto; rewrite Em; reflexivity.
Qed.

Lemma step_kcopy x t wc h d n k :
  G count x -> stk (base x) t = [KCopy 0 (count - 1) wc h d; FC (BRet n k 1)] -> G count (lstep x t).
Proof.
  intros Gx E. inv_local Gx t E L.
  eapply (held_write_step x t _ _ _ h); [exact Gx|rewrite E; cbn [kstep]; reflexivity|..]; rewrite ?E.
  - reflexivity.
  - assumption.
  - reflexivity.
  - wr_tac.
  - obs.
  - cbn; tauto.
  - cbn; tauto.
  - apply ghost_neutral_eq; rewrite E; exact I.
  - reflexivity.
  - intros Em Ep Ech Ei. eapply lk_kout; [| assumption | rewrite Ei; eassumption | rewrite Em; cbn; apply upd_same].
    apply serl_frame with (x := x); [rewrite Em; constructor; reflexivity|apply same_ghost_refl; auto|assumption].
Qed.

Lemma step_wdata x t n k :
  G count x -> stk (base x) t = [WData 0; FC (BRet n k 0)] -> G count (lstep x t).
Proof.
  intros Gx E. inv_local Gx t E L.
  match goal with H : unq _ _ |- _ => pose proof H as (Uq & Uc & Uf & Uqt) end.
  destruct Gx as [A Lg N M].
  set (m := mem (base x)) in *. set (nd := fnode m t) in *.
  pose proof (g_cnt _ _ M) as Ec.
  assert (K : kstep bc (cret (cnt (base x))) m t (stk (base x) t)
              = (set_fnode (set_ndata m nd (fname t)) t O, ev t (l_data nd) 19 (fname t), [WNext 0 nd; FC (BRet n k 0)])).
  { rewrite E. reflexivity. }
  destruct (lstep_view x t _ _ _ K) as (Em & Es & Eo & Ecn & Enn).
  assert (Gn : ghost_neutral (stk (base x) t)) by (rewrite E; exact I).
  destruct (ghost_neutral_eq x t Gn) as (Gc & Gi & Gp).
  assert (Eb : bot (stk (base (lstep x t)) t) = bot (stk (base x) t) \/ exists n k, bot (stk (base x) t) = Some (BNext n k))
    by (left; rewrite Es, E; reflexivity).
  destruct (bot_same_logs x t Eb) as [Gr Ga].
  assert (Eno : nodes (lstep x t) = nodes x) by (unfold nodes; rewrite Em, Gc; reflexivity).
  assert (Hnd : nd <> O) by assumption.
  assert (Hwn : ~ In nd (nodes x)) by (apply (g_fnode_nodes _ N); exact Hnd).
  assert (Hf' : forall u, fnode (mem (base (lstep x t))) u = if Nat.eqb u t then O else fnode m u).
  { intros u. rewrite Em. cbn. unfold upd. reflexivity. }
  assert (Hh' : forall u, held (stk (base (lstep x t)) u) = if Nat.eqb u t then nd else held (stk (base x) u)).
  { intros u. destruct (Nat.eqb_spec u t) as [->|Ne]; [rewrite Es; reflexivity|rewrite Eo by exact Ne; reflexivity]. }
  assert (Hht : held (stk (base x) t) = O) by (rewrite E; reflexivity).
  constructor.
  - apply (GA_frame count x); auto; try (rewrite Em; reflexivity); try (intros Hns; rewrite Gi; apply (g_infl_none _ _ A Hns));
      try (intros Hns; exfalso; apply (Hns t); rewrite E; do 2 eexists; reflexivity).
    intros u. destruct (Nat.eq_dec u t) as [->|Ne]; [rewrite Es, E; obs|].
    rewrite Eo by exact Ne. apply same_obs_refl.
  - apply (GL_frame x); auto; try (rewrite Em; reflexivity).
    + intros nd' Hi. rewrite Em. cbn. apply upd_other. intros ->. apply Hwn. right. exact Hi.
    + rewrite Gp. auto.
    + intros u _. destruct (Nat.eq_dec u t) as [->|Ne]; [rewrite Es, E; cbn; tauto|].
      rewrite Eo by exact Ne. tauto.
  - destruct N as [N1 N2 N3 N4 N5]. constructor; intros *; rewrite ?Hf', ?Hh', ?Eno.
    + destruct (Nat.eqb_spec u t) as [->|Ne]; [congruence|]. destruct (Nat.eqb_spec u' t) as [->|Ne']; [congruence|]. apply N1.
    + destruct (Nat.eqb_spec u t) as [->|Ne]; destruct (Nat.eqb_spec u' t) as [->|Ne']; auto.
      * intros _ Hq. exfalso. apply (N3 t u'); [exact Hnd|exact Hq].
      * intros _ Hq. exfalso. apply (N3 t u); [exact Hnd|symmetry; exact Hq].
    + destruct (Nat.eqb_spec u t) as [->|Ne]; [congruence|]. destruct (Nat.eqb_spec u' t) as [->|Ne']; [|apply N3].
      intros Hu Hq. apply Ne. apply N1; assumption.
    + destruct (Nat.eqb_spec u t) as [->|Ne]; [congruence|apply N4].
    + destruct (Nat.eqb_spec u t) as [->|Ne]; [intros _; exact Hwn|apply N5].
  - destruct M as [M1 M2 M3 M4]. constructor.
    + rewrite Ecn. exact M1.
    + rewrite Em. eapply slots_none_same; eauto.
    + intros u. rewrite Em. apply M3.
    + intros u. destruct (Nat.eq_dec u t) as [->|Ne].
      * rewrite Es. constructor; rewrite ?Em; cbn; rewrite ?upd_same; auto.
        eapply ghost_unq; eauto; rewrite Em; reflexivity.
      * rewrite Eo by exact Ne. apply (lok_frame count x); [| | | |apply M4].
        -- rewrite Em. constructor; cbn; try reflexivity. apply upd_other. exact Ne.
        -- apply same_ghost_refl; assumption.
        -- intros _. rewrite Em. cbn [qhead ndata nnext fnode fstate set_fnode set_ndata].
           split; [assumption|]. split; [reflexivity|]. split; [|split; [|intros _]].
           ++ intros f0 Hf0. split; [|auto]. apply upd_other. intros ->. exact (Uf Hf0).
           ++ apply upd_other. intros Hq. apply Hwn. left. exact Hq.
           ++ reflexivity.
        -- intros Hu. rewrite Em. cbn [qhead ndata nnext fnode fstate set_fnode set_ndata]. split; [|reflexivity]. apply upd_other.
           intros Hq. apply (g_fnode_held _ N t u); [exact Hnd|symmetry; exact Hq].
Qed.
End Steps.

Ltac inv_local Gx t E L :=
  pose proof (g_local _ _ (g_m _ _ Gx) t) as L; rewrite E in L; inversion L; subst; clear L.

Lemma tid_fname f : tid_of_name (fname f) = f.
Proof. unfold tid_of_name, fname, Zn. replace (1000 + Z.of_nat f - 1000) with (Z.of_nat f) by lia. apply Nat2Z.id. Qed.

Lemma lastn_snoc ch : forall a b u, lastn a (ch ++ [(b, u)]) = b.
Proof. induction ch as [|[b' u'] rest IH]; intros a b u; cbn; [reflexivity|apply IH]. Qed.

Lemma linked_snoc m sf ch b u : forall a,
  linked m sf a ch -> (exists r, sf u = WLink 0 (lastn a ch) b :: r) -> nnext m b = O ->
  linked m sf a (ch ++ [(b, u)]).
Proof.
  induction ch as [|[b' u'] rest IH]; intros a L Hs Hb; cbn in *.
  - split; [right; split; assumption|exact Hb].
  - destruct L as [L1 L2]. split; [exact L1|]. apply IH; assumption.
Qed.

Lemma linked_link m sf sf' p b u r : forall ch a,
  NoDup (a :: map fst ch) -> NoDup (map snd ch) -> In (b, u) ch ->
  sf u = WLink 0 p b :: r -> ~ linking (sf' u) -> (forall u', u' <> u -> sf' u' = sf u') ->
  linked m sf a ch -> linked (set_nnext m p b) sf' a ch /\ In p (a :: map fst ch) /\ nnext m p = O.
Proof.
  induction ch as [|[b' u'] rest IH]; intros a Nd Ns Hi Hs Hl Ho L; [destruct Hi|].
  cbn [linked map fst snd] in *. destruct L as [D Lr].
  inversion Nd as [|? ? Na Nd']; subst. inversion Ns as [|? ? Nu Ns']; subst.
  destruct (Nat.eq_dec u' u) as [->|Ne].
  - assert (b' = b).
    { destruct Hi as [Hi|Hi]; [congruence|]. exfalso. apply Nu. apply in_map_iff. exists (b, u). auto. }
    subst b'. destruct D as [[_ D]|[D1 [r' D2]]]; [exfalso; apply D; rewrite Hs; exact I|].
    assert (p = a) by congruence. subst p. split; [|split; [left; reflexivity|exact D1]]. split.
    + left. split; [cbn; apply upd_same|exact Hl].
    + apply (linked_frame m _ sf sf'); [| |exact Lr].
      * intros nd Hn. cbn. apply upd_other. intros ->. apply Na. exact Hn.
      * intros u' Hu'. rewrite Ho; [tauto|]. intros ->. exact (Nu Hu').
  - destruct Hi as [Hi|Hi]; [congruence|].
    destruct (IH b' Nd' Ns' Hi Hs Hl Ho Lr) as (L' & Hp & Hz). split; [|split; [right; exact Hp|exact Hz]]. split; [|exact L'].
    assert (a <> p) by (intros ->; exact (Na Hp)).
    cbn [nnext set_nnext]. rewrite upd_other by exact H. rewrite (Ho u' Ne). exact D.
Qed.

Lemma linked_head m sf a ch nx : linked m sf a ch -> nnext m a = nx -> nx <> O ->
  exists f rest, ch = (nx, f) :: rest /\ ~ linking (sf f) /\ linked m sf nx rest.
Proof.
  intros L Hn Hz. destruct ch as [|[b u] rest]; cbn in L; [congruence|].
  destruct L as [[[A B]|[A _]] Lr]; [|congruence]. exists u, rest. split; [congruence|].
  split; [exact B|]. replace nx with b by congruence. exact Lr.
Qed.

Section Steps2.
Variable count : Z.
Hypothesis Hcount : 1 <= count.

(* the fiber whose entry is being consumed: its clause does not depend on its fnode *)
Lemma lok_infl_fnode x x' f sg :
  Qp x f -> Fp x f -> is_wait sg ->
  fstate (mem (base x')) f = fstate (mem (base x)) f -> pend (mem (base x')) f = pend (mem (base x)) f ->
  blocked (mem (base x')) f = blocked (mem (base x)) f ->
  pw x' = pw x -> chain x' = chain x -> infl x' = infl x ->
  lok count x f sg -> lok count x' f sg.
Proof.
  intros Hq Hf Hw A B C Ep Ec Ei L.
  assert (Q' : Qp x' f) by (unfold Qp in *; rewrite Ep; exact Hq).
  assert (F' : Fp x' f) by (unfold Fp in *; rewrite Ei; exact Hf).
  destruct L; try (destruct Hw as (n' & k' & Hw); discriminate);
    repeat match goal with
           | H : unq _ _ |- _ => destruct H as (_ & _ & Hnf & _); contradiction
           | H : serl _ _ |- _ => destruct H as (Hnq & _); contradiction
           end; try contradiction.
  - constructor. destruct H as [P|P].
    + left. destruct P as (P1 & P2 & [(P3 & P4 & P5)|(P3 & _)]); [|contradiction].
      unfold presleep. rewrite A, B, C. split; [exact P1|]. split; [exact P2|]. left. auto.
    + destruct P as (_ & P & _). contradiction.
  - constructor. destruct H as [[S P]|[S P]].
    + left. split; [exact S|]. destruct P as (P1 & P2 & [(P3 & P4 & P5)|(P3 & _)]); [|contradiction].
      unfold presleep. rewrite A, B, C. split; [exact P1|]. split; [exact P2|]. left. auto.
    + destruct P as (_ & P & _). contradiction.
  - constructor. destruct H as (P1 & P2 & [(P3 & P4 & P5)|(P3 & _)]); [|contradiction].
    unfold presleep. rewrite A, B, C. split; [exact P1|]. split; [exact P2|]. left. auto.
  - constructor. destruct H as (P1 & P2 & [(P3 & P4 & P5)|(P3 & _)]); [|contradiction].
    unfold presleep. rewrite A, B, C. split; [exact P1|]. split; [exact P2|]. left. auto.
  - constructor. destruct H as (P1 & P2 & [(P3 & P4 & P5)|(P3 & _)]); [|contradiction].
    unfold presleep. rewrite A, B, C. split; [exact P1|]. split; [exact P2|]. left. auto.
  - constructor. destruct H as (P1 & P2 & [(P3 & P4 & P5)|(P3 & _)]); [|contradiction].
    unfold presleep. rewrite A, B, C. split; [exact P1|]. split; [exact P2|]. left. auto.
  - constructor. destruct H as [(P1 & P2 & P3 & P4 & P5)|(P1 & _)]; [|contradiction].
    left. rewrite A, B, C. auto.
Qed.

Lemma step_kout x t wc h n k :
  G count x -> stk (base x) t = [KOut 0 (count - 1) wc h; FC (BRet n k 1)] -> G count (lstep x t).
Proof.
  intros Gx E. inv_local Gx t E L.
  match goal with H : serl _ _ |- _ => pose proof H as (Sq & Squ & Sfn & Sfs) end.
  match goal with H : infl x = Some _ |- _ => rename H into Hi end.
  match goal with H : ndata _ h = _ |- _ => rename H into Hd end.
  destruct (g_infl _ (g_l _ _ Gx) _ Hi) as [Fq Fnc].
  destruct (g_pw _ _ (g_a _ _ Gx) _ Fq) as (Flt & Fw & _).
  assert (Ntf : t <> f) by (intros ->; exact (Sq Fq)).
  destruct Gx as [A Lg N M].
  set (m := mem (base x)) in *.
  pose proof (g_cnt _ _ M) as Ec.
  assert (K : kstep bc (cret (cnt (base x))) m t (stk (base x) t)
              = (set_fnode m f h, ev t (l_data h) 9 (ndata m h), [KState 0 (count - 1) wc f; FC (BRet n k 1)])).
  { rewrite E. cbn [kstep]. fold m. rewrite Hd, tid_fname. reflexivity. }
  destruct (lstep_view x t _ _ _ K) as (Em & Es & Eo & Ecn & Enn).
  assert (Gn : ghost_neutral (stk (base x) t)) by (rewrite E; exact I).
  destruct (ghost_neutral_eq x t Gn) as (Gc & Gi & Gp).
  assert (Eb : bot (stk (base (lstep x t)) t) = bot (stk (base x) t) \/ exists n k, bot (stk (base x) t) = Some (BNext n k))
    by (left; rewrite Es, E; reflexivity).
  destruct (bot_same_logs x t Eb) as [Gr Ga].
  assert (Eno : nodes (lstep x t) = nodes x) by (unfold nodes; rewrite Em, Gc; reflexivity).
  assert (Hht : held (stk (base x) t) = h) by (rewrite E; reflexivity).
  assert (Hhn : ~ In h (nodes x)) by (rewrite <- Hht; apply (g_held_nodes _ N); rewrite Hht; assumption).
  assert (Hf' : forall u, fnode (mem (base (lstep x t))) u = if Nat.eqb u f then h else fnode m u).
  { intros u. rewrite Em. cbn. unfold upd. reflexivity. }
  assert (Hh' : forall u, held (stk (base (lstep x t)) u) = if Nat.eqb u t then O else held (stk (base x) u)).
  { intros u. destruct (Nat.eqb_spec u t) as [->|Ne]; [rewrite Es; reflexivity|rewrite Eo by exact Ne; reflexivity]. }
  constructor.
  - apply (GA_frame count x); auto; try (rewrite Em; reflexivity); try (intros Hns; rewrite Gi; apply (g_infl_none _ _ A Hns));
      try (intros Hns; exfalso; apply (Hns t); rewrite E; do 2 eexists; reflexivity).
    intros u. destruct (Nat.eq_dec u t) as [->|Ne]; [rewrite Es, E; obs|].
    rewrite Eo by exact Ne. apply same_obs_refl.
  - apply (GL_frame x); auto; try (rewrite Em; reflexivity).
    + rewrite Gp. auto.
    + intros u _. destruct (Nat.eq_dec u t) as [->|Ne]; [rewrite Es, E; cbn; tauto|].
      rewrite Eo by exact Ne. tauto.
  - destruct N as [N1 N2 N3 N4 N5]. constructor; intros *; rewrite ?Hf', ?Hh', ?Eno; subst m.
    + destruct (Nat.eqb_spec u f) as [->|Ne]; destruct (Nat.eqb_spec u' f) as [->|Ne']; auto.
      * intros Hz Hq. exfalso. apply (N3 u' t); [rewrite <- Hq; exact Hz|rewrite Hht; symmetry; exact Hq].
      * intros Hu Hq. exfalso. apply (N3 u t); [exact Hu|rewrite Hht; exact Hq].
    + destruct (Nat.eqb_spec u t) as [->|Ne]; [congruence|]. destruct (Nat.eqb_spec u' t) as [->|Ne']; [congruence|apply N2].
    + destruct (Nat.eqb_spec u f) as [->|Ne]; destruct (Nat.eqb_spec u' t) as [->|Ne']; auto.
      intros _ Hq. apply Ne'. symmetry. apply N2; [rewrite Hht; assumption|congruence].
    + destruct (Nat.eqb_spec u f) as [->|Ne]; [intros _; exact Hhn|apply N4].
    + destruct (Nat.eqb_spec u t) as [->|Ne]; [congruence|apply N5].
  - destruct M as [M1 M2 M3 M4]. constructor.
    + rewrite Ecn. exact M1.
    + rewrite Em. eapply slots_none_same; eauto.
    + intros u. rewrite Em. apply M3.
    + intros u. destruct (Nat.eq_dec u t) as [->|Ne].
      * rewrite Es. constructor.
        -- unfold serl, Qp, quiet in *. rewrite Gp, Em. cbn [fnode fstate pend blocked set_fnode].
           rewrite upd_other by exact Ntf. auto.
        -- rewrite Gi. exact Hi.
        -- rewrite Em. cbn. rewrite upd_same. assumption.
      * rewrite Eo by exact Ne. destruct (Nat.eq_dec u f) as [->|Nuf].
        -- apply (lok_infl_fnode x); auto; rewrite ?Em; try reflexivity.
        -- apply (lok_frame count x); [| | | |apply M4].
           ++ rewrite Em. constructor; cbn; try reflexivity. apply upd_other. exact Nuf.
           ++ apply same_ghost_refl; assumption.
           ++ intros Hs. exfalso. apply Ne. apply (g_ser1 _ _ A); [exact Hs|rewrite E; do 2 eexists; reflexivity].
           ++ intros _. rewrite Em. auto.
Qed.

Lemma step_wxchg x t nd n k :
  G count x -> stk (base x) t = [WXchg 0 nd; FC (BRet n k 0)] -> G count (lstep x t).
Proof.
  intros Gx E. inv_local Gx t E L.
  match goal with H : unq _ _ |- _ => pose proof H as (Uq & Uc & Uf & Uqt) end.
  destruct Gx as [A Lg N M].
  set (m := mem (base x)) in *. set (p := qtail m 0%nat).
  pose proof (g_cnt _ _ M) as Ec.
  assert (K : kstep bc (cret (cnt (base x))) m t (stk (base x) t)
              = (set_qtail m 0%nat nd, ev t (l_tail 0) 43 (Zn p), [WLink 0 p nd; FC (BRet n k 0)])).
  { rewrite E. reflexivity. }
  destruct (lstep_view x t _ _ _ K) as (Em & Es & Eo & Ecn & Enn).
  assert (Gc : chain (lstep x t) = chain x ++ [(nd, t)]) by (rewrite lstep_chain, E; reflexivity).
  assert (Gi : infl (lstep x t) = infl x) by (rewrite lstep_infl, E; reflexivity).
  assert (Gp : pw (lstep x t) = pw x) by (rewrite lstep_pw, E; reflexivity).
  assert (Eb : bot (stk (base (lstep x t)) t) = bot (stk (base x) t) \/ exists n k, bot (stk (base x) t) = Some (BNext n k))
    by (left; rewrite Es, E; reflexivity).
  destruct (bot_same_logs x t Eb) as [Gr Ga].
  assert (Eno : nodes (lstep x t) = nodes x ++ [nd]).
  { unfold nodes. rewrite Em, Gc, map_app. reflexivity. }
  assert (Hht : held (stk (base x) t) = nd) by (rewrite E; reflexivity).
  assert (Hnn : ~ In nd (nodes x)) by (rewrite <- Hht; apply (g_held_nodes _ N); rewrite Hht; assumption).
  assert (Hh' : forall u, held (stk (base (lstep x t)) u) = if Nat.eqb u t then O else held (stk (base x) u)).
  { intros u. destruct (Nat.eqb_spec u t) as [->|Ne]; [rewrite Es; reflexivity|rewrite Eo by exact Ne; reflexivity]. }
  destruct Lg as [L1 L2 L3 L4 L5 L6 L7].
  constructor.
  - apply (GA_frame count x); auto; try (rewrite Em; reflexivity); try (intros Hns; rewrite Gi; apply (g_infl_none _ _ A Hns));
      try (intros Hns; exfalso; apply (Hns t); rewrite E; do 2 eexists; reflexivity).
    intros u. destruct (Nat.eq_dec u t) as [->|Ne]; [rewrite Es, E; obs|].
    rewrite Eo by exact Ne. apply same_obs_refl.
  - constructor; rewrite ?Eno, ?Gc, ?Gi, ?Gp.
    + apply nodup_snoc; assumption.
    + intros nd' Hi. apply in_app_iff in Hi. destruct Hi as [Hi|[<-|[]]]; auto.
    + rewrite Em. cbn [qtail qhead set_qtail]. rewrite upd_same, lastn_snoc. reflexivity.
    + rewrite Em. cbn [qhead set_qtail]. apply linked_snoc.
      * apply (linked_frame m _ (stk (base x))); [reflexivity| |exact L4].
        intros u Hu. rewrite Eo; [tauto|]. intros ->. exact (Uc Hu).
      * rewrite Es. fold m in L3. rewrite <- L3. eexists. reflexivity.
      * assumption.
    + intros nd' u Hi. rewrite Em. cbn [ndata set_qtail]. apply in_app_iff in Hi.
      destruct Hi as [Hi|[Hi|[]]]; [apply L5; exact Hi|]. injection Hi as <- <-. split; assumption.
    + rewrite map_app. cbn. apply nodup_snoc; assumption.
    + intros f Hf. destruct (L7 f Hf) as [B1 B2]. split; [exact B1|]. rewrite map_app. cbn.
      intros Hi. apply in_app_iff in Hi. destruct Hi as [Hi|[<-|[]]]; [exact (B2 Hi)|exact (Uf Hf)].
  - destruct N as [N1 N2 N3 N4 N5]. constructor; intros *; rewrite ?Hh', ?Eno, ?Em; cbn [fnode set_qtail]; fold m.
    + apply N1.
    + destruct (Nat.eqb_spec u t) as [->|Ne]; [congruence|]. destruct (Nat.eqb_spec u' t) as [->|Ne']; [congruence|apply N2].
    + destruct (Nat.eqb_spec u' t) as [->|Ne']; [auto|apply N3].
    + intros Hu Hi. apply in_app_iff in Hi. destruct Hi as [Hi|[Hi|[]]]; [exact (N4 u Hu Hi)|].
      apply (N3 u t Hu). rewrite Hht. symmetry. exact Hi.
    + destruct (Nat.eqb_spec u t) as [->|Ne]; [congruence|]. intros Hu Hi. apply in_app_iff in Hi.
      destruct Hi as [Hi|[Hi|[]]]; [exact (N5 u Hu Hi)|]. apply Ne. apply N2; [exact Hu|congruence].
  - destruct M as [M1 M2 M3 M4]. constructor.
    + rewrite Ecn. exact M1.
    + rewrite Em. eapply slots_none_same; eauto.
    + intros u. rewrite Em. apply M3.
    + intros u. destruct (Nat.eq_dec u t) as [->|Ne].
      * rewrite Es. constructor; unfold Qp, Fp, quiet in *; rewrite ?Gp, ?Gc, ?Gi, ?Em; auto.
        apply in_app_iff. right. left. reflexivity.
      * rewrite Eo by exact Ne. apply (lok_frame count x); [| | | |apply M4].
        -- rewrite Em. constructor; reflexivity.
        -- constructor; unfold Qp, Cp, Fp; rewrite ?Gp, ?Gc, ?Gi; try tauto.
           ++ rewrite map_app, in_app_iff. cbn. split; [intros [H|[H|[]]]; [exact H|congruence]|auto].
           ++ intros nd'. rewrite in_app_iff. cbn. split; [intros [H|[H|[]]]; [exact H|congruence]|auto].
        -- intros _. rewrite Em. cbn. auto.
        -- intros _. rewrite Em. auto.
Qed.

Lemma step_wlink x t p nd n k :
  G count x -> stk (base x) t = [WLink 0 p nd; FC (BRet n k 0)] -> G count (lstep x t).
Proof.
  intros Gx E. inv_local Gx t E L.
  match goal with H : quiet _ _ |- _ => pose proof H as (Hpe & Hbl) end.
  match goal with H : In (nd, t) _ |- _ => rename H into Hin end.
  destruct Gx as [A Lg N M].
  set (m := mem (base x)) in *.
  pose proof (g_cnt _ _ M) as Ec.
  assert (K : kstep bc (cret (cnt (base x))) m t (stk (base x) t)
              = (set_nnext m p nd, ev t (l_next p) 19 (Zn nd), [YRead; FC (BRet n k 0)])).
  { rewrite E. reflexivity. }
  destruct (lstep_view x t _ _ _ K) as (Em & Es & Eo & Ecn & Enn).
  assert (Gn : ghost_neutral (stk (base x) t)) by (rewrite E; exact I).
  destruct (ghost_neutral_eq x t Gn) as (Gc & Gi & Gp).
  assert (Eb : bot (stk (base (lstep x t)) t) = bot (stk (base x) t) \/ exists n k, bot (stk (base x) t) = Some (BNext n k))
    by (left; rewrite Es, E; reflexivity).
  destruct (bot_same_logs x t Eb) as [Gr Ga].
  assert (Eno : nodes (lstep x t) = nodes x) by (unfold nodes; rewrite Em, Gc; reflexivity).
  destruct Lg as [L1 L2 L3 L4 L5 L6 L7].
  destruct (linked_link m (stk (base x)) (stk (base (lstep x t))) p nd t [FC (BRet n k 0)]
              (chain x) (qhead m 0%nat) L1 L6 Hin E) as (Ll & Hp & Hz); [rewrite Es; cbn; tauto|exact Eo|exact L4|].
  constructor.
  - apply (GA_frame count x); auto; try (rewrite Em; reflexivity); try (intros Hns; rewrite Gi; apply (g_infl_none _ _ A Hns));
      try (intros Hns; exfalso; apply (Hns t); rewrite E; do 2 eexists; reflexivity).
    intros u. destruct (Nat.eq_dec u t) as [->|Ne]; [rewrite Es, E; obs|].
    rewrite Eo by exact Ne. apply same_obs_refl.
  - constructor; rewrite ?Eno, ?Gc, ?Gi, ?Gp; auto.
    + rewrite Em. exact L3.
    + rewrite Em. exact Ll.
    + rewrite Em. exact L5.
  - apply (GN_frame x); auto; try (intros; rewrite Em; reflexivity).
    intros u. destruct (Nat.eq_dec u t) as [->|Ne]; [rewrite Es, E; reflexivity|]. rewrite Eo by exact Ne. reflexivity.
  - destruct M as [M1 M2 M3 M4]. constructor.
    + rewrite Ecn. exact M1.
    + rewrite Em. eapply slots_none_same; eauto.
    + intros u. rewrite Em. apply M3.
    + intros u. destruct (Nat.eq_dec u t) as [->|Ne].
      * rewrite Es. constructor. left. unfold presleep, Qp, Cp, Fp in *. rewrite Gp, Gc, Gi, Em.
        cbn [fstate blocked pend fnode set_nnext]. split; [assumption|]. split; [assumption|]. left.
        split; [assumption|]. split; [|assumption]. left. apply in_map_iff. exists (nd, t). auto.
      * rewrite Eo by exact Ne. apply (lok_frame count x); [| | | |apply M4].
        -- rewrite Em. constructor; reflexivity.
        -- apply same_ghost_refl; assumption.
        -- intros _. rewrite Em. cbn [qhead ndata nnext fnode fstate set_nnext]. fold m.
           split; [assumption|]. split; [reflexivity|]. split; [auto|]. split; [reflexivity|].
           intros Hnz. apply upd_other. intros Hq. apply Hnz. rewrite Hq. exact Hz.
        -- intros Hu. rewrite Em. cbn [ndata nnext set_nnext]. split; [reflexivity|]. apply upd_other.
           intros Hq. apply (g_held_nodes _ N u Hu). rewrite Hq. exact Hp.
Qed.

(* the fiber whose entry is consumed by a head update: queued -> in flight *)
Lemma lok_pop x x' f sg :
  Qp x f -> Cp x f -> is_wait sg -> ~ linking sg ->
  mem (base x') = mem (base x) \/ (fstate (mem (base x')) f = fstate (mem (base x)) f /\
     pend (mem (base x')) f = pend (mem (base x)) f /\ blocked (mem (base x')) f = blocked (mem (base x)) f) ->
  pw x' = pw x -> infl x' = Some f ->
  lok count x f sg -> lok count x' f sg.
Proof.
  intros Hq Hc Hw Hl Hm Ep Ei L.
  assert (Hm' : fstate (mem (base x')) f = fstate (mem (base x)) f /\
     pend (mem (base x')) f = pend (mem (base x)) f /\ blocked (mem (base x')) f = blocked (mem (base x)) f).
  { destruct Hm as [->|Hm]; auto. }
  destruct Hm' as (A & B & C).
  assert (Q' : Qp x' f) by (unfold Qp in *; rewrite Ep; exact Hq).
  assert (F' : Fp x' f) by (unfold Fp in *; exact Ei).
  destruct L; try (destruct Hw as (n' & k' & Hw); discriminate);
    repeat match goal with
           | H : unq _ _ |- _ => destruct H as (_ & Hnc & _); contradiction
           | H : serl _ _ |- _ => destruct H as (Hnq & _); contradiction
           end; try contradiction; try (exfalso; apply Hl; exact I).
  - constructor. destruct H as [P|P].
    + left. destruct P as (P1 & P2 & [(P3 & P4 & P5)|(P3 & _)]); [|contradiction].
      unfold presleep. rewrite A, B, C. split; [exact P1|]. split; [exact P2|]. left. auto.
    + destruct P as (_ & P & _). contradiction.
  - constructor. destruct H as [[S P]|[S P]].
    + left. split; [exact S|]. destruct P as (P1 & P2 & [(P3 & P4 & P5)|(P3 & _)]); [|contradiction].
      unfold presleep. rewrite A, B, C. split; [exact P1|]. split; [exact P2|]. left. auto.
    + destruct P as (_ & P & _). contradiction.
  - constructor. destruct H as (P1 & P2 & [(P3 & P4 & P5)|(P3 & _)]); [|contradiction].
    unfold presleep. rewrite A, B, C. split; [exact P1|]. split; [exact P2|]. left. auto.
  - constructor. destruct H as (P1 & P2 & [(P3 & P4 & P5)|(P3 & _)]); [|contradiction].
    unfold presleep. rewrite A, B, C. split; [exact P1|]. split; [exact P2|]. left. auto.
  - constructor. destruct H as (P1 & P2 & [(P3 & P4 & P5)|(P3 & _)]); [|contradiction].
    unfold presleep. rewrite A, B, C. split; [exact P1|]. split; [exact P2|]. left. auto.
  - constructor. destruct H as (P1 & P2 & [(P3 & P4 & P5)|(P3 & _)]); [|contradiction].
    unfold presleep. rewrite A, B, C. split; [exact P1|]. split; [exact P2|]. left. auto.
  - constructor. destruct H as [(P1 & P2 & P3 & P4 & P5)|(P1 & _)]; [|contradiction].
    left. rewrite A, B, C. auto.
Qed.

Lemma step_ksethead x t wc h nx n k :
  G count x -> stk (base x) t = [KSetHead 0 (count - 1) wc h nx; FC (BRet n k 1)] -> G count (lstep x t).
Proof.
  intros Gx E.
  assert (Hinv : serl x t /\ infl x = None /\ h = qhead (mem (base x)) 0%nat /\ nx <> O /\ nnext (mem (base x)) h = nx).
  { pose proof (g_local _ _ (g_m _ _ Gx) t) as L. rewrite E in L. inversion L; auto. }
  destruct Hinv as (Hser & Hi & Hh & Hz & Hn).
  pose proof Hser as (Sq & Squ & Sfn & Sfs).
  destruct Gx as [A Lg N M].
  set (m := mem (base x)) in *. rewrite Hh in Hn.
  destruct Lg as [L1 L2 L3 L4 L5 L6 L7].
  destruct (linked_head _ _ _ _ _ L4 Hn Hz) as (f & rest & Ech & Hlf & Lr).
  assert (Hfc : In (nx, f) (chain x)) by (rewrite Ech; left; reflexivity).
  destruct (L5 _ _ Hfc) as [Hdf Hfq].
  assert (Ntf : t <> f) by (intros ->; exact (Sq Hfq)).
  pose proof (g_cnt _ _ M) as Ec.
  assert (K : kstep bc (cret (cnt (base x))) m t (stk (base x) t)
              = (set_qhead m 0%nat nx, ev t (l_head 0) 19 (Zn nx), [KData 0 (count - 1) wc (qhead m 0%nat) nx; FC (BRet n k 1)])).
  { rewrite E, Hh. reflexivity. }
  destruct (lstep_view x t _ _ _ K) as (Em & Es & Eo & Ecn & Enn).
  assert (Gc : chain (lstep x t) = rest) by (rewrite lstep_chain, E, Ech; reflexivity).
  assert (Gi : infl (lstep x t) = Some f) by (rewrite lstep_infl, E, Ech; reflexivity).
  assert (Gp : pw (lstep x t) = pw x) by (rewrite lstep_pw, E; reflexivity).
  assert (Eb : bot (stk (base (lstep x t)) t) = bot (stk (base x) t) \/ exists n k, bot (stk (base x) t) = Some (BNext n k))
    by (left; rewrite Es, E; reflexivity).
  destruct (bot_same_logs x t Eb) as [Gr Ga].
  assert (Eno : nodes x = qhead m 0%nat :: nx :: map fst rest) by (unfold nodes; rewrite Ech; reflexivity).
  assert (Eno' : nodes (lstep x t) = nx :: map fst rest).
  { unfold nodes. rewrite Em, Gc. reflexivity. }
  rewrite Eno in L1, L2. apply NoDup_cons_iff in L1. destruct L1 as [Nh Nd'].
  assert (Hh' : forall u, held (stk (base (lstep x t)) u) = if Nat.eqb u t then qhead m 0%nat else held (stk (base x) u)).
  { intros u. destruct (Nat.eqb_spec u t) as [->|Ne]; [rewrite Es; reflexivity|rewrite Eo by exact Ne; reflexivity]. }
  assert (Hht : held (stk (base x) t) = O) by (rewrite E; reflexivity).
  rewrite Ech in L6. cbn in L6. apply NoDup_cons_iff in L6. destruct L6 as [Nf Ns'].
  constructor.
  - apply (GA_frame count x); auto; try (rewrite Em; reflexivity); try (intros Hns; rewrite Gi; apply (g_infl_none _ _ A Hns));
      try (intros Hns; exfalso; apply (Hns t); rewrite E; do 2 eexists; reflexivity).
    intros u. destruct (Nat.eq_dec u t) as [->|Ne]; [rewrite Es, E; obs|].
    rewrite Eo by exact Ne. apply same_obs_refl.
  - constructor; rewrite ?Eno', ?Gc, ?Gi, ?Gp.
    + exact Nd'.
    + intros nd' Hi'. apply L2. right. exact Hi'.
    + rewrite Em. cbn [qtail qhead set_qhead]. unfold upd; cbn [Nat.eqb]. fold m in L3. rewrite L3, Ech. reflexivity.
    + rewrite Em. cbn [qhead set_qhead]. unfold upd; cbn [Nat.eqb].
      apply (linked_frame m _ (stk (base x))); [reflexivity| |exact Lr].
      intros u Hu. rewrite Eo; [tauto|]. intros ->. apply Sq.
      apply in_map_iff in Hu. destruct Hu as [[nd' u'] [Eq Hu]]. cbn in Eq. subst u'.
      apply (L5 nd' t). rewrite Ech. right. exact Hu.
    + intros nd' u Hi'. rewrite Em. cbn [ndata set_qhead]. apply L5. rewrite Ech. right. exact Hi'.
    + exact Ns'.
    + intros f' Hf'. injection Hf' as <-. split; assumption.
  - destruct N as [N1 N2 N3 N4 N5]. constructor; intros *; rewrite ?Hh', ?Eno', ?Em; cbn [fnode set_qhead]; subst m.
    + apply N1.
    + destruct (Nat.eqb_spec u t) as [->|Ne]; destruct (Nat.eqb_spec u' t) as [->|Ne']; auto.
      * intros _ Hq. exfalso. apply (N5 u'); [rewrite <- Hq; apply L2; left; reflexivity|].
        rewrite <- Hq, Eno. left. reflexivity.
      * intros Hu Hq. exfalso. apply (N5 u Hu). rewrite Hq, Eno. left. reflexivity.
    + destruct (Nat.eqb_spec u' t) as [->|Ne']; [|apply N3].
      intros Hu Hq. apply (N4 u Hu). rewrite Hq, Eno. left. reflexivity.
    + intros Hu Hi'. apply (N4 u Hu). rewrite Eno. right. exact Hi'.
    + destruct (Nat.eqb_spec u t) as [->|Ne]; [intros _; exact Nh|].
      intros Hu Hi'. apply (N5 u Hu). rewrite Eno. right. exact Hi'.
  - destruct M as [M1 M2 M3 M4]. constructor.
    + rewrite Ecn. exact M1.
    + rewrite Em. eapply slots_none_same; eauto.
    + intros u. rewrite Em. apply M3.
    + intros u. destruct (Nat.eq_dec u t) as [->|Ne].
      * rewrite Es. apply (lk_kdata count _ _ wc _ _ n k f).
        -- unfold serl, Qp, quiet in *. rewrite Gp, Em. auto.
        -- apply L2. left. reflexivity.
        -- rewrite Em. reflexivity.
        -- exact Gi.
        -- rewrite Em. exact Hdf.
      * rewrite Eo by exact Ne. destruct (Nat.eq_dec u f) as [->|Nuf].
        -- apply (lok_pop x); auto.
           ++ unfold Cp. rewrite Ech. left. reflexivity.
           ++ apply (g_pw _ _ A f Hfq).
           ++ right. rewrite Em. auto.
        -- apply (lok_frame count x); [| | | |apply M4].
           ++ rewrite Em. constructor; reflexivity.
           ++ constructor; unfold Qp, Cp, Fp; rewrite ?Gp, ?Gc, ?Gi, ?Hi, ?Ech; try tauto.
              ** cbn. split; [auto|intros [H|H]; [congruence|exact H]].
              ** split; [intros H; congruence|discriminate].
              ** intros nd'. cbn. split; [auto|intros [H|H]; [congruence|exact H]].
           ++ intros Hs. exfalso. apply Ne. apply (g_ser1 _ _ A); [exact Hs|rewrite E; do 2 eexists; reflexivity].
           ++ intros _. rewrite Em. auto.
Qed.
End Steps2.

Lemma remove_nodup (l : list nat) a : NoDup l -> NoDup (remove Nat.eq_dec a l).
Proof.
  induction l as [|b l IH]; intros N; cbn; [constructor|].
  inversion N; subst. destruct (Nat.eq_dec a b); [auto|]. constructor; auto.
  intros H. apply in_remove in H. tauto.
Qed.

Lemma remove_length (l : list nat) a : NoDup l -> In a l ->
  S (length (remove Nat.eq_dec a l)) = length l.
Proof.
  induction l as [|b l IH]; intros N H; [destruct H|]. inversion N; subst. cbn.
  destruct (Nat.eq_dec a b) as [->|Ne].
  - rewrite notin_remove by assumption. reflexivity.
  - cbn. f_equal. apply IH; [assumption|]. destruct H; [congruence|assumption].
Qed.

Section GAsteps.
Variable count : Z.
Hypothesis Hcount : 1 <= count.

(* the serial fiber t schedules f and goes on popping *)
Lemma GA_wake_continue x x' t f wc :
  GA count x ->
  (forall u, u <> t -> same_obs (stk (base x) u) (stk (base x') u)) ->
  is_ser (stk (base x) t) -> is_ser (stk (base x') t) ->
  rnd (stk (base x') t) = rnd (stk (base x) t) ->
  wcof (stk (base x) t) = wc -> wcof (stk (base x') t) = wc + 1 -> wc + 1 < count - 1 ->
  nthr (base x') = nthr (base x) -> word (mem (base x')) 0%nat = word (mem (base x)) 0%nat ->
  pw x' = remove Nat.eq_dec f (pw x) -> In f (pw x) -> rets x' = rets x -> arr x' = arr x ->
  GA count x'.
Proof.
  intros A Ho St St' Er Ew Ew' Hlt En Ewd Ep Hf Err Ea.
  assert (Hs : forall u, is_ser (stk (base x') u) <-> is_ser (stk (base x) u)).
  { intros u. destruct (Nat.eq_dec u t) as [->|Ne]; [tauto|apply (Ho u Ne)]. }
  assert (Hnw : ~ is_wait (stk (base x) t) /\ ~ is_wait (stk (base x') t)).
  { destruct St as (n1 & k1 & B1). destruct St' as (n2 & k2 & B2). unfold is_wait. rewrite B1, B2.
    split; intros (? & ? & ?); discriminate. }
  assert (Hw : forall u, is_wait (stk (base x') u) <-> is_wait (stk (base x) u)).
  { intros u. destruct (Nat.eq_dec u t) as [->|Ne]; [tauto|apply (Ho u Ne)]. }
  assert (Hr : forall u, is_ser (stk (base x) u) \/ is_wait (stk (base x) u) ->
                         rnd (stk (base x') u) = rnd (stk (base x) u)).
  { intros u H. destruct (Nat.eq_dec u t) as [->|Ne]; [exact Er|]. apply (Ho u Ne). exact H. }
  assert (Hn : noser x' <-> noser x).
  { unfold noser. split; intros H S; specialize (H S); rewrite Hs in *; exact H. }
  assert (Nn : ~ noser x) by (intros H; exact (H t St)).
  assert (Uq : forall S, is_ser (stk (base x) S) -> S = t) by (intros S HS; apply (g_ser1 _ _ A); assumption).
  destruct A as [A1 A2 A3 A4 A5 A6 A7 A8 A9 A10 A11 A12 A13].
  destruct (A4 t St) as (B1 & B2 & B3 & B4 & B5).
  constructor; rewrite ?En, ?Ewd, ?Err, ?Ea; auto.
  - intros S S'. rewrite !Hs. apply A3.
  - intros S HS. rewrite Hs in HS. pose proof (Uq S HS) as ->. rewrite Er, Ew', Ep.
    split; [exact B1|]. split; [exact B2|]. pose proof (remove_length _ f A6 Hf). rewrite Ew in B3. lia.
  - rewrite Hn. tauto.
  - rewrite Ep. apply remove_nodup. exact A6.
  - intros u Hu. rewrite Ep in Hu. apply in_remove in Hu. destruct Hu as [Hu _].
    destruct (A7 u Hu) as (C1 & C2 & C3 & C4). rewrite Hw, Hn, (Hr u (or_intror C2)).
    split; [exact C1|]. split; [exact C2|]. split; [|tauto].
    intros S HS. rewrite Hs in HS. rewrite (Hr S (or_introl HS)). apply C3. exact HS.
  - intros u k Hu Hp. rewrite Hn. destruct (Nat.eq_dec u t) as [->|Ne].
    + exfalso. destruct St' as (n2 & k2 & B). unfold pre_round in Hp. unfold bot in B.
      destruct (stk (base x') t) as [|[] [|[] [|]]]; try discriminate; cbn in B; destruct c; discriminate.
    + apply (A8 u k Hu). apply (Ho u Ne). exact Hp.
  - intros u. rewrite Hw, Hn. intros H1 H2. rewrite (Hr u (or_intror H1)). split; [|split; [tauto|]].
    + intros S HS. rewrite Hs in HS. rewrite (Hr S (or_introl HS)).
      destruct (in_dec Nat.eq_dec u (pw x)) as [Hi|Hi].
      * apply (A7 u Hi). exact HS.
      * apply (A9 u H1 Hi). exact HS.
    + destruct (in_dec Nat.eq_dec u (pw x)) as [Hi|Hi].
      * destruct (A7 u Hi) as (_ & _ & C3 & _). rewrite (C3 t St). lia.
      * apply (A9 u H1 Hi).
  - intros u. rewrite Hw. apply A12.
  - intros H. exfalso. apply Nn. apply Hn. exact H.
Qed.

Lemma start_stack_obs t n k : ~ is_ser (start_stack t n k) /\ ~ is_wait (start_stack t n k) /\
  (forall k', pre_round (start_stack t n k) = Some k' -> k' = k).
Proof.
  destruct n; cbn; repeat split; try (intros (? & ? & ?); discriminate); intros k' H; try discriminate.
  injection H as <-. reflexivity.
Qed.

(* the serial fiber t returns (all its waiters have been scheduled) *)
Lemma GA_serial_return x x' t n k :
  GA count x ->
  (forall u, u <> t -> same_obs (stk (base x) u) (stk (base x') u)) ->
  bot (stk (base x) t) = Some (BRet n k 1) -> stk (base x') t = start_stack t n (S k) ->
  nthr (base x') = nthr (base x) -> word (mem (base x')) 0%nat = word (mem (base x)) 0%nat ->
  pw x' = [] -> rets x' = rets x ++ [(t, k, 1)] -> arr x' = arr x -> infl x' = None ->
  GA count x'.
Proof.
  intros A Ho Bt Es En Ewd Ep Err Ea Ei.
  assert (St : is_ser (stk (base x) t)) by (do 2 eexists; exact Bt).
  assert (Rt : rnd (stk (base x) t) = k) by (unfold rnd; rewrite Bt; reflexivity).
  destruct (start_stack_obs t n (S k)) as (O1 & O2 & O3). rewrite <- Es in O1, O2, O3.
  assert (Uq : forall S, is_ser (stk (base x) S) -> S = t) by (intros S HS; apply (g_ser1 _ _ A); assumption).
  assert (Nn' : noser x').
  { intros S HS. destruct (Nat.eq_dec S t) as [->|Ne]; [exact (O1 HS)|].
    apply (Ho S Ne) in HS. apply Ne. apply Uq. exact HS. }
  destruct A as [A1 A2 A3 A4 A5 A6 A7 A8 A9 A10 A11 A12 A13].
  destruct (A4 t St) as (B1 & B2 & B3 & B4 & B5). rewrite Rt in B2.
  assert (Hcz : count <> 0) by lia.
  constructor; rewrite ?En, ?Ewd, ?Ea, ?Ep; auto.
  - intros S S' HS. exfalso. exact (Nn' S HS).
  - intros S HS. exfalso. exact (Nn' S HS).
  - intros _. cbn. rewrite B2. symmetry. apply Z_mod_mult.
  - constructor.
  - intros u [].
  - intros u k' Hu Hp. split; [exact Nn'|]. destruct (Nat.eq_dec u t) as [->|Ne].
    + rewrite (O3 _ Hp), B2, Z.div_mul by exact Hcz. lia.
    + exfalso. apply (Ho u Ne) in Hp. destruct (A8 u k' Hu Hp) as [Hns _]. exact (Hns t St).
  - intros u Hw _. split; [intros S HS; exfalso; exact (Nn' S HS)|].
    destruct (Nat.eq_dec u t) as [->|Ne]; [exfalso; exact (O2 Hw)|].
    pose proof (proj1 (proj1 (proj2 (Ho u Ne))) Hw) as Hw0.
    destruct (Ho u Ne) as (_ & _ & Hr & _). destruct (Hr (or_intror Hw0)) as [-> _].
    assert (Hk : rnd (stk (base x) u) = k).
    { rewrite <- Rt. destruct (in_dec Nat.eq_dec u (pw x)) as [Hi|Hi].
      - apply (A7 u Hi). exact St.
      - apply (A9 u Hw0 Hi). exact St. }
    rewrite Hk, B2, Z.div_mul by exact Hcz. split; [reflexivity|lia].
  - intros t0 k0 r0. rewrite Err, in_app_iff. intros [H|[H|[]]]; [eauto|]. injection H as <- <- <-. lia.
  - intros u Hw. destruct (Nat.eq_dec u t) as [->|Ne]; [exfalso; exact (O2 Hw)|]. apply A12. apply (Ho u Ne). exact Hw.
Qed.

(* a woken waiter t returns; it may re-enter only if no serial fiber is active *)
Lemma GA_waiter_return x x' t n k :
  GA count x ->
  (forall u, u <> t -> same_obs (stk (base x) u) (stk (base x') u)) ->
  bot (stk (base x) t) = Some (BRet n k 0) -> ~ In t (pw x) -> stk (base x') t = start_stack t n (S k) ->
  (n = O \/ noser x) ->
  nthr (base x') = nthr (base x) -> word (mem (base x')) 0%nat = word (mem (base x)) 0%nat ->
  pw x' = pw x -> rets x' = rets x ++ [(t, k, 0)] -> arr x' = arr x -> infl x' = infl x ->
  GA count x'.
Proof.
  intros A Ho Bt Hq Es Hreg En Ewd Ep Err Ea Ei.
  assert (Wt : is_wait (stk (base x) t)) by (do 2 eexists; exact Bt).
  assert (Nst : ~ is_ser (stk (base x) t)) by (unfold is_ser; rewrite Bt; intros (? & ? & ?); discriminate).
  assert (Rt : rnd (stk (base x) t) = k) by (unfold rnd; rewrite Bt; reflexivity).
  destruct (start_stack_obs t n (S k)) as (O1 & O2 & O3). rewrite <- Es in O1, O2, O3.
  assert (Hs : forall u, is_ser (stk (base x') u) <-> is_ser (stk (base x) u)).
  { intros u. destruct (Nat.eq_dec u t) as [->|Ne]; [tauto|apply (Ho u Ne)]. }
  assert (Hn : noser x' <-> noser x).
  { unfold noser. split; intros H S; specialize (H S); rewrite Hs in *; exact H. }
  assert (Hob : forall u, u <> t -> is_ser (stk (base x) u) \/ is_wait (stk (base x) u) ->
                rnd (stk (base x') u) = rnd (stk (base x) u) /\ wcof (stk (base x') u) = wcof (stk (base x) u)).
  { intros u Ne. apply (Ho u Ne). }
  destruct A as [A1 A2 A3 A4 A5 A6 A7 A8 A9 A10 A11 A12 A13].
  destruct (A9 t Wt Hq) as (T1 & T2 & T3). rewrite Rt in T1, T2, T3.
  constructor; rewrite ?En, ?Ewd, ?Ea, ?Ep; auto.
  - intros S S'. rewrite !Hs. apply A3.
  - intros S HS. rewrite Hs in HS. assert (Ne : S <> t) by (intros ->; exact (Nst HS)).
    destruct (Hob S Ne (or_introl HS)) as [-> ->]. apply A4. exact HS.
  - rewrite Hn. exact A5.
  - intros u Hu. assert (Ne : u <> t) by (intros ->; exact (Hq Hu)).
    destruct (A7 u Hu) as (C1 & C2 & C3 & C4). destruct (Hob u Ne (or_intror C2)) as [-> _].
    rewrite Hn. split; [exact C1|]. split; [apply (Ho u Ne); exact C2|]. split; [|exact C4].
    intros S HS. rewrite Hs in HS. assert (NeS : S <> t) by (intros ->; exact (Nst HS)).
    destruct (Hob S NeS (or_introl HS)) as [-> _]. apply C3. exact HS.
  - intros u k' Hu Hp. rewrite Hn. destruct (Nat.eq_dec u t) as [->|Ne].
    + rewrite (O3 _ Hp). destruct Hreg as [->|Hns].
      * exfalso. rewrite Es in Hp. cbn in Hp. discriminate.
      * split; [exact Hns|]. rewrite <- (T2 Hns). lia.
    + apply (A8 u k' Hu). apply (Ho u Ne). exact Hp.
  - intros u Hw Hi. destruct (Nat.eq_dec u t) as [->|Ne]; [exfalso; exact (O2 Hw)|].
    pose proof (proj1 (proj1 (proj2 (Ho u Ne))) Hw) as Hw0.
    destruct (Hob u Ne (or_intror Hw0)) as [-> _]. rewrite Hn.
    destruct (A9 u Hw0 Hi) as (C1 & C2 & C3). split; [|split; [exact C2|exact C3]].
    intros S HS. rewrite Hs in HS. assert (NeS : S <> t) by (intros ->; exact (Nst HS)).
    destruct (Hob S NeS (or_introl HS)) as [-> _]. apply C1. exact HS.
  - intros t0 k0 r0. rewrite Err, in_app_iff. intros [H|[H|[]]]; [eauto|]. injection H as <- <- <-. exact T3.
  - intros u Hw. destruct (Nat.eq_dec u t) as [->|Ne]; [exfalso; exact (O2 Hw)|]. apply A12. apply (Ho u Ne). exact Hw.
  - intros H. rewrite Ei. apply A13. apply Hn. exact H.
Qed.

Lemma pigeon (l : list nat) n t :
  NoDup l -> (forall u, In u l -> (u < n)%nat) -> ~ In t l -> (t < n)%nat -> S (length l) = n ->
  forall u, (u < n)%nat -> u = t \/ In u l.
Proof.
  intros N Hl Ht Htn Hlen u Hu.
  assert (Hincl : incl (seq 0 n) (t :: l)).
  { apply NoDup_length_incl.
    - constructor; assumption.
    - cbn. rewrite seq_length. lia.
    - intros v [<-|Hv]; apply in_seq; [lia|]. specialize (Hl v Hv). lia. }
  destruct (Hincl u) as [H|H]; [apply in_seq; lia|left; auto|right; exact H].
Qed.

Lemma div_mod_succ v : 0 <= v ->
  ((v + 1) mod count <> 0 -> (v + 1) / count = v / count /\ (v + 1) mod count = v mod count + 1) /\
  ((v + 1) mod count = 0 -> (v + 1) / count = v / count + 1 /\ v mod count = count - 1).
Proof.
  intros Hv. assert (Hc : 0 < count) by lia.
  pose proof (Z.div_mod v count ltac:(lia)) as E. pose proof (Z.mod_pos_bound v count Hc) as B.
  pose proof (Z.div_mod (v + 1) count ltac:(lia)) as E'. pose proof (Z.mod_pos_bound (v + 1) count Hc) as B'.
  set (q := v / count) in *. set (r := v mod count) in *.
  set (q' := (v + 1) / count) in *. set (r' := (v + 1) mod count) in *.
  assert (count * (q' - q) = r + 1 - r') by lia.
  assert (q' - q = 0 \/ q' - q = 1) by nia.
  split; intros H'; nia.
Qed.

Lemma pre_round_obs sg k : pre_round sg = Some k -> ~ is_ser sg /\ ~ is_wait sg.
Proof.
  unfold pre_round, is_ser, is_wait. intros H.
  destruct sg as [|[] [|[] [|]]]; try discriminate; destruct c; try discriminate; cbn;
    split; intros (? & ? & ?); discriminate.
Qed.

(* a fiber arrives and is not the last of its group: it will wait *)
Lemma GA_arrive_wait x x' t n k :
  GA count x ->
  (forall u, u <> t -> same_obs (stk (base x) u) (stk (base x') u)) ->
  pre_round (stk (base x) t) = Some k -> (t < nthr (base x))%nat ->
  bot (stk (base x') t) = Some (BRet n k 0) ->
  nthr (base x') = nthr (base x) ->
  word (mem (base x')) 0%nat = word (mem (base x)) 0%nat + 1 ->
  (word (mem (base x)) 0%nat + 1) mod count <> 0 ->
  pw x' = pw x ++ [t] -> rets x' = rets x ->
  arr x' = arr x ++ [(t, k, word (mem (base x)) 0%nat)] ->
  Z.of_nat (length (arr x)) = word (mem (base x)) 0%nat -> infl x' = infl x ->
  GA count x'.
Proof.
  intros A Ho Hp Htn Bt En Ewd Hmod Ep Err Ea Hlen Ei.
  destruct (pre_round_obs _ _ Hp) as [Nst Nwt].
  assert (Wt' : is_wait (stk (base x') t)) by (do 2 eexists; exact Bt).
  assert (Nst' : ~ is_ser (stk (base x') t)) by (unfold is_ser; rewrite Bt; intros (? & ? & ?); discriminate).
  assert (Rt' : rnd (stk (base x') t) = k) by (unfold rnd; rewrite Bt; reflexivity).
  assert (Hs : forall u, is_ser (stk (base x') u) <-> is_ser (stk (base x) u)).
  { intros u. destruct (Nat.eq_dec u t) as [->|Ne]; [tauto|apply (Ho u Ne)]. }
  assert (Hn : noser x' <-> noser x).
  { unfold noser. split; intros H S; specialize (H S); rewrite Hs in *; exact H. }
  assert (Hob : forall u, u <> t -> is_ser (stk (base x) u) \/ is_wait (stk (base x) u) ->
                rnd (stk (base x') u) = rnd (stk (base x) u) /\ wcof (stk (base x') u) = wcof (stk (base x) u)).
  { intros u Ne. apply (Ho u Ne). }
  destruct A as [A1 A2 A3 A4 A5 A6 A7 A8 A9 A10 A11 A12 A13].
  destruct (A8 t k Htn Hp) as [Ns Hk].
  assert (Ns' : noser x') by (apply Hn; exact Ns).
  set (v := word (mem (base x)) 0%nat) in *.
  destruct (div_mod_succ v A2) as [D _]. destruct (D Hmod) as [Dq Dr].
  assert (Htq : ~ In t (pw x)).
  { intros Hi. destruct (A7 t Hi) as (_ & C2 & _). exact (Nwt C2). }
  constructor; rewrite ?En, ?Ewd, ?Err; auto.
  - lia.
  - intros S S' HS. exfalso. exact (Ns' S HS).
  - intros S HS. exfalso. exact (Ns' S HS).
  - intros _. rewrite Ep, app_length, Nat2Z.inj_add, (A5 Ns), Dr. cbn. lia.
  - rewrite Ep. apply nodup_snoc; assumption.
  - intros u Hu. rewrite Ep in Hu. apply in_app_iff in Hu. destruct Hu as [Hu|[<-|[]]].
    + assert (Ne : u <> t) by (intros ->; exact (Htq Hu)).
      destruct (A7 u Hu) as (C1 & C2 & C3 & C4). destruct (Hob u Ne (or_intror C2)) as [-> _].
      split; [exact C1|]. split; [apply (Ho u Ne); exact C2|].
      split; [intros S HS; exfalso; exact (Ns' S HS)|]. intros _. rewrite Dq. apply C4. exact Ns.
    + split; [exact Htn|]. split; [exact Wt'|]. split; [intros S HS; exfalso; exact (Ns' S HS)|].
      intros _. rewrite Rt', Dq. exact Hk.
  - intros u k' Hu Hp'. split; [exact Ns'|]. destruct (Nat.eq_dec u t) as [->|Ne].
    + exfalso. destruct (pre_round_obs _ _ Hp') as [_ H]. exact (H Wt').
    + rewrite Dq. apply (A8 u k' Hu). apply (Ho u Ne). exact Hp'.
  - intros u Hw Hi. assert (Ne : u <> t).
    { intros ->. apply Hi. rewrite Ep. apply in_app_iff. right. left. reflexivity. }
    pose proof (proj1 (proj1 (proj2 (Ho u Ne))) Hw) as Hw0.
    assert (Hi0 : ~ In u (pw x)) by (intros H; apply Hi; rewrite Ep; apply in_app_iff; left; exact H).
    destruct (Hob u Ne (or_intror Hw0)) as [-> _]. destruct (A9 u Hw0 Hi0) as (C1 & C2 & C3).
    split; [intros S HS; exfalso; exact (Ns' S HS)|]. split; [intros _; rewrite Dq; apply C2; exact Ns|lia].
  - intros t0 k0 r0 H. specialize (A10 _ _ _ H). lia.
  - intros i t0 k0 v0. rewrite Ea. intros Hnth.
    destruct (Nat.lt_ge_cases i (length (arr x))) as [Lt|Ge].
    + rewrite nth_error_app1 in Hnth by exact Lt. eapply A11; eauto.
    + rewrite nth_error_app2 in Hnth by exact Ge.
      destruct (i - length (arr x))%nat eqn:Di; cbn in Hnth; [|destruct n0; discriminate].
      injection Hnth as <- <- <-. replace (Z.of_nat i) with v by lia. exact Hk.
  - intros u Hw. destruct (Nat.eq_dec u t) as [->|Ne]; [exact Htn|]. apply A12. apply (Ho u Ne). exact Hw.
  - intros _. rewrite Ei. apply A13. exact Ns.
Qed.

(* the last fiber of a group arrives: it becomes the serial fiber; everybody else is waiting *)
Lemma GA_arrive_serial x x' t n k :
  GA count x ->
  (forall u, u <> t -> same_obs (stk (base x) u) (stk (base x') u)) ->
  pre_round (stk (base x) t) = Some k -> (t < nthr (base x))%nat ->
  bot (stk (base x') t) = Some (BRet n k 1) -> wcof (stk (base x') t) = 0 ->
  nthr (base x') = nthr (base x) ->
  word (mem (base x')) 0%nat = word (mem (base x)) 0%nat + 1 ->
  (word (mem (base x)) 0%nat + 1) mod count = 0 ->
  pw x' = pw x -> rets x' = rets x ->
  arr x' = arr x ++ [(t, k, word (mem (base x)) 0%nat)] ->
  Z.of_nat (length (arr x)) = word (mem (base x)) 0%nat ->
  GA count x'.
Proof.
  intros A Ho Hp Htn Bt Hwc En Ewd Hmod Ep Err Ea Hlen.
  destruct (pre_round_obs _ _ Hp) as [Nst Nwt].
  assert (St' : is_ser (stk (base x') t)) by (do 2 eexists; exact Bt).
  assert (Nwt' : ~ is_wait (stk (base x') t)) by (unfold is_wait; rewrite Bt; intros (? & ? & ?); discriminate).
  assert (Rt' : rnd (stk (base x') t) = k) by (unfold rnd; rewrite Bt; reflexivity).
  assert (Hob : forall u, u <> t -> is_ser (stk (base x) u) \/ is_wait (stk (base x) u) ->
                rnd (stk (base x') u) = rnd (stk (base x) u) /\ wcof (stk (base x') u) = wcof (stk (base x) u)).
  { intros u Ne. apply (Ho u Ne). }
  destruct A as [A1 A2 A3 A4 A5 A6 A7 A8 A9 A10 A11 A12 A13].
  destruct (A8 t k Htn Hp) as [Ns Hk].
  assert (Uq : forall S, is_ser (stk (base x') S) -> S = t).
  { intros S HS. destruct (Nat.eq_dec S t) as [->|Ne]; [reflexivity|]. exfalso. apply (Ns S). apply (Ho S Ne). exact HS. }
  assert (Nn' : ~ noser x') by (intros H; exact (H t St')).
  set (v := word (mem (base x)) 0%nat) in *.
  destruct (div_mod_succ v A2) as [_ D]. destruct (D Hmod) as [Dq Dr].
  assert (Htq : ~ In t (pw x)).
  { intros Hi. destruct (A7 t Hi) as (_ & C2 & _). exact (Nwt C2). }
  assert (Hlen' : S (length (pw x)) = nthr (base x)).
  { pose proof (A5 Ns) as H. rewrite Dr in H. rewrite A1. lia. }
  assert (Hall : forall u, (u < nthr (base x))%nat -> u = t \/ In u (pw x)).
  { apply pigeon; auto. intros u Hu. apply (A7 u Hu). }
  assert (Hk' : v + 1 = Z.of_nat k * count).
  { pose proof (Z.div_mod (v + 1) count ltac:(lia)) as E. rewrite Hmod, Dq in E. lia. }
  constructor; rewrite ?En, ?Ewd, ?Err, ?Ep; auto.
  - lia.
  - intros S S' HS HS'. rewrite (Uq S HS), (Uq S' HS'). reflexivity.
  - intros S HS. rewrite (Uq S HS), Rt', Hwc. split; [exact Htn|]. split; [exact Hk'|].
    split; [rewrite (A5 Ns), Dr; lia|]. split; lia.
  - intros H. exfalso. exact (Nn' H).
  - intros u Hu. assert (Ne : u <> t) by (intros ->; exact (Htq Hu)).
    destruct (A7 u Hu) as (C1 & C2 & C3 & C4). destruct (Hob u Ne (or_intror C2)) as [-> _].
    split; [exact C1|]. split; [apply (Ho u Ne); exact C2|]. split; [|intros H; exfalso; exact (Nn' H)].
    intros S HS. rewrite (Uq S HS), Rt'. apply Nat2Z.inj. rewrite (C4 Ns). lia.
  - intros u k' Hu Hp'. exfalso. destruct (Hall u Hu) as [->|Hi].
    + destruct (pre_round_obs _ _ Hp') as [H _]. exact (H St').
    + assert (Ne : u <> t) by (intros ->; exact (Htq Hi)).
      apply (Ho u Ne) in Hp'. destruct (pre_round_obs _ _ Hp') as [_ H]. apply H. apply (A7 u Hi).
  - intros u Hw Hi. exfalso. assert (Ne : u <> t) by (intros ->; exact (Nwt' Hw)).
    pose proof (proj1 (proj1 (proj2 (Ho u Ne))) Hw) as Hw0.
    destruct (A9 u Hw0 Hi) as (_ & _ & C3).
    assert (Hu : (u < nthr (base x))%nat) by (apply A12; exact Hw0).
    destruct (Hall u Hu) as [->|Hi']; [exact (Ne eq_refl)|exact (Hi Hi')].
  - intros t0 k0 r0 H. specialize (A10 _ _ _ H). lia.
  - intros i t0 k0 v0. rewrite Ea. intros Hnth.
    destruct (Nat.lt_ge_cases i (length (arr x))) as [Lt|Ge].
    + rewrite nth_error_app1 in Hnth by exact Lt. eapply A11; eauto.
    + rewrite nth_error_app2 in Hnth by exact Ge.
      destruct (i - length (arr x))%nat eqn:Di; cbn in Hnth; [|destruct n0; discriminate].
      injection Hnth as <- <- <-. replace (Z.of_nat i) with v by lia. exact Hk.
  - intros u Hw. destruct (Nat.eq_dec u t) as [->|Ne]; [exact Htn|]. apply A12. apply (Ho u Ne). exact Hw.
  - intros H. exfalso. exact (Nn' H).
Qed.
End GAsteps.

Section Steps3.
Variable count : Z.
Hypothesis Hcount : 1 <= count.

Lemma ready_lt x t : status_of (base x) t = SReady -> (t < nthr (base x))%nat.
Proof.
  unfold status_of. destruct (t <? nthr (base x))%nat eqn:E; [intros _; apply Nat.ltb_lt; exact E|discriminate].
Qed.

Lemma step_fadd x t n k :
  L1 count x -> G count x -> status_of (base x) t = SReady ->
  stk (base x) t = [WFAdd 0 1 5; FC (BArrived n k)] -> G count (lstep x t).
Proof.
  intros Lx Gx Hst E. inv_local Gx t E L.
  match goal with H : quiet _ _ |- _ => pose proof H as (Hpe & Hbl) end.
  pose proof (ready_lt _ _ Hst) as Htn.
  destruct Gx as [A Lg N M].
  set (m := mem (base x)) in *. set (v := word m 0%nat) in *.
  pose proof (g_cnt _ _ M) as Ec.
  assert (Hp : pre_round (stk (base x) t) = Some k) by (rewrite E; reflexivity).
  destruct (g_pre _ _ A t k Htn Hp) as [Ns Hk].
  assert (Htq : ~ In t (pw x)).
  { intros Hi. destruct (g_pw _ _ A t Hi) as (_ & (n' & k' & C2) & _). rewrite E in C2. discriminate. }
  assert (Hlen : Z.of_nat (length (arr x)) = v) by (symmetry; apply (l1_word _ _ Lx)).
  assert (Eb0 : bot (stk (base x) t) = Some (BArrived n k)) by (rewrite E; reflexivity).
  assert (Hin : infl x = None) by (apply (g_infl_none _ _ A Ns)).
  destruct ((v + 1) mod count =? 0) eqn:Eq.
  - (* serial *)
    apply Z.eqb_eq in Eq.
    assert (K : kstep bc (cret (cnt (base x))) m t (stk (base x) t)
                = (set_word m 0%nat (v + 1), ev t (l_word 0) (50 + 5) (pc64 v) ++ [],
                   [KHead 0 (count - 1) 0; FC (BRet n k 1)])).
    { rewrite E, Ec. cbn [kstep ret cret]. fold m. fold v. rewrite Eq. cbn. reflexivity. }
    destruct (lstep_view x t _ _ _ K) as (Em & Es & Eo & Ecn & Enn).
    assert (Gc : chain (lstep x t) = chain x) by (rewrite lstep_chain, E; reflexivity).
    assert (Gi : infl (lstep x t) = infl x) by (rewrite lstep_infl, E; reflexivity).
    assert (Gp : pw (lstep x t) = pw x).
    { rewrite lstep_pw, E, Ec. fold m. fold v. rewrite Eq. reflexivity. }
    assert (Ga : arr (lstep x t) = arr x ++ [(t, k, v)]).
    { rewrite lstep_arr. rewrite <- lstep_erase. rewrite Eb0, Es. reflexivity. }
    assert (Gr : rets (lstep x t) = rets x).
    { rewrite lstep_rets. rewrite <- lstep_erase. rewrite Eb0. reflexivity. }
    assert (Eno : nodes (lstep x t) = nodes x) by (unfold nodes; rewrite Em, Gc; reflexivity).
    assert (Hobs : forall u, u <> t -> same_obs (stk (base x) u) (stk (base (lstep x t)) u)).
    { intros u Ne. rewrite Eo by exact Ne. apply same_obs_refl. }
    constructor.
    + apply (GA_arrive_serial count Hcount x _ t n k); auto; try (rewrite Es; reflexivity).
      rewrite Em. cbn. unfold upd. reflexivity.
    + apply (GL_frame x); auto; try (rewrite Em; reflexivity).
      * rewrite Gp. auto.
      * intros u _. destruct (Nat.eq_dec u t) as [->|Ne]; [rewrite Es, E; cbn; tauto|].
        rewrite Eo by exact Ne. tauto.
    + apply (GN_frame x); auto; try (intros; rewrite Em; reflexivity).
      intros u. destruct (Nat.eq_dec u t) as [->|Ne]; [rewrite Es, E; reflexivity|]. rewrite Eo by exact Ne. reflexivity.
    + destruct M as [M1 M2 M3 M4]. constructor.
      * rewrite Ecn. exact M1.
      * rewrite Em. eapply slots_none_same; eauto.
      * intros u. rewrite Em. apply M3.
      * intros u. destruct (Nat.eq_dec u t) as [->|Ne].
        -- rewrite Es. constructor; [|congruence]. unfold serl, Qp, quiet. rewrite Gp, Em. auto.
        -- rewrite Eo by exact Ne. apply (lok_frame count x); [| | | |apply M4].
           ++ rewrite Em. constructor; reflexivity.
           ++ apply same_ghost_refl; assumption.
           ++ intros _. rewrite Em. cbn. auto.
           ++ intros _. rewrite Em. auto.
  - (* waiter *)
    apply Z.eqb_neq in Eq.
    assert (K : kstep bc (cret (cnt (base x))) m t (stk (base x) t)
                = (set_word m 0%nat (v + 1), ev t (l_word 0) (50 + 5) (pc64 v) ++ [],
                   [WSaving 0; FC (BRet n k 0)])).
    { rewrite E, Ec. cbn [kstep ret cret]. fold m. fold v. apply Z.eqb_neq in Eq. rewrite Eq. cbn. reflexivity. }
    destruct (lstep_view x t _ _ _ K) as (Em & Es & Eo & Ecn & Enn).
    assert (Gc : chain (lstep x t) = chain x) by (rewrite lstep_chain, E; reflexivity).
    assert (Gi : infl (lstep x t) = infl x) by (rewrite lstep_infl, E; reflexivity).
    assert (Gp : pw (lstep x t) = pw x ++ [t]).
    { rewrite lstep_pw, E, Ec. fold m. fold v. apply Z.eqb_neq in Eq. rewrite Eq. reflexivity. }
    assert (Ga : arr (lstep x t) = arr x ++ [(t, k, v)]).
    { rewrite lstep_arr. rewrite <- lstep_erase. rewrite Eb0, Es. reflexivity. }
    assert (Gr : rets (lstep x t) = rets x).
    { rewrite lstep_rets. rewrite <- lstep_erase. rewrite Eb0. reflexivity. }
    assert (Eno : nodes (lstep x t) = nodes x) by (unfold nodes; rewrite Em, Gc; reflexivity).
    assert (Hobs : forall u, u <> t -> same_obs (stk (base x) u) (stk (base (lstep x t)) u)).
    { intros u Ne. rewrite Eo by exact Ne. apply same_obs_refl. }
    constructor.
    + apply (GA_arrive_wait count Hcount x _ t n k); auto; try (rewrite Es; reflexivity).
      rewrite Em. cbn. unfold upd. reflexivity.
    + apply (GL_frame x); auto; try (rewrite Em; reflexivity).
      * rewrite Gp. intros u Hu. apply in_app_iff. auto.
      * intros u _. destruct (Nat.eq_dec u t) as [->|Ne]; [rewrite Es, E; cbn; tauto|].
        rewrite Eo by exact Ne. tauto.
    + apply (GN_frame x); auto; try (intros; rewrite Em; reflexivity).
      intros u. destruct (Nat.eq_dec u t) as [->|Ne]; [rewrite Es, E; reflexivity|]. rewrite Eo by exact Ne. reflexivity.
    + destruct M as [M1 M2 M3 M4]. constructor.
      * rewrite Ecn. exact M1.
      * rewrite Em. eapply slots_none_same; eauto.
      * intros u. rewrite Em. apply M3.
      * intros u. destruct (Nat.eq_dec u t) as [->|Ne].
        -- rewrite Es. constructor; [|rewrite Em; assumption].
           unfold unq, Qp, Cp, Fp, quiet. rewrite Gp, Gc, Gi, Em. split; [apply in_app_iff; right; left; reflexivity|].
           split; [|split; [congruence|auto]].
           intros Hc. apply in_map_iff in Hc. destruct Hc as [[nd u] [Eq' Hc]]. cbn in Eq'. subst u.
           apply Htq. apply (g_chain _ Lg _ _ Hc).
        -- rewrite Eo by exact Ne. apply (lok_frame count x); [| | | |apply M4].
           ++ rewrite Em. constructor; reflexivity.
           ++ constructor; unfold Qp, Cp, Fp; rewrite ?Gp, ?Gc, ?Gi; try tauto.
              rewrite in_app_iff. cbn. split; [intros [H|[H|[]]]; [exact H|congruence]|auto].
           ++ intros _. rewrite Em. cbn. auto.
           ++ intros _. rewrite Em. auto.
Qed.

(* a woken waiter returns from fiber_barrier_wait *)
Lemma step_wreturn x t n k :
  G count x -> stk (base x) t = [YNext ST_RUNNING; FC (BRet n k 0)] -> (n = O \/ noser x) ->
  G count (lstep x t).
Proof.
  intros Gx E Hreg. inv_local Gx t E L.
  match goal with H : _ \/ _ |- _ => destruct H as [[Hd _]|[_ P]]; [discriminate|] end.
  destruct P as (Pf & Pq & (Pp & Pb) & Pn).
  destruct Gx as [A Lg N M].
  set (m := mem (base x)) in *.
  pose proof (g_cnt _ _ M) as Ec.
  assert (K : kstep bc (cret (cnt (base x))) m t (stk (base x) t)
              = (m, ev t 900 99 0 ++ retev t k 0 ++ fst (start t n (S k)), start_stack t n (S k))).
  { rewrite E, Ec. cbn [kstep]. cbn [Z.eqb orb ST_RUNNING ST_WAITING ST_DONE ST_SAVING Pos.eqb]. rewrite ret_bret. reflexivity. }
  destruct (lstep_view x t _ _ _ K) as (Em & Es & Eo & Ecn & Enn).
  assert (Gn : ghost_neutral (stk (base x) t)) by (rewrite E; exact I).
  destruct (ghost_neutral_eq x t Gn) as (Gc & Gi & Gp).
  assert (Eb0 : bot (stk (base x) t) = Some (BRet n k 0)) by (rewrite E; reflexivity).
  assert (Gr : rets (lstep x t) = rets x ++ [(t, k, 0)]).
  { rewrite lstep_rets. rewrite <- lstep_erase. rewrite Eb0, Es. destruct n; reflexivity. }
  assert (Ga : arr (lstep x t) = arr x).
  { rewrite lstep_arr. rewrite <- lstep_erase. rewrite Eb0. reflexivity. }
  assert (Eno : nodes (lstep x t) = nodes x) by (unfold nodes; rewrite Em, Gc; reflexivity).
  assert (Hobs : forall u, u <> t -> same_obs (stk (base x) u) (stk (base (lstep x t)) u)).
  { intros u Ne. rewrite Eo by exact Ne. apply same_obs_refl. }
  constructor.
  - apply (GA_waiter_return count x _ t n k); auto; rewrite Em; reflexivity.
  - apply (GL_frame x); auto; try (rewrite Em; reflexivity).
    + rewrite Gp. auto.
    + intros u _. destruct (Nat.eq_dec u t) as [->|Ne]; [rewrite Es, E; destruct n; cbn; tauto|].
      rewrite Eo by exact Ne. tauto.
  - apply (GN_frame x); auto; try (intros; rewrite Em; reflexivity).
    intros u. destruct (Nat.eq_dec u t) as [->|Ne]; [rewrite Es, E; destruct n; reflexivity|]. rewrite Eo by exact Ne. reflexivity.
  - destruct M as [M1 M2 M3 M4]. constructor.
    + rewrite Ecn. exact M1.
    + rewrite Em. exact M2.
    + intros u. rewrite Em. apply M3.
    + intros u. destruct (Nat.eq_dec u t) as [->|Ne].
      * rewrite Es. destruct n; cbn; constructor; unfold quiet; rewrite ?Em; auto.
      * rewrite Eo by exact Ne. apply (lok_frame count x); [| | | |apply M4].
        -- rewrite Em. constructor; reflexivity.
        -- apply same_ghost_refl; assumption.
        -- intros _. rewrite Em. auto 6.
        -- intros _. rewrite Em. auto.
Qed.

(* the serial fiber returns without a further wake-up (only when count = 1) *)
Lemma serial_return_nowake x t n k e :
  G count x -> bot (stk (base x) t) = Some (BRet n k 1) -> ~ linking (stk (base x) t) ->
  held (stk (base x) t) = O -> ghost_neutral (stk (base x) t) ->
  serl x t -> infl x = None -> ~ (wcof (stk (base x) t) < count - 1) ->
  kstep bc (cret count) (mem (base x)) t (stk (base x) t) = (mem (base x), e, start_stack t n (S k)) ->
  G count (lstep x t).
Proof.
  intros Gx Eb0 Nl Hh Gn (Sq & (Sp & Sb) & Sn & Sf) Hin Hwc K0.
  destruct Gx as [A Lg N M].
  set (m := mem (base x)) in *.
  pose proof (g_cnt _ _ M) as Ec.
  assert (K : kstep bc (cret (cnt (base x))) m t (stk (base x) t) = (m, e, start_stack t n (S k))) by (rewrite Ec; exact K0).
  destruct (lstep_view x t _ _ _ K) as (Em & Es & Eo & Ecn & Enn).
  destruct (ghost_neutral_eq x t Gn) as (Gc & Gi & Gp).
  assert (Gr : rets (lstep x t) = rets x ++ [(t, k, 1)]).
  { rewrite lstep_rets. rewrite <- lstep_erase. rewrite Eb0, Es. destruct n; reflexivity. }
  assert (Ga : arr (lstep x t) = arr x).
  { rewrite lstep_arr. rewrite <- lstep_erase. rewrite Eb0. reflexivity. }
  assert (Eno : nodes (lstep x t) = nodes x) by (unfold nodes; rewrite Em, Gc; reflexivity).
  assert (Hobs : forall u, u <> t -> same_obs (stk (base x) u) (stk (base (lstep x t)) u)).
  { intros u Ne. rewrite Eo by exact Ne. apply same_obs_refl. }
  assert (St : is_ser (stk (base x) t)) by (do 2 eexists; exact Eb0).
  assert (Hpw : pw x = []).
  { destruct (g_serw _ _ A t St) as (_ & _ & B3 & B4 & B5). destruct (pw x); [reflexivity|]. cbn in B3. lia. }
  constructor.
  - apply (GA_serial_return count Hcount x _ t n k); auto; try (rewrite Em; reflexivity); congruence.
  - apply (GL_frame x); auto; try (rewrite Em; reflexivity).
    + rewrite Gp. auto.
    + intros u _. destruct (Nat.eq_dec u t) as [->|Ne]; [rewrite Es; destruct n; cbn; tauto|].
      rewrite Eo by exact Ne. tauto.
  - apply (GN_frame x); auto; try (intros; rewrite Em; reflexivity).
    intros u. destruct (Nat.eq_dec u t) as [->|Ne]; [rewrite Es, Hh; destruct n; reflexivity|]. rewrite Eo by exact Ne. reflexivity.
  - destruct M as [M1 M2 M3 M4]. constructor.
    + rewrite Ecn. exact M1.
    + rewrite Em. exact M2.
    + intros u. rewrite Em. apply M3.
    + intros u. destruct (Nat.eq_dec u t) as [->|Ne].
      * rewrite Es. destruct n; cbn; constructor; unfold quiet; rewrite ?Em; auto.
      * rewrite Eo by exact Ne. apply (lok_frame count x); [| | | |apply M4].
        -- rewrite Em. constructor; reflexivity.
        -- apply same_ghost_refl; assumption.
        -- intros _. rewrite Em. auto 6.
        -- intros _. rewrite Em. auto.
Qed.

Lemma in_remove_iff (l : list nat) f u : u <> f -> (In u (remove Nat.eq_dec f l) <-> In u l).
Proof. intros N. split; [intros H; apply in_remove in H; tauto|intros H; apply in_in_remove; auto]. Qed.

Lemma presleep_woken x x' f :
  presleep x f -> Qp x f -> fnode (mem (base x)) f <> O ->
  ((fstate (mem (base x)) f <> ST_WAITING /\ mem (base x') = wake (mem (base x)) f) \/
   (fstate (mem (base x)) f = ST_WAITING /\ mem (base x') = wake (set_fstate (mem (base x)) f ST_READY) f)) ->
  ~ Qp x' f -> presleep x' f.
Proof.
  intros (P1 & P2 & [(P3 & P4 & P5)|(P3 & _)]) Hq Hn Hm Hq'; [|contradiction].
  destruct Hm as [[Hm1 Hm2]|[Hm1 _]]; [|rewrite P1 in Hm1; discriminate].
  unfold presleep. rewrite Hm2. unfold wake. rewrite P2. cbn [fstate blocked pend fnode set_pend].
  rewrite upd_same, P5. split; [exact P1|]. split; [exact P2|]. right. auto.
Qed.

(* the scheduled fiber: in flight -> woken *)
Lemma lok_woken x x' f sg :
  lok count x f sg -> Qp x f -> Fp x f -> is_wait sg -> fnode (mem (base x)) f <> O ->
  ((fstate (mem (base x)) f <> ST_WAITING /\ mem (base x') = wake (mem (base x)) f) \/
   (fstate (mem (base x)) f = ST_WAITING /\ mem (base x') = wake (set_fstate (mem (base x)) f ST_READY) f)) ->
  ~ Qp x' f -> lok count x' f sg.
Proof.
  intros L Hq Hf Hw Hn Hm Hq'.
  pose proof (fun P => presleep_woken x x' f P Hq Hn Hm Hq') as PW.
  destruct L; try (destruct Hw as (n' & k' & Hw); discriminate);
    repeat match goal with
           | H : unq _ _ |- _ => destruct H as (_ & _ & Hnf & _); contradiction
           | H : serl _ _ |- _ => destruct H as (Hnq & _); contradiction
           end; try contradiction.
  - constructor. destruct H as [H|H]; [left; auto|destruct H as (_ & H & _); contradiction].
  - constructor. destruct H as [[Hst H]|[_ H]]; [left; auto|destruct H as (_ & H & _); contradiction].
  - constructor. auto.
  - constructor. auto.
  - constructor. auto.
  - constructor. auto.
  - destruct H as [(P1 & P2 & P3 & P4 & P5)|(P1 & _)]; [|contradiction].
    destruct Hm as [[Hm1 _]|[_ Hm2]]; [contradiction|].
    constructor. right. rewrite Hm2. unfold wake. cbn [blocked set_fstate]. rewrite P4.
    cbn [fstate blocked pend fnode set_blocked set_fstate]. rewrite !upd_same. auto 6.
Qed.

Lemma wake_same_at m f u : u <> f -> same_at m (wake m f) u.
Proof.
  intros N. unfold wake. destruct (blocked m f); constructor; cbn; try reflexivity; apply upd_other; exact N.
Qed.

(* the serial fiber schedules the fiber whose entry it consumed *)
Lemma ksched_step x t f wc n k fr m0 e :
  G count x -> stk (base x) t = [fr; FC (BRet n k 1)] ->
  serl x t -> infl x = Some f -> fnode (mem (base x)) f <> O ->
  wcof [fr; FC (BRet n k 1)] = wc -> held [fr; FC (BRet n k 1)] = O -> ~ linking [fr; FC (BRet n k 1)] ->
  ((fstate (mem (base x)) f <> ST_WAITING /\ m0 = mem (base x)) \/
   (fstate (mem (base x)) f = ST_WAITING /\ m0 = set_fstate (mem (base x)) f ST_READY)) ->
  kstep bc (cret count) (mem (base x)) t [fr; FC (BRet n k 1)]
    = ksched bc (cret count) m0 t 0 (count - 1) wc f e [FC (BRet n k 1)] ->
  chain (lstep x t) = chain x -> infl (lstep x t) = None -> pw (lstep x t) = remove Nat.eq_dec f (pw x) ->
  G count (lstep x t).
Proof.
  intros Gx E Hser Hi Hfn Hwc Hh Hl Hm0 K0 Gc Gi Gp.
  pose proof Hser as (Sq & (Sp & Sb) & Sn & Sf).
  destruct (g_infl _ (g_l _ _ Gx) _ Hi) as [Fq Fnc].
  destruct (g_pw _ _ (g_a _ _ Gx) _ Fq) as (Flt & Fw & _).
  assert (Ntf : t <> f) by (intros ->; exact (Sq Fq)).
  assert (Eb0 : bot (stk (base x) t) = Some (BRet n k 1)) by (rewrite E; reflexivity).
  assert (St : is_ser (stk (base x) t)) by (do 2 eexists; exact Eb0).
  destruct Gx as [A Lg N M].
  set (m := mem (base x)) in *.
  pose proof (g_cnt _ _ M) as Ec.
  rewrite ksched_cases in K0.
  set (m1 := wake m0 f) in *.
  assert (Wf : fstate m1 = (if fstate m f =? ST_WAITING then upd (fstate m) f ST_READY else fstate m) /\
               ndata m1 = ndata m /\ nnext m1 = nnext m /\ word m1 = word m /\ qhead m1 = qhead m /\
               qtail m1 = qtail m /\ fnode m1 = fnode m /\ slot_sched m1 = slot_sched m /\
               slot_mutex m1 = slot_mutex m /\ slot_wait m1 = slot_wait m /\ slot_mpmc m1 = slot_mpmc m /\
               (forall u, u <> f -> blocked m1 u = blocked m u /\ pend m1 u = pend m u)).
  { unfold m1, wake. destruct Hm0 as [[H1 ->]|[H1 ->]].
    - apply Z.eqb_neq in H1. rewrite H1. destruct (blocked m f); cbn; repeat split; auto; apply upd_other; auto.
    - rewrite H1. cbn [blocked set_fstate]. destruct (blocked m f); cbn; repeat split; auto; apply upd_other; auto. }
  destruct Wf as (W1 & W2 & W3 & W4 & W5 & W6 & W7 & W8 & W9 & W10 & W11 & W12).
  assert (W1' : forall u, u <> f -> fstate m1 u = fstate m u).
  { intros u Ne. rewrite W1. destruct (fstate m f =? ST_WAITING); [apply upd_other; exact Ne|reflexivity]. }
  assert (Hmm : (fstate m f <> ST_WAITING /\ m1 = wake m f) \/ (fstate m f = ST_WAITING /\ m1 = wake (set_fstate m f ST_READY) f)).
  { unfold m1. destruct Hm0 as [[H1 ->]|[H1 ->]]; auto. }
  assert (Hlok : forall x', mem (base x') = m1 -> pw x' = remove Nat.eq_dec f (pw x) -> chain x' = chain x ->
                 infl x' = None -> forall u, u <> t -> lok count x u (stk (base x) u) -> lok count x' u (stk (base x) u)).
  { intros x' Em' Ep' Ec' Ei' u Ne Lu. destruct (Nat.eq_dec u f) as [->|Nf].
    - apply (lok_woken x); auto.
      + destruct Hmm as [[H1 H2]|[H1 H2]]; [left|right]; split; auto; rewrite Em'; exact H2.
      + unfold Qp. rewrite Ep'. apply remove_In.
    - apply (lok_frame count x); [| | | |exact Lu].
      + rewrite Em'. constructor; [apply W1'; exact Nf|apply W12; exact Nf|apply W12; exact Nf|rewrite W7; reflexivity].
      + constructor; unfold Qp, Cp, Fp; rewrite ?Ep', ?Ec', ?Ei', ?Hi; try tauto.
        * apply in_remove_iff. exact Nf.
        * split; [discriminate|intros H; injection H as ->; congruence].
      + intros Hs. exfalso. apply Ne. apply (g_ser1 _ _ A); assumption.
      + intros _. rewrite Em', W2, W3. auto. }
  destruct (wc + 1 <? count - 1) eqn:Hlt.
  - (* more waiters to collect *)
    apply Z.ltb_lt in Hlt.
    assert (K : kstep bc (cret (cnt (base x))) m t (stk (base x) t)
                = (m1, e ++ ev t 901 919 (Zn f), [KHead 0 (count - 1) (wc + 1); FC (BRet n k 1)])) by (rewrite Ec, E; exact K0).
    destruct (lstep_view x t _ _ _ K) as (Em & Es & Eo & Ecn & Enn).
    assert (Gr : rets (lstep x t) = rets x).
    { rewrite lstep_rets. rewrite <- lstep_erase. rewrite Eb0, Es. reflexivity. }
    assert (Ga : arr (lstep x t) = arr x).
    { rewrite lstep_arr. rewrite <- lstep_erase. rewrite Eb0. reflexivity. }
    assert (Eno : nodes (lstep x t) = nodes x) by (unfold nodes; rewrite Em, W5, Gc; reflexivity).
    assert (Hobs : forall u, u <> t -> same_obs (stk (base x) u) (stk (base (lstep x t)) u)).
    { intros u Ne. rewrite Eo by exact Ne. apply same_obs_refl. }
    constructor.
    + apply (GA_wake_continue count Hcount x _ t f wc); auto; try (rewrite Es; try reflexivity);
        try (rewrite E; assumption); try (rewrite Em, W4; reflexivity).
      * do 2 eexists; reflexivity.
      * rewrite E. reflexivity.
    + destruct Lg as [L1 L2 L3 L4 L5 L6 L7]. constructor; rewrite ?Eno, ?Gc, ?Gi, ?Em, ?W5, ?W6; auto.
      * apply (linked_frame m _ (stk (base x))); [rewrite W3; reflexivity| |exact L4].
        intros u Hu. rewrite Eo; [tauto|]. intros ->. apply Sq.
        apply in_map_iff in Hu. destruct Hu as [[nd' u'] [Eq Hu]]. cbn in Eq. subst u'. apply (L5 nd' t Hu).
      * intros nd' u Hu. rewrite W2. destruct (L5 _ _ Hu) as [B1 B2]. split; [exact B1|]. rewrite Gp.
        apply in_in_remove; [|exact B2]. intros ->. apply Fnc. apply in_map_iff. exists (nd', f). auto.
      * intros f' Hf'. discriminate.
    + apply (GN_frame x); auto; try (intros; rewrite Em, W7; reflexivity).
      intros u. destruct (Nat.eq_dec u t) as [->|Ne]; [rewrite Es, E, Hh; reflexivity|]. rewrite Eo by exact Ne. reflexivity.
    + destruct M as [M1 M2 M3 M4]. constructor.
      * rewrite Ecn. exact M1.
      * rewrite Em. eapply slots_none_same; eauto.
      * intros u. rewrite Em, W8. apply M3.
      * intros u. destruct (Nat.eq_dec u t) as [->|Ne].
        -- rewrite Es. constructor; [|exact Gi]. unfold serl, Qp, quiet. rewrite Gp, Em, W7.
           destruct (W12 t Ntf) as [-> ->]. rewrite (W1' t Ntf).
           split; [intros H; apply in_remove in H; tauto|auto].
        -- rewrite Eo by exact Ne. apply Hlok; auto.
  - (* the last waiter: the serial fiber returns *)
    apply Z.ltb_ge in Hlt.
    assert (K : kstep bc (cret (cnt (base x))) m t (stk (base x) t)
                = (m1, (e ++ ev t 901 919 (Zn f)) ++ retev t k 1 ++ fst (start t n (S k)), start_stack t n (S k)))
      by (rewrite Ec, E; exact K0).
    destruct (lstep_view x t _ _ _ K) as (Em & Es & Eo & Ecn & Enn).
    assert (Gr : rets (lstep x t) = rets x ++ [(t, k, 1)]).
    { rewrite lstep_rets. rewrite <- lstep_erase. rewrite Eb0, Es. destruct n; reflexivity. }
    assert (Ga : arr (lstep x t) = arr x).
    { rewrite lstep_arr. rewrite <- lstep_erase. rewrite Eb0. reflexivity. }
    assert (Eno : nodes (lstep x t) = nodes x) by (unfold nodes; rewrite Em, W5, Gc; reflexivity).
    assert (Hobs : forall u, u <> t -> same_obs (stk (base x) u) (stk (base (lstep x t)) u)).
    { intros u Ne. rewrite Eo by exact Ne. apply same_obs_refl. }
    assert (Hpw : pw (lstep x t) = []).
    { destruct (g_serw _ _ A t St) as (_ & _ & B3 & B4 & B5). rewrite E, Hwc in B3, B4, B5.
      pose proof (remove_length _ f (g_pw_nodup _ _ A) Fq) as Hl'. rewrite Gp.
      destruct (remove Nat.eq_dec f (pw x)); [reflexivity|]. cbn in Hl'. lia. }
    constructor.
    + apply (GA_serial_return count Hcount x _ t n k); auto; rewrite Em, W4; reflexivity.
    + destruct Lg as [L1 L2 L3 L4 L5 L6 L7]. constructor; rewrite ?Eno, ?Gc, ?Gi, ?Em, ?W5, ?W6; auto.
      * apply (linked_frame m _ (stk (base x))); [rewrite W3; reflexivity| |exact L4].
        intros u Hu. rewrite Eo; [tauto|]. intros ->. apply Sq.
        apply in_map_iff in Hu. destruct Hu as [[nd' u'] [Eq Hu]]. cbn in Eq. subst u'. apply (L5 nd' t Hu).
      * intros nd' u Hu. rewrite W2. destruct (L5 _ _ Hu) as [B1 B2]. split; [exact B1|]. rewrite Gp.
        apply in_in_remove; [|exact B2]. intros ->. apply Fnc. apply in_map_iff. exists (nd', f). auto.
      * intros f' Hf'. discriminate.
    + apply (GN_frame x); auto; try (intros; rewrite Em, W7; reflexivity).
      intros u. destruct (Nat.eq_dec u t) as [->|Ne]; [rewrite Es, E, Hh; destruct n; reflexivity|]. rewrite Eo by exact Ne. reflexivity.
    + destruct M as [M1 M2 M3 M4]. constructor.
      * rewrite Ecn. exact M1.
      * rewrite Em. eapply slots_none_same; eauto.
      * intros u. rewrite Em, W8. apply M3.
      * intros u. destruct (Nat.eq_dec u t) as [->|Ne].
        -- rewrite Es. destruct (W12 t Ntf) as [Hb' Hp'].
           destruct n; cbn; constructor; unfold quiet; rewrite ?Em, ?W7, ?Hb', ?Hp', ?(W1' t Ntf); auto.
        -- rewrite Eo by exact Ne. apply Hlok; auto.
Qed.
End Steps3.

Section Main.
Variable count : Z.
Hypothesis Hcount : 1 <= count.

(* the regime: one round per fiber, or count <= 2 *)
Definition regime (x : ist) : Prop := count <= 2 \/ SR x.

Lemma regime_noser x t n k :
  G count x -> regime x -> (t < nthr (base x))%nat ->
  bot (stk (base x) t) = Some (BRet n k 0) -> ~ In t (pw x) -> n = O \/ noser x.
Proof.
  intros Gx [Hc|S] Ht Hb Hq.
  - right. intros S HS.
    pose proof (g_a _ _ Gx) as A.
    destruct (g_serw _ _ A S HS) as (B1 & B2 & B3 & B4 & B5).
    pose proof (g_nthr _ _ A) as Hn.
    assert (NSt : S <> t).
    { intros ->. destruct HS as (n' & k' & HS). rewrite Hb in HS. discriminate. }
    destruct (Z.eq_dec count 1) as [C1|C1].
    + rewrite C1 in Hn. change (Z.to_nat 1) with 1%nat in Hn. lia.
    + assert (C2 : count = 2) by lia. rewrite C2 in Hn. change (Z.to_nat 2) with 2%nat in Hn.
      destruct (pw x) as [|p l] eqn:Ep; [cbn in B3; lia|].
      assert (Hp : In p (pw x)) by (rewrite Ep; left; reflexivity).
      destruct (g_pw _ _ A p Hp) as (P1 & P2 & _).
      assert (p <> S).
      { intros ->. destruct HS as (n1 & k1 & H1). destruct P2 as (n2 & k2 & H2). congruence. }
      assert (p <> t) by (intros Hpt; apply Hq; rewrite <- Hpt; left; reflexivity).
      lia.
  - left. pose proof (sr_bot _ S t _ Hb) as [H _]. exact H.
Qed.

Theorem g_step x t :
  L1 count x -> G count x -> regime x -> status_of (base x) t = SReady -> G count (lstep x t).
Proof.
  intros Lx Gx Hreg Hst.
  pose proof (ready_lt _ _ Hst) as Htn.
  pose proof (g_local _ _ (g_m _ _ Gx) t) as L.
  remember (stk (base x) t) as sg eqn:E. symmetry in E.
  destruct L.
  - (* done *) exfalso. unfold status_of in Hst. rewrite E in Hst. destruct (t <? nthr (base x))%nat; discriminate.
  - eapply step_start; eauto.
  - eapply step_fadd; eauto.
  - eapply step_wsaving; eauto.
  - eapply step_wdata; eauto.
  - eapply step_wnext; eauto.
  - eapply step_wxchg; eauto.
  - eapply step_wlink; eauto.
  - eapply step_wyread; eauto.
  - (* YNext *) destruct H as [[-> _]|[-> P]].
    + eapply step_wynext_switch; eauto.
    + eapply step_wreturn; eauto. apply (regime_noser x t n k); auto.
      * rewrite E. reflexivity.
      * apply P.
  - eapply step_wswread; eauto.
  - eapply step_wswdone; eauto.
  - eapply step_wmread; eauto.
  - eapply step_wmflip; eauto.
  - eapply step_wasleep; eauto.
  - eapply step_wresume; eauto.
  - eapply step_khead; eauto.
  - (* KNext *)
    destruct (nnext (mem (base x)) h) as [|nx] eqn:Hn.
    + destruct (0 <? count - 1) eqn:Hc.
      * eapply step_knext_spin; eauto.
      * (* count = 1: nothing to collect *)
        apply Z.ltb_ge in Hc.
        assert (St : is_ser (stk (base x) t)) by (rewrite E; do 2 eexists; reflexivity).
        destruct (g_serw _ _ (g_a _ _ Gx) t St) as (_ & _ & B3 & B4 & B5). rewrite E in B3, B4, B5. cbn [wcof] in B3, B4, B5.
        eapply (serial_return_nowake count Hcount x t n k);
          [exact Gx|rewrite E; reflexivity|rewrite E; cbn; tauto|rewrite E; reflexivity|rewrite E; exact I
          |assumption|assumption|rewrite E; cbn [wcof]; lia|rewrite E].
        cbn [kstep]. rewrite Hn. assert (Hc' : (0 <? count - 1) = false) by (apply Z.ltb_ge; lia). rewrite Hc'.
        unfold kloop. assert (Hw : (wc <? count - 1) = false) by (apply Z.ltb_ge; lia). rewrite Hw.
        rewrite ret_bret. reflexivity.
    + eapply step_knext_some; eauto.
  - eapply step_ksethead; eauto.
  - eapply step_kdata; eauto.
  - eapply step_kcopy; eauto.
  - eapply step_kout; eauto.
  - (* KState *)
    destruct (fstate (mem (base x)) f =? ST_WAITING) eqn:Hf.
    + apply Z.eqb_eq in Hf. eapply step_kstate_waiting; eauto.
    + eapply (ksched_step count Hcount x t f wc n k); eauto; try reflexivity.
      * left. split; [apply Z.eqb_neq; exact Hf|reflexivity].
      * cbn [kstep]. rewrite Hf. reflexivity.
      * rewrite lstep_chain, E. reflexivity.
      * rewrite lstep_infl, E, Hf. reflexivity.
      * rewrite lstep_pw, E, Hf. reflexivity.
  - (* KReady *)
    eapply (ksched_step count Hcount x t f wc n k); eauto; try reflexivity.
    + rewrite lstep_chain, E. reflexivity.
    + rewrite lstep_infl, E. reflexivity.
    + rewrite lstep_pw, E. reflexivity.
  - eapply step_kyread; eauto.
  - (* YNext inside the pop loop *)
    destruct (wc <? count - 1) eqn:Hc.
    + eapply step_kynext_retry; eauto.
    + apply Z.ltb_ge in Hc.
      eapply (serial_return_nowake count Hcount x t n k);
          [exact Gx|rewrite E; reflexivity|rewrite E; cbn; tauto|rewrite E; reflexivity|rewrite E; exact I
          |assumption|assumption|rewrite E; cbn [wcof]; lia|rewrite E].
      cbn [kstep]. cbn [Z.eqb orb ST_RUNNING ST_WAITING ST_DONE ST_SAVING Pos.eqb].
      rewrite ret_kspin. assert (Hw : (wc <? count - 1) = false) by (apply Z.ltb_ge; lia). rewrite Hw. reflexivity.
Qed.

Lemma G_init rounds : length rounds = Z.to_nat count -> G count (iinit count rounds).
Proof.
  intros Hl.
  assert (Nser : forall u, ~ is_ser (stk (base (iinit count rounds)) u)).
  { intros u (n & k & H). cbn in H. discriminate. }
  assert (Nwait : forall u, ~ is_wait (stk (base (iinit count rounds)) u)).
  { intros u (n & k & H). cbn in H. discriminate. }
  constructor.
  - constructor.
    + exact Hl.
    + cbn. lia.
    + intros S S' H. exfalso. exact (Nser S H).
    + intros S H. exfalso. exact (Nser S H).
    + intros _. cbn [pw iinit length base mem init kinit word]. rewrite Z.mod_0_l by lia. reflexivity.
    + constructor.
    + intros u [].
    + intros u k _ H. cbn in H. injection H as <-. split; [exact Nser|]. cbn [iinit base mem init kinit word]. rewrite Z.div_0_l by lia. reflexivity.
    + intros u H. exfalso. exact (Nwait u H).
    + intros t k r [].
    + intros i t k v H. destruct i; discriminate.
    + intros u H. exfalso. exact (Nwait u H).
    + intros _. reflexivity.
  - constructor; cbn; auto.
    + constructor; [intros []|constructor].
    + intros nd [<-|[]]. discriminate.
    + intros nd u [].
    + constructor.
    + intros f H. discriminate.
  - constructor; cbn.
    + intros u u' _ H. lia.
    + intros u u' H. congruence.
    + intros u u' H. exact H.
    + intros u _ [H|[]]. lia.
    + intros u H. congruence.
  - constructor; cbn; auto.
    + intros t. repeat split.
    + intros u. constructor; [split; reflexivity|cbn; lia].
Qed.

Theorem ireach_G rounds x :
  length rounds = Z.to_nat count -> (count <= 2 \/ Forall (fun r => r = 1%nat) rounds) ->
  ireach count rounds x -> G count x.
Proof.
  intros Hl Hr R. induction R as [|x t R IH Hs]; [apply G_init; exact Hl|].
  apply g_step; auto.
  - eapply ireach_l1; eauto.
  - destruct Hr as [Hc|F]; [left; exact Hc|right; eapply ireach_sr; eauto].
Qed.
End Main.

Lemma filter_range {A} (p : A -> bool) : forall (l : list A) (lo c : nat),
  (lo + c <= length l)%nat ->
  (forall j a, (lo <= j < lo + c)%nat -> nth_error l j = Some a -> p a = true) ->
  (c <= length (filter p l))%nat.
Proof.
  induction l as [|a l IH]; intros lo c Hl Hp; cbn in *; [lia|].
  destruct lo as [|lo].
  - destruct c as [|c]; [lia|]. rewrite (Hp O a) by (cbn; auto; lia). cbn.
    apply le_n_S. apply (IH O c); [lia|]. intros j b Hj Hn. apply (Hp (S j) b); [lia|exact Hn].
  - assert (c <= length (filter p l))%nat.
    { apply (IH lo c); [lia|]. intros j b Hj Hn. apply (Hp (S j) b); [lia|exact Hn]. }
    destruct (p a); cbn; lia.
Qed.

Lemma nodup_round (l : list (nat * nat * Z)) k :
  NoDup (map fst l) -> NoDup (map (fun a => fst (fst a)) (filter (fun a => Nat.eqb (snd (fst a)) k) l)).
Proof.
  induction l as [|[[t k'] v] l IH]; intros N; cbn in *; [constructor|].
  inversion N as [|? ? Hn Nl]; subst. destruct (Nat.eqb_spec k' k) as [->|Ne]; cbn; [|auto].
  constructor; [|auto]. intros Hi. apply Hn. apply in_map_iff in Hi.
  destruct Hi as [[[t' k2] v'] [Eq Hi]]. cbn in Eq. subst t'. apply filter_In in Hi. destruct Hi as [Hi Hk].
  cbn in Hk. apply Nat.eqb_eq in Hk. subst k2. apply in_map_iff. exists (t, k, v'). auto.
Qed.

Section Final.
Variable count : Z.
Hypothesis Hcount : 1 <= count.

(* round safety from the invariant *)
Lemma round_safe_of_G x : L1 count x -> G count x -> round_safe_arrived count x /\ round_safe count x.
Proof.
  intros L Gx.
  assert (RA : round_safe_arrived count x).
  { intros t k [r H]. split; [apply nodup_round; apply L|].
    pose proof (g_rets _ _ (g_a _ _ Gx) _ _ _ H) as Hk.
    rewrite (l1_word _ _ L) in Hk.
    destruct (l1_rets _ _ L _ _ _ H) as (v & Hv & _).
    destruct (In_nth_error _ _ Hv) as [i Hi].
    pose proof (g_arr _ _ (g_a _ _ Gx) _ _ _ _ Hi) as Hki.
    assert (Hk1 : (1 <= k)%nat).
    { assert (0 <= Z.of_nat i / count) by (apply Z.div_pos; lia). lia. }
    unfold arrived_fibers. rewrite map_length.
    assert (Hc : (Z.to_nat count <= length (filter (fun a => Nat.eqb (snd (fst a)) k) (arr x)))%nat).
    { apply (filter_range _ (arr x) (Z.to_nat ((Z.of_nat k - 1) * count)) (Z.to_nat count)).
      - nia.
      - intros j [[t' k'] v'] Hj Hn. cbn. apply Nat.eqb_eq.
        pose proof (g_arr _ _ (g_a _ _ Gx) _ _ _ _ Hn) as Hk'. apply Nat2Z.inj.
        rewrite Hk'.
        assert (Hjz : (Z.of_nat k - 1) * count <= Z.of_nat j < (Z.of_nat k - 1) * count + count) by nia.
        assert (Hd : Z.of_nat j / count = Z.of_nat k - 1).
        { symmetry. apply (Z.div_unique (Z.of_nat j) count (Z.of_nat k - 1) (Z.of_nat j - (Z.of_nat k - 1) * count)); lia. }
        lia. }
    lia. }
  split; [exact RA|].
  intros t k Hr. destruct (RA t k Hr) as [Nd Hl].
  assert ((length (arrived_fibers x k) <= length (entered_fibers x k))%nat).
  { apply NoDup_incl_length; [exact Nd|]. intros u Hu. unfold arrived_fibers in Hu.
    apply in_map_iff in Hu. destruct Hu as [[[t' k'] v'] [Eq Hu]]. cbn in Eq. subst t'.
    apply filter_In in Hu. destruct Hu as [Hu Hk]. cbn in Hk. apply Nat.eqb_eq in Hk. subst k'.
    apply entered_in. apply (l1_ent _ _ L _ _ _ Hu). }
  lia.
Qed.

(* ---- quiescence, one round per fiber ---- *)
Definition quiescent (x : ist) : Prop := forall t, status_of (base x) t <> SReady.

Lemma quiescent_shapes x : G count x -> quiescent x ->
  forall u, (u < nthr (base x))%nat -> stk (base x) u = [] \/ (is_wait (stk (base x) u) /\ In u (pw x)).
Proof.
  intros Gx Hq u Hu. pose proof (g_local _ _ (g_m _ _ Gx) u) as L. specialize (Hq u).
  unfold status_of in Hq. apply Nat.ltb_lt in Hu. rewrite Hu in Hq.
  remember (stk (base x) u) as sg eqn:E.
  destruct L; try (exfalso; apply Hq; reflexivity); [left; reflexivity|].
  right. split; [do 2 eexists; reflexivity|].
  destruct H as [(P1 & _)|(_ & _ & Pb & _)]; [exact P1|].
  exfalso. apply Hq. cbn. rewrite Pb. reflexivity.
Qed.

(* finished fibers have returned (every fiber performs exactly one round) *)
Record DR (x : ist) : Prop := {
  dr_next : forall t n k, (t < nthr (base x))%nat -> bot (stk (base x) t) = Some (BNext n k) -> n = 1%nat;
  dr_done : forall t, (t < nthr (base x))%nat -> bot (stk (base x) t) = None -> exists r, In (t, 1%nat, r) (rets x)
}.

Lemma dr_init rounds : Forall (fun r => r = 1%nat) rounds -> DR (iinit count rounds).
Proof.
  intros F. constructor; cbn.
  - intros t n k Ht E. injection E as <- <-. rewrite Forall_forall in F. apply F. apply nth_In. exact Ht.
  - intros t _ E. discriminate.
Qed.

Lemma dr_step x t : L1 count x -> SR x -> status_of (base x) t = SReady -> DR x -> DR (lstep x t).
Proof.
  intros L S Hs [D1 D2].
  pose proof (lstep_cases count x t (l1_cnt _ _ L) (l1_slots _ _ L) (l1_shape _ _ L t)) as K.
  cbv zeta in K. destruct K as (_ & _ & K).
  pose proof (ready_lt _ _ Hs) as Ht.
  assert (Eo : forall u, u <> t -> stk (base (lstep x t)) u = stk (base x) u).
  { intros u N. rewrite lstep_erase. apply step_stk_other. exact N. }
  assert (Hr : forall a, In a (rets x) -> In a (rets (lstep x t))).
  { intros a Ha. destruct K as [(_ & _ & _ & _ & E3)|[(n & k & _ & _ & _ & _ & _ & E3)|[(_ & _ & _ & _ & _ & E3)|
      [(n & _ & _ & _ & _ & _ & E3)|[(k & r & _ & _ & _ & E3 & _)|(n & k & r & _ & _ & _ & E3 & _)]]]]];
      rewrite E3; try apply in_app_iff; auto. }
  constructor; rewrite lstep_nthr.
  - intros u n k Hu E. destruct (Nat.eq_dec u t) as [->|N]; [|rewrite Eo in E by exact N; eauto].
    destruct K as [(B & _)|[(n' & k' & _ & B' & _)|[(_ & B' & _)|[(n' & _ & B' & _)|[(k' & r & _ & B' & _)|(n' & k' & r & _ & B' & _)]]]]];
      try (rewrite B' in E; discriminate). rewrite B in E. eauto.
  - intros u Hu E. destruct (Nat.eq_dec u t) as [->|N].
    + destruct K as [(B & _)|[(n' & k' & _ & B' & _)|[(B & _ & _)|[(n' & _ & B' & _)|[(k' & r & B & _ & _ & E3 & _)|(n' & k' & r & _ & B' & _)]]]]];
        try (rewrite B' in E; discriminate).
      * rewrite B in E. destruct (D2 t Hu E) as [r Hr']. exists r. auto.
      * exfalso. pose proof (D1 t _ _ Hu B). discriminate.
      * pose proof (sr_bot _ S t _ B) as [_ ->]. exists r. rewrite E3. apply in_app_iff. right. left. reflexivity.
    + rewrite Eo in E by exact N. destruct (D2 u Hu E) as [r Hr']. exists r. auto.
Qed.

Lemma ireach_dr rounds x :
  Forall (fun r => r = 1%nat) rounds -> ireach count rounds x -> DR x.
Proof.
  intros F R. induction R as [|x t R IH Hs]; [apply dr_init; exact F|].
  apply dr_step; auto; [eapply ireach_l1; eauto|eapply ireach_sr; eauto].
Qed.

Lemma stk_nil_bot (sg : stack bc) : sg = [] -> bot sg = None.
Proof. intros ->. reflexivity. Qed.

Theorem single_round_quiescent rounds x :
  length rounds = Z.to_nat count -> Forall (fun r => r = 1%nat) rounds ->
  ireach count rounds x -> quiescent x ->
  (forall t, (t < length rounds)%nat -> returned x t 1) /\
  (exists t, In (t, 1%nat, 1) (rets x)).
Proof.
  intros Hl F R Hq.
  pose proof (ireach_l1 _ _ _ R) as L. pose proof (ireach_sr _ _ _ F R) as S.
  pose proof (ireach_dr _ _ F R) as D. pose proof (ireach_nthr _ _ _ R) as Nt.
  assert (Gx : G count x) by (apply (ireach_G count Hcount rounds); auto).
  pose proof (g_a _ _ Gx) as A.
  pose proof (quiescent_shapes x Gx Hq) as Sh. rewrite Nt in Sh.
  assert (Ns : noser x).
  { intros S0 HS. destruct (g_serw _ _ A S0 HS) as (B1 & _). rewrite Nt in B1.
    destruct (Sh S0 B1) as [E|[(n & k & E) _]]; destruct HS as (n' & k' & HS); [rewrite E in HS; discriminate|congruence]. }
  assert (Hpw : pw x = []).
  { destruct (pw x) as [|p l] eqn:Ep; [reflexivity|exfalso].
    assert (Hp : In p (pw x)) by (rewrite Ep; left; reflexivity).
    destruct (g_pw _ _ A p Hp) as (P1 & (n & k & P2) & _ & P4).
    pose proof (sr_bot _ S p _ P2) as [_ Hk]. specialize (P4 Ns). unfold rnd in P4. rewrite P2 in P4. cbn in P4. subst k.
    assert (Hw : word (mem (base x)) 0%nat < count).
    { pose proof (g_word _ _ A). assert (word (mem (base x)) 0%nat / count = 0) by lia.
      apply Z.div_small_iff in H0; lia. }
    assert (Hall : forall u, (u < length rounds)%nat -> In u (pw x)).
    { intros u Hu. destruct (Sh u Hu) as [E|[_ Hi]]; [|rewrite Ep; exact Hi]. exfalso.
      rewrite <- Nt in Hu. destruct (dr_done _ D u Hu (stk_nil_bot _ E)) as [r Hr].
      pose proof (g_rets _ _ A _ _ _ Hr). lia. }
    assert (Hlen : (length (seq 0 (length rounds)) <= length (pw x))%nat).
    { apply NoDup_incl_length; [apply seq_NoDup|]. intros u Hu. apply in_seq in Hu. apply Hall. lia. }
    rewrite seq_length in Hlen. pose proof (g_noser _ _ A Ns) as Hm.
    rewrite Z.mod_small in Hm by (pose proof (g_word _ _ A); lia). lia. }
  assert (Hdone : forall t, (t < length rounds)%nat -> stk (base x) t = []).
  { intros t Ht. destruct (Sh t Ht) as [E|[_ Hi]]; [exact E|]. rewrite Hpw in Hi. destruct Hi. }
  assert (Hret : forall t, (t < length rounds)%nat -> returned x t 1).
  { intros t Ht. rewrite <- Nt in Ht. apply (dr_done _ D t Ht). apply stk_nil_bot. apply Hdone. rewrite <- Nt. exact Ht. }
  split; [exact Hret|].
  (* the fiber that fetched count-1 *)
  destruct (single_round_facts count rounds x Hcount Hl F R) as (_ & Hle & _ & _).
  assert (Hge : (length rounds <= length (arr x))%nat).
  { assert (Hin : incl (seq 0 (length rounds)) (map (fun a => fst (fst a)) (arr x))).
    { intros t Ht. apply in_seq in Ht. destruct (Hret t ltac:(lia)) as [r Hr].
      destruct (l1_rets _ _ L _ _ _ Hr) as (v & Hv & _). apply in_map_iff. exists (t, 1%nat, v). auto. }
    pose proof (NoDup_incl_length (seq_NoDup (length rounds) 0) Hin) as H. rewrite seq_length, map_length in H. exact H. }
  assert (Hidx : (Z.to_nat (count - 1) < length (arr x))%nat) by lia.
  destruct (nth_error (arr x) (Z.to_nat (count - 1))) as [[[t k] v]|] eqn:En; [|apply nth_error_None in En; lia].
  pose proof (l1_tick _ _ L _ _ _ _ En) as Hv. rewrite Z2Nat.id in Hv by lia. subst v.
  pose proof (nth_error_In _ _ En) as Hin.
  destruct (sr_arr _ S _ _ _ Hin) as [-> Htl]. rewrite Nt in Htl.
  destruct (Hret t Htl) as [r Hr]. exists t.
  destruct (l1_rets _ _ L _ _ _ Hr) as (v' & Hv' & ->).
  assert (v' = count - 1).
  { pose proof (l1_nodup_arr _ _ L) as Nd.
    destruct (In_nth_error _ _ Hv') as [i' Hi'].
    assert (i' = Z.to_nat (count - 1)).
    { eapply (NoDup_nth_error (map fst (arr x))); eauto.
      - rewrite map_length. apply nth_error_Some. rewrite Hi'. discriminate.
      - rewrite !nth_error_map, Hi', En. reflexivity. }
    subst i'. congruence. }
  subst v'. unfold sbit in Hr. replace (count - 1 + 1) with count in Hr by lia. rewrite Z.mod_same in Hr by lia. exact Hr.
Qed.

(* one serial fiber per round (regime) *)
Lemma one_serial_round x t t' k :
  L1 count x -> G count x -> In (t, k, 1) (rets x) -> In (t', k, 1) (rets x) -> t = t'.
Proof.
  intros L Gx H H'.
  destruct (l1_rets _ _ L _ _ _ H) as (v & Hv & Hb). destruct (l1_rets _ _ L _ _ _ H') as (v' & Hv' & Hb').
  destruct (In_nth_error _ _ Hv) as [i Hi]. destruct (In_nth_error _ _ Hv') as [i' Hi'].
  pose proof (l1_tick _ _ L _ _ _ _ Hi) as ->. pose proof (l1_tick _ _ L _ _ _ _ Hi') as ->.
  pose proof (g_arr _ _ (g_a _ _ Gx) _ _ _ _ Hi) as Hk. pose proof (g_arr _ _ (g_a _ _ Gx) _ _ _ _ Hi') as Hk'.
  destruct (sbit_cases count (Z.of_nat i)) as [[_ Hm]|[Hm _]]; [|congruence].
  destruct (sbit_cases count (Z.of_nat i')) as [[_ Hm']|[Hm' _]]; [|congruence].
  assert (Hlast : forall j, 0 <= j -> (j + 1) mod count = 0 -> j = count * (j / count) + (count - 1)).
  { intros j Hj Hmj.
    pose proof (Z.div_mod (j + 1) count ltac:(lia)) as E. rewrite Hmj in E.
    pose proof (Z.div_mod j count ltac:(lia)) as F. pose proof (Z.mod_pos_bound j count ltac:(lia)) as B.
    set (q := (j + 1) / count) in *. set (a := j / count) in *. set (r := j mod count) in *.
    assert (count * (q - a) = r + 1) by lia.
    assert (q - a = 1) by nia. nia. }
  assert (Z.of_nat i = Z.of_nat i').
  { rewrite (Hlast (Z.of_nat i)) by (auto; lia). rewrite (Hlast (Z.of_nat i')) by (auto; lia).
    assert (Z.of_nat i / count = Z.of_nat i' / count) by lia. congruence. }
  assert (i = i') by lia. subst i'. congruence.
Qed.

(* single consumer (regime): at most one fiber is inside the pop loop *)
Lemma pop_loop_ser s t : Shape count (stk s t) -> in_pop_loop s t -> is_ser (stk s t).
Proof.
  unfold in_pop_loop. intros Sh H. destruct Sh as [|n|n k|f n k Hf|y n k Hy|f n k Hf|y wc n k Hy]; try contradiction.
  - destruct Hf; contradiction.
  - destruct Hy; contradiction.
  - do 2 eexists. reflexivity.
  - do 2 eexists. destruct Hy; reflexivity.
Qed.

Lemma single_consumer_of_G x t u :
  L1 count x -> G count x -> in_pop_loop (base x) t -> in_pop_loop (base x) u -> t = u.
Proof.
  intros L Gx Ht Hu. apply (g_ser1 _ _ (g_a _ _ Gx)); apply pop_loop_ser; auto; apply L.
Qed.
End Final.
