(* C12: the protocol invariant of the barrier when exactly [count] fibers use it
   and either every fiber performs one round or count <= 2 (the regime in which
   the waiter list is never popped by the serial fiber of an earlier round).
   Kernel part: well-formedness of the MPSC waiter list (two-step push, single
   consumer, node hand-over), wake-up protocol of wait_in_mpsc_queue /
   wake_from_mpsc_queue.  Barrier part: generations. *)
From Coq Require Import List ZArith Lia Bool Arith.
From LF Require Import Conc T1K Barrier BarrierProofs.
Import ListNotations.
Local Open Scope Z_scope.

(* ---- remaining projections of lstep ---- *)
Lemma lstep_chain x t : chain (lstep x t) =
  match stk (base x) t with
  | WXchg _ n :: _ => chain x ++ [(n, t)]
  | KSetHead _ _ _ _ _ :: _ => tl (chain x)
  | _ => chain x
  end.
Proof. unfold lstep. destruct (stk (base x) t) as [|[] ?]; reflexivity. Qed.

Lemma lstep_infl x t : infl (lstep x t) =
  match stk (base x) t with
  | KSetHead _ _ _ _ _ :: _ => option_map snd (hd_error (chain x))
  | KState _ _ _ f :: _ => if fstate (mem (base x)) f =? ST_WAITING then infl x else None
  | KReady _ _ _ _ :: _ => None
  | _ => infl x
  end.
Proof. unfold lstep. destruct (stk (base x) t) as [|[] ?]; reflexivity. Qed.

Lemma lstep_pw x t : pw (lstep x t) =
  match stk (base x) t with
  | WFAdd _ _ _ :: _ => if (word (mem (base x)) 0 + 1) mod cnt (base x) =? 0 then pw x else pw x ++ [t]
  | KState _ _ _ f :: _ => if fstate (mem (base x)) f =? ST_WAITING then pw x else remove Nat.eq_dec f (pw x)
  | KReady _ _ _ f :: _ => remove Nat.eq_dec f (pw x)
  | _ => pw x
  end.
Proof. unfold lstep. destruct (stk (base x) t) as [|[] ?]; reflexivity. Qed.

(* ---- observations on stacks ---- *)
Definition is_ser (sg : stack bc) : Prop := exists n k, bot sg = Some (BRet n k 1).
Definition is_wait (sg : stack bc) : Prop := exists n k, bot sg = Some (BRet n k 0).
Definition rnd (sg : stack bc) : nat := match bot sg with Some c => round_of c | None => O end.
Definition pre_round (sg : stack bc) : option nat :=
  match sg with
  | [Start; FC (BNext _ k)] => Some k
  | [WFAdd _ _ _; FC (BArrived _ k)] => Some k
  | _ => None
  end.

(* number of waiters the serial fiber has scheduled so far *)
Definition wcof (sg : stack bc) : Z :=
  match sg with
  | KHead _ _ wc :: _ | KNext _ _ wc _ :: _ | KSetHead _ _ wc _ _ :: _ | KData _ _ wc _ _ :: _
  | KCopy _ _ wc _ _ :: _ | KOut _ _ wc _ :: _ | KState _ _ wc _ :: _ | KReady _ _ wc _ :: _ => wc
  | _ :: KSpin _ _ wc :: _ => wc
  | _ => 0
  end.

(* a node that is in nobody's [fnode] and not in the list: carried in a frame *)
Definition held (sg : stack bc) : nat :=
  match sg with
  | WNext _ nd :: _ | WXchg _ nd :: _ => nd
  | KData _ _ _ h _ :: _ | KCopy _ _ _ h _ :: _ | KOut _ _ _ h :: _ => h
  | _ => O
  end.

Definition linking (sg : stack bc) : Prop :=
  match sg with WLink _ _ _ :: _ => True | _ => False end.

(* the list from node a on: every entry is linked to its predecessor or its
   pusher is about to link it *)
Fixpoint linked (m : kmem) (sf : nat -> stack bc) (a : nat) (ch : list (nat * nat)) : Prop :=
  match ch with
  | [] => nnext m a = O
  | (b, u) :: rest =>
      ((nnext m a = b /\ ~ linking (sf u)) \/ (nnext m a = O /\ exists r, sf u = WLink 0 a b :: r))
      /\ linked m sf b rest
  end.
Fixpoint lastn (a : nat) (ch : list (nat * nat)) : nat :=
  match ch with [] => a | (b, _) :: rest => lastn b rest end.

Definition nodes (x : ist) : list nat := qhead (mem (base x)) 0%nat :: map fst (chain x).

(* ---- per-fiber clauses ---- *)
Definition Qp (x : ist) (u : nat) : Prop := In u (pw x).
Definition Cp (x : ist) (u : nat) : Prop := In u (map snd (chain x)).
Definition Fp (x : ist) (u : nat) : Prop := infl x = Some u.
Definition quiet (m : kmem) (u : nat) : Prop := pend m u = O /\ blocked m u = false.

Definition unq (x : ist) (u : nat) : Prop :=
  Qp x u /\ ~ Cp x u /\ ~ Fp x u /\ quiet (mem (base x)) u.
Definition presleep (x : ist) (u : nat) : Prop :=
  let m := mem (base x) in
  fstate m u = ST_SAVING /\ blocked m u = false /\
  ((Qp x u /\ (Cp x u \/ Fp x u) /\ pend m u = O) \/ (~ Qp x u /\ pend m u = 1%nat /\ fnode m u <> O)).
Definition postres (x : ist) (u : nat) : Prop :=
  let m := mem (base x) in
  fstate m u = ST_RUNNING /\ ~ Qp x u /\ quiet m u /\ fnode m u <> O.
Definition asleep_ok (x : ist) (u : nat) : Prop :=
  let m := mem (base x) in
  (Qp x u /\ (Cp x u \/ Fp x u) /\ pend m u = O /\ blocked m u = true /\ fstate m u = ST_WAITING)
  \/ (~ Qp x u /\ pend m u = O /\ blocked m u = false /\ fnode m u <> O /\
      (fstate m u = ST_WAITING \/ fstate m u = ST_READY)).
Definition serl (x : ist) (u : nat) : Prop :=
  let m := mem (base x) in
  ~ Qp x u /\ quiet m u /\ fnode m u <> O /\ fstate m u = ST_RUNNING.

Section Inv.
Variable count : Z.

Inductive lok (x : ist) (u : nat) : stack bc -> Prop :=
| lk_done : lok x u []
| lk_start n : quiet (mem (base x)) u -> fnode (mem (base x)) u <> O -> lok x u [Start; FC (BNext n 1)]
| lk_fadd n k : quiet (mem (base x)) u -> fnode (mem (base x)) u <> O -> fstate (mem (base x)) u = ST_RUNNING ->
               lok x u [WFAdd 0 1 5; FC (BArrived n k)]
| lk_wsaving n k : unq x u -> fnode (mem (base x)) u <> O -> lok x u [WSaving 0; FC (BRet n k 0)]
| lk_wdata n k : unq x u -> fnode (mem (base x)) u <> O -> fstate (mem (base x)) u = ST_SAVING ->
                 lok x u [WData 0; FC (BRet n k 0)]
| lk_wnext nd n k : unq x u -> fnode (mem (base x)) u = O -> nd <> O -> ndata (mem (base x)) nd = fname u ->
                    fstate (mem (base x)) u = ST_SAVING -> lok x u [WNext 0 nd; FC (BRet n k 0)]
| lk_wxchg nd n k : unq x u -> fnode (mem (base x)) u = O -> nd <> O -> ndata (mem (base x)) nd = fname u ->
                    fstate (mem (base x)) u = ST_SAVING -> nnext (mem (base x)) nd = O ->
                    lok x u [WXchg 0 nd; FC (BRet n k 0)]
| lk_wlink p nd n k : Qp x u -> In (nd, u) (chain x) -> ~ Fp x u -> quiet (mem (base x)) u ->
                      fstate (mem (base x)) u = ST_SAVING -> lok x u [WLink 0 p nd; FC (BRet n k 0)]
| lk_yread n k : presleep x u \/ postres x u -> lok x u [YRead; FC (BRet n k 0)]
| lk_ynext st n k : (st = ST_SAVING /\ presleep x u) \/ (st = ST_RUNNING /\ postres x u) ->
                    lok x u [YNext st; FC (BRet n k 0)]
| lk_swread n k : presleep x u -> lok x u [SwRead; YLoop; FC (BRet n k 0)]
| lk_swdone n k : presleep x u -> lok x u [SwDone; YLoop; FC (BRet n k 0)]
| lk_mread n k : presleep x u -> lok x u [MRead; YLoop; FC (BRet n k 0)]
| lk_mflip n k : presleep x u -> lok x u [MFlip; YLoop; FC (BRet n k 0)]
| lk_asleep n k : asleep_ok x u -> lok x u [Asleep; YLoop; FC (BRet n k 0)]
| lk_resume n k : ~ Qp x u -> quiet (mem (base x)) u -> fnode (mem (base x)) u <> O ->
                  lok x u [Resume; YLoop; FC (BRet n k 0)]
| lk_khead wc n k : serl x u -> infl x = None -> lok x u [KHead 0 (count - 1) wc; FC (BRet n k 1)]
| lk_knext wc h n k : serl x u -> infl x = None -> h = qhead (mem (base x)) 0%nat ->
                      lok x u [KNext 0 (count - 1) wc h; FC (BRet n k 1)]
| lk_ksethead wc h nx n k : serl x u -> infl x = None -> h = qhead (mem (base x)) 0%nat -> nx <> O ->
                            nnext (mem (base x)) h = nx ->
                            lok x u [KSetHead 0 (count - 1) wc h nx; FC (BRet n k 1)]
| lk_kdata wc h nx n k f : serl x u -> h <> O -> qhead (mem (base x)) 0%nat = nx -> infl x = Some f ->
                           ndata (mem (base x)) nx = fname f ->
                           lok x u [KData 0 (count - 1) wc h nx; FC (BRet n k 1)]
| lk_kcopy wc h d n k f : serl x u -> h <> O -> infl x = Some f -> d = fname f ->
                          lok x u [KCopy 0 (count - 1) wc h d; FC (BRet n k 1)]
| lk_kout wc h n k f : serl x u -> h <> O -> infl x = Some f -> ndata (mem (base x)) h = fname f ->
                       lok x u [KOut 0 (count - 1) wc h; FC (BRet n k 1)]
| lk_kstate wc f n k : serl x u -> infl x = Some f -> fnode (mem (base x)) f <> O ->
                       lok x u [KState 0 (count - 1) wc f; FC (BRet n k 1)]
| lk_kready wc f n k : serl x u -> infl x = Some f -> fnode (mem (base x)) f <> O ->
                       fstate (mem (base x)) f = ST_WAITING ->
                       lok x u [KReady 0 (count - 1) wc f; FC (BRet n k 1)]
| lk_kyread wc n k : serl x u -> infl x = None -> lok x u [YRead; KSpin 0 (count - 1) wc; FC (BRet n k 1)]
| lk_kynext wc n k : serl x u -> infl x = None ->
                     lok x u [YNext ST_RUNNING; KSpin 0 (count - 1) wc; FC (BRet n k 1)].

Definition noser (x : ist) : Prop := forall S, ~ is_ser (stk (base x) S).

(* generations *)
Record GA (x : ist) : Prop := {
  g_nthr : nthr (base x) = Z.to_nat count;
  g_word : 0 <= word (mem (base x)) 0%nat;
  g_ser1 : forall S S', is_ser (stk (base x) S) -> is_ser (stk (base x) S') -> S = S';
  g_serw : forall S, is_ser (stk (base x) S) ->
           (S < nthr (base x))%nat /\
           word (mem (base x)) 0%nat = Z.of_nat (rnd (stk (base x) S)) * count /\
           Z.of_nat (length (pw x)) = count - 1 - wcof (stk (base x) S) /\
           0 <= wcof (stk (base x) S) /\ (wcof (stk (base x) S) < count - 1 \/ count = 1);
  g_noser : noser x -> Z.of_nat (length (pw x)) = word (mem (base x)) 0%nat mod count;
  g_pw_nodup : NoDup (pw x);
  g_pw : forall u, In u (pw x) ->
         (u < nthr (base x))%nat /\ is_wait (stk (base x) u) /\
         (forall S, is_ser (stk (base x) S) -> rnd (stk (base x) u) = rnd (stk (base x) S)) /\
         (noser x -> Z.of_nat (rnd (stk (base x) u)) = word (mem (base x)) 0%nat / count + 1);
  g_pre : forall u k, (u < nthr (base x))%nat -> pre_round (stk (base x) u) = Some k ->
          noser x /\ Z.of_nat k = word (mem (base x)) 0%nat / count + 1;
  g_woken : forall u, is_wait (stk (base x) u) -> ~ In u (pw x) ->
            (forall S, is_ser (stk (base x) S) -> rnd (stk (base x) u) = rnd (stk (base x) S)) /\
            (noser x -> Z.of_nat (rnd (stk (base x) u)) = word (mem (base x)) 0%nat / count);
  g_rets : forall t k r, In (t, k, r) (rets x) -> Z.of_nat k * count <= word (mem (base x)) 0%nat;
  g_arr : forall i t k v, nth_error (arr x) i = Some (t, k, v) -> Z.of_nat k = Z.of_nat i / count + 1
}.

(* the waiter list *)
Record GL (x : ist) : Prop := {
  g_nodes_nodup : NoDup (nodes x);
  g_nodes_nz : forall nd, In nd (nodes x) -> nd <> O;
  g_tail : qtail (mem (base x)) 0%nat = lastn (qhead (mem (base x)) 0%nat) (chain x);
  g_linked : linked (mem (base x)) (stk (base x)) (qhead (mem (base x)) 0%nat) (chain x);
  g_chain : forall nd u, In (nd, u) (chain x) -> ndata (mem (base x)) nd = fname u /\ In u (pw x);
  g_chain_nodup : NoDup (map snd (chain x));
  g_infl : forall f, infl x = Some f -> In f (pw x) /\ ~ In f (map snd (chain x))
}.

(* node ownership *)
Record GN (x : ist) : Prop := {
  g_fnode_inj : forall u u', fnode (mem (base x)) u <> O ->
                fnode (mem (base x)) u = fnode (mem (base x)) u' -> u = u';
  g_held_inj : forall u u', held (stk (base x) u) <> O ->
               held (stk (base x) u) = held (stk (base x) u') -> u = u';
  g_fnode_held : forall u u', fnode (mem (base x)) u <> O -> fnode (mem (base x)) u <> held (stk (base x) u');
  g_fnode_nodes : forall u, fnode (mem (base x)) u <> O -> ~ In (fnode (mem (base x)) u) (nodes x);
  g_held_nodes : forall u, held (stk (base x) u) <> O -> ~ In (held (stk (base x) u)) (nodes x)
}.

Record GM (x : ist) : Prop := {
  g_cnt : cnt (base x) = count;
  g_slots : slots_none (mem (base x));
  g_sched : forall u, slot_sched (mem (base x)) u = false;
  g_local : forall u, lok x u (stk (base x) u)
}.

Record G (x : ist) : Prop := { g_a : GA x; g_l : GL x; g_n : GN x; g_m : GM x }.
End Inv.
(* ---- frame lemmas: what a clause depends on ---- *)
Record same_at (m m' : kmem) (u : nat) : Prop := {
  sa_fstate : fstate m' u = fstate m u;
  sa_pend : pend m' u = pend m u;
  sa_blocked : blocked m' u = blocked m u;
  sa_fnode : fnode m' u = fnode m u
}.

Record same_ghost (x x' : ist) (u : nat) : Prop := {
  sg_q : Qp x' u <-> Qp x u;
  sg_c : Cp x' u <-> Cp x u;
  sg_f : Fp x' u <-> Fp x u;
  sg_in : forall nd, In (nd, u) (chain x') <-> In (nd, u) (chain x)
}.

Lemma quiet_frame m m' u : same_at m m' u -> quiet m u -> quiet m' u.
Proof. intros [A B C D] [P Q]. split; congruence. Qed.

Lemma unq_frame x x' u : same_at (mem (base x)) (mem (base x')) u -> same_ghost x x' u -> unq x u -> unq x' u.
Proof.
  intros S [Gq Gc Gf _] (A & B & C & D). split; [tauto|]. split; [tauto|]. split; [tauto|].
  eapply quiet_frame; eauto.
Qed.

Lemma presleep_frame x x' u :
  same_at (mem (base x)) (mem (base x')) u -> same_ghost x x' u -> presleep x u -> presleep x' u.
Proof.
  intros [A B C D] [Gq Gc Gf _]. unfold presleep. rewrite A, B, C, D. tauto.
Qed.

Lemma postres_frame x x' u :
  same_at (mem (base x)) (mem (base x')) u -> same_ghost x x' u -> postres x u -> postres x' u.
Proof.
  intros S [Gq Gc Gf _]. unfold postres. intros (A & B & C & D). destruct S as [S1 S2 S3 S4].
  split; [congruence|]. split; [tauto|]. split; [destruct C; split; congruence|congruence].
Qed.

Lemma asleep_frame x x' u :
  same_at (mem (base x)) (mem (base x')) u -> same_ghost x x' u -> asleep_ok x u -> asleep_ok x' u.
Proof.
  intros [A B C D] [Gq Gc Gf _]. unfold asleep_ok. rewrite A, B, C, D. tauto.
Qed.

Lemma serl_frame x x' u :
  same_at (mem (base x)) (mem (base x')) u -> same_ghost x x' u -> serl x u -> serl x' u.
Proof.
  intros S [Gq Gc Gf _]. unfold serl. intros (A & B & C & D). destruct S as [S1 S2 S3 S4].
  split; [tauto|]. split; [destruct B; split; congruence|]. split; congruence.
Qed.

Lemma lok_frame count x x' u sg :
  same_at (mem (base x)) (mem (base x')) u -> same_ghost x x' u ->
  (is_ser sg -> infl x' = infl x /\ qhead (mem (base x')) 0%nat = qhead (mem (base x)) 0%nat /\
                (forall f, infl x = Some f -> fnode (mem (base x')) f = fnode (mem (base x)) f /\
                     (fstate (mem (base x)) f = ST_WAITING -> fstate (mem (base x')) f = ST_WAITING)) /\
                ndata (mem (base x')) (qhead (mem (base x)) 0%nat) = ndata (mem (base x)) (qhead (mem (base x)) 0%nat) /\
                (nnext (mem (base x)) (qhead (mem (base x)) 0%nat) <> O ->
                 nnext (mem (base x')) (qhead (mem (base x)) 0%nat) = nnext (mem (base x)) (qhead (mem (base x)) 0%nat))) ->
  (held sg <> O -> ndata (mem (base x')) (held sg) = ndata (mem (base x)) (held sg) /\
                   nnext (mem (base x')) (held sg) = nnext (mem (base x)) (held sg)) ->
  lok count x u sg -> lok count x' u sg.
Proof.
  intros S Gh Hs Hh L.
  pose proof (quiet_frame _ _ _ S) as Fq. pose proof (unq_frame _ _ _ S Gh) as Fu.
  pose proof (presleep_frame _ _ _ S Gh) as Fp'. pose proof (postres_frame _ _ _ S Gh) as Fr.
  pose proof (asleep_frame _ _ _ S Gh) as Fa. pose proof (serl_frame _ _ _ S Gh) as Fs.
  destruct S as [S1 S2 S3 S4]. destruct Gh as [Gq Gc Gf Gi].
  destruct L; try solve [constructor; auto; try congruence; tauto].
  all: cbn [held] in Hh.
  all: try (destruct Hs as (A & B & C & D & E); [do 2 eexists; reflexivity|]).
  all: try solve [econstructor; eauto; try congruence; try tauto].
  - destruct (Hh H1) as [A B]. constructor; auto; congruence.
  - destruct (Hh H1) as [A B]. constructor; auto; congruence.
  - constructor; auto; try congruence; try tauto. apply Gi. assumption.
  - subst h. constructor; auto; try congruence. rewrite E; [assumption|]. congruence.
  - subst nx. apply (lk_kdata count x' u wc h _ n k f); auto; congruence.
  - destruct (Hh H0) as [Hd _]. apply (lk_kout count x' u wc h n k f); auto; congruence.
  - destruct (C _ H0) as [C1 C2]. constructor; auto; congruence.
  - destruct (C _ H0) as [C1 C2]. constructor; auto; congruence.
Qed.

Definition same_obs (sg sg' : stack bc) : Prop :=
  (is_ser sg' <-> is_ser sg) /\ (is_wait sg' <-> is_wait sg) /\
  (is_ser sg \/ is_wait sg -> rnd sg' = rnd sg /\ wcof sg' = wcof sg) /\
  (forall k, pre_round sg' = Some k -> pre_round sg = Some k).

Lemma same_obs_refl sg : same_obs sg sg.
Proof. repeat split; auto. Qed.

Lemma GA_frame count x x' :
  nthr (base x') = nthr (base x) -> word (mem (base x')) 0%nat = word (mem (base x)) 0%nat ->
  pw x' = pw x -> rets x' = rets x -> arr x' = arr x ->
  (forall u, same_obs (stk (base x) u) (stk (base x') u)) ->
  GA count x -> GA count x'.
Proof.
  intros En Ew Ep Er Ea Ho A.
  assert (Hs : forall u, is_ser (stk (base x') u) <-> is_ser (stk (base x) u)) by (intros u; apply Ho).
  assert (Hw : forall u, is_wait (stk (base x') u) <-> is_wait (stk (base x) u)) by (intros u; apply Ho).
  assert (Hn : noser x' <-> noser x).
  { unfold noser. split; intros H S; specialize (H S); rewrite Hs in *; exact H. }
  destruct A as [A1 A2 A3 A4 A5 A6 A7 A8 A9 A10 A11].
  constructor; rewrite ?En, ?Ew, ?Ep, ?Er, ?Ea; auto.
  - intros S S'. rewrite !Hs. apply A3.
  - intros S HS. rewrite Hs in HS. destruct (Ho S) as (_ & _ & Hr & _).
    destruct (Hr (or_introl HS)) as [-> ->]. apply A4. exact HS.
  - rewrite Hn. exact A5.
  - intros u Hu. rewrite Hw, Hn. destruct (A7 u Hu) as (B1 & B2 & B3 & B4).
    destruct (Ho u) as (_ & _ & Hr & _). destruct (Hr (or_intror B2)) as [-> _].
    split; [exact B1|]. split; [exact B2|]. split; [|exact B4].
    intros S HS. rewrite Hs in HS. destruct (Ho S) as (_ & _ & Hr' & _).
    destruct (Hr' (or_introl HS)) as [-> _]. apply B3. exact HS.
  - intros u k Hu Hp. rewrite Hn. apply (A8 u k Hu). apply Ho. exact Hp.
  - intros u. rewrite Hw, Hn. intros H1 H2. destruct (A9 u H1 H2) as [B1 B2].
    destruct (Ho u) as (_ & _ & Hr & _). destruct (Hr (or_intror H1)) as [-> _].
    split; [|exact B2]. intros S HS. rewrite Hs in HS. destruct (Ho S) as (_ & _ & Hr' & _).
    destruct (Hr' (or_introl HS)) as [-> _]. apply B1. exact HS.
Qed.

Lemma linked_frame m m' (sf sf' : nat -> stack bc) ch : forall a,
  (forall nd, In nd (a :: map fst ch) -> nnext m' nd = nnext m nd) ->
  (forall u, In u (map snd ch) -> (linking (sf' u) <-> linking (sf u)) /\ (linking (sf u) -> sf' u = sf u)) ->
  linked m sf a ch -> linked m' sf' a ch.
Proof.
  induction ch as [|[b u] rest IH]; intros a Hn Hs L; cbn in *.
  - rewrite Hn by auto. exact L.
  - destruct L as [L1 L2]. destruct (Hs u (or_introl eq_refl)) as [S1 S2]. split.
    + rewrite Hn by auto. destruct L1 as [[A B]|[A [r B]]]; [left; tauto|right].
      split; [exact A|]. exists r. rewrite S2; [exact B|]. rewrite B. exact I.
    + apply IH; auto.
Qed.

Lemma linked_last m sf ch : forall a, linked m sf a ch -> nnext m (lastn a ch) = O.
Proof. induction ch as [|[b u] rest IH]; intros a L; cbn in *; [exact L|]. apply IH. apply L. Qed.

Lemma lastn_in a ch : In (lastn a ch) (a :: map fst ch).
Proof.
  revert a. induction ch as [|[b u] rest IH]; intros a; cbn; [auto|].
  right. apply (IH b).
Qed.

Lemma GL_frame x x' :
  qhead (mem (base x')) 0%nat = qhead (mem (base x)) 0%nat ->
  qtail (mem (base x')) 0%nat = qtail (mem (base x)) 0%nat ->
  (forall nd, In nd (nodes x) -> nnext (mem (base x')) nd = nnext (mem (base x)) nd) ->
  (forall nd, In nd (map fst (chain x)) -> ndata (mem (base x')) nd = ndata (mem (base x)) nd) ->
  chain x' = chain x -> (forall u, In u (pw x) -> In u (pw x')) -> infl x' = infl x ->
  (forall u, In u (map snd (chain x)) ->
     (linking (stk (base x') u) <-> linking (stk (base x) u)) /\
     (linking (stk (base x) u) -> stk (base x') u = stk (base x) u)) ->
  GL x -> GL x'.
Proof.
  intros Eh Et En Ed Ec Ep Ei Hs [L1 L2 L3 L4 L5 L6 L7].
  assert (Eno : nodes x' = nodes x) by (unfold nodes; rewrite Eh, Ec; reflexivity).
  constructor; rewrite ?Eno, ?Eh, ?Et, ?Ec, ?Ei; auto.
  - eapply linked_frame; [| |exact L4]; auto.
  - intros nd u H. destruct (L5 _ _ H) as [A B]. split; [|auto].
    rewrite Ed; [exact A|]. apply in_map_iff. exists (nd, u). auto.
  - intros f Hf. destruct (L7 _ Hf). auto.
Qed.

Lemma GN_frame x x' :
  (forall u, fnode (mem (base x')) u = fnode (mem (base x)) u) ->
  (forall u, held (stk (base x') u) = held (stk (base x) u)) ->
  nodes x' = nodes x ->
  GN x -> GN x'.
Proof.
  intros Ef Eh En [N1 N2 N3 N4 N5].
  constructor; intros *; rewrite ?Ef, ?Eh, ?En; auto.
Qed.

(* ---- steps that only touch the stepping fiber's own state/pend/blocked ---- *)
Record priv (m m' : kmem) (t : nat) : Prop := {
  pv_ndata : ndata m' = ndata m;
  pv_nnext : nnext m' = nnext m;
  pv_word : word m' = word m;
  pv_qhead : qhead m' = qhead m;
  pv_qtail : qtail m' = qtail m;
  pv_fnode : fnode m' = fnode m;
  pv_smutex : slot_mutex m' = slot_mutex m;
  pv_swait : slot_wait m' = slot_wait m;
  pv_smpmc : slot_mpmc m' = slot_mpmc m;
  pv_ssched : slot_sched m' = slot_sched m;
  pv_fstate : forall u, u <> t -> fstate m' u = fstate m u;
  pv_pend : forall u, u <> t -> pend m' u = pend m u;
  pv_blocked : forall u, u <> t -> blocked m' u = blocked m u
}.

Definition ghost_neutral (sg : stack bc) : Prop :=
  match sg with
  | WXchg _ _ :: _ | KSetHead _ _ _ _ _ :: _ | KState _ _ _ _ :: _ | KReady _ _ _ _ :: _ | WFAdd _ _ _ :: _ => False
  | _ => True
  end.

Lemma ghost_neutral_eq x t : ghost_neutral (stk (base x) t) ->
  chain (lstep x t) = chain x /\ infl (lstep x t) = infl x /\ pw (lstep x t) = pw x.
Proof.
  intros H. rewrite lstep_chain, lstep_infl, lstep_pw.
  destruct (stk (base x) t) as [|[] ?]; try contradiction; auto.
Qed.

Lemma bot_same_logs x t :
  bot (stk (base (lstep x t)) t) = bot (stk (base x) t) \/ (exists n k, bot (stk (base x) t) = Some (BNext n k)) ->
  rets (lstep x t) = rets x /\ arr (lstep x t) = arr x.
Proof.
  intros H. rewrite lstep_rets, lstep_arr. rewrite <- lstep_erase. destruct H as [H|(n & k & H)].
  - rewrite H. destruct (bot (stk (base x) t)) as [[]|]; auto.
  - rewrite H. auto.
Qed.

Lemma same_ghost_refl x x' u : pw x' = pw x -> chain x' = chain x -> infl x' = infl x -> same_ghost x x' u.
Proof. intros A B C. constructor; unfold Qp, Cp, Fp; rewrite ?A, ?B, ?C; tauto. Qed.

Lemma private_step count x t m1 e1 s1 :
  G count x ->
  kstep bc (cret count) (mem (base x)) t (stk (base x) t) = (m1, e1, s1) ->
  priv (mem (base x)) m1 t ->
  same_obs (stk (base x) t) s1 -> held s1 = held (stk (base x) t) ->
  ~ linking (stk (base x) t) -> ~ linking s1 ->
  (chain (lstep x t) = chain x /\ infl (lstep x t) = infl x /\ pw (lstep x t) = pw x) ->
  (bot s1 = bot (stk (base x) t) \/ exists n k, bot (stk (base x) t) = Some (BNext n k)) ->
  (infl x = Some t -> fstate (mem (base x)) t = ST_WAITING -> fstate m1 t = ST_WAITING) ->
  (mem (base (lstep x t)) = m1 -> pw (lstep x t) = pw x -> chain (lstep x t) = chain x ->
   infl (lstep x t) = infl x -> lok count (lstep x t) t s1) ->
  G count (lstep x t).
Proof.
  intros [A L N M] K P So Hh Nl Nl' Gn Hb Hw Hl.
  pose proof (g_cnt _ _ M) as Ec.
  assert (K' : kstep bc (cret (cnt (base x))) (mem (base x)) t (stk (base x) t) = (m1, e1, s1)) by (rewrite Ec; exact K).
  destruct (lstep_view x t m1 e1 s1 K') as (Em & Es & Eo & Ecn & Enn).
  destruct Gn as (Gc & Gi & Gp).
  assert (Eb : bot (stk (base (lstep x t)) t) = bot (stk (base x) t) \/ exists n k, bot (stk (base x) t) = Some (BNext n k))
    by (rewrite Es; exact Hb).
  destruct (bot_same_logs x t Eb) as [Gr Ga].
  destruct P as [P1 P2 P3 P4 P5 P6 P7 P8 P9 P10 P11 P12 P13].
  assert (Eno : nodes (lstep x t) = nodes x) by (unfold nodes; rewrite Em, P4, Gc; reflexivity).
  constructor.
  - apply (GA_frame count x); auto; try (rewrite Em, P3; reflexivity).
    intros u. destruct (Nat.eq_dec u t) as [->|Ne]; [rewrite Es; exact So|].
    rewrite Eo by exact Ne. apply same_obs_refl.
  - apply (GL_frame x); auto; try (rewrite Em, ?P1, ?P2, ?P4, ?P5; reflexivity).
    + rewrite Gp. auto.
    + intros u _. destruct (Nat.eq_dec u t) as [->|Ne]; [rewrite Es; tauto|].
    rewrite Eo by exact Ne. tauto.
  - apply (GN_frame x); auto; try (intros; rewrite Em, P6; reflexivity).
    intros u. destruct (Nat.eq_dec u t) as [->|Ne]; [rewrite Es; exact Hh|]. rewrite Eo by exact Ne. reflexivity.
  - destruct M as [M1 M2 M3 M4]. constructor.
    + rewrite Ecn. exact M1.
    + rewrite Em. eapply slots_none_same; eauto.
    + intros u. rewrite Em, P10. apply M3.
    + intros u. destruct (Nat.eq_dec u t) as [->|Ne]; [rewrite Es; apply Hl; assumption|].
      rewrite Eo by exact Ne. apply (lok_frame count x); [| | | |apply M4].
      * rewrite Em. constructor; [apply P11|apply P12|apply P13|rewrite P6]; auto.
      * apply same_ghost_refl; assumption.
      * intros _. rewrite Em, P4, P1, P2, P6. repeat split; auto.
        intros Hf. destruct (Nat.eq_dec f t) as [->|Nf]; [apply Hw; assumption|].
        rewrite P11 by exact Nf. exact Hf.
      * intros _. rewrite Em, P1, P2. auto.
Qed.
Ltac priv_tac := constructor; try reflexivity; intros; cbn; try apply upd_other; auto.
Ltac obs := unfold same_obs, is_ser, is_wait, rnd; cbn; repeat split; intros;
  repeat match goal with
         | H : exists _, _ |- _ => destruct H
         | H : _ \/ _ |- _ => destruct H
         end; try discriminate; auto; try tauto; try (do 2 eexists; reflexivity).

Section Steps.
Variable count : Z.
Hypothesis Hcount : 1 <= count.

Lemma ghost_unq x x' t :
  pw x' = pw x -> chain x' = chain x -> infl x' = infl x ->
  pend (mem (base x')) t = pend (mem (base x)) t -> blocked (mem (base x')) t = blocked (mem (base x)) t ->
  unq x t -> unq x' t.
Proof.
  intros A B C D E (U1 & U2 & U3 & U4 & U5). unfold unq, Qp, Cp, Fp, quiet in *.
  rewrite A, B, C, D, E. tauto.
Qed.

Lemma step_wsaving x t n k :
  G count x -> stk (base x) t = [WSaving 0; FC (BRet n k 0)] -> G count (lstep x t).
Proof.
  intros Gx E. pose proof (g_local _ _ (g_m _ _ Gx) t) as L. rewrite E in L. inversion L; subst.
  match goal with H : unq _ _ |- _ => pose proof H as (Uq & Uc & Uf & Uqt) end.
  eapply (private_step count x t); [exact Gx|rewrite E; cbn [kstep]; reflexivity|..]; rewrite ?E.
  - priv_tac.
  - obs.
  - reflexivity.
  - cbn. tauto.
  - cbn. tauto.
  - apply ghost_neutral_eq; rewrite E; exact I.
  - left; reflexivity.
  - intros Hi. exfalso. exact (Uf Hi).
  - intros Em Ep Ech Ei. constructor.
    + eapply ghost_unq; eauto; rewrite Em; reflexivity.
    + rewrite Em. assumption.
    + rewrite Em. cbn. apply upd_same.
Qed.

Ltac inv_local Gx t E L :=
  pose proof (g_local _ _ (g_m _ _ Gx) t) as L; rewrite E in L; inversion L; subst; clear L.

Lemma ghost_presleep x x' t :
  pw x' = pw x -> chain x' = chain x -> infl x' = infl x -> mem (base x') = mem (base x) ->
  presleep x t -> presleep x' t.
Proof. intros A B C D. apply presleep_frame; [rewrite D; constructor; reflexivity|apply same_ghost_refl; auto]. Qed.
Lemma ghost_postres x x' t :
  pw x' = pw x -> chain x' = chain x -> infl x' = infl x -> mem (base x') = mem (base x) ->
  postres x t -> postres x' t.
Proof. intros A B C D. apply postres_frame; [rewrite D; constructor; reflexivity|apply same_ghost_refl; auto]. Qed.
Lemma ghost_serl x x' t :
  pw x' = pw x -> chain x' = chain x -> infl x' = infl x -> mem (base x') = mem (base x) ->
  serl x t -> serl x' t.
Proof. intros A B C D. apply serl_frame; [rewrite D; constructor; reflexivity|apply same_ghost_refl; auto]. Qed.

Lemma priv_refl m t : priv m m t.
Proof. constructor; auto. Qed.

Lemma step_wyread x t n k :
  G count x -> stk (base x) t = [YRead; FC (BRet n k 0)] -> G count (lstep x t).
Proof.
  intros Gx E. inv_local Gx t E L.
  eapply (private_step count x t); [exact Gx|rewrite E; cbn [kstep]; reflexivity|..]; rewrite ?E.
  - apply priv_refl.
  - obs.
  - reflexivity.
  - cbn; tauto.
  - cbn; tauto.
  - apply ghost_neutral_eq; rewrite E; exact I.
  - left; reflexivity.
  - auto.
  - intros Em Ep Ech Ei. constructor.
    match goal with H : _ \/ _ |- _ => destruct H as [P|P] end.
    + left. split; [apply P|]. eapply ghost_presleep; eauto.
    + right. split; [apply P|]. eapply ghost_postres; eauto.
Qed.

Lemma step_wynext_switch x t n k :
  G count x -> stk (base x) t = [YNext ST_SAVING; FC (BRet n k 0)] -> G count (lstep x t).
Proof.
  intros Gx E. inv_local Gx t E L.
  match goal with H : _ \/ _ |- _ => destruct H as [[_ P]|[P _]]; [|discriminate] end.
  eapply (private_step count x t); [exact Gx|rewrite E; cbn [kstep]; reflexivity|..]; rewrite ?E.
  - apply priv_refl.
  - obs.
  - reflexivity.
  - cbn; tauto.
  - cbn; tauto.
  - apply ghost_neutral_eq; rewrite E; exact I.
  - left; reflexivity.
  - auto.
  - intros Em Ep Ech Ei. constructor. eapply ghost_presleep; eauto.
Qed.

Lemma step_wswread x t n k :
  G count x -> stk (base x) t = [SwRead; YLoop; FC (BRet n k 0)] -> G count (lstep x t).
Proof.
  intros Gx E. inv_local Gx t E L.
  match goal with H : presleep _ _ |- _ => pose proof H as (Ps & _) end.
  eapply (private_step count x t); [exact Gx|rewrite E; cbn [kstep]; rewrite Ps; reflexivity|..]; rewrite ?E.
  - apply priv_refl.
  - obs.
  - reflexivity.
  - cbn; tauto.
  - cbn; tauto.
  - apply ghost_neutral_eq; rewrite E; exact I.
  - left; reflexivity.
  - auto.
  - intros Em Ep Ech Ei. constructor. eapply ghost_presleep; eauto.
Qed.

Lemma step_wswdone x t n k :
  G count x -> stk (base x) t = [SwDone; YLoop; FC (BRet n k 0)] -> G count (lstep x t).
Proof.
  intros Gx E. inv_local Gx t E L.
  eapply (private_step count x t); [exact Gx|rewrite E; cbn [kstep]; reflexivity|..]; rewrite ?E.
  - apply priv_refl.
  - obs.
  - reflexivity.
  - cbn; tauto.
  - cbn; tauto.
  - apply ghost_neutral_eq; rewrite E; exact I.
  - left; reflexivity.
  - auto.
  - intros Em Ep Ech Ei. constructor. eapply ghost_presleep; eauto.
Qed.

Lemma step_wmread x t n k :
  G count x -> stk (base x) t = [MRead; YLoop; FC (BRet n k 0)] -> G count (lstep x t).
Proof.
  intros Gx E. inv_local Gx t E L.
  match goal with H : presleep _ _ |- _ => pose proof H as (Ps & _) end.
  eapply (private_step count x t); [exact Gx|rewrite E; cbn [kstep]; rewrite Ps; reflexivity|..]; rewrite ?E.
  - apply priv_refl.
  - obs.
  - reflexivity.
  - cbn; tauto.
  - cbn; tauto.
  - apply ghost_neutral_eq; rewrite E; exact I.
  - left; reflexivity.
  - auto.
  - intros Em Ep Ech Ei. constructor. eapply ghost_presleep; eauto.
Qed.

Lemma step_wmflip x t n k :
  G count x -> stk (base x) t = [MFlip; YLoop; FC (BRet n k 0)] -> G count (lstep x t).
Proof.
  intros Gx E. inv_local Gx t E L.
  match goal with H : presleep _ _ |- _ => pose proof H as (Ps & Pb & Pc) end.
  pose proof (g_sched _ _ (g_m _ _ Gx) t) as Hsc. destruct (g_slots _ _ (g_m _ _ Gx) t) as (S1 & S2 & S3).
  destruct Pc as [(Pq & Pcf & Pp)|(Pq & Pp & Pf)].
  - eapply (private_step count x t); [exact Gx|rewrite E; cbn [kstep]; rewrite run_slots_plain by (cbn; assumption);
      cbn [pend set_fstate]; rewrite Pp; reflexivity|..]; rewrite ?E.
    + priv_tac.
    + obs.
    + reflexivity.
    + cbn; tauto.
    + cbn; tauto.
    + apply ghost_neutral_eq; rewrite E; exact I.
    + left; reflexivity.
    + intros _ Hw. rewrite Ps in Hw. discriminate.
    + intros Em Ep Ech Ei. constructor. left. unfold Qp, Cp, Fp in *. rewrite Ep, Ech, Ei, Em. cbn.
      rewrite !upd_same. auto.
  - eapply (private_step count x t); [exact Gx|rewrite E; cbn [kstep]; rewrite run_slots_plain by (cbn; assumption);
      cbn [pend set_fstate]; rewrite Pp; reflexivity|..]; rewrite ?E.
    + priv_tac.
    + obs.
    + reflexivity.
    + cbn; tauto.
    + cbn; tauto.
    + apply ghost_neutral_eq; rewrite E; exact I.
    + left; reflexivity.
    + intros _ Hw. rewrite Ps in Hw. discriminate.
    + intros Em Ep Ech Ei. constructor; unfold Qp, quiet in *; rewrite ?Ep, ?Em; cbn; rewrite ?upd_same; auto.
Qed.

Lemma step_wasleep x t n k :
  G count x -> status_of (base x) t = SReady ->
  stk (base x) t = [Asleep; YLoop; FC (BRet n k 0)] -> G count (lstep x t).
Proof.
  intros Gx Hst E. inv_local Gx t E L.
  assert (Hb : blocked (mem (base x)) t = false).
  { unfold status_of in Hst. rewrite E in Hst. cbn [kstatus] in Hst.
    destruct (t <? nthr (base x))%nat; [|discriminate]. destruct (blocked (mem (base x)) t); [discriminate|reflexivity]. }
  match goal with H : asleep_ok _ _ |- _ => destruct H as [(_ & _ & _ & Hb' & _)|(Aq & Ap & Ab & Af & As)] end; [congruence|].
  eapply (private_step count x t); [exact Gx|rewrite E; cbn [kstep]; reflexivity|..]; rewrite ?E.
  - apply priv_refl.
  - obs.
  - reflexivity.
  - cbn; tauto.
  - cbn; tauto.
  - apply ghost_neutral_eq; rewrite E; exact I.
  - left; reflexivity.
  - auto.
  - intros Em Ep Ech Ei. constructor; unfold Qp, quiet in *; rewrite ?Ep, ?Em; auto.
Qed.

Lemma step_wresume x t n k :
  G count x -> stk (base x) t = [Resume; YLoop; FC (BRet n k 0)] -> G count (lstep x t).
Proof.
  intros Gx E. inv_local Gx t E L.
  match goal with H : quiet _ _ |- _ => pose proof H as [Hp Hb] end.
  eapply (private_step count x t); [exact Gx|rewrite E; cbn [kstep ret]; reflexivity|..]; rewrite ?E.
  - priv_tac.
  - obs.
  - reflexivity.
  - cbn; tauto.
  - cbn; tauto.
  - apply ghost_neutral_eq; rewrite E; exact I.
  - left; reflexivity.
  - intros Hi. exfalso. destruct (g_infl _ (g_l _ _ Gx) _ Hi) as [Hq _]. contradiction.
  - intros Em Ep Ech Ei. constructor. right. unfold postres, Qp, quiet in *. rewrite Ep, Em. cbn.
    rewrite !upd_same. auto.
Qed.

Ltac pfin := first [apply priv_refl | obs | reflexivity | (cbn; tauto) | exact I | (left; reflexivity) | auto].

Lemma step_khead x t wc n k :
  G count x -> stk (base x) t = [KHead 0 (count - 1) wc; FC (BRet n k 1)] -> G count (lstep x t).
Proof.
  intros Gx E. inv_local Gx t E L.
  eapply (private_step count x t); [exact Gx|rewrite E; cbn [kstep]; reflexivity|..]; rewrite ?E.
  - apply priv_refl.
  - obs.
  - reflexivity.
  - cbn; tauto.
  - cbn; tauto.
  - apply ghost_neutral_eq; rewrite E; exact I.
  - left; reflexivity.
  - auto.
  - intros Em Ep Ech Ei. constructor; [eapply ghost_serl; eauto|congruence|rewrite Em; reflexivity].
Qed.

(* KNext when the next pointer is not NULL *)
Lemma step_knext_some x t wc h n k nx :
  G count x -> stk (base x) t = [KNext 0 (count - 1) wc h; FC (BRet n k 1)] ->
  nnext (mem (base x)) h = S nx -> G count (lstep x t).
Proof.
  intros Gx E Hn. inv_local Gx t E L.
  eapply (private_step count x t); [exact Gx|rewrite E; cbn [kstep]; rewrite Hn; reflexivity|..]; rewrite ?E.
  - apply priv_refl.
  - obs.
  - reflexivity.
  - cbn; tauto.
  - cbn; tauto.
  - apply ghost_neutral_eq; rewrite E; exact I.
  - left; reflexivity.
  - auto.
  - intros Em Ep Ech Ei. constructor; [eapply ghost_serl; eauto|congruence|rewrite Em; reflexivity|discriminate|rewrite Em; exact Hn].
Qed.

(* KNext on an empty list with more waiters to collect: yield and retry *)
Lemma step_knext_spin x t wc h n k :
  G count x -> stk (base x) t = [KNext 0 (count - 1) wc h; FC (BRet n k 1)] ->
  nnext (mem (base x)) h = O -> (0 <? count - 1) = true -> G count (lstep x t).
Proof.
  intros Gx E Hn Hc. inv_local Gx t E L.
  eapply (private_step count x t); [exact Gx|rewrite E; cbn [kstep]; rewrite Hn, Hc; reflexivity|..]; rewrite ?E.
  - apply priv_refl.
  - obs.
  - reflexivity.
  - cbn; tauto.
  - cbn; tauto.
  - apply ghost_neutral_eq; rewrite E; exact I.
  - left; reflexivity.
  - auto.
  - intros Em Ep Ech Ei. constructor; [eapply ghost_serl; eauto|congruence].
Qed.

Lemma step_kdata x t wc h nx n k :
  G count x -> stk (base x) t = [KData 0 (count - 1) wc h nx; FC (BRet n k 1)] -> G count (lstep x t).
Proof.
  intros Gx E. inv_local Gx t E L.
  eapply (private_step count x t); [exact Gx|rewrite E; cbn [kstep]; reflexivity|..]; rewrite ?E.
  - apply priv_refl.
  - obs.
  - reflexivity.
  - cbn; tauto.
  - cbn; tauto.
  - apply ghost_neutral_eq; rewrite E; exact I.
  - left; reflexivity.
  - auto.
  - intros Em Ep Ech Ei. eapply lk_kcopy; [eapply ghost_serl; eauto|assumption|rewrite Ei; eassumption|assumption].
Qed.

Lemma step_kyread x t wc n k :
  G count x -> stk (base x) t = [YRead; KSpin 0 (count - 1) wc; FC (BRet n k 1)] -> G count (lstep x t).
Proof.
  intros Gx E. inv_local Gx t E L.
  match goal with H : serl _ _ |- _ => pose proof H as (_ & _ & _ & Hr) end.
  eapply (private_step count x t); [exact Gx|rewrite E; cbn [kstep]; rewrite Hr; reflexivity|..]; rewrite ?E.
  - apply priv_refl.
  - obs.
  - reflexivity.
  - cbn; tauto.
  - cbn; tauto.
  - apply ghost_neutral_eq; rewrite E; exact I.
  - left; reflexivity.
  - auto.
  - intros Em Ep Ech Ei. constructor; [eapply ghost_serl; eauto|congruence].
Qed.

(* the yield of a failed pop returns at once: retry *)
Lemma step_kynext_retry x t wc n k :
  G count x -> stk (base x) t = [YNext ST_RUNNING; KSpin 0 (count - 1) wc; FC (BRet n k 1)] ->
  (wc <? count - 1) = true -> G count (lstep x t).
Proof.
  intros Gx E Hc. inv_local Gx t E L.
  eapply (private_step count x t); [exact Gx|rewrite E; cbn [kstep]; cbn [Z.eqb orb ST_RUNNING ST_WAITING ST_DONE ST_SAVING Pos.eqb];
    rewrite ret_kspin, Hc; reflexivity|..]; rewrite ?E.
  - apply priv_refl.
  - obs.
  - reflexivity.
  - cbn; tauto.
  - cbn; tauto.
  - apply ghost_neutral_eq; rewrite E; exact I.
  - left; reflexivity.
  - auto.
  - intros Em Ep Ech Ei. constructor; [eapply ghost_serl; eauto|congruence].
Qed.

Lemma step_start x t n :
  G count x -> stk (base x) t = [Start; FC (BNext n 1)] -> G count (lstep x t).
Proof.
  intros Gx E. inv_local Gx t E L.
  eapply (private_step count x t); [exact Gx|rewrite E; cbn [kstep]; rewrite ret_bnext; reflexivity|..]; rewrite ?E.
  - priv_tac.
  - destruct n; obs.
  - destruct n; reflexivity.
  - cbn; tauto.
  - destruct n; cbn; tauto.
  - apply ghost_neutral_eq; rewrite E; exact I.
  - right. do 2 eexists. reflexivity.
  - intros Hi. exfalso. destruct (g_infl _ (g_l _ _ Gx) _ Hi) as [Hq _].
    destruct (g_pw _ _ (g_a _ _ Gx) _ Hq) as (_ & (n' & k' & Hw) & _). rewrite E in Hw. discriminate.
  - intros Em Ep Ech Ei. destruct n; cbn; constructor; unfold quiet in *; rewrite ?Em; cbn; rewrite ?upd_same; auto.
Qed.

Lemma step_kstate_waiting x t wc f n k :
  G count x -> stk (base x) t = [KState 0 (count - 1) wc f; FC (BRet n k 1)] ->
  fstate (mem (base x)) f = ST_WAITING -> G count (lstep x t).
Proof.
  intros Gx E Hf. inv_local Gx t E L.
  eapply (private_step count x t); [exact Gx|rewrite E; cbn [kstep]; rewrite Hf; reflexivity|..]; rewrite ?E.
  - apply priv_refl.
  - obs.
  - reflexivity.
  - cbn; tauto.
  - cbn; tauto.
  - rewrite lstep_chain, lstep_infl, lstep_pw, E, Hf. auto.
  - left; reflexivity.
  - auto.
  - intros Em Ep Ech Ei. constructor; [eapply ghost_serl; eauto|congruence|rewrite Em; assumption|rewrite Em; assumption].
Qed.

(* a write to the node the stepping fiber carries in its frame *)
Record wr (m m' : kmem) (w : nat) : Prop := {
  wr_fstate : fstate m' = fstate m; wr_word : word m' = word m;
  wr_qhead : qhead m' = qhead m; wr_qtail : qtail m' = qtail m; wr_fnode : fnode m' = fnode m;
  wr_blocked : blocked m' = blocked m; wr_pend : pend m' = pend m;
  wr_smutex : slot_mutex m' = slot_mutex m; wr_swait : slot_wait m' = slot_wait m;
  wr_smpmc : slot_mpmc m' = slot_mpmc m; wr_ssched : slot_sched m' = slot_sched m;
  wr_ndata : forall nd, nd <> w -> ndata m' nd = ndata m nd;
  wr_nnext : forall nd, nd <> w -> nnext m' nd = nnext m nd
}.

Lemma held_write_step x t m1 e1 s1 w :
  G count x ->
  kstep bc (cret count) (mem (base x)) t (stk (base x) t) = (m1, e1, s1) ->
  w = held (stk (base x) t) -> w <> O -> held s1 = w ->
  wr (mem (base x)) m1 w ->
  same_obs (stk (base x) t) s1 -> ~ linking (stk (base x) t) -> ~ linking s1 ->
  (chain (lstep x t) = chain x /\ infl (lstep x t) = infl x /\ pw (lstep x t) = pw x) ->
  bot s1 = bot (stk (base x) t) ->
  (mem (base (lstep x t)) = m1 -> pw (lstep x t) = pw x -> chain (lstep x t) = chain x ->
   infl (lstep x t) = infl x -> lok count (lstep x t) t s1) ->
  G count (lstep x t).
Proof.
  intros [A L N M] K Hw Hnz Hh W So Nl Nl' (Gc & Gi & Gp) Hb Hl.
  pose proof (g_cnt _ _ M) as Ec.
  assert (K' : kstep bc (cret (cnt (base x))) (mem (base x)) t (stk (base x) t) = (m1, e1, s1)) by (rewrite Ec; exact K).
  destruct (lstep_view x t m1 e1 s1 K') as (Em & Es & Eo & Ecn & Enn).
  assert (Eb : bot (stk (base (lstep x t)) t) = bot (stk (base x) t) \/ exists n k, bot (stk (base x) t) = Some (BNext n k))
    by (left; rewrite Es; exact Hb).
  destruct (bot_same_logs x t Eb) as [Gr Ga].
  destruct W as [W1 W2 W3 W4 W5 W6 W7 W8 W9 W10 W11 W12 W13].
  assert (Eno : nodes (lstep x t) = nodes x) by (unfold nodes; rewrite Em, W3, Gc; reflexivity).
  assert (Hwn : ~ In w (nodes x)) by (rewrite Hw; apply (g_held_nodes _ N); rewrite <- Hw; exact Hnz).
  assert (Hne : forall nd, In nd (nodes x) -> nd <> w) by (intros nd Hi ->; exact (Hwn Hi)).
  constructor.
  - apply (GA_frame count x); auto; try (rewrite Em, W2; reflexivity).
    intros u. destruct (Nat.eq_dec u t) as [->|Ne]; [rewrite Es; exact So|].
    rewrite Eo by exact Ne. apply same_obs_refl.
  - apply (GL_frame x); auto; try (rewrite Em, ?W3, ?W4; reflexivity).
    + intros nd Hi. rewrite Em. apply W13. auto.
    + intros nd Hi. rewrite Em. apply W12. apply Hne. right. exact Hi.
    + rewrite Gp. auto.
    + intros u _. destruct (Nat.eq_dec u t) as [->|Ne]; [rewrite Es; tauto|].
      rewrite Eo by exact Ne. tauto.
  - apply (GN_frame x); auto; try (intros; rewrite Em, W5; reflexivity).
    intros u. destruct (Nat.eq_dec u t) as [->|Ne]; [rewrite Es; congruence|]. rewrite Eo by exact Ne. reflexivity.
  - destruct M as [M1 M2 M3 M4]. constructor.
    + rewrite Ecn. exact M1.
    + rewrite Em. eapply slots_none_same; eauto.
    + intros u. rewrite Em, W11. apply M3.
    + intros u. destruct (Nat.eq_dec u t) as [->|Ne]; [rewrite Es; apply Hl; assumption|].
      rewrite Eo by exact Ne. apply (lok_frame count x); [| | | |apply M4].
      * rewrite Em. constructor; [rewrite W1|rewrite W7|rewrite W6|rewrite W5]; reflexivity.
      * apply same_ghost_refl; assumption.
      * intros _. rewrite Em, W3, W5, W1. repeat split; auto.
        -- apply W12. apply Hne. left. reflexivity.
        -- intros _. apply W13. apply Hne. left. reflexivity.
      * intros Hu. assert (held (stk (base x) u) <> w).
        { intros Eq. apply Ne. apply (g_held_inj _ N); [exact Hu|congruence]. }
        rewrite Em. split; [apply W12|apply W13]; assumption.
Qed.

Ltac wr_tac := constructor; try reflexivity; intros; cbn; apply upd_other; auto.

Lemma step_wnext x t nd n k :
  G count x -> stk (base x) t = [WNext 0 nd; FC (BRet n k 0)] -> G count (lstep x t).
Proof.
  intros Gx E. inv_local Gx t E L.
  eapply (held_write_step x t _ _ _ nd); [exact Gx|rewrite E; cbn [kstep]; reflexivity|..]; rewrite ?E.
  - reflexivity.
  - assumption.
  - reflexivity.
  - wr_tac.
  - obs.
  - cbn; tauto.
  - cbn; tauto.
  - apply ghost_neutral_eq; rewrite E; exact I.
  - reflexivity.
  - intros Em Ep Ech Ei. constructor; rewrite ?Em; cbn; rewrite ?upd_same; auto.
    eapply ghost_unq; eauto; rewrite Em; reflexivity.
Qed.

Lemma step_kcopy x t wc h d n k :
  G count x -> stk (base x) t = [KCopy 0 (count - 1) wc h d; FC (BRet n k 1)] -> G count (lstep x t).
Proof.
  intros Gx E. inv_local Gx t E L.
  eapply (held_write_step x t _ _ _ h); [exact Gx|rewrite E; cbn [kstep]; reflexivity|..]; rewrite ?E.
  - reflexivity.
  - assumption.
  - reflexivity.
  - wr_tac.
  - obs.
  - cbn; tauto.
  - cbn; tauto.
  - apply ghost_neutral_eq; rewrite E; exact I.
  - reflexivity.
  - intros Em Ep Ech Ei. eapply lk_kout; [| assumption | rewrite Ei; eassumption | rewrite Em; cbn; apply upd_same].
    apply serl_frame with (x := x); [rewrite Em; constructor; reflexivity|apply same_ghost_refl; auto|assumption].
Qed.

Lemma step_wdata x t n k :
  G count x -> stk (base x) t = [WData 0; FC (BRet n k 0)] -> G count (lstep x t).
Proof.
  intros Gx E. inv_local Gx t E L.
  match goal with H : unq _ _ |- _ => pose proof H as (Uq & Uc & Uf & Uqt) end.
  destruct Gx as [A Lg N M].
  set (m := mem (base x)) in *. set (nd := fnode m t) in *.
  pose proof (g_cnt _ _ M) as Ec.
  assert (K : kstep bc (cret (cnt (base x))) m t (stk (base x) t)
              = (set_fnode (set_ndata m nd (fname t)) t O, ev t (l_data nd) 19 (fname t), [WNext 0 nd; FC (BRet n k 0)])).
  { rewrite E. reflexivity. }
  destruct (lstep_view x t _ _ _ K) as (Em & Es & Eo & Ecn & Enn).
  assert (Gn : ghost_neutral (stk (base x) t)) by (rewrite E; exact I).
  destruct (ghost_neutral_eq x t Gn) as (Gc & Gi & Gp).
  assert (Eb : bot (stk (base (lstep x t)) t) = bot (stk (base x) t) \/ exists n k, bot (stk (base x) t) = Some (BNext n k))
    by (left; rewrite Es, E; reflexivity).
  destruct (bot_same_logs x t Eb) as [Gr Ga].
  assert (Eno : nodes (lstep x t) = nodes x) by (unfold nodes; rewrite Em, Gc; reflexivity).
  assert (Hnd : nd <> O) by assumption.
  assert (Hwn : ~ In nd (nodes x)) by (apply (g_fnode_nodes _ N); exact Hnd).
  assert (Hf' : forall u, fnode (mem (base (lstep x t))) u = if Nat.eqb u t then O else fnode m u).
  { intros u. rewrite Em. cbn. unfold upd. reflexivity. }
  assert (Hh' : forall u, held (stk (base (lstep x t)) u) = if Nat.eqb u t then nd else held (stk (base x) u)).
  { intros u. destruct (Nat.eqb_spec u t) as [->|Ne]; [rewrite Es; reflexivity|rewrite Eo by exact Ne; reflexivity]. }
  assert (Hht : held (stk (base x) t) = O) by (rewrite E; reflexivity).
  constructor.
  - apply (GA_frame count x); auto; try (rewrite Em; reflexivity).
    intros u. destruct (Nat.eq_dec u t) as [->|Ne]; [rewrite Es, E; obs|].
    rewrite Eo by exact Ne. apply same_obs_refl.
  - apply (GL_frame x); auto; try (rewrite Em; reflexivity).
    + intros nd' Hi. rewrite Em. cbn. apply upd_other. intros ->. apply Hwn. right. exact Hi.
    + rewrite Gp. auto.
    + intros u _. destruct (Nat.eq_dec u t) as [->|Ne]; [rewrite Es, E; cbn; tauto|].
      rewrite Eo by exact Ne. tauto.
  - destruct N as [N1 N2 N3 N4 N5]. constructor; intros *; rewrite ?Hf', ?Hh', ?Eno.
    + destruct (Nat.eqb_spec u t) as [->|Ne]; [congruence|]. destruct (Nat.eqb_spec u' t) as [->|Ne']; [congruence|]. apply N1.
    + destruct (Nat.eqb_spec u t) as [->|Ne]; destruct (Nat.eqb_spec u' t) as [->|Ne']; auto.
      * intros _ Hq. exfalso. apply (N3 t u'); [exact Hnd|exact Hq].
      * intros _ Hq. exfalso. apply (N3 t u); [exact Hnd|symmetry; exact Hq].
    + destruct (Nat.eqb_spec u t) as [->|Ne]; [congruence|]. destruct (Nat.eqb_spec u' t) as [->|Ne']; [|apply N3].
      intros Hu Hq. apply Ne. apply N1; assumption.
    + destruct (Nat.eqb_spec u t) as [->|Ne]; [congruence|apply N4].
    + destruct (Nat.eqb_spec u t) as [->|Ne]; [intros _; exact Hwn|apply N5].
  - destruct M as [M1 M2 M3 M4]. constructor.
    + rewrite Ecn. exact M1.
    + rewrite Em. eapply slots_none_same; eauto.
    + intros u. rewrite Em. apply M3.
    + intros u. destruct (Nat.eq_dec u t) as [->|Ne].
      * rewrite Es. constructor; rewrite ?Em; cbn; rewrite ?upd_same; auto.
        eapply ghost_unq; eauto; rewrite Em; reflexivity.
      * rewrite Eo by exact Ne. apply (lok_frame count x); [| | | |apply M4].
        -- rewrite Em. constructor; cbn; try reflexivity. apply upd_other. exact Ne.
        -- apply same_ghost_refl; assumption.
        -- intros _. rewrite Em. cbn [qhead ndata nnext fnode fstate set_fnode set_ndata].
           split; [assumption|]. split; [reflexivity|]. split; [|split; [|intros _]].
           ++ intros f0 Hf0. split; [|auto]. apply upd_other. intros ->. exact (Uf Hf0).
           ++ apply upd_other. intros Hq. apply Hwn. left. exact Hq.
           ++ reflexivity.
        -- intros Hu. rewrite Em. cbn [qhead ndata nnext fnode fstate set_fnode set_ndata]. split; [|reflexivity]. apply upd_other.
           intros Hq. apply (g_fnode_held _ N t u); [exact Hnd|symmetry; exact Hq].
Qed.
End Steps.

Ltac inv_local Gx t E L :=
  pose proof (g_local _ _ (g_m _ _ Gx) t) as L; rewrite E in L; inversion L; subst; clear L.

Lemma tid_fname f : tid_of_name (fname f) = f.
Proof. unfold tid_of_name, fname, Zn. replace (1000 + Z.of_nat f - 1000) with (Z.of_nat f) by lia. apply Nat2Z.id. Qed.

Lemma lastn_snoc ch : forall a b u, lastn a (ch ++ [(b, u)]) = b.
Proof. induction ch as [|[b' u'] rest IH]; intros a b u; cbn; [reflexivity|apply IH]. Qed.

Lemma linked_snoc m sf ch b u : forall a,
  linked m sf a ch -> (exists r, sf u = WLink 0 (lastn a ch) b :: r) -> nnext m b = O ->
  linked m sf a (ch ++ [(b, u)]).
Proof.
  induction ch as [|[b' u'] rest IH]; intros a L Hs Hb; cbn in *.
  - split; [right; split; assumption|exact Hb].
  - destruct L as [L1 L2]. split; [exact L1|]. apply IH; assumption.
Qed.

Lemma linked_link m sf sf' p b u r : forall ch a,
  NoDup (a :: map fst ch) -> NoDup (map snd ch) -> In (b, u) ch ->
  sf u = WLink 0 p b :: r -> ~ linking (sf' u) -> (forall u', u' <> u -> sf' u' = sf u') ->
  linked m sf a ch -> linked (set_nnext m p b) sf' a ch /\ In p (a :: map fst ch) /\ nnext m p = O.
Proof.
  induction ch as [|[b' u'] rest IH]; intros a Nd Ns Hi Hs Hl Ho L; [destruct Hi|].
  cbn [linked map fst snd] in *. destruct L as [D Lr].
  inversion Nd as [|? ? Na Nd']; subst. inversion Ns as [|? ? Nu Ns']; subst.
  destruct (Nat.eq_dec u' u) as [->|Ne].
  - assert (b' = b).
    { destruct Hi as [Hi|Hi]; [congruence|]. exfalso. apply Nu. apply in_map_iff. exists (b, u). auto. }
    subst b'. destruct D as [[_ D]|[D1 [r' D2]]]; [exfalso; apply D; rewrite Hs; exact I|].
    assert (p = a) by congruence. subst p. split; [|split; [left; reflexivity|exact D1]]. split.
    + left. split; [cbn; apply upd_same|exact Hl].
    + apply (linked_frame m _ sf sf'); [| |exact Lr].
      * intros nd Hn. cbn. apply upd_other. intros ->. apply Na. exact Hn.
      * intros u' Hu'. rewrite Ho; [tauto|]. intros ->. exact (Nu Hu').
  - destruct Hi as [Hi|Hi]; [congruence|].
    destruct (IH b' Nd' Ns' Hi Hs Hl Ho Lr) as (L' & Hp & Hz). split; [|split; [right; exact Hp|exact Hz]]. split; [|exact L'].
    assert (a <> p) by (intros ->; exact (Na Hp)).
    cbn [nnext set_nnext]. rewrite upd_other by exact H. rewrite (Ho u' Ne). exact D.
Qed.

Lemma linked_head m sf a ch nx : linked m sf a ch -> nnext m a = nx -> nx <> O ->
  exists f rest, ch = (nx, f) :: rest /\ ~ linking (sf f) /\ linked m sf nx rest.
Proof.
  intros L Hn Hz. destruct ch as [|[b u] rest]; cbn in L; [congruence|].
  destruct L as [[[A B]|[A _]] Lr]; [|congruence]. exists u, rest. split; [congruence|].
  split; [exact B|]. replace nx with b by congruence. exact Lr.
Qed.

Section Steps2.
Variable count : Z.
Hypothesis Hcount : 1 <= count.

(* the fiber whose entry is being consumed: its clause does not depend on its fnode *)
Lemma lok_infl_fnode x x' f sg :
  Qp x f -> Fp x f -> is_wait sg ->
  fstate (mem (base x')) f = fstate (mem (base x)) f -> pend (mem (base x')) f = pend (mem (base x)) f ->
  blocked (mem (base x')) f = blocked (mem (base x)) f ->
  pw x' = pw x -> chain x' = chain x -> infl x' = infl x ->
  lok count x f sg -> lok count x' f sg.
Proof.
  intros Hq Hf Hw A B C Ep Ec Ei L.
  assert (Q' : Qp x' f) by (unfold Qp in *; rewrite Ep; exact Hq).
  assert (F' : Fp x' f) by (unfold Fp in *; rewrite Ei; exact Hf).
  destruct L; try (destruct Hw as (n' & k' & Hw); discriminate);
    repeat match goal with
           | H : unq _ _ |- _ => destruct H as (_ & _ & Hnf & _); contradiction
           | H : serl _ _ |- _ => destruct H as (Hnq & _); contradiction
           end; try contradiction.
  - constructor. destruct H as [P|P].
    + left. destruct P as (P1 & P2 & [(P3 & P4 & P5)|(P3 & _)]); [|contradiction].
      unfold presleep. rewrite A, B, C. split; [exact P1|]. split; [exact P2|]. left. auto.
    + destruct P as (_ & P & _). contradiction.
  - constructor. destruct H as [[S P]|[S P]].
    + left. split; [exact S|]. destruct P as (P1 & P2 & [(P3 & P4 & P5)|(P3 & _)]); [|contradiction].
      unfold presleep. rewrite A, B, C. split; [exact P1|]. split; [exact P2|]. left. auto.
    + destruct P as (_ & P & _). contradiction.
  - constructor. destruct H as (P1 & P2 & [(P3 & P4 & P5)|(P3 & _)]); [|contradiction].
    unfold presleep. rewrite A, B, C. split; [exact P1|]. split; [exact P2|]. left. auto.
  - constructor. destruct H as (P1 & P2 & [(P3 & P4 & P5)|(P3 & _)]); [|contradiction].
    unfold presleep. rewrite A, B, C. split; [exact P1|]. split; [exact P2|]. left. auto.
  - constructor. destruct H as (P1 & P2 & [(P3 & P4 & P5)|(P3 & _)]); [|contradiction].
    unfold presleep. rewrite A, B, C. split; [exact P1|]. split; [exact P2|]. left. auto.
  - constructor. destruct H as (P1 & P2 & [(P3 & P4 & P5)|(P3 & _)]); [|contradiction].
    unfold presleep. rewrite A, B, C. split; [exact P1|]. split; [exact P2|]. left. auto.
  - constructor. destruct H as [(P1 & P2 & P3 & P4 & P5)|(P1 & _)]; [|contradiction].
    left. rewrite A, B, C. auto.
Qed.

Lemma step_kout x t wc h n k :
  G count x -> stk (base x) t = [KOut 0 (count - 1) wc h; FC (BRet n k 1)] -> G count (lstep x t).
Proof.
  intros Gx E. inv_local Gx t E L.
  match goal with H : serl _ _ |- _ => pose proof H as (Sq & Squ & Sfn & Sfs) end.
  match goal with H : infl x = Some _ |- _ => rename H into Hi end.
  match goal with H : ndata _ h = _ |- _ => rename H into Hd end.
  destruct (g_infl _ (g_l _ _ Gx) _ Hi) as [Fq Fnc].
  destruct (g_pw _ _ (g_a _ _ Gx) _ Fq) as (Flt & Fw & _).
  assert (Ntf : t <> f) by (intros ->; exact (Sq Fq)).
  destruct Gx as [A Lg N M].
  set (m := mem (base x)) in *.
  pose proof (g_cnt _ _ M) as Ec.
  assert (K : kstep bc (cret (cnt (base x))) m t (stk (base x) t)
              = (set_fnode m f h, ev t (l_data h) 9 (ndata m h), [KState 0 (count - 1) wc f; FC (BRet n k 1)])).
  { rewrite E. cbn [kstep]. fold m. rewrite Hd, tid_fname. reflexivity. }
  destruct (lstep_view x t _ _ _ K) as (Em & Es & Eo & Ecn & Enn).
  assert (Gn : ghost_neutral (stk (base x) t)) by (rewrite E; exact I).
  destruct (ghost_neutral_eq x t Gn) as (Gc & Gi & Gp).
  assert (Eb : bot (stk (base (lstep x t)) t) = bot (stk (base x) t) \/ exists n k, bot (stk (base x) t) = Some (BNext n k))
    by (left; rewrite Es, E; reflexivity).
  destruct (bot_same_logs x t Eb) as [Gr Ga].
  assert (Eno : nodes (lstep x t) = nodes x) by (unfold nodes; rewrite Em, Gc; reflexivity).
  assert (Hht : held (stk (base x) t) = h) by (rewrite E; reflexivity).
  assert (Hhn : ~ In h (nodes x)) by (rewrite <- Hht; apply (g_held_nodes _ N); rewrite Hht; assumption).
  assert (Hf' : forall u, fnode (mem (base (lstep x t))) u = if Nat.eqb u f then h else fnode m u).
  { intros u. rewrite Em. cbn. unfold upd. reflexivity. }
  assert (Hh' : forall u, held (stk (base (lstep x t)) u) = if Nat.eqb u t then O else held (stk (base x) u)).
  { intros u. destruct (Nat.eqb_spec u t) as [->|Ne]; [rewrite Es; reflexivity|rewrite Eo by exact Ne; reflexivity]. }
  constructor.
  - apply (GA_frame count x); auto; try (rewrite Em; reflexivity).
    intros u. destruct (Nat.eq_dec u t) as [->|Ne]; [rewrite Es, E; obs|].
    rewrite Eo by exact Ne. apply same_obs_refl.
  - apply (GL_frame x); auto; try (rewrite Em; reflexivity).
    + rewrite Gp. auto.
    + intros u _. destruct (Nat.eq_dec u t) as [->|Ne]; [rewrite Es, E; cbn; tauto|].
      rewrite Eo by exact Ne. tauto.
  - destruct N as [N1 N2 N3 N4 N5]. constructor; intros *; rewrite ?Hf', ?Hh', ?Eno; subst m.
    + destruct (Nat.eqb_spec u f) as [->|Ne]; destruct (Nat.eqb_spec u' f) as [->|Ne']; auto.
      * intros Hz Hq. exfalso. apply (N3 u' t); [rewrite <- Hq; exact Hz|rewrite Hht; symmetry; exact Hq].
      * intros Hu Hq. exfalso. apply (N3 u t); [exact Hu|rewrite Hht; exact Hq].
    + destruct (Nat.eqb_spec u t) as [->|Ne]; [congruence|]. destruct (Nat.eqb_spec u' t) as [->|Ne']; [congruence|apply N2].
    + destruct (Nat.eqb_spec u f) as [->|Ne]; destruct (Nat.eqb_spec u' t) as [->|Ne']; auto.
      intros _ Hq. apply Ne'. symmetry. apply N2; [rewrite Hht; assumption|congruence].
    + destruct (Nat.eqb_spec u f) as [->|Ne]; [intros _; exact Hhn|apply N4].
    + destruct (Nat.eqb_spec u t) as [->|Ne]; [congruence|apply N5].
  - destruct M as [M1 M2 M3 M4]. constructor.
    + rewrite Ecn. exact M1.
    + rewrite Em. eapply slots_none_same; eauto.
    + intros u. rewrite Em. apply M3.
    + intros u. destruct (Nat.eq_dec u t) as [->|Ne].
      * rewrite Es. constructor.
        -- unfold serl, Qp, quiet in *. rewrite Gp, Em. cbn [fnode fstate pend blocked set_fnode].
           rewrite upd_other by exact Ntf. auto.
        -- rewrite Gi. exact Hi.
        -- rewrite Em. cbn. rewrite upd_same. assumption.
      * rewrite Eo by exact Ne. destruct (Nat.eq_dec u f) as [->|Nuf].
        -- apply (lok_infl_fnode x); auto; rewrite ?Em; try reflexivity.
        -- apply (lok_frame count x); [| | | |apply M4].
           ++ rewrite Em. constructor; cbn; try reflexivity. apply upd_other. exact Nuf.
           ++ apply same_ghost_refl; assumption.
           ++ intros Hs. exfalso. apply Ne. apply (g_ser1 _ _ A); [exact Hs|rewrite E; do 2 eexists; reflexivity].
           ++ intros _. rewrite Em. auto.
Qed.

Lemma step_wxchg x t nd n k :
  G count x -> stk (base x) t = [WXchg 0 nd; FC (BRet n k 0)] -> G count (lstep x t).
Proof.
  intros Gx E. inv_local Gx t E L.
  match goal with H : unq _ _ |- _ => pose proof H as (Uq & Uc & Uf & Uqt) end.
  destruct Gx as [A Lg N M].
  set (m := mem (base x)) in *. set (p := qtail m 0%nat).
  pose proof (g_cnt _ _ M) as Ec.
  assert (K : kstep bc (cret (cnt (base x))) m t (stk (base x) t)
              = (set_qtail m 0%nat nd, ev t (l_tail 0) 43 (Zn p), [WLink 0 p nd; FC (BRet n k 0)])).
  { rewrite E. reflexivity. }
  destruct (lstep_view x t _ _ _ K) as (Em & Es & Eo & Ecn & Enn).
  assert (Gc : chain (lstep x t) = chain x ++ [(nd, t)]) by (rewrite lstep_chain, E; reflexivity).
  assert (Gi : infl (lstep x t) = infl x) by (rewrite lstep_infl, E; reflexivity).
  assert (Gp : pw (lstep x t) = pw x) by (rewrite lstep_pw, E; reflexivity).
  assert (Eb : bot (stk (base (lstep x t)) t) = bot (stk (base x) t) \/ exists n k, bot (stk (base x) t) = Some (BNext n k))
    by (left; rewrite Es, E; reflexivity).
  destruct (bot_same_logs x t Eb) as [Gr Ga].
  assert (Eno : nodes (lstep x t) = nodes x ++ [nd]).
  { unfold nodes. rewrite Em, Gc, map_app. reflexivity. }
  assert (Hht : held (stk (base x) t) = nd) by (rewrite E; reflexivity).
  assert (Hnn : ~ In nd (nodes x)) by (rewrite <- Hht; apply (g_held_nodes _ N); rewrite Hht; assumption).
  assert (Hh' : forall u, held (stk (base (lstep x t)) u) = if Nat.eqb u t then O else held (stk (base x) u)).
  { intros u. destruct (Nat.eqb_spec u t) as [->|Ne]; [rewrite Es; reflexivity|rewrite Eo by exact Ne; reflexivity]. }
  destruct Lg as [L1 L2 L3 L4 L5 L6 L7].
  constructor.
  - apply (GA_frame count x); auto; try (rewrite Em; reflexivity).
    intros u. destruct (Nat.eq_dec u t) as [->|Ne]; [rewrite Es, E; obs|].
    rewrite Eo by exact Ne. apply same_obs_refl.
  - constructor; rewrite ?Eno, ?Gc, ?Gi, ?Gp.
    + apply nodup_snoc; assumption.
    + intros nd' Hi. apply in_app_iff in Hi. destruct Hi as [Hi|[<-|[]]]; auto.
    + rewrite Em. cbn [qtail qhead set_qtail]. rewrite upd_same, lastn_snoc. reflexivity.
    + rewrite Em. cbn [qhead set_qtail]. apply linked_snoc.
      * apply (linked_frame m _ (stk (base x))); [reflexivity| |exact L4].
        intros u Hu. rewrite Eo; [tauto|]. intros ->. exact (Uc Hu).
      * rewrite Es. fold m in L3. rewrite <- L3. eexists. reflexivity.
      * assumption.
    + intros nd' u Hi. rewrite Em. cbn [ndata set_qtail]. apply in_app_iff in Hi.
      destruct Hi as [Hi|[Hi|[]]]; [apply L5; exact Hi|]. injection Hi as <- <-. split; assumption.
    + rewrite map_app. cbn. apply nodup_snoc; assumption.
    + intros f Hf. destruct (L7 f Hf) as [B1 B2]. split; [exact B1|]. rewrite map_app. cbn.
      intros Hi. apply in_app_iff in Hi. destruct Hi as [Hi|[<-|[]]]; [exact (B2 Hi)|exact (Uf Hf)].
  - destruct N as [N1 N2 N3 N4 N5]. constructor; intros *; rewrite ?Hh', ?Eno, ?Em; cbn [fnode set_qtail]; fold m.
    + apply N1.
    + destruct (Nat.eqb_spec u t) as [->|Ne]; [congruence|]. destruct (Nat.eqb_spec u' t) as [->|Ne']; [congruence|apply N2].
    + destruct (Nat.eqb_spec u' t) as [->|Ne']; [auto|apply N3].
    + intros Hu Hi. apply in_app_iff in Hi. destruct Hi as [Hi|[Hi|[]]]; [exact (N4 u Hu Hi)|].
      apply (N3 u t Hu). rewrite Hht. symmetry. exact Hi.
    + destruct (Nat.eqb_spec u t) as [->|Ne]; [congruence|]. intros Hu Hi. apply in_app_iff in Hi.
      destruct Hi as [Hi|[Hi|[]]]; [exact (N5 u Hu Hi)|]. apply Ne. apply N2; [exact Hu|congruence].
  - destruct M as [M1 M2 M3 M4]. constructor.
    + rewrite Ecn. exact M1.
    + rewrite Em. eapply slots_none_same; eauto.
    + intros u. rewrite Em. apply M3.
    + intros u. destruct (Nat.eq_dec u t) as [->|Ne].
      * rewrite Es. constructor; unfold Qp, Fp, quiet in *; rewrite ?Gp, ?Gc, ?Gi, ?Em; auto.
        apply in_app_iff. right. left. reflexivity.
      * rewrite Eo by exact Ne. apply (lok_frame count x); [| | | |apply M4].
        -- rewrite Em. constructor; reflexivity.
        -- constructor; unfold Qp, Cp, Fp; rewrite ?Gp, ?Gc, ?Gi; try tauto.
           ++ rewrite map_app, in_app_iff. cbn. split; [intros [H|[H|[]]]; [exact H|congruence]|auto].
           ++ intros nd'. rewrite in_app_iff. cbn. split; [intros [H|[H|[]]]; [exact H|congruence]|auto].
        -- intros _. rewrite Em. cbn. auto.
        -- intros _. rewrite Em. auto.
Qed.

Lemma step_wlink x t p nd n k :
  G count x -> stk (base x) t = [WLink 0 p nd; FC (BRet n k 0)] -> G count (lstep x t).
Proof.
  intros Gx E. inv_local Gx t E L.
  match goal with H : quiet _ _ |- _ => pose proof H as (Hpe & Hbl) end.
  match goal with H : In (nd, t) _ |- _ => rename H into Hin end.
  destruct Gx as [A Lg N M].
  set (m := mem (base x)) in *.
  pose proof (g_cnt _ _ M) as Ec.
  assert (K : kstep bc (cret (cnt (base x))) m t (stk (base x) t)
              = (set_nnext m p nd, ev t (l_next p) 19 (Zn nd), [YRead; FC (BRet n k 0)])).
  { rewrite E. reflexivity. }
  destruct (lstep_view x t _ _ _ K) as (Em & Es & Eo & Ecn & Enn).
  assert (Gn : ghost_neutral (stk (base x) t)) by (rewrite E; exact I).
  destruct (ghost_neutral_eq x t Gn) as (Gc & Gi & Gp).
  assert (Eb : bot (stk (base (lstep x t)) t) = bot (stk (base x) t) \/ exists n k, bot (stk (base x) t) = Some (BNext n k))
    by (left; rewrite Es, E; reflexivity).
  destruct (bot_same_logs x t Eb) as [Gr Ga].
  assert (Eno : nodes (lstep x t) = nodes x) by (unfold nodes; rewrite Em, Gc; reflexivity).
  destruct Lg as [L1 L2 L3 L4 L5 L6 L7].
  destruct (linked_link m (stk (base x)) (stk (base (lstep x t))) p nd t [FC (BRet n k 0)]
              (chain x) (qhead m 0%nat) L1 L6 Hin E) as (Ll & Hp & Hz); [rewrite Es; cbn; tauto|exact Eo|exact L4|].
  constructor.
  - apply (GA_frame count x); auto; try (rewrite Em; reflexivity).
    intros u. destruct (Nat.eq_dec u t) as [->|Ne]; [rewrite Es, E; obs|].
    rewrite Eo by exact Ne. apply same_obs_refl.
  - constructor; rewrite ?Eno, ?Gc, ?Gi, ?Gp; auto.
    + rewrite Em. exact L3.
    + rewrite Em. exact Ll.
    + rewrite Em. exact L5.
  - apply (GN_frame x); auto; try (intros; rewrite Em; reflexivity).
    intros u. destruct (Nat.eq_dec u t) as [->|Ne]; [rewrite Es, E; reflexivity|]. rewrite Eo by exact Ne. reflexivity.
  - destruct M as [M1 M2 M3 M4]. constructor.
    + rewrite Ecn. exact M1.
    + rewrite Em. eapply slots_none_same; eauto.
    + intros u. rewrite Em. apply M3.
    + intros u. destruct (Nat.eq_dec u t) as [->|Ne].
      * rewrite Es. constructor. left. unfold presleep, Qp, Cp, Fp in *. rewrite Gp, Gc, Gi, Em.
        cbn [fstate blocked pend fnode set_nnext]. split; [assumption|]. split; [assumption|]. left.
        split; [assumption|]. split; [|assumption]. left. apply in_map_iff. exists (nd, t). auto.
      * rewrite Eo by exact Ne. apply (lok_frame count x); [| | | |apply M4].
        -- rewrite Em. constructor; reflexivity.
        -- apply same_ghost_refl; assumption.
        -- intros _. rewrite Em. cbn [qhead ndata nnext fnode fstate set_nnext]. fold m.
           split; [assumption|]. split; [reflexivity|]. split; [auto|]. split; [reflexivity|].
           intros Hnz. apply upd_other. intros Hq. apply Hnz. rewrite Hq. exact Hz.
        -- intros Hu. rewrite Em. cbn [ndata nnext set_nnext]. split; [reflexivity|]. apply upd_other.
           intros Hq. apply (g_held_nodes _ N u Hu). rewrite Hq. exact Hp.
Qed.

(* the fiber whose entry is consumed by a head update: queued -> in flight *)
Lemma lok_pop x x' f sg :
  Qp x f -> Cp x f -> is_wait sg -> ~ linking sg ->
  mem (base x') = mem (base x) \/ (fstate (mem (base x')) f = fstate (mem (base x)) f /\
     pend (mem (base x')) f = pend (mem (base x)) f /\ blocked (mem (base x')) f = blocked (mem (base x)) f) ->
  pw x' = pw x -> infl x' = Some f ->
  lok count x f sg -> lok count x' f sg.
Proof.
  intros Hq Hc Hw Hl Hm Ep Ei L.
  assert (Hm' : fstate (mem (base x')) f = fstate (mem (base x)) f /\
     pend (mem (base x')) f = pend (mem (base x)) f /\ blocked (mem (base x')) f = blocked (mem (base x)) f).
  { destruct Hm as [->|Hm]; auto. }
  destruct Hm' as (A & B & C).
  assert (Q' : Qp x' f) by (unfold Qp in *; rewrite Ep; exact Hq).
  assert (F' : Fp x' f) by (unfold Fp in *; exact Ei).
  destruct L; try (destruct Hw as (n' & k' & Hw); discriminate);
    repeat match goal with
           | H : unq _ _ |- _ => destruct H as (_ & Hnc & _); contradiction
           | H : serl _ _ |- _ => destruct H as (Hnq & _); contradiction
           end; try contradiction; try (exfalso; apply Hl; exact I).
  - constructor. destruct H as [P|P].
    + left. destruct P as (P1 & P2 & [(P3 & P4 & P5)|(P3 & _)]); [|contradiction].
      unfold presleep. rewrite A, B, C. split; [exact P1|]. split; [exact P2|]. left. auto.
    + destruct P as (_ & P & _). contradiction.
  - constructor. destruct H as [[S P]|[S P]].
    + left. split; [exact S|]. destruct P as (P1 & P2 & [(P3 & P4 & P5)|(P3 & _)]); [|contradiction].
      unfold presleep. rewrite A, B, C. split; [exact P1|]. split; [exact P2|]. left. auto.
    + destruct P as (_ & P & _). contradiction.
  - constructor. destruct H as (P1 & P2 & [(P3 & P4 & P5)|(P3 & _)]); [|contradiction].
    unfold presleep. rewrite A, B, C. split; [exact P1|]. split; [exact P2|]. left. auto.
  - constructor. destruct H as (P1 & P2 & [(P3 & P4 & P5)|(P3 & _)]); [|contradiction].
    unfold presleep. rewrite A, B, C. split; [exact P1|]. split; [exact P2|]. left. auto.
  - constructor. destruct H as (P1 & P2 & [(P3 & P4 & P5)|(P3 & _)]); [|contradiction].
    unfold presleep. rewrite A, B, C. split; [exact P1|]. split; [exact P2|]. left. auto.
  - constructor. destruct H as (P1 & P2 & [(P3 & P4 & P5)|(P3 & _)]); [|contradiction].
    unfold presleep. rewrite A, B, C. split; [exact P1|]. split; [exact P2|]. left. auto.
  - constructor. destruct H as [(P1 & P2 & P3 & P4 & P5)|(P1 & _)]; [|contradiction].
    left. rewrite A, B, C. auto.
Qed.

Lemma step_ksethead x t wc h nx n k :
  G count x -> stk (base x) t = [KSetHead 0 (count - 1) wc h nx; FC (BRet n k 1)] -> G count (lstep x t).
Proof.
  intros Gx E.
  assert (Hinv : serl x t /\ infl x = None /\ h = qhead (mem (base x)) 0%nat /\ nx <> O /\ nnext (mem (base x)) h = nx).
  { pose proof (g_local _ _ (g_m _ _ Gx) t) as L. rewrite E in L. inversion L; auto. }
  destruct Hinv as (Hser & Hi & Hh & Hz & Hn).
  pose proof Hser as (Sq & Squ & Sfn & Sfs).
  destruct Gx as [A Lg N M].
  set (m := mem (base x)) in *. rewrite Hh in Hn.
  destruct Lg as [L1 L2 L3 L4 L5 L6 L7].
  destruct (linked_head _ _ _ _ _ L4 Hn Hz) as (f & rest & Ech & Hlf & Lr).
  assert (Hfc : In (nx, f) (chain x)) by (rewrite Ech; left; reflexivity).
  destruct (L5 _ _ Hfc) as [Hdf Hfq].
  assert (Ntf : t <> f) by (intros ->; exact (Sq Hfq)).
  pose proof (g_cnt _ _ M) as Ec.
  assert (K : kstep bc (cret (cnt (base x))) m t (stk (base x) t)
              = (set_qhead m 0%nat nx, ev t (l_head 0) 19 (Zn nx), [KData 0 (count - 1) wc (qhead m 0%nat) nx; FC (BRet n k 1)])).
  { rewrite E, Hh. reflexivity. }
  destruct (lstep_view x t _ _ _ K) as (Em & Es & Eo & Ecn & Enn).
  assert (Gc : chain (lstep x t) = rest) by (rewrite lstep_chain, E, Ech; reflexivity).
  assert (Gi : infl (lstep x t) = Some f) by (rewrite lstep_infl, E, Ech; reflexivity).
  assert (Gp : pw (lstep x t) = pw x) by (rewrite lstep_pw, E; reflexivity).
  assert (Eb : bot (stk (base (lstep x t)) t) = bot (stk (base x) t) \/ exists n k, bot (stk (base x) t) = Some (BNext n k))
    by (left; rewrite Es, E; reflexivity).
  destruct (bot_same_logs x t Eb) as [Gr Ga].
  assert (Eno : nodes x = qhead m 0%nat :: nx :: map fst rest) by (unfold nodes; rewrite Ech; reflexivity).
  assert (Eno' : nodes (lstep x t) = nx :: map fst rest).
  { unfold nodes. rewrite Em, Gc. reflexivity. }
  rewrite Eno in L1, L2. apply NoDup_cons_iff in L1. destruct L1 as [Nh Nd'].
  assert (Hh' : forall u, held (stk (base (lstep x t)) u) = if Nat.eqb u t then qhead m 0%nat else held (stk (base x) u)).
  { intros u. destruct (Nat.eqb_spec u t) as [->|Ne]; [rewrite Es; reflexivity|rewrite Eo by exact Ne; reflexivity]. }
  assert (Hht : held (stk (base x) t) = O) by (rewrite E; reflexivity).
  rewrite Ech in L6. cbn in L6. apply NoDup_cons_iff in L6. destruct L6 as [Nf Ns'].
  constructor.
  - apply (GA_frame count x); auto; try (rewrite Em; reflexivity).
    intros u. destruct (Nat.eq_dec u t) as [->|Ne]; [rewrite Es, E; obs|].
    rewrite Eo by exact Ne. apply same_obs_refl.
  - constructor; rewrite ?Eno', ?Gc, ?Gi, ?Gp.
    + exact Nd'.
    + intros nd' Hi'. apply L2. right. exact Hi'.
    + rewrite Em. cbn [qtail qhead set_qhead]. unfold upd; cbn [Nat.eqb]. fold m in L3. rewrite L3, Ech. reflexivity.
    + rewrite Em. cbn [qhead set_qhead]. unfold upd; cbn [Nat.eqb].
      apply (linked_frame m _ (stk (base x))); [reflexivity| |exact Lr].
      intros u Hu. rewrite Eo; [tauto|]. intros ->. apply Sq.
      apply in_map_iff in Hu. destruct Hu as [[nd' u'] [Eq Hu]]. cbn in Eq. subst u'.
      apply (L5 nd' t). rewrite Ech. right. exact Hu.
    + intros nd' u Hi'. rewrite Em. cbn [ndata set_qhead]. apply L5. rewrite Ech. right. exact Hi'.
    + exact Ns'.
    + intros f' Hf'. injection Hf' as <-. split; assumption.
  - destruct N as [N1 N2 N3 N4 N5]. constructor; intros *; rewrite ?Hh', ?Eno', ?Em; cbn [fnode set_qhead]; subst m.
    + apply N1.
    + destruct (Nat.eqb_spec u t) as [->|Ne]; destruct (Nat.eqb_spec u' t) as [->|Ne']; auto.
      * intros _ Hq. exfalso. apply (N5 u'); [rewrite <- Hq; apply L2; left; reflexivity|].
        rewrite <- Hq, Eno. left. reflexivity.
      * intros Hu Hq. exfalso. apply (N5 u Hu). rewrite Hq, Eno. left. reflexivity.
    + destruct (Nat.eqb_spec u' t) as [->|Ne']; [|apply N3].
      intros Hu Hq. apply (N4 u Hu). rewrite Hq, Eno. left. reflexivity.
    + intros Hu Hi'. apply (N4 u Hu). rewrite Eno. right. exact Hi'.
    + destruct (Nat.eqb_spec u t) as [->|Ne]; [intros _; exact Nh|].
      intros Hu Hi'. apply (N5 u Hu). rewrite Eno. right. exact Hi'.
  - destruct M as [M1 M2 M3 M4]. constructor.
    + rewrite Ecn. exact M1.
    + rewrite Em. eapply slots_none_same; eauto.
    + intros u. rewrite Em. apply M3.
    + intros u. destruct (Nat.eq_dec u t) as [->|Ne].
      * rewrite Es. apply (lk_kdata count _ _ wc _ _ n k f).
        -- unfold serl, Qp, quiet in *. rewrite Gp, Em. auto.
        -- apply L2. left. reflexivity.
        -- rewrite Em. reflexivity.
        -- exact Gi.
        -- rewrite Em. exact Hdf.
      * rewrite Eo by exact Ne. destruct (Nat.eq_dec u f) as [->|Nuf].
        -- apply (lok_pop x); auto.
           ++ unfold Cp. rewrite Ech. left. reflexivity.
           ++ apply (g_pw _ _ A f Hfq).
           ++ right. rewrite Em. auto.
        -- apply (lok_frame count x); [| | | |apply M4].
           ++ rewrite Em. constructor; reflexivity.
           ++ constructor; unfold Qp, Cp, Fp; rewrite ?Gp, ?Gc, ?Gi, ?Hi, ?Ech; try tauto.
              ** cbn. split; [auto|intros [H|H]; [congruence|exact H]].
              ** split; [intros H; congruence|discriminate].
              ** intros nd'. cbn. split; [auto|intros [H|H]; [congruence|exact H]].
           ++ intros Hs. exfalso. apply Ne. apply (g_ser1 _ _ A); [exact Hs|rewrite E; do 2 eexists; reflexivity].
           ++ intros _. rewrite Em. auto.
Qed.
End Steps2.
