(* C12: the protocol invariant of the REPAIRED barrier (two waiter lists alternating
   by round parity) when exactly [count] fibers use it: any count >= 1, any number
   of consecutive rounds, any schedule.
   Kernel part: well-formedness of the two MPSC waiter lists (two-step push, single
   consumer per list, node hand-over), wake-up protocol of wait_in_mpsc_queue /
   wake_from_mpsc_queue.  Barrier part: generations; the key fact is that the list
   of round k is empty and untouched while round k+1 fills the other list, because
   round k+2 cannot start before the serial fiber of round k has itself entered
   round k+1. *)
From Coq Require Import List ZArith Lia Bool Arith.
From LF Require Import Conc T1K Barrier BarrierProofs.
Import ListNotations.
Local Open Scope Z_scope.

(* ---- remaining projections of lstep ---- *)
Lemma lstep_chain x t : chain (lstep x t) =
  match stk (base x) t with
  | WXchg q n :: _ => upd (chain x) q (chain x q ++ [(n, t)])
  | KSetHead q _ _ _ _ :: _ => upd (chain x) q (tl (chain x q))
  | _ => chain x
  end.
Proof. reflexivity. Qed.

Lemma lstep_infl x t : infl (lstep x t) =
  match stk (base x) t with
  | KSetHead q _ _ _ _ :: _ => upd (infl x) q (option_map snd (hd_error (chain x q)))
  | KState q _ _ f :: _ => if fstate (mem (base x)) f =? ST_WAITING then infl x else upd (infl x) q None
  | KReady q _ _ _ :: _ => upd (infl x) q None
  | _ => infl x
  end.
Proof. reflexivity. Qed.

Lemma lstep_pw x t : pw (lstep x t) =
  match stk (base x) t with
  | WFAdd _ _ _ :: _ =>
      if (word (mem (base x)) 0 + 1) mod cnt (base x) =? 0 then pw x
      else let q := lsel (two (base x)) (cnt (base x)) (word (mem (base x)) 0) in upd (pw x) q (pw x q ++ [t])
  | KState q _ _ f :: _ => if fstate (mem (base x)) f =? ST_WAITING then pw x
                           else upd (pw x) q (remove Nat.eq_dec f (pw x q))
  | KReady q _ _ f :: _ => upd (pw x) q (remove Nat.eq_dec f (pw x q))
  | _ => pw x
  end.
Proof. reflexivity. Qed.

(* ---- observations on stacks ---- *)
Definition is_ser (sg : stack bc) : Prop := exists n k, bot sg = Some (BRet n k 1).
Definition is_wait (sg : stack bc) : Prop := exists n k, bot sg = Some (BRet n k 0).
Definition rnd (sg : stack bc) : nat := match bot sg with Some c => round_of c | None => O end.
Definition pre_round (sg : stack bc) : option nat :=
  match sg with
  | [Start; FC (BNext _ k)] => Some k
  | [WFAdd _ _ _; FC (BArrived _ k)] => Some k
  | _ => None
  end.

(* the waiter list of round k: rounds 1,3,5,.. use list 0, rounds 2,4,.. list 1 *)
Definition lq (k : nat) : nat := Nat.b2n (Nat.even k).
Lemma lq_lt k : (lq k < 2)%nat.
Proof. unfold lq. destruct (Nat.even k); cbn; lia. Qed.
Lemma lq_succ k : lq (S k) = (1 - lq k)%nat.
Proof. unfold lq. rewrite Nat.even_succ, <- Nat.negb_even. destruct (Nat.even k); reflexivity. Qed.
Lemma lq_succ_ne k : lq (S k) <> lq k.
Proof. rewrite lq_succ. pose proof (lq_lt k). lia. Qed.
Lemma lq_two q q' : (q < 2)%nat -> (q' < 2)%nat -> q <> q' -> q' = (1 - q)%nat.
Proof. lia. Qed.
(* what the code computes: ((new - 1) / count) & 1 with (new - 1) / count = k - 1 *)
Lemma lsel_lq count v k : 0 <= v -> 0 < count -> Z.of_nat k = v / count + 1 -> lsel true count v = lq k.
Proof.
  intros Hv Hc Hk. unfold lsel, lq. destruct k as [|k]; [assert (0 <= v / count) by (apply Z.div_pos; lia); lia|].
  replace (v / count) with (Z.of_nat k) by lia.
  rewrite Nat.even_succ, <- Nat.negb_even.
  rewrite <- (Nat2Z.id (Nat.b2n (negb (Nat.even k)))). f_equal.
  destruct (Nat.even k) eqn:E.
  - apply Nat.even_spec in E. destruct E as [j ->]. rewrite Nat2Z.inj_mul. cbn [negb Nat.b2n Z.of_nat].
    rewrite Z.mul_comm. apply Z_mod_mult.
  - assert (O : Nat.odd k = true) by (rewrite <- Nat.negb_even, E; reflexivity).
    apply Nat.odd_spec in O. destruct O as [j ->]. cbn [negb Nat.b2n].
    rewrite Nat2Z.inj_add, Nat2Z.inj_mul. change (Z.of_nat 2) with 2. change (Z.of_nat 1) with 1.
    rewrite Z.add_comm, Z.mul_comm, Z_mod_plus_full. reflexivity.
Qed.

(* number of waiters the serial fiber has scheduled so far *)
Definition wcof (sg : stack bc) : Z :=
  match sg with
  | KHead _ _ wc :: _ | KNext _ _ wc _ :: _ | KSetHead _ _ wc _ _ :: _ | KData _ _ wc _ _ :: _
  | KCopy _ _ wc _ _ :: _ | KOut _ _ wc _ :: _ | KState _ _ wc _ :: _ | KReady _ _ wc _ :: _ => wc
  | _ :: KSpin _ _ wc :: _ => wc
  | _ => 0
  end.

(* a node that is in nobody's [fnode] and not in a list: carried in a frame *)
Definition held (sg : stack bc) : nat :=
  match sg with
  | WNext _ nd :: _ | WXchg _ nd :: _ => nd
  | KData _ _ _ h _ :: _ | KCopy _ _ _ h _ :: _ | KOut _ _ _ h :: _ => h
  | _ => O
  end.

Definition linking (sg : stack bc) : Prop :=
  match sg with WLink _ _ _ :: _ => True | _ => False end.

(* list q from node a on: every entry is linked to its predecessor or its
   pusher is about to link it *)
Fixpoint linked (m : kmem) (sf : nat -> stack bc) (q a : nat) (ch : list (nat * nat)) : Prop :=
  match ch with
  | [] => nnext m a = O
  | (b, u) :: rest =>
      ((nnext m a = b /\ ~ linking (sf u)) \/ (nnext m a = O /\ exists r, sf u = WLink q a b :: r))
      /\ linked m sf q b rest
  end.
Fixpoint lastn (a : nat) (ch : list (nat * nat)) : nat :=
  match ch with [] => a | (b, _) :: rest => lastn b rest end.

Definition nodes (x : ist) (q : nat) : list nat := qhead (mem (base x)) q :: map fst (chain x q).

(* ---- per-fiber clauses (q = the waiter list of the fiber's round) ---- *)
Definition Qp (x : ist) (q u : nat) : Prop := In u (pw x q).
Definition Cp (x : ist) (q u : nat) : Prop := In u (map snd (chain x q)).
Definition Fp (x : ist) (q u : nat) : Prop := infl x q = Some u.
Definition quiet (m : kmem) (u : nat) : Prop := pend m u = O /\ blocked m u = false.

Definition unq (x : ist) (q u : nat) : Prop :=
  Qp x q u /\ ~ Cp x q u /\ ~ Fp x q u /\ quiet (mem (base x)) u.
Definition presleep (x : ist) (q u : nat) : Prop :=
  let m := mem (base x) in
  fstate m u = ST_SAVING /\ blocked m u = false /\
  ((Qp x q u /\ (Cp x q u \/ Fp x q u) /\ pend m u = O) \/ (~ Qp x q u /\ pend m u = 1%nat /\ fnode m u <> O)).
Definition postres (x : ist) (q u : nat) : Prop :=
  let m := mem (base x) in
  fstate m u = ST_RUNNING /\ ~ Qp x q u /\ quiet m u /\ fnode m u <> O.
Definition asleep_ok (x : ist) (q u : nat) : Prop :=
  let m := mem (base x) in
  (Qp x q u /\ (Cp x q u \/ Fp x q u) /\ pend m u = O /\ blocked m u = true /\ fstate m u = ST_WAITING)
  \/ (~ Qp x q u /\ pend m u = O /\ blocked m u = false /\ fnode m u <> O /\
      (fstate m u = ST_WAITING \/ fstate m u = ST_READY)).
(* a fiber that is not waiting is in nobody's list *)
Definition serl (x : ist) (u : nat) : Prop :=
  let m := mem (base x) in
  (forall q, ~ Qp x q u) /\ quiet m u /\ fnode m u <> O /\ fstate m u = ST_RUNNING.

Section Inv.
Variable count : Z.

Inductive lok (x : ist) (u : nat) : stack bc -> Prop :=
| lk_done : lok x u []
| lk_start n : quiet (mem (base x)) u -> fnode (mem (base x)) u <> O -> lok x u [Start; FC (BNext n 1)]
| lk_fadd n k : quiet (mem (base x)) u -> fnode (mem (base x)) u <> O -> fstate (mem (base x)) u = ST_RUNNING ->
               lok x u [WFAdd 0 1 5; FC (BArrived n k)]
| lk_wsaving n k : unq x (lq k) u -> fnode (mem (base x)) u <> O -> lok x u [WSaving (lq k); FC (BRet n k 0)]
| lk_wdata n k : unq x (lq k) u -> fnode (mem (base x)) u <> O -> fstate (mem (base x)) u = ST_SAVING ->
                 lok x u [WData (lq k); FC (BRet n k 0)]
| lk_wnext nd n k : unq x (lq k) u -> fnode (mem (base x)) u = O -> nd <> O -> ndata (mem (base x)) nd = fname u ->
                    fstate (mem (base x)) u = ST_SAVING -> lok x u [WNext (lq k) nd; FC (BRet n k 0)]
| lk_wxchg nd n k : unq x (lq k) u -> fnode (mem (base x)) u = O -> nd <> O -> ndata (mem (base x)) nd = fname u ->
                    fstate (mem (base x)) u = ST_SAVING -> nnext (mem (base x)) nd = O ->
                    lok x u [WXchg (lq k) nd; FC (BRet n k 0)]
| lk_wlink p nd n k : Qp x (lq k) u -> In (nd, u) (chain x (lq k)) -> ~ Fp x (lq k) u -> quiet (mem (base x)) u ->
                      fstate (mem (base x)) u = ST_SAVING -> lok x u [WLink (lq k) p nd; FC (BRet n k 0)]
| lk_yread n k : presleep x (lq k) u \/ postres x (lq k) u -> lok x u [YRead; FC (BRet n k 0)]
| lk_ynext st n k : (st = ST_SAVING /\ presleep x (lq k) u) \/ (st = ST_RUNNING /\ postres x (lq k) u) ->
                    lok x u [YNext st; FC (BRet n k 0)]
| lk_swread n k : presleep x (lq k) u -> lok x u [SwRead; YLoop; FC (BRet n k 0)]
| lk_swdone n k : presleep x (lq k) u -> lok x u [SwDone; YLoop; FC (BRet n k 0)]
| lk_mread n k : presleep x (lq k) u -> lok x u [MRead; YLoop; FC (BRet n k 0)]
| lk_mflip n k : presleep x (lq k) u -> lok x u [MFlip; YLoop; FC (BRet n k 0)]
| lk_asleep n k : asleep_ok x (lq k) u -> lok x u [Asleep; YLoop; FC (BRet n k 0)]
| lk_resume n k : ~ Qp x (lq k) u -> quiet (mem (base x)) u -> fnode (mem (base x)) u <> O ->
                  lok x u [Resume; YLoop; FC (BRet n k 0)]
| lk_khead wc n k : serl x u -> infl x (lq k) = None -> lok x u [KHead (lq k) (count - 1) wc; FC (BRet n k 1)]
| lk_knext wc h n k : serl x u -> infl x (lq k) = None -> h = qhead (mem (base x)) (lq k) ->
                      lok x u [KNext (lq k) (count - 1) wc h; FC (BRet n k 1)]
| lk_ksethead wc h nx n k : serl x u -> infl x (lq k) = None -> h = qhead (mem (base x)) (lq k) -> nx <> O ->
                            nnext (mem (base x)) h = nx ->
                            lok x u [KSetHead (lq k) (count - 1) wc h nx; FC (BRet n k 1)]
| lk_kdata wc h nx n k f : serl x u -> h <> O -> qhead (mem (base x)) (lq k) = nx -> infl x (lq k) = Some f ->
                           ndata (mem (base x)) nx = fname f ->
                           lok x u [KData (lq k) (count - 1) wc h nx; FC (BRet n k 1)]
| lk_kcopy wc h d n k f : serl x u -> h <> O -> infl x (lq k) = Some f -> d = fname f ->
                          lok x u [KCopy (lq k) (count - 1) wc h d; FC (BRet n k 1)]
| lk_kout wc h n k f : serl x u -> h <> O -> infl x (lq k) = Some f -> ndata (mem (base x)) h = fname f ->
                       lok x u [KOut (lq k) (count - 1) wc h; FC (BRet n k 1)]
| lk_kstate wc f n k : serl x u -> infl x (lq k) = Some f -> fnode (mem (base x)) f <> O ->
                       lok x u [KState (lq k) (count - 1) wc f; FC (BRet n k 1)]
| lk_kready wc f n k : serl x u -> infl x (lq k) = Some f -> fnode (mem (base x)) f <> O ->
                       fstate (mem (base x)) f = ST_WAITING ->
                       lok x u [KReady (lq k) (count - 1) wc f; FC (BRet n k 1)]
| lk_kyread wc n k : serl x u -> infl x (lq k) = None -> lok x u [YRead; KSpin (lq k) (count - 1) wc; FC (BRet n k 1)]
| lk_kynext wc n k : serl x u -> infl x (lq k) = None ->
                     lok x u [YNext ST_RUNNING; KSpin (lq k) (count - 1) wc; FC (BRet n k 1)].

Definition noser (x : ist) : Prop := forall sr, ~ is_ser (stk (base x) sr).
Definition gen (x : ist) : Z := word (mem (base x)) 0%nat / count.

(* generations.  gen x = number of complete groups of count arrivals; the round
   being filled is gen x + 1 *)
Record GA (x : ist) : Prop := {
  g_nthr : nthr (base x) = Z.to_nat count;
  g_word : 0 <= word (mem (base x)) 0%nat;
  g_ser1 : forall sr sr', is_ser (stk (base x) sr) -> is_ser (stk (base x) sr') -> sr = sr';
  (* the serial fiber S of round k: no other round has been completed since *)
  g_serw : forall sr, is_ser (stk (base x) sr) ->
           let k := rnd (stk (base x) sr) in
           (sr < nthr (base x))%nat /\ Z.of_nat k = gen x /\
           Z.of_nat (length (pw x (lq k))) = count - 1 - wcof (stk (base x) sr) /\
           0 <= wcof (stk (base x) sr) /\ (wcof (stk (base x) sr) < count - 1 \/ count = 1) /\
           Z.of_nat (length (pw x (lq (S k)))) = word (mem (base x)) 0%nat mod count /\
           infl x (lq (S k)) = None;
  g_noser : noser x ->
            Z.of_nat (length (pw x (lq (S (Z.to_nat (gen x)))))) = word (mem (base x)) 0%nat mod count /\
            pw x (lq (Z.to_nat (gen x))) = [] /\ (forall q, (q < 2)%nat -> infl x q = None);
  g_pw_nodup : forall q, NoDup (pw x q);
  g_pw : forall q u, In u (pw x q) ->
         (u < nthr (base x))%nat /\ is_wait (stk (base x) u) /\ lq (rnd (stk (base x) u)) = q /\
         (Z.of_nat (rnd (stk (base x) u)) = gen x \/ Z.of_nat (rnd (stk (base x) u)) = gen x + 1) /\
         (noser x -> Z.of_nat (rnd (stk (base x) u)) = gen x + 1);
  g_pre : forall u k, (u < nthr (base x))%nat -> pre_round (stk (base x) u) = Some k ->
          Z.of_nat k = gen x + 1;
  g_woken : forall u, is_wait (stk (base x) u) -> ~ In u (pw x (lq (rnd (stk (base x) u)))) ->
            Z.of_nat (rnd (stk (base x) u)) = gen x;
  g_rets : forall t k r, In (t, k, r) (rets x) -> Z.of_nat k * count <= word (mem (base x)) 0%nat;
  g_arr : forall i t k v, nth_error (arr x) i = Some (t, k, v) -> Z.of_nat k = Z.of_nat i / count + 1;
  g_wait_lt : forall u, is_wait (stk (base x) u) -> (u < nthr (base x))%nat
}.

(* waiter list q *)
Record GL (x : ist) (q : nat) : Prop := {
  g_nodes_nodup : NoDup (nodes x q);
  g_nodes_nz : forall nd, In nd (nodes x q) -> nd <> O;
  g_tail : qtail (mem (base x)) q = lastn (qhead (mem (base x)) q) (chain x q);
  g_linked : linked (mem (base x)) (stk (base x)) q (qhead (mem (base x)) q) (chain x q);
  g_chain : forall nd u, In (nd, u) (chain x q) -> ndata (mem (base x)) nd = fname u /\ In u (pw x q);
  g_chain_nodup : NoDup (map snd (chain x q));
  g_infl : forall f, infl x q = Some f -> In f (pw x q) /\ ~ In f (map snd (chain x q))
}.

(* node ownership *)
Record GN (x : ist) : Prop := {
  g_disj : forall q q' nd, (q < 2)%nat -> (q' < 2)%nat -> In nd (nodes x q) -> In nd (nodes x q') -> q = q';
  g_fnode_inj : forall u u', fnode (mem (base x)) u <> O ->
                fnode (mem (base x)) u = fnode (mem (base x)) u' -> u = u';
  g_held_inj : forall u u', held (stk (base x) u) <> O ->
               held (stk (base x) u) = held (stk (base x) u') -> u = u';
  g_fnode_held : forall u u', fnode (mem (base x)) u <> O -> fnode (mem (base x)) u <> held (stk (base x) u');
  g_fnode_nodes : forall u q, (q < 2)%nat -> fnode (mem (base x)) u <> O -> ~ In (fnode (mem (base x)) u) (nodes x q);
  g_held_nodes : forall u q, (q < 2)%nat -> held (stk (base x) u) <> O -> ~ In (held (stk (base x) u)) (nodes x q)
}.

Record GM (x : ist) : Prop := {
  g_cnt : cnt (base x) = count;
  g_two : two (base x) = true;
  g_slots : slots_none (mem (base x));
  g_sched : forall u, slot_sched (mem (base x)) u = false;
  g_local : forall u, lok x u (stk (base x) u)
}.

Record G (x : ist) : Prop := {
  g_a : GA x; g_l : forall q, (q < 2)%nat -> GL x q; g_n : GN x; g_m : GM x }.
End Inv.
(* ---- frame lemmas: what a clause depends on ---- *)
Record same_at (m m' : kmem) (u : nat) : Prop := {
  sa_fstate : fstate m' u = fstate m u;
  sa_pend : pend m' u = pend m u;
  sa_blocked : blocked m' u = blocked m u;
  sa_fnode : fnode m' u = fnode m u
}.

Record same_ghost (x x' : ist) (u : nat) : Prop := {
  sg_q : forall q, Qp x' q u <-> Qp x q u;
  sg_c : forall q, Cp x' q u <-> Cp x q u;
  sg_f : forall q, Fp x' q u <-> Fp x q u;
  sg_in : forall q nd, In (nd, u) (chain x' q) <-> In (nd, u) (chain x q)
}.

Lemma quiet_frame m m' u : same_at m m' u -> quiet m u -> quiet m' u.
Proof. intros [A B C D] [P Q]. split; congruence. Qed.

Lemma unq_frame x x' q u : same_at (mem (base x)) (mem (base x')) u -> same_ghost x x' u -> unq x q u -> unq x' q u.
Proof.
  intros S [Gq Gc Gf _] (A & B & C & D). specialize (Gq q). specialize (Gc q). specialize (Gf q).
  split; [tauto|]. split; [tauto|]. split; [tauto|]. eapply quiet_frame; eauto.
Qed.

Lemma presleep_frame x x' q u :
  same_at (mem (base x)) (mem (base x')) u -> same_ghost x x' u -> presleep x q u -> presleep x' q u.
Proof.
  intros [A B C D] [Gq Gc Gf _]. specialize (Gq q). specialize (Gc q). specialize (Gf q).
  unfold presleep. rewrite A, B, C, D. tauto.
Qed.

Lemma postres_frame x x' q u :
  same_at (mem (base x)) (mem (base x')) u -> same_ghost x x' u -> postres x q u -> postres x' q u.
Proof.
  intros S [Gq Gc Gf _]. specialize (Gq q). unfold postres. intros (A & B & C & D). destruct S as [S1 S2 S3 S4].
  split; [congruence|]. split; [tauto|]. split; [destruct C; split; congruence|congruence].
Qed.

Lemma asleep_frame x x' q u :
  same_at (mem (base x)) (mem (base x')) u -> same_ghost x x' u -> asleep_ok x q u -> asleep_ok x' q u.
Proof.
  intros [A B C D] [Gq Gc Gf _]. specialize (Gq q). specialize (Gc q). specialize (Gf q).
  unfold asleep_ok. rewrite A, B, C, D. tauto.
Qed.

Lemma serl_frame x x' u :
  same_at (mem (base x)) (mem (base x')) u -> same_ghost x x' u -> serl x u -> serl x' u.
Proof.
  intros S [Gq Gc Gf _]. unfold serl. intros (A & B & C & D). destruct S as [S1 S2 S3 S4].
  split; [intros q; rewrite Gq; apply A|]. split; [destruct B; split; congruence|]. split; congruence.
Qed.

Lemma lok_frame count x x' u sg :
  same_at (mem (base x)) (mem (base x')) u -> same_ghost x x' u ->
  (is_ser sg -> let q := lq (rnd sg) in
                infl x' q = infl x q /\ qhead (mem (base x')) q = qhead (mem (base x)) q /\
                (forall f, infl x q = Some f -> fnode (mem (base x')) f = fnode (mem (base x)) f /\
                     (fstate (mem (base x)) f = ST_WAITING -> fstate (mem (base x')) f = ST_WAITING)) /\
                ndata (mem (base x')) (qhead (mem (base x)) q) = ndata (mem (base x)) (qhead (mem (base x)) q) /\
                (nnext (mem (base x)) (qhead (mem (base x)) q) <> O ->
                 nnext (mem (base x')) (qhead (mem (base x)) q) = nnext (mem (base x)) (qhead (mem (base x)) q))) ->
  (held sg <> O -> ndata (mem (base x')) (held sg) = ndata (mem (base x)) (held sg) /\
                   nnext (mem (base x')) (held sg) = nnext (mem (base x)) (held sg)) ->
  lok count x u sg -> lok count x' u sg.
Proof.
  intros S Gh Hs Hh L.
  pose proof (quiet_frame _ _ _ S) as Fq. pose proof (fun q => unq_frame _ _ q _ S Gh) as Fu.
  pose proof (fun q => presleep_frame _ _ q _ S Gh) as Fp'. pose proof (fun q => postres_frame _ _ q _ S Gh) as Fr.
  pose proof (fun q => asleep_frame _ _ q _ S Gh) as Fa. pose proof (serl_frame _ _ _ S Gh) as Fs.
  destruct S as [S1 S2 S3 S4]. destruct Gh as [Gq Gc Gf Gi].
  destruct L; try solve [constructor; auto; try congruence; try tauto; try (rewrite Gq; assumption);
                         try (rewrite Gf; assumption)].
  all: cbn [held] in Hh.
  all: try (destruct Hs as (A & B & C & D & E); [do 2 eexists; reflexivity|]; unfold rnd in A, B, C, D, E;
            cbn [bot last round_of] in A, B, C, D, E).
  all: try solve [econstructor; eauto; try congruence; try tauto].
  - destruct (Hh H1) as [A B]. constructor; auto; congruence.
  - destruct (Hh H1) as [A B]. constructor; auto; congruence.
  - constructor; auto; try congruence; try (rewrite Gq; assumption); try (rewrite Gf; assumption).
    apply Gi. assumption.
  - constructor. destruct H as [H|H]; [left|right]; auto.
  - constructor. destruct H as [[H1 H]|[H1 H]]; [left|right]; auto.
  - subst h. constructor; auto; try congruence. rewrite E; [assumption|]. congruence.
  - subst nx. apply (lk_kdata count x' u wc h _ n k f); auto; congruence.
  - destruct (Hh H0) as [Hd _]. apply (lk_kout count x' u wc h n k f); auto; congruence.
  - destruct (C _ H0) as [C1 C2]. constructor; auto; congruence.
  - destruct (C _ H0) as [C1 C2]. constructor; auto; congruence.
Qed.

Definition same_obs (sg sg' : stack bc) : Prop :=
  (is_ser sg' <-> is_ser sg) /\ (is_wait sg' <-> is_wait sg) /\
  (is_ser sg \/ is_wait sg -> rnd sg' = rnd sg /\ wcof sg' = wcof sg) /\
  (forall k, pre_round sg' = Some k -> pre_round sg = Some k).

Lemma same_obs_refl sg : same_obs sg sg.
Proof. repeat split; auto. Qed.

Lemma GA_frame count x x' :
  nthr (base x') = nthr (base x) -> word (mem (base x')) 0%nat = word (mem (base x)) 0%nat ->
  (forall q, pw x' q = pw x q) -> rets x' = rets x -> arr x' = arr x ->
  (forall q, infl x q = None -> infl x' q = None \/
             exists sr, is_ser (stk (base x) sr) /\ q = lq (rnd (stk (base x) sr))) ->
  (forall u, same_obs (stk (base x) u) (stk (base x') u)) ->
  GA count x -> GA count x'.
Proof.
  intros En Ew Ep Er Ea Hin Ho A.
  assert (Hs : forall u, is_ser (stk (base x') u) <-> is_ser (stk (base x) u)) by (intros u; apply Ho).
  assert (Hw : forall u, is_wait (stk (base x') u) <-> is_wait (stk (base x) u)) by (intros u; apply Ho).
  assert (Hn : noser x' <-> noser x).
  { unfold noser. split; intros H S; specialize (H S); rewrite Hs in *; exact H. }
  assert (Hg : gen count x' = gen count x) by (unfold gen; rewrite Ew; reflexivity).
  assert (Hrw : forall u, is_wait (stk (base x) u) -> rnd (stk (base x') u) = rnd (stk (base x) u)).
  { intros u H. apply (Ho u). auto. }
  destruct A as [A1 A2 A3 A4 A5 A6 A7 A8 A9 A10 A11 A12].
  constructor; rewrite ?En, ?Ew, ?Er, ?Ea, ?Hg; auto.
  - intros S S'. rewrite !Hs. apply A3.
  - intros S HS. cbv zeta. rewrite Hs in HS. destruct (Ho S) as (_ & _ & Hr & _).
    destruct (Hr (or_introl HS)) as [-> ->]. rewrite !Ep.
    destruct (A4 S HS) as (B1 & B2 & B3 & B4 & B5 & B6 & B7). repeat split; auto.
    destruct (Hin _ B7) as [H|(sr & Hsr & Heq)]; [exact H|].
    rewrite (A3 sr S Hsr HS) in Heq. exfalso. exact (lq_succ_ne _ Heq).
  - rewrite Hn. intros H. destruct (A5 H) as (B1 & B2 & B3). rewrite !Ep. repeat split; auto.
    intros q Hq. destruct (Hin q (B3 q Hq)) as [H'|(sr & Hsr & _)]; [exact H'|]. exfalso. exact (H sr Hsr).
  - intros q. rewrite Ep. apply A6.
  - intros q u. rewrite Ep. intros Hu. destruct (A7 q u Hu) as (B1 & B2 & B3 & B4 & B5).
    rewrite Hw, Hn, (Hrw u B2). repeat split; auto.
  - intros u k Hu Hp. apply (A8 u k Hu). apply Ho. exact Hp.
  - intros u. rewrite Hw. intros H1. rewrite (Hrw u H1), Ep. apply A9. exact H1.
  - intros u. rewrite Hw. apply A12.
Qed.

Lemma linked_frame m m' (sf sf' : nat -> stack bc) q ch : forall a,
  (forall nd, In nd (a :: map fst ch) -> nnext m' nd = nnext m nd) ->
  (forall u, In u (map snd ch) -> (linking (sf' u) <-> linking (sf u)) /\ (linking (sf u) -> sf' u = sf u)) ->
  linked m sf q a ch -> linked m' sf' q a ch.
Proof.
  induction ch as [|[b u] rest IH]; intros a Hn Hs L; cbn in *.
  - rewrite Hn by auto. exact L.
  - destruct L as [L1 L2]. destruct (Hs u (or_introl eq_refl)) as [S1 S2]. split.
    + rewrite Hn by auto. destruct L1 as [[A B]|[A [r B]]]; [left; tauto|right].
      split; [exact A|]. exists r. rewrite S2; [exact B|]. rewrite B. exact I.
    + apply IH; auto.
Qed.

Lemma linked_last m sf q ch : forall a, linked m sf q a ch -> nnext m (lastn a ch) = O.
Proof. induction ch as [|[b u] rest IH]; intros a L; cbn in *; [exact L|]. apply IH. apply L. Qed.

Lemma lastn_in a ch : In (lastn a ch) (a :: map fst ch).
Proof.
  revert a. induction ch as [|[b u] rest IH]; intros a; cbn; [auto|].
  right. apply (IH b).
Qed.

Lemma GL_frame x x' q :
  qhead (mem (base x')) q = qhead (mem (base x)) q ->
  qtail (mem (base x')) q = qtail (mem (base x)) q ->
  (forall nd, In nd (nodes x q) -> nnext (mem (base x')) nd = nnext (mem (base x)) nd) ->
  (forall nd, In nd (map fst (chain x q)) -> ndata (mem (base x')) nd = ndata (mem (base x)) nd) ->
  chain x' q = chain x q -> (forall u, In u (pw x q) -> In u (pw x' q)) -> infl x' q = infl x q ->
  (forall u, In u (map snd (chain x q)) ->
     (linking (stk (base x') u) <-> linking (stk (base x) u)) /\
     (linking (stk (base x) u) -> stk (base x') u = stk (base x) u)) ->
  GL x q -> GL x' q.
Proof.
  intros Eh Et En Ed Ec Ep Ei Hs [L1 L2 L3 L4 L5 L6 L7].
  assert (Eno : nodes x' q = nodes x q) by (unfold nodes; rewrite Eh, Ec; reflexivity).
  constructor; rewrite ?Eno, ?Eh, ?Et, ?Ec, ?Ei; auto.
  - eapply linked_frame; [| |exact L4]; auto.
  - intros nd u H. destruct (L5 _ _ H) as [A B]. split; [|auto].
    rewrite Ed; [exact A|]. apply in_map_iff. exists (nd, u). auto.
  - intros f Hf. destruct (L7 _ Hf). auto.
Qed.

Lemma GN_frame x x' :
  (forall u, fnode (mem (base x')) u = fnode (mem (base x)) u) ->
  (forall u, held (stk (base x') u) = held (stk (base x) u)) ->
  (forall q, (q < 2)%nat -> nodes x' q = nodes x q) ->
  GN x -> GN x'.
Proof.
  intros Ef Eh En [N0 N1 N2 N3 N4 N5].
  constructor.
  - intros q q' nd Hq Hq'. rewrite (En q Hq), (En q' Hq'). apply N0; assumption.
  - intros u u'. rewrite !Ef. apply N1.
  - intros u u'. rewrite !Eh. apply N2.
  - intros u u'. rewrite Ef, Eh. apply N3.
  - intros u q Hq. rewrite Ef, (En q Hq). apply N4. exact Hq.
  - intros u q Hq. rewrite Eh, (En q Hq). apply N5. exact Hq.
Qed.

Lemma step_two s t : two (fst (step s t)) = two s.
Proof. unfold step. destruct (kstep bc (cret (two s) (cnt s)) (mem s) t (stk s t)) as [[m1 e1] s1]. reflexivity. Qed.

(* ---- steps that only touch the stepping fiber's own state/pend/blocked ---- *)
Record priv (m m' : kmem) (t : nat) : Prop := {
  pv_ndata : ndata m' = ndata m;
  pv_nnext : nnext m' = nnext m;
  pv_word : word m' = word m;
  pv_qhead : qhead m' = qhead m;
  pv_qtail : qtail m' = qtail m;
  pv_fnode : fnode m' = fnode m;
  pv_smutex : slot_mutex m' = slot_mutex m;
  pv_swait : slot_wait m' = slot_wait m;
  pv_smpmc : slot_mpmc m' = slot_mpmc m;
  pv_ssched : slot_sched m' = slot_sched m;
  pv_fstate : forall u, u <> t -> fstate m' u = fstate m u;
  pv_pend : forall u, u <> t -> pend m' u = pend m u;
  pv_blocked : forall u, u <> t -> blocked m' u = blocked m u
}.

Definition ghost_neutral (sg : stack bc) : Prop :=
  match sg with
  | WXchg _ _ :: _ | KSetHead _ _ _ _ _ :: _ | KState _ _ _ _ :: _ | KReady _ _ _ _ :: _ | WFAdd _ _ _ :: _ => False
  | _ => True
  end.

Lemma ghost_neutral_eq x t : ghost_neutral (stk (base x) t) ->
  chain (lstep x t) = chain x /\ infl (lstep x t) = infl x /\ pw (lstep x t) = pw x.
Proof.
  intros H. rewrite lstep_chain, lstep_infl, lstep_pw.
  destruct (stk (base x) t) as [|[] ?]; try contradiction; auto.
Qed.

Lemma bot_same_logs x t :
  bot (stk (base (lstep x t)) t) = bot (stk (base x) t) \/ (exists n k, bot (stk (base x) t) = Some (BNext n k)) ->
  rets (lstep x t) = rets x /\ arr (lstep x t) = arr x.
Proof.
  intros H. rewrite lstep_rets, lstep_arr. rewrite <- lstep_erase. destruct H as [H|(n & k & H)].
  - rewrite H. destruct (bot (stk (base x) t)) as [[]|]; auto.
  - rewrite H. auto.
Qed.

Lemma same_ghost_refl x x' u : pw x' = pw x -> chain x' = chain x -> infl x' = infl x -> same_ghost x x' u.
Proof. intros A B C. constructor; intros; unfold Qp, Cp, Fp; rewrite ?A, ?B, ?C; tauto. Qed.

Lemma private_step count x t m1 e1 s1 :
  G count x ->
  kstep bc (cret true count) (mem (base x)) t (stk (base x) t) = (m1, e1, s1) ->
  priv (mem (base x)) m1 t ->
  same_obs (stk (base x) t) s1 -> held s1 = held (stk (base x) t) ->
  ~ linking (stk (base x) t) -> ~ linking s1 ->
  (chain (lstep x t) = chain x /\ infl (lstep x t) = infl x /\ pw (lstep x t) = pw x) ->
  (bot s1 = bot (stk (base x) t) \/ exists n k, bot (stk (base x) t) = Some (BNext n k)) ->
  (forall q, (q < 2)%nat -> infl x q = Some t -> fstate (mem (base x)) t = ST_WAITING -> fstate m1 t = ST_WAITING) ->
  (mem (base (lstep x t)) = m1 -> pw (lstep x t) = pw x -> chain (lstep x t) = chain x ->
   infl (lstep x t) = infl x -> lok count (lstep x t) t s1) ->
  G count (lstep x t).
Proof.
  intros [A L N M] K P So Hh Nl Nl' Gn Hb Hw Hl.
  pose proof (g_cnt _ _ M) as Ec. pose proof (g_two _ _ M) as Etw.
  assert (K' : kstep bc (cret (two (base x)) (cnt (base x))) (mem (base x)) t (stk (base x) t) = (m1, e1, s1)) by (rewrite Ec, Etw; exact K).
  destruct (lstep_view x t m1 e1 s1 K') as (Em & Es & Eo & Ecn & Enn).
  destruct Gn as (Gc & Gi & Gp).
  assert (Eb : bot (stk (base (lstep x t)) t) = bot (stk (base x) t) \/ exists n k, bot (stk (base x) t) = Some (BNext n k))
    by (rewrite Es; exact Hb).
  destruct (bot_same_logs x t Eb) as [Gr Ga].
  destruct P as [P1 P2 P3 P4 P5 P6 P7 P8 P9 P10 P11 P12 P13].
  assert (Eno : forall q, nodes (lstep x t) q = nodes x q) by (intros q; unfold nodes; rewrite Em, P4, Gc; reflexivity).
  constructor.
  - apply (GA_frame count x); [exact Enn|rewrite Em, P3; reflexivity|intros q; rewrite Gp; reflexivity|exact Gr|exact Ga
                              |intros q Hq; left; rewrite Gi; exact Hq| |exact A].
    intros u. destruct (Nat.eq_dec u t) as [->|Ne]; [rewrite Es; exact So|].
    rewrite Eo by exact Ne. apply same_obs_refl.
  - intros q Hq. apply (GL_frame x); auto; try (rewrite Em, ?P1, ?P2, ?P4, ?P5; reflexivity); try (rewrite ?Gc, ?Gi; reflexivity).
    + rewrite Gp. auto.
    + intros u _. destruct (Nat.eq_dec u t) as [->|Ne]; [rewrite Es; tauto|].
      rewrite Eo by exact Ne. tauto.
  - apply (GN_frame x); auto; try (intros; rewrite Em, P6; reflexivity).
    intros u. destruct (Nat.eq_dec u t) as [->|Ne]; [rewrite Es; exact Hh|]. rewrite Eo by exact Ne. reflexivity.
  - destruct M as [M1 M0 M2 M3 M4]. constructor.
    + rewrite Ecn. exact M1.
    + rewrite lstep_erase, step_two. exact M0.
    + rewrite Em. eapply slots_none_same; eauto.
    + intros u. rewrite Em, P10. apply M3.
    + intros u. destruct (Nat.eq_dec u t) as [->|Ne]; [rewrite Es; apply Hl; assumption|].
      rewrite Eo by exact Ne. apply (lok_frame count x); [| | | |apply M4].
      * rewrite Em. constructor; [apply P11|apply P12|apply P13|rewrite P6]; auto.
      * apply same_ghost_refl; assumption.
      * intros _. cbv zeta. rewrite Em, P4, P1, P2, P6, Gi. repeat split; auto.
        intros Hf. destruct (Nat.eq_dec f t) as [->|Nf]; [eapply (Hw _ (lq_lt _)); eauto|].
        rewrite P11 by exact Nf. exact Hf.
      * intros _. rewrite Em, P1, P2. auto.
Qed.
Ltac priv_tac := constructor; try reflexivity; intros; cbn; try apply upd_other; auto.
Ltac obs := unfold same_obs, is_ser, is_wait, rnd; cbn; repeat split; intros;
  repeat match goal with
         | H : exists _, _ |- _ => destruct H
         | H : _ \/ _ |- _ => destruct H
         end; try discriminate; auto; try tauto; try (do 2 eexists; reflexivity).

Section Steps.
Variable count : Z.
Hypothesis Hcount : 1 <= count.

(* the fiber whose entry is in flight on list q waits in a round that uses list q *)
Lemma infl_own x q t :
  G count x -> (q < 2)%nat -> infl x q = Some t ->
  In t (pw x q) /\ ~ In t (map snd (chain x q)) /\ is_wait (stk (base x) t) /\ lq (rnd (stk (base x) t)) = q.
Proof.
  intros Gx Hq Hi. destruct (g_infl _ _ (g_l _ _ Gx q Hq) _ Hi) as [A B].
  destruct (g_pw _ _ (g_a _ _ Gx) q t A) as (_ & C & D & _). auto.
Qed.

Lemma no_infl x t n k r :
  G count x -> bot (stk (base x) t) = Some (BRet n k r) -> (~ Fp x (lq k) t \/ ~ Qp x (lq k) t \/ r = 1) ->
  forall q, (q < 2)%nat -> infl x q = Some t -> False.
Proof.
  intros Gx Hb Hn q Hq Hi. destruct (infl_own x q t Gx Hq Hi) as (A & _ & (n' & k' & C) & D).
  unfold rnd in D. rewrite Hb in D, C. cbn in D. subst q. destruct Hn as [Hn|[Hn|Hn]]; [exact (Hn Hi)|exact (Hn A)|].
  subst r. discriminate.
Qed.

Lemma ghost_unq x x' q t :
  pw x' = pw x -> chain x' = chain x -> infl x' = infl x ->
  pend (mem (base x')) t = pend (mem (base x)) t -> blocked (mem (base x')) t = blocked (mem (base x)) t ->
  unq x q t -> unq x' q t.
Proof.
  intros A B C D E (U1 & U2 & U3 & U4 & U5). unfold unq, Qp, Cp, Fp, quiet in *.
  rewrite A, B, C, D, E. tauto.
Qed.

Lemma step_wsaving x t n k :
  G count x -> stk (base x) t = [WSaving (lq k); FC (BRet n k 0)] -> G count (lstep x t).
Proof.
  intros Gx E. pose proof (g_local _ _ (g_m _ _ Gx) t) as L. rewrite E in L. inversion L; subst.
  match goal with H : unq _ _ _ |- _ => pose proof H as (Uq & Uc & Uf & Uqt) end.
  eapply (private_step count x t); [exact Gx|rewrite E; cbn [kstep]; reflexivity|..]; rewrite ?E.
  - priv_tac.
  - obs.
  - reflexivity.
  - cbn. tauto.
  - cbn. tauto.
  - apply ghost_neutral_eq; rewrite E; exact I.
  - left; reflexivity.
  - intros q Hq Hi. exfalso. eapply (no_infl x t n k 0 Gx); eauto. rewrite E; reflexivity.
  - intros Em Ep Ech Ei. constructor.
    + eapply ghost_unq; eauto; rewrite Em; reflexivity.
    + rewrite Em. assumption.
    + rewrite Em. cbn. apply upd_same.
Qed.

Ltac inv_local Gx t E L :=
  pose proof (g_local _ _ (g_m _ _ Gx) t) as L; rewrite E in L; inversion L; subst; clear L.

Lemma ghost_presleep x x' q t :
  pw x' = pw x -> chain x' = chain x -> infl x' = infl x -> mem (base x') = mem (base x) ->
  presleep x q t -> presleep x' q t.
Proof. intros A B C D. apply presleep_frame; [rewrite D; constructor; reflexivity|apply same_ghost_refl; auto]. Qed.
Lemma ghost_postres x x' q t :
  pw x' = pw x -> chain x' = chain x -> infl x' = infl x -> mem (base x') = mem (base x) ->
  postres x q t -> postres x' q t.
Proof. intros A B C D. apply postres_frame; [rewrite D; constructor; reflexivity|apply same_ghost_refl; auto]. Qed.
Lemma ghost_serl x x' t :
  pw x' = pw x -> chain x' = chain x -> infl x' = infl x -> mem (base x') = mem (base x) ->
  serl x t -> serl x' t.
Proof. intros A B C D. apply serl_frame; [rewrite D; constructor; reflexivity|apply same_ghost_refl; auto]. Qed.

Lemma priv_refl m t : priv m m t.
Proof. constructor; auto. Qed.

Lemma step_wyread x t n k :
  G count x -> stk (base x) t = [YRead; FC (BRet n k 0)] -> G count (lstep x t).
Proof.
  intros Gx E. inv_local Gx t E L.
  eapply (private_step count x t); [exact Gx|rewrite E; cbn [kstep]; reflexivity|..]; rewrite ?E.
  - apply priv_refl.
  - obs.
  - reflexivity.
  - cbn; tauto.
  - cbn; tauto.
  - apply ghost_neutral_eq; rewrite E; exact I.
  - left; reflexivity.
  - auto.
  - intros Em Ep Ech Ei. constructor.
    match goal with H : _ \/ _ |- _ => destruct H as [P|P] end.
    + left. split; [apply P|]. eapply ghost_presleep; eauto.
    + right. split; [apply P|]. eapply ghost_postres; eauto.
Qed.

Lemma step_wynext_switch x t n k :
  G count x -> stk (base x) t = [YNext ST_SAVING; FC (BRet n k 0)] -> G count (lstep x t).
Proof.
  intros Gx E. inv_local Gx t E L.
  match goal with H : _ \/ _ |- _ => destruct H as [[_ P]|[P _]]; [|discriminate] end.
  eapply (private_step count x t); [exact Gx|rewrite E; cbn [kstep]; reflexivity|..]; rewrite ?E.
  - apply priv_refl.
  - obs.
  - reflexivity.
  - cbn; tauto.
  - cbn; tauto.
  - apply ghost_neutral_eq; rewrite E; exact I.
  - left; reflexivity.
  - auto.
  - intros Em Ep Ech Ei. constructor. eapply ghost_presleep; eauto.
Qed.

Lemma step_wswread x t n k :
  G count x -> stk (base x) t = [SwRead; YLoop; FC (BRet n k 0)] -> G count (lstep x t).
Proof.
  intros Gx E. inv_local Gx t E L.
  match goal with H : presleep _ _ _ |- _ => pose proof H as (Ps & _) end.
  eapply (private_step count x t); [exact Gx|rewrite E; cbn [kstep]; rewrite Ps; reflexivity|..]; rewrite ?E.
  - apply priv_refl.
  - obs.
  - reflexivity.
  - cbn; tauto.
  - cbn; tauto.
  - apply ghost_neutral_eq; rewrite E; exact I.
  - left; reflexivity.
  - auto.
  - intros Em Ep Ech Ei. constructor. eapply ghost_presleep; eauto.
Qed.

Lemma step_wswdone x t n k :
  G count x -> stk (base x) t = [SwDone; YLoop; FC (BRet n k 0)] -> G count (lstep x t).
Proof.
  intros Gx E. inv_local Gx t E L.
  eapply (private_step count x t); [exact Gx|rewrite E; cbn [kstep]; reflexivity|..]; rewrite ?E.
  - apply priv_refl.
  - obs.
  - reflexivity.
  - cbn; tauto.
  - cbn; tauto.
  - apply ghost_neutral_eq; rewrite E; exact I.
  - left; reflexivity.
  - auto.
  - intros Em Ep Ech Ei. constructor. eapply ghost_presleep; eauto.
Qed.

Lemma step_wmread x t n k :
  G count x -> stk (base x) t = [MRead; YLoop; FC (BRet n k 0)] -> G count (lstep x t).
Proof.
  intros Gx E. inv_local Gx t E L.
  match goal with H : presleep _ _ _ |- _ => pose proof H as (Ps & _) end.
  eapply (private_step count x t); [exact Gx|rewrite E; cbn [kstep]; rewrite Ps; reflexivity|..]; rewrite ?E.
  - apply priv_refl.
  - obs.
  - reflexivity.
  - cbn; tauto.
  - cbn; tauto.
  - apply ghost_neutral_eq; rewrite E; exact I.
  - left; reflexivity.
  - auto.
  - intros Em Ep Ech Ei. constructor. eapply ghost_presleep; eauto.
Qed.

Lemma step_wmflip x t n k :
  G count x -> stk (base x) t = [MFlip; YLoop; FC (BRet n k 0)] -> G count (lstep x t).
Proof.
  intros Gx E. inv_local Gx t E L.
  match goal with H : presleep _ _ _ |- _ => pose proof H as (Ps & Pb & Pc) end.
  pose proof (g_sched _ _ (g_m _ _ Gx) t) as Hsc. destruct (g_slots _ _ (g_m _ _ Gx) t) as (S1 & S2 & S3).
  destruct Pc as [(Pq & Pcf & Pp)|(Pq & Pp & Pf)].
  - eapply (private_step count x t); [exact Gx|rewrite E; cbn [kstep]; rewrite run_slots_plain by (cbn; assumption);
      cbn [pend set_fstate]; rewrite Pp; reflexivity|..]; rewrite ?E.
    + priv_tac.
    + obs.
    + reflexivity.
    + cbn; tauto.
    + cbn; tauto.
    + apply ghost_neutral_eq; rewrite E; exact I.
    + left; reflexivity.
    + intros _ _ _ Hw. rewrite Ps in Hw. discriminate.
    + intros Em Ep Ech Ei. constructor. left. unfold Qp, Cp, Fp in *. rewrite Ep, Ech, Ei, Em. cbn.
      rewrite !upd_same. auto.
  - eapply (private_step count x t); [exact Gx|rewrite E; cbn [kstep]; rewrite run_slots_plain by (cbn; assumption);
      cbn [pend set_fstate]; rewrite Pp; reflexivity|..]; rewrite ?E.
    + priv_tac.
    + obs.
    + reflexivity.
    + cbn; tauto.
    + cbn; tauto.
    + apply ghost_neutral_eq; rewrite E; exact I.
    + left; reflexivity.
    + intros _ _ _ Hw. rewrite Ps in Hw. discriminate.
    + intros Em Ep Ech Ei. constructor; unfold Qp, quiet in *; rewrite ?Ep, ?Em; cbn; rewrite ?upd_same; auto.
Qed.

Lemma step_wasleep x t n k :
  G count x -> status_of (base x) t = SReady ->
  stk (base x) t = [Asleep; YLoop; FC (BRet n k 0)] -> G count (lstep x t).
Proof.
  intros Gx Hst E. inv_local Gx t E L.
  assert (Hb : blocked (mem (base x)) t = false).
  { unfold status_of in Hst. rewrite E in Hst. cbn [kstatus] in Hst.
    destruct (t <? nthr (base x))%nat; [|discriminate]. destruct (blocked (mem (base x)) t); [discriminate|reflexivity]. }
  match goal with H : asleep_ok _ _ _ |- _ => destruct H as [(_ & _ & _ & Hb' & _)|(Aq & Ap & Ab & Af & As)] end; [congruence|].
  eapply (private_step count x t); [exact Gx|rewrite E; cbn [kstep]; reflexivity|..]; rewrite ?E.
  - apply priv_refl.
  - obs.
  - reflexivity.
  - cbn; tauto.
  - cbn; tauto.
  - apply ghost_neutral_eq; rewrite E; exact I.
  - left; reflexivity.
  - auto.
  - intros Em Ep Ech Ei. constructor; unfold Qp, quiet in *; rewrite ?Ep, ?Em; auto.
Qed.

Lemma step_wresume x t n k :
  G count x -> stk (base x) t = [Resume; YLoop; FC (BRet n k 0)] -> G count (lstep x t).
Proof.
  intros Gx E. inv_local Gx t E L.
  match goal with H : quiet _ _ |- _ => pose proof H as [Hp Hb] end.
  eapply (private_step count x t); [exact Gx|rewrite E; cbn [kstep ret]; reflexivity|..]; rewrite ?E.
  - priv_tac.
  - obs.
  - reflexivity.
  - cbn; tauto.
  - cbn; tauto.
  - apply ghost_neutral_eq; rewrite E; exact I.
  - left; reflexivity.
  - intros q Hq Hi. exfalso. eapply (no_infl x t n k 0 Gx); eauto. rewrite E; reflexivity.
  - intros Em Ep Ech Ei. constructor. right. unfold postres, Qp, quiet in *. rewrite Ep, Em. cbn.
    rewrite !upd_same. auto.
Qed.

Ltac pfin := first [apply priv_refl | obs | reflexivity | (cbn; tauto) | exact I | (left; reflexivity) | auto].

Lemma step_khead x t wc n k :
  G count x -> stk (base x) t = [KHead (lq k) (count - 1) wc; FC (BRet n k 1)] -> G count (lstep x t).
Proof.
  intros Gx E. inv_local Gx t E L.
  eapply (private_step count x t); [exact Gx|rewrite E; cbn [kstep]; reflexivity|..]; rewrite ?E.
  - apply priv_refl.
  - obs.
  - reflexivity.
  - cbn; tauto.
  - cbn; tauto.
  - apply ghost_neutral_eq; rewrite E; exact I.
  - left; reflexivity.
  - auto.
  - intros Em Ep Ech Ei. constructor; [eapply ghost_serl; eauto|congruence|rewrite Em; reflexivity].
Qed.

(* KNext when the next pointer is not NULL *)
Lemma step_knext_some x t wc h n k nx :
  G count x -> stk (base x) t = [KNext (lq k) (count - 1) wc h; FC (BRet n k 1)] ->
  nnext (mem (base x)) h = S nx -> G count (lstep x t).
Proof.
  intros Gx E Hn. inv_local Gx t E L.
  eapply (private_step count x t); [exact Gx|rewrite E; cbn [kstep]; rewrite Hn; reflexivity|..]; rewrite ?E.
  - apply priv_refl.
  - obs.
  - reflexivity.
  - cbn; tauto.
  - cbn; tauto.
  - apply ghost_neutral_eq; rewrite E; exact I.
  - left; reflexivity.
  - auto.
  - intros Em Ep Ech Ei. constructor; [eapply ghost_serl; eauto|congruence|rewrite Em; reflexivity|discriminate|rewrite Em; exact Hn].
Qed.

(* KNext on an empty list with more waiters to collect: yield and retry *)
Lemma step_knext_spin x t wc h n k :
  G count x -> stk (base x) t = [KNext (lq k) (count - 1) wc h; FC (BRet n k 1)] ->
  nnext (mem (base x)) h = O -> (0 <? count - 1) = true -> G count (lstep x t).
Proof.
  intros Gx E Hn Hc. inv_local Gx t E L.
  eapply (private_step count x t); [exact Gx|rewrite E; cbn [kstep]; rewrite Hn, Hc; reflexivity|..]; rewrite ?E.
  - apply priv_refl.
  - obs.
  - reflexivity.
  - cbn; tauto.
  - cbn; tauto.
  - apply ghost_neutral_eq; rewrite E; exact I.
  - left; reflexivity.
  - auto.
  - intros Em Ep Ech Ei. constructor; [eapply ghost_serl; eauto|congruence].
Qed.

Lemma step_kdata x t wc h nx n k :
  G count x -> stk (base x) t = [KData (lq k) (count - 1) wc h nx; FC (BRet n k 1)] -> G count (lstep x t).
Proof.
  intros Gx E. inv_local Gx t E L.
  eapply (private_step count x t); [exact Gx|rewrite E; cbn [kstep]; reflexivity|..]; rewrite ?E.
  - apply priv_refl.
  - obs.
  - reflexivity.
  - cbn; tauto.
  - cbn; tauto.
  - apply ghost_neutral_eq; rewrite E; exact I.
  - left; reflexivity.
  - auto.
  - intros Em Ep Ech Ei. eapply lk_kcopy; [eapply ghost_serl; eauto|assumption|rewrite Ei; eassumption|assumption].
Qed.

Lemma step_kyread x t wc n k :
  G count x -> stk (base x) t = [YRead; KSpin (lq k) (count - 1) wc; FC (BRet n k 1)] -> G count (lstep x t).
Proof.
  intros Gx E. inv_local Gx t E L.
  match goal with H : serl _ _ |- _ => pose proof H as (_ & _ & _ & Hr) end.
  eapply (private_step count x t); [exact Gx|rewrite E; cbn [kstep]; rewrite Hr; reflexivity|..]; rewrite ?E.
  - apply priv_refl.
  - obs.
  - reflexivity.
  - cbn; tauto.
  - cbn; tauto.
  - apply ghost_neutral_eq; rewrite E; exact I.
  - left; reflexivity.
  - auto.
  - intros Em Ep Ech Ei. constructor; [eapply ghost_serl; eauto|congruence].
Qed.

(* the yield of a failed pop returns at once: retry *)
Lemma step_kynext_retry x t wc n k :
  G count x -> stk (base x) t = [YNext ST_RUNNING; KSpin (lq k) (count - 1) wc; FC (BRet n k 1)] ->
  (wc <? count - 1) = true -> G count (lstep x t).
Proof.
  intros Gx E Hc. inv_local Gx t E L.
  eapply (private_step count x t); [exact Gx|rewrite E; cbn [kstep]; cbn [Z.eqb orb ST_RUNNING ST_WAITING ST_DONE ST_SAVING Pos.eqb];
    rewrite ret_kspin, Hc; reflexivity|..]; rewrite ?E.
  - apply priv_refl.
  - obs.
  - reflexivity.
  - cbn; tauto.
  - cbn; tauto.
  - apply ghost_neutral_eq; rewrite E; exact I.
  - left; reflexivity.
  - auto.
  - intros Em Ep Ech Ei. constructor; [eapply ghost_serl; eauto|congruence].
Qed.

Lemma step_start x t n :
  G count x -> stk (base x) t = [Start; FC (BNext n 1)] -> G count (lstep x t).
Proof.
  intros Gx E. inv_local Gx t E L.
  eapply (private_step count x t); [exact Gx|rewrite E; cbn [kstep]; rewrite ret_bnext; reflexivity|..]; rewrite ?E.
  - priv_tac.
  - destruct n; obs.
  - destruct n; reflexivity.
  - cbn; tauto.
  - destruct n; cbn; tauto.
  - apply ghost_neutral_eq; rewrite E; exact I.
  - right. do 2 eexists. reflexivity.
  - intros q Hq Hi. exfalso. destruct (infl_own x q t Gx Hq Hi) as (_ & _ & (n' & k' & Hw) & _). rewrite E in Hw. discriminate.
  - intros Em Ep Ech Ei. destruct n; cbn; constructor; unfold quiet in *; rewrite ?Em; cbn; rewrite ?upd_same; auto.
Qed.

Lemma step_kstate_waiting x t wc f n k :
  G count x -> stk (base x) t = [KState (lq k) (count - 1) wc f; FC (BRet n k 1)] ->
  fstate (mem (base x)) f = ST_WAITING -> G count (lstep x t).
Proof.
  intros Gx E Hf. inv_local Gx t E L.
  eapply (private_step count x t); [exact Gx|rewrite E; cbn [kstep]; rewrite Hf; reflexivity|..]; rewrite ?E.
  - apply priv_refl.
  - obs.
  - reflexivity.
  - cbn; tauto.
  - cbn; tauto.
  - rewrite lstep_chain, lstep_infl, lstep_pw, E, Hf. auto.
  - left; reflexivity.
  - auto.
  - intros Em Ep Ech Ei. constructor; [eapply ghost_serl; eauto|congruence|rewrite Em; assumption|rewrite Em; assumption].
Qed.

(* a write to the node the stepping fiber carries in its frame *)
Record wr (m m' : kmem) (w : nat) : Prop := {
  wr_fstate : fstate m' = fstate m; wr_word : word m' = word m;
  wr_qhead : qhead m' = qhead m; wr_qtail : qtail m' = qtail m; wr_fnode : fnode m' = fnode m;
  wr_blocked : blocked m' = blocked m; wr_pend : pend m' = pend m;
  wr_smutex : slot_mutex m' = slot_mutex m; wr_swait : slot_wait m' = slot_wait m;
  wr_smpmc : slot_mpmc m' = slot_mpmc m; wr_ssched : slot_sched m' = slot_sched m;
  wr_ndata : forall nd, nd <> w -> ndata m' nd = ndata m nd;
  wr_nnext : forall nd, nd <> w -> nnext m' nd = nnext m nd
}.

Lemma held_write_step x t m1 e1 s1 w :
  G count x ->
  kstep bc (cret true count) (mem (base x)) t (stk (base x) t) = (m1, e1, s1) ->
  w = held (stk (base x) t) -> w <> O -> held s1 = w ->
  wr (mem (base x)) m1 w ->
  same_obs (stk (base x) t) s1 -> ~ linking (stk (base x) t) -> ~ linking s1 ->
  (chain (lstep x t) = chain x /\ infl (lstep x t) = infl x /\ pw (lstep x t) = pw x) ->
  bot s1 = bot (stk (base x) t) ->
  (mem (base (lstep x t)) = m1 -> pw (lstep x t) = pw x -> chain (lstep x t) = chain x ->
   infl (lstep x t) = infl x -> lok count (lstep x t) t s1) ->
  G count (lstep x t).
Proof.
  intros [A L N M] K Hw Hnz Hh W So Nl Nl' (Gc & Gi & Gp) Hb Hl.
  pose proof (g_cnt _ _ M) as Ec. pose proof (g_two _ _ M) as Etw.
  assert (K' : kstep bc (cret (two (base x)) (cnt (base x))) (mem (base x)) t (stk (base x) t) = (m1, e1, s1)) by (rewrite Ec, Etw; exact K).
  destruct (lstep_view x t m1 e1 s1 K') as (Em & Es & Eo & Ecn & Enn).
  assert (Eb : bot (stk (base (lstep x t)) t) = bot (stk (base x) t) \/ exists n k, bot (stk (base x) t) = Some (BNext n k))
    by (left; rewrite Es; exact Hb).
  destruct (bot_same_logs x t Eb) as [Gr Ga].
  destruct W as [W1 W2 W3 W4 W5 W6 W7 W8 W9 W10 W11 W12 W13].
  assert (Eno : forall q, nodes (lstep x t) q = nodes x q) by (intros q; unfold nodes; rewrite Em, W3, Gc; reflexivity).
  assert (Hwn : forall q, (q < 2)%nat -> ~ In w (nodes x q)).
  { intros q Hq. rewrite Hw. apply (g_held_nodes _ N); [exact Hq|]. rewrite <- Hw; exact Hnz. }
  assert (Hne : forall q nd, (q < 2)%nat -> In nd (nodes x q) -> nd <> w) by (intros q nd Hq Hi ->; exact (Hwn q Hq Hi)).
  constructor.
  - apply (GA_frame count x); [exact Enn|rewrite Em, W2; reflexivity|intros q; rewrite Gp; reflexivity|exact Gr|exact Ga
                              |intros q Hq; left; rewrite Gi; exact Hq| |exact A].
    intros u. destruct (Nat.eq_dec u t) as [->|Ne]; [rewrite Es; exact So|].
    rewrite Eo by exact Ne. apply same_obs_refl.
  - intros q Hq. apply (GL_frame x); auto; try (rewrite Em, ?W3, ?W4; reflexivity); try (rewrite ?Gc, ?Gi; reflexivity).
    + intros nd Hi. rewrite Em. apply W13. eauto.
    + intros nd Hi. rewrite Em. apply W12. apply (Hne q); [exact Hq|]. right. exact Hi.
    + rewrite Gp. auto.
    + intros u _. destruct (Nat.eq_dec u t) as [->|Ne]; [rewrite Es; tauto|].
      rewrite Eo by exact Ne. tauto.
  - apply (GN_frame x); auto; try (intros; rewrite Em, W5; reflexivity).
    intros u. destruct (Nat.eq_dec u t) as [->|Ne]; [rewrite Es; congruence|]. rewrite Eo by exact Ne. reflexivity.
  - destruct M as [M1 M0 M2 M3 M4]. constructor.
    + rewrite Ecn. exact M1.
    + rewrite lstep_erase, step_two. exact M0.
    + rewrite Em. eapply slots_none_same; eauto.
    + intros u. rewrite Em, W11. apply M3.
    + intros u. destruct (Nat.eq_dec u t) as [->|Ne]; [rewrite Es; apply Hl; assumption|].
      rewrite Eo by exact Ne. apply (lok_frame count x); [| | | |apply M4].
      * rewrite Em. constructor; [rewrite W1|rewrite W7|rewrite W6|rewrite W5]; reflexivity.
      * apply same_ghost_refl; assumption.
      * intros _. cbv zeta. rewrite Em, W3, W5, W1, Gi. repeat split; auto.
        -- apply W12. apply (Hne (lq (rnd (stk (base x) u)))); [apply lq_lt|]. left. reflexivity.
        -- intros _. apply W13. apply (Hne (lq (rnd (stk (base x) u)))); [apply lq_lt|]. left. reflexivity.
      * intros Hu. assert (held (stk (base x) u) <> w).
        { intros Eq. apply Ne. apply (g_held_inj _ N); [exact Hu|congruence]. }
        rewrite Em. split; [apply W12|apply W13]; assumption.
Qed.

Ltac wr_tac := constructor; try reflexivity; intros; cbn; apply upd_other; auto.

Lemma step_wnext x t nd n k :
  G count x -> stk (base x) t = [WNext (lq k) nd; FC (BRet n k 0)] -> G count (lstep x t).
Proof.
  intros Gx E. inv_local Gx t E L.
  eapply (held_write_step x t _ _ _ nd); [exact Gx|rewrite E; cbn [kstep]; reflexivity|..]; rewrite ?E.
  - reflexivity.
  - assumption.
  - reflexivity.
  - wr_tac.
  - obs.
  - cbn; tauto.
  - cbn; tauto.
  - apply ghost_neutral_eq; rewrite E; exact I.
  - reflexivity.
  - intros Em Ep Ech Ei. constructor; rewrite ?Em; cbn; rewrite ?upd_same; auto.
    eapply ghost_unq; eauto; rewrite Em; reflexivity.
Qed.

Lemma step_kcopy x t wc h d n k :
  G count x -> stk (base x) t = [KCopy (lq k) (count - 1) wc h d; FC (BRet n k 1)] -> G count (lstep x t).
Proof.
  intros Gx E. inv_local Gx t E L.
  eapply (held_write_step x t _ _ _ h); [exact Gx|rewrite E; cbn [kstep]; reflexivity|..]; rewrite ?E.
  - reflexivity.
  - assumption.
  - reflexivity.
  - wr_tac.
  - obs.
  - cbn; tauto.
  - cbn; tauto.
  - apply ghost_neutral_eq; rewrite E; exact I.
  - reflexivity.
  - intros Em Ep Ech Ei. eapply lk_kout; [| assumption | rewrite Ei; eassumption | rewrite Em; cbn; apply upd_same].
    apply serl_frame with (x := x); [rewrite Em; constructor; reflexivity|apply same_ghost_refl; auto|assumption].
Qed.

Lemma step_wdata x t n k :
  G count x -> stk (base x) t = [WData (lq k); FC (BRet n k 0)] -> G count (lstep x t).
Proof.
  intros Gx E. inv_local Gx t E L.
  match goal with H : unq _ _ _ |- _ => pose proof H as (Uq & Uc & Uf & Uqt) end.
  assert (Hnf : forall q, (q < 2)%nat -> infl x q = Some t -> False).
  { eapply (no_infl x t n k 0 Gx); eauto. rewrite E; reflexivity. }
  destruct Gx as [A Lg N M].
  set (m := mem (base x)) in *. set (nd := fnode m t) in *.
  pose proof (g_cnt _ _ M) as Ec.
  assert (K : kstep bc (cret (two (base x)) (cnt (base x))) m t (stk (base x) t)
              = (set_fnode (set_ndata m nd (fname t)) t O, ev t (l_data nd) 19 (fname t), [WNext (lq k) nd; FC (BRet n k 0)])).
  { rewrite E. reflexivity. }
  destruct (lstep_view x t _ _ _ K) as (Em & Es & Eo & Ecn & Enn).
  assert (Gn : ghost_neutral (stk (base x) t)) by (rewrite E; exact I).
  destruct (ghost_neutral_eq x t Gn) as (Gc & Gi & Gp).
  assert (Eb : bot (stk (base (lstep x t)) t) = bot (stk (base x) t) \/ exists n k, bot (stk (base x) t) = Some (BNext n k))
    by (left; rewrite Es, E; reflexivity).
  destruct (bot_same_logs x t Eb) as [Gr Ga].
  assert (Eno : forall q, nodes (lstep x t) q = nodes x q) by (intros q; unfold nodes; rewrite Em, Gc; reflexivity).
  assert (Hnd : nd <> O) by assumption.
  assert (Hwn : forall q, (q < 2)%nat -> ~ In nd (nodes x q)) by (intros q Hq; apply (g_fnode_nodes _ N); assumption).
  assert (Hf' : forall u, fnode (mem (base (lstep x t))) u = if Nat.eqb u t then O else fnode m u).
  { intros u. rewrite Em. cbn. unfold upd. reflexivity. }
  assert (Hh' : forall u, held (stk (base (lstep x t)) u) = if Nat.eqb u t then nd else held (stk (base x) u)).
  { intros u. destruct (Nat.eqb_spec u t) as [->|Ne]; [rewrite Es; reflexivity|rewrite Eo by exact Ne; reflexivity]. }
  assert (Hht : held (stk (base x) t) = O) by (rewrite E; reflexivity).
  constructor.
  - apply (GA_frame count x); [exact Enn|rewrite Em; reflexivity|intros q; rewrite Gp; reflexivity|exact Gr|exact Ga
                              |intros q Hq; left; rewrite Gi; exact Hq| |exact A].
    intros u. destruct (Nat.eq_dec u t) as [->|Ne]; [rewrite Es, E; obs|].
    rewrite Eo by exact Ne. apply same_obs_refl.
  - intros q Hq. apply (GL_frame x); auto; try (rewrite Em; reflexivity); try (rewrite ?Gc, ?Gi; reflexivity).
    + intros nd' Hi. rewrite Em. cbn. apply upd_other. intros ->. apply (Hwn q Hq). right. exact Hi.
    + rewrite Gp. auto.
    + intros u _. destruct (Nat.eq_dec u t) as [->|Ne]; [rewrite Es, E; cbn; tauto|].
      rewrite Eo by exact Ne. tauto.
  - destruct N as [N0 N1 N2 N3 N4 N5]. constructor.
    + intros q q' nd0 Hq Hq'. rewrite !Eno. apply N0; assumption.
    + intros u u'. rewrite !Hf'.
      destruct (Nat.eqb_spec u t) as [->|Ne]; [congruence|]. destruct (Nat.eqb_spec u' t) as [->|Ne']; [congruence|]. apply N1.
    + intros u u'. rewrite !Hh'.
      destruct (Nat.eqb_spec u t) as [->|Ne]; destruct (Nat.eqb_spec u' t) as [->|Ne']; auto.
      * intros _ Hq. exfalso. apply (N3 t u'); [exact Hnd|exact Hq].
      * intros _ Hq. exfalso. apply (N3 t u); [exact Hnd|symmetry; exact Hq].
    + intros u u'. rewrite Hf', Hh'.
      destruct (Nat.eqb_spec u t) as [->|Ne]; [congruence|]. destruct (Nat.eqb_spec u' t) as [->|Ne']; [|apply N3].
      intros Hu Hq. apply Ne. apply N1; assumption.
    + intros u q Hq. rewrite Hf', Eno. destruct (Nat.eqb_spec u t) as [->|Ne]; [congruence|apply N4; exact Hq].
    + intros u q Hq. rewrite Hh', Eno. destruct (Nat.eqb_spec u t) as [->|Ne]; [intros _; exact (Hwn q Hq)|apply N5; exact Hq].
  - destruct M as [M1 M0 M2 M3 M4]. constructor.
    + rewrite Ecn. exact M1.
    + rewrite lstep_erase, step_two. exact M0.
    + rewrite Em. eapply slots_none_same; eauto.
    + intros u. rewrite Em. apply M3.
    + intros u. destruct (Nat.eq_dec u t) as [->|Ne].
      * rewrite Es. constructor; rewrite ?Em; cbn; rewrite ?upd_same; auto.
        eapply ghost_unq; eauto; rewrite Em; reflexivity.
      * rewrite Eo by exact Ne. apply (lok_frame count x); [| | | |apply M4].
        -- rewrite Em. constructor; cbn; try reflexivity. apply upd_other. exact Ne.
        -- apply same_ghost_refl; assumption.
        -- intros _. cbv zeta. rewrite Em, Gi. cbn [qhead ndata nnext fnode fstate set_fnode set_ndata].
           split; [reflexivity|]. split; [reflexivity|]. split; [|split; [|intros _]].
           ++ intros f0 Hf0. split; [|auto]. apply upd_other. intros ->. exact (Hnf _ (lq_lt _) Hf0).
           ++ apply upd_other. intros Hq. apply (Hwn _ (lq_lt (rnd (stk (base x) u)))). left. exact Hq.
           ++ reflexivity.
        -- intros Hu. rewrite Em. cbn [qhead ndata nnext fnode fstate set_fnode set_ndata]. split; [|reflexivity]. apply upd_other.
           intros Hq. apply (g_fnode_held _ N t u); [exact Hnd|symmetry; exact Hq].
Qed.
End Steps.

Ltac inv_local Gx t E L :=
  pose proof (g_local _ _ (g_m _ _ Gx) t) as L; rewrite E in L; inversion L; subst; clear L.

Lemma tid_fname f : tid_of_name (fname f) = f.
Proof. unfold tid_of_name, fname, Zn. replace (1000 + Z.of_nat f - 1000) with (Z.of_nat f) by lia. apply Nat2Z.id. Qed.

Lemma lastn_snoc ch : forall a b u, lastn a (ch ++ [(b, u)]) = b.
Proof. induction ch as [|[b' u'] rest IH]; intros a b u; cbn; [reflexivity|apply IH]. Qed.

Lemma linked_snoc m sf q ch b u : forall a,
  linked m sf q a ch -> (exists r, sf u = WLink q (lastn a ch) b :: r) -> nnext m b = O ->
  linked m sf q a (ch ++ [(b, u)]).
Proof.
  induction ch as [|[b' u'] rest IH]; intros a L Hs Hb; cbn in *.
  - split; [right; split; assumption|exact Hb].
  - destruct L as [L1 L2]. split; [exact L1|]. apply IH; assumption.
Qed.

Lemma linked_link m sf sf' q p b u r : forall ch a,
  NoDup (a :: map fst ch) -> NoDup (map snd ch) -> In (b, u) ch ->
  sf u = WLink q p b :: r -> ~ linking (sf' u) -> (forall u', u' <> u -> sf' u' = sf u') ->
  linked m sf q a ch -> linked (set_nnext m p b) sf' q a ch /\ In p (a :: map fst ch) /\ nnext m p = O.
Proof.
  induction ch as [|[b' u'] rest IH]; intros a Nd Ns Hi Hs Hl Ho L; [destruct Hi|].
  cbn [linked map fst snd] in *. destruct L as [D Lr].
  inversion Nd as [|? ? Na Nd']; subst. inversion Ns as [|? ? Nu Ns']; subst.
  destruct (Nat.eq_dec u' u) as [->|Ne].
  - assert (b' = b).
    { destruct Hi as [Hi|Hi]; [congruence|]. exfalso. apply Nu. apply in_map_iff. exists (b, u). auto. }
    subst b'. destruct D as [[_ D]|[D1 [r' D2]]]; [exfalso; apply D; rewrite Hs; exact I|].
    assert (p = a) by congruence. subst p. split; [|split; [left; reflexivity|exact D1]]. split.
    + left. split; [cbn; apply upd_same|exact Hl].
    + apply (linked_frame m _ sf sf' q); [| |exact Lr].
      * intros nd Hn. cbn. apply upd_other. intros ->. apply Na. exact Hn.
      * intros u' Hu'. rewrite Ho; [tauto|]. intros ->. exact (Nu Hu').
  - destruct Hi as [Hi|Hi]; [congruence|].
    destruct (IH b' Nd' Ns' Hi Hs Hl Ho Lr) as (L' & Hp & Hz). split; [|split; [right; exact Hp|exact Hz]]. split; [|exact L'].
    assert (a <> p) by (intros ->; exact (Na Hp)).
    cbn [nnext set_nnext]. rewrite upd_other by exact H. rewrite (Ho u' Ne). exact D.
Qed.

Lemma linked_head m sf q a ch nx : linked m sf q a ch -> nnext m a = nx -> nx <> O ->
  exists f rest, ch = (nx, f) :: rest /\ ~ linking (sf f) /\ linked m sf q nx rest.
Proof.
  intros L Hn Hz. destruct ch as [|[b u] rest]; cbn in L; [congruence|].
  destruct L as [[[A B]|[A _]] Lr]; [|congruence]. exists u, rest. split; [congruence|].
  split; [exact B|]. replace nx with b by congruence. exact Lr.
Qed.


Section Steps2.
Variable count : Z.
Hypothesis Hcount : 1 <= count.

(* fibers queued on the other list are in a different round *)
Lemma not_in_chain_other x t n k r q' :
  G count x -> bot (stk (base x) t) = Some (BRet n k r) -> (q' < 2)%nat -> q' <> lq k ->
  ~ In t (map snd (chain x q')).
Proof.
  intros Gx Hb Hq Hne Hi. apply in_map_iff in Hi. destruct Hi as [[nd u] [Eq Hi]]. cbn in Eq. subst u.
  destruct (g_chain _ _ (g_l _ _ Gx q' Hq) _ _ Hi) as [_ Hp].
  destruct (g_pw _ _ (g_a _ _ Gx) q' t Hp) as (_ & _ & D & _). unfold rnd in D. rewrite Hb in D. cbn in D. congruence.
Qed.

(* a list that the step does not touch *)
Lemma GL_untouched x x' t q' :
  GL x q' ->
  qhead (mem (base x')) q' = qhead (mem (base x)) q' -> qtail (mem (base x')) q' = qtail (mem (base x)) q' ->
  (forall nd, In nd (nodes x q') -> nnext (mem (base x')) nd = nnext (mem (base x)) nd /\
                                    ndata (mem (base x')) nd = ndata (mem (base x)) nd) ->
  chain x' q' = chain x q' -> (forall u, In u (pw x q') -> In u (pw x' q')) -> infl x' q' = infl x q' ->
  (forall u, u <> t -> stk (base x') u = stk (base x) u) -> ~ In t (map snd (chain x q')) ->
  GL x' q'.
Proof.
  intros Lq Eh Et En Ec Ep Ei Eo Ht. apply (GL_frame x); auto.
  - intros nd Hi. apply En. exact Hi.
  - intros nd Hi. apply En. right. exact Hi.
  - intros u Hu. rewrite Eo; [tauto|]. intros ->. exact (Ht Hu).
Qed.

(* the fiber whose entry is being consumed: its clause does not depend on its fnode *)
Lemma lok_infl_fnode x x' f sg q :
  Qp x q f -> Fp x q f -> is_wait sg -> lq (rnd sg) = q ->
  fstate (mem (base x')) f = fstate (mem (base x)) f -> pend (mem (base x')) f = pend (mem (base x)) f ->
  blocked (mem (base x')) f = blocked (mem (base x)) f ->
  pw x' = pw x -> chain x' = chain x -> infl x' = infl x ->
  lok count x f sg -> lok count x' f sg.
Proof.
  intros Hq Hf Hw Hrq A B C Ep Ec Ei L.
  assert (Q' : Qp x' q f) by (unfold Qp in *; rewrite Ep; exact Hq).
  assert (F' : Fp x' q f) by (unfold Fp in *; rewrite Ei; exact Hf).
  destruct L; try (destruct Hw as (n' & k' & Hw); discriminate);
    unfold rnd in Hrq; cbn in Hrq; subst q;
    repeat match goal with
           | H : unq _ _ _ |- _ => destruct H as (_ & _ & Hnf & _); contradiction
           | H : serl _ _ |- _ => destruct H as (Hnq & _); exfalso; exact (Hnq _ Hq)
           end; try contradiction.
  - constructor. destruct H as [P|P].
    + left. destruct P as (P1 & P2 & [(P3 & P4 & P5)|(P3 & _)]); [|contradiction].
      unfold presleep. rewrite A, B, C. split; [exact P1|]. split; [exact P2|]. left. auto.
    + destruct P as (_ & P & _). contradiction.
  - constructor. destruct H as [[S P]|[S P]].
    + left. split; [exact S|]. destruct P as (P1 & P2 & [(P3 & P4 & P5)|(P3 & _)]); [|contradiction].
      unfold presleep. rewrite A, B, C. split; [exact P1|]. split; [exact P2|]. left. auto.
    + destruct P as (_ & P & _). contradiction.
  - constructor. destruct H as (P1 & P2 & [(P3 & P4 & P5)|(P3 & _)]); [|contradiction].
    unfold presleep. rewrite A, B, C. split; [exact P1|]. split; [exact P2|]. left. auto.
  - constructor. destruct H as (P1 & P2 & [(P3 & P4 & P5)|(P3 & _)]); [|contradiction].
    unfold presleep. rewrite A, B, C. split; [exact P1|]. split; [exact P2|]. left. auto.
  - constructor. destruct H as (P1 & P2 & [(P3 & P4 & P5)|(P3 & _)]); [|contradiction].
    unfold presleep. rewrite A, B, C. split; [exact P1|]. split; [exact P2|]. left. auto.
  - constructor. destruct H as (P1 & P2 & [(P3 & P4 & P5)|(P3 & _)]); [|contradiction].
    unfold presleep. rewrite A, B, C. split; [exact P1|]. split; [exact P2|]. left. auto.
  - constructor. destruct H as [(P1 & P2 & P3 & P4 & P5)|(P1 & _)]; [|contradiction].
    left. rewrite A, B, C. auto.
Qed.

Lemma step_kout x t wc h n k :
  G count x -> stk (base x) t = [KOut (lq k) (count - 1) wc h; FC (BRet n k 1)] -> G count (lstep x t).
Proof.
  intros Gx E. inv_local Gx t E L.
  match goal with H : serl _ _ |- _ => pose proof H as (Sq & Squ & Sfn & Sfs) end.
  match goal with H : infl x _ = Some _ |- _ => rename H into Hi end.
  match goal with H : ndata _ h = _ |- _ => rename H into Hd end.
  destruct (infl_own count x _ _ Gx (lq_lt k) Hi) as (Fq & Fnc & Fw & Frq).
  assert (Ntf : t <> f) by (intros ->; exact (Sq _ Fq)).
  assert (Hs1 : forall u, is_ser (stk (base x) u) -> u = t).
  { intros u Hu. apply (g_ser1 _ _ (g_a _ _ Gx)); [exact Hu|rewrite E; do 2 eexists; reflexivity]. }
  destruct Gx as [A Lg N M].
  set (m := mem (base x)) in *.
  pose proof (g_cnt _ _ M) as Ec.
  assert (K : kstep bc (cret (two (base x)) (cnt (base x))) m t (stk (base x) t)
              = (set_fnode m f h, ev t (l_data h) 9 (ndata m h), [KState (lq k) (count - 1) wc f; FC (BRet n k 1)])).
  { rewrite E. cbn [kstep]. fold m. rewrite Hd, tid_fname. reflexivity. }
  destruct (lstep_view x t _ _ _ K) as (Em & Es & Eo & Ecn & Enn).
  assert (Gn : ghost_neutral (stk (base x) t)) by (rewrite E; exact I).
  destruct (ghost_neutral_eq x t Gn) as (Gc & Gi & Gp).
  assert (Eb : bot (stk (base (lstep x t)) t) = bot (stk (base x) t) \/ exists n k, bot (stk (base x) t) = Some (BNext n k))
    by (left; rewrite Es, E; reflexivity).
  destruct (bot_same_logs x t Eb) as [Gr Ga].
  assert (Eno : forall q, nodes (lstep x t) q = nodes x q) by (intros q; unfold nodes; rewrite Em, Gc; reflexivity).
  assert (Hht : held (stk (base x) t) = h) by (rewrite E; reflexivity).
  assert (Hhn : forall q, (q < 2)%nat -> ~ In h (nodes x q)).
  { intros q Hq. rewrite <- Hht. apply (g_held_nodes _ N); [exact Hq|]. rewrite Hht; assumption. }
  assert (Hf' : forall u, fnode (mem (base (lstep x t))) u = if Nat.eqb u f then h else fnode m u).
  { intros u. rewrite Em. cbn. unfold upd. reflexivity. }
  assert (Hh' : forall u, held (stk (base (lstep x t)) u) = if Nat.eqb u t then O else held (stk (base x) u)).
  { intros u. destruct (Nat.eqb_spec u t) as [->|Ne]; [rewrite Es; reflexivity|rewrite Eo by exact Ne; reflexivity]. }
  constructor.
  - apply (GA_frame count x); [exact Enn|rewrite Em; reflexivity|intros q; rewrite Gp; reflexivity|exact Gr|exact Ga
                              |intros q Hq; left; rewrite Gi; exact Hq| |exact A].
    intros u. destruct (Nat.eq_dec u t) as [->|Ne]; [rewrite Es, E; obs|].
    rewrite Eo by exact Ne. apply same_obs_refl.
  - intros q Hq. apply (GL_frame x); auto; try (rewrite Em; reflexivity); try (rewrite ?Gc, ?Gi; reflexivity).
    + rewrite Gp. auto.
    + intros u _. destruct (Nat.eq_dec u t) as [->|Ne]; [rewrite Es, E; cbn; tauto|].
      rewrite Eo by exact Ne. tauto.
  - destruct N as [N0 N1 N2 N3 N4 N5]. subst m. constructor.
    + intros q q' nd0 Hq Hq'. rewrite !Eno. apply N0; assumption.
    + intros u u'. rewrite !Hf'.
      destruct (Nat.eqb_spec u f) as [->|Ne]; destruct (Nat.eqb_spec u' f) as [->|Ne']; auto.
      * intros Hz Hq. exfalso. apply (N3 u' t); [rewrite <- Hq; exact Hz|rewrite Hht; symmetry; exact Hq].
      * intros Hu Hq. exfalso. apply (N3 u t); [exact Hu|rewrite Hht; exact Hq].
    + intros u u'. rewrite !Hh'.
      destruct (Nat.eqb_spec u t) as [->|Ne]; [congruence|]. destruct (Nat.eqb_spec u' t) as [->|Ne']; [congruence|apply N2].
    + intros u u'. rewrite Hf', Hh'.
      destruct (Nat.eqb_spec u f) as [->|Ne]; destruct (Nat.eqb_spec u' t) as [->|Ne']; auto.
      intros _ Hq. apply Ne'. symmetry. apply N2; [rewrite Hht; assumption|congruence].
    + intros u q Hq. rewrite Hf', Eno. destruct (Nat.eqb_spec u f) as [->|Ne]; [intros _; exact (Hhn q Hq)|apply N4; exact Hq].
    + intros u q Hq. rewrite Hh', Eno. destruct (Nat.eqb_spec u t) as [->|Ne]; [congruence|apply N5; exact Hq].
  - destruct M as [M1 M0 M2 M3 M4]. constructor.
    + rewrite Ecn. exact M1.
    + rewrite lstep_erase, step_two. exact M0.
    + rewrite Em. eapply slots_none_same; eauto.
    + intros u. rewrite Em. apply M3.
    + intros u. destruct (Nat.eq_dec u t) as [->|Ne].
      * rewrite Es. constructor.
        -- unfold serl, Qp, quiet in *. rewrite Gp, Em. cbn [fnode fstate pend blocked set_fnode].
           rewrite upd_other by exact Ntf. auto.
        -- rewrite Gi. exact Hi.
        -- rewrite Em. cbn. rewrite upd_same. assumption.
      * rewrite Eo by exact Ne. destruct (Nat.eq_dec u f) as [->|Nuf].
        -- apply (lok_infl_fnode x _ f _ (lq k)); auto; rewrite ?Em; try reflexivity.
        -- apply (lok_frame count x); [| | | |apply M4].
           ++ rewrite Em. constructor; cbn; try reflexivity. apply upd_other. exact Nuf.
           ++ apply same_ghost_refl; assumption.
           ++ intros Hs. exfalso. apply Ne. apply Hs1. exact Hs.
           ++ intros _. rewrite Em. auto.
Qed.

Lemma step_wxchg x t nd n k :
  G count x -> stk (base x) t = [WXchg (lq k) nd; FC (BRet n k 0)] -> G count (lstep x t).
Proof.
  intros Gx E. inv_local Gx t E L.
  match goal with H : unq _ _ _ |- _ => pose proof H as (Uq & Uc & Uf & Uqt) end.
  assert (Eb0 : bot (stk (base x) t) = Some (BRet n k 0)) by (rewrite E; reflexivity).
  pose proof (fun q' Hq Hne => not_in_chain_other x t n k 0 q' Gx Eb0 Hq Hne) as Hoth.
  assert (Hs1 : forall u, is_ser (stk (base x) u) -> u <> t).
  { intros u (n' & k' & Hu) ->. rewrite Eb0 in Hu. discriminate. }
  destruct Gx as [A Lg N M].
  set (q := lq k) in *. assert (Hq2 : (q < 2)%nat) by apply lq_lt.
  set (m := mem (base x)) in *. set (p := qtail m q).
  pose proof (g_cnt _ _ M) as Ec.
  assert (K : kstep bc (cret (two (base x)) (cnt (base x))) m t (stk (base x) t)
              = (set_qtail m q nd, ev t (l_tail q) 43 (Zn p), [WLink q p nd; FC (BRet n k 0)])).
  { rewrite E. reflexivity. }
  destruct (lstep_view x t _ _ _ K) as (Em & Es & Eo & Ecn & Enn).
  assert (Gc : chain (lstep x t) = upd (chain x) q (chain x q ++ [(nd, t)])) by (rewrite lstep_chain, E; reflexivity).
  assert (Gi : infl (lstep x t) = infl x) by (rewrite lstep_infl, E; reflexivity).
  assert (Gp : pw (lstep x t) = pw x) by (rewrite lstep_pw, E; reflexivity).
  assert (Eb : bot (stk (base (lstep x t)) t) = bot (stk (base x) t) \/ exists n k, bot (stk (base x) t) = Some (BNext n k))
    by (left; rewrite Es, E; reflexivity).
  destruct (bot_same_logs x t Eb) as [Gr Ga].
  assert (Enoq : nodes (lstep x t) q = nodes x q ++ [nd]).
  { unfold nodes. rewrite Em, Gc, upd_same, map_app. reflexivity. }
  assert (Eno' : forall q', q' <> q -> nodes (lstep x t) q' = nodes x q').
  { intros q' Ne. unfold nodes. rewrite Em, Gc, upd_other by exact Ne. reflexivity. }
  assert (Hht : held (stk (base x) t) = nd) by (rewrite E; reflexivity).
  assert (Hnn : forall q', (q' < 2)%nat -> ~ In nd (nodes x q')).
  { intros q' Hq'. rewrite <- Hht. apply (g_held_nodes _ N); [exact Hq'|]. rewrite Hht; assumption. }
  assert (Hh' : forall u, held (stk (base (lstep x t)) u) = if Nat.eqb u t then O else held (stk (base x) u)).
  { intros u. destruct (Nat.eqb_spec u t) as [->|Ne]; [rewrite Es; reflexivity|rewrite Eo by exact Ne; reflexivity]. }
  constructor.
  - apply (GA_frame count x); [exact Enn|rewrite Em; reflexivity|intros q0; rewrite Gp; reflexivity|exact Gr|exact Ga
                              |intros q0 Hq0; left; rewrite Gi; exact Hq0| |exact A].
    intros u. destruct (Nat.eq_dec u t) as [->|Ne]; [rewrite Es, E; obs|].
    rewrite Eo by exact Ne. apply same_obs_refl.
  - intros q' Hq'. destruct (Nat.eq_dec q' q) as [->|Nq].
    + destruct (Lg q Hq2) as [L1 L2 L3 L4 L5 L6 L7].
      constructor; rewrite ?Enoq, ?Gc, ?Gi, ?Gp, ?upd_same.
      * apply nodup_snoc; auto.
      * intros nd' Hi. apply in_app_iff in Hi. destruct Hi as [Hi|[<-|[]]]; auto.
      * rewrite Em. cbn [qtail qhead set_qtail]. rewrite upd_same, lastn_snoc. reflexivity.
      * rewrite Em. cbn [qhead set_qtail]. apply linked_snoc.
        -- apply (linked_frame m _ (stk (base x))); [reflexivity| |exact L4].
           intros u Hu. rewrite Eo; [tauto|]. intros ->. exact (Uc Hu).
        -- rewrite Es. fold m in L3. unfold p. rewrite L3. eexists. reflexivity.
        -- assumption.
      * intros nd' u Hi. rewrite Em. cbn [ndata set_qtail]. apply in_app_iff in Hi.
        destruct Hi as [Hi|[Hi|[]]]; [apply L5; exact Hi|]. injection Hi as <- <-. split; assumption.
      * rewrite map_app. cbn. apply nodup_snoc; assumption.
      * intros f Hf. destruct (L7 f Hf) as [B1 B2]. split; [exact B1|]. rewrite map_app. cbn.
        intros Hi. apply in_app_iff in Hi. destruct Hi as [Hi|[<-|[]]]; [exact (B2 Hi)|exact (Uf Hf)].
    + apply (GL_untouched x _ t q'); auto; rewrite ?Em, ?Gc, ?Gi, ?Gp; cbn [qhead qtail nnext ndata set_qtail]; auto.
      * apply upd_other. exact Nq.
      * apply upd_other. exact Nq.
  - destruct N as [N0 N1 N2 N3 N4 N5]. subst m. constructor.
    + intros q1 q2 nd0 H1 H2 I1 I2.
      destruct (Nat.eq_dec q1 q) as [->|Ne1]; destruct (Nat.eq_dec q2 q) as [->|Ne2]; auto.
      * rewrite Enoq in I1. rewrite (Eno' q2 Ne2) in I2. apply in_app_iff in I1.
        destruct I1 as [I1|[<-|[]]]; [apply (N0 q q2 nd0); assumption|exfalso; exact (Hnn q2 H2 I2)].
      * rewrite Enoq in I2. rewrite (Eno' q1 Ne1) in I1. apply in_app_iff in I2.
        destruct I2 as [I2|[<-|[]]]; [apply (N0 q1 q nd0); assumption|exfalso; exact (Hnn q1 H1 I1)].
      * rewrite (Eno' q1 Ne1) in I1. rewrite (Eno' q2 Ne2) in I2. apply (N0 q1 q2 nd0); assumption.
    + intros u u'. rewrite Em. apply N1.
    + intros u u'. rewrite !Hh'.
      destruct (Nat.eqb_spec u t) as [->|Ne]; [congruence|]. destruct (Nat.eqb_spec u' t) as [->|Ne']; [congruence|apply N2].
    + intros u u'. rewrite Em, Hh'. cbn [fnode set_qtail]. destruct (Nat.eqb_spec u' t) as [->|Ne']; [auto|apply N3].
    + intros u q1 H1 Hu. rewrite Em in *. cbn [fnode set_qtail] in *. destruct (Nat.eq_dec q1 q) as [->|Ne1].
      * rewrite Enoq. intros Hi. apply in_app_iff in Hi. destruct Hi as [Hi|[Hi|[]]]; [exact (N4 u q H1 Hu Hi)|].
        apply (N3 u t Hu). rewrite Hht. symmetry. exact Hi.
      * rewrite (Eno' q1 Ne1). apply N4; assumption.
    + intros u q1 H1. rewrite Hh'. destruct (Nat.eqb_spec u t) as [->|Ne]; [congruence|]. intros Hu.
      destruct (Nat.eq_dec q1 q) as [->|Ne1].
      * rewrite Enoq. intros Hi. apply in_app_iff in Hi.
        destruct Hi as [Hi|[Hi|[]]]; [exact (N5 u q H1 Hu Hi)|]. apply Ne. apply N2; [exact Hu|congruence].
      * rewrite (Eno' q1 Ne1). apply N5; assumption.
  - destruct M as [M1 M0 M2 M3 M4]. constructor.
    + rewrite Ecn. exact M1.
    + rewrite lstep_erase, step_two. exact M0.
    + rewrite Em. eapply slots_none_same; eauto.
    + intros u. rewrite Em. apply M3.
    + intros u. destruct (Nat.eq_dec u t) as [->|Ne].
      * rewrite Es. constructor; unfold Qp, Fp, quiet in *; rewrite ?Gp, ?Gc, ?Gi, ?Em, ?upd_same; auto.
        apply in_app_iff. right. left. reflexivity.
      * rewrite Eo by exact Ne. apply (lok_frame count x); [| | | |apply M4].
        -- rewrite Em. constructor; reflexivity.
        -- constructor; intros q0; unfold Qp, Cp, Fp; rewrite ?Gp, ?Gc, ?Gi; try tauto.
           ++ destruct (Nat.eq_dec q0 q) as [->|Nq0]; [rewrite upd_same|rewrite upd_other by exact Nq0; tauto].
              rewrite map_app, in_app_iff. cbn. split; [intros [Hx|[Hx|[]]]; [exact Hx|congruence]|auto].
           ++ intros nd'. destruct (Nat.eq_dec q0 q) as [->|Nq0]; [rewrite upd_same|rewrite upd_other by exact Nq0; tauto].
              rewrite in_app_iff. cbn. split; [intros [Hx|[Hx|[]]]; [exact Hx|congruence]|auto].
        -- intros _. cbv zeta. rewrite Em, Gi. cbn. auto 6.
        -- intros _. rewrite Em. auto.
Qed.

Lemma step_wlink x t p nd n k :
  G count x -> stk (base x) t = [WLink (lq k) p nd; FC (BRet n k 0)] -> G count (lstep x t).
Proof.
  intros Gx E. inv_local Gx t E L.
  match goal with H : quiet _ _ |- _ => pose proof H as (Hpe & Hbl) end.
  match goal with H : In (nd, t) _ |- _ => rename H into Hin end.
  assert (Eb0 : bot (stk (base x) t) = Some (BRet n k 0)) by (rewrite E; reflexivity).
  pose proof (fun q' Hq Hne => not_in_chain_other x t n k 0 q' Gx Eb0 Hq Hne) as Hoth.
  destruct Gx as [A Lg N M].
  set (q := lq k) in *. assert (Hq2 : (q < 2)%nat) by apply lq_lt.
  set (m := mem (base x)) in *.
  pose proof (g_cnt _ _ M) as Ec.
  assert (K : kstep bc (cret (two (base x)) (cnt (base x))) m t (stk (base x) t)
              = (set_nnext m p nd, ev t (l_next p) 19 (Zn nd), [YRead; FC (BRet n k 0)])).
  { rewrite E. reflexivity. }
  destruct (lstep_view x t _ _ _ K) as (Em & Es & Eo & Ecn & Enn).
  assert (Gn : ghost_neutral (stk (base x) t)) by (rewrite E; exact I).
  destruct (ghost_neutral_eq x t Gn) as (Gc & Gi & Gp).
  assert (Eb : bot (stk (base (lstep x t)) t) = bot (stk (base x) t) \/ exists n k, bot (stk (base x) t) = Some (BNext n k))
    by (left; rewrite Es, E; reflexivity).
  destruct (bot_same_logs x t Eb) as [Gr Ga].
  assert (Eno : forall q0, nodes (lstep x t) q0 = nodes x q0) by (intros q0; unfold nodes; rewrite Em, Gc; reflexivity).
  destruct (Lg q Hq2) as [L1 L2 L3 L4 L5 L6 L7].
  destruct (linked_link m (stk (base x)) (stk (base (lstep x t))) q p nd t [FC (BRet n k 0)]
              (chain x q) (qhead m q) L1 L6 Hin E) as (Ll & Hp & Hz); [rewrite Es; cbn; tauto|exact Eo|exact L4|].
  constructor.
  - apply (GA_frame count x); [exact Enn|rewrite Em; reflexivity|intros q0; rewrite Gp; reflexivity|exact Gr|exact Ga
                              |intros q0 Hq0; left; rewrite Gi; exact Hq0| |exact A].
    intros u. destruct (Nat.eq_dec u t) as [->|Ne]; [rewrite Es, E; obs|].
    rewrite Eo by exact Ne. apply same_obs_refl.
  - intros q' Hq'. destruct (Nat.eq_dec q' q) as [->|Nq].
    + constructor; rewrite ?Eno, ?Gc, ?Gi, ?Gp; auto.
      * rewrite Em. exact L3.
      * rewrite Em. exact Ll.
      * rewrite Em. exact L5.
    + apply (GL_untouched x _ t q'); auto; rewrite ?Em, ?Gc, ?Gi, ?Gp; cbn [qhead qtail nnext ndata set_nnext]; auto.
      intros nd' Hi. split; [|reflexivity]. apply upd_other. intros ->.
      apply Nq. apply (g_disj _ N q' q p); auto.
  - apply (GN_frame x); auto; try (intros; rewrite Em; reflexivity).
    intros u. destruct (Nat.eq_dec u t) as [->|Ne]; [rewrite Es, E; reflexivity|]. rewrite Eo by exact Ne. reflexivity.
  - destruct M as [M1 M0 M2 M3 M4]. constructor.
    + rewrite Ecn. exact M1.
    + rewrite lstep_erase, step_two. exact M0.
    + rewrite Em. eapply slots_none_same; eauto.
    + intros u. rewrite Em. apply M3.
    + intros u. destruct (Nat.eq_dec u t) as [->|Ne].
      * rewrite Es. constructor. left. unfold presleep, Qp, Cp, Fp in *. rewrite Gp, Gc, Gi, Em.
        cbn [fstate blocked pend fnode set_nnext]. split; [assumption|]. split; [assumption|]. left.
        split; [assumption|]. split; [|assumption]. left. apply in_map_iff. exists (nd, t). auto.
      * rewrite Eo by exact Ne. apply (lok_frame count x); [| | | |apply M4].
        -- rewrite Em. constructor; reflexivity.
        -- apply same_ghost_refl; assumption.
        -- intros _. cbv zeta. rewrite Em, Gi. cbn [qhead ndata nnext fnode fstate set_nnext]. fold m.
           split; [reflexivity|]. split; [reflexivity|]. split; [auto|]. split; [reflexivity|].
           intros Hnz. apply upd_other. intros Hq. apply Hnz. rewrite Hq. exact Hz.
        -- intros Hu. rewrite Em. cbn [ndata nnext set_nnext]. split; [reflexivity|]. apply upd_other.
           intros Hq. apply (g_held_nodes _ N u q Hq2 Hu). rewrite Hq. exact Hp.
Qed.

(* the fiber whose entry is consumed by a head update: queued -> in flight *)
Lemma lok_pop x x' f sg q :
  Qp x q f -> Cp x q f -> is_wait sg -> lq (rnd sg) = q -> ~ linking sg ->
  (fstate (mem (base x')) f = fstate (mem (base x)) f /\
     pend (mem (base x')) f = pend (mem (base x)) f /\ blocked (mem (base x')) f = blocked (mem (base x)) f) ->
  pw x' = pw x -> infl x' q = Some f ->
  lok count x f sg -> lok count x' f sg.
Proof.
  intros Hq Hc Hw Hrq Hl (A & B & C) Ep Ei L.
  assert (Q' : Qp x' q f) by (unfold Qp in *; rewrite Ep; exact Hq).
  assert (F' : Fp x' q f) by (unfold Fp in *; exact Ei).
  destruct L; try (destruct Hw as (n' & k' & Hw); discriminate);
    unfold rnd in Hrq; cbn in Hrq; subst q;
    repeat match goal with
           | H : unq _ _ _ |- _ => destruct H as (_ & Hnc & _); contradiction
           | H : serl _ _ |- _ => destruct H as (Hnq & _); exfalso; exact (Hnq _ Hq)
           end; try contradiction; try (exfalso; apply Hl; exact I).
  - constructor. destruct H as [P|P].
    + left. destruct P as (P1 & P2 & [(P3 & P4 & P5)|(P3 & _)]); [|contradiction].
      unfold presleep. rewrite A, B, C. split; [exact P1|]. split; [exact P2|]. left. auto.
    + destruct P as (_ & P & _). contradiction.
  - constructor. destruct H as [[S P]|[S P]].
    + left. split; [exact S|]. destruct P as (P1 & P2 & [(P3 & P4 & P5)|(P3 & _)]); [|contradiction].
      unfold presleep. rewrite A, B, C. split; [exact P1|]. split; [exact P2|]. left. auto.
    + destruct P as (_ & P & _). contradiction.
  - constructor. destruct H as (P1 & P2 & [(P3 & P4 & P5)|(P3 & _)]); [|contradiction].
    unfold presleep. rewrite A, B, C. split; [exact P1|]. split; [exact P2|]. left. auto.
  - constructor. destruct H as (P1 & P2 & [(P3 & P4 & P5)|(P3 & _)]); [|contradiction].
    unfold presleep. rewrite A, B, C. split; [exact P1|]. split; [exact P2|]. left. auto.
  - constructor. destruct H as (P1 & P2 & [(P3 & P4 & P5)|(P3 & _)]); [|contradiction].
    unfold presleep. rewrite A, B, C. split; [exact P1|]. split; [exact P2|]. left. auto.
  - constructor. destruct H as (P1 & P2 & [(P3 & P4 & P5)|(P3 & _)]); [|contradiction].
    unfold presleep. rewrite A, B, C. split; [exact P1|]. split; [exact P2|]. left. auto.
  - constructor. destruct H as [(P1 & P2 & P3 & P4 & P5)|(P1 & _)]; [|contradiction].
    left. rewrite A, B, C. auto.
Qed.

Lemma step_ksethead x t wc h nx n k :
  G count x -> stk (base x) t = [KSetHead (lq k) (count - 1) wc h nx; FC (BRet n k 1)] -> G count (lstep x t).
Proof.
  intros Gx E.
  assert (Hinv : serl x t /\ infl x (lq k) = None /\ h = qhead (mem (base x)) (lq k) /\ nx <> O /\ nnext (mem (base x)) h = nx).
  { pose proof (g_local _ _ (g_m _ _ Gx) t) as L. rewrite E in L. inversion L; auto. }
  destruct Hinv as (Hser & Hi & Hh & Hz & Hn).
  pose proof Hser as (Sq & Squ & Sfn & Sfs).
  assert (Eb0 : bot (stk (base x) t) = Some (BRet n k 1)) by (rewrite E; reflexivity).
  assert (Hs1 : forall u, is_ser (stk (base x) u) -> u = t).
  { intros u Hu. apply (g_ser1 _ _ (g_a _ _ Gx)); [exact Hu|rewrite E; do 2 eexists; reflexivity]. }
  pose proof (g_pw _ _ (g_a _ _ Gx)) as Hpw.
  destruct Gx as [A Lg N M].
  set (q := lq k) in *. assert (Hq2 : (q < 2)%nat) by apply lq_lt.
  set (m := mem (base x)) in *. rewrite Hh in Hn.
  destruct (Lg q Hq2) as [L1 L2 L3 L4 L5 L6 L7].
  destruct (linked_head _ _ _ _ _ _ L4 Hn Hz) as (f & rest & Ech & Hlf & Lr).
  assert (Hfc : In (nx, f) (chain x q)) by (rewrite Ech; left; reflexivity).
  destruct (L5 _ _ Hfc) as [Hdf Hfq].
  assert (Ntf : t <> f) by (intros ->; exact (Sq _ Hfq)).
  pose proof (g_cnt _ _ M) as Ec.
  assert (K : kstep bc (cret (two (base x)) (cnt (base x))) m t (stk (base x) t)
              = (set_qhead m q nx, ev t (l_head q) 19 (Zn nx), [KData q (count - 1) wc (qhead m q) nx; FC (BRet n k 1)])).
  { rewrite E, Hh. reflexivity. }
  destruct (lstep_view x t _ _ _ K) as (Em & Es & Eo & Ecn & Enn).
  assert (Gc : chain (lstep x t) = upd (chain x) q rest) by (rewrite lstep_chain, E, Ech; reflexivity).
  assert (Gi : infl (lstep x t) = upd (infl x) q (Some f)) by (rewrite lstep_infl, E, Ech; reflexivity).
  assert (Gp : pw (lstep x t) = pw x) by (rewrite lstep_pw, E; reflexivity).
  assert (Eb : bot (stk (base (lstep x t)) t) = bot (stk (base x) t) \/ exists n k, bot (stk (base x) t) = Some (BNext n k))
    by (left; rewrite Es, E; reflexivity).
  destruct (bot_same_logs x t Eb) as [Gr Ga].
  assert (Eno : nodes x q = qhead m q :: nx :: map fst rest) by (unfold nodes; rewrite Ech; reflexivity).
  assert (Enoq : nodes (lstep x t) q = nx :: map fst rest).
  { unfold nodes. rewrite Em, Gc, upd_same. cbn [qhead set_qhead]. rewrite upd_same. reflexivity. }
  assert (Eno' : forall q', q' <> q -> nodes (lstep x t) q' = nodes x q').
  { intros q' Ne. unfold nodes. rewrite Em, Gc, upd_other by exact Ne. cbn [qhead set_qhead]. rewrite upd_other by exact Ne. reflexivity. }
  rewrite Eno in L1, L2. apply NoDup_cons_iff in L1. destruct L1 as [Nh Nd'].
  assert (Hh' : forall u, held (stk (base (lstep x t)) u) = if Nat.eqb u t then qhead m q else held (stk (base x) u)).
  { intros u. destruct (Nat.eqb_spec u t) as [->|Ne]; [rewrite Es; reflexivity|rewrite Eo by exact Ne; reflexivity]. }
  assert (Hht : held (stk (base x) t) = O) by (rewrite E; reflexivity).
  rewrite Ech in L6. cbn in L6. apply NoDup_cons_iff in L6. destruct L6 as [Nf Ns'].
  assert (Hsub : forall nd0, In nd0 (nodes (lstep x t) q) -> In nd0 (nodes x q)).
  { intros nd0. rewrite Enoq, Eno. intros Hin. right. exact Hin. }
  assert (Hhq : In (qhead m q) (nodes x q)) by (rewrite Eno; left; reflexivity).
  constructor.
  - apply (GA_frame count x); [exact Enn|rewrite Em; reflexivity|intros q0; rewrite Gp; reflexivity|exact Gr|exact Ga
                              | |  |exact A].
    + intros q0 Hq0. rewrite Gi. destruct (Nat.eq_dec q0 q) as [->|Nq0]; [|left; rewrite upd_other by exact Nq0; exact Hq0].
      right. exists t. split; [do 2 eexists; exact Eb0|]. unfold rnd. rewrite Eb0. reflexivity.
    + intros u. destruct (Nat.eq_dec u t) as [->|Ne]; [rewrite Es, E; obs|].
      rewrite Eo by exact Ne. apply same_obs_refl.
  - intros q' Hq'. destruct (Nat.eq_dec q' q) as [->|Nq].
    + constructor; rewrite ?Enoq, ?Gc, ?Gi, ?Gp, ?upd_same.
      * exact Nd'.
      * intros nd' Hi'. apply L2. right. exact Hi'.
      * rewrite Em. cbn [qtail qhead set_qhead]. rewrite upd_same. fold m in L3. rewrite L3, Ech. reflexivity.
      * rewrite Em. cbn [qhead set_qhead]. rewrite upd_same.
        apply (linked_frame m _ (stk (base x))); [reflexivity| |exact Lr].
        intros u Hu. rewrite Eo; [tauto|]. intros ->. apply (Sq q).
        apply in_map_iff in Hu. destruct Hu as [[nd' u'] [Eq Hu]]. cbn in Eq. subst u'.
        apply (L5 nd' t). rewrite Ech. right. exact Hu.
      * intros nd' u Hi'. rewrite Em. cbn [ndata set_qhead]. apply L5. rewrite Ech. right. exact Hi'.
      * exact Ns'.
      * intros f' Hf'. injection Hf' as <-. split; assumption.
    + apply (GL_untouched x _ t q'); auto; rewrite ?Em, ?Gc, ?Gi, ?Gp; cbn [qhead qtail nnext ndata set_qhead];
        try (apply upd_other; exact Nq); auto.
      intros Hi'. apply in_map_iff in Hi'. destruct Hi' as [[nd' u'] [Eq Hu]]. cbn in Eq. subst u'.
      apply (Sq q'). apply (g_chain _ _ (Lg q' Hq') _ _ Hu).
  - destruct N as [N0 N1 N2 N3 N4 N5]. subst m. constructor.
    + intros q1 q2 nd0 H1 H2 I1 I2.
      assert (J1 : In nd0 (nodes x q1)).
      { destruct (Nat.eq_dec q1 q) as [->|Ne1]; [apply Hsub; exact I1|rewrite <- (Eno' q1 Ne1); exact I1]. }
      assert (J2 : In nd0 (nodes x q2)).
      { destruct (Nat.eq_dec q2 q) as [->|Ne2]; [apply Hsub; exact I2|rewrite <- (Eno' q2 Ne2); exact I2]. }
      apply (N0 q1 q2 nd0); assumption.
    + intros u u'. rewrite Em. apply N1.
    + intros u u'. rewrite !Hh'.
      destruct (Nat.eqb_spec u t) as [->|Ne]; destruct (Nat.eqb_spec u' t) as [->|Ne']; auto.
      * intros _ Hq. exfalso. apply (N5 u' q Hq2); [rewrite <- Hq; apply L2; left; reflexivity|].
        rewrite <- Hq. exact Hhq.
      * intros Hu Hq. exfalso. apply (N5 u q Hq2 Hu). rewrite Hq. exact Hhq.
    + intros u u'. rewrite Em, Hh'. cbn [fnode set_qhead]. destruct (Nat.eqb_spec u' t) as [->|Ne']; [|apply N3].
      intros Hu Hq. apply (N4 u q Hq2 Hu). rewrite Hq. exact Hhq.
    + intros u q1 H1 Hu. rewrite Em in *. cbn [fnode set_qhead] in *. intros Hi'.
      apply (N4 u q1 H1 Hu). destruct (Nat.eq_dec q1 q) as [->|Ne1]; [apply Hsub; exact Hi'|rewrite <- (Eno' q1 Ne1); exact Hi'].
    + intros u q1 H1. rewrite Hh'. destruct (Nat.eqb_spec u t) as [->|Ne].
      * intros _ Hi'. destruct (Nat.eq_dec q1 q) as [->|Ne1].
        -- rewrite Enoq in Hi'. exact (Nh Hi').
        -- rewrite (Eno' q1 Ne1) in Hi'. apply Ne1. apply (N0 q1 q (qhead (mem (base x)) q)); auto.
      * intros Hu Hi'. apply (N5 u q1 H1 Hu).
        destruct (Nat.eq_dec q1 q) as [->|Ne1]; [apply Hsub; exact Hi'|rewrite <- (Eno' q1 Ne1); exact Hi'].
  - destruct M as [M1 M0 M2 M3 M4]. constructor.
    + rewrite Ecn. exact M1.
    + rewrite lstep_erase, step_two. exact M0.
    + rewrite Em. eapply slots_none_same; eauto.
    + intros u. rewrite Em. apply M3.
    + intros u. destruct (Nat.eq_dec u t) as [->|Ne].
      * rewrite Es. apply (lk_kdata count _ _ wc _ _ n k f).
        -- unfold serl, Qp, quiet in *. rewrite Gp, Em. auto.
        -- apply L2. left. reflexivity.
        -- rewrite Em. cbn. apply upd_same.
        -- rewrite Gi. apply upd_same.
        -- rewrite Em. exact Hdf.
      * rewrite Eo by exact Ne. destruct (Nat.eq_dec u f) as [->|Nuf].
        -- destruct (Hpw q f Hfq) as (_ & Fw & Frq & _).
           apply (lok_pop x _ f _ q); auto.
           ++ unfold Cp. rewrite Ech. left. reflexivity.
           ++ rewrite Em. auto.
           ++ rewrite Gi. apply upd_same.
        -- apply (lok_frame count x); [| | | |apply M4].
           ++ rewrite Em. constructor; reflexivity.
           ++ constructor; intros q0; unfold Qp, Cp, Fp; rewrite ?Gp, ?Gc, ?Gi; try tauto.
              ** destruct (Nat.eq_dec q0 q) as [->|Nq0]; [rewrite upd_same, Ech|rewrite upd_other by exact Nq0; tauto].
                 cbn. split; [auto|intros [Hx|Hx]; [congruence|exact Hx]].
              ** destruct (Nat.eq_dec q0 q) as [->|Nq0]; [rewrite upd_same, Hi|rewrite upd_other by exact Nq0; tauto].
                 split; [intros Hx; congruence|discriminate].
              ** intros nd'. destruct (Nat.eq_dec q0 q) as [->|Nq0]; [rewrite upd_same, Ech|rewrite upd_other by exact Nq0; tauto].
                 cbn. split; [auto|intros [Hx|Hx]; [congruence|exact Hx]].
           ++ intros Hs. exfalso. apply Ne. apply Hs1. exact Hs.
           ++ intros _. rewrite Em. auto.
Qed.
End Steps2.

Lemma remove_nodup (l : list nat) a : NoDup l -> NoDup (remove Nat.eq_dec a l).
Proof.
  induction l as [|b l IH]; intros N; cbn; [constructor|].
  inversion N; subst. destruct (Nat.eq_dec a b); [auto|]. constructor; auto.
  intros H. apply in_remove in H. tauto.
Qed.

Lemma remove_length (l : list nat) a : NoDup l -> In a l ->
  S (length (remove Nat.eq_dec a l)) = length l.
Proof.
  induction l as [|b l IH]; intros N H; [destruct H|]. inversion N; subst. cbn.
  destruct (Nat.eq_dec a b) as [->|Ne].
  - rewrite notin_remove by assumption. reflexivity.
  - cbn. f_equal. apply IH; [assumption|]. destruct H; [congruence|assumption].
Qed.

Lemma start_stack_obs t n k : ~ is_ser (start_stack t n k) /\ ~ is_wait (start_stack t n k) /\
  (forall k', pre_round (start_stack t n k) = Some k' -> k' = k).
Proof.
  destruct n; cbn; repeat split; try (intros (? & ? & ?); discriminate); intros k' H; try discriminate.
  injection H as <-. reflexivity.
Qed.

Lemma pre_round_obs sg k : pre_round sg = Some k -> ~ is_ser sg /\ ~ is_wait sg.
Proof.
  unfold pre_round, is_ser, is_wait. intros H.
  destruct sg as [|f1 [|f2 [|f3 r]]]; try discriminate.
  - destruct f1; discriminate.
  - destruct f1; try discriminate; destruct f2; try discriminate; destruct c; try discriminate; cbn;
      split; intros (? & ? & ?); discriminate.
  - destruct f1; try discriminate; destruct f2; try discriminate; destruct c; discriminate.
Qed.

Lemma ser_not_pre sg : is_ser sg -> pre_round sg = None.
Proof.
  intros H. destruct (pre_round sg) eqn:E; [|reflexivity]. destruct (pre_round_obs _ _ E) as [C _]. contradiction.
Qed.

Lemma pigeon (l : list nat) n t :
  NoDup l -> (forall u, In u l -> (u < n)%nat) -> ~ In t l -> (t < n)%nat -> S (length l) = n ->
  forall u, (u < n)%nat -> u = t \/ In u l.
Proof.
  intros N Hl Ht Htn Hlen u Hu.
  assert (Hincl : incl (seq 0 n) (t :: l)).
  { apply NoDup_length_incl.
    - constructor; assumption.
    - cbn. rewrite seq_length. lia.
    - intros v [<-|Hv]; apply in_seq; [lia|]. specialize (Hl v Hv). lia. }
  destruct (Hincl u) as [H|H]; [apply in_seq; lia|left; auto|right; exact H].
Qed.

Lemma lq_inj_step a b : lq a = lq b -> (a = b \/ a = S b \/ b = S a -> a = b).
Proof.
  intros H [E|[E|E]]; [exact E| |]; subst; exfalso; [exact (lq_succ_ne _ H)|exact (lq_succ_ne _ (eq_sym H))].
Qed.

Section GAsteps.
Variable count : Z.
Hypothesis Hcount : 1 <= count.

Lemma div_mod_succ v : 0 <= v ->
  ((v + 1) mod count <> 0 -> (v + 1) / count = v / count /\ (v + 1) mod count = v mod count + 1) /\
  ((v + 1) mod count = 0 -> (v + 1) / count = v / count + 1 /\ v mod count = count - 1).
Proof.
  intros Hv. assert (Hc : 0 < count) by lia.
  pose proof (Z.div_mod v count ltac:(lia)) as E. pose proof (Z.mod_pos_bound v count Hc) as B.
  pose proof (Z.div_mod (v + 1) count ltac:(lia)) as E'. pose proof (Z.mod_pos_bound (v + 1) count Hc) as B'.
  set (q := v / count) in *. set (r := v mod count) in *.
  set (q' := (v + 1) / count) in *. set (r' := (v + 1) mod count) in *.
  assert (count * (q' - q) = r + 1 - r') by lia.
  assert (q' - q = 0 \/ q' - q = 1) by nia.
  split; intros H'; nia.
Qed.

(* observations about the other fibers are unchanged *)
Definition others_same (x x' : ist) (t : nat) : Prop :=
  forall u, u <> t -> same_obs (stk (base x) u) (stk (base x') u).

(* the serial fiber t schedules f and goes on popping *)
Lemma GA_wake_continue x x' t f wc :
  GA count x -> others_same x x' t ->
  is_ser (stk (base x) t) -> is_ser (stk (base x') t) ->
  rnd (stk (base x') t) = rnd (stk (base x) t) ->
  wcof (stk (base x) t) = wc -> wcof (stk (base x') t) = wc + 1 -> wc + 1 < count - 1 ->
  nthr (base x') = nthr (base x) -> word (mem (base x')) 0%nat = word (mem (base x)) 0%nat ->
  let q := lq (rnd (stk (base x) t)) in
  pw x' = upd (pw x) q (remove Nat.eq_dec f (pw x q)) -> In f (pw x q) ->
  rets x' = rets x -> arr x' = arr x -> infl x' = upd (infl x) q None ->
  GA count x'.
Proof.
  intros A Ho St St' Er Ew Ew' Hlt En Ewd q Ep Hf Err Ea Ei.
  assert (Hs : forall u, is_ser (stk (base x') u) <-> is_ser (stk (base x) u)).
  { intros u. destruct (Nat.eq_dec u t) as [->|Ne]; [tauto|apply (Ho u Ne)]. }
  assert (Hnw : ~ is_wait (stk (base x) t) /\ ~ is_wait (stk (base x') t)).
  { destruct St as (n1 & k1 & B1). destruct St' as (n2 & k2 & B2). unfold is_wait. rewrite B1, B2.
    split; intros (? & ? & ?); discriminate. }
  assert (Hw : forall u, is_wait (stk (base x') u) <-> is_wait (stk (base x) u)).
  { intros u. destruct (Nat.eq_dec u t) as [->|Ne]; [tauto|apply (Ho u Ne)]. }
  assert (Hr : forall u, is_ser (stk (base x) u) \/ is_wait (stk (base x) u) ->
                         rnd (stk (base x') u) = rnd (stk (base x) u)).
  { intros u H. destruct (Nat.eq_dec u t) as [->|Ne]; [exact Er|]. apply (Ho u Ne). exact H. }
  assert (Hn : noser x' <-> noser x).
  { unfold noser. split; intros H S; specialize (H S); rewrite Hs in *; exact H. }
  assert (Nn : ~ noser x) by (intros H; exact (H t St)).
  assert (Uq : forall sr, is_ser (stk (base x) sr) -> sr = t) by (intros sr HS; apply (g_ser1 _ _ A); assumption).
  assert (Hg : gen count x' = gen count x) by (unfold gen; rewrite Ewd; reflexivity).
  assert (Hsub : forall q0 u, In u (pw x' q0) -> In u (pw x q0)).
  { intros q0 u. rewrite Ep. destruct (Nat.eq_dec q0 q) as [->|Nq]; [rewrite upd_same|rewrite upd_other by exact Nq; auto].
    intros H. apply in_remove in H. tauto. }
  destruct A as [A1 A2 A3 A4 A5 A6 A7 A8 A9 A10 A11 A12].
  destruct (A4 t St) as (B1 & B2 & B3 & B4 & B5 & B6 & B7). cbv zeta in B2, B3, B6, B7. fold q in B3.
  constructor; rewrite ?En, ?Ewd, ?Err, ?Ea, ?Hg; auto.
  - intros sr sr'. rewrite !Hs. apply A3.
  - intros sr HS. cbv zeta. rewrite Hs in HS. pose proof (Uq sr HS) as ->. rewrite Er, Ew', Ep, Ei. fold q.
    rewrite upd_same, (upd_other _ q), (upd_other _ q) by (apply lq_succ_ne).
    pose proof (remove_length _ f (A6 q) Hf). rewrite Ew in B3. repeat split; auto; lia.
  - rewrite Hn. tauto.
  - intros q0. rewrite Ep. destruct (Nat.eq_dec q0 q) as [->|Nq]; [rewrite upd_same; apply remove_nodup; auto|rewrite upd_other by exact Nq; auto].
  - intros q0 u Hu. apply Hsub in Hu. destruct (A7 q0 u Hu) as (C1 & C2 & C3 & C4 & C5).
    rewrite Hw, Hn, (Hr u (or_intror C2)). repeat split; auto.
  - intros u k Hu Hp. destruct (Nat.eq_dec u t) as [->|Ne]; [rewrite (ser_not_pre _ St') in Hp; discriminate|].
    apply (A8 u k Hu). apply (Ho u Ne). exact Hp.
  - intros u. rewrite Hw. intros H1. rewrite (Hr u (or_intror H1)). intros H2.
    destruct (in_dec Nat.eq_dec u (pw x (lq (rnd (stk (base x) u))))) as [Hi|Hi]; [|apply A9; assumption].
    destruct (A7 _ u Hi) as (_ & _ & C3 & C4 & _).
    (* u was removed: it is f, on the serial fiber's list *)
    assert (Hlq : lq (rnd (stk (base x) u)) = q).
    { destruct (Nat.eq_dec (lq (rnd (stk (base x) u))) q) as [E|Nq]; [exact E|].
      exfalso. apply H2. rewrite Ep, upd_other by exact Nq. exact Hi. }
    destruct C4 as [C4|C4]; [exact C4|]. exfalso.
    assert (rnd (stk (base x) u) = S (rnd (stk (base x) t))) by lia.
    rewrite H in Hlq. exact (lq_succ_ne _ Hlq).
  - intros u. rewrite Hw. apply A12.
Qed.

(* the serial fiber t of round k returns (all its waiters have been scheduled) *)
Lemma GA_serial_return x x' t n k :
  GA count x -> others_same x x' t ->
  bot (stk (base x) t) = Some (BRet n k 1) -> stk (base x') t = start_stack t n (S k) ->
  nthr (base x') = nthr (base x) -> word (mem (base x')) 0%nat = word (mem (base x)) 0%nat ->
  pw x' (lq k) = [] -> (forall q, q <> lq k -> pw x' q = pw x q) ->
  rets x' = rets x ++ [(t, k, 1)] -> arr x' = arr x ->
  infl x' (lq k) = None -> (forall q, q <> lq k -> infl x' q = infl x q) ->
  GA count x'.
Proof.
  intros A Ho Bt Es En Ewd Ep Ep' Err Ea Ei Ei'.
  assert (St : is_ser (stk (base x) t)) by (do 2 eexists; exact Bt).
  assert (Rt : rnd (stk (base x) t) = k) by (unfold rnd; rewrite Bt; reflexivity).
  destruct (start_stack_obs t n (S k)) as (O1 & O2 & O3). rewrite <- Es in O1, O2, O3.
  assert (Uq : forall sr, is_ser (stk (base x) sr) -> sr = t) by (intros sr HS; apply (g_ser1 _ _ A); assumption).
  assert (Nn' : noser x').
  { intros sr HS. destruct (Nat.eq_dec sr t) as [->|Ne]; [exact (O1 HS)|].
    apply (Ho sr Ne) in HS. apply Ne. apply Uq. exact HS. }
  assert (Hg : gen count x' = gen count x) by (unfold gen; rewrite Ewd; reflexivity).
  assert (Hrw : forall u, u <> t -> is_wait (stk (base x) u) -> rnd (stk (base x') u) = rnd (stk (base x) u)).
  { intros u Ne H. apply (Ho u Ne). auto. }
  destruct A as [A1 A2 A3 A4 A5 A6 A7 A8 A9 A10 A11 A12].
  destruct (A4 t St) as (B1 & B2 & B3 & B4 & B5 & B6 & B7). cbv zeta in B2, B3, B6, B7. rewrite Rt in B2, B3, B6, B7.
  assert (Hcz : count <> 0) by lia.
  assert (Hgk : Z.to_nat (gen count x) = k) by (rewrite <- B2; apply Nat2Z.id).
  assert (Hsub : forall q u, In u (pw x' q) -> In u (pw x q) /\ q <> lq k).
  { intros q u Hu. destruct (Nat.eq_dec q (lq k)) as [->|Nq]; [rewrite Ep in Hu; destruct Hu|].
    rewrite (Ep' q Nq) in Hu. auto. }
  constructor; rewrite ?En, ?Ewd, ?Ea, ?Hg; auto.
  - intros sr sr' HS. exfalso. exact (Nn' sr HS).
  - intros sr HS. exfalso. exact (Nn' sr HS).
  - intros _. rewrite Hgk. split; [|split].
    + rewrite (Ep' _ (lq_succ_ne k)). exact B6.
    + exact Ep.
    + intros q Hq. destruct (Nat.eq_dec q (lq k)) as [->|Nq]; [exact Ei|]. rewrite (Ei' q Nq).
      rewrite (lq_two (lq k) q (lq_lt k) Hq (fun H => Nq (eq_sym H))), <- lq_succ. exact B7.
  - intros q. destruct (Nat.eq_dec q (lq k)) as [->|Nq]; [rewrite Ep; constructor|rewrite (Ep' q Nq); apply A6].
  - intros q u Hu. destruct (Hsub q u Hu) as [Hu0 Nq]. destruct (A7 q u Hu0) as (C1 & C2 & C3 & C4 & C5).
    assert (Ne : u <> t). { intros ->. destruct C2 as (? & ? & C2). rewrite Bt in C2. discriminate. }
    rewrite (Hrw u Ne C2). split; [exact C1|]. split; [apply (Ho u Ne); exact C2|]. split; [exact C3|].
    split; [exact C4|]. intros _. destruct C4 as [C4|C4]; [|exact C4]. exfalso. apply Nq. rewrite <- C3. f_equal. lia.
  - intros u k' Hu Hp. destruct (Nat.eq_dec u t) as [->|Ne].
    + rewrite (O3 _ Hp). lia.
    + apply (A8 u k' Hu). apply (Ho u Ne). exact Hp.
  - intros u Hw Hni. destruct (Nat.eq_dec u t) as [->|Ne]; [exfalso; exact (O2 Hw)|].
    pose proof (proj1 (proj1 (proj2 (Ho u Ne))) Hw) as Hw0. rewrite (Hrw u Ne Hw0) in *.
    destruct (in_dec Nat.eq_dec u (pw x (lq (rnd (stk (base x) u))))) as [Hi|Hi]; [|apply A9; assumption].
    destruct (A7 _ u Hi) as (_ & _ & C3 & C4 & _).
    destruct (Nat.eq_dec (lq (rnd (stk (base x) u))) (lq k)) as [E|Nq].
    + destruct C4 as [C4|C4]; [exact C4|]. exfalso.
      assert (rnd (stk (base x) u) = S k) by lia. rewrite H in E. exact (lq_succ_ne _ E).
    + exfalso. apply Hni. rewrite (Ep' _ Nq). exact Hi.
  - intros t0 k0 r0. rewrite Err, in_app_iff. intros [H|[H|[]]]; [eauto|]. injection H as <- <- <-.
    rewrite B2. unfold gen. rewrite Z.mul_comm. apply Z.mul_div_le. lia.
  - intros u Hw. destruct (Nat.eq_dec u t) as [->|Ne]; [exfalso; exact (O2 Hw)|]. apply A12. apply (Ho u Ne). exact Hw.
Qed.

(* a woken waiter t returns and possibly enters the next round *)
Lemma GA_waiter_return x x' t n k :
  GA count x -> others_same x x' t ->
  bot (stk (base x) t) = Some (BRet n k 0) -> ~ In t (pw x (lq k)) -> stk (base x') t = start_stack t n (S k) ->
  nthr (base x') = nthr (base x) -> word (mem (base x')) 0%nat = word (mem (base x)) 0%nat ->
  pw x' = pw x -> rets x' = rets x ++ [(t, k, 0)] -> arr x' = arr x -> infl x' = infl x ->
  GA count x'.
Proof.
  intros A Ho Bt Hq Es En Ewd Ep Err Ea Ei.
  assert (Wt : is_wait (stk (base x) t)) by (do 2 eexists; exact Bt).
  assert (Nst : ~ is_ser (stk (base x) t)) by (unfold is_ser; rewrite Bt; intros (? & ? & ?); discriminate).
  assert (Rt : rnd (stk (base x) t) = k) by (unfold rnd; rewrite Bt; reflexivity).
  destruct (start_stack_obs t n (S k)) as (O1 & O2 & O3). rewrite <- Es in O1, O2, O3.
  assert (Hs : forall u, is_ser (stk (base x') u) <-> is_ser (stk (base x) u)).
  { intros u. destruct (Nat.eq_dec u t) as [->|Ne]; [tauto|apply (Ho u Ne)]. }
  assert (Hn : noser x' <-> noser x).
  { unfold noser. split; intros H sr; specialize (H sr); rewrite Hs in *; exact H. }
  assert (Hob : forall u, u <> t -> is_ser (stk (base x) u) \/ is_wait (stk (base x) u) ->
                rnd (stk (base x') u) = rnd (stk (base x) u) /\ wcof (stk (base x') u) = wcof (stk (base x) u)).
  { intros u Ne. apply (Ho u Ne). }
  assert (Hg : gen count x' = gen count x) by (unfold gen; rewrite Ewd; reflexivity).
  destruct A as [A1 A2 A3 A4 A5 A6 A7 A8 A9 A10 A11 A12].
  pose proof (A9 t Wt) as T1. rewrite Rt in T1. specialize (T1 Hq).
  constructor; rewrite ?En, ?Ewd, ?Ea, ?Ep, ?Ei, ?Hg; auto.
  - intros sr sr'. rewrite !Hs. apply A3.
  - intros sr HS. cbv zeta. rewrite Hs in HS. assert (Ne : sr <> t) by (intros ->; exact (Nst HS)).
    destruct (Hob sr Ne (or_introl HS)) as [-> ->]. apply A4. exact HS.
  - rewrite Hn. exact A5.
  - intros q u Hu. destruct (A7 q u Hu) as (C1 & C2 & C3 & C4 & C5).
    assert (Ne : u <> t). { intros ->. apply Hq. rewrite Rt in C3. rewrite C3. exact Hu. }
    destruct (Hob u Ne (or_intror C2)) as [-> _].
    rewrite Hn. split; [exact C1|]. split; [apply (Ho u Ne); exact C2|]. auto.
  - intros u k' Hu Hp. destruct (Nat.eq_dec u t) as [->|Ne].
    + rewrite (O3 _ Hp). lia.
    + apply (A8 u k' Hu). apply (Ho u Ne). exact Hp.
  - intros u Hw. destruct (Nat.eq_dec u t) as [->|Ne]; [exfalso; exact (O2 Hw)|].
    pose proof (proj1 (proj1 (proj2 (Ho u Ne))) Hw) as Hw0.
    destruct (Hob u Ne (or_intror Hw0)) as [-> _]. apply A9. exact Hw0.
  - intros t0 k0 r0. rewrite Err, in_app_iff. intros [H|[H|[]]]; [eauto|]. injection H as <- <- <-.
    rewrite T1. unfold gen. rewrite Z.mul_comm. apply Z.mul_div_le. lia.
  - intros u Hw. destruct (Nat.eq_dec u t) as [->|Ne]; [exfalso; exact (O2 Hw)|]. apply A12. apply (Ho u Ne). exact Hw.
Qed.

(* a fiber arrives and is not the last of its group: it will wait on list lq k *)
Lemma GA_arrive_wait x x' t n k :
  GA count x -> others_same x x' t ->
  pre_round (stk (base x) t) = Some k -> (t < nthr (base x))%nat ->
  bot (stk (base x') t) = Some (BRet n k 0) ->
  nthr (base x') = nthr (base x) ->
  word (mem (base x')) 0%nat = word (mem (base x)) 0%nat + 1 ->
  (word (mem (base x)) 0%nat + 1) mod count <> 0 ->
  pw x' = upd (pw x) (lq k) (pw x (lq k) ++ [t]) -> rets x' = rets x ->
  arr x' = arr x ++ [(t, k, word (mem (base x)) 0%nat)] ->
  Z.of_nat (length (arr x)) = word (mem (base x)) 0%nat -> infl x' = infl x ->
  GA count x'.
Proof.
  intros A Ho Hp Htn Bt En Ewd Hmod Ep Err Ea Hlen Ei.
  destruct (pre_round_obs _ _ Hp) as [Nst Nwt].
  assert (Wt' : is_wait (stk (base x') t)) by (do 2 eexists; exact Bt).
  assert (Nst' : ~ is_ser (stk (base x') t)) by (unfold is_ser; rewrite Bt; intros (? & ? & ?); discriminate).
  assert (Rt' : rnd (stk (base x') t) = k) by (unfold rnd; rewrite Bt; reflexivity).
  assert (Hs : forall u, is_ser (stk (base x') u) <-> is_ser (stk (base x) u)).
  { intros u. destruct (Nat.eq_dec u t) as [->|Ne]; [tauto|apply (Ho u Ne)]. }
  assert (Hn : noser x' <-> noser x).
  { unfold noser. split; intros H sr; specialize (H sr); rewrite Hs in *; exact H. }
  assert (Hob : forall u, u <> t -> is_ser (stk (base x) u) \/ is_wait (stk (base x) u) ->
                rnd (stk (base x') u) = rnd (stk (base x) u) /\ wcof (stk (base x') u) = wcof (stk (base x) u)).
  { intros u Ne. apply (Ho u Ne). }
  destruct A as [A1 A2 A3 A4 A5 A6 A7 A8 A9 A10 A11 A12].
  pose proof (A8 t k Htn Hp) as Hk.
  set (v := word (mem (base x)) 0%nat) in *.
  destruct (div_mod_succ v A2) as [D _]. destruct (D Hmod) as [Dq Dr].
  assert (Hg : gen count x' = gen count x) by (unfold gen; rewrite Ewd; exact Dq).
  assert (Hgk : S (Z.to_nat (gen count x)) = k).
  { apply Nat2Z.inj. rewrite Nat2Z.inj_succ, Z2Nat.id; [lia|]. unfold gen. apply Z.div_pos; lia. }
  assert (Htq : forall q, ~ In t (pw x q)).
  { intros q Hi. destruct (A7 q t Hi) as (_ & C2 & _). exact (Nwt C2). }
  constructor; rewrite ?En, ?Ewd, ?Err, ?Ei, ?Hg; auto.
  - lia.
  - intros sr sr'. rewrite !Hs. apply A3.
  - intros sr HS. cbv zeta. rewrite Hs in HS. assert (Ne : sr <> t) by (intros ->; exact (Nst HS)).
    destruct (Hob sr Ne (or_introl HS)) as [-> ->].
    destruct (A4 sr HS) as (B1 & B2 & B3 & B4 & B5 & B6 & B7). cbv zeta in B2, B3, B6, B7.
    assert (Hks : S (rnd (stk (base x) sr)) = k) by (apply Nat2Z.inj; rewrite Nat2Z.inj_succ; lia).
    rewrite Ep, Hks, upd_same. rewrite <- Hks at 1. rewrite upd_other by (apply not_eq_sym; apply lq_succ_ne).
    rewrite Hks in B6. rewrite app_length, Nat2Z.inj_add, B6, Dr. cbn. rewrite Hks in B7. repeat split; auto.
  - rewrite Hn. intros H. destruct (A5 H) as (B1 & B2 & B3). rewrite Hgk in B1. rewrite Ep, Hgk, upd_same.
    rewrite upd_other by (rewrite <- Hgk; apply not_eq_sym; apply lq_succ_ne).
    rewrite app_length, Nat2Z.inj_add, B1, Dr. cbn. repeat split; auto.
  - intros q. rewrite Ep. destruct (Nat.eq_dec q (lq k)) as [->|Nq]; [rewrite upd_same|rewrite upd_other by exact Nq; apply A6].
    apply nodup_snoc; [apply A6|apply Htq].
  - intros q u. rewrite Ep. destruct (Nat.eq_dec q (lq k)) as [->|Nq]; [rewrite upd_same|rewrite upd_other by exact Nq].
    + intros Hu. apply in_app_iff in Hu. destruct Hu as [Hu|[<-|[]]].
      * assert (Ne : u <> t) by (intros ->; exact (Htq _ Hu)).
        destruct (A7 _ u Hu) as (C1 & C2 & C3 & C4 & C5). destruct (Hob u Ne (or_intror C2)) as [-> _].
        rewrite Hn. split; [exact C1|]. split; [apply (Ho u Ne); exact C2|]. auto.
      * rewrite Rt'. split; [exact Htn|]. split; [exact Wt'|]. split; [reflexivity|]. split; [right; exact Hk|]. intros _. exact Hk.
    + intros Hu. assert (Ne : u <> t) by (intros ->; exact (Htq _ Hu)).
      destruct (A7 _ u Hu) as (C1 & C2 & C3 & C4 & C5). destruct (Hob u Ne (or_intror C2)) as [-> _].
      rewrite Hn. split; [exact C1|]. split; [apply (Ho u Ne); exact C2|]. auto.
  - intros u k' Hu Hp'. destruct (Nat.eq_dec u t) as [->|Ne].
    + exfalso. destruct (pre_round_obs _ _ Hp') as [_ H]. exact (H Wt').
    + apply (A8 u k' Hu). apply (Ho u Ne). exact Hp'.
  - intros u Hw Hi. assert (Ne : u <> t).
    { intros ->. apply Hi. rewrite Rt', Ep, upd_same. apply in_app_iff. right. left. reflexivity. }
    pose proof (proj1 (proj1 (proj2 (Ho u Ne))) Hw) as Hw0.
    destruct (Hob u Ne (or_intror Hw0)) as [E _]. rewrite E in *. apply A9; [exact Hw0|].
    intros H. apply Hi. rewrite Ep. destruct (Nat.eq_dec (lq (rnd (stk (base x) u))) (lq k)) as [Eq|Nq];
      [rewrite Eq in *; rewrite upd_same; apply in_app_iff; left; exact H|rewrite upd_other by exact Nq; exact H].
  - intros t0 k0 r0 H. specialize (A10 _ _ _ H). lia.
  - intros i t0 k0 v0. rewrite Ea. intros Hnth.
    destruct (Nat.lt_ge_cases i (length (arr x))) as [Lt|Ge].
    + rewrite nth_error_app1 in Hnth by exact Lt. eapply A11; eauto.
    + rewrite nth_error_app2 in Hnth by exact Ge.
      destruct (i - length (arr x))%nat eqn:Di; cbn in Hnth; [|destruct n0; discriminate].
      injection Hnth as <- <- <-. replace (Z.of_nat i) with v by lia. exact Hk.
  - intros u Hw. destruct (Nat.eq_dec u t) as [->|Ne]; [exact Htn|]. apply A12. apply (Ho u Ne). exact Hw.
Qed.

(* the last fiber of a group arrives: nobody else is popping, it becomes the serial
   fiber, everybody else is waiting on its list and the other list is empty *)
Lemma GA_arrive_serial x x' t n k :
  GA count x -> others_same x x' t ->
  pre_round (stk (base x) t) = Some k -> (t < nthr (base x))%nat ->
  bot (stk (base x') t) = Some (BRet n k 1) -> wcof (stk (base x') t) = 0 ->
  nthr (base x') = nthr (base x) ->
  word (mem (base x')) 0%nat = word (mem (base x)) 0%nat + 1 ->
  (word (mem (base x)) 0%nat + 1) mod count = 0 ->
  pw x' = pw x -> rets x' = rets x ->
  arr x' = arr x ++ [(t, k, word (mem (base x)) 0%nat)] ->
  Z.of_nat (length (arr x)) = word (mem (base x)) 0%nat -> infl x' = infl x ->
  GA count x' /\ noser x.
Proof.
  intros A Ho Hp Htn Bt Hwc En Ewd Hmod Ep Err Ea Hlen Ei.
  destruct (pre_round_obs _ _ Hp) as [Nst Nwt].
  assert (St' : is_ser (stk (base x') t)) by (do 2 eexists; exact Bt).
  assert (Nwt' : ~ is_wait (stk (base x') t)) by (unfold is_wait; rewrite Bt; intros (? & ? & ?); discriminate).
  assert (Rt' : rnd (stk (base x') t) = k) by (unfold rnd; rewrite Bt; reflexivity).
  assert (Hob : forall u, u <> t -> is_ser (stk (base x) u) \/ is_wait (stk (base x) u) ->
                rnd (stk (base x') u) = rnd (stk (base x) u) /\ wcof (stk (base x') u) = wcof (stk (base x) u)).
  { intros u Ne. apply (Ho u Ne). }
  destruct A as [A1 A2 A3 A4 A5 A6 A7 A8 A9 A10 A11 A12].
  pose proof (A8 t k Htn Hp) as Hk.
  set (v := word (mem (base x)) 0%nat) in *.
  destruct (div_mod_succ v A2) as [_ D]. destruct (D Hmod) as [Dq Dr].
  assert (Htq : forall q, ~ In t (pw x q)).
  { intros q Hi. destruct (A7 q t Hi) as (_ & C2 & _). exact (Nwt C2). }
  (* nobody is popping: otherwise count-1 waiters of the next round, the serial fiber and t
     would be count+1 distinct fibers *)
  assert (Ns : noser x).
  { intros sr HS. destruct (A4 sr HS) as (B1 & B2 & B3 & B4 & B5 & B6 & B7). cbv zeta in B6.
    set (l := pw x (lq (S (rnd (stk (base x) sr))))) in *.
    assert (Nd : NoDup (sr :: t :: l)).
    { constructor; [|constructor; [apply Htq|apply A6]].
      intros [E|Hi]; [subst; exact (Nst HS)|].
      destruct (A7 _ sr Hi) as (_ & (n1 & k1 & C2) & _). destruct HS as (n2 & k2 & HS). congruence. }
    assert (Hin : incl (sr :: t :: l) (seq 0 (nthr (base x)))).
    { intros u [<-|[<-|Hu]]; apply in_seq; try lia. destruct (A7 _ u Hu) as (C1 & _). lia. }
    pose proof (NoDup_incl_length Nd Hin) as Hlen'. cbn in Hlen'. rewrite seq_length, A1 in Hlen'.
    fold v in B6. rewrite Dr in B6. lia. }
  split; [|exact Ns].
  destruct (A5 Ns) as (B1 & B2 & B3).
  assert (Hgk : S (Z.to_nat (gen count x)) = k).
  { apply Nat2Z.inj. rewrite Nat2Z.inj_succ, Z2Nat.id; [lia|]. unfold gen. apply Z.div_pos; lia. }
  rewrite Hgk in B1. fold v in B1. rewrite Dr in B1.
  assert (Hg : gen count x' = gen count x + 1) by (unfold gen; rewrite Ewd; exact Dq).
  assert (Uq : forall sr, is_ser (stk (base x') sr) -> sr = t).
  { intros sr HS. destruct (Nat.eq_dec sr t) as [->|Ne]; [reflexivity|]. exfalso. apply (Ns sr). apply (Ho sr Ne). exact HS. }
  assert (Nn' : ~ noser x') by (intros H; exact (H t St')).
  assert (Hlen' : S (length (pw x (lq k))) = nthr (base x)) by (rewrite A1; lia).
  assert (Hall : forall u, (u < nthr (base x))%nat -> u = t \/ In u (pw x (lq k))).
  { apply pigeon; auto. intros u Hu. apply (A7 _ u Hu). }
  assert (Hk' : v + 1 = Z.of_nat k * count).
  { pose proof (Z.div_mod (v + 1) count ltac:(lia)) as E. rewrite Hmod, Dq in E. unfold gen in Hk. fold v in Hk. lia. }
  assert (Hoth : lq (S k) = lq (Z.to_nat (gen count x))) by (rewrite <- Hgk, !lq_succ; pose proof (lq_lt (Z.to_nat (gen count x))); lia).
  constructor; rewrite ?En, ?Ewd, ?Err, ?Ep, ?Ei, ?Hg; auto.
  - lia.
  - intros sr sr' HS HS'. rewrite (Uq sr HS), (Uq sr' HS'). reflexivity.
  - intros sr HS. cbv zeta. rewrite (Uq sr HS), Rt', Hwc. split; [exact Htn|]. split; [lia|].
    split; [lia|]. split; [lia|]. split; [lia|]. rewrite Hoth, B2. cbn [length]. rewrite Hmod.
    split; [reflexivity|]. apply B3. apply lq_lt.
  - intros H. exfalso. exact (Nn' H).
  - intros q u Hu. assert (Ne : u <> t) by (intros ->; exact (Htq _ Hu)).
    destruct (A7 q u Hu) as (C1 & C2 & C3 & C4 & C5). destruct (Hob u Ne (or_intror C2)) as [-> _].
    split; [exact C1|]. split; [apply (Ho u Ne); exact C2|]. split; [exact C3|].
    split; [left; rewrite (C5 Ns); reflexivity|]. intros H; exfalso; exact (Nn' H).
  - intros u k' Hu Hp'. exfalso. destruct (Hall u Hu) as [->|Hi].
    + rewrite (ser_not_pre _ St') in Hp'. discriminate.
    + assert (Ne : u <> t) by (intros ->; exact (Htq _ Hi)).
      apply (Ho u Ne) in Hp'. destruct (pre_round_obs _ _ Hp') as [_ H]. apply H. apply (A7 _ u Hi).
  - intros u Hw Hi. exfalso. assert (Ne : u <> t) by (intros ->; exact (Nwt' Hw)).
    pose proof (proj1 (proj1 (proj2 (Ho u Ne))) Hw) as Hw0.
    destruct (Hob u Ne (or_intror Hw0)) as [E _]. rewrite E in Hi.
    destruct (Hall u (A12 u Hw0)) as [->|Hi']; [exact (Ne eq_refl)|].
    destruct (A7 _ u Hi') as (_ & _ & C3 & _). rewrite C3 in Hi. exact (Hi Hi').
  - intros t0 k0 r0 H. specialize (A10 _ _ _ H). lia.
  - intros i t0 k0 v0. rewrite Ea. intros Hnth.
    destruct (Nat.lt_ge_cases i (length (arr x))) as [Lt|Ge].
    + rewrite nth_error_app1 in Hnth by exact Lt. eapply A11; eauto.
    + rewrite nth_error_app2 in Hnth by exact Ge.
      destruct (i - length (arr x))%nat eqn:Di; cbn in Hnth; [|destruct n0; discriminate].
      injection Hnth as <- <- <-. replace (Z.of_nat i) with v by lia. exact Hk.
  - intros u Hw. destruct (Nat.eq_dec u t) as [->|Ne]; [exact Htn|]. apply A12. apply (Ho u Ne). exact Hw.
Qed.
End GAsteps.

Section Steps3.
Variable count : Z.
Hypothesis Hcount : 1 <= count.

Lemma ready_lt x t : status_of (base x) t = SReady -> (t < nthr (base x))%nat.
Proof.
  unfold status_of. destruct (t <? nthr (base x))%nat eqn:E; [intros _; apply Nat.ltb_lt; exact E|discriminate].
Qed.

Lemma step_fadd x t n k :
  L1 count x -> G count x -> status_of (base x) t = SReady ->
  stk (base x) t = [WFAdd 0 1 5; FC (BArrived n k)] -> G count (lstep x t).
Proof.
  intros Lx Gx Hst E. inv_local Gx t E L.
  match goal with H : quiet _ _ |- _ => pose proof H as (Hpe & Hbl) end.
  pose proof (ready_lt _ _ Hst) as Htn.
  destruct Gx as [A Lg N M].
  set (m := mem (base x)) in *. set (v := word m 0%nat) in *.
  pose proof (g_cnt _ _ M) as Ec. pose proof (g_two _ _ M) as Etw.
  assert (Hp : pre_round (stk (base x) t) = Some k) by (rewrite E; reflexivity).
  pose proof (g_pre _ _ A t k Htn Hp) as Hk.
  assert (Hv0 : 0 <= v) by apply (g_word _ _ A).
  assert (Hsel : lsel true count v = lq k) by (apply lsel_lq; [exact Hv0|lia|exact Hk]).
  assert (Htq : forall q, ~ In t (pw x q)).
  { intros q Hi. destruct (g_pw _ _ A q t Hi) as (_ & (n' & k' & C2) & _). rewrite E in C2. discriminate. }
  assert (Hlen : Z.of_nat (length (arr x)) = v) by (symmetry; apply (l1_word _ _ Lx)).
  assert (Eb0 : bot (stk (base x) t) = Some (BArrived n k)) by (rewrite E; reflexivity).
  assert (Gc : chain (lstep x t) = chain x) by (rewrite lstep_chain, E; reflexivity).
  assert (Gi : infl (lstep x t) = infl x) by (rewrite lstep_infl, E; reflexivity).
  assert (Gr : rets (lstep x t) = rets x).
  { rewrite lstep_rets. rewrite <- lstep_erase. rewrite Eb0. reflexivity. }
  destruct ((v + 1) mod count =? 0) eqn:Eq.
  - (* serial *)
    apply Z.eqb_eq in Eq.
    assert (K : kstep bc (cret (two (base x)) (cnt (base x))) m t (stk (base x) t)
                = (set_word m 0%nat (v + 1), ev t (l_word 0) (50 + 5) (pc64 v) ++ [],
                   [KHead (lq k) (count - 1) 0; FC (BRet n k 1)])).
    { rewrite E, Ec, Etw. cbn [kstep ret cret]. fold m. fold v. rewrite Eq, Hsel. cbn. reflexivity. }
    destruct (lstep_view x t _ _ _ K) as (Em & Es & Eo & Ecn & Enn).
    assert (Gp : pw (lstep x t) = pw x).
    { rewrite lstep_pw, E, Ec. fold m. fold v. rewrite Eq. reflexivity. }
    assert (Ga : arr (lstep x t) = arr x ++ [(t, k, v)]).
    { rewrite lstep_arr. rewrite <- lstep_erase. rewrite Eb0, Es. reflexivity. }
    assert (Eno : forall q, nodes (lstep x t) q = nodes x q) by (intros q; unfold nodes; rewrite Em, Gc; reflexivity).
    assert (Hobs : others_same x (lstep x t) t).
    { intros u Ne. rewrite Eo by exact Ne. apply same_obs_refl. }
    destruct (GA_arrive_serial count Hcount x (lstep x t) t n k A Hobs Hp Htn) as [A' Ns]; auto;
      try (rewrite Es; reflexivity); try (rewrite Em; cbn; unfold upd; reflexivity).
    destruct (g_noser _ _ A Ns) as (_ & _ & Hinf).
    constructor.
    + exact A'.
    + intros q Hq. apply (GL_frame x); auto; try (rewrite Em; reflexivity); try (rewrite ?Gc, ?Gi; reflexivity).
      * rewrite Gp. auto.
      * intros u _. destruct (Nat.eq_dec u t) as [->|Ne]; [rewrite Es, E; cbn; tauto|].
        rewrite Eo by exact Ne. tauto.
    + apply (GN_frame x); auto; try (intros; rewrite Em; reflexivity).
      intros u. destruct (Nat.eq_dec u t) as [->|Ne]; [rewrite Es, E; reflexivity|]. rewrite Eo by exact Ne. reflexivity.
    + destruct M as [M1 M0 M2 M3 M4]. constructor.
      * rewrite Ecn. exact M1.
      * rewrite lstep_erase, step_two. exact M0.
      * rewrite Em. eapply slots_none_same; eauto.
      * intros u. rewrite Em. apply M3.
      * intros u. destruct (Nat.eq_dec u t) as [->|Ne].
        -- rewrite Es. constructor; [|rewrite Gi; apply Hinf; apply lq_lt].
           unfold serl, Qp, quiet. rewrite Gp, Em. auto.
        -- rewrite Eo by exact Ne. apply (lok_frame count x); [| | | |apply M4].
           ++ rewrite Em. constructor; reflexivity.
           ++ apply same_ghost_refl; assumption.
           ++ intros _. cbv zeta. rewrite Em, Gi. cbn. auto 6.
           ++ intros _. rewrite Em. auto.
  - (* waiter *)
    apply Z.eqb_neq in Eq.
    assert (K : kstep bc (cret (two (base x)) (cnt (base x))) m t (stk (base x) t)
                = (set_word m 0%nat (v + 1), ev t (l_word 0) (50 + 5) (pc64 v) ++ [],
                   [WSaving (lq k); FC (BRet n k 0)])).
    { rewrite E, Ec, Etw. cbn [kstep ret cret]. fold m. fold v. apply Z.eqb_neq in Eq. rewrite Eq, Hsel. cbn. reflexivity. }
    destruct (lstep_view x t _ _ _ K) as (Em & Es & Eo & Ecn & Enn).
    assert (Gp : pw (lstep x t) = upd (pw x) (lq k) (pw x (lq k) ++ [t])).
    { rewrite lstep_pw, E, Ec, Etw. fold m. fold v. apply Z.eqb_neq in Eq. rewrite Eq. cbv zeta. rewrite Hsel. reflexivity. }
    assert (Ga : arr (lstep x t) = arr x ++ [(t, k, v)]).
    { rewrite lstep_arr. rewrite <- lstep_erase. rewrite Eb0, Es. reflexivity. }
    assert (Eno : forall q, nodes (lstep x t) q = nodes x q) by (intros q; unfold nodes; rewrite Em, Gc; reflexivity).
    assert (Hobs : others_same x (lstep x t) t).
    { intros u Ne. rewrite Eo by exact Ne. apply same_obs_refl. }
    assert (Hpin : forall q u, In u (pw x q) -> In u (pw (lstep x t) q)).
    { intros q u Hu. rewrite Gp. destruct (Nat.eq_dec q (lq k)) as [->|Nq]; [rewrite upd_same; apply in_app_iff; auto|rewrite upd_other by exact Nq; exact Hu]. }
    constructor.
    + apply (GA_arrive_wait count Hcount x _ t n k); auto; try (rewrite Es; reflexivity).
      rewrite Em. cbn. unfold upd. reflexivity.
    + intros q Hq. apply (GL_frame x); auto; try (rewrite Em; reflexivity); try (rewrite ?Gc, ?Gi; reflexivity).
      intros u _. destruct (Nat.eq_dec u t) as [->|Ne]; [rewrite Es, E; cbn; tauto|].
      rewrite Eo by exact Ne. tauto.
    + apply (GN_frame x); auto; try (intros; rewrite Em; reflexivity).
      intros u. destruct (Nat.eq_dec u t) as [->|Ne]; [rewrite Es, E; reflexivity|]. rewrite Eo by exact Ne. reflexivity.
    + destruct M as [M1 M0 M2 M3 M4]. constructor.
      * rewrite Ecn. exact M1.
      * rewrite lstep_erase, step_two. exact M0.
      * rewrite Em. eapply slots_none_same; eauto.
      * intros u. rewrite Em. apply M3.
      * intros u. destruct (Nat.eq_dec u t) as [->|Ne].
        -- rewrite Es. constructor; [|rewrite Em; assumption].
           unfold unq, Qp, Cp, Fp, quiet. rewrite Gp, Gc, Gi, Em, upd_same. split; [apply in_app_iff; right; left; reflexivity|].
           split; [|split; [|auto]].
           ++ intros Hc. apply in_map_iff in Hc. destruct Hc as [[nd u] [Eq' Hc]]. cbn in Eq'. subst u.
              apply (Htq (lq k)). apply (g_chain _ _ (Lg _ (lq_lt k)) _ _ Hc).
           ++ intros Hf. apply (Htq (lq k)). apply (g_infl _ _ (Lg _ (lq_lt k)) _ Hf).
        -- rewrite Eo by exact Ne. apply (lok_frame count x); [| | | |apply M4].
           ++ rewrite Em. constructor; reflexivity.
           ++ constructor; intros q0; unfold Qp, Cp, Fp; rewrite ?Gp, ?Gc, ?Gi; try tauto.
              destruct (Nat.eq_dec q0 (lq k)) as [->|Nq0]; [rewrite upd_same|rewrite upd_other by exact Nq0; tauto].
              rewrite in_app_iff. cbn. split; [intros [Hx|[Hx|[]]]; [exact Hx|congruence]|auto].
           ++ intros _. cbv zeta. rewrite Em, Gi. cbn. auto 6.
           ++ intros _. rewrite Em. auto.
Qed.

(* a woken waiter returns from fiber_barrier_wait *)
Lemma step_wreturn x t n k :
  G count x -> stk (base x) t = [YNext ST_RUNNING; FC (BRet n k 0)] -> G count (lstep x t).
Proof.
  intros Gx E. inv_local Gx t E L.
  match goal with H : _ \/ _ |- _ => destruct H as [[Hd _]|[_ P]]; [discriminate|] end.
  destruct P as (Pf & Pq & (Pp & Pb) & Pn).
  destruct Gx as [A Lg N M].
  set (m := mem (base x)) in *.
  pose proof (g_cnt _ _ M) as Ec. pose proof (g_two _ _ M) as Etw.
  assert (K : kstep bc (cret (two (base x)) (cnt (base x))) m t (stk (base x) t)
              = (m, ev t 900 99 0 ++ retev t k 0 ++ fst (start t n (S k)), start_stack t n (S k))).
  { rewrite E, Ec. cbn [kstep]. cbn [Z.eqb orb ST_RUNNING ST_WAITING ST_DONE ST_SAVING Pos.eqb]. rewrite ret_bret. reflexivity. }
  destruct (lstep_view x t _ _ _ K) as (Em & Es & Eo & Ecn & Enn).
  assert (Gn : ghost_neutral (stk (base x) t)) by (rewrite E; exact I).
  destruct (ghost_neutral_eq x t Gn) as (Gc & Gi & Gp).
  assert (Eb0 : bot (stk (base x) t) = Some (BRet n k 0)) by (rewrite E; reflexivity).
  assert (Gr : rets (lstep x t) = rets x ++ [(t, k, 0)]).
  { rewrite lstep_rets. rewrite <- lstep_erase. rewrite Eb0, Es. destruct n; reflexivity. }
  assert (Ga : arr (lstep x t) = arr x).
  { rewrite lstep_arr. rewrite <- lstep_erase. rewrite Eb0. reflexivity. }
  assert (Eno : forall q, nodes (lstep x t) q = nodes x q) by (intros q; unfold nodes; rewrite Em, Gc; reflexivity).
  assert (Hobs : others_same x (lstep x t) t).
  { intros u Ne. rewrite Eo by exact Ne. apply same_obs_refl. }
  constructor.
  - apply (GA_waiter_return count Hcount x _ t n k); auto; rewrite Em; reflexivity.
  - intros q Hq. apply (GL_frame x); auto; try (rewrite Em; reflexivity); try (rewrite ?Gc, ?Gi; reflexivity).
    + rewrite Gp. auto.
    + intros u _. destruct (Nat.eq_dec u t) as [->|Ne]; [rewrite Es, E; destruct n; cbn; tauto|].
      rewrite Eo by exact Ne. tauto.
  - apply (GN_frame x); auto; try (intros; rewrite Em; reflexivity).
    intros u. destruct (Nat.eq_dec u t) as [->|Ne]; [rewrite Es, E; destruct n; reflexivity|]. rewrite Eo by exact Ne. reflexivity.
  - destruct M as [M1 M0 M2 M3 M4]. constructor.
    + rewrite Ecn. exact M1.
    + rewrite lstep_erase, step_two. exact M0.
    + rewrite Em. exact M2.
    + intros u. rewrite Em. apply M3.
    + intros u. destruct (Nat.eq_dec u t) as [->|Ne].
      * rewrite Es. destruct n; cbn; constructor; unfold quiet; rewrite ?Em; auto.
      * rewrite Eo by exact Ne. apply (lok_frame count x); [| | | |apply M4].
        -- rewrite Em. constructor; reflexivity.
        -- apply same_ghost_refl; assumption.
        -- intros _. cbv zeta. rewrite Em, Gi. auto 6.
        -- intros _. rewrite Em. auto.
Qed.

(* the serial fiber returns without a further wake-up (only when count = 1) *)
Lemma serial_return_nowake x t n k e :
  G count x -> bot (stk (base x) t) = Some (BRet n k 1) -> ~ linking (stk (base x) t) ->
  held (stk (base x) t) = O -> ghost_neutral (stk (base x) t) ->
  serl x t -> infl x (lq k) = None -> ~ (wcof (stk (base x) t) < count - 1) ->
  kstep bc (cret true count) (mem (base x)) t (stk (base x) t) = (mem (base x), e, start_stack t n (S k)) ->
  G count (lstep x t).
Proof.
  intros Gx Eb0 Nl Hh Gn (Sq & (Sp & Sb) & Sn & Sf) Hin Hwc K0.
  destruct Gx as [A Lg N M].
  set (m := mem (base x)) in *.
  pose proof (g_cnt _ _ M) as Ec. pose proof (g_two _ _ M) as Etw.
  assert (K : kstep bc (cret (two (base x)) (cnt (base x))) m t (stk (base x) t) = (m, e, start_stack t n (S k))) by (rewrite Ec, Etw; exact K0).
  destruct (lstep_view x t _ _ _ K) as (Em & Es & Eo & Ecn & Enn).
  destruct (ghost_neutral_eq x t Gn) as (Gc & Gi & Gp).
  assert (Gr : rets (lstep x t) = rets x ++ [(t, k, 1)]).
  { rewrite lstep_rets. rewrite <- lstep_erase. rewrite Eb0, Es. destruct n; reflexivity. }
  assert (Ga : arr (lstep x t) = arr x).
  { rewrite lstep_arr. rewrite <- lstep_erase. rewrite Eb0. reflexivity. }
  assert (Eno : forall q, nodes (lstep x t) q = nodes x q) by (intros q; unfold nodes; rewrite Em, Gc; reflexivity).
  assert (Hobs : others_same x (lstep x t) t).
  { intros u Ne. rewrite Eo by exact Ne. apply same_obs_refl. }
  assert (St : is_ser (stk (base x) t)) by (do 2 eexists; exact Eb0).
  assert (Rt : rnd (stk (base x) t) = k) by (unfold rnd; rewrite Eb0; reflexivity).
  assert (Hpw : pw x (lq k) = []).
  { destruct (g_serw _ _ A t St) as (_ & _ & B3 & B4 & B5 & _). cbv zeta in B3. rewrite Rt in B3.
    destruct (pw x (lq k)); [reflexivity|]. cbn in B3. lia. }
  constructor.
  - apply (GA_serial_return count Hcount x _ t n k); auto; try (rewrite Em; reflexivity); try (rewrite ?Gp, ?Gi; auto).
  - intros q Hq. apply (GL_frame x); auto; try (rewrite Em; reflexivity); try (rewrite ?Gc, ?Gi; reflexivity).
    + rewrite Gp. auto.
    + intros u _. destruct (Nat.eq_dec u t) as [->|Ne]; [rewrite Es; destruct n; cbn; tauto|].
      rewrite Eo by exact Ne. tauto.
  - apply (GN_frame x); auto; try (intros; rewrite Em; reflexivity).
    intros u. destruct (Nat.eq_dec u t) as [->|Ne]; [rewrite Es, Hh; destruct n; reflexivity|]. rewrite Eo by exact Ne. reflexivity.
  - destruct M as [M1 M0 M2 M3 M4]. constructor.
    + rewrite Ecn. exact M1.
    + rewrite lstep_erase, step_two. exact M0.
    + rewrite Em. exact M2.
    + intros u. rewrite Em. apply M3.
    + intros u. destruct (Nat.eq_dec u t) as [->|Ne].
      * rewrite Es. destruct n; cbn; constructor; unfold quiet; rewrite ?Em; auto.
      * rewrite Eo by exact Ne. apply (lok_frame count x); [| | | |apply M4].
        -- rewrite Em. constructor; reflexivity.
        -- apply same_ghost_refl; assumption.
        -- intros _. cbv zeta. rewrite Em, Gi. auto 6.
        -- intros _. rewrite Em. auto.
Qed.

Lemma in_remove_iff (l : list nat) f u : u <> f -> (In u (remove Nat.eq_dec f l) <-> In u l).
Proof. intros N. split; [intros H; apply in_remove in H; tauto|intros H; apply in_in_remove; auto]. Qed.

Lemma presleep_woken x x' q f :
  presleep x q f -> Qp x q f -> fnode (mem (base x)) f <> O ->
  ((fstate (mem (base x)) f <> ST_WAITING /\ mem (base x') = wake (mem (base x)) f) \/
   (fstate (mem (base x)) f = ST_WAITING /\ mem (base x') = wake (set_fstate (mem (base x)) f ST_READY) f)) ->
  ~ Qp x' q f -> presleep x' q f.
Proof.
  intros (P1 & P2 & [(P3 & P4 & P5)|(P3 & _)]) Hq Hn Hm Hq'; [|contradiction].
  destruct Hm as [[Hm1 Hm2]|[Hm1 _]]; [|rewrite P1 in Hm1; discriminate].
  unfold presleep. rewrite Hm2. unfold wake. rewrite P2. cbn [fstate blocked pend fnode set_pend].
  rewrite upd_same, P5. split; [exact P1|]. split; [exact P2|]. right. auto.
Qed.

(* the scheduled fiber: in flight -> woken *)
Lemma lok_woken x x' f sg q :
  lok count x f sg -> Qp x q f -> Fp x q f -> is_wait sg -> lq (rnd sg) = q -> fnode (mem (base x)) f <> O ->
  ((fstate (mem (base x)) f <> ST_WAITING /\ mem (base x') = wake (mem (base x)) f) \/
   (fstate (mem (base x)) f = ST_WAITING /\ mem (base x') = wake (set_fstate (mem (base x)) f ST_READY) f)) ->
  ~ Qp x' q f -> lok count x' f sg.
Proof.
  intros L Hq Hf Hw Hrq Hn Hm Hq'.
  pose proof (fun P => presleep_woken x x' q f P Hq Hn Hm Hq') as PW.
  destruct L; try (destruct Hw as (n' & k' & Hw); discriminate);
    unfold rnd in Hrq; cbn in Hrq; subst q;
    repeat match goal with
           | H : unq _ _ _ |- _ => destruct H as (_ & _ & Hnf & _); contradiction
           | H : serl _ _ |- _ => destruct H as (Hnq & _); exfalso; exact (Hnq _ Hq)
           end; try contradiction.
  - constructor. destruct H as [H|H]; [left; auto|destruct H as (_ & H & _); contradiction].
  - constructor. destruct H as [[Hst H]|[_ H]]; [left; auto|destruct H as (_ & H & _); contradiction].
  - constructor. auto.
  - constructor. auto.
  - constructor. auto.
  - constructor. auto.
  - destruct H as [(P1 & P2 & P3 & P4 & P5)|(P1 & _)]; [|contradiction].
    destruct Hm as [[Hm1 _]|[_ Hm2]]; [contradiction|].
    constructor. right. rewrite Hm2. unfold wake. cbn [blocked set_fstate]. rewrite P4.
    cbn [fstate blocked pend fnode set_blocked set_fstate]. rewrite !upd_same. auto 6.
Qed.

(* the serial fiber schedules the fiber whose entry it consumed *)
Lemma ksched_step x t f wc n k fr m0 e :
  G count x -> stk (base x) t = [fr; FC (BRet n k 1)] ->
  serl x t -> infl x (lq k) = Some f -> fnode (mem (base x)) f <> O ->
  wcof [fr; FC (BRet n k 1)] = wc -> held [fr; FC (BRet n k 1)] = O -> ~ linking [fr; FC (BRet n k 1)] ->
  ((fstate (mem (base x)) f <> ST_WAITING /\ m0 = mem (base x)) \/
   (fstate (mem (base x)) f = ST_WAITING /\ m0 = set_fstate (mem (base x)) f ST_READY)) ->
  kstep bc (cret true count) (mem (base x)) t [fr; FC (BRet n k 1)]
    = ksched bc (cret true count) m0 t (lq k) (count - 1) wc f e [FC (BRet n k 1)] ->
  chain (lstep x t) = chain x -> infl (lstep x t) = upd (infl x) (lq k) None ->
  pw (lstep x t) = upd (pw x) (lq k) (remove Nat.eq_dec f (pw x (lq k))) ->
  G count (lstep x t).
Proof.
  intros Gx E Hser Hi Hfn Hwc Hh Hl Hm0 K0 Gc Gi Gp.
  pose proof Hser as (Sq & (Sp & Sb) & Sn & Sf).
  destruct (infl_own count x _ _ Gx (lq_lt k) Hi) as (Fq & Fnc & Fw & Frq).
  assert (Ntf : t <> f) by (intros ->; exact (Sq _ Fq)).
  assert (Eb0 : bot (stk (base x) t) = Some (BRet n k 1)) by (rewrite E; reflexivity).
  assert (St : is_ser (stk (base x) t)) by (do 2 eexists; exact Eb0).
  assert (Rt : rnd (stk (base x) t) = k) by (unfold rnd; rewrite Eb0; reflexivity).
  assert (Hs1 : forall u, is_ser (stk (base x) u) -> u = t).
  { intros u Hu. apply (g_ser1 _ _ (g_a _ _ Gx)); assumption. }
  destruct Gx as [A Lg N M].
  set (q := lq k) in *. assert (Hq2 : (q < 2)%nat) by apply lq_lt.
  set (m := mem (base x)) in *.
  pose proof (g_cnt _ _ M) as Ec. pose proof (g_two _ _ M) as Etw.
  rewrite ksched_cases in K0.
  set (m1 := wake m0 f) in *.
  assert (Wf : fstate m1 = (if fstate m f =? ST_WAITING then upd (fstate m) f ST_READY else fstate m) /\
               ndata m1 = ndata m /\ nnext m1 = nnext m /\ word m1 = word m /\ qhead m1 = qhead m /\
               qtail m1 = qtail m /\ fnode m1 = fnode m /\ slot_sched m1 = slot_sched m /\
               slot_mutex m1 = slot_mutex m /\ slot_wait m1 = slot_wait m /\ slot_mpmc m1 = slot_mpmc m /\
               (forall u, u <> f -> blocked m1 u = blocked m u /\ pend m1 u = pend m u)).
  { unfold m1, wake. destruct Hm0 as [[H1 ->]|[H1 ->]].
    - apply Z.eqb_neq in H1. rewrite H1. destruct (blocked m f); cbn; repeat split; auto; apply upd_other; auto.
    - rewrite H1. cbn [blocked set_fstate]. destruct (blocked m f); cbn; repeat split; auto; apply upd_other; auto. }
  destruct Wf as (W1 & W2 & W3 & W4 & W5 & W6 & W7 & W8 & W9 & W10 & W11 & W12).
  assert (W1' : forall u, u <> f -> fstate m1 u = fstate m u).
  { intros u Ne. rewrite W1. destruct (fstate m f =? ST_WAITING); [apply upd_other; exact Ne|reflexivity]. }
  assert (Hmm : (fstate m f <> ST_WAITING /\ m1 = wake m f) \/ (fstate m f = ST_WAITING /\ m1 = wake (set_fstate m f ST_READY) f)).
  { unfold m1. destruct Hm0 as [[H1 ->]|[H1 ->]]; auto. }
  assert (Hlok : forall x', mem (base x') = m1 -> pw x' = upd (pw x) q (remove Nat.eq_dec f (pw x q)) -> chain x' = chain x ->
                 infl x' = upd (infl x) q None -> forall u, u <> t -> lok count x u (stk (base x) u) -> lok count x' u (stk (base x) u)).
  { intros x' Em' Ep' Ec' Ei' u Ne Lu. destruct (Nat.eq_dec u f) as [->|Nf].
    - apply (lok_woken x _ f _ q); auto.
      + destruct Hmm as [[H1 H2]|[H1 H2]]; [left|right]; split; auto; rewrite Em'; exact H2.
      + unfold Qp. rewrite Ep', upd_same. apply remove_In.
    - apply (lok_frame count x); [| | | |exact Lu].
      + rewrite Em'. constructor; [apply W1'; exact Nf|apply W12; exact Nf|apply W12; exact Nf|rewrite W7; reflexivity].
      + constructor; intros q0; unfold Qp, Cp, Fp; rewrite ?Ep', ?Ec', ?Ei'; try tauto.
        * destruct (Nat.eq_dec q0 q) as [->|Nq0]; [rewrite upd_same|rewrite upd_other by exact Nq0; tauto].
          apply in_remove_iff. exact Nf.
        * destruct (Nat.eq_dec q0 q) as [->|Nq0]; [rewrite upd_same, Hi|rewrite upd_other by exact Nq0; tauto].
          split; [discriminate|intros H; injection H as ->; congruence].
      + intros Hs. exfalso. apply Ne. apply Hs1. exact Hs.
      + intros _. rewrite Em', W2, W3. auto. }
  assert (Hgl : forall x', mem (base x') = m1 -> pw x' = upd (pw x) q (remove Nat.eq_dec f (pw x q)) -> chain x' = chain x ->
                infl x' = upd (infl x) q None -> (forall u, u <> t -> stk (base x') u = stk (base x) u) ->
                forall q', (q' < 2)%nat -> GL x' q').
  { intros x' Em' Ep' Ec' Ei' Eo' q' Hq'. destruct (Lg q' Hq') as [L1 L2 L3 L4 L5 L6 L7].
    assert (Eno : nodes x' q' = nodes x q') by (unfold nodes; rewrite Em', W5, Ec'; reflexivity).
    constructor; rewrite ?Eno, ?Ec', ?Em', ?W5, ?W6; auto.
    - apply (linked_frame m _ (stk (base x))); [rewrite W3; reflexivity| |exact L4].
      intros u Hu. rewrite Eo'; [tauto|]. intros ->. apply (Sq q').
      apply in_map_iff in Hu. destruct Hu as [[nd' u'] [Eq Hu]]. cbn in Eq. subst u'. apply (L5 nd' t Hu).
    - intros nd' u Hu. rewrite W2. destruct (L5 _ _ Hu) as [B1 B2]. split; [exact B1|]. rewrite Ep'.
      destruct (Nat.eq_dec q' q) as [->|Nq]; [rewrite upd_same|rewrite upd_other by exact Nq; exact B2].
      apply in_in_remove; [|exact B2]. intros ->. apply Fnc. apply in_map_iff. exists (nd', f). auto.
    - intros f' Hf'. rewrite Ei' in Hf'. destruct (Nat.eq_dec q' q) as [->|Nq]; [rewrite upd_same in Hf'; discriminate|].
      rewrite upd_other in Hf' by exact Nq. rewrite Ep', upd_other by exact Nq. apply L7. exact Hf'. }
  destruct (wc + 1 <? count - 1) eqn:Hlt.
  - (* more waiters to collect *)
    apply Z.ltb_lt in Hlt.
    assert (K : kstep bc (cret (two (base x)) (cnt (base x))) m t (stk (base x) t)
                = (m1, e ++ ev t 901 919 (Zn f), [KHead q (count - 1) (wc + 1); FC (BRet n k 1)])) by (rewrite Ec, Etw, E; exact K0).
    destruct (lstep_view x t _ _ _ K) as (Em & Es & Eo & Ecn & Enn).
    assert (Gr : rets (lstep x t) = rets x).
    { rewrite lstep_rets. rewrite <- lstep_erase. rewrite Eb0, Es. reflexivity. }
    assert (Ga : arr (lstep x t) = arr x).
    { rewrite lstep_arr. rewrite <- lstep_erase. rewrite Eb0. reflexivity. }
    assert (Eno : forall q0, nodes (lstep x t) q0 = nodes x q0) by (intros q0; unfold nodes; rewrite Em, W5, Gc; reflexivity).
    assert (Hobs : others_same x (lstep x t) t).
    { intros u Ne. rewrite Eo by exact Ne. apply same_obs_refl. }
    constructor.
    + apply (GA_wake_continue count Hcount x _ t f wc); auto; rewrite ?Rt; fold q; auto;
        try (rewrite Es; try reflexivity); try (rewrite E; assumption); try (rewrite Em, W4; reflexivity).
      do 2 eexists; reflexivity.
    + apply Hgl; auto.
    + apply (GN_frame x); auto; try (intros; rewrite Em, W7; reflexivity).
      intros u. destruct (Nat.eq_dec u t) as [->|Ne]; [rewrite Es, E, Hh; reflexivity|]. rewrite Eo by exact Ne. reflexivity.
    + destruct M as [M1 M0 M2 M3 M4]. constructor.
      * rewrite Ecn. exact M1.
      * rewrite lstep_erase, step_two. exact M0.
      * rewrite Em. eapply slots_none_same; eauto.
      * intros u. rewrite Em, W8. apply M3.
      * intros u. destruct (Nat.eq_dec u t) as [->|Ne].
        -- rewrite Es. constructor; [|rewrite Gi; apply upd_same]. unfold serl, Qp, quiet. rewrite Gp, Em, W7.
           destruct (W12 t Ntf) as [-> ->]. rewrite (W1' t Ntf).
           split; [|auto]. intros q0. destruct (Nat.eq_dec q0 q) as [->|Nq0]; [rewrite upd_same|rewrite upd_other by exact Nq0; apply Sq].
           intros H. apply in_remove in H. destruct H as [H _]. exact (Sq q H).
        -- rewrite Eo by exact Ne. apply Hlok; auto.
  - (* the last waiter: the serial fiber returns *)
    apply Z.ltb_ge in Hlt.
    assert (K : kstep bc (cret (two (base x)) (cnt (base x))) m t (stk (base x) t)
                = (m1, (e ++ ev t 901 919 (Zn f)) ++ retev t k 1 ++ fst (start t n (S k)), start_stack t n (S k)))
      by (rewrite Ec, Etw, E; exact K0).
    destruct (lstep_view x t _ _ _ K) as (Em & Es & Eo & Ecn & Enn).
    assert (Gr : rets (lstep x t) = rets x ++ [(t, k, 1)]).
    { rewrite lstep_rets. rewrite <- lstep_erase. rewrite Eb0, Es. destruct n; reflexivity. }
    assert (Ga : arr (lstep x t) = arr x).
    { rewrite lstep_arr. rewrite <- lstep_erase. rewrite Eb0. reflexivity. }
    assert (Hobs : others_same x (lstep x t) t).
    { intros u Ne. rewrite Eo by exact Ne. apply same_obs_refl. }
    assert (Hpw : pw (lstep x t) q = []).
    { destruct (g_serw _ _ A t St) as (_ & _ & B3 & B4 & B5 & _). cbv zeta in B3. rewrite Rt in B3. fold q in B3.
      rewrite E, Hwc in B3, B4, B5.
      pose proof (remove_length _ f (g_pw_nodup _ _ A q) Fq) as Hl'. rewrite Gp, upd_same.
      destruct (remove Nat.eq_dec f (pw x q)); [reflexivity|]. cbn in Hl'. lia. }
    constructor.
    + apply (GA_serial_return count Hcount x _ t n k); auto; fold q; auto; try (rewrite Em, W4; reflexivity).
      * intros q0 Nq0. rewrite Gp, upd_other by exact Nq0. reflexivity.
      * rewrite Gi. apply upd_same.
      * intros q0 Nq0. rewrite Gi, upd_other by exact Nq0. reflexivity.
    + apply Hgl; auto.
    + apply (GN_frame x); auto; try (intros; rewrite Em, W7; reflexivity).
      * intros u. destruct (Nat.eq_dec u t) as [->|Ne]; [rewrite Es, E, Hh; destruct n; reflexivity|]. rewrite Eo by exact Ne. reflexivity.
      * intros q0 _. unfold nodes. rewrite Em, W5, Gc. reflexivity.
    + destruct M as [M1 M0 M2 M3 M4]. constructor.
      * rewrite Ecn. exact M1.
      * rewrite lstep_erase, step_two. exact M0.
      * rewrite Em. eapply slots_none_same; eauto.
      * intros u. rewrite Em, W8. apply M3.
      * intros u. destruct (Nat.eq_dec u t) as [->|Ne].
        -- rewrite Es. destruct (W12 t Ntf) as [Hb' Hp'].
           destruct n; cbn; constructor; unfold quiet; rewrite ?Em, ?W7, ?Hb', ?Hp', ?(W1' t Ntf); auto.
        -- rewrite Eo by exact Ne. apply Hlok; auto.
Qed.
End Steps3.

Section Main.
Variable count : Z.
Hypothesis Hcount : 1 <= count.

Theorem g_step x t :
  L1 count x -> G count x -> status_of (base x) t = SReady -> G count (lstep x t).
Proof.
  intros Lx Gx Hst.
  pose proof (ready_lt _ _ Hst) as Htn.
  pose proof (g_local _ _ (g_m _ _ Gx) t) as L.
  remember (stk (base x) t) as sg eqn:E. symmetry in E.
  destruct L.
  - (* done *) exfalso. unfold status_of in Hst. rewrite E in Hst. destruct (t <? nthr (base x))%nat; discriminate.
  - eapply step_start; eauto.
  - eapply step_fadd; eauto.
  - eapply step_wsaving; eauto.
  - eapply step_wdata; eauto.
  - eapply step_wnext; eauto.
  - eapply step_wxchg; eauto.
  - eapply step_wlink; eauto.
  - eapply step_wyread; eauto.
  - (* YNext *) destruct H as [[-> _]|[-> P]].
    + eapply step_wynext_switch; eauto.
    + eapply step_wreturn; eauto.
  - eapply step_wswread; eauto.
  - eapply step_wswdone; eauto.
  - eapply step_wmread; eauto.
  - eapply step_wmflip; eauto.
  - eapply step_wasleep; eauto.
  - eapply step_wresume; eauto.
  - eapply step_khead; eauto.
  - (* KNext *)
    destruct (nnext (mem (base x)) h) as [|nx] eqn:Hn.
    + destruct (0 <? count - 1) eqn:Hc.
      * eapply step_knext_spin; eauto.
      * (* count = 1: nothing to collect *)
        apply Z.ltb_ge in Hc.
        assert (St : is_ser (stk (base x) t)) by (rewrite E; do 2 eexists; reflexivity).
        destruct (g_serw _ _ (g_a _ _ Gx) t St) as (_ & _ & B3 & B4 & B5 & _). cbv zeta in B3.
        rewrite E in B3, B4, B5. cbn [wcof] in B3, B4, B5.
        eapply (serial_return_nowake count Hcount x t n k);
          [exact Gx|rewrite E; reflexivity|rewrite E; cbn; tauto|rewrite E; reflexivity|rewrite E; exact I
          |assumption|assumption|rewrite E; cbn [wcof]; lia|rewrite E].
        cbn [kstep]. rewrite Hn. assert (Hc' : (0 <? count - 1) = false) by (apply Z.ltb_ge; lia). rewrite Hc'.
        unfold kloop. assert (Hw : (wc <? count - 1) = false) by (apply Z.ltb_ge; lia). rewrite Hw.
        rewrite ret_bret. reflexivity.
    + eapply step_knext_some; eauto.
  - eapply step_ksethead; eauto.
  - eapply step_kdata; eauto.
  - eapply step_kcopy; eauto.
  - eapply step_kout; eauto.
  - (* KState *)
    destruct (fstate (mem (base x)) f =? ST_WAITING) eqn:Hf.
    + apply Z.eqb_eq in Hf. eapply step_kstate_waiting; eauto.
    + eapply (ksched_step count Hcount x t f wc n k); eauto; try reflexivity.
      * left. split; [apply Z.eqb_neq; exact Hf|reflexivity].
      * cbn [kstep]. rewrite Hf. reflexivity.
      * rewrite lstep_chain, E. reflexivity.
      * rewrite lstep_infl, E, Hf. reflexivity.
      * rewrite lstep_pw, E, Hf. reflexivity.
  - (* KReady *)
    eapply (ksched_step count Hcount x t f wc n k); eauto; try reflexivity.
    + rewrite lstep_chain, E. reflexivity.
    + rewrite lstep_infl, E. reflexivity.
    + rewrite lstep_pw, E. reflexivity.
  - eapply step_kyread; eauto.
  - (* YNext inside the pop loop *)
    destruct (wc <? count - 1) eqn:Hc.
    + eapply step_kynext_retry; eauto.
    + apply Z.ltb_ge in Hc.
      eapply (serial_return_nowake count Hcount x t n k);
          [exact Gx|rewrite E; reflexivity|rewrite E; cbn; tauto|rewrite E; reflexivity|rewrite E; exact I
          |assumption|assumption|rewrite E; cbn [wcof]; lia|rewrite E].
      cbn [kstep]. cbn [Z.eqb orb ST_RUNNING ST_WAITING ST_DONE ST_SAVING Pos.eqb].
      rewrite ret_kspin. assert (Hw : (wc <? count - 1) = false) by (apply Z.ltb_ge; lia). rewrite Hw. reflexivity.
Qed.

Lemma G_init rounds : length rounds = Z.to_nat count -> G count (iinit true count rounds).
Proof.
  intros Hl.
  assert (Nser : forall u, ~ is_ser (stk (base (iinit true count rounds)) u)).
  { intros u (n & k & H). cbn in H. discriminate. }
  assert (Nwait : forall u, ~ is_wait (stk (base (iinit true count rounds)) u)).
  { intros u (n & k & H). cbn in H. discriminate. }
  constructor.
  - constructor.
    + exact Hl.
    + cbn. lia.
    + intros S S' H. exfalso. exact (Nser S H).
    + intros S H. exfalso. exact (Nser S H).
    + intros _. unfold gen. cbn [pw iinit length base mem init kinit word]. rewrite Z.mod_0_l by lia. auto.
    + intros q. constructor.
    + intros q u [].
    + intros u k _ H. cbn in H. injection H as <-. unfold gen. cbn [iinit base mem init kinit word]. rewrite Z.div_0_l by lia. reflexivity.
    + intros u H. exfalso. exact (Nwait u H).
    + intros t k r [].
    + intros i t k v H. destruct i; discriminate.
    + intros u H. exfalso. exact (Nwait u H).
  - intros q Hq. constructor; cbn; auto.
    + constructor; [intros []|constructor].
    + intros nd [<-|[]]. discriminate.
    + intros nd u [].
    + constructor.
    + intros f H. discriminate.
  - constructor; cbn.
    + intros q q' nd Hq Hq' [H|[]] [H'|[]]. lia.
    + intros u u' _ H. lia.
    + intros u u' H. congruence.
    + intros u u' H. exact H.
    + intros u q Hq _ [H|[]]. lia.
    + intros u q _ H. congruence.
  - constructor; cbn; auto.
    + intros t. repeat split.
    + intros u. constructor; [split; reflexivity|cbn; lia].
Qed.

Theorem ireach_G rounds x :
  length rounds = Z.to_nat count -> ireach true count rounds x -> G count x.
Proof.
  intros Hl R. induction R as [|x t R IH Hs]; [apply G_init; exact Hl|].
  apply g_step; auto. eapply ireach_l1; eauto.
Qed.
End Main.

Lemma filter_range {A} (p : A -> bool) : forall (l : list A) (lo c : nat),
  (lo + c <= length l)%nat ->
  (forall j a, (lo <= j < lo + c)%nat -> nth_error l j = Some a -> p a = true) ->
  (c <= length (filter p l))%nat.
Proof.
  induction l as [|a l IH]; intros lo c Hl Hp; cbn in *; [lia|].
  destruct lo as [|lo].
  - destruct c as [|c]; [lia|]. rewrite (Hp O a) by (cbn; auto; lia). cbn.
    apply le_n_S. apply (IH O c); [lia|]. intros j b Hj Hn. apply (Hp (S j) b); [lia|exact Hn].
  - assert (c <= length (filter p l))%nat.
    { apply (IH lo c); [lia|]. intros j b Hj Hn. apply (Hp (S j) b); [lia|exact Hn]. }
    destruct (p a); cbn; lia.
Qed.

Lemma nodup_round (l : list (nat * nat * Z)) k :
  NoDup (map fst l) -> NoDup (map (fun a => fst (fst a)) (filter (fun a => Nat.eqb (snd (fst a)) k) l)).
Proof.
  induction l as [|[[t k'] v] l IH]; intros N; cbn in *; [constructor|].
  inversion N as [|? ? Hn Nl]; subst. destruct (Nat.eqb_spec k' k) as [->|Ne]; cbn; [|auto].
  constructor; [|auto]. intros Hi. apply Hn. apply in_map_iff in Hi.
  destruct Hi as [[[t' k2] v'] [Eq Hi]]. cbn in Eq. subst t'. apply filter_In in Hi. destruct Hi as [Hi Hk].
  cbn in Hk. apply Nat.eqb_eq in Hk. subst k2. apply in_map_iff. exists (t, k, v'). auto.
Qed.

Section Final.
Variable count : Z.
Hypothesis Hcount : 1 <= count.

(* round safety from the invariant *)
Lemma round_safe_of_G x : L1 count x -> G count x -> round_safe_arrived count x /\ round_safe count x.
Proof.
  intros L Gx.
  assert (RA : round_safe_arrived count x).
  { intros t k [r H]. split; [apply nodup_round; apply L|].
    pose proof (g_rets _ _ (g_a _ _ Gx) _ _ _ H) as Hk.
    rewrite (l1_word _ _ L) in Hk.
    destruct (l1_rets _ _ L _ _ _ H) as (v & Hv & _).
    destruct (In_nth_error _ _ Hv) as [i Hi].
    pose proof (g_arr _ _ (g_a _ _ Gx) _ _ _ _ Hi) as Hki.
    assert (Hk1 : (1 <= k)%nat).
    { assert (0 <= Z.of_nat i / count) by (apply Z.div_pos; lia). lia. }
    unfold arrived_fibers. rewrite map_length.
    assert (Hc : (Z.to_nat count <= length (filter (fun a => Nat.eqb (snd (fst a)) k) (arr x)))%nat).
    { apply (filter_range _ (arr x) (Z.to_nat ((Z.of_nat k - 1) * count)) (Z.to_nat count)).
      - nia.
      - intros j [[t' k'] v'] Hj Hn. cbn. apply Nat.eqb_eq.
        pose proof (g_arr _ _ (g_a _ _ Gx) _ _ _ _ Hn) as Hk'. apply Nat2Z.inj.
        rewrite Hk'.
        assert (Hjz : (Z.of_nat k - 1) * count <= Z.of_nat j < (Z.of_nat k - 1) * count + count) by nia.
        assert (Hd : Z.of_nat j / count = Z.of_nat k - 1).
        { symmetry. apply (Z.div_unique (Z.of_nat j) count (Z.of_nat k - 1) (Z.of_nat j - (Z.of_nat k - 1) * count)); lia. }
        lia. }
    lia. }
  split; [exact RA|].
  intros t k Hr. destruct (RA t k Hr) as [Nd Hl].
  assert ((length (arrived_fibers x k) <= length (entered_fibers x k))%nat).
  { apply NoDup_incl_length; [exact Nd|]. intros u Hu. unfold arrived_fibers in Hu.
    apply in_map_iff in Hu. destruct Hu as [[[t' k'] v'] [Eq Hu]]. cbn in Eq. subst t'.
    apply filter_In in Hu. destruct Hu as [Hu Hk]. cbn in Hk. apply Nat.eqb_eq in Hk. subst k'.
    apply entered_in. apply (l1_ent _ _ L _ _ _ Hu). }
  lia.
Qed.



(* ---- quiescence: every fiber performs R rounds ---- *)
Definition quiescent (x : ist) : Prop := forall t, status_of (base x) t <> SReady.

Lemma quiescent_shapes x : G count x -> quiescent x ->
  forall u, (u < nthr (base x))%nat ->
    stk (base x) u = [] \/ (is_wait (stk (base x) u) /\ In u (pw x (lq (rnd (stk (base x) u))))).
Proof.
  intros Gx Hq u Hu. pose proof (g_local _ _ (g_m _ _ Gx) u) as L. specialize (Hq u).
  unfold status_of in Hq. apply Nat.ltb_lt in Hu. rewrite Hu in Hq.
  remember (stk (base x) u) as sg eqn:E.
  destruct L; try (exfalso; apply Hq; reflexivity); [left; reflexivity|].
  right. split; [do 2 eexists; reflexivity|].
  destruct H as [(P1 & _)|(_ & _ & Pb & _)]; [exact P1|].
  exfalso. apply Hq. cbn. rewrite Pb. reflexivity.
Qed.

Definition done_upto (x : ist) (t j : nat) : Prop := forall k, (1 <= k <= j)%nat -> returned x t k.

(* bookkeeping: rounds still to do + current round = R; earlier rounds have returned *)
Record DR (R : nat) (x : ist) : Prop := {
  dr_bot : forall t, (t < nthr (base x))%nat ->
           match bot (stk (base x) t) with
           | Some (BNext m k) => m = R /\ k = 1%nat
           | Some (BArrived m k) => (m + k = R)%nat /\ done_upto x t (k - 1)
           | Some (BRet m k _) => (m + k = R)%nat /\ done_upto x t (k - 1)
           | None => done_upto x t R
           end;
  dr_arr : forall t k v, In (t, k, v) (arr x) -> (t < nthr (base x))%nat
}.

Lemma dr_init tw R rounds : Forall (fun r => r = R) rounds -> DR R (iinit tw count rounds).
Proof.
  intros F. constructor; cbn.
  - intros t Ht. split; [|reflexivity]. rewrite Forall_forall in F. apply F. apply nth_In. exact Ht.
  - intros t k v [].
Qed.

Lemma done_upto_mono x x' t j : (forall a, In a (rets x) -> In a (rets x')) -> done_upto x t j -> done_upto x' t j.
Proof. intros H D k Hk. destruct (D k Hk) as [r Hr]. exists r. auto. Qed.

Lemma dr_step R x t : L1 count x -> status_of (base x) t = SReady -> DR R x -> DR R (lstep x t).
Proof.
  intros L Hs [D1 D2].
  pose proof (lstep_cases count x t (l1_cnt _ _ L) (l1_slots _ _ L) (l1_shape _ _ L t)) as K.
  cbv zeta in K. destruct K as (_ & _ & K).
  pose proof (ready_lt _ _ Hs) as Ht.
  assert (Eo : forall u, u <> t -> stk (base (lstep x t)) u = stk (base x) u).
  { intros u N. rewrite lstep_erase. apply step_stk_other. exact N. }
  assert (Hr : forall a, In a (rets x) -> In a (rets (lstep x t))).
  { intros a Ha. destruct K as [(_ & _ & _ & _ & E3)|[(n & k & _ & _ & _ & _ & _ & E3)|[(_ & _ & _ & _ & _ & E3)|
      [(n & _ & _ & _ & _ & _ & E3)|[(k & r & _ & _ & _ & E3 & _)|(n & k & r & _ & _ & _ & E3 & _)]]]]];
      rewrite E3; try apply in_app_iff; auto. }
  pose proof (D1 t Ht) as Dt.
  constructor; rewrite lstep_nthr.
  - intros u Hu. destruct (Nat.eq_dec u t) as [->|N].
    + destruct K as [(B & _)|[(n' & k' & B & B' & _)|[(B & B' & _)|[(n' & B & B' & _)|[(k' & r & B & B' & _ & E3 & _)|(n' & k' & r & B & B' & _ & E3 & _)]]]]].
      * rewrite B. destruct (bot (stk (base x) t)) as [[m k|m k|m k r]|]; auto;
          try (destruct Dt as [Dt1 Dt2]; split; [exact Dt1|eapply done_upto_mono; eauto]).
        eapply done_upto_mono; eauto.
      * rewrite B'. rewrite B in Dt. destruct Dt as [Dt1 Dt2]. split; [exact Dt1|eapply done_upto_mono; eauto].
      * rewrite B'. rewrite B in Dt. destruct Dt as [<- _]. intros k Hk. lia.
      * rewrite B'. rewrite B in Dt. destruct Dt as [<- _]. split; [lia|]. intros k Hk. cbn in Hk. lia.
      * rewrite B'. rewrite B in Dt. destruct Dt as [Dt1 Dt2]. cbn in Dt1. subst R.
        intros k Hk. destruct (Nat.eq_dec k k') as [->|Nk].
        -- exists r. rewrite E3. apply in_app_iff. right. left. reflexivity.
        -- destruct (Dt2 k ltac:(lia)) as [r' Hr']. exists r'. auto.
      * rewrite B'. rewrite B in Dt. destruct Dt as [Dt1 Dt2]. split; [lia|].
        intros k Hk. replace (S k' - 1)%nat with k' in Hk by lia. destruct (Nat.eq_dec k k') as [->|Nk].
        -- exists r. rewrite E3. apply in_app_iff. right. left. reflexivity.
        -- destruct (Dt2 k ltac:(lia)) as [r' Hr']. exists r'. auto.
    + rewrite Eo by exact N. specialize (D1 u Hu).
      destruct (bot (stk (base x) u)) as [[m k|m k|m k r]|]; auto;
        try (destruct D1 as [Du1 Du2]; split; [exact Du1|eapply done_upto_mono; eauto]).
      eapply done_upto_mono; eauto.
  - intros t0 k0 v0 H.
    destruct K as [(_ & _ & _ & E2 & _)|[(n & k & _ & _ & _ & E2 & _)|[(_ & _ & _ & _ & E2 & _)|
      [(n & _ & _ & _ & _ & E2 & _)|[(k & r & _ & _ & _ & _ & _ & E2)|(n & k & r & _ & _ & _ & _ & _ & E2)]]]]];
      rewrite E2 in H; eauto.
    apply in_app_iff in H. destruct H as [H|[H|[]]]; [eauto|]. injection H as <- _ _. exact Ht.
Qed.

Lemma ireach_dr tw R rounds x :
  Forall (fun r => r = R) rounds -> ireach tw count rounds x -> DR R x.
Proof.
  intros F Rr. induction Rr as [|x t Rr IH Hs]; [apply dr_init; exact F|].
  apply dr_step; auto. eapply ireach_l1; eauto.
Qed.

Lemma stk_nil_bot (sg : stack bc) : sg = [] -> bot sg = None.
Proof. intros ->. reflexivity. Qed.

(* at quiescence every fiber has returned from every round, and every round had its serial fiber *)
Theorem all_return_quiescent R rounds x :
  length rounds = Z.to_nat count -> Forall (fun r => r = R) rounds ->
  ireach true count rounds x -> quiescent x ->
  (forall t k, (t < length rounds)%nat -> (1 <= k <= R)%nat -> returned x t k) /\
  (forall k, (1 <= k <= R)%nat -> exists t, In (t, k, 1) (rets x)).
Proof.
  intros Hl F Rr Hq.
  pose proof (ireach_l1 _ _ _ _ Rr) as L. pose proof (ireach_dr _ _ _ _ F Rr) as D.
  pose proof (ireach_nthr _ _ _ _ Rr) as Nt.
  assert (Gx : G count x) by (apply (ireach_G count Hcount rounds); auto).
  pose proof (g_a _ _ Gx) as A.
  pose proof (quiescent_shapes x Gx Hq) as Sh.
  assert (Ns : noser x).
  { intros S0 HS. destruct (g_serw _ _ A S0 HS) as (B1 & _).
    destruct (Sh S0 B1) as [E|[(n & k & E) _]]; destruct HS as (n' & k' & HS); [rewrite E in HS; discriminate|congruence]. }
  destruct (g_noser _ _ A Ns) as (N1 & N2 & _).
  set (g := Z.to_nat (gen count x)) in *.
  assert (Hg0 : 0 <= gen count x) by (unfold gen; apply Z.div_pos; [apply A|lia]).
  assert (Hdone : forall t, (t < nthr (base x))%nat -> stk (base x) t = []).
  { destruct (pw x (lq (S g))) as [|p l] eqn:Ep.
    - intros t Ht. destruct (Sh t Ht) as [E|[Hw Hi]]; [exact E|exfalso].
      destruct (g_pw _ _ A _ t Hi) as (_ & _ & C3 & C4 & C5). specialize (C5 Ns).
      assert (rnd (stk (base x) t) = S g) by (unfold g; lia). rewrite H, Ep in Hi. destruct Hi.
    - exfalso. assert (Hp : In p (pw x (lq (S g)))) by (rewrite Ep; left; reflexivity).
      destruct (g_pw _ _ A _ p Hp) as (P1 & (n & k & P2) & _ & _ & P5). specialize (P5 Ns).
      unfold rnd in P5. rewrite P2 in P5. cbn in P5.
      pose proof (dr_bot _ _ D p P1) as Dp. rewrite P2 in Dp. destruct Dp as [Dp _].
      assert (Hall : forall u, (u < nthr (base x))%nat -> In u (pw x (lq (S g)))).
      { intros u Hu. destruct (Sh u Hu) as [E|[Hw Hi]].
        - exfalso. pose proof (dr_bot _ _ D u Hu) as Du. rewrite (stk_nil_bot _ E) in Du.
          destruct (Du R ltac:(lia)) as [r Hr]. pose proof (g_rets _ _ A _ _ _ Hr) as Hle.
          assert (Z.of_nat R <= gen count x).
          { unfold gen. apply Z.div_le_lower_bound; lia. }
          lia.
        - destruct (g_pw _ _ A _ u Hi) as (_ & _ & _ & _ & C5). specialize (C5 Ns).
          assert (rnd (stk (base x) u) = S g) by (unfold g; lia). rewrite H in Hi. exact Hi. }
      assert (Hlen : (length (seq 0 (nthr (base x))) <= length (pw x (lq (S g))))%nat).
      { apply NoDup_incl_length; [apply seq_NoDup|]. intros u Hu. apply in_seq in Hu. apply Hall. lia. }
      rewrite seq_length, (g_nthr _ _ A), Ep in Hlen.
      pose proof (Z.mod_pos_bound (word (mem (base x)) 0%nat) count ltac:(lia)). lia. }
  assert (Hret : forall t k, (t < length rounds)%nat -> (1 <= k <= R)%nat -> returned x t k).
  { intros t k Ht Hk. rewrite <- Nt in Ht. pose proof (dr_bot _ _ D t Ht) as Dt.
    rewrite (stk_nil_bot _ (Hdone t Ht)) in Dt. apply Dt. exact Hk. }
  split; [exact Hret|].
  intros k Hk.
  assert (Hn0 : (0 < length rounds)%nat) by (rewrite Hl; lia).
  destruct (Hret O R Hn0 ltac:(lia)) as [r0 Hr0].
  pose proof (g_rets _ _ A _ _ _ Hr0) as HR. rewrite (l1_word _ _ L) in HR.
  set (i := Z.to_nat (Z.of_nat k * count - 1)).
  assert (Hi : (i < length (arr x))%nat) by (unfold i; nia).
  destruct (nth_error (arr x) i) as [[[t k'] v]|] eqn:En; [|apply nth_error_None in En; lia].
  pose proof (l1_tick _ _ L _ _ _ _ En) as Hv.
  pose proof (g_arr _ _ A _ _ _ _ En) as Hk'.
  assert (Hiz : Z.of_nat i = Z.of_nat k * count - 1) by (unfold i; rewrite Z2Nat.id; nia).
  assert (k' = k).
  { apply Nat2Z.inj. rewrite Hk', Hiz.
    assert (Hd : (Z.of_nat k * count - 1) / count = Z.of_nat k - 1).
    { symmetry. apply (Z.div_unique _ count (Z.of_nat k - 1) (count - 1)); lia. }
    lia. }
  subst k'. pose proof (nth_error_In _ _ En) as Hin.
  pose proof (dr_arr _ _ D _ _ _ Hin) as Htl. rewrite Nt in Htl.
  destruct (Hret t k Htl Hk) as [r Hr]. exists t.
  destruct (l1_rets _ _ L _ _ _ Hr) as (v' & Hv' & ->).
  assert (v' = v).
  { pose proof (l1_nodup_arr _ _ L) as Nd.
    destruct (In_nth_error _ _ Hv') as [i' Hi'].
    assert (i' = i).
    { eapply (NoDup_nth_error (map fst (arr x))); eauto.
      - rewrite map_length. apply nth_error_Some. rewrite Hi'. discriminate.
      - rewrite !nth_error_map, Hi', En. reflexivity. }
    subst i'. congruence. }
  subst v'. unfold sbit in Hr. rewrite Hv, Hiz in Hr.
  replace (Z.of_nat k * count - 1 + 1) with (Z.of_nat k * count) in Hr by lia. rewrite Z_mod_mult in Hr. exact Hr.
Qed.

(* one serial fiber per round (regime) *)
Lemma one_serial_round x t t' k :
  L1 count x -> G count x -> In (t, k, 1) (rets x) -> In (t', k, 1) (rets x) -> t = t'.
Proof.
  intros L Gx H H'.
  destruct (l1_rets _ _ L _ _ _ H) as (v & Hv & Hb). destruct (l1_rets _ _ L _ _ _ H') as (v' & Hv' & Hb').
  destruct (In_nth_error _ _ Hv) as [i Hi]. destruct (In_nth_error _ _ Hv') as [i' Hi'].
  pose proof (l1_tick _ _ L _ _ _ _ Hi) as ->. pose proof (l1_tick _ _ L _ _ _ _ Hi') as ->.
  pose proof (g_arr _ _ (g_a _ _ Gx) _ _ _ _ Hi) as Hk. pose proof (g_arr _ _ (g_a _ _ Gx) _ _ _ _ Hi') as Hk'.
  destruct (sbit_cases count (Z.of_nat i)) as [[_ Hm]|[Hm _]]; [|congruence].
  destruct (sbit_cases count (Z.of_nat i')) as [[_ Hm']|[Hm' _]]; [|congruence].
  assert (Hlast : forall j, 0 <= j -> (j + 1) mod count = 0 -> j = count * (j / count) + (count - 1)).
  { intros j Hj Hmj.
    pose proof (Z.div_mod (j + 1) count ltac:(lia)) as E. rewrite Hmj in E.
    pose proof (Z.div_mod j count ltac:(lia)) as F. pose proof (Z.mod_pos_bound j count ltac:(lia)) as B.
    set (q := (j + 1) / count) in *. set (a := j / count) in *. set (r := j mod count) in *.
    assert (count * (q - a) = r + 1) by lia.
    assert (q - a = 1) by nia. nia. }
  assert (Z.of_nat i = Z.of_nat i').
  { rewrite (Hlast (Z.of_nat i)) by (auto; lia). rewrite (Hlast (Z.of_nat i')) by (auto; lia).
    assert (Z.of_nat i / count = Z.of_nat i' / count) by lia. congruence. }
  assert (i = i') by lia. subst i'. congruence.
Qed.


(* single consumer: at most one fiber is inside a pop loop (of either list) *)
Lemma pop_loop_ser s t q : Shape count (stk s t) -> in_pop_loop s t q -> is_ser (stk s t).
Proof.
  unfold in_pop_loop, pop_list. intros Sh H.
  destruct Sh as [|n|n k|q0 f n k Hf|y n k Hy|q0 f n k Hf|q0 y wc n k Hy]; try discriminate.
  - destruct Hf; discriminate.
  - destruct Hy; discriminate.
  - do 2 eexists. reflexivity.
  - do 2 eexists. destruct Hy; reflexivity.
Qed.

Lemma single_consumer_of_G x t u q q' :
  L1 count x -> G count x -> in_pop_loop (base x) t q -> in_pop_loop (base x) u q' -> t = u.
Proof.
  intros L Gx Ht Hu. apply (g_ser1 _ _ (g_a _ _ Gx)); eapply pop_loop_ser; eauto; apply L.
Qed.
End Final.
