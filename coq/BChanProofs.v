(* C11, bounded channel of include/fiber_channel.h on the ChanK machine (ChanK.M /
   ChanK.step / ChanK.init size progs): for any number of threads, any programs with one
   receiver thread w and non-NULL messages (bchan_progs_ok), any schedule, any size > 0
   (in particular 2^k):

     bchan_capacity   0 <= high - low <= size; a sender at the plain write
                      buffer[hi mod size] := v (shape sh_bwrite) finds the slot NULL and
                      owns it alone; the thread at buffer[lo mod size] := 0 (sh_qclear) is
                      the receiver and the slot holds the message it returns.
     bchan_fifo       with ghost logs (instrumented machine bist / bistep, erasure lemma
                      bistep_erase, bireach <-> reachable): brlog is a prefix of
                      map snd bclog, |bclog| = high, |brlog| = low, no NULL message, each
                      sender's entries of bclog are a prefix of its program's bsends.
     bchan_received_was_sent, bchan_no_duplicates   consequences.

   Structure: (1) kspec_shape / step_spec: ONE case analysis over the shapes of
   ChanKBase.shaped that says what a step does to high, low, the buffer cells and the
   stepping thread's ring phase (bphase_of), and preserves the program hypotheses (PInv);
   everything in the signal sub-protocol, the yield and the unbounded channel is "same_ring".
   (2) RInv: the ring invariant over the abstract view (high, low, buffer, phases) with
   ghosts, one lemma per owning step (rinv_cas / write / clear / store) and one for the
   rest (rinv_local), in the style of RingProofs.v.  (3) the instrumented machine and
   BLInv = RInv + log clauses.  (4) the statements. *)
From Coq Require Import List ZArith Lia Bool Arith.
From LF Require Import Conc T1K ChanK ChanKBase.
Import ListNotations.
Local Open Scope Z_scope.

(* ------------------------------------------------------------------ *)
(* ring phases of a thread, read off its stack *)
Inductive bph :=
| PhIdle
| PhBHigh (x lo : Z) | PhBSlot (x lo hi : Z) | PhBCas (x hi : Z) | PhBWrite (c : nat) (x : Z)
| PhQLow (hi : Z) | PhQSlot (hi lo : Z) | PhQClear (m lo : Z) | PhQStore (m v : Z).

Definition bphase_of (S : stack cc) : bph :=
  match S with
  | [f; FC c] =>
      match c with
      | KBHigh x lo _ _ => PhBHigh x lo
      | KBSlot x lo hi _ _ => PhBSlot x lo hi
      | KBCas x hi _ _ => PhBCas x hi
      | KBWrite _ _ => match f with CWrite c x => PhBWrite c x | _ => PhIdle end
      | KQLow _ hi _ _ => PhQLow hi
      | KQSlot _ hi lo _ _ => PhQSlot hi lo
      | KQClear m lo _ _ => PhQClear m lo
      | KQStore m _ _ => match f with CStoreC _ v _ => PhQStore m v | _ => PhIdle end
      | _ => PhIdle
      end
  | _ => PhIdle
  end.

Fixpoint top_cc (S : stack cc) : option cc :=
  match S with
  | [] => None
  | FC c :: _ => Some c
  | _ :: r => top_cc r
  end.

(* the bounded bsends a thread still has to commit: the one in progress (before its
   CAS on high succeeded) followed by those of the rest of its program *)
Definition bsends (p : list cop) : list Z :=
  flat_map (fun o => match o with OBSend x => [x] | _ => [] end) p.

Definition cc_pending (c : cc) : list Z :=
  match c with
  | KBLow x p _ | KBHigh x _ p _ | KBSlot x _ _ p _ | KBCas x _ p _ | KBYield x p _ => x :: bsends p
  | KNext p _
  | KWClr _ p _ | KWCas _ p _ | KWSlept _ p _ | KWClr2 _ p _ | KWEnd _ p _
  | KRX p _ | KRSt _ p _ | KRSpin _ p _ | KRRdy _ p _
  | KUData _ p _ | KUNull _ p _ | KUXchg _ p _ | KULink p _
  | KUHead _ p _ | KUNxt _ _ p _ | KUSetHead _ _ p _ | KURead _ p _ | KUWrite _ p _ | KUUse p _
  | KBWrite p _
  | KQHigh _ p _ | KQLow _ _ p _ | KQSlot _ _ _ p _ | KQClear _ _ p _ | KQStore _ p _ => bsends p
  end.

Definition pending (S : stack cc) : list Z :=
  match top_cc S with Some c => cc_pending c | None => [] end.

(* ------------------------------------------------------------------ *)
(* program hypotheses *)
Definition op_ok (rcv : bool) (o : cop) : Prop :=
  match o with
  | OBSend x => x <> 0
  | OBRecv | OBTry | OWait | OURecv | OUTry => rcv = true
  | _ => True
  end.
Definition prog_ok (rcv : bool) (p : list cop) : Prop := Forall (op_ok rcv) p.

Definition bchan_progs_ok (w : nat) (progs : list (list cop)) : Prop :=
  forall t, prog_ok (t =? w)%nat (nth t progs []).

Definition cc_ok (rcv : bool) (c : cc) : Prop :=
  match c with
  | KNext p _ => prog_ok rcv p
  | KWClr _ p _ | KWCas _ p _ | KWSlept _ p _ | KWClr2 _ p _ | KWEnd _ p _ => rcv = true /\ prog_ok rcv p
  | KRX p _ | KRSt _ p _ | KRSpin _ p _ | KRRdy _ p _ => prog_ok rcv p
  | KUData _ p _ | KUNull _ p _ | KUXchg _ p _ | KULink p _ => prog_ok rcv p
  | KUHead _ p _ | KUNxt _ _ p _ | KUSetHead _ _ p _ | KURead _ p _ | KUWrite _ p _ | KUUse p _ => rcv = true /\ prog_ok rcv p
  | KBLow x p _ | KBHigh x _ p _ | KBSlot x _ _ p _ | KBCas x _ p _ | KBYield x p _ => x <> 0 /\ prog_ok rcv p
  | KBWrite p _ => prog_ok rcv p
  | KQHigh _ p _ | KQLow _ _ p _ | KQSlot _ _ _ p _ | KQClear _ _ p _ | KQStore _ p _ => rcv = true /\ prog_ok rcv p
  end.

Definition stack_ok (rcv : bool) (S : stack cc) : Prop :=
  match top_cc S with Some c => cc_ok rcv c | None => True end /\
  match S with MSetWait c _ :: _ => (c mod 4 = 2)%nat | _ => True end.

Definition sw_ok (m : kmem) : Prop :=
  forall u c v, slot_wait m u = Some (c, v) -> (c mod 4 = 2)%nat.

Record PInv (w : nat) (s : st) : Prop := {
  p_stk : forall t, stack_ok (t =? w)%nat (stk s t);
  p_sw : sw_ok (mem s)
}.

Definition ringcell (c : nat) : Prop := c = c_high \/ c = c_low \/ exists j, c = c_buf j.
Definition same_ring (m m1 : kmem) : Prop := forall c, ringcell c -> cell m1 c = cell m c.

Lemma ringcell_mod c : ringcell c -> (c mod 4 <> 2)%nat.
Proof.
  intros [->|[->|[j ->]]]; [cbn; lia | cbn; lia |].
  unfold c_buf. replace (4 * j + 1)%nat with (1 + j * 4)%nat by lia. rewrite Nat.mod_add by lia. cbn. lia.
Qed.

Definition Hi (m : kmem) : Z := cell m c_high.
Definition Lo (m : kmem) : Z := cell m c_low.

(* the send committed by a step (a successful CAS on high) leaves the pending list *)
Definition pend_ok (p : bph) (hi : Z) (S S1 : stack cc) : Prop :=
  pending S = match p with PhBCas x h => if hi =? h then [x] else [] | _ => [] end ++ pending S1.

(* what one step of thread t does to the ring cells and to its own phase *)
Definition kspec (rcv : bool) (size : Z) (m : kmem) (S : stack cc) (r : kmem * list Z * stack cc) : Prop :=
  let '(m1, _, S1) := r in
  stack_ok rcv S1 /\ sw_ok m1 /\ pend_ok (bphase_of S) (Hi m) S S1 /\
  match bphase_of S with
  | PhIdle => same_ring m m1 /\
      (bphase_of S1 = PhIdle \/ (exists x, x <> 0 /\ bphase_of S1 = PhBHigh x (Lo m)) \/
       (rcv = true /\ bphase_of S1 = PhQLow (Hi m)))
  | PhBHigh x lo => same_ring m m1 /\ bphase_of S1 = PhBSlot x lo (Hi m)
  | PhBSlot x lo hi => same_ring m m1 /\
      bphase_of S1 = if (cell m (c_buf (bidx size hi)) =? 0) && (hi - lo <? size) then PhBCas x hi else PhIdle
  | PhBCas x hi =>
      if Hi m =? hi
      then (forall c, c <> c_high -> cell m1 c = cell m c) /\ Hi m1 = hi + 1 /\
           bphase_of S1 = PhBWrite (c_buf (bidx size hi)) x
      else same_ring m m1 /\ bphase_of S1 = PhIdle
  | PhBWrite c x => (forall c', c' <> c -> cell m1 c' = cell m c') /\ cell m1 c = x /\ bphase_of S1 = PhIdle
  | PhQLow hi => same_ring m m1 /\ bphase_of S1 = PhQSlot hi (Lo m)
  | PhQSlot hi lo => same_ring m m1 /\
      bphase_of S1 = if negb (cell m (c_buf (bidx size lo)) =? 0) && (lo <? hi)
                    then PhQClear (cell m (c_buf (bidx size lo))) lo else PhIdle
  | PhQClear x lo => (forall c', c' <> c_buf (bidx size lo) -> cell m1 c' = cell m c') /\
                     cell m1 (c_buf (bidx size lo)) = 0 /\ bphase_of S1 = PhQStore x (lo + 1)
  | PhQStore x v => (forall c', c' <> c_low -> cell m1 c' = cell m c') /\ Lo m1 = v /\ bphase_of S1 = PhIdle
  end.

Lemma wake_cell m f : cell (wake m f) = cell m.
Proof. unfold wake. destruct (blocked m f); reflexivity. Qed.
Lemma wake_sw m f : slot_wait (wake m f) = slot_wait m.
Proof. unfold wake. destruct (blocked m f); reflexivity. Qed.

Lemma prog_ok_tail rcv o p : prog_ok rcv (o :: p) -> op_ok rcv o /\ prog_ok rcv p.
Proof. intros H. inversion H; auto. Qed.

Lemma start_ok rcv t p k : prog_ok rcv p -> stack_ok rcv (start t p k).
Proof.
  intros H. destruct p as [|o r]; [split; exact I|].
  apply prog_ok_tail in H. destruct H as [H1 H2].
  destruct o; unfold stack_ok, start, wait_start, raise_start, urecv_start, bsend_start, brecv_start; cbn in *; split; auto.
Qed.

Lemma start_phase t p k : bphase_of (start t p k) = PhIdle.
Proof. destruct p as [|[] r]; reflexivity. Qed.

Lemma pending_start t p k : pending (start t p k) = bsends p.
Proof. destruct p as [|[] r]; reflexivity. Qed.

Lemma same_ring_refl m : same_ring m m.
Proof. intros c _. reflexivity. Qed.


Ltac nring :=
  let E := fresh in let j := fresh in
  intros [E|[E|[j E]]]; unfold c_scr, c_buf, c_dat, c_nxt, c_high, c_low, c_waiter, c_head, c_tail in E; lia.

Lemma same_ring_set m c v : ~ ringcell c -> same_ring m (set_cell m c v).
Proof. intros N c0 R. cbn. apply upd_other. intros ->. auto. Qed.

Lemma sleep_spec m t rest :
  let '(m1, _, s1) := sleep cc m t rest in
  cell m1 = cell m /\ slot_wait m1 = slot_wait m /\ (s1 = Resume :: rest \/ s1 = Asleep :: rest).
Proof. unfold sleep. destruct (pend m t); cbn; auto. Qed.

Lemma run_slots_spec m t rest :
  (forall u, slot_mutex m u = None) ->
  let '(m1, _, s1) := run_slots cc m t rest in
  cell m1 = cell m /\
  (forall u c v, slot_wait m1 u = Some (c, v) -> slot_wait m u = Some (c, v)) /\
  (s1 = Resume :: rest \/ s1 = Asleep :: rest \/
   exists c v, slot_wait m t = Some (c, v) /\ s1 = MSetWait c v :: rest).
Proof.
  intros Hm. unfold run_slots.
  set (p := if slot_sched m t then _ else _).
  assert (E1 : cell (fst p) = cell m /\ slot_wait (fst p) = slot_wait m /\ slot_mutex (fst p) = slot_mutex m).
  { unfold p. destruct (slot_sched m t); cbn; auto. unfold wake.
    destruct (blocked _ t); cbn; auto. }
  destruct p as [m1 e1]. cbn [fst] in E1.
  set (m2 := match slot_mpmc m1 t with Some q => _ | None => m1 end).
  assert (E2 : cell m2 = cell m /\ slot_wait m2 = slot_wait m /\ slot_mutex m2 = slot_mutex m).
  { unfold m2. destruct (slot_mpmc m1 t); cbn; auto. }
  clearbody m2. destruct E2 as (C2 & W2 & M2). rewrite M2, Hm.
  destruct (slot_wait m2 t) as [[c0 v0]|] eqn:Ew.
  - split; [exact C2|]. split.
    + intros u c v. cbn. unfold upd. destruct (u =? t)%nat; [discriminate|]. rewrite W2. auto.
    + right; right. exists c0, v0. rewrite <- W2. auto.
  - pose proof (sleep_spec m2 t rest) as Sp. destruct (sleep cc m2 t rest) as [[m3 e3] s3].
    destruct Sp as (C3 & W3 & S3). split; [congruence|]. split.
    + intros u c v. rewrite W3, W2. auto.
    + tauto.
Qed.



Ltac t_sok := unfold stack_ok; cbn; tauto.
Ltac t_sw Sw := let u := fresh in let c := fresh in let v := fresh in intros u c v; cbn; rewrite ?wake_sw; cbn; apply Sw.
Ltac t_ring := first [apply same_ring_refl | apply same_ring_set; nring
                     | let c := fresh in intros c ?; rewrite ?wake_cell; reflexivity].
Ltac t_pend := unfold pend_ok; rewrite ?app_nil_r, ?pending_start; unfold pending; cbn; reflexivity.
Ltac simple4 Sw := split; [t_sok | split; [t_sw Sw | split; [t_pend | split; [t_ring | left; reflexivity]]]].
Ltac dif := match goal with |- context [if ?b then _ else _] => destruct b eqn:? end.

Lemma kspec_slots rcv m m0 t c :
  cc_ok rcv c -> (forall u, slot_mutex m0 u = None) -> sw_ok m ->
  cell m0 = cell m -> slot_wait m0 = slot_wait m ->
  let '(m1, _, S1) := run_slots cc m0 t [YLoop; FC c] in
  stack_ok rcv S1 /\ sw_ok m1 /\ pending S1 = cc_pending c /\ same_ring m m1 /\ bphase_of S1 = PhIdle.
Proof.
  intros Okc Nm Sw Ec Ew.
  pose proof (run_slots_spec m0 t [YLoop; FC c] Nm) as R.
  destruct (run_slots cc m0 t [YLoop; FC c]) as [[m1 e1] s1]. destruct R as (C & W & S1).
  split; [|split; [|split; [|split]]].
  - destruct S1 as [->|[->|(c0 & v0 & E & ->)]]; unfold stack_ok; cbn; auto.
    split; auto. rewrite Ew in E. eapply Sw; eauto.
  - intros u c0 v0 E. apply W in E. rewrite Ew in E. eapply Sw; eauto.
  - destruct S1 as [->|[->|(c0 & v0 & E & ->)]]; reflexivity.
  - intros c0 _. rewrite C, Ec. reflexivity.
  - destruct S1 as [->|[->|(c0 & v0 & E & ->)]]; reflexivity.
Qed.

Lemma kspec_yield rcv size m t y c :
  ycont c -> (forall u, slot_mutex m u = None) -> stack_ok rcv (ystack y ++ [FC c]) -> sw_ok m ->
  kspec rcv size m (ystack y ++ [FC c]) (kstep cc (cret size) m t (ystack y ++ [FC c])).
Proof.
  intros Hc Nm Ok Sw.
  assert (Okc : cc_ok rcv c).
  { destruct Ok as [Ok _]. destruct y; exact Ok. }
  assert (Hph : bphase_of (ystack y ++ [FC c]) = PhIdle).
  { destruct c; try contradiction; destruct y; reflexivity. }
  assert (Hpe : pending (ystack y ++ [FC c]) = cc_pending c).
  { destruct y; reflexivity. }
  unfold kspec, pend_ok. rewrite Hph, Hpe. clear Hph Hpe. cbn [app].
  destruct y; cbn.
  - (* YRead *) split; [unfold stack_ok; cbn; tauto|]. split; [exact Sw|]. split; [reflexivity|]. split; [t_ring|].
    left. destruct c; try contradiction; reflexivity.
  - (* YNext *) dif.
    + split; [t_sok | split; [t_sw Sw | split; [reflexivity | split; [t_ring | left; reflexivity]]]].
    + destruct c; try contradiction; cbn in Okc |- *;
      (split; [t_sok | split; [t_sw Sw | split; [reflexivity | split; [t_ring | left; reflexivity]]]]).
  - dif; (split; [t_sok | split; [t_sw Sw | split; [reflexivity | split; [t_ring | left; reflexivity]]]]).
  - split; [t_sok | split; [t_sw Sw | split; [reflexivity | split; [t_ring | left; reflexivity]]]].
  - split; [t_sok | split; [t_sw Sw | split; [reflexivity | split; [t_ring | left; reflexivity]]]].
  - (* MRead *) dif.
    + split; [t_sok | split; [t_sw Sw | split; [reflexivity | split; [t_ring | left; reflexivity]]]].
    + pose proof (kspec_slots rcv m m t c Okc Nm Sw eq_refl eq_refl) as R.
      destruct (run_slots cc m t [YLoop; FC c]) as [[m1 e1] s1]. intuition congruence.
  - (* MFlip *)
    pose proof (kspec_slots rcv m (set_fstate m t ST_WAITING) t c Okc Nm Sw eq_refl eq_refl) as R.
    destruct (run_slots cc (set_fstate m t ST_WAITING) t [YLoop; FC c]) as [[m1 e1] s1]. intuition congruence.
  - (* MSetWait *)
    destruct Ok as [_ Okm]. cbn in Okm.
    pose proof (sleep_spec (set_cell m c0 v) t [YLoop; FC c]) as R.
    destruct (sleep cc (set_cell m c0 v) t [YLoop; FC c]) as [[m1 e1] s1].
    destruct R as (C & W & S1). split; [|split; [|split; [|split]]].
    + destruct S1 as [->| ->]; unfold stack_ok; cbn; auto.
    + intros u c1 v1. rewrite W. cbn. apply Sw.
    + destruct S1 as [->| ->]; reflexivity.
    + intros c1 R. rewrite C. cbn. apply upd_other. intros ->. apply ringcell_mod in R. contradiction.
    + left. destruct S1 as [->| ->]; reflexivity.
  - split; [t_sok | split; [t_sw Sw | split; [reflexivity | split; [t_ring | left; reflexivity]]]].
  - split; [unfold stack_ok; cbn; tauto|]. split; [t_sw Sw|]. split; [reflexivity|]. split; [t_ring|].
    left. destruct c; try contradiction; reflexivity.
Qed.

Lemma scr_mod t : (c_scr t mod 4 = 2)%nat.
Proof. unfold c_scr. replace (4 * t + 2)%nat with (2 + t * 4)%nat by lia. rewrite Nat.mod_add by lia. reflexivity. Qed.

Ltac t_sok2 := first [ rewrite app_nil_r; apply start_ok; tauto | unfold stack_ok; cbn; tauto ].
Ltac t_phase :=
  first [ left; reflexivity | left; rewrite app_nil_r; apply start_phase
        | right; left; eexists; split; [|reflexivity]; tauto
        | right; right; split; [tauto|reflexivity] ].
Ltac close Sw :=
  repeat match goal with
  | |- _ /\ _ => split
  | |- stack_ok _ _ => t_sok2
  | |- sw_ok _ => t_sw Sw
  | |- same_ring _ _ => t_ring
  | |- pend_ok _ _ _ _ => t_pend
  | |- _ \/ _ => t_phase
  | |- forall c, c <> _ -> upd _ _ _ _ = _ => intros; apply upd_other; assumption
  | |- upd _ _ _ _ = _ => apply upd_same
  | |- _ = _ => first [reflexivity | rewrite app_nil_r; apply start_phase
                       | rewrite ?app_nil_r, ?pending_start; unfold pending; cbn; reflexivity]
  end.

Lemma kspec_shape w s t :
  0 < csize s -> BInv s -> PInv w s ->
  kspec (t =? w)%nat (csize s) (mem s) (stk s t) (kstep cc (cret (csize s)) (mem s) t (stk s t)).
Proof.
  intros Hsz B P.
  pose proof (b_shape s B t) as Sh. pose proof (b_nomutex s B) as Nm.
  pose proof (p_stk w s P t) as Ok. pose proof (p_sw w s P) as Sw.
  remember (stk s t) as S eqn:ES. remember (csize s) as size eqn:Esz. remember (t =? w)%nat as rcv. clear ES.
  destruct Sh; [ .. | apply kspec_yield; assumption ];
    unfold kspec, pend_ok, Hi, Lo; cbn; destruct Ok as [Ok _]; cbn in Ok.
  all: try (simple4 Sw).
  all: try match goal with a : wk |- _ => destruct a end.
  all: repeat dif; unfold fin, wait_start, urecv_start, brecv_start; cbn.
  all: try (close Sw; fail).
  all: (split; [t_sok|]; split; [| split; [t_pend | split; [t_ring | left; reflexivity]]];
        intros u c0 v0; cbn; unfold upd; destruct (u =? t)%nat; [intros [= <- _]; apply scr_mod | apply Sw]).
Qed.

Lemma step_spec w s t :
  0 < csize s -> BInv s -> PInv w s ->
  let s' := fst (step s t) in
  PInv w s' /\ csize s' = csize s /\ nthr s' = nthr s /\ (forall u, u <> t -> stk s' u = stk s u) /\
  kspec (t =? w)%nat (csize s) (mem s) (stk s t) (mem s', [], stk s' t).
Proof.
  intros Hsz B P. pose proof (kspec_shape w s t Hsz B P) as K.
  unfold step. destruct (kstep cc (cret (csize s)) (mem s) t (stk s t)) as [[m1 e1] s1].
  cbn. rewrite upd_same. split; [|split; [reflexivity|split; [reflexivity|split]]].
  - destruct K as (K1 & K2 & _). constructor; cbn; [|exact K2].
    intros u. destruct (Nat.eq_dec u t) as [->|Hne]; [rewrite upd_same; exact K1|].
    rewrite upd_other by assumption. apply (p_stk w s P).
  - intros u Hne. apply upd_other. assumption.
  - exact K.
Qed.

Lemma init_pinv w size progs : bchan_progs_ok w progs -> PInv w (init size progs).
Proof.
  intros H. constructor; cbn.
  - intros t. unfold stack_ok; cbn. split; [apply H|exact I].
  - intros u c v; cbn. discriminate.
Qed.

Lemma step_csize s t : csize (fst (step s t)) = csize s.
Proof. unfold step. destruct (kstep _ _ _ _ _) as [[? ?] ?]. reflexivity. Qed.

Lemma reachable_csize size progs s : reachable M (init size progs) s -> csize s = size.
Proof.
  apply (invariant_ind M (fun s => csize s = size)); [reflexivity|].
  intros s0 t E _. cbn. rewrite step_csize. exact E.
Qed.

Lemma reachable_pinv w size progs s :
  0 < size -> bchan_progs_ok w progs -> reachable M (init size progs) s -> PInv w s.
Proof.
  intros Hs Hp R.
  assert (G : PInv w s /\ BInv s /\ csize s = size).
  { revert s R. apply (invariant_ind M (fun s => PInv w s /\ BInv s /\ csize s = size)).
    - split; [apply init_pinv; assumption|]. split; [apply init_binv|reflexivity].
    - intros s t (P & B & E) _. cbn. split; [|split].
      + apply step_spec; auto. lia.
      + apply binv_step; assumption.
      + rewrite step_csize. exact E. }
  tauto.
Qed.

(* ------------------------------------------------------------------ *)
(* index arithmetic *)
Lemma zmod_inj n a b : 0 < n -> a mod n = b mod n -> a <= b < a + n -> a = b.
Proof.
  intros Hn He Hr.
  assert (Ha := Z.div_mod a n ltac:(lia)). assert (Hb := Z.div_mod b n ltac:(lia)).
  assert (Hma := Z.mod_pos_bound a n Hn). assert (Hmb := Z.mod_pos_bound b n Hn).
  rewrite He in Ha. assert (a / n = b / n) by nia. nia.
Qed.

Lemma bidx_inj n a b : 0 < n -> bidx n a = bidx n b -> a <= b < a + n -> a = b.
Proof.
  intros Hn He Hr. apply (zmod_inj n); auto.
  assert (Hma := Z.mod_pos_bound a n Hn). assert (Hmb := Z.mod_pos_bound b n Hn).
  unfold bidx in He. lia.
Qed.

Lemma bidx_neq n a b : 0 < n -> a < b < a + n -> bidx n a <> bidx n b.
Proof. intros Hn Hr He. apply bidx_inj in He; lia. Qed.

Lemma bidx_neq' n a b : 0 < n -> a <> b -> a - n < b < a + n -> bidx n a <> bidx n b.
Proof.
  intros Hn Hne Hr. destruct (Z_lt_le_dec a b).
  - apply bidx_neq; lia.
  - apply not_eq_sym. apply bidx_neq; lia.
Qed.

Lemma bidx_add n a : 0 < n -> bidx n (a + n) = bidx n a.
Proof. intros Hn. unfold bidx. rewrite <- (Z.mul_1_l n) at 1. rewrite Z.mod_add by lia. reflexivity. Qed.

(* ------------------------------------------------------------------ *)
(* the ring invariant over the abstract view
     hi lo = the cells high / low, buf j = cell (c_buf j), phs t = phase of thread t,
   with ghosts  bvals i = message claimed for absolute index i,
                gh t   = absolute index claimed by t's last successful CAS *)
Definition is_bw (p : bph) : Prop := match p with PhBWrite _ _ => True | _ => False end.
Definition is_qs (p : bph) : Prop := match p with PhQStore _ _ => True | _ => False end.

Section RingInv.
  Variable w : nat.
  Variable size : Z.
  Hypothesis Hsize : 0 < size.

  Definition writing (phs : nat -> bph) (gh : nat -> Z) (i : Z) : Prop :=
    exists t, is_bw (phs t) /\ gh t = i.

  Definition local_ok (hi lo : Z) (buf : nat -> Z) (phs : nat -> bph) (bvals : Z -> Z) (gh : nat -> Z)
             (t : nat) (p : bph) : Prop :=
    match p with
    | PhIdle => True
    | PhBHigh x l => x <> 0 /\ l <= lo
    | PhBSlot x l h => x <> 0 /\ l <= lo /\ h <= hi
    | PhBCas x h => x <> 0 /\ h <= hi /\ h < lo + size /\ (hi = h -> buf (bidx size h) = 0)
    | PhBWrite c x => c = c_buf (bidx size (gh t)) /\ lo <= gh t < hi /\ bvals (gh t) = x
    | PhQLow h => t = w /\ h <= hi
    | PhQSlot h l => t = w /\ h <= hi /\ l = lo
    | PhQClear m l => t = w /\ l = lo /\ lo < hi /\ m = bvals lo /\ ~ writing phs gh lo
    | PhQStore m v => t = w /\ v = lo + 1 /\ lo < hi /\ m = bvals lo /\ buf (bidx size lo) = 0 /\
                      ~ writing phs gh lo
    end.

  Record RInv (hi lo : Z) (buf : nat -> Z) (phs : nat -> bph) (bvals : Z -> Z) (gh : nat -> Z) : Prop := {
    r_ord : 0 <= lo /\ lo <= hi /\ hi <= lo + size;
    r_loc : forall t, local_ok hi lo buf phs bvals gh t (phs t);
    r_uni : forall t u, is_bw (phs t) -> is_bw (phs u) -> gh t = gh u -> t = u;
    r_live : forall i, lo <= i < hi -> ~ (i = lo /\ is_qs (phs w)) ->
               (writing phs gh i /\ buf (bidx size i) = 0) \/
               (~ writing phs gh i /\ buf (bidx size i) = bvals i);
    r_nz : forall i, 0 <= i < hi -> bvals i <> 0;
    r_free : forall i, hi <= i < lo + size -> buf (bidx size i) = 0
  }.

  Lemma writing_ext phs phs' gh i : (forall u, phs' u = phs u) -> (writing phs' gh i <-> writing phs gh i).
  Proof. intros E. unfold writing. split; intros [t H]; exists t; [rewrite <- E|rewrite E]; exact H. Qed.

  Lemma rinv_ext hi lo buf buf' phs phs' bvals gh :
    (forall j, buf' j = buf j) -> (forall u, phs' u = phs u) ->
    RInv hi lo buf phs bvals gh -> RInv hi lo buf' phs' bvals gh.
  Proof.
    intros Eb Ep [Io Il Iu Ilive Inz Ifree].
    assert (W := fun i => writing_ext phs phs' gh i Ep).
    constructor; auto.
    - intros t. specialize (Il t). rewrite Ep. unfold local_ok in *.
      destruct (phs t); rewrite ?Eb, ?W; auto.
    - intros t u. rewrite !Ep. apply Iu.
    - intros i Hi Hq. rewrite Ep in Hq. rewrite Eb, W. apply Ilive; auto.
    - intros i Hi. rewrite Eb. apply Ifree; auto.
  Qed.

  Lemma writing_upd phs gh t p i :
    writing (upd phs t p) gh i <-> (exists u, u <> t /\ is_bw (phs u) /\ gh u = i) \/ (is_bw p /\ gh t = i).
  Proof.
    unfold writing. split.
    - intros [u [Hp Hh]]. destruct (Nat.eq_dec u t) as [->|Hne].
      + rewrite upd_same in Hp. right; auto.
      + rewrite upd_other in Hp by assumption. left; exists u; auto.
    - intros [[u [Hne [Hp Hh]]]|[Hp Hh]].
      + exists u. rewrite upd_other by assumption; auto.
      + exists t. rewrite upd_same; auto.
  Qed.

  (* t neither enters nor leaves the writing phase *)
  Lemma writing_local phs gh t p i :
    ~ is_bw (phs t) -> ~ is_bw p -> (writing (upd phs t p) gh i <-> writing phs gh i).
  Proof.
    intros A B. rewrite writing_upd. unfold writing. split.
    - intros [[u (Hne & Hp & Hh)]|[Hp _]]; [exists u; auto|contradiction].
    - intros [u (Hp & Hh)]. left. exists u. repeat split; auto. intros ->. contradiction.
  Qed.

  (* (0) a step that changes only t's phase, between non-owning phases *)
  Lemma rinv_local hi lo buf phs bvals gh t p :
    RInv hi lo buf phs bvals gh ->
    ~ is_bw (phs t) -> ~ is_bw p -> ~ is_qs (phs t) -> ~ is_qs p ->
    local_ok hi lo buf phs bvals gh t p ->
    RInv hi lo buf (upd phs t p) bvals gh.
  Proof.
    intros [Io Il Iu Ilive Inz Ifree] A1 A2 B1 B2 L.
    assert (W := fun i => writing_local phs gh t p i A1 A2).
    constructor; auto.
    - intros u. destruct (Nat.eq_dec u t) as [->|Hne].
      + rewrite upd_same. unfold local_ok in *. destruct p; rewrite ?W; auto.
      + rewrite upd_other by assumption. specialize (Il u). unfold local_ok in *.
        destruct (phs u); rewrite ?W; auto.
    - intros u v. destruct (Nat.eq_dec u t) as [->|Hu]; destruct (Nat.eq_dec v t) as [->|Hv];
        rewrite ?upd_same, ?(upd_other _ t _ u), ?(upd_other _ t _ v) by assumption; auto; try contradiction.
    - intros i Hi Hq. rewrite W. apply Ilive; auto. intros [E Q]. apply Hq. split; auto.
      destruct (Nat.eq_dec w t) as [->|Hne]; [contradiction|]. rewrite upd_other by assumption. exact Q.
  Qed.

  Ltac ucases u t :=
    destruct (Nat.eq_dec u t) as [->|?];
    [ rewrite ?upd_same in * | rewrite ?(upd_other _ t _ u) in * by assumption ].

  (* (1) successful CAS on high: claims index hi *)
  Lemma rinv_cas hi lo buf phs bvals bvals' gh t x :
    RInv hi lo buf phs bvals gh -> phs t = PhBCas x hi ->
    (forall i, 0 <= i < hi -> bvals' i = bvals i) -> bvals' hi = x ->
    RInv (hi + 1) lo buf (upd phs t (PhBWrite (c_buf (bidx size hi)) x)) bvals' (upd gh t hi).
  Proof.
    intros [Io Il Iu Ilive Inz Ifree] Hp Hv Hx.
    assert (LT := Il t). rewrite Hp in LT. cbn in LT. destruct LT as (Lnz & _ & L3 & L4). specialize (L4 eq_refl).
    set (phs' := upd phs t _). set (gh' := upd gh t hi).
    assert (W : forall i, writing phs' gh' i <-> writing phs gh i \/ i = hi).
    { intros i. unfold writing, phs', gh'. split.
      - intros [u [A B]]. ucases u t; [right; congruence|left; exists u; auto].
      - intros [[u [A B]]| ->].
        + exists u. assert (u <> t) by (intros ->; rewrite Hp in A; exact A).
          rewrite !upd_other by assumption. auto.
        + exists t. rewrite !upd_same. cbn; auto. }
    assert (Bw : forall u, u <> t -> is_bw (phs u) -> gh u < hi).
    { intros u _ B. specialize (Il u). destruct (phs u); try contradiction. cbn in Il. lia. }
    constructor.
    - lia.
    - intros u. unfold phs', gh'. ucases u t.
      + cbn. rewrite upd_same. repeat split; auto; lia.
      + specialize (Il u). pose proof (Bw u n) as Bu. fold phs' gh'.
        destruct (phs u) eqn:Eu; cbn in *; rewrite ?W; try (intuition lia).
        * specialize (Bu I). unfold gh'. rewrite upd_other by assumption. rewrite Hv by lia. intuition lia.
        * rewrite Hv by lia. intuition lia.
        * rewrite Hv by lia. intuition lia.
    - intros u v. unfold phs', gh'. ucases u t; ucases v t; auto.
      + intros _ B E. specialize (Bw v n B). lia.
      + intros B _ E. specialize (Bw u n B). lia.
    - intros i Hi Hq. destruct (Z.eq_dec i hi) as [->|Hne].
      + left. split; [apply W; auto | exact L4].
      + assert (Hq' : ~ (i = lo /\ is_qs (phs w))).
        { intros [E Q]. apply Hq. split; auto. unfold phs'. ucases w t; auto. rewrite Hp in Q. exact Q. }
        rewrite Hv by lia. destruct (Ilive i ltac:(lia) Hq') as [[A B]|[A B]]; [left|right]; split; auto.
        * apply W; auto.
        * rewrite W. tauto.
    - intros i Hi. destruct (Z.eq_dec i hi) as [->|Hne]; [congruence|]. rewrite Hv by lia. apply Inz. lia.
    - intros i Hi. apply Ifree. lia.
  Qed.

  (* (2) the claimed slot is written *)
  Lemma rinv_write hi lo buf phs bvals gh t c x :
    RInv hi lo buf phs bvals gh -> phs t = PhBWrite c x ->
    RInv hi lo (upd buf (bidx size (gh t)) x) (upd phs t PhIdle) bvals gh.
  Proof.
    intros [Io Il Iu Ilive Inz Ifree] Hp.
    assert (LT := Il t). rewrite Hp in LT. cbn in LT. destruct LT as (Lc & Lr & Lv).
    set (g := gh t) in *. set (phs' := upd phs t PhIdle).
    assert (Bt : is_bw (phs t)) by (rewrite Hp; exact I).
    assert (W : forall i, writing phs' gh i <-> writing phs gh i /\ i <> g).
    { intros i. unfold phs'. rewrite writing_upd. split.
      - intros [[u (Hne & A & B)]|[A _]]; [|contradiction]. split; [exists u; auto|].
        intros ->. apply Hne. apply Iu; auto.
      - intros [[u (A & B)] Hne]. left. exists u. repeat split; auto. intros ->. auto. }
    assert (Wg : writing phs gh g) by (exists t; auto).
    assert (Q : is_qs (phs' w) <-> is_qs (phs w)).
    { unfold phs'. ucases w t; [|tauto]. rewrite Hp. cbn. tauto. }
    constructor; auto.
    - intros u. unfold phs'. ucases u t; [exact I|]. fold phs'. specialize (Il u).
      destruct (phs u) eqn:Eu; cbn in *; rewrite ?W; try (intuition lia).
      + destruct Il as (A & B & C & D). repeat split; auto. intros E. rewrite upd_other; auto.
        apply not_eq_sym. apply bidx_neq; lia.
      + destruct Il as (A & B & C & D & E & F). repeat split; auto; [|tauto].
        rewrite upd_other; auto. assert (g <> lo) by (intros E'; apply F; rewrite <- E'; exact Wg).
        apply bidx_neq; lia.
    - intros u v. unfold phs'. ucases u t; ucases v t; auto; try contradiction.
    - intros i Hi Hq. rewrite Q in Hq. destruct (Z.eq_dec i g) as [->|Hne].
      + right. rewrite upd_same. split; [|congruence]. rewrite W. tauto.
      + rewrite upd_other by (apply bidx_neq'; lia). rewrite W.
        destruct (Ilive i Hi Hq) as [[A B]|[A B]]; [left|right]; split; auto. tauto.
    - intros i Hi. rewrite upd_other by (apply not_eq_sym, bidx_neq; lia). apply Ifree; auto.
  Qed.

  (* (3) the receiver clears the oldest slot *)
  Lemma rinv_clear hi lo buf phs bvals gh t m l :
    RInv hi lo buf phs bvals gh -> phs t = PhQClear m l ->
    RInv hi lo (upd buf (bidx size l) 0) (upd phs t (PhQStore m (l + 1))) bvals gh.
  Proof.
    intros [Io Il Iu Ilive Inz Ifree] Hp.
    assert (LT := Il t). rewrite Hp in LT. cbn in LT. destruct LT as (-> & -> & L3 & L4 & L5).
    set (phs' := upd phs w (PhQStore m (lo + 1))).
    assert (W : forall i, writing phs' gh i <-> writing phs gh i).
    { intros i. apply writing_local; [rewrite Hp|]; auto. }
    assert (Z0 : forall j, buf j = 0 -> upd buf (bidx size lo) 0 j = 0).
    { intros j E. unfold upd. destruct (j =? bidx size lo)%nat; auto. }
    constructor; auto.
    - intros u. unfold phs'. ucases u w.
      + cbn. rewrite upd_same. fold phs'. rewrite W. tauto.
      + fold phs'. specialize (Il u).
        destruct (phs u) eqn:Eu; cbn in *; rewrite ?W; try (intuition lia).
        destruct Il as (A & B & C & D). repeat split; auto.
    - intros u v. unfold phs'. ucases u w; ucases v w; auto; try contradiction.
      all: rewrite Hp; contradiction.
    - intros i Hi Hq. assert (i <> lo).
      { intros ->. apply Hq. split; auto. unfold phs'. rewrite upd_same. exact I. }
      rewrite upd_other by (apply not_eq_sym, bidx_neq; lia). rewrite W. apply Ilive; auto. tauto.
  Qed.

  (* (4) the receiver publishes low + 1 *)
  Lemma rinv_store hi lo buf phs bvals gh t m v :
    RInv hi lo buf phs bvals gh -> phs t = PhQStore m v ->
    RInv hi v buf (upd phs t PhIdle) bvals gh.
  Proof.
    intros [Io Il Iu Ilive Inz Ifree] Hp.
    assert (LT := Il t). rewrite Hp in LT. cbn in LT. destruct LT as (-> & -> & L3 & L4 & L5 & L6).
    set (phs' := upd phs w PhIdle).
    assert (W : forall i, writing phs' gh i <-> writing phs gh i).
    { intros i. apply writing_local; [rewrite Hp|]; auto. }
    constructor; auto.
    - lia.
    - intros u. unfold phs'. ucases u w; [exact I|]. fold phs'. specialize (Il u).
      destruct (phs u) eqn:Eu; cbn in *; rewrite ?W; try (intuition lia).
      destruct Il as (A & B & C). repeat split; auto; try lia.
      assert (gh u <> lo); [|lia]. intros E. apply L6. exists u. rewrite Eu. cbn; auto.
    - intros u v. unfold phs'. ucases u w; ucases v w; auto; try contradiction.
    - intros i Hi Hq. rewrite W. apply Ilive; [lia|]. intros [E _]. lia.
    - intros i Hi. destruct (Z.eq_dec i (lo + size)) as [->|Hne].
      + rewrite bidx_add by assumption. exact L5.
      + apply Ifree. lia.
  Qed.
End RingInv.

(* ------------------------------------------------------------------ *)
(* the instrumented machine: ChanK.step plus ghost logs *)
Record bist := {
  bbase : st;
  bclog : list (nat * Z);     (* (sender, message) in the order of the successful CASes on high *)
  brlog : list Z;             (* messages in the order the receiver committed them (store of low) *)
  bghi : nat -> Z             (* absolute index claimed by t's last successful CAS *)
}.

Definition bistep (x : bist) (t : nat) : bist :=
  let s := bbase x in
  let s' := fst (step s t) in
  match bphase_of (stk s t) with
  | PhBCas v hi =>
      if cell (mem s) c_high =? hi
      then {| bbase := s'; bclog := bclog x ++ [(t, v)]; brlog := brlog x; bghi := upd (bghi x) t hi |}
      else {| bbase := s'; bclog := bclog x; brlog := brlog x; bghi := bghi x |}
  | PhQStore m _ => {| bbase := s'; bclog := bclog x; brlog := brlog x ++ [m]; bghi := bghi x |}
  | _ => {| bbase := s'; bclog := bclog x; brlog := brlog x; bghi := bghi x |}
  end.

Lemma bistep_erase x t : bbase (bistep x t) = fst (step (bbase x) t).
Proof.
  unfold bistep. destruct (bphase_of (stk (bbase x) t)); try reflexivity.
  destruct (_ =? _); reflexivity.
Qed.

Definition biinit (size : Z) (progs : list (list cop)) : bist :=
  {| bbase := init size progs; bclog := []; brlog := []; bghi := fun _ => 0 |}.

Inductive bireach (size : Z) (progs : list (list cop)) : bist -> Prop :=
| bir_init : bireach size progs (biinit size progs)
| bir_step x t : bireach size progs x -> status_of (bbase x) t = SReady -> bireach size progs (bistep x t).

Lemma bireach_reachable size progs x : bireach size progs x -> reachable M (init size progs) (bbase x).
Proof.
  induction 1 as [|x t R IH St]; [constructor|].
  rewrite bistep_erase. apply (reach_step M (init size progs) (bbase x) t IH St).
Qed.

Lemma reachable_bireach size progs s :
  reachable M (init size progs) s -> exists x, bireach size progs x /\ bbase x = s.
Proof.
  induction 1 as [|s t R [x [IR E]] St].
  - exists (biinit size progs). split; [constructor|reflexivity].
  - exists (bistep x t). subst s. split; [constructor; assumption | apply bistep_erase].
Qed.

(* ------------------------------------------------------------------ *)
Definition bvals (x : bist) (i : Z) : Z := nth (Z.to_nat i) (map snd (bclog x)) 0.
Definition bufof (m : kmem) (j : nat) : Z := cell m (c_buf j).
Definition phsof (s : st) (t : nat) : bph := bphase_of (stk s t).
Definition bsent_by (t : nat) (l : list (nat * Z)) : list Z :=
  map snd (filter (fun e => (fst e =? t)%nat) l).

Record BLInv (w : nat) (size : Z) (progs : list (list cop)) (x : bist) : Prop := {
  l_binv : BInv (bbase x);
  l_pinv : PInv w (bbase x);
  l_size : csize (bbase x) = size;
  l_ring : RInv w size (Hi (mem (bbase x))) (Lo (mem (bbase x))) (bufof (mem (bbase x))) (phsof (bbase x))
                (bvals x) (bghi x);
  l_high : Hi (mem (bbase x)) = Z.of_nat (length (bclog x));
  l_rlog : brlog x = firstn (Z.to_nat (Lo (mem (bbase x)))) (map snd (bclog x));
  l_sent : forall t, bsends (nth t progs []) = bsent_by t (bclog x) ++ pending (stk (bbase x) t)
}.

Lemma init_linv w size progs : 0 < size -> bchan_progs_ok w progs -> BLInv w size progs (biinit size progs).
Proof.
  intros Hs Hp. constructor; cbn.
  - apply init_binv.
  - apply init_pinv; assumption.
  - reflexivity.
  - constructor; cbn; try lia.
    intros i _. rewrite !upd_other; [reflexivity | |]; unfold c_buf, c_head, c_tail; lia.
  - reflexivity.
  - reflexivity.
  - intros t. reflexivity.
Qed.

Lemma rinv_transport w size s s' t hi lo buf p' vs gh :
  RInv w size hi lo buf (upd (phsof s) t p') vs gh ->
  Hi (mem s') = hi -> Lo (mem s') = lo -> (forall j, bufof (mem s') j = buf j) ->
  bphase_of (stk s' t) = p' -> (forall u, u <> t -> stk s' u = stk s u) ->
  RInv w size (Hi (mem s')) (Lo (mem s')) (bufof (mem s')) (phsof s') vs gh.
Proof.
  intros R <- <- Eb Ep Es. eapply rinv_ext; [exact Eb| |exact R].
  intros u. unfold phsof. destruct (Nat.eq_dec u t) as [->|Hne].
  - rewrite upd_same. exact Ep.
  - rewrite upd_other by assumption. rewrite Es by assumption. reflexivity.
Qed.

Lemma rc_high : ringcell c_high. Proof. left; reflexivity. Qed.
Lemma rc_low : ringcell c_low. Proof. right; left; reflexivity. Qed.
Lemma rc_buf j : ringcell (c_buf j). Proof. right; right; exists j; reflexivity. Qed.

Lemma bsent_by_app t l1 l2 : bsent_by t (l1 ++ l2) = bsent_by t l1 ++ bsent_by t l2.
Proof. unfold bsent_by. rewrite filter_app, map_app. reflexivity. Qed.


(* steps that leave the logs alone *)
Lemma linv_nolog w size progs x s' t :
  BLInv w size progs x -> BInv s' -> PInv w s' -> csize s' = size ->
  RInv w size (Hi (mem s')) (Lo (mem s')) (bufof (mem s')) (phsof s') (bvals x) (bghi x) ->
  Hi (mem s') = Hi (mem (bbase x)) -> Lo (mem s') = Lo (mem (bbase x)) ->
  (forall u, u <> t -> stk s' u = stk (bbase x) u) ->
  pending (stk (bbase x) t) = pending (stk s' t) ->
  BLInv w size progs {| bbase := s'; bclog := bclog x; brlog := brlog x; bghi := bghi x |}.
Proof.
  intros [B P Es R Lh Lr Ls] B' P' Es' R' Eh El Eo Ep.
  constructor; cbn [bbase bclog brlog bghi]; auto.
  - congruence.
  - rewrite El. exact Lr.
  - intros u. rewrite Ls. f_equal. destruct (Nat.eq_dec u t) as [->|Hne]; [exact Ep|].
    rewrite Eo by assumption. reflexivity.
Qed.

(* steps that only move t between non-owning phases *)
Lemma linv_frame w size progs x s' t :
  0 < size -> BLInv w size progs x -> BInv s' -> PInv w s' -> csize s' = size ->
  same_ring (mem (bbase x)) (mem s') ->
  (forall u, u <> t -> stk s' u = stk (bbase x) u) ->
  pending (stk (bbase x) t) = pending (stk s' t) ->
  ~ is_bw (phsof (bbase x) t) -> ~ is_bw (bphase_of (stk s' t)) ->
  ~ is_qs (phsof (bbase x) t) -> ~ is_qs (bphase_of (stk s' t)) ->
  local_ok w size (Hi (mem (bbase x))) (Lo (mem (bbase x))) (bufof (mem (bbase x))) (phsof (bbase x))
           (bvals x) (bghi x) t (bphase_of (stk s' t)) ->
  BLInv w size progs {| bbase := s'; bclog := bclog x; brlog := brlog x; bghi := bghi x |}.
Proof.
  intros Hsz L B' P' Es' Kr Eo Ep A1 A2 B1 B2 Lo'.
  assert (Eh : Hi (mem s') = Hi (mem (bbase x))) by (apply Kr, rc_high).
  assert (El : Lo (mem s') = Lo (mem (bbase x))) by (apply Kr, rc_low).
  apply (linv_nolog w size progs x s' t); auto.
  apply (rinv_transport w size (bbase x) s' t (Hi (mem (bbase x))) (Lo (mem (bbase x))) (bufof (mem (bbase x)))
           (bphase_of (stk s' t))); auto.
  - apply rinv_local; auto. apply (l_ring _ _ _ _ L).
  - intros j. apply Kr, rc_buf.
Qed.


Lemma firstn_snoc_nth {A} (d : A) l n : (n < length l)%nat -> firstn (S n) l = firstn n l ++ [nth n l d].
Proof.
  revert n. induction l as [|a l IH]; intros n H; cbn in H; [lia|].
  destruct n; [reflexivity|]. cbn [nth]. rewrite (firstn_cons (S n)), (firstn_cons n). cbn [app]. f_equal. apply IH. lia.
Qed.

Lemma cbuf_inj i j : c_buf i = c_buf j -> i = j.
Proof. unfold c_buf. lia. Qed.

Lemma bufof_upd m m' j0 v :
  (forall c', c' <> c_buf j0 -> cell m' c' = cell m c') -> cell m' (c_buf j0) = v ->
  forall j, bufof m' j = upd (bufof m) j0 v j.
Proof.
  intros H1 H2 j. unfold bufof, upd. destruct (Nat.eqb_spec j j0) as [->|Hne]; [exact H2|].
  apply H1. intros E. apply cbuf_inj in E. contradiction.
Qed.

Lemma linv_step w size progs x t : 0 < size -> BLInv w size progs x -> BLInv w size progs (bistep x t).
Proof.
  intros Hsz [B P Es R Lh Lr Ls].
  set (s := bbase x) in *.
  assert (Hsz' : 0 < csize s) by lia.
  destruct (step_spec w s t Hsz' B P) as (P' & Es' & _ & Eo & K).
  pose proof (binv_step s t B) as B'.
  unfold bistep. fold s. set (s' := fst (step s t)) in *.
  unfold kspec in K. rewrite Es in K.
  assert (Lst : forall u, u <> t -> pending (stk s' u) = pending (stk s u)).
  { intros u Hne. rewrite Eo by assumption. reflexivity. }
  destruct K as (_ & _ & Kp & K). unfold pend_ok in Kp.
  pose proof (r_loc _ _ _ _ _ _ _ _ R t) as LT. unfold phsof at 2 in LT.
  assert (L : BLInv w size progs x) by (constructor; assumption).
  assert (Es2 : csize s' = size) by congruence.
  destruct (bphase_of (stk s t)) eqn:Hph; cbn [app] in Kp.
  - (* idle *)
    destruct K as (Kr & Kph).
    apply (linv_frame w size progs x s' t); auto; unfold phsof; fold s; rewrite ?Hph; auto.
    all: destruct Kph as [E|[(v & Hv & E)|(Hw & E)]]; rewrite E; cbn; auto.
    + split; auto; lia.
    + apply Nat.eqb_eq in Hw. split; auto; lia.
  - (* PhBHigh *)
    destruct K as (Kr & E).
    apply (linv_frame w size progs x s' t); auto; unfold phsof; fold s; rewrite ?Hph, ?E; auto.
    cbn in LT |- *. intuition lia.
  - (* PhBSlot *)
    destruct K as (Kr & E).
    apply (linv_frame w size progs x s' t); auto; unfold phsof; fold s; rewrite ?Hph, ?E; auto.
    1,2: destruct (_ && _); cbn; auto.
    destruct (_ && _) eqn:C; cbn; auto. cbn in LT.
    apply andb_true_iff in C. destruct C as [C1 C2]. apply Z.eqb_eq in C1. apply Z.ltb_lt in C2.
    unfold bufof. intuition lia.
  - (* PhBCas *)
    change (cell (mem s) c_high) with (Hi (mem s)).
    cbn in LT. destruct LT as (Lnz & L2 & L3 & L4).
    destruct (Hi (mem s) =? hi) eqn:C.
    + apply Z.eqb_eq in C. destruct K as (Kc & Kh & E).
      assert (El : Lo (mem s') = Lo (mem s)) by (apply Kc; discriminate).
      pose proof (r_ord _ _ _ _ _ _ _ _ R) as Ord.
      constructor; cbn [bbase bclog brlog bghi]; auto.
      * apply (rinv_transport w size s s' t (hi + 1) (Lo (mem s)) (bufof (mem s))
                 (PhBWrite (c_buf (bidx size hi)) x0)); auto.
        -- rewrite <- C. apply rinv_cas with (bvals := bvals x); auto.
           ++ unfold phsof. rewrite Hph, C. reflexivity.
           ++ intros i Hi. unfold bvals; cbn [bclog]. rewrite map_app. apply app_nth1. rewrite map_length. lia.
           ++ unfold bvals; cbn [bclog]. rewrite map_app. rewrite app_nth2; rewrite map_length; [|lia].
              replace (Z.to_nat (Hi (mem s)) - length (bclog x))%nat with 0%nat by lia. reflexivity.
        -- intros j. unfold bufof. apply Kc. unfold c_buf, c_high. lia.
      * rewrite Kh, app_length. cbn. lia.
      * rewrite El, map_app, firstn_app, map_length.
        replace (Z.to_nat (Lo (mem s)) - length (bclog x))%nat with 0%nat by lia.
        cbn. rewrite app_nil_r. exact Lr.
      * intros u. rewrite bsent_by_app. destruct (Nat.eq_dec u t) as [->|Hne].
        -- rewrite Ls, Kp. unfold bsent_by at 3. cbn. rewrite Nat.eqb_refl. cbn. rewrite <- app_assoc. reflexivity.
        -- rewrite Ls, Eo by assumption. unfold bsent_by at 3. cbn.
           destruct (Nat.eqb_spec t u); [congruence|]. cbn. rewrite app_nil_r. reflexivity.
    + destruct K as (Kr & E).
      apply (linv_frame w size progs x s' t); auto; unfold phsof; fold s; rewrite ?Hph, ?E; auto.
      exact I.
  - (* PhBWrite *)
    destruct K as (Kc & Kx & E). cbn in LT. destruct LT as (Lc & L2 & L3).
    apply (linv_nolog w size progs x s' t); auto.
    + apply (rinv_transport w size s s' t (Hi (mem s)) (Lo (mem s))
               (upd (bufof (mem s)) (bidx size (bghi x t)) x0) PhIdle); auto.
      * eapply rinv_write; eauto.
      * apply Kc. rewrite Lc. unfold c_buf, c_high. lia.
      * apply Kc. rewrite Lc. unfold c_buf, c_low. lia.
      * apply bufof_upd; rewrite <- Lc; auto.
    + apply Kc. rewrite Lc. unfold c_buf, c_high. lia.
    + apply Kc. rewrite Lc. unfold c_buf, c_low. lia.
  - (* PhQLow *)
    destruct K as (Kr & E).
    apply (linv_frame w size progs x s' t); auto; unfold phsof; fold s; rewrite ?Hph, ?E; auto.
    cbn in LT |- *. intuition lia.
  - (* PhQSlot *)
    destruct K as (Kr & E).
    apply (linv_frame w size progs x s' t); auto; unfold phsof; fold s; rewrite ?Hph, ?E; auto.
    1,2: destruct (_ && _); cbn; auto.
    destruct (_ && _) eqn:C; cbn; auto. cbn in LT. destruct LT as (-> & L2 & ->).
    apply andb_true_iff in C. destruct C as [C1 C2]. apply negb_true_iff, Z.eqb_neq in C1. apply Z.ltb_lt in C2.
    assert (Hq : ~ (Lo (mem s) = Lo (mem s) /\ is_qs (phsof s w))).
    { unfold phsof. rewrite Hph. cbn. tauto. }
    destruct (r_live _ _ _ _ _ _ _ _ R (Lo (mem s)) ltac:(lia) Hq) as [[A1 A2]|[A1 A2]].
    + unfold bufof in A2. contradiction.
    + unfold bufof in A2. repeat split; auto. lia.
  - (* PhQClear *)
    destruct K as (Kc & Kx & E).
    apply (linv_nolog w size progs x s' t); auto.
    + apply (rinv_transport w size s s' t (Hi (mem s)) (Lo (mem s))
               (upd (bufof (mem s)) (bidx size lo) 0) (PhQStore m (lo + 1))); auto.
      * eapply rinv_clear; eauto.
      * apply Kc. unfold c_buf, c_high. lia.
      * apply Kc. unfold c_buf, c_low. lia.
      * apply bufof_upd; auto.
    + apply Kc. unfold c_buf, c_high. lia.
    + apply Kc. unfold c_buf, c_low. lia.
  - (* PhQStore *)
    destruct K as (Kc & Kv & E). cbn in LT. destruct LT as (-> & -> & L3 & L4 & L5 & L6).
    assert (Eh : Hi (mem s') = Hi (mem s)) by (apply Kc; discriminate).
    pose proof (r_ord _ _ _ _ _ _ _ _ R) as Ord.
    constructor; cbn [bbase bclog brlog bghi]; auto.
    + apply (rinv_transport w size s s' w (Hi (mem s)) (Lo (mem s) + 1) (bufof (mem s)) PhIdle); auto.
      * eapply rinv_store; eauto.
      * intros j. unfold bufof. apply Kc. unfold c_buf, c_low. lia.
    + congruence.
    + rewrite Kv. replace (Z.to_nat (Lo (mem s) + 1)) with (S (Z.to_nat (Lo (mem s)))) by lia.
      rewrite (firstn_snoc_nth 0) by (rewrite map_length; lia).
      rewrite <- Lr. f_equal. f_equal. exact L4.
    + intros u. rewrite Ls. f_equal. destruct (Nat.eq_dec u w) as [->|Hne]; [exact Kp|].
      rewrite Eo by assumption. reflexivity.
Qed.

Theorem bireach_blinv w size progs x :
  0 < size -> bchan_progs_ok w progs -> bireach size progs x -> BLInv w size progs x.
Proof.
  intros Hs Hp. induction 1 as [|x t R IH St].
  - apply init_linv; assumption.
  - apply linv_step; assumption.
Qed.

(* the granting run of the instrumented machine (for examples) *)
Definition bigrant (x : bist) (t : nat) : bist :=
  match status_of (bbase x) t with SReady => bistep x t | _ => x end.
Definition birun (x : bist) (sch : list nat) : bist := fold_left bigrant sch x.

Lemma bireach_birun size progs sch : forall x, bireach size progs x -> bireach size progs (birun x sch).
Proof.
  induction sch as [|t r IH]; intros x R; cbn; auto. apply IH.
  unfold bigrant. destruct (status_of (bbase x) t) eqn:E; auto. constructor; assumption.
Qed.

Lemma bchan_pow2_pos (k : nat) : 0 < 2 ^ Z.of_nat k.
Proof. apply Z.pow_pos_nonneg; lia. Qed.

Lemma in_bsends v p : In v (bsends p) <-> In (OBSend v) p.
Proof.
  unfold bsends. rewrite in_flat_map. split.
  - intros [o [Ho Hv]]. destruct o; cbn in Hv; try contradiction. destruct Hv as [<-|[]]. exact Ho.
  - intros H. exists (OBSend v). split; [exact H|left; reflexivity].
Qed.

Lemma in_bsent_by t v l : In v (bsent_by t l) <-> In (t, v) l.
Proof.
  unfold bsent_by. rewrite in_map_iff. split.
  - intros [[t' v'] [E H]]. apply filter_In in H. destruct H as [H1 H2]. cbn in *.
    apply Nat.eqb_eq in H2. subst. exact H1.
  - intros H. exists (t, v). split; [reflexivity|]. apply filter_In. split; [exact H|]. cbn. apply Nat.eqb_refl.
Qed.

Lemma nodup_app_l {A} (l1 l2 : list A) : NoDup (l1 ++ l2) -> NoDup l1.
Proof.
  induction l1 as [|a l IH]; intros H; [constructor|].
  inversion H as [|? ? N D]. constructor; [|apply IH; exact D].
  intros Hin. apply N. apply in_or_app. left. exact Hin.
Qed.

Lemma nodup_by_sender (l : list (nat * Z)) :
  (forall t, NoDup (bsent_by t l)) ->
  (forall t1 t2 v, In (t1, v) l -> In (t2, v) l -> t1 = t2) ->
  NoDup (map snd l).
Proof.
  induction l as [|[t v] r IH]; intros H1 H2; cbn; constructor.
  - intros Hin. apply in_map_iff in Hin. destruct Hin as [[t' v'] [E Hin]]. cbn in E; subst v'.
    assert (t' = t) by (apply (H2 t' t v); [right; auto | left; auto]). subst.
    specialize (H1 t). unfold bsent_by in H1; cbn in H1. rewrite Nat.eqb_refl in H1; cbn in H1.
    inversion H1 as [|? ? N _]. apply N. apply (in_bsent_by t v r). exact Hin.
  - apply IH.
    + intros t'. specialize (H1 t'). unfold bsent_by in *. cbn in H1.
      destruct (t =? t')%nat; cbn in H1; [inversion H1; auto | auto].
    + intros t1 t2 v' A1 A2. apply (H2 t1 t2 v'); right; assumption.
Qed.

(* ------------------------------------------------------------------ *)
(* 1. capacity, and slot ownership of the two plain buffer writes *)
Lemma capacity_of_linv w size progs x :
  0 < size -> BLInv w size progs x ->
  let s := bbase x in
  let high := cell (mem s) c_high in
  let low := cell (mem s) c_low in
  (0 <= low /\ 0 <= high - low <= size) /\
  (forall t c v p k, stk s t = [CWrite c v; FC (KBWrite p k)] ->
     cell (mem s) c = 0 /\ v <> 0 /\
     (exists i, low <= i < high /\ c = c_buf (bidx size i) /\ nth_error (map snd (bclog x)) (Z.to_nat i) = Some v) /\
     (forall u v' p' k', stk s u = [CWrite c v'; FC (KBWrite p' k')] -> u = t)) /\
  (forall t c v m l p k, stk s t = [CWrite c v; FC (KQClear m l p k)] ->
     t = w /\ l = low /\ low < high /\ c = c_buf (bidx size low) /\ v = 0 /\
     cell (mem s) c = m /\ m <> 0).
Proof.
  intros Hsz [B P Es R Lh Lr Ls]. cbn zeta. set (s := bbase x) in *.
  pose proof (r_ord _ _ _ _ _ _ _ _ R) as Ord.
  change (cell (mem s) c_high) with (Hi (mem s)). change (cell (mem s) c_low) with (Lo (mem s)).
  split; [lia|]. split.
  - intros t c v p k Hst.
    pose proof (r_loc _ _ _ _ _ _ _ _ R t) as LT. unfold phsof at 2 in LT. rewrite Hst in LT. cbn in LT.
    destruct LT as (Lc & L2 & L3).
    assert (Wt : writing (phsof s) (bghi x) (bghi x t)).
    { exists t. unfold phsof. rewrite Hst. cbn. auto. }
    assert (Hq : ~ (bghi x t = Lo (mem s) /\ is_qs (phsof s w))).
    { intros [E Q]. pose proof (r_loc _ _ _ _ _ _ _ _ R w) as LW.
      destruct (phsof s w); try contradiction. cbn in LW. rewrite E in Wt. tauto. }
    destruct (r_live _ _ _ _ _ _ _ _ R (bghi x t) L2 Hq) as [[_ A]|[A _]]; [|contradiction].
    unfold bufof in A. rewrite <- Lc in A.
    split; [exact A|]. split; [|split].
    + rewrite <- L3. apply (r_nz _ _ _ _ _ _ _ _ R). lia.
    + exists (bghi x t). split; [exact L2|]. split; [exact Lc|].
      unfold bvals in L3. rewrite <- L3. apply nth_error_nth'. rewrite map_length. lia.
    + intros u v' p' k' Hsu.
      pose proof (r_loc _ _ _ _ _ _ _ _ R u) as LU. unfold phsof at 2 in LU. rewrite Hsu in LU. cbn in LU.
      destruct LU as (Lc' & L2' & _).
      apply (r_uni _ _ _ _ _ _ _ _ R); unfold phsof; rewrite ?Hst, ?Hsu; cbn; auto.
      rewrite Lc in Lc'. apply cbuf_inj in Lc'.
      pose proof (r_ord _ _ _ _ _ _ _ _ R) as Ord'.
      destruct (Z_le_gt_dec (bghi x u) (bghi x t)).
      * apply (bidx_inj size); auto; lia.
      * symmetry. apply (bidx_inj size); auto; lia.
  - intros t c v m l p k Hst.
    pose proof (r_loc _ _ _ _ _ _ _ _ R t) as LT. unfold phsof at 2 in LT. rewrite Hst in LT. cbn in LT.
    destruct LT as (-> & -> & L3 & L4 & L5).
    pose proof (b_shape s B w) as Sh. rewrite Hst, Es in Sh.
    assert (Hc : c = c_buf (bidx size (Lo (mem s))) /\ v = 0).
    { inversion Sh; subst; auto.
      match goal with H : ystack ?y ++ _ = _ |- _ => destruct y; discriminate H end. }
    destruct Hc as [-> ->].
    assert (Hq : ~ (Lo (mem s) = Lo (mem s) /\ is_qs (phsof s w))).
    { unfold phsof. rewrite Hst. cbn. tauto. }
    destruct (r_live _ _ _ _ _ _ _ _ R (Lo (mem s)) ltac:(lia) Hq) as [[A _]|[_ A]]; [contradiction|].
    unfold bufof in A. repeat split; auto.
    + congruence.
    + rewrite L4. apply (r_nz _ _ _ _ _ _ _ _ R). lia.
Qed.

(* ------------------------------------------------------------------ *)
(* 2. exactly once, in order *)
Lemma fifo_of_linv w size progs x :
  0 < size -> BLInv w size progs x ->
  let s := bbase x in
  let high := cell (mem s) c_high in
  let low := cell (mem s) c_low in
  (exists rest, map snd (bclog x) = brlog x ++ rest /\ Z.of_nat (length rest) = high - low) /\
  Z.of_nat (length (bclog x)) = high /\ Z.of_nat (length (brlog x)) = low /\
  Forall (fun v => v <> 0) (map snd (bclog x)) /\
  (forall t, exists pend, bsends (nth t progs []) = bsent_by t (bclog x) ++ pend) /\
  (forall t c v mo m p k, stk s t = [CStoreC c v mo; FC (KQStore m p k)] ->
     t = w /\ v = low + 1 /\ nth_error (map snd (bclog x)) (length (brlog x)) = Some m).
Proof.
  intros Hsz [B P Es R Lh Lr Ls]. cbn zeta. set (s := bbase x) in *.
  pose proof (r_ord _ _ _ _ _ _ _ _ R) as Ord.
  change (cell (mem s) c_high) with (Hi (mem s)). change (cell (mem s) c_low) with (Lo (mem s)).
  assert (Hlen : length (brlog x) = Z.to_nat (Lo (mem s))).
  { rewrite Lr, firstn_length, map_length. lia. }
  split; [|split; [|split; [|split; [|split]]]].
  - exists (skipn (Z.to_nat (Lo (mem s))) (map snd (bclog x))). split.
    + rewrite Lr. symmetry. apply firstn_skipn.
    + rewrite skipn_length, map_length. lia.
  - lia.
  - lia.
  - apply Forall_forall. intros v Hin. apply (In_nth _ _ 0) in Hin. destruct Hin as (n & Hn & <-).
    rewrite map_length in Hn.
    pose proof (r_nz _ _ _ _ _ _ _ _ R (Z.of_nat n) ltac:(lia)) as N. unfold bvals in N.
    rewrite Nat2Z.id in N. exact N.
  - intros t. eexists. apply Ls.
  - intros t c v mo m p k Hst.
    pose proof (r_loc _ _ _ _ _ _ _ _ R t) as LT. unfold phsof at 2 in LT. rewrite Hst in LT. cbn in LT.
    destruct LT as (-> & -> & L3 & L4 & _). repeat split; auto.
    rewrite Hlen, L4. unfold bvals. apply nth_error_nth'. rewrite map_length. lia.
Qed.

(* ================================================================== *)
(* The statements used by the Properties file.                          *)

(* C11 bounded channel, capacity and slot discipline: in every reachable state of the
   ChanK machine (any number of threads, any schedule, any size > 0, in particular 2^k),
   with one receiver thread w and non-NULL messages,
   - 0 <= high - low <= size (and 0 <= low);
   - a sender about to execute  buffer[hi mod size] := v  (shape sh_bwrite) finds that slot
     NULL, v <> 0, the slot belongs to an index low <= i < high whose claimed message is v,
     and no other thread is about to write the same slot;
   - the thread about to execute  buffer[lo mod size] := 0  (shape sh_qclear) is the
     receiver, lo = low < high, and the slot holds the non-NULL message m it will return. *)
Theorem bchan_capacity :
  forall (size : Z) (w : nat) (progs : list (list cop)) (s : st),
  0 < size -> bchan_progs_ok w progs -> reachable M (init size progs) s ->
  let high := cell (mem s) c_high in
  let low := cell (mem s) c_low in
  (0 <= low /\ 0 <= high - low <= size) /\
  (forall t c v p k, stk s t = [CWrite c v; FC (KBWrite p k)] ->
     cell (mem s) c = 0 /\ v <> 0 /\
     (exists i, low <= i < high /\ c = c_buf (bidx size i)) /\
     (forall u v' p' k', stk s u = [CWrite c v'; FC (KBWrite p' k')] -> u = t)) /\
  (forall t c v m l p k, stk s t = [CWrite c v; FC (KQClear m l p k)] ->
     t = w /\ l = low /\ low < high /\ c = c_buf (bidx size low) /\ v = 0 /\
     cell (mem s) c = m /\ m <> 0).
Proof.
  intros size w progs s Hsz Hp R.
  destruct (reachable_bireach size progs s R) as (x & IR & <-).
  pose proof (bireach_blinv w size progs x Hsz Hp IR) as L.
  destruct (capacity_of_linv w size progs x Hsz L) as (A & B & C).
  split; [exact A|]. split; [|exact C].
  intros t c v p k Hst. destruct (B t c v p k Hst) as (B1 & B2 & (i & B3 & B4 & _) & B5).
  repeat split; auto. exists i; auto.
Qed.

(* C11 bounded channel, exactly once and in order: in every reachable state of the
   instrumented machine, the received messages (brlog, appended at the receiver's store of
   low with the value the call returns) are a prefix of the sent messages in the order of
   the successful CASes on high (bclog); |bclog| = high, |brlog| = low; no message is NULL;
   each sender's entries of bclog are a prefix of the bsends of its program, in program order;
   and the message a receive is about to commit is the oldest not yet received. *)
Theorem bchan_fifo :
  forall (size : Z) (w : nat) (progs : list (list cop)) (x : bist),
  0 < size -> bchan_progs_ok w progs -> bireach size progs x ->
  let s := bbase x in
  let high := cell (mem s) c_high in
  let low := cell (mem s) c_low in
  (exists rest, map snd (bclog x) = brlog x ++ rest /\ Z.of_nat (length rest) = high - low) /\
  Z.of_nat (length (bclog x)) = high /\ Z.of_nat (length (brlog x)) = low /\
  Forall (fun v => v <> 0) (map snd (bclog x)) /\
  (forall t, exists pend, bsends (nth t progs []) = bsent_by t (bclog x) ++ pend) /\
  (forall t c v mo m p k, stk s t = [CStoreC c v mo; FC (KQStore m p k)] ->
     t = w /\ v = low + 1 /\ nth_error (map snd (bclog x)) (length (brlog x)) = Some m).
Proof.
  intros size w progs x Hsz Hp IR. apply (fifo_of_linv w size progs x Hsz).
  apply bireach_blinv; assumption.
Qed.

(* consequences *)
Corollary bchan_received_was_sent :
  forall size w progs x v,
  0 < size -> bchan_progs_ok w progs -> bireach size progs x ->
  In v (brlog x) -> exists t, In (t, v) (bclog x) /\ In (OBSend v) (nth t progs []).
Proof.
  intros size w progs x v Hsz Hp IR Hin.
  destruct (bchan_fifo size w progs x Hsz Hp IR) as ((rest & E & _) & _ & _ & _ & S & _).
  assert (Hin' : In v (map snd (bclog x))) by (rewrite E; apply in_or_app; auto).
  apply in_map_iff in Hin'. destruct Hin' as [[t v'] [E' Hc]]. cbn in E'. subst v'.
  exists t. split; [exact Hc|]. destruct (S t) as [pend Ep].
  apply in_bsends. rewrite Ep. apply in_or_app. left. apply in_bsent_by. exact Hc.
Qed.

Corollary bchan_no_duplicates :
  forall size w progs x,
  0 < size -> bchan_progs_ok w progs -> bireach size progs x ->
  (forall t, NoDup (bsends (nth t progs []))) ->
  (forall t1 t2 v, In (OBSend v) (nth t1 progs []) -> In (OBSend v) (nth t2 progs []) -> t1 = t2) ->
  NoDup (map snd (bclog x)) /\ NoDup (brlog x).
Proof.
  intros size w progs x Hsz Hp IR D1 D2.
  destruct (bchan_fifo size w progs x Hsz Hp IR) as ((rest & E & _) & _ & _ & _ & S & _).
  assert (N : NoDup (map snd (bclog x))).
  { apply nodup_by_sender.
    - intros t. destruct (S t) as [pend Ep]. specialize (D1 t). rewrite Ep in D1.
      apply nodup_app_l in D1. exact D1.
    - intros t1 t2 v A1 A2. apply (D2 t1 t2 v).
      + destruct (S t1) as [pend Ep]. apply in_bsends. rewrite Ep. apply in_or_app. left. apply in_bsent_by. exact A1.
      + destruct (S t2) as [pend Ep]. apply in_bsends. rewrite Ep. apply in_or_app. left. apply in_bsent_by. exact A2. }
  split; [exact N|]. rewrite E in N. apply nodup_app_l in N. exact N.
Qed.

(* the same for the sizes the C code can create: size = 2^k *)
Corollary bchan_capacity_pow2 :
  forall (k : nat) (w : nat) (progs : list (list cop)) (s : st),
  bchan_progs_ok w progs -> reachable M (init (2 ^ Z.of_nat k) progs) s ->
  0 <= cell (mem s) c_low /\ 0 <= cell (mem s) c_high - cell (mem s) c_low <= 2 ^ Z.of_nat k.
Proof.
  intros k w progs s Hp R. apply (bchan_capacity _ w progs s (bchan_pow2_pos k) Hp R).
Qed.

(* ------------------------------------------------------------------ *)
(* non-vacuity: two senders, one receiver (thread 1), size 2 *)
Definition bex_progs : list (list cop) := [[OBSend 7; OBSend 8]; [OBRecv]; [OBSend 9]].

Lemma bex_progs_ok : bchan_progs_ok 1 bex_progs.
Proof.
  intros t. destruct t as [|[|[|t]]]; cbn; repeat constructor; cbn; try lia.
  destruct t; constructor.
Qed.

(* a reachable state in which sender 0 is at its plain buffer write (sh_bwrite) *)
Example bchan_capacity_nonvacuous_send :
  exists s, reachable M (init 2 bex_progs) s /\
            stk s 0%nat = [CWrite (c_buf 0) 7; FC (KBWrite [OBSend 8] 1)] /\
            cell (mem s) c_high = 1 /\ cell (mem s) c_low = 0.
Proof.
  exists (fst (run_sched M (init 2 bex_progs) [0;0;0;0;0]%nat)).
  split; [apply run_sched_reachable; constructor|]. vm_compute. auto.
Qed.

(* ... and one in which the receiver is at its slot clear (sh_qclear) with the slot full *)
Example bchan_capacity_nonvacuous_recv :
  exists s, reachable M (init 2 bex_progs) s /\
            stk s 1%nat = [CWrite (c_buf 0) 0; FC (KQClear 7 0 [] 1)] /\
            cell (mem s) (c_buf 0) = 7 /\ cell (mem s) c_high = 2 /\ cell (mem s) c_low = 0.
Proof.
  exists (fst (run_sched M (init 2 bex_progs) [0;0;0;0;0;0;0; 2;2;2;2;2; 1;1;1;1]%nat)).
  split; [apply run_sched_reachable; constructor|]. vm_compute. auto.
Qed.

(* a run after which one message was received and a second one is in the buffer *)
Example bchan_fifo_nonvacuous :
  exists x, bireach 2 bex_progs x /\ bclog x = [(0%nat, 7); (2%nat, 9)] /\ brlog x = [7] /\
            cell (mem (bbase x)) c_high = 2 /\ cell (mem (bbase x)) c_low = 1.
Proof.
  exists (birun (biinit 2 bex_progs) [0;0;0;0;0;0;0; 2;2;2;2;2; 1;1;1;1;1;1; 2;2]%nat).
  split; [apply bireach_birun; constructor|]. vm_compute. auto.
Qed.

Print Assumptions bchan_capacity.
Print Assumptions bchan_fifo.
Print Assumptions bchan_received_was_sent.
Print Assumptions bchan_no_duplicates.

(* ------------------------------------------------------------------ *)
(* two more exported facts (for the blocking / wake-up argument) *)

(* the slot the receiver would read is NULL when the channel is empty *)
Lemma bchan_empty_slot_zero :
  forall (size : Z) (w : nat) (progs : list (list cop)) (s : st),
  0 < size -> bchan_progs_ok w progs -> reachable M (init size progs) s ->
  let high := cell (mem s) c_high in
  let low := cell (mem s) c_low in
  (high <= low -> cell (mem s) (c_buf (bidx size low)) = 0) /\
  (cell (mem s) (c_buf (bidx size low)) <> 0 -> low < high).
Proof.
  intros size w progs s Hsz Hp R. cbn zeta.
  destruct (reachable_bireach size progs s R) as (x & IR & <-).
  pose proof (bireach_blinv w size progs x Hsz Hp IR) as L.
  pose proof (l_ring _ _ _ _ L) as RI.
  pose proof (r_ord _ _ _ _ _ _ _ _ RI) as Ord.
  change (cell (mem (bbase x)) c_high) with (Hi (mem (bbase x))).
  change (cell (mem (bbase x)) c_low) with (Lo (mem (bbase x))).
  assert (A : Hi (mem (bbase x)) <= Lo (mem (bbase x)) ->
              cell (mem (bbase x)) (c_buf (bidx size (Lo (mem (bbase x))))) = 0).
  { intros H. apply (r_free _ _ _ _ _ _ _ _ RI (Lo (mem (bbase x)))). lia. }
  split; [exact A|]. intros N.
  destruct (Z_lt_le_dec (Lo (mem (bbase x))) (Hi (mem (bbase x)))) as [|Hle]; [assumption|].
  exfalso. apply N. apply A. exact Hle.
Qed.

(* the receiver's stale reads: only thread w is ever in the receive loop; the high it
   loaded is at most the current high, and the low it loaded IS the current low *)
Lemma bchan_receiver_lo :
  forall (size : Z) (w : nat) (progs : list (list cop)) (s : st),
  0 < size -> bchan_progs_ok w progs -> reachable M (init size progs) s ->
  let high := cell (mem s) c_high in
  let low := cell (mem s) c_low in
  (forall t blk hi lo p k,
     stk s t = [CRead (c_buf (bidx size lo)); FC (KQSlot blk hi lo p k)] ->
     t = w /\ hi <= high /\ lo = low) /\
  (forall t blk hi p k,
     stk s t = [CLoadC c_low 2; FC (KQLow blk hi p k)] ->
     t = w /\ hi <= high).
Proof.
  intros size w progs s Hsz Hp R. cbn zeta.
  destruct (reachable_bireach size progs s R) as (x & IR & <-).
  pose proof (bireach_blinv w size progs x Hsz Hp IR) as L.
  pose proof (l_ring _ _ _ _ L) as RI.
  change (cell (mem (bbase x)) c_high) with (Hi (mem (bbase x))).
  change (cell (mem (bbase x)) c_low) with (Lo (mem (bbase x))).
  split.
  - intros t blk hi lo p k Hst.
    pose proof (r_loc _ _ _ _ _ _ _ _ RI t) as LT. unfold phsof at 2 in LT. rewrite Hst in LT.
    cbn in LT. exact LT.
  - intros t blk hi p k Hst.
    pose proof (r_loc _ _ _ _ _ _ _ _ RI t) as LT. unfold phsof at 2 in LT. rewrite Hst in LT.
    cbn in LT. exact LT.
Qed.

Print Assumptions bchan_empty_slot_zero.
Print Assumptions bchan_receiver_lo.
