(* Proofs about the Chase-Lev deque model (coq/Wsd.v): an inductive invariant
   over every reachable state, for one owner (thread 0) and any number of
   thieves, any programs, any schedule, any number of growths; then ghost
   logs (pushed / stolen / popped tokens) on an instrumented machine. *)
From Coq Require Import List ZArith Lia Bool Arith Permutation.
From LF Require Import Conc Wsd.
Import ListNotations.

Local Open Scope Z_scope.

(* ------------------------------------------------------------------ *)
(* arithmetic on circular arrays                                        *)
Lemma asize_pos A : 0 < asize A.
Proof. unfold asize. apply Z.pow_pos_nonneg; lia. Qed.

Lemma asize_fresh_S l : asize (fresh (S l)) = 2 * asize (fresh l).
Proof. unfold asize, fresh; cbn [lg]. rewrite Nat2Z.inj_succ, Z.pow_succ_r; lia. Qed.

Lemma asize_lg A B : lg A = lg B -> asize A = asize B.
Proof. unfold asize. intros ->. reflexivity. Qed.

Lemma asize_lg_S A B : lg A = S (lg B) -> asize A = 2 * asize B.
Proof. unfold asize. intros ->. rewrite Nat2Z.inj_succ, Z.pow_succ_r; lia. Qed.

Lemma asize_put A j v : asize (put A j v) = asize A.
Proof. reflexivity. Qed.

Lemma zmod_neq n j k : 0 < n -> j <> k -> -n < j - k < n -> j mod n <> k mod n.
Proof.
  intros Hn Hne Hr He.
  assert (Hj := Z.div_mod j n ltac:(lia)). assert (Hk := Z.div_mod k n ltac:(lia)).
  rewrite He in Hj.
  assert (j - k = n * (j / n - k / n)) by lia.
  assert (j / n - k / n = 0) by nia. lia.
Qed.

Lemma get_put_same A j v : get (put A j v) j = v.
Proof. unfold get, put, slot, updZ, asize; cbn [lg dat]. now rewrite Z.eqb_refl. Qed.

Lemma get_put_other A j k v : j <> k -> - asize A < j - k < asize A -> get (put A k v) j = get A j.
Proof.
  intros Hne Hr. unfold get, put, slot, updZ; cbn [lg dat].
  change (asize {| lg := lg A; dat := fun j0 => if j0 =? k mod asize A then v else dat A j0 |}) with (asize A).
  destruct (Z.eqb_spec (j mod asize A) (k mod asize A)) as [E|E]; [|reflexivity].
  exfalso. revert E. apply zmod_neq; auto. apply asize_pos.
Qed.

(* ------------------------------------------------------------------ *)
(* integer ranges                                                       *)
Definition zrange (lo hi : Z) : list Z := map (fun k => lo + Z.of_nat k) (seq 0 (Z.to_nat (hi - lo))).

Lemma zrange_nil lo hi : hi <= lo -> zrange lo hi = [].
Proof. intros H. unfold zrange. replace (Z.to_nat (hi - lo)) with O by lia. reflexivity. Qed.

Lemma zrange_snoc lo hi : lo <= hi -> zrange lo (hi + 1) = zrange lo hi ++ [hi].
Proof.
  intros H. unfold zrange. replace (Z.to_nat (hi + 1 - lo)) with (S (Z.to_nat (hi - lo))) by lia.
  rewrite seq_S, map_app. cbn. do 2 f_equal. lia.
Qed.

Lemma zrange_cons lo hi : lo < hi -> zrange lo hi = lo :: zrange (lo + 1) hi.
Proof.
  intros H. unfold zrange. replace (Z.to_nat (hi - lo)) with (S (Z.to_nat (hi - (lo + 1)))) by lia.
  cbn [seq map]. f_equal; [lia|]. rewrite <- seq_shift, map_map. apply map_ext. intros k. lia.
Qed.

Lemma in_zrange lo hi j : In j (zrange lo hi) <-> lo <= j < hi.
Proof.
  unfold zrange. rewrite in_map_iff. split.
  - intros [k [E Hk]]. apply in_seq in Hk. lia.
  - intros H. exists (Z.to_nat (j - lo)). split; [lia|]. apply in_seq. lia.
Qed.

Local Close Scope Z_scope.

(* ------------------------------------------------------------------ *)
(* the invariant                                                        *)

(* how the owner's pc shifts the logical bottom: 1 = pop in flight, the
   speculative decrement of bottom is not (yet) a removal; 2 = the pop has
   seen top < bottom and owns element [bottom] without a CAS *)
Definition lkind (p : pcT) : nat :=
  match p with
  | OGetN => 2
  | OTop | OEmp | OGet1 | OCas | OFixW | OFixL => 1
  | _ => 0
  end.
Definition Lc_of (k : nat) (bt : Z) : Z := match k with 0 => bt | _ => (bt + 1)%Z end.
Definition Ls_of (k : nat) (bt : Z) : Z := match k with 1 => (bt + 1)%Z | _ => bt end.
(* content bound: indexes [top, Lc) hold the tokens pushed and not returned *)
Definition Lc (s : st) : Z := Lc_of (lkind (pc (thr s 0))) (bot s).
(* steal bound: a steal's CAS can succeed only on an index < Ls *)
Definition Ls (s : st) : Z := Ls_of (lkind (pc (thr s 0))) (bot s).

Definition thief_pc (p : pcT) : Prop :=
  match p with TTop | TBot | TArr | TGet | TCas | Fin => True | _ => False end.
Definition is_steal (o : op) : Prop := match o with OSteal => True | _ => False end.

(* the discipline: only thread 0 pushes and pops *)
Definition owner_only (progs : list (list op)) : Prop :=
  forall u, u <> 0 -> Forall is_steal (nth u progs []).

Local Open Scope Z_scope.

Definition grow_ok (tp bt : Z) (cu : nat) (ar : nat -> arr) (nar : nat) (T : tst) : Prop :=
  b T = bt /\ t T <= tp /\ a T = cu /\ na T = nar /\ (cu < nar)%nat /\
  lg (ar (na T)) = S (lg (ar cu)) /\ b T - t T <= asize (ar cu) - 1 /\ t T <= i T /\
  (forall j, t T <= j < i T -> get (ar (na T)) j = get (ar cu) j).

Definition lok (tp bt : Z) (cu : nat) (ar : nat -> arr) (nar : nat) (ls : Z) (T : tst) : Prop :=
  match pc T with
  | UBot | OBot | TTop | Fin => True
  | UTop => b T = bt
  | UArr => b T = bt /\ t T <= tp /\ b T - t T <= asize (ar cu) - 1
  | UGRd => grow_ok tp bt cu ar nar T /\ i T < b T
  | UGWr => grow_ok tp bt cu ar nar T /\ i T < b T /\ rv T = get (ar cu) (i T)
  | UGSt => grow_ok tp bt cu ar nar T /\ b T <= i T
  | UPut => b T = bt /\ t T <= tp /\ a T = cu /\ b T - t T <= asize (ar cu) - 2
  | USt => b T = bt /\ t T <= tp /\ a T = cu /\ b T - t T <= asize (ar cu) - 2 /\ get (ar cu) (b T) = arg T
  | OArr => b T = bt - 1
  | OSt => b T = bt - 1 /\ a T = cu
  | OTop => b T = bt /\ a T = cu
  | OEmp => b T = bt /\ t T = b T + 1 /\ tp = t T /\ ls = t T
  | OGetN => b T = bt /\ a T = cu /\ t T < b T
  | OGet1 => b T = bt /\ a T = cu /\ t T = b T /\ t T <= tp
  | OCas => b T = bt /\ a T = cu /\ t T = b T /\ t T <= tp /\ rv T = get (ar cu) (b T)
  | OFixW | OFixL => b T = bt /\ t T = b T /\ tp = t T + 1 /\ ls = t T + 1
  | TBot => t T <= tp
  | TArr => t T <= tp /\ (tp = t T -> t T < b T -> t T < ls)
  | TGet => t T <= tp /\ t T < b T /\ (a T <= cu)%nat /\
            (tp = t T -> t T < ls /\ get (ar (a T)) (t T) = get (ar cu) (t T))
  | TCas => t T <= tp /\ t T < b T /\ (a T <= cu)%nat /\
            (tp = t T -> t T < ls /\ get (ar (a T)) (t T) = get (ar cu) (t T) /\ rv T = get (ar cu) (t T))
  end.

Definition local_ok (s : st) (T : tst) : Prop :=
  lok (top s) (bot s) (cur s) (arrs s) (narr s) (Ls s) T.

Record Inv (s : st) : Prop := {
  i_thief : forall u, u <> 0%nat -> thief_pc (pc (thr s u)) /\ Forall is_steal (prog (thr s u));
  i_top : top s <= Ls s;
  i_cap : Lc s - top s <= asize (arrs s (cur s)) - 1;
  i_cur : (cur s <= narr s)%nat;
  i_loc : forall u, local_ok s (thr s u)
}.

Lemma Ls_le_Lc k bt : Ls_of k bt <= Lc_of k bt.
Proof. destruct k as [|[|[|k]]]; cbn; lia. Qed.
Lemma bt_le_Ls k bt : bt <= Ls_of k bt.
Proof. destruct k as [|[|[|k]]]; cbn; lia. Qed.

(* ---- frame lemmas for the other threads' local clauses ---- *)

(* top advances by a successful CAS on an index below the steal bound *)
Lemma lok_top_inc tp bt cu ar nar ls T :
  tp < ls -> lok tp bt cu ar nar ls T -> lok (tp + 1) bt cu ar nar ls T.
Proof.
  intros H. unfold lok, grow_ok. destruct (pc T); try tauto; intuition lia.
Qed.

(* a thief's clause mentions only top, the steal bound, its own (frozen or
   current) array and the current array *)
Lemma lok_thief_frame tp bt bt' cu ar ar' nar nar' ls ls' T :
  thief_pc (pc T) -> (ls <= ls' \/ tp < ls') ->
  (forall k, (k <= cu)%nat -> ar' k = ar k) ->
  lok tp bt cu ar nar ls T -> lok tp bt' cu ar' nar' ls' T.
Proof.
  intros Hp Hl Ha. unfold lok. destruct (pc T); try tauto; cbn in Hp; try contradiction.
  - intros (A & B). split; auto. intros E1 E2. specialize (B E1 E2). lia.
  - intros (A & B & C & D). repeat split; auto; specialize (D H); destruct D as [D1 D2]; [lia|].
    rewrite !Ha by lia. exact D2.
  - intros (A & B & C & D). repeat split; auto; specialize (D H); destruct D as (D1 & D2 & D3); [lia| |].
    + rewrite !Ha by lia. exact D2.
    + rewrite !Ha by lia. exact D3.
Qed.

Lemma next_op_lkind T : lkind (pc (next_op T)) = 0%nat.
Proof. unfold next_op. destruct (prog T) as [|[v| |] r]; reflexivity. Qed.

Lemma next_op_lok tp bt cu ar nar ls T : lok tp bt cu ar nar ls (next_op T).
Proof. unfold next_op, lok. destruct (prog T) as [|[v| |] r]; cbn; auto. Qed.

Lemma next_op_thief T :
  Forall is_steal (prog T) -> thief_pc (pc (next_op T)) /\ Forall is_steal (prog (next_op T)).
Proof.
  intros H. unfold next_op. destruct (prog T) as [|[v| |] r]; cbn; auto; inversion H; subst; cbn in *; try contradiction.
  auto.
Qed.

Lemma thief_lkind p : thief_pc p -> lkind p = 0%nat.
Proof. destruct p; cbn; tauto. Qed.

Lemma init_inv l start progs : owner_only progs -> Inv (init l start progs).
Proof.
  intros O.
  assert (K : lkind (pc (thr (init l start progs) 0)) = 0%nat) by (cbn; unfold idle_thread; apply next_op_lkind).
  constructor; unfold Ls, Lc; rewrite ?K; cbn [top bot cur arrs narr thr init Ls_of Lc_of].
  - intros u Hu. unfold idle_thread. apply next_op_thief. cbn. apply O; auto.
  - lia.
  - pose proof (asize_pos (fresh l)). lia.
  - lia.
  - intros u. unfold local_ok, idle_thread. apply next_op_lok.
Qed.

(* generic re-establishment of the invariant after thread u's step *)
Lemma inv_update s s' u x :
  Inv s ->
  thr s' = upd (thr s) u x ->
  (u <> 0%nat -> thief_pc (pc x) /\ Forall is_steal (prog x)) ->
  top s' <= Ls s' -> Lc s' - top s' <= asize (arrs s' (cur s')) - 1 -> (cur s' <= narr s')%nat ->
  local_ok s' x ->
  (forall v, v <> u -> local_ok s (thr s v) -> local_ok s' (thr s v)) ->
  Inv s'.
Proof.
  intros I E Hx H1 H2 H3 Lx Lo. constructor; auto.
  - intros v Hv. rewrite E. destruct (Nat.eq_dec v u) as [->|Hne].
    + rewrite upd_same. apply Hx; auto.
    + rewrite upd_other by assumption. apply (i_thief s I); auto.
  - intros v. rewrite E. destruct (Nat.eq_dec v u) as [->|Hne].
    + rewrite upd_same. exact Lx.
    + rewrite upd_other by assumption. apply Lo; auto. apply (i_loc s I).
Qed.

Lemma pc0_upd s u x : lkind (pc x) = lkind (pc (thr s u)) ->
  lkind (pc (upd (thr s) u x 0%nat)) = lkind (pc (thr s 0%nat)).
Proof.
  intros H. destruct (Nat.eq_dec 0%nat u) as [<-|Hne].
  - rewrite upd_same. exact H.
  - rewrite upd_other by assumption. reflexivity.
Qed.

(* a step that only changes thread u's private state and does not move the
   owner between the three bottom regimes *)
Lemma local_step s u x :
  Inv s -> lkind (pc x) = lkind (pc (thr s u)) ->
  (u <> 0%nat -> thief_pc (pc x) /\ Forall is_steal (prog x)) ->
  local_ok s x -> Inv (set_thr s u x).
Proof.
  intros I K Hx L.
  assert (ELs : Ls (set_thr s u x) = Ls s) by (unfold Ls; cbn [thr bot set_thr]; rewrite pc0_upd; auto).
  assert (ELc : Lc (set_thr s u x) = Lc s) by (unfold Lc; cbn [thr bot set_thr]; rewrite pc0_upd; auto).
  apply (inv_update s _ u x I); try reflexivity; auto.
  - rewrite ELs. apply (i_top s I).
  - rewrite ELc. apply (i_cap s I).
  - apply (i_cur s I).
  - unfold local_ok. rewrite ELs. exact L.
  - intros v _ Lv. unfold local_ok. rewrite ELs. exact Lv.
Qed.

Lemma owner_is_0 s u : Inv s -> ~ thief_pc (pc (thr s u)) -> u = 0%nat.
Proof.
  intros I H. destruct (Nat.eq_dec u 0); auto. exfalso. apply H. apply (i_thief s I); auto.
Qed.

Lemma steals_of s u : Inv s -> u <> 0%nat -> Forall is_steal (prog (thr s u)).
Proof. intros I H. apply (i_thief s I); auto. Qed.

Lemma next_op_hx s u : Inv s ->
  u <> 0%nat -> thief_pc (pc (next_op (thr s u))) /\ Forall is_steal (prog (next_op (thr s u))).
Proof. intros I H. apply next_op_thief. apply steals_of; auto. Qed.

(* owner steps that keep top and cur: every other thread is a thief *)
Lemma others_thief s s' :
  Inv s -> top s' = top s -> cur s' = cur s -> (Ls s <= Ls s' \/ top s < Ls s') ->
  (forall k, (k <= cur s)%nat -> arrs s' k = arrs s k) ->
  forall v, v <> 0%nat -> local_ok s (thr s v) -> local_ok s' (thr s v).
Proof.
  intros I Et Ec Hl Ha v Hv Lv. unfold local_ok in *. rewrite Et, Ec.
  eapply lok_thief_frame; eauto. apply (i_thief s I v Hv).
Qed.

Ltac owner0 I HT Hpc u :=
  let U0 := fresh "U0" in
  assert (U0 : u = 0%nat) by (apply (owner_is_0 _ u I); rewrite <- HT, Hpc; cbn; tauto); subst u.

Ltac hx0 := let H := fresh in intros H; now destruct H.

Ltac priv I HT Hpc :=
  apply local_step;
  [ exact I
  | rewrite <- HT, Hpc; reflexivity
  | first [ hx0 | let Hu := fresh in intros Hu; split; [exact Logic.I | cbn [prog mk with_pc]; rewrite HT; apply steals_of; auto] ]
  | unfold local_ok, lok; cbn [pc b t a na i arg rv mk with_pc] ].

Ltac ls_new K0 :=
  unfold Ls, Lc; cbn [thr bot top cur arrs narr set_thr]; rewrite ?upd_same, ?next_op_lkind, ?K0;
  cbn [pc mk with_pc lkind Ls_of Lc_of].

Theorem step_inv s u : Inv s -> Inv (fst (step s u)).
Proof.
  intros I. unfold step. remember (thr s u) as T eqn:HT.
  assert (LT := i_loc s I u). rewrite <- HT in LT. unfold local_ok, lok in LT.
  pose proof (i_top s I) as Itop. pose proof (i_cap s I) as Icap. pose proof (i_cur s I) as Icur.
  destruct (pc T) eqn:Hpc; cbn [fst].
  - (* UBot *) owner0 I HT Hpc u. priv I HT Hpc. reflexivity.
  - (* UTop *) owner0 I HT Hpc u.
    assert (K0 : lkind (pc (thr s 0)) = 0%nat) by (rewrite <- HT, Hpc; reflexivity).
    unfold Ls, Lc in Itop, Icap. rewrite K0 in Itop, Icap. cbn in Itop, Icap.
    priv I HT Hpc. repeat split; lia.
  - (* UArr *) owner0 I HT Hpc u.
    assert (K0 : lkind (pc (thr s 0)) = 0%nat) by (rewrite <- HT, Hpc; reflexivity).
    destruct LT as (L1 & L2 & L3).
    rewrite Z.geb_leb. destruct (Z.leb_spec (asize (arrs s (cur s)) - 1) (b T - t T)) as [G|G]; cbn [fst].
    + (* grow *)
      remember (S (narr s)) as n eqn:Hn.
      set (x := mk (if (t T <? b T)%Z then UGRd else UGSt) (b T) (t T) (cur s) n (t T) (arg T) (rv T) (prog T) (opi T)).
      assert (Kx : lkind (pc x) = 0%nat) by (unfold x; destruct (t T <? b T)%Z; reflexivity).
      assert (En : forall k, (k <= cur s)%nat -> upd (arrs s) n (fresh (S (lg (arrs s (cur s))))) k = arrs s k)
        by (intros k Hk; apply upd_other; lia).
      eapply (inv_update s _ 0%nat x I); [reflexivity | hx0 | | | | | ].
      * unfold Ls; cbn [thr bot top]; rewrite upd_same, Kx. unfold Ls in Itop; rewrite K0 in Itop. exact Itop.
      * unfold Lc; cbn [thr bot top cur arrs]; rewrite upd_same, Kx, En by lia.
        unfold Lc in Icap; rewrite K0 in Icap. exact Icap.
      * cbn [cur narr]. lia.
      * unfold local_ok, lok, x. cbn [top bot cur arrs narr].
        assert (G1 : grow_ok (top s) (bot s) (cur s) (upd (arrs s) n (fresh (S (lg (arrs s (cur s)))))) n
                     (mk UGRd (b T) (t T) (cur s) n (t T) (arg T) (rv T) (prog T) (opi T))).
        { unfold grow_ok; cbn [b t a na i mk]. rewrite (En (cur s)) by lia. rewrite upd_same. cbn [lg fresh].
          repeat split; auto; try lia; try (intros; lia). }
        destruct (Z.ltb_spec (t T) (b T)); cbn [pc mk]; (split; [exact G1 | cbn [b i mk]; lia]).
      * apply others_thief; auto. left. unfold Ls; cbn [thr bot]; rewrite upd_same, Kx, K0. lia.
    + priv I HT Hpc. repeat split; auto; lia.
  - (* UGRd *) owner0 I HT Hpc u. destruct LT as (G & L1).
    priv I HT Hpc. split; [exact G|]. split; [exact L1|]. destruct G as (_ & _ & -> & _). reflexivity.
  - (* UGWr *) owner0 I HT Hpc u.
    assert (K0 : lkind (pc (thr s 0)) = 0%nat) by (rewrite <- HT, Hpc; reflexivity).
    destruct LT as (G & L1 & L2). destruct G as (G1 & G2 & G3 & G4 & G5 & G6 & G7 & G8 & G9).
    set (N := arrs s (na T)) in *.
    set (x := mk (if (i T + 1 <? b T)%Z then UGRd else UGSt) (b T) (t T) (a T) (na T) (i T + 1) (arg T) (rv T) (prog T) (opi T)).
    assert (Kx : lkind (pc x) = 0%nat) by (unfold x; destruct (i T + 1 <? b T)%Z; reflexivity).
    assert (En : forall k, (k <= cur s)%nat -> upd (arrs s) (na T) (put N (i T) (rv T)) k = arrs s k)
      by (intros k Hk; apply upd_other; lia).
    eapply (inv_update s _ 0%nat x I); [reflexivity | hx0 | | | | | ].
    * unfold Ls; cbn [thr bot top]; rewrite upd_same, Kx. unfold Ls in Itop; rewrite K0 in Itop. exact Itop.
    * unfold Lc; cbn [thr bot top cur arrs]; rewrite upd_same, Kx, En by lia.
      unfold Lc in Icap; rewrite K0 in Icap. exact Icap.
    * cbn [cur narr]. lia.
    * unfold local_ok, lok, x. cbn [top bot cur arrs narr].
      assert (SZ : asize N = 2 * asize (arrs s (cur s))) by (apply asize_lg_S; exact G6).
      pose proof (asize_pos (arrs s (cur s))) as P.
      assert (GG : grow_ok (top s) (bot s) (cur s) (upd (arrs s) (na T) (put N (i T) (rv T))) (narr s)
                   (mk UGRd (b T) (t T) (a T) (na T) (i T + 1) (arg T) (rv T) (prog T) (opi T))).
      { unfold grow_ok; cbn [b t a na i mk]. rewrite (En (cur s)) by lia. rewrite upd_same.
        repeat split; auto; try lia. intros j Hj.
        destruct (Z.eq_dec j (i T)) as [->|Hne].
        - rewrite get_put_same. exact L2.
        - rewrite get_put_other by (auto; lia). apply G9. lia. }
      destruct (Z.ltb_spec (i T + 1) (b T)); cbn [pc mk]; (split; [exact GG | cbn [b i mk]; lia]).
    * apply others_thief; auto. left. unfold Ls; cbn [thr bot]; rewrite upd_same, Kx, K0. lia.
  - (* UGSt *) owner0 I HT Hpc u.
    assert (K0 : lkind (pc (thr s 0)) = 0%nat) by (rewrite <- HT, Hpc; reflexivity).
    destruct LT as (G & L1). destruct G as (G1 & G2 & G3 & G4 & G5 & G6 & G7 & G8 & G9).
    assert (SZ : asize (arrs s (na T)) = 2 * asize (arrs s (cur s))) by (apply asize_lg_S; exact G6).
    pose proof (asize_pos (arrs s (cur s))) as P.
    unfold Ls in Itop; rewrite K0 in Itop. unfold Lc in Icap; rewrite K0 in Icap. cbn in Itop, Icap.
    eapply (inv_update s _ 0%nat _ I); [reflexivity | hx0 | | | | | ].
    * ls_new K0. exact Itop.
    * ls_new K0. lia.
    * cbn [cur narr]. lia.
    * unfold local_ok, lok. cbn [top bot cur arrs narr pc b t a mk]. repeat split; auto; lia.
    * intros v Hv Lv. unfold local_ok in *. cbn [top bot cur arrs narr].
      assert (ELs : Ls {| top := top s; bot := bot s; cur := na T; arrs := arrs s; narr := narr s;
                          thr := upd (thr s) 0%nat (mk UPut (b T) (t T) (na T) (na T) (i T) (arg T) (rv T) (prog T) (opi T));
                          nthr := nthr s |} = Ls s) by (ls_new K0; reflexivity).
      rewrite ELs. assert (LsB : Ls s = bot s) by (unfold Ls; rewrite K0; reflexivity).
      pose proof (proj1 (i_thief s I v Hv)) as Hp. unfold lok in *.
      destruct (pc (thr s v)); cbn in Hp; try contradiction; auto.
      -- destruct Lv as (A & B & C & D). repeat split; auto; try lia; destruct (D H) as [D1 D2]; auto.
         rewrite D2. symmetry. apply G9. lia.
      -- destruct Lv as (A & B & C & D). repeat split; auto; try lia; destruct (D H) as (D1 & D2 & D3); auto.
         ++ rewrite D2. symmetry. apply G9. lia.
         ++ rewrite D3. symmetry. apply G9. lia.
  - (* UPut *) owner0 I HT Hpc u.
    assert (K0 : lkind (pc (thr s 0)) = 0%nat) by (rewrite <- HT, Hpc; reflexivity).
    destruct LT as (L1 & L2 & L3 & L4). rewrite L3 in *.
    set (A := arrs s (cur s)) in *.
    unfold Ls in Itop; rewrite K0 in Itop. unfold Lc in Icap; rewrite K0 in Icap. cbn in Itop, Icap.
    eapply (inv_update s _ 0%nat _ I); [reflexivity | hx0 | | | | | ].
    * ls_new K0. exact Itop.
    * ls_new K0. rewrite asize_put. exact Icap.
    * cbn [cur narr]. lia.
    * unfold local_ok, lok. cbn [top bot cur arrs narr pc b t a arg mk with_pc]. rewrite upd_same, asize_put.
      repeat split; auto. apply get_put_same.
    * intros v Hv Lv. unfold local_ok in *. cbn [top bot cur arrs narr].
      assert (ELs : Ls {| top := top s; bot := bot s; cur := cur s; arrs := upd (arrs s) (cur s) (put A (b T) (arg T));
                          narr := narr s; thr := upd (thr s) 0%nat (with_pc T USt); nthr := nthr s |} = Ls s)
        by (ls_new K0; reflexivity).
      rewrite ELs. assert (LsB : Ls s = bot s) by (unfold Ls; rewrite K0; reflexivity).
      pose proof (proj1 (i_thief s I v Hv)) as Hp. unfold lok in *.
      assert (GP : forall j, top s <= j < bot s -> get (put A (b T) (arg T)) j = get A j)
        by (intros j Hj; apply get_put_other; lia).
      destruct (pc (thr s v)); cbn in Hp; try contradiction; auto.
      -- destruct Lv as (A1 & B1 & C1 & D). repeat split; auto; try lia; destruct (D H) as [D1 D2]; auto.
         rewrite upd_same. destruct (Nat.eq_dec (a (thr s v)) (cur s)) as [->|Hne].
         ++ rewrite upd_same. reflexivity.
         ++ rewrite upd_other by assumption. rewrite GP by lia. exact D2.
      -- destruct Lv as (A1 & B1 & C1 & D). repeat split; auto; try lia; destruct (D H) as (D1 & D2 & D3); auto.
         ++ rewrite upd_same. destruct (Nat.eq_dec (a (thr s v)) (cur s)) as [->|Hne].
            ** rewrite upd_same. reflexivity.
            ** rewrite upd_other by assumption. rewrite GP by lia. exact D2.
         ++ rewrite upd_same. rewrite GP by lia. exact D3.
  - (* USt *) owner0 I HT Hpc u.
    assert (K0 : lkind (pc (thr s 0)) = 0%nat) by (rewrite <- HT, Hpc; reflexivity).
    destruct LT as (L1 & L2 & L3 & L4 & L5).
    unfold Ls in Itop; rewrite K0 in Itop. unfold Lc in Icap; rewrite K0 in Icap. cbn in Itop, Icap.
    eapply (inv_update s _ 0%nat _ I); [reflexivity | hx0 | | | | | ].
    * ls_new K0. lia.
    * ls_new K0. lia.
    * cbn [cur narr]. lia.
    * apply next_op_lok.
    * apply others_thief; auto. left. ls_new K0. lia.
  - (* OBot *) owner0 I HT Hpc u. priv I HT Hpc. lia.
  - (* OArr *) owner0 I HT Hpc u. priv I HT Hpc. split; [exact LT|reflexivity].
  - (* OSt *) owner0 I HT Hpc u.
    assert (K0 : lkind (pc (thr s 0)) = 0%nat) by (rewrite <- HT, Hpc; reflexivity).
    destruct LT as (L1 & L2).
    unfold Ls in Itop; rewrite K0 in Itop. unfold Lc in Icap; rewrite K0 in Icap. cbn in Itop, Icap.
    eapply (inv_update s _ 0%nat _ I); [reflexivity | hx0 | | | | | ].
    * ls_new K0. lia.
    * ls_new K0. lia.
    * cbn [cur narr]. lia.
    * unfold local_ok, lok. cbn [top bot cur arrs narr pc b t a mk with_pc]. auto.
    * apply others_thief; auto. left. ls_new K0. lia.
  - (* OTop *) owner0 I HT Hpc u.
    assert (K0 : lkind (pc (thr s 0)) = 1%nat) by (rewrite <- HT, Hpc; reflexivity).
    destruct LT as (L1 & L2).
    unfold Ls in Itop; rewrite K0 in Itop. unfold Lc in Icap; rewrite K0 in Icap. cbn in Itop, Icap.
    set (p := if (b T - top s <? 0)%Z then OEmp else if (0 <? b T - top s)%Z then OGetN else OGet1).
    eapply (inv_update s _ 0%nat (mk p (b T) (top s) (a T) (na T) (i T) (arg T) (rv T) (prog T) (opi T)) I);
      [reflexivity | hx0 | | | | | ].
    * unfold Ls; cbn [thr bot top set_thr]; rewrite upd_same; cbn [pc mk]. unfold p.
      destruct (Z.ltb_spec (b T - top s) 0); [cbn; lia|]. destruct (Z.ltb_spec 0 (b T - top s)); cbn; lia.
    * unfold Lc; cbn [thr bot top cur arrs set_thr]; rewrite upd_same; cbn [pc mk]. unfold p.
      destruct (Z.ltb_spec (b T - top s) 0); [cbn; lia|]. destruct (Z.ltb_spec 0 (b T - top s)); cbn; lia.
    * cbn [cur narr set_thr]. lia.
    * unfold local_ok, lok, Ls. cbn [top bot cur arrs narr pc b t a mk thr set_thr]. rewrite upd_same; cbn [pc mk]. unfold p.
      destruct (Z.ltb_spec (b T - top s) 0); [cbn; repeat split; auto; lia|].
      destruct (Z.ltb_spec 0 (b T - top s)); cbn; repeat split; auto; lia.
    * apply others_thief; auto. unfold Ls; cbn [thr bot top set_thr]; rewrite upd_same, K0; cbn [pc mk]. unfold p.
      destruct (Z.ltb_spec (b T - top s) 0); [cbn; lia|]. destruct (Z.ltb_spec 0 (b T - top s)); cbn; lia.
  - (* OEmp *) owner0 I HT Hpc u.
    assert (K0 : lkind (pc (thr s 0)) = 1%nat) by (rewrite <- HT, Hpc; reflexivity).
    destruct LT as (L1 & L2 & L3 & L4).
    unfold Ls in Itop; rewrite K0 in Itop. unfold Lc in Icap; rewrite K0 in Icap. cbn in Itop, Icap.
    eapply (inv_update s _ 0%nat _ I); [reflexivity | hx0 | | | | | ].
    * ls_new K0. lia.
    * ls_new K0. lia.
    * cbn [cur narr]. lia.
    * apply next_op_lok.
    * apply others_thief; auto. left. ls_new K0. lia.
  - (* OGetN *) owner0 I HT Hpc u.
    assert (K0 : lkind (pc (thr s 0)) = 2%nat) by (rewrite <- HT, Hpc; reflexivity).
    destruct LT as (L1 & L2 & L3).
    unfold Ls in Itop; rewrite K0 in Itop. unfold Lc in Icap; rewrite K0 in Icap. cbn in Itop, Icap.
    eapply (inv_update s _ 0%nat _ I); [reflexivity | hx0 | | | | | ].
    * ls_new K0. lia.
    * ls_new K0. lia.
    * cbn [cur narr set_thr]. lia.
    * apply next_op_lok.
    * apply others_thief; auto. left. ls_new K0. lia.
  - (* OGet1 *) owner0 I HT Hpc u. destruct LT as (L1 & L2 & L3 & L4). priv I HT Hpc.
    repeat split; auto. rewrite L2. reflexivity.
  - (* OCas *) owner0 I HT Hpc u.
    assert (K0 : lkind (pc (thr s 0)) = 1%nat) by (rewrite <- HT, Hpc; reflexivity).
    destruct LT as (L1 & L2 & L3 & L4 & L5).
    unfold Ls in Itop; rewrite K0 in Itop. unfold Lc in Icap; rewrite K0 in Icap. cbn in Itop, Icap.
    destruct (Z.eqb_spec (top s) (t T)) as [E|E]; cbn [fst].
    + eapply (inv_update s _ 0%nat _ I); [reflexivity | hx0 | | | | | ].
      * ls_new K0. lia.
      * ls_new K0. lia.
      * cbn [cur narr]. lia.
      * unfold local_ok, lok. ls_new K0. cbn [top bot cur arrs narr pc b t a mk with_pc]. repeat split; auto; lia.
      * intros v Hv Lv. unfold local_ok in *. cbn [top bot cur arrs narr].
        assert (ELs : Ls {| top := t T + 1; bot := bot s; cur := cur s; arrs := arrs s; narr := narr s;
                            thr := upd (thr s) 0%nat (with_pc T OFixW); nthr := nthr s |} = Ls s)
          by (ls_new K0; reflexivity).
        rewrite ELs, <- E. apply lok_top_inc; auto. unfold Ls; rewrite K0; cbn. lia.
    + priv I HT Hpc. unfold Ls; rewrite K0; cbn. repeat split; auto; lia.
  - (* OFixW *) owner0 I HT Hpc u.
    assert (K0 : lkind (pc (thr s 0)) = 1%nat) by (rewrite <- HT, Hpc; reflexivity).
    destruct LT as (L1 & L2 & L3 & L4).
    unfold Ls in Itop; rewrite K0 in Itop. unfold Lc in Icap; rewrite K0 in Icap. cbn in Itop, Icap.
    eapply (inv_update s _ 0%nat _ I); [reflexivity | hx0 | | | | | ].
    * ls_new K0. lia.
    * ls_new K0. lia.
    * cbn [cur narr]. lia.
    * apply next_op_lok.
    * apply others_thief; auto. left. ls_new K0. lia.
  - (* OFixL *) owner0 I HT Hpc u.
    assert (K0 : lkind (pc (thr s 0)) = 1%nat) by (rewrite <- HT, Hpc; reflexivity).
    destruct LT as (L1 & L2 & L3 & L4).
    unfold Ls in Itop; rewrite K0 in Itop. unfold Lc in Icap; rewrite K0 in Icap. cbn in Itop, Icap.
    eapply (inv_update s _ 0%nat _ I); [reflexivity | hx0 | | | | | ].
    * ls_new K0. lia.
    * ls_new K0. lia.
    * cbn [cur narr]. lia.
    * apply next_op_lok.
    * apply others_thief; auto. left. ls_new K0. lia.
  - (* TTop *) priv I HT Hpc. lia.
  - (* TBot *) priv I HT Hpc. split; [exact LT|]. intros E1 E2. pose proof (bt_le_Ls (lkind (pc (thr s 0))) (bot s)). unfold Ls. lia.
  - (* TArr *) destruct LT as (L1 & L2).
    destruct (Z.leb_spec (b T - t T) 0); cbn [fst].
    + apply local_step; auto.
      * rewrite next_op_lkind, <- HT, Hpc. reflexivity.
      * intros Hu. rewrite HT. apply next_op_hx; auto.
      * apply next_op_lok.
    + priv I HT Hpc. repeat split; auto; try lia; try (apply L2; auto; lia).
  - (* TGet *) destruct LT as (L1 & L2 & L3 & L4). priv I HT Hpc.
    repeat split; auto; try (apply L4; auto); try (destruct (L4 H) as [_ D]; exact D).
  - (* TCas *) destruct LT as (L1 & L2 & L3 & L4).
    destruct (Z.eqb_spec (top s) (t T)) as [E|E]; cbn [fst].
    + destruct (L4 E) as (D1 & D2 & D3).
      assert (K : lkind (pc (upd (thr s) u (next_op T) 0%nat)) = lkind (pc (thr s 0%nat)))
        by (apply pc0_upd; rewrite next_op_lkind, <- HT, Hpc; reflexivity).
      eapply (inv_update s _ u _ I); [reflexivity | | | | | | ].
      * intros Hu. rewrite HT. apply next_op_hx; auto.
      * unfold Ls; cbn [thr bot top]. rewrite K. fold (Ls s). lia.
      * unfold Lc; cbn [thr bot top cur arrs]. rewrite K. fold (Lc s). lia.
      * cbn [cur narr]. lia.
      * apply next_op_lok.
      * intros v Hv Lv. unfold local_ok in *. cbn [top bot cur arrs narr].
        assert (ELs : Ls {| top := t T + 1; bot := bot s; cur := cur s; arrs := arrs s; narr := narr s;
                            thr := upd (thr s) u (next_op T); nthr := nthr s |} = Ls s)
          by (unfold Ls; cbn [thr bot]; rewrite K; reflexivity).
        rewrite ELs, <- E. apply lok_top_inc; auto. lia.
    + apply local_step; auto.
      * rewrite next_op_lkind, <- HT, Hpc. reflexivity.
      * intros Hu. rewrite HT. apply next_op_hx; auto.
      * apply next_op_lok.
  - (* Fin *) exact I.
Qed.

(* ------------------------------------------------------------------ *)
(* Every reachable state of the executable machine satisfies Inv      *)
Theorem reachable_inv l start progs s :
  owner_only progs -> reachable M (init l start progs) s -> Inv s.
Proof.
  intros O. apply (invariant_ind M Inv (init l start progs)).
  - apply init_inv; auto.
  - intros s0 u I _. apply step_inv; exact I.
Qed.

(* ------------------------------------------------------------------ *)
(* logical content of the deque and the token held by a pop between its
   winning CAS and its return                                           *)
Definition content (s : st) : list Z := map (get (arrs s (cur s))) (zrange (top s) (Lc s)).
Definition held (s : st) : list Z :=
  match pc (thr s 0%nat) with OFixW => [rv (thr s 0%nat)] | _ => [] end.

Lemma content_eq s s' :
  top s' = top s -> Lc s' = Lc s ->
  (forall j, top s <= j < Lc s -> get (arrs s' (cur s')) j = get (arrs s (cur s)) j) ->
  content s' = content s.
Proof.
  intros Et El Hg. unfold content. rewrite Et, El. apply map_ext_in. intros j Hj.
  apply in_zrange in Hj. apply Hg; auto.
Qed.

Lemma held_other s s' u x :
  thr s' = upd (thr s) u x -> pc (thr s u) <> OFixW -> pc x <> OFixW -> held s' = held s.
Proof.
  intros E H1 H2. unfold held. rewrite E. destruct (Nat.eq_dec 0%nat u) as [<-|Hne].
  - rewrite upd_same. destruct (pc x); try congruence; destruct (pc (thr s 0%nat)); congruence.
  - rewrite upd_other by assumption. reflexivity.
Qed.

Lemma next_op_not_fixw T : pc (next_op T) <> OFixW.
Proof. unfold next_op. destruct (prog T) as [|[v| |] r]; cbn; discriminate. Qed.

Lemma Lc_set_thr s u x : lkind (pc x) = lkind (pc (thr s u)) -> Lc (set_thr s u x) = Lc s.
Proof. intros K. unfold Lc; cbn [thr bot set_thr]. rewrite pc0_upd; auto. Qed.

Lemma private_effect s u x :
  lkind (pc x) = lkind (pc (thr s u)) -> pc (thr s u) <> OFixW -> pc x <> OFixW ->
  held (set_thr s u x) = held s /\ content (set_thr s u x) = content s.
Proof.
  intros K H1 H2. split.
  - apply (held_other s _ u x); auto.
  - apply content_eq; auto. apply Lc_set_thr; auto.
Qed.

(* what one step does to (held, content), by the pc of the stepping thread *)
Definition effect_ok (s s' : st) (T : tst) : Prop :=
  match pc T with
  | USt => held s' = held s /\ content s' = content s ++ [arg T]
  | TCas => if top s =? t T then held s' = held s /\ content s = rv T :: content s'
            else held s' = held s /\ content s' = content s
  | OGetN => held s = [] /\ held s' = [] /\ content s = content s' ++ [get (arrs s (a T)) (b T)]
  | OCas => if top s =? t T then held s = [] /\ held s' = [rv T] /\ content s = [rv T] /\ content s' = []
            else held s' = held s /\ content s' = content s
  | OFixW => held s = [rv T] /\ held s' = [] /\ content s' = content s
  | _ => held s' = held s /\ content s' = content s
  end.

Ltac priv_eff HT Hpc :=
  apply private_effect; [ rewrite <- HT, Hpc; reflexivity | rewrite <- HT, Hpc; discriminate | cbn [pc mk with_pc]; discriminate ].

Lemma step_effect s u : Inv s -> effect_ok s (fst (step s u)) (thr s u).
Proof.
  intros I. unfold step, effect_ok. remember (thr s u) as T eqn:HT.
  assert (LT := i_loc s I u). rewrite <- HT in LT. unfold local_ok, lok in LT.
  pose proof (i_top s I) as Itop. pose proof (i_cap s I) as Icap. pose proof (i_cur s I) as Icur.
  destruct (pc T) eqn:Hpc; cbn [fst].
  - (* UBot *) priv_eff HT Hpc.
  - (* UTop *) priv_eff HT Hpc.
  - (* UArr *) owner0 I HT Hpc u.
    assert (K0 : lkind (pc (thr s 0)) = 0%nat) by (rewrite <- HT, Hpc; reflexivity).
    rewrite Z.geb_leb. destruct (Z.leb_spec (asize (arrs s (cur s)) - 1) (b T - t T)) as [G|G]; cbn [fst].
    + set (x := mk (if (t T <? b T)%Z then UGRd else UGSt) (b T) (t T) (cur s) (S (narr s)) (t T) (arg T) (rv T) (prog T) (opi T)).
      assert (Kx : lkind (pc x) = 0%nat) by (unfold x; destruct (t T <? b T)%Z; reflexivity).
      split.
      * apply (held_other s _ 0%nat x); [reflexivity | rewrite <- HT, Hpc; discriminate | unfold x; destruct (t T <? b T)%Z; discriminate].
      * apply content_eq; [reflexivity | unfold Lc; cbn [thr bot]; rewrite upd_same, Kx, K0; reflexivity |].
        intros j _. cbn [arrs cur]. rewrite upd_other by lia. reflexivity.
    + priv_eff HT Hpc.
  - (* UGRd *) priv_eff HT Hpc.
  - (* UGWr *) owner0 I HT Hpc u.
    assert (K0 : lkind (pc (thr s 0)) = 0%nat) by (rewrite <- HT, Hpc; reflexivity).
    destruct LT as (G & L1 & L2). destruct G as (G1 & G2 & G3 & G4 & G5 & G6 & G7 & G8 & G9).
    set (x := mk (if (i T + 1 <? b T)%Z then UGRd else UGSt) (b T) (t T) (a T) (na T) (i T + 1) (arg T) (rv T) (prog T) (opi T)).
    assert (Kx : lkind (pc x) = 0%nat) by (unfold x; destruct (i T + 1 <? b T)%Z; reflexivity).
    split.
    * apply (held_other s _ 0%nat x); [reflexivity | rewrite <- HT, Hpc; discriminate | unfold x; destruct (i T + 1 <? b T)%Z; discriminate].
    * apply content_eq; [reflexivity | unfold Lc; cbn [thr bot]; rewrite upd_same, Kx, K0; reflexivity |].
      intros j _. cbn [arrs cur]. rewrite upd_other by lia. reflexivity.
  - (* UGSt *) owner0 I HT Hpc u.
    assert (K0 : lkind (pc (thr s 0)) = 0%nat) by (rewrite <- HT, Hpc; reflexivity).
    destruct LT as (G & L1). destruct G as (G1 & G2 & G3 & G4 & G5 & G6 & G7 & G8 & G9).
    split.
    * eapply (held_other s _ 0%nat); [reflexivity | rewrite <- HT, Hpc; discriminate | cbn; discriminate].
    * apply content_eq; [reflexivity | ls_new K0; reflexivity |].
      intros j Hj. unfold Lc in Hj; rewrite K0 in Hj; cbn in Hj. cbn [arrs cur]. apply G9. lia.
  - (* UPut *) owner0 I HT Hpc u.
    assert (K0 : lkind (pc (thr s 0)) = 0%nat) by (rewrite <- HT, Hpc; reflexivity).
    destruct LT as (L1 & L2 & L3 & L4). rewrite L3 in *.
    split.
    * eapply (held_other s _ 0%nat); [reflexivity | rewrite <- HT, Hpc; discriminate | cbn; discriminate].
    * apply content_eq; [reflexivity | ls_new K0; reflexivity |].
      intros j Hj. unfold Lc in Hj; rewrite K0 in Hj; cbn in Hj. cbn [arrs cur]. rewrite upd_same.
      apply get_put_other; lia.
  - (* USt *) owner0 I HT Hpc u.
    assert (K0 : lkind (pc (thr s 0)) = 0%nat) by (rewrite <- HT, Hpc; reflexivity).
    destruct LT as (L1 & L2 & L3 & L4 & L5).
    unfold Ls in Itop; rewrite K0 in Itop; cbn in Itop.
    split.
    * eapply (held_other s _ 0%nat); [reflexivity | rewrite <- HT, Hpc; discriminate | apply next_op_not_fixw].
    * unfold content. ls_new K0. rewrite L1, zrange_snoc by lia. rewrite map_app. cbn [map]. rewrite <- L1, L5. reflexivity.
  - (* OBot *) priv_eff HT Hpc.
  - (* OArr *) priv_eff HT Hpc.
  - (* OSt *) owner0 I HT Hpc u.
    assert (K0 : lkind (pc (thr s 0)) = 0%nat) by (rewrite <- HT, Hpc; reflexivity).
    destruct LT as (L1 & L2).
    split.
    * eapply (held_other s _ 0%nat); [reflexivity | rewrite <- HT, Hpc; discriminate | cbn; discriminate].
    * apply content_eq; [reflexivity | ls_new K0; lia | reflexivity].
  - (* OTop *) owner0 I HT Hpc u.
    assert (K0 : lkind (pc (thr s 0)) = 1%nat) by (rewrite <- HT, Hpc; reflexivity).
    set (p := if (b T - top s <? 0)%Z then OEmp else if (0 <? b T - top s)%Z then OGetN else OGet1).
    assert (Kp : Lc_of (lkind p) (bot s) = bot s + 1)
      by (unfold p; destruct (b T - top s <? 0)%Z; [reflexivity|]; destruct (0 <? b T - top s)%Z; reflexivity).
    split.
    * eapply (held_other s _ 0%nat); [reflexivity | rewrite <- HT, Hpc; discriminate |].
      cbn [pc mk]. unfold p. destruct (b T - top s <? 0)%Z; [discriminate|]. destruct (0 <? b T - top s)%Z; discriminate.
    * apply content_eq; [reflexivity | | reflexivity].
      unfold Lc; cbn [thr bot set_thr]; rewrite upd_same, K0. cbn [pc mk]. fold p. rewrite Kp. reflexivity.
  - (* OEmp *) owner0 I HT Hpc u.
    assert (K0 : lkind (pc (thr s 0)) = 1%nat) by (rewrite <- HT, Hpc; reflexivity).
    destruct LT as (L1 & L2 & L3 & L4).
    split.
    * eapply (held_other s _ 0%nat); [reflexivity | rewrite <- HT, Hpc; discriminate | apply next_op_not_fixw].
    * apply content_eq; [reflexivity | ls_new K0; lia | reflexivity].
  - (* OGetN *) owner0 I HT Hpc u.
    assert (K0 : lkind (pc (thr s 0)) = 2%nat) by (rewrite <- HT, Hpc; reflexivity).
    destruct LT as (L1 & L2 & L3).
    unfold Ls in Itop; rewrite K0 in Itop; cbn in Itop.
    split; [|split].
    * unfold held. rewrite <- HT, Hpc. reflexivity.
    * unfold held. cbn [thr set_thr]. rewrite upd_same. pose proof (next_op_not_fixw T). destruct (pc (next_op T)); congruence.
    * unfold content. ls_new K0. rewrite zrange_snoc by lia. rewrite map_app. cbn [map]. rewrite L1, L2. reflexivity.
  - (* OGet1 *) priv_eff HT Hpc.
  - (* OCas *) owner0 I HT Hpc u.
    assert (K0 : lkind (pc (thr s 0)) = 1%nat) by (rewrite <- HT, Hpc; reflexivity).
    destruct LT as (L1 & L2 & L3 & L4 & L5).
    destruct (Z.eqb_spec (top s) (t T)) as [E|E]; cbn [fst].
    + split; [|split; [|split]].
      * unfold held. rewrite <- HT, Hpc. reflexivity.
      * unfold held. cbn [thr]. rewrite upd_same. reflexivity.
      * unfold content, Lc. rewrite K0. cbn [Lc_of]. rewrite E, L3, L1.
        rewrite zrange_cons by lia. rewrite zrange_nil by lia. cbn [map]. rewrite L5, L1. reflexivity.
      * unfold content. ls_new K0. rewrite zrange_nil by lia. reflexivity.
    + priv_eff HT Hpc.
  - (* OFixW *) owner0 I HT Hpc u.
    assert (K0 : lkind (pc (thr s 0)) = 1%nat) by (rewrite <- HT, Hpc; reflexivity).
    destruct LT as (L1 & L2 & L3 & L4).
    split; [|split].
    * unfold held. rewrite <- HT, Hpc. reflexivity.
    * unfold held. cbn [thr]. rewrite upd_same. pose proof (next_op_not_fixw T). destruct (pc (next_op T)); congruence.
    * apply content_eq; [reflexivity | ls_new K0; lia | reflexivity].
  - (* OFixL *) owner0 I HT Hpc u.
    assert (K0 : lkind (pc (thr s 0)) = 1%nat) by (rewrite <- HT, Hpc; reflexivity).
    destruct LT as (L1 & L2 & L3 & L4).
    split.
    * eapply (held_other s _ 0%nat); [reflexivity | rewrite <- HT, Hpc; discriminate | apply next_op_not_fixw].
    * apply content_eq; [reflexivity | ls_new K0; lia | reflexivity].
  - (* TTop *) priv_eff HT Hpc.
  - (* TBot *) priv_eff HT Hpc.
  - (* TArr *) destruct (Z.leb_spec (b T - t T) 0); cbn [fst].
    + apply private_effect; [ rewrite next_op_lkind, <- HT, Hpc; reflexivity | rewrite <- HT, Hpc; discriminate | apply next_op_not_fixw ].
    + priv_eff HT Hpc.
  - (* TGet *) priv_eff HT Hpc.
  - (* TCas *) destruct LT as (L1 & L2 & L3 & L4).
    destruct (Z.eqb_spec (top s) (t T)) as [E|E]; cbn [fst].
    + destruct (L4 E) as (D1 & D2 & D3).
      assert (K : lkind (pc (upd (thr s) u (next_op T) 0%nat)) = lkind (pc (thr s 0%nat)))
        by (apply pc0_upd; rewrite next_op_lkind, <- HT, Hpc; reflexivity).
      split.
      * eapply (held_other s _ u); [reflexivity | rewrite <- HT, Hpc; discriminate | apply next_op_not_fixw].
      * unfold content, Lc. cbn [thr bot top cur arrs]. rewrite K.
        pose proof (Ls_le_Lc (lkind (pc (thr s 0%nat))) (bot s)) as LL. unfold Ls in D1.
        rewrite (zrange_cons (top s)) by lia. cbn [map]. rewrite E, D3. reflexivity.
    + apply private_effect; [ rewrite next_op_lkind, <- HT, Hpc; reflexivity | rewrite <- HT, Hpc; discriminate | apply next_op_not_fixw ].
  - (* Fin *) auto.
Qed.

(* ------------------------------------------------------------------ *)
(* order-preserving sublists                                            *)
Inductive subseq {A : Type} : list A -> list A -> Prop :=
| sub_nil : subseq [] []
| sub_skip x l1 l2 : subseq l1 l2 -> subseq l1 (x :: l2)
| sub_take x l1 l2 : subseq l1 l2 -> subseq (x :: l1) (x :: l2).

Lemma subseq_refl {A} (l : list A) : subseq l l.
Proof. induction l; [apply sub_nil | apply sub_take; auto]. Qed.
Lemma subseq_nil_l {A} (l : list A) : subseq [] l.
Proof. induction l; constructor; auto. Qed.
Lemma subseq_app2 {A} (a1 b1 a2 b2 : list A) : subseq a1 b1 -> subseq a2 b2 -> subseq (a1 ++ a2) (b1 ++ b2).
Proof. intros H1 H2. induction H1; cbn; auto; [apply sub_skip | apply sub_take]; auto. Qed.
Lemma subseq_trans {A} (l1 l2 l3 : list A) : subseq l1 l2 -> subseq l2 l3 -> subseq l1 l3.
Proof.
  intros H12 H23. revert l1 H12. induction H23; intros l0 H12.
  - exact H12.
  - apply sub_skip. auto.
  - inversion H12; subst; [apply sub_skip | apply sub_take]; auto.
Qed.
Lemma subseq_app_r {A} (l m : list A) : subseq l (l ++ m).
Proof. rewrite <- (app_nil_r l) at 1. apply subseq_app2; [apply subseq_refl|apply subseq_nil_l]. Qed.
Lemma subseq_app_l {A} (l m : list A) : subseq m (l ++ m).
Proof. change m with ([] ++ m) at 1. apply subseq_app2; [apply subseq_nil_l|apply subseq_refl]. Qed.
Lemma subseq_In {A} (l m : list A) x : subseq l m -> In x l -> In x m.
Proof. intros H. induction H; cbn; intuition. Qed.

(* ------------------------------------------------------------------ *)
(* History: the machine instrumented with the log of tokens pushed (in the
   order the pushes published them), the log of tokens returned by steals
   and the log of tokens returned by pops, each appended by exactly the step
   that emits the corresponding return event.                           *)
Record ist := { base : st; plog : list Z; slog : list Z; olog : list Z }.

Definition lstep (x : ist) (u : nat) : ist :=
  let s := base x in
  let T := thr s u in
  let s' := fst (step s u) in
  match pc T with
  | USt => {| base := s'; plog := plog x ++ [arg T]; slog := slog x; olog := olog x |}
  | TCas => if (top s =? t T)%Z
            then {| base := s'; plog := plog x; slog := slog x ++ [rv T]; olog := olog x |}
            else {| base := s'; plog := plog x; slog := slog x; olog := olog x |}
  | OGetN => {| base := s'; plog := plog x; slog := slog x; olog := olog x ++ [get (arrs s (a T)) (b T)] |}
  | OFixW => {| base := s'; plog := plog x; slog := slog x; olog := olog x ++ [rv T] |}
  | _ => {| base := s'; plog := plog x; slog := slog x; olog := olog x |}
  end.

Lemma lstep_erase x u : base (lstep x u) = fst (step (base x) u).
Proof. unfold lstep. destruct (pc (thr (base x) u)); try reflexivity.
  match goal with |- context [if ?c then _ else _] => destruct c end; reflexivity. Qed.

Definition iinit l start progs : ist :=
  {| base := init l start progs; plog := []; slog := []; olog := [] |}.

Inductive ireach l start progs : ist -> Prop :=
| ir_init : ireach l start progs (iinit l start progs)
| ir_step x u : ireach l start progs x -> ireach l start progs (lstep x u).

Definition irun (x : ist) (sch : list nat) : ist := fold_left lstep sch x.
Lemma ireach_irun l start progs sch : forall x, ireach l start progs x -> ireach l start progs (irun x sch).
Proof. induction sch as [|u r IH]; intros x R; cbn; auto. apply IH. constructor. exact R. Qed.

(* the logs are exactly the values of the return events *)
Lemma app_one_neq {A} (l : list A) v : l <> l ++ [v].
Proof. intros E. apply (f_equal (@length A)) in E. rewrite app_length in E. cbn in E. lia. Qed.

Lemma lstep_logs_are_returns x u :
  let T := thr (base x) u in
  let e := snd (step (base x) u) in
  (forall v, plog (lstep x u) = plog x ++ [v] -> pc T = USt /\ v = arg T /\ exists e0, e = e0 ++ ret u T 1) /\
  (forall v, slog (lstep x u) = slog x ++ [v] -> pc T = TCas /\ exists e0, e = e0 ++ ret u T v) /\
  (forall v, olog (lstep x u) = olog x ++ [v] -> (pc T = OGetN \/ pc T = OFixW) /\ exists e0, e = e0 ++ ret u T v).
Proof.
  cbn zeta. unfold lstep, step. destruct (pc (thr (base x) u)) eqn:Hpc;
    repeat match goal with |- context [if ?c then _ else _] => destruct c end;
    cbn [plog slog olog snd]; (split; [|split]); intros v E;
    try (exfalso; exact (app_one_neq _ _ E));
    apply app_inj_tail in E; destruct E as [_ <-]; repeat split; auto; eexists; reflexivity.
Qed.

(* tokens the owner's program will still push *)
Definition tokens (p : list op) : list Z :=
  flat_map (fun o => match o with OPush v => [v] | _ => [] end) p.
Definition in_push (p : pcT) : bool :=
  match p with UBot | UTop | UArr | UGRd | UGWr | UGSt | UPut | USt => true | _ => false end.
Definition pend (T : tst) : list Z := (if in_push (pc T) then [arg T] else []) ++ tokens (prog T).

Lemma pend_next_op T : pend (next_op T) = tokens (prog T).
Proof. unfold pend, next_op. destruct (prog T) as [|[v| |] r]; reflexivity. Qed.

Lemma step_thr_other s u v : v <> u -> thr (fst (step s u)) v = thr s v.
Proof.
  intros H. unfold step. destruct (pc (thr s u));
    repeat match goal with |- context [if ?c then _ else _] => destruct c end;
    cbn [fst thr set_thr]; try rewrite upd_other by assumption; reflexivity.
Qed.

Lemma step_pend0 s :
  pend (thr s 0%nat) =
  (match pc (thr s 0%nat) with USt => [arg (thr s 0%nat)] | _ => [] end) ++ pend (thr (fst (step s 0%nat)) 0%nat).
Proof.
  unfold step. destruct (pc (thr s 0%nat)) eqn:Hpc;
    repeat match goal with |- context [if ?c then _ else _] => destruct c eqn:? end;
    cbn [fst thr set_thr]; rewrite ?upd_same; rewrite ?pend_next_op;
    unfold pend; rewrite ?Hpc; cbn [pc prog arg mk with_pc in_push app]; try reflexivity.
  all: rewrite Hpc; reflexivity.
Qed.

Lemma step_pend s u : Inv s ->
  pend (thr s 0%nat) =
  (match pc (thr s u) with USt => [arg (thr s u)] | _ => [] end) ++ pend (thr (fst (step s u)) 0%nat).
Proof.
  intros I. destruct (Nat.eq_dec u 0%nat) as [->|Hne].
  - apply step_pend0.
  - rewrite step_thr_other by auto. pose proof (proj1 (i_thief s I u Hne)) as Hp.
    destruct (pc (thr s u)); cbn in Hp; try contradiction; reflexivity.
Qed.

Definition cnt := count_occ Z.eq_dec.

Record LInv (p0 : list Z) (x : ist) : Prop := {
  l_inv : Inv (base x);
  l_cnt : forall v, (cnt (plog x) v = cnt (slog x) v + cnt (olog x) v + cnt (held (base x)) v + cnt (content (base x)) v)%nat;
  l_sub : subseq (slog x ++ content (base x)) (plog x);
  l_prog : p0 = plog x ++ pend (thr (base x) 0%nat)
}.

Lemma cnt_app l m v : cnt (l ++ m) v = (cnt l v + cnt m v)%nat.
Proof. apply count_occ_app. Qed.

Lemma linv_step p0 x u : LInv p0 x -> LInv p0 (lstep x u).
Proof.
  intros [I C S P]. assert (I' := step_inv (base x) u I).
  assert (E := step_effect (base x) u I). assert (PD := step_pend (base x) u I).
  unfold effect_ok in E. unfold lstep.
  destruct (pc (thr (base x) u)) eqn:Hpc.
  all: try (destruct E as [E1 E2]; constructor; cbn [base plog slog olog]; auto;
            [ intros v; rewrite E1, E2; apply C | rewrite E2; exact S | rewrite P, PD; reflexivity ]; fail).
  - (* USt *) destruct E as [E1 E2]. constructor; cbn [base plog slog olog]; auto.
    + intros v. rewrite E1, E2, !cnt_app, C. lia.
    + rewrite E2, app_assoc. apply subseq_app2; [exact S|apply subseq_refl].
    + rewrite P, PD, <- app_assoc. reflexivity.
  - (* OGetN *) destruct E as (E1 & E2 & E3). constructor; cbn [base plog slog olog]; auto.
    + intros v. rewrite C, E1, E2, E3, !cnt_app. lia.
    + rewrite E3, app_assoc in S. eapply subseq_trans; [apply subseq_app_r|exact S].
    + rewrite P, PD; reflexivity.
  - (* OCas *) destruct (top (base x) =? t (thr (base x) u))%Z.
    + destruct E as (E1 & E2 & E3 & E4). constructor; cbn [base plog slog olog]; auto.
      * intros v. rewrite C, E1, E2, E3, E4. cbn. lia.
      * rewrite E4. rewrite E3 in S. eapply subseq_trans; [|exact S]. apply subseq_app2; [apply subseq_refl|apply subseq_nil_l].
      * rewrite P, PD; reflexivity.
    + destruct E as [E1 E2]. constructor; cbn [base plog slog olog]; auto.
      * intros v; rewrite E1, E2; apply C.
      * rewrite E2; exact S.
      * rewrite P, PD; reflexivity.
  - (* OFixW *) destruct E as (E1 & E2 & E3). constructor; cbn [base plog slog olog]; auto.
    + intros v. rewrite C, E1, E2, E3, !cnt_app. cbn. lia.
    + rewrite E3; exact S.
    + rewrite P, PD; reflexivity.
  - (* TCas *) destruct (top (base x) =? t (thr (base x) u))%Z.
    + destruct E as (E1 & E2). constructor; cbn [base plog slog olog]; auto.
      * intros v. rewrite C, E1, E2, !cnt_app. cbn. destruct (Z.eq_dec (rv (thr (base x) u)) v); lia.
      * rewrite <- app_assoc. cbn [app]. rewrite <- E2. exact S.
      * rewrite P, PD; reflexivity.
    + destruct E as [E1 E2]. constructor; cbn [base plog slog olog]; auto.
      * intros v; rewrite E1, E2; apply C.
      * rewrite E2; exact S.
      * rewrite P, PD; reflexivity.
Qed.

Theorem ireach_linv l start progs x :
  owner_only progs -> ireach l start progs x -> LInv (tokens (nth 0 progs [])) x.
Proof.
  intros O R. induction R as [|x u R IH].
  - constructor; cbn [base plog slog olog iinit].
    + apply init_inv; auto.
    + intros v. unfold content, held, Lc. cbn [init thr top bot cur arrs]. unfold idle_thread.
      rewrite next_op_lkind. cbn [Lc_of]. rewrite zrange_nil by lia.
      pose proof (next_op_not_fixw (mk Fin 0 0 0 0 0 0 0 (nth 0 progs []) 0)) as NF.
      destruct (pc (next_op (mk Fin 0 0 0 0 0 0 0 (nth 0 progs []) 0))); try congruence; reflexivity.
    + unfold content, Lc. cbn [init thr top bot cur arrs]. unfold idle_thread.
      rewrite next_op_lkind. cbn [Lc_of]. rewrite zrange_nil by lia. constructor.
    + cbn [init thr]. unfold idle_thread. rewrite pend_next_op. reflexivity.
  - apply linv_step; exact IH.
Qed.

(* ------------------------------------------------------------------ *)
(* ---------- the statements used by Properties_C02_deque.v ---------- *)

Lemma cnt_In l v : In v l <-> (cnt l v > 0)%nat.
Proof. apply count_occ_In. Qed.

Lemma returned_le_pushed p0 x : LInv p0 x ->
  forall v, (cnt (slog x) v + cnt (olog x) v <= cnt (plog x) v)%nat.
Proof. intros L v. rewrite (l_cnt p0 x L v). lia. Qed.

Lemma pushed_perm p0 x : LInv p0 x ->
  Permutation (plog x) (slog x ++ olog x ++ held (base x) ++ content (base x)).
Proof.
  intros L. apply (Permutation_count_occ Z.eq_dec). intros v.
  fold (cnt (plog x) v). fold (cnt (slog x ++ olog x ++ held (base x) ++ content (base x)) v).
  rewrite !cnt_app, (l_cnt p0 x L v). lia.
Qed.

Lemma exactly_once_of_linv p0 x : LInv p0 x ->
  (forall v, (cnt (slog x) v + cnt (olog x) v <= cnt (plog x) v)%nat) /\
  (exists rest, Permutation (plog x) (slog x ++ olog x ++ rest)) /\
  (exists later, p0 = plog x ++ later) /\
  (NoDup p0 -> NoDup (slog x ++ olog x) /\ incl (slog x ++ olog x) (plog x)).
Proof.
  intros L. split; [apply (returned_le_pushed p0); auto|]. split; [|split].
  - exists (held (base x) ++ content (base x)). apply (pushed_perm p0); auto.
  - exists (pend (thr (base x) 0%nat)). apply (l_prog p0 x L).
  - intros ND. split.
    + apply (NoDup_count_occ Z.eq_dec). intros v. fold (cnt (slog x ++ olog x) v).
      rewrite cnt_app. pose proof (returned_le_pushed p0 x L v) as H1.
      pose proof (proj1 (NoDup_count_occ Z.eq_dec p0) ND v) as H2. fold (cnt p0 v) in H2.
      rewrite (l_prog p0 x L), cnt_app in H2. lia.
    + intros v Hv. apply cnt_In in Hv. apply cnt_In. rewrite cnt_app in Hv.
      pose proof (returned_le_pushed p0 x L v). lia.
Qed.

Lemma in_content s v : In v (content s) <-> exists j, (top s <= j < Lc s)%Z /\ get (arrs s (cur s)) j = v.
Proof.
  unfold content. rewrite in_map_iff. split; intros [j [A B]]; exists j.
  - apply in_zrange in B. auto.
  - split; [tauto|]. apply in_zrange. tauto.
Qed.

Lemma no_loss_of_linv p0 x : LInv p0 x ->
  Permutation (plog x) (slog x ++ olog x ++ held (base x) ++ content (base x)) /\
  (forall v, In v (plog x) ->
     In v (slog x ++ olog x) \/ In v (held (base x)) \/
     exists j, (top (base x) <= j < Lc (base x))%Z /\ get (arrs (base x) (cur (base x))) j = v).
Proof.
  intros L. split; [apply (pushed_perm p0); auto|].
  intros v Hv. apply cnt_In in Hv. rewrite (l_cnt p0 x L v) in Hv.
  destruct (Nat.eq_dec (cnt (slog x) v + cnt (olog x) v) 0) as [Z1|N1].
  - destruct (Nat.eq_dec (cnt (held (base x)) v) 0) as [Z2|N2].
    + right; right. apply in_content. apply cnt_In. lia.
    + right; left. apply cnt_In. lia.
  - left. apply cnt_In. rewrite cnt_app. lia.
Qed.

(* no call of the owner between its speculative decrement of bottom and its
   return: the content is the index range [top, bottom) *)
Lemma quiescent_of_linv p0 x : LInv p0 x ->
  lkind (pc (thr (base x) 0%nat)) = 0%nat ->
  content (base x) = map (get (arrs (base x) (cur (base x)))) (zrange (top (base x)) (bot (base x))) /\
  held (base x) = [] /\
  Permutation (plog x) (slog x ++ olog x ++ content (base x)) /\
  subseq (slog x ++ content (base x)) (plog x) /\
  (top (base x) <= bot (base x))%Z.
Proof.
  intros L K. assert (H : held (base x) = []).
  { unfold held. destruct (pc (thr (base x) 0%nat)); try reflexivity; discriminate. }
  split; [|split; [|split; [|split]]]; auto.
  - unfold content, Lc. rewrite K. reflexivity.
  - pose proof (pushed_perm p0 x L) as P. rewrite H in P. exact P.
  - apply (l_sub p0 x L).
  - pose proof (i_top _ (l_inv p0 x L)) as T. unfold Ls in T. rewrite K in T. exact T.
Qed.

Lemma order_of_linv p0 x : LInv p0 x ->
  subseq (slog x ++ content (base x)) (plog x) /\
  (forall u, pc (thr (base x) u) = TCas -> top (base x) = t (thr (base x) u) ->
     exists rest, content (base x) = rv (thr (base x) u) :: rest) /\
  (forall u, pc (thr (base x) u) = OGetN ->
     exists front, content (base x) = front ++ [get (arrs (base x) (a (thr (base x) u))) (b (thr (base x) u))]) /\
  (forall u, pc (thr (base x) u) = OCas -> top (base x) = t (thr (base x) u) ->
     content (base x) = [rv (thr (base x) u)]).
Proof.
  intros L. pose proof (l_inv p0 x L) as I. split; [apply (l_sub p0 x L)|]. split; [|split].
  - intros u Hpc E. pose proof (step_effect (base x) u I) as F. unfold effect_ok in F. rewrite Hpc in F.
    rewrite (proj2 (Z.eqb_eq _ _) E) in F. destruct F as [_ F]. eexists; exact F.
  - intros u Hpc. pose proof (step_effect (base x) u I) as F. unfold effect_ok in F. rewrite Hpc in F.
    destruct F as (_ & _ & F). eexists; exact F.
  - intros u Hpc E. pose proof (step_effect (base x) u I) as F. unfold effect_ok in F. rewrite Hpc in F.
    rewrite (proj2 (Z.eqb_eq _ _) E) in F. tauto.
Qed.

Lemma content_nil s : (Lc s <= top s)%Z -> content s = [].
Proof. intros H. unfold content. rewrite zrange_nil by lia. reflexivity. Qed.

Lemma content_length s : (top s <= Lc s)%Z -> Z.of_nat (length (content s)) = (Lc s - top s)%Z.
Proof. intros H. unfold content, zrange. rewrite !map_length, seq_length. lia. Qed.

Lemma abort_of_inv s u : Inv s ->
  (pc (thr s u) = OCas -> top s <> t (thr s u) ->
     top s = (t (thr s u) + 1)%Z /\ bot s = t (thr s u) /\ content s = [] /\ u = 0%nat) /\
  (pc (thr s u) = OFixL ->
     top s = (t (thr s u) + 1)%Z /\ bot s = t (thr s u) /\ content s = [] /\ u = 0%nat) /\
  (pc (thr s u) = TCas -> top s <> t (thr s u) -> (t (thr s u) < top s)%Z).
Proof.
  intros I. pose proof (i_loc s I u) as LT. unfold local_ok, lok in LT.
  pose proof (i_top s I) as Itop. split; [|split].
  - intros Hpc E. assert (U0 : u = 0%nat) by (apply (owner_is_0 s u I); rewrite Hpc; cbn; tauto). subst u.
    rewrite Hpc in LT. destruct LT as (L1 & L2 & L3 & L4 & L5).
    unfold Ls in Itop. rewrite Hpc in Itop. cbn in Itop.
    repeat split; try lia. apply content_nil. unfold Lc. rewrite Hpc. cbn. lia.
  - intros Hpc. assert (U0 : u = 0%nat) by (apply (owner_is_0 s u I); rewrite Hpc; cbn; tauto). subst u.
    rewrite Hpc in LT. destruct LT as (L1 & L2 & L3 & L4).
    repeat split; try lia. apply content_nil. unfold Lc. rewrite Hpc. cbn. lia.
  - intros Hpc E. rewrite Hpc in LT. lia.
Qed.

Lemma empty_of_inv s u : Inv s ->
  (* pop: at the load of top that makes it return EMPTY the deque is empty *)
  (pc (thr s u) = OTop -> (b (thr s u) - top s < 0)%Z -> content s = []) /\
  (pc (thr s u) = OEmp -> content s = [] /\ (b (thr s u) < t (thr s u))%Z) /\
  (* steal: at the load of bottom that makes it return EMPTY at most the one
     element an in-flight pop is about to take is present *)
  (pc (thr s u) = TBot -> (bot s - t (thr s u) <= 0)%Z ->
     content s = [] \/ (lkind (pc (thr s 0%nat)) <> 0%nat /\ length (content s) = 1%nat)) /\
  (pc (thr s u) = TArr -> (b (thr s u) - t (thr s u) <= 0)%Z -> (b (thr s u) <= t (thr s u))%Z).
Proof.
  intros I. pose proof (i_loc s I u) as LT. unfold local_ok, lok in LT.
  pose proof (i_top s I) as Itop. split; [|split; [|split]].
  - intros Hpc E. assert (U0 : u = 0%nat) by (apply (owner_is_0 s u I); rewrite Hpc; cbn; tauto). subst u.
    rewrite Hpc in LT. destruct LT as (L1 & L2). apply content_nil. unfold Lc. rewrite Hpc. cbn. lia.
  - intros Hpc. assert (U0 : u = 0%nat) by (apply (owner_is_0 s u I); rewrite Hpc; cbn; tauto). subst u.
    rewrite Hpc in LT. destruct LT as (L1 & L2 & L3 & L4). split; [|lia].
    apply content_nil. unfold Lc. rewrite Hpc. cbn. lia.
  - intros Hpc E. rewrite Hpc in LT.
    pose proof (Ls_le_Lc (lkind (pc (thr s 0%nat))) (bot s)) as LL. fold (Ls s) in LL. fold (Lc s) in LL.
    destruct (Z_le_gt_dec (Lc s) (top s)) as [H|H]; [left; apply content_nil; auto|].
    right. assert (K : lkind (pc (thr s 0%nat)) <> 0%nat).
    { intros K. unfold Lc in H. rewrite K in H. cbn in H. lia. }
    split; auto. assert (Lc s - top s = 1)%Z.
    { unfold Lc in *. destruct (lkind (pc (thr s 0%nat))) as [|k]; [congruence|]. cbn in *. lia. }
    pose proof (content_length s ltac:(lia)). lia.
  - intros _ E. lia.
Qed.

Lemma growth_of_inv s u : Inv s ->
  (pc (thr s u) = UGSt ->
     u = 0%nat /\ a (thr s u) = cur s /\
     lg (arrs s (na (thr s u))) = S (lg (arrs s (cur s))) /\
     (forall j, (t (thr s u) <= j < b (thr s u))%Z -> get (arrs s (na (thr s u))) j = get (arrs s (cur s)) j) /\
     (t (thr s u) <= top s)%Z /\ b (thr s u) = bot s /\
     map (get (arrs s (na (thr s u)))) (zrange (top s) (Lc s)) = content s) /\
  (pc (thr s u) = TGet -> top s = t (thr s u) ->
     (a (thr s u) <= cur s)%nat /\
     get (arrs s (a (thr s u))) (t (thr s u)) = get (arrs s (cur s)) (t (thr s u)) /\
     exists rest, content s = get (arrs s (a (thr s u))) (t (thr s u)) :: rest) /\
  (pc (thr s u) = TCas -> top s = t (thr s u) ->
     (a (thr s u) <= cur s)%nat /\ rv (thr s u) = get (arrs s (cur s)) (t (thr s u)) /\
     exists rest, content s = rv (thr s u) :: rest).
Proof.
  intros I. pose proof (i_loc s I u) as LT. unfold local_ok, lok in LT.
  pose proof (i_top s I) as Itop. split; [|split].
  - intros Hpc. assert (U0 : u = 0%nat) by (apply (owner_is_0 s u I); rewrite Hpc; cbn; tauto). subst u.
    rewrite Hpc in LT. destruct LT as (G & L1). destruct G as (G1 & G2 & G3 & G4 & G5 & G6 & G7 & G8 & G9).
    repeat split; auto.
    + intros j Hj. apply G9. lia.
    + unfold content. apply map_ext_in. intros j Hj. apply in_zrange in Hj.
      unfold Lc in Hj. rewrite Hpc in Hj. cbn in Hj. apply G9. lia.
  - intros Hpc E. rewrite Hpc in LT. destruct LT as (L1 & L2 & L3 & L4). destruct (L4 E) as [D1 D2].
    repeat split; auto.
    pose proof (Ls_le_Lc (lkind (pc (thr s 0%nat))) (bot s)) as LL. fold (Ls s) in LL. fold (Lc s) in LL.
    unfold content. rewrite zrange_cons by lia. cbn [map]. rewrite E, D2. eexists; reflexivity.
  - intros Hpc E. rewrite Hpc in LT. destruct LT as (L1 & L2 & L3 & L4). destruct (L4 E) as (D1 & D2 & D3).
    repeat split; auto.
    pose proof (Ls_le_Lc (lkind (pc (thr s 0%nat))) (bot s)) as LL. fold (Ls s) in LL. fold (Lc s) in LL.
    unfold content. rewrite zrange_cons by lia. cbn [map]. rewrite E, D3. eexists; reflexivity.
Qed.

(* structural safety: bounds, capacity, and the slot a push writes is outside
   the live range (it never overwrites an unreturned token) *)
Lemma safety_of_inv s u : Inv s ->
  (top s <= Ls s <= Lc s)%Z /\ (bot s <= Ls s)%Z /\ (Lc s <= bot s + 1)%Z /\
  (Lc s - top s <= asize (arrs s (cur s)) - 1)%Z /\
  (pc (thr s u) = UPut ->
     u = 0%nat /\ a (thr s u) = cur s /\ b (thr s u) = bot s /\
     forall j, (top s <= j < bot s)%Z -> slot (arrs s (cur s)) j <> slot (arrs s (cur s)) (b (thr s u))) /\
  (forall v, v <> 0%nat -> thief_pc (pc (thr s v))).
Proof.
  intros I. pose proof (i_loc s I u) as LT. unfold local_ok, lok in LT.
  pose proof (i_top s I) as Itop. pose proof (i_cap s I) as Icap.
  pose proof (Ls_le_Lc (lkind (pc (thr s 0%nat))) (bot s)) as LL. fold (Ls s) in LL. fold (Lc s) in LL.
  pose proof (bt_le_Ls (lkind (pc (thr s 0%nat))) (bot s)) as LB. fold (Ls s) in LB.
  repeat split; auto; try lia.
  - unfold Lc. destruct (lkind (pc (thr s 0%nat))); cbn; lia.
  - apply (owner_is_0 s u I). rewrite H. cbn. tauto.
  - rewrite H in LT. tauto.
  - rewrite H in LT. tauto.
  - rewrite H in LT. destruct LT as (L1 & L2 & L3 & L4). intros j Hj. unfold slot.
    apply zmod_neq; [apply asize_pos|lia|lia].
  - intros v Hv. apply (i_thief s I v Hv).
Qed.

(* ------------------------------------------------------------------ *)
(* ABORT of a pop, in terms of the history: the last successful steal took
   exactly the element the pop was competing for                        *)
Definition stolen_last (x : ist) : Prop :=
  exists sl, slog x = sl ++ [get (arrs (base x) (cur (base x))) (b (thr (base x) 0%nat))].

Definition aclause (x : ist) : Prop :=
  match pc (thr (base x) 0%nat) with
  | OGet1 | OCas => top (base x) <> t (thr (base x) 0%nat) -> stolen_last x
  | OFixL => stolen_last x
  | _ => True
  end.

Lemma next_op_pc T : pc (next_op T) = UBot \/ pc (next_op T) = OBot \/ pc (next_op T) = TTop \/ pc (next_op T) = Fin.
Proof. unfold next_op. destruct (prog T) as [|[v| |] r]; cbn; auto. Qed.

Lemma thief_step_frame s u : thief_pc (pc (thr s u)) ->
  let s' := fst (step s u) in
  arrs s' = arrs s /\ cur s' = cur s /\ bot s' = bot s /\
  (top s' = top s \/ (pc (thr s u) = TCas /\ top s = t (thr s u) /\ top s' = (t (thr s u) + 1)%Z)).
Proof.
  intros H. unfold step. destruct (pc (thr s u)) eqn:Hpc; cbn in H; try contradiction;
    repeat match goal with |- context [if ?c then _ else _] => destruct c eqn:? end;
    cbn [fst arrs cur bot top set_thr]; repeat split; auto.
  right. repeat split; auto. apply Z.eqb_eq; auto.
Qed.

Lemma aclause_step p0 x u : LInv p0 x -> aclause x -> aclause (lstep x u).
Proof.
  intros L A. pose proof (l_inv p0 x L) as I.
  destruct (Nat.eq_dec u 0%nat) as [->|Hne].
  - (* the owner steps *)
    unfold aclause in *. rewrite lstep_erase.
    pose proof (i_loc _ I 0%nat) as LT. unfold local_ok, lok in LT.
    unfold lstep, step, stolen_last in *.
    destruct (pc (thr (base x) 0%nat)) eqn:Hpc;
      repeat match goal with |- context [if ?c then _ else _] => destruct c eqn:? end;
      cbn [fst base thr slog top bot cur arrs set_thr]; rewrite ?upd_same; cbn [pc b t mk with_pc];
      try exact Logic.I;
      try (destruct (next_op_pc (thr (base x) 0%nat)) as [E|[E|[E|E]]]; rewrite E; exact Logic.I).
    + (* OTop -> OGet1 *) intros E. congruence.
    + (* OGet1 -> OCas *) exact A.
    + (* OCas fails *) apply A. apply Z.eqb_neq. assumption.
    + (* Fin *) rewrite Hpc. exact Logic.I.
  - (* a thief steps *)
    pose proof (proj1 (i_thief _ I u Hne)) as Hp.
    pose proof (thief_step_frame (base x) u Hp) as (Fa & Fc & Fb & Ft).
    pose proof (i_loc _ I u) as LU. unfold local_ok, lok in LU.
    pose proof (i_loc _ I 0%nat) as L0. unfold local_ok, lok in L0.
    unfold aclause, stolen_last in *. rewrite lstep_erase.
    rewrite (step_thr_other (base x) u 0%nat) by auto. rewrite Fa, Fc.
    destruct Ft as [Ft|(Hpc & Et & Ft)].
    + (* top unchanged: the steal log is unchanged too *)
      assert (Es : slog (lstep x u) = slog x).
      { unfold lstep. destruct (pc (thr (base x) u)) eqn:Hpc; try reflexivity.
        destruct (Z.eqb_spec (top (base x)) (t (thr (base x) u))) as [E|E]; [|reflexivity].
        exfalso. unfold step in Ft. rewrite Hpc in Ft. rewrite (proj2 (Z.eqb_eq _ _) E) in Ft. cbn in Ft. lia. }
      rewrite Es, Ft. exact A.
    + (* a successful steal *)
      assert (Es : slog (lstep x u) = slog x ++ [rv (thr (base x) u)]).
      { unfold lstep. rewrite Hpc, (proj2 (Z.eqb_eq _ _) Et). reflexivity. }
      rewrite Es, Ft. rewrite Hpc in LU. destruct LU as (U1 & U2 & U3 & U4). destruct (U4 Et) as (D1 & D2 & D3).
      unfold Ls in D1.
      destruct (pc (thr (base x) 0%nat)) eqn:Hpc0; try exact Logic.I; cbn in D1.
      * destruct L0 as (A1 & A2 & A3 & A4). intros _. exists (slog x). do 2 f_equal. rewrite D3. f_equal. lia.
      * destruct L0 as (A1 & A2 & A3 & A4 & A5). intros _. exists (slog x). do 2 f_equal. rewrite D3. f_equal. lia.
      * destruct L0 as (A1 & A2 & A3 & A4). exfalso. lia.
Qed.

Theorem ireach_ainv l start progs x :
  owner_only progs -> ireach l start progs x -> aclause x.
Proof.
  intros O R. induction R as [|x u R IH].
  - unfold aclause. cbn [base iinit init thr]. unfold idle_thread.
    destruct (next_op_pc (mk Fin 0 0 0 0 0 0 0 (nth 0 progs []) 0)) as [E|[E|[E|E]]]; rewrite E; exact Logic.I.
  - eapply aclause_step; [|exact IH]. apply (ireach_linv l start progs); auto.
Qed.

Lemma pop_abort_history l start progs x :
  owner_only progs -> ireach l start progs x ->
  let s := base x in let T := thr s 0%nat in
  (pc T = OCas -> top s <> t T -> exists sl, slog x = sl ++ [rv T]) /\
  (pc T = OFixL -> exists sl, slog x = sl ++ [get (arrs s (cur s)) (b T)]).
Proof.
  intros O R. cbn zeta. pose proof (ireach_ainv l start progs x O R) as A.
  pose proof (l_inv _ x (ireach_linv l start progs x O R)) as I.
  pose proof (i_loc _ I 0%nat) as L0. unfold local_ok, lok in L0.
  unfold aclause, stolen_last in A. split.
  - intros Hpc E. rewrite Hpc in A, L0. destruct L0 as (A1 & A2 & A3 & A4 & A5). rewrite A5. apply A; auto.
  - intros Hpc. rewrite Hpc in A. exact A.
Qed.

(* helper to discharge owner_only on concrete programs *)
Lemma owner_only_cons p ts : Forall (Forall is_steal) ts -> owner_only (p :: ts).
Proof.
  intros H u Hu. destruct u as [|u]; [congruence|]. cbn [nth].
  destruct (nth_in_or_default u ts []) as [Hin | E]; [|rewrite E; constructor].
  rewrite Forall_forall in H. apply H; auto.
Qed.

Lemma abort_justified_all l start progs x u :
  owner_only progs -> ireach l start progs x ->
  let s := base x in
  (pc (thr s u) = OCas -> top s <> t (thr s u) ->
     top s = (t (thr s u) + 1)%Z /\ bot s = t (thr s u) /\ content s = [] /\ u = 0%nat /\
     exists sl, slog x = sl ++ [rv (thr s u)]) /\
  (pc (thr s u) = OFixL ->
     top s = (t (thr s u) + 1)%Z /\ bot s = t (thr s u) /\ content s = [] /\ u = 0%nat /\
     exists sl, slog x = sl ++ [get (arrs s (cur s)) (b (thr s u))]) /\
  (pc (thr s u) = TCas -> top s <> t (thr s u) -> (t (thr s u) < top s)%Z).
Proof.
  intros O R. cbn zeta.
  pose proof (abort_of_inv (base x) u (l_inv _ x (ireach_linv l start progs x O R))) as (A & B & C).
  pose proof (pop_abort_history l start progs x O R) as (HA & HB). cbn zeta in HA, HB.
  split; [|split; [|exact C]].
  - intros Hpc E. destruct (A Hpc E) as (A1 & A2 & A3 & A4). subst u. repeat split; auto.
  - intros Hpc. destruct (B Hpc) as (A1 & A2 & A3 & A4). subst u. repeat split; auto.
Qed.
