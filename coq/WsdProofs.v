(* Proofs about the Chase-Lev deque model (coq/Wsd.v): an inductive invariant
   over every reachable state, for one owner (thread 0) and any number of
   thieves, any programs, any schedule, any number of growths; then ghost
   logs (pushed / stolen / popped tokens) on an instrumented machine. *)
From Coq Require Import List ZArith Lia Bool Arith Permutation.
From LF Require Import Conc Wsd.
Import ListNotations.

Local Open Scope Z_scope.

(* ------------------------------------------------------------------ *)
(* arithmetic on circular arrays                                        *)
Lemma asize_pos A : 0 < asize A.
Proof. unfold asize. apply Z.pow_pos_nonneg; lia. Qed.

Lemma asize_fresh_S l : asize (fresh (S l)) = 2 * asize (fresh l).
Proof. unfold asize, fresh; cbn [lg]. rewrite Nat2Z.inj_succ, Z.pow_succ_r; lia. Qed.

Lemma asize_lg A B : lg A = lg B -> asize A = asize B.
Proof. unfold asize. intros ->. reflexivity. Qed.

Lemma asize_lg_S A B : lg A = S (lg B) -> asize A = 2 * asize B.
Proof. unfold asize. intros ->. rewrite Nat2Z.inj_succ, Z.pow_succ_r; lia. Qed.

Lemma asize_put A j v : asize (put A j v) = asize A.
Proof. reflexivity. Qed.

Lemma zmod_neq n j k : 0 < n -> j <> k -> -n < j - k < n -> j mod n <> k mod n.
Proof.
  intros Hn Hne Hr He.
  assert (Hj := Z.div_mod j n ltac:(lia)). assert (Hk := Z.div_mod k n ltac:(lia)).
  rewrite He in Hj.
  assert (j - k = n * (j / n - k / n)) by lia.
  assert (j / n - k / n = 0) by nia. lia.
Qed.

Lemma get_put_same A j v : get (put A j v) j = v.
Proof. unfold get, put, slot, updZ, asize; cbn [lg dat]. now rewrite Z.eqb_refl. Qed.

Lemma get_put_other A j k v : j <> k -> - asize A < j - k < asize A -> get (put A k v) j = get A j.
Proof.
  intros Hne Hr. unfold get, put, slot, updZ; cbn [lg dat].
  change (asize {| lg := lg A; dat := fun j0 => if j0 =? k mod asize A then v else dat A j0 |}) with (asize A).
  destruct (Z.eqb_spec (j mod asize A) (k mod asize A)) as [E|E]; [|reflexivity].
  exfalso. revert E. apply zmod_neq; auto. apply asize_pos.
Qed.

(* ------------------------------------------------------------------ *)
(* integer ranges                                                       *)
Definition zrange (lo hi : Z) : list Z := map (fun k => lo + Z.of_nat k) (seq 0 (Z.to_nat (hi - lo))).

Lemma zrange_nil lo hi : hi <= lo -> zrange lo hi = [].
Proof. intros H. unfold zrange. replace (Z.to_nat (hi - lo)) with O by lia. reflexivity. Qed.

Lemma zrange_snoc lo hi : lo <= hi -> zrange lo (hi + 1) = zrange lo hi ++ [hi].
Proof.
  intros H. unfold zrange. replace (Z.to_nat (hi + 1 - lo)) with (S (Z.to_nat (hi - lo))) by lia.
  rewrite seq_S, map_app. cbn. do 2 f_equal. lia.
Qed.

Lemma zrange_cons lo hi : lo < hi -> zrange lo hi = lo :: zrange (lo + 1) hi.
Proof.
  intros H. unfold zrange. replace (Z.to_nat (hi - lo)) with (S (Z.to_nat (hi - (lo + 1)))) by lia.
  cbn [seq map]. f_equal; [lia|]. rewrite <- seq_shift, map_map. apply map_ext. intros k. lia.
Qed.

Lemma in_zrange lo hi j : In j (zrange lo hi) <-> lo <= j < hi.
Proof.
  unfold zrange. rewrite in_map_iff. split.
  - intros [k [E Hk]]. apply in_seq in Hk. lia.
  - intros H. exists (Z.to_nat (j - lo)). split; [lia|]. apply in_seq. lia.
Qed.

Local Close Scope Z_scope.

(* ------------------------------------------------------------------ *)
(* the invariant                                                        *)

(* how the owner's pc shifts the logical bottom: 1 = pop in flight, the
   speculative decrement of bottom is not (yet) a removal; 2 = the pop has
   seen top < bottom and owns element [bottom] without a CAS *)
Definition lkind (p : pcT) : nat :=
  match p with
  | OGetN => 2
  | OTop | OEmp | OGet1 | OCas | OFixW | OFixL => 1
  | _ => 0
  end.
Definition Lc_of (k : nat) (bt : Z) : Z := match k with 0 => bt | _ => (bt + 1)%Z end.
Definition Ls_of (k : nat) (bt : Z) : Z := match k with 1 => (bt + 1)%Z | _ => bt end.
(* content bound: indexes [top, Lc) hold the tokens pushed and not returned *)
Definition Lc (s : st) : Z := Lc_of (lkind (pc (thr s 0))) (bot s).
(* steal bound: a steal's CAS can succeed only on an index < Ls *)
Definition Ls (s : st) : Z := Ls_of (lkind (pc (thr s 0))) (bot s).

Definition thief_pc (p : pcT) : Prop :=
  match p with TTop | TBot | TArr | TGet | TCas | Fin => True | _ => False end.
Definition is_steal (o : op) : Prop := match o with OSteal => True | _ => False end.

(* the discipline: only thread 0 pushes and pops *)
Definition owner_only (progs : list (list op)) : Prop :=
  forall u, u <> 0 -> Forall is_steal (nth u progs []).

Local Open Scope Z_scope.

Definition grow_ok (tp bt : Z) (cu : nat) (ar : nat -> arr) (nar : nat) (T : tst) : Prop :=
  b T = bt /\ t T <= tp /\ a T = cu /\ na T = nar /\ (cu < nar)%nat /\
  lg (ar (na T)) = S (lg (ar cu)) /\ b T - t T <= asize (ar cu) - 1 /\ t T <= i T /\
  (forall j, t T <= j < i T -> get (ar (na T)) j = get (ar cu) j).

Definition lok (tp bt : Z) (cu : nat) (ar : nat -> arr) (nar : nat) (ls : Z) (T : tst) : Prop :=
  match pc T with
  | UBot | OBot | TTop | Fin => True
  | UTop => b T = bt
  | UArr => b T = bt /\ t T <= tp /\ b T - t T <= asize (ar cu) - 1
  | UGRd => grow_ok tp bt cu ar nar T /\ i T < b T
  | UGWr => grow_ok tp bt cu ar nar T /\ i T < b T /\ rv T = get (ar cu) (i T)
  | UGSt => grow_ok tp bt cu ar nar T /\ b T <= i T
  | UPut => b T = bt /\ t T <= tp /\ a T = cu /\ b T - t T <= asize (ar cu) - 2
  | USt => b T = bt /\ t T <= tp /\ a T = cu /\ b T - t T <= asize (ar cu) - 2 /\ get (ar cu) (b T) = arg T
  | OArr => b T = bt - 1
  | OSt => b T = bt - 1 /\ a T = cu
  | OTop => b T = bt /\ a T = cu
  | OEmp => b T = bt /\ t T = b T + 1 /\ tp = t T /\ ls = t T
  | OGetN => b T = bt /\ a T = cu /\ t T < b T
  | OGet1 => b T = bt /\ a T = cu /\ t T = b T /\ t T <= tp
  | OCas => b T = bt /\ a T = cu /\ t T = b T /\ t T <= tp /\ rv T = get (ar cu) (b T)
  | OFixW | OFixL => b T = bt /\ t T = b T /\ tp = t T + 1 /\ ls = t T + 1
  | TBot => t T <= tp
  | TArr => t T <= tp /\ (tp = t T -> t T < b T -> t T < ls)
  | TGet => t T <= tp /\ t T < b T /\ (a T <= cu)%nat /\
            (tp = t T -> t T < ls /\ get (ar (a T)) (t T) = get (ar cu) (t T))
  | TCas => t T <= tp /\ t T < b T /\ (a T <= cu)%nat /\
            (tp = t T -> t T < ls /\ get (ar (a T)) (t T) = get (ar cu) (t T) /\ rv T = get (ar cu) (t T))
  end.

Definition local_ok (s : st) (T : tst) : Prop :=
  lok (top s) (bot s) (cur s) (arrs s) (narr s) (Ls s) T.

Record Inv (s : st) : Prop := {
  i_thief : forall u, u <> 0%nat -> thief_pc (pc (thr s u)) /\ Forall is_steal (prog (thr s u));
  i_top : top s <= Ls s;
  i_cap : Lc s - top s <= asize (arrs s (cur s)) - 1;
  i_cur : (cur s <= narr s)%nat;
  i_loc : forall u, local_ok s (thr s u)
}.

Lemma Ls_le_Lc k bt : Ls_of k bt <= Lc_of k bt.
Proof. destruct k as [|[|[|k]]]; cbn; lia. Qed.
Lemma bt_le_Ls k bt : bt <= Ls_of k bt.
Proof. destruct k as [|[|[|k]]]; cbn; lia. Qed.

(* ---- frame lemmas for the other threads' local clauses ---- *)

(* top advances by a successful CAS on an index below the steal bound *)
Lemma lok_top_inc tp bt cu ar nar ls T :
  tp < ls -> lok tp bt cu ar nar ls T -> lok (tp + 1) bt cu ar nar ls T.
Proof.
  intros H. unfold lok, grow_ok. destruct (pc T); try tauto; intuition lia.
Qed.

(* a thief's clause mentions only top, the steal bound, its own (frozen or
   current) array and the current array *)
Lemma lok_thief_frame tp bt bt' cu ar ar' nar nar' ls ls' T :
  thief_pc (pc T) -> (ls <= ls' \/ tp < ls') ->
  (forall k, (k <= cu)%nat -> ar' k = ar k) ->
  lok tp bt cu ar nar ls T -> lok tp bt' cu ar' nar' ls' T.
Proof.
  intros Hp Hl Ha. unfold lok. destruct (pc T); try tauto; cbn in Hp; try contradiction.
  - intros (A & B). split; auto. intros E1 E2. specialize (B E1 E2). lia.
  - intros (A & B & C & D). repeat split; auto; specialize (D H); destruct D as [D1 D2]; [lia|].
    rewrite !Ha by lia. exact D2.
  - intros (A & B & C & D). repeat split; auto; specialize (D H); destruct D as (D1 & D2 & D3); [lia| |].
    + rewrite !Ha by lia. exact D2.
    + rewrite !Ha by lia. exact D3.
Qed.

Lemma next_op_lkind T : lkind (pc (next_op T)) = 0%nat.
Proof. unfold next_op. destruct (prog T) as [|[v| |] r]; reflexivity. Qed.

Lemma next_op_lok tp bt cu ar nar ls T : lok tp bt cu ar nar ls (next_op T).
Proof. unfold next_op, lok. destruct (prog T) as [|[v| |] r]; cbn; auto. Qed.

Lemma next_op_thief T :
  Forall is_steal (prog T) -> thief_pc (pc (next_op T)) /\ Forall is_steal (prog (next_op T)).
Proof.
  intros H. unfold next_op. destruct (prog T) as [|[v| |] r]; cbn; auto; inversion H; subst; cbn in *; try contradiction.
  auto.
Qed.

Lemma thief_lkind p : thief_pc p -> lkind p = 0%nat.
Proof. destruct p; cbn; tauto. Qed.

Lemma init_inv l start progs : owner_only progs -> Inv (init l start progs).
Proof.
  intros O.
  assert (K : lkind (pc (thr (init l start progs) 0)) = 0%nat) by (cbn; unfold idle_thread; apply next_op_lkind).
  constructor; unfold Ls, Lc; rewrite ?K; cbn [top bot cur arrs narr thr init Ls_of Lc_of].
  - intros u Hu. unfold idle_thread. apply next_op_thief. cbn. apply O; auto.
  - lia.
  - pose proof (asize_pos (fresh l)). lia.
  - lia.
  - intros u. unfold local_ok, idle_thread. apply next_op_lok.
Qed.

(* generic re-establishment of the invariant after thread u's step *)
Lemma inv_update s s' u x :
  Inv s ->
  thr s' = upd (thr s) u x ->
  (u <> 0%nat -> thief_pc (pc x) /\ Forall is_steal (prog x)) ->
  top s' <= Ls s' -> Lc s' - top s' <= asize (arrs s' (cur s')) - 1 -> (cur s' <= narr s')%nat ->
  local_ok s' x ->
  (forall v, v <> u -> local_ok s (thr s v) -> local_ok s' (thr s v)) ->
  Inv s'.
Proof.
  intros I E Hx H1 H2 H3 Lx Lo. constructor; auto.
  - intros v Hv. rewrite E. destruct (Nat.eq_dec v u) as [->|Hne].
    + rewrite upd_same. apply Hx; auto.
    + rewrite upd_other by assumption. apply (i_thief s I); auto.
  - intros v. rewrite E. destruct (Nat.eq_dec v u) as [->|Hne].
    + rewrite upd_same. exact Lx.
    + rewrite upd_other by assumption. apply Lo; auto. apply (i_loc s I).
Qed.

Lemma pc0_upd s u x : lkind (pc x) = lkind (pc (thr s u)) ->
  lkind (pc (upd (thr s) u x 0%nat)) = lkind (pc (thr s 0%nat)).
Proof.
  intros H. destruct (Nat.eq_dec 0%nat u) as [<-|Hne].
  - rewrite upd_same. exact H.
  - rewrite upd_other by assumption. reflexivity.
Qed.

(* a step that only changes thread u's private state and does not move the
   owner between the three bottom regimes *)
Lemma local_step s u x :
  Inv s -> lkind (pc x) = lkind (pc (thr s u)) ->
  (u <> 0%nat -> thief_pc (pc x) /\ Forall is_steal (prog x)) ->
  local_ok s x -> Inv (set_thr s u x).
Proof.
  intros I K Hx L.
  assert (ELs : Ls (set_thr s u x) = Ls s) by (unfold Ls; cbn [thr bot set_thr]; rewrite pc0_upd; auto).
  assert (ELc : Lc (set_thr s u x) = Lc s) by (unfold Lc; cbn [thr bot set_thr]; rewrite pc0_upd; auto).
  apply (inv_update s _ u x I); try reflexivity; auto.
  - rewrite ELs. apply (i_top s I).
  - rewrite ELc. apply (i_cap s I).
  - apply (i_cur s I).
  - unfold local_ok. rewrite ELs. exact L.
  - intros v _ Lv. unfold local_ok. rewrite ELs. exact Lv.
Qed.

Lemma owner_is_0 s u : Inv s -> ~ thief_pc (pc (thr s u)) -> u = 0%nat.
Proof.
  intros I H. destruct (Nat.eq_dec u 0); auto. exfalso. apply H. apply (i_thief s I); auto.
Qed.

Lemma steals_of s u : Inv s -> u <> 0%nat -> Forall is_steal (prog (thr s u)).
Proof. intros I H. apply (i_thief s I); auto. Qed.

Lemma next_op_hx s u : Inv s ->
  u <> 0%nat -> thief_pc (pc (next_op (thr s u))) /\ Forall is_steal (prog (next_op (thr s u))).
Proof. intros I H. apply next_op_thief. apply steals_of; auto. Qed.

(* owner steps that keep top and cur: every other thread is a thief *)
Lemma others_thief s s' :
  Inv s -> top s' = top s -> cur s' = cur s -> (Ls s <= Ls s' \/ top s < Ls s') ->
  (forall k, (k <= cur s)%nat -> arrs s' k = arrs s k) ->
  forall v, v <> 0%nat -> local_ok s (thr s v) -> local_ok s' (thr s v).
Proof.
  intros I Et Ec Hl Ha v Hv Lv. unfold local_ok in *. rewrite Et, Ec.
  eapply lok_thief_frame; eauto. apply (i_thief s I v Hv).
Qed.

Ltac owner0 I HT Hpc u :=
  let U0 := fresh "U0" in
  assert (U0 : u = 0%nat) by (apply (owner_is_0 _ u I); rewrite <- HT, Hpc; cbn; tauto); subst u.

Ltac hx0 := let H := fresh in intros H; now destruct H.

Ltac priv I HT Hpc :=
  apply local_step;
  [ exact I
  | rewrite <- HT, Hpc; reflexivity
  | first [ hx0 | let Hu := fresh in intros Hu; split; [exact Logic.I | cbn [prog mk with_pc]; rewrite HT; apply steals_of; auto] ]
  | unfold local_ok, lok; cbn [pc b t a na i arg rv mk with_pc] ].

Ltac ls_new K0 :=
  unfold Ls, Lc; cbn [thr bot top cur arrs narr set_thr]; rewrite ?upd_same, ?next_op_lkind, ?K0;
  cbn [pc mk with_pc lkind Ls_of Lc_of].

Theorem step_inv s u : Inv s -> Inv (fst (step s u)).
Proof.
  intros I. unfold step. remember (thr s u) as T eqn:HT.
  assert (LT := i_loc s I u). rewrite <- HT in LT. unfold local_ok, lok in LT.
  pose proof (i_top s I) as Itop. pose proof (i_cap s I) as Icap. pose proof (i_cur s I) as Icur.
  destruct (pc T) eqn:Hpc; cbn [fst].
  - (* UBot *) owner0 I HT Hpc u. priv I HT Hpc. reflexivity.
  - (* UTop *) owner0 I HT Hpc u.
    assert (K0 : lkind (pc (thr s 0)) = 0%nat) by (rewrite <- HT, Hpc; reflexivity).
    unfold Ls, Lc in Itop, Icap. rewrite K0 in Itop, Icap. cbn in Itop, Icap.
    priv I HT Hpc. repeat split; lia.
  - (* UArr *) owner0 I HT Hpc u.
    assert (K0 : lkind (pc (thr s 0)) = 0%nat) by (rewrite <- HT, Hpc; reflexivity).
    destruct LT as (L1 & L2 & L3).
    rewrite Z.geb_leb. destruct (Z.leb_spec (asize (arrs s (cur s)) - 1) (b T - t T)) as [G|G]; cbn [fst].
    + (* grow *)
      remember (S (narr s)) as n eqn:Hn.
      set (x := mk (if (t T <? b T)%Z then UGRd else UGSt) (b T) (t T) (cur s) n (t T) (arg T) (rv T) (prog T) (opi T)).
      assert (Kx : lkind (pc x) = 0%nat) by (unfold x; destruct (t T <? b T)%Z; reflexivity).
      assert (En : forall k, (k <= cur s)%nat -> upd (arrs s) n (fresh (S (lg (arrs s (cur s))))) k = arrs s k)
        by (intros k Hk; apply upd_other; lia).
      eapply (inv_update s _ 0%nat x I); [reflexivity | hx0 | | | | | ].
      * unfold Ls; cbn [thr bot top]; rewrite upd_same, Kx. unfold Ls in Itop; rewrite K0 in Itop. exact Itop.
      * unfold Lc; cbn [thr bot top cur arrs]; rewrite upd_same, Kx, En by lia.
        unfold Lc in Icap; rewrite K0 in Icap. exact Icap.
      * cbn [cur narr]. lia.
      * unfold local_ok, lok, x. cbn [top bot cur arrs narr].
        assert (G1 : grow_ok (top s) (bot s) (cur s) (upd (arrs s) n (fresh (S (lg (arrs s (cur s)))))) n
                     (mk UGRd (b T) (t T) (cur s) n (t T) (arg T) (rv T) (prog T) (opi T))).
        { unfold grow_ok; cbn [b t a na i mk]. rewrite (En (cur s)) by lia. rewrite upd_same. cbn [lg fresh].
          repeat split; auto; try lia; try (intros; lia). }
        destruct (Z.ltb_spec (t T) (b T)); cbn [pc mk]; (split; [exact G1 | cbn [b i mk]; lia]).
      * apply others_thief; auto. left. unfold Ls; cbn [thr bot]; rewrite upd_same, Kx, K0. lia.
    + priv I HT Hpc. repeat split; auto; lia.
  - (* UGRd *) owner0 I HT Hpc u. destruct LT as (G & L1).
    priv I HT Hpc. split; [exact G|]. split; [exact L1|]. destruct G as (_ & _ & -> & _). reflexivity.
  - (* UGWr *) owner0 I HT Hpc u.
    assert (K0 : lkind (pc (thr s 0)) = 0%nat) by (rewrite <- HT, Hpc; reflexivity).
    destruct LT as (G & L1 & L2). destruct G as (G1 & G2 & G3 & G4 & G5 & G6 & G7 & G8 & G9).
    set (N := arrs s (na T)) in *.
    set (x := mk (if (i T + 1 <? b T)%Z then UGRd else UGSt) (b T) (t T) (a T) (na T) (i T + 1) (arg T) (rv T) (prog T) (opi T)).
    assert (Kx : lkind (pc x) = 0%nat) by (unfold x; destruct (i T + 1 <? b T)%Z; reflexivity).
    assert (En : forall k, (k <= cur s)%nat -> upd (arrs s) (na T) (put N (i T) (rv T)) k = arrs s k)
      by (intros k Hk; apply upd_other; lia).
    eapply (inv_update s _ 0%nat x I); [reflexivity | hx0 | | | | | ].
    * unfold Ls; cbn [thr bot top]; rewrite upd_same, Kx. unfold Ls in Itop; rewrite K0 in Itop. exact Itop.
    * unfold Lc; cbn [thr bot top cur arrs]; rewrite upd_same, Kx, En by lia.
      unfold Lc in Icap; rewrite K0 in Icap. exact Icap.
    * cbn [cur narr]. lia.
    * unfold local_ok, lok, x. cbn [top bot cur arrs narr].
      assert (SZ : asize N = 2 * asize (arrs s (cur s))) by (apply asize_lg_S; exact G6).
      pose proof (asize_pos (arrs s (cur s))) as P.
      assert (GG : grow_ok (top s) (bot s) (cur s) (upd (arrs s) (na T) (put N (i T) (rv T))) (narr s)
                   (mk UGRd (b T) (t T) (a T) (na T) (i T + 1) (arg T) (rv T) (prog T) (opi T))).
      { unfold grow_ok; cbn [b t a na i mk]. rewrite (En (cur s)) by lia. rewrite upd_same.
        repeat split; auto; try lia. intros j Hj.
        destruct (Z.eq_dec j (i T)) as [->|Hne].
        - rewrite get_put_same. exact L2.
        - rewrite get_put_other by (auto; lia). apply G9. lia. }
      destruct (Z.ltb_spec (i T + 1) (b T)); cbn [pc mk]; (split; [exact GG | cbn [b i mk]; lia]).
    * apply others_thief; auto. left. unfold Ls; cbn [thr bot]; rewrite upd_same, Kx, K0. lia.
  - (* UGSt *) owner0 I HT Hpc u.
    assert (K0 : lkind (pc (thr s 0)) = 0%nat) by (rewrite <- HT, Hpc; reflexivity).
    destruct LT as (G & L1). destruct G as (G1 & G2 & G3 & G4 & G5 & G6 & G7 & G8 & G9).
    assert (SZ : asize (arrs s (na T)) = 2 * asize (arrs s (cur s))) by (apply asize_lg_S; exact G6).
    pose proof (asize_pos (arrs s (cur s))) as P.
    unfold Ls in Itop; rewrite K0 in Itop. unfold Lc in Icap; rewrite K0 in Icap. cbn in Itop, Icap.
    eapply (inv_update s _ 0%nat _ I); [reflexivity | hx0 | | | | | ].
    * ls_new K0. exact Itop.
    * ls_new K0. lia.
    * cbn [cur narr]. lia.
    * unfold local_ok, lok. cbn [top bot cur arrs narr pc b t a mk]. repeat split; auto; lia.
    * intros v Hv Lv. unfold local_ok in *. cbn [top bot cur arrs narr].
      assert (ELs : Ls {| top := top s; bot := bot s; cur := na T; arrs := arrs s; narr := narr s;
                          thr := upd (thr s) 0%nat (mk UPut (b T) (t T) (na T) (na T) (i T) (arg T) (rv T) (prog T) (opi T));
                          nthr := nthr s |} = Ls s) by (ls_new K0; reflexivity).
      rewrite ELs. assert (LsB : Ls s = bot s) by (unfold Ls; rewrite K0; reflexivity).
      pose proof (proj1 (i_thief s I v Hv)) as Hp. unfold lok in *.
      destruct (pc (thr s v)); cbn in Hp; try contradiction; auto.
      -- destruct Lv as (A & B & C & D). repeat split; auto; try lia; destruct (D H) as [D1 D2]; auto.
         rewrite D2. symmetry. apply G9. lia.
      -- destruct Lv as (A & B & C & D). repeat split; auto; try lia; destruct (D H) as (D1 & D2 & D3); auto.
         ++ rewrite D2. symmetry. apply G9. lia.
         ++ rewrite D3. symmetry. apply G9. lia.
  - (* UPut *) owner0 I HT Hpc u.
    assert (K0 : lkind (pc (thr s 0)) = 0%nat) by (rewrite <- HT, Hpc; reflexivity).
    destruct LT as (L1 & L2 & L3 & L4). rewrite L3 in *.
    set (A := arrs s (cur s)) in *.
    unfold Ls in Itop; rewrite K0 in Itop. unfold Lc in Icap; rewrite K0 in Icap. cbn in Itop, Icap.
    eapply (inv_update s _ 0%nat _ I); [reflexivity | hx0 | | | | | ].
    * ls_new K0. exact Itop.
    * ls_new K0. rewrite asize_put. exact Icap.
    * cbn [cur narr]. lia.
    * unfold local_ok, lok. cbn [top bot cur arrs narr pc b t a arg mk with_pc]. rewrite upd_same, asize_put.
      repeat split; auto. apply get_put_same.
    * intros v Hv Lv. unfold local_ok in *. cbn [top bot cur arrs narr].
      assert (ELs : Ls {| top := top s; bot := bot s; cur := cur s; arrs := upd (arrs s) (cur s) (put A (b T) (arg T));
                          narr := narr s; thr := upd (thr s) 0%nat (with_pc T USt); nthr := nthr s |} = Ls s)
        by (ls_new K0; reflexivity).
      rewrite ELs. assert (LsB : Ls s = bot s) by (unfold Ls; rewrite K0; reflexivity).
      pose proof (proj1 (i_thief s I v Hv)) as Hp. unfold lok in *.
      assert (GP : forall j, top s <= j < bot s -> get (put A (b T) (arg T)) j = get A j)
        by (intros j Hj; apply get_put_other; lia).
      destruct (pc (thr s v)); cbn in Hp; try contradiction; auto.
      -- destruct Lv as (A1 & B1 & C1 & D). repeat split; auto; try lia; destruct (D H) as [D1 D2]; auto.
         rewrite upd_same. destruct (Nat.eq_dec (a (thr s v)) (cur s)) as [->|Hne].
         ++ rewrite upd_same. reflexivity.
         ++ rewrite upd_other by assumption. rewrite GP by lia. exact D2.
      -- destruct Lv as (A1 & B1 & C1 & D). repeat split; auto; try lia; destruct (D H) as (D1 & D2 & D3); auto.
         ++ rewrite upd_same. destruct (Nat.eq_dec (a (thr s v)) (cur s)) as [->|Hne].
            ** rewrite upd_same. reflexivity.
            ** rewrite upd_other by assumption. rewrite GP by lia. exact D2.
         ++ rewrite upd_same. rewrite GP by lia. exact D3.
  - (* USt *) owner0 I HT Hpc u.
    assert (K0 : lkind (pc (thr s 0)) = 0%nat) by (rewrite <- HT, Hpc; reflexivity).
    destruct LT as (L1 & L2 & L3 & L4 & L5).
    unfold Ls in Itop; rewrite K0 in Itop. unfold Lc in Icap; rewrite K0 in Icap. cbn in Itop, Icap.
    eapply (inv_update s _ 0%nat _ I); [reflexivity | hx0 | | | | | ].
    * ls_new K0. lia.
    * ls_new K0. lia.
    * cbn [cur narr]. lia.
    * apply next_op_lok.
    * apply others_thief; auto. left. ls_new K0. lia.
  - (* OBot *) owner0 I HT Hpc u. priv I HT Hpc. lia.
  - (* OArr *) owner0 I HT Hpc u. priv I HT Hpc. split; [exact LT|reflexivity].
  - (* OSt *) owner0 I HT Hpc u.
    assert (K0 : lkind (pc (thr s 0)) = 0%nat) by (rewrite <- HT, Hpc; reflexivity).
    destruct LT as (L1 & L2).
    unfold Ls in Itop; rewrite K0 in Itop. unfold Lc in Icap; rewrite K0 in Icap. cbn in Itop, Icap.
    eapply (inv_update s _ 0%nat _ I); [reflexivity | hx0 | | | | | ].
    * ls_new K0. lia.
    * ls_new K0. lia.
    * cbn [cur narr]. lia.
    * unfold local_ok, lok. cbn [top bot cur arrs narr pc b t a mk with_pc]. auto.
    * apply others_thief; auto. left. ls_new K0. lia.
  - (* OTop *) owner0 I HT Hpc u.
    assert (K0 : lkind (pc (thr s 0)) = 1%nat) by (rewrite <- HT, Hpc; reflexivity).
    destruct LT as (L1 & L2).
    unfold Ls in Itop; rewrite K0 in Itop. unfold Lc in Icap; rewrite K0 in Icap. cbn in Itop, Icap.
    set (p := if (b T - top s <? 0)%Z then OEmp else if (0 <? b T - top s)%Z then OGetN else OGet1).
    eapply (inv_update s _ 0%nat (mk p (b T) (top s) (a T) (na T) (i T) (arg T) (rv T) (prog T) (opi T)) I);
      [reflexivity | hx0 | | | | | ].
    * unfold Ls; cbn [thr bot top set_thr]; rewrite upd_same; cbn [pc mk]. unfold p.
      destruct (Z.ltb_spec (b T - top s) 0); [cbn; lia|]. destruct (Z.ltb_spec 0 (b T - top s)); cbn; lia.
    * unfold Lc; cbn [thr bot top cur arrs set_thr]; rewrite upd_same; cbn [pc mk]. unfold p.
      destruct (Z.ltb_spec (b T - top s) 0); [cbn; lia|]. destruct (Z.ltb_spec 0 (b T - top s)); cbn; lia.
    * cbn [cur narr set_thr]. lia.
    * unfold local_ok, lok, Ls. cbn [top bot cur arrs narr pc b t a mk thr set_thr]. rewrite upd_same; cbn [pc mk]. unfold p.
      destruct (Z.ltb_spec (b T - top s) 0); [cbn; repeat split; auto; lia|].
      destruct (Z.ltb_spec 0 (b T - top s)); cbn; repeat split; auto; lia.
    * apply others_thief; auto. unfold Ls; cbn [thr bot top set_thr]; rewrite upd_same, K0; cbn [pc mk]. unfold p.
      destruct (Z.ltb_spec (b T - top s) 0); [cbn; lia|]. destruct (Z.ltb_spec 0 (b T - top s)); cbn; lia.
  - (* OEmp *) owner0 I HT Hpc u.
    assert (K0 : lkind (pc (thr s 0)) = 1%nat) by (rewrite <- HT, Hpc; reflexivity).
    destruct LT as (L1 & L2 & L3 & L4).
    unfold Ls in Itop; rewrite K0 in Itop. unfold Lc in Icap; rewrite K0 in Icap. cbn in Itop, Icap.
    eapply (inv_update s _ 0%nat _ I); [reflexivity | hx0 | | | | | ].
    * ls_new K0. lia.
    * ls_new K0. lia.
    * cbn [cur narr]. lia.
    * apply next_op_lok.
    * apply others_thief; auto. left. ls_new K0. lia.
  - (* OGetN *) owner0 I HT Hpc u.
    assert (K0 : lkind (pc (thr s 0)) = 2%nat) by (rewrite <- HT, Hpc; reflexivity).
    destruct LT as (L1 & L2 & L3).
    unfold Ls in Itop; rewrite K0 in Itop. unfold Lc in Icap; rewrite K0 in Icap. cbn in Itop, Icap.
    eapply (inv_update s _ 0%nat _ I); [reflexivity | hx0 | | | | | ].
    * ls_new K0. lia.
    * ls_new K0. lia.
    * cbn [cur narr set_thr]. lia.
    * apply next_op_lok.
    * apply others_thief; auto. left. ls_new K0. lia.
  - (* OGet1 *) owner0 I HT Hpc u. destruct LT as (L1 & L2 & L3 & L4). priv I HT Hpc.
    repeat split; auto. rewrite L2. reflexivity.
  - (* OCas *) owner0 I HT Hpc u.
    assert (K0 : lkind (pc (thr s 0)) = 1%nat) by (rewrite <- HT, Hpc; reflexivity).
    destruct LT as (L1 & L2 & L3 & L4 & L5).
    unfold Ls in Itop; rewrite K0 in Itop. unfold Lc in Icap; rewrite K0 in Icap. cbn in Itop, Icap.
    destruct (Z.eqb_spec (top s) (t T)) as [E|E]; cbn [fst].
    + eapply (inv_update s _ 0%nat _ I); [reflexivity | hx0 | | | | | ].
      * ls_new K0. lia.
      * ls_new K0. lia.
      * cbn [cur narr]. lia.
      * unfold local_ok, lok. ls_new K0. cbn [top bot cur arrs narr pc b t a mk with_pc]. repeat split; auto; lia.
      * intros v Hv Lv. unfold local_ok in *. cbn [top bot cur arrs narr].
        assert (ELs : Ls {| top := t T + 1; bot := bot s; cur := cur s; arrs := arrs s; narr := narr s;
                            thr := upd (thr s) 0%nat (with_pc T OFixW); nthr := nthr s |} = Ls s)
          by (ls_new K0; reflexivity).
        rewrite ELs, <- E. apply lok_top_inc; auto. unfold Ls; rewrite K0; cbn. lia.
    + priv I HT Hpc. unfold Ls; rewrite K0; cbn. repeat split; auto; lia.
  - (* OFixW *) owner0 I HT Hpc u.
    assert (K0 : lkind (pc (thr s 0)) = 1%nat) by (rewrite <- HT, Hpc; reflexivity).
    destruct LT as (L1 & L2 & L3 & L4).
    unfold Ls in Itop; rewrite K0 in Itop. unfold Lc in Icap; rewrite K0 in Icap. cbn in Itop, Icap.
    eapply (inv_update s _ 0%nat _ I); [reflexivity | hx0 | | | | | ].
    * ls_new K0. lia.
    * ls_new K0. lia.
    * cbn [cur narr]. lia.
    * apply next_op_lok.
    * apply others_thief; auto. left. ls_new K0. lia.
  - (* OFixL *) owner0 I HT Hpc u.
    assert (K0 : lkind (pc (thr s 0)) = 1%nat) by (rewrite <- HT, Hpc; reflexivity).
    destruct LT as (L1 & L2 & L3 & L4).
    unfold Ls in Itop; rewrite K0 in Itop. unfold Lc in Icap; rewrite K0 in Icap. cbn in Itop, Icap.
    eapply (inv_update s _ 0%nat _ I); [reflexivity | hx0 | | | | | ].
    * ls_new K0. lia.
    * ls_new K0. lia.
    * cbn [cur narr]. lia.
    * apply next_op_lok.
    * apply others_thief; auto. left. ls_new K0. lia.
  - (* TTop *) priv I HT Hpc. lia.
  - (* TBot *) priv I HT Hpc. split; [exact LT|]. intros E1 E2. pose proof (bt_le_Ls (lkind (pc (thr s 0))) (bot s)). unfold Ls. lia.
  - (* TArr *) destruct LT as (L1 & L2).
    destruct (Z.leb_spec (b T - t T) 0); cbn [fst].
    + apply local_step; auto.
      * rewrite next_op_lkind, <- HT, Hpc. reflexivity.
      * intros Hu. rewrite HT. apply next_op_hx; auto.
      * apply next_op_lok.
    + priv I HT Hpc. repeat split; auto; try lia; try (apply L2; auto; lia).
  - (* TGet *) destruct LT as (L1 & L2 & L3 & L4). priv I HT Hpc.
    repeat split; auto; try (apply L4; auto). destruct (L4 H) as [_ D]. exact D.
  - (* TCas *) destruct LT as (L1 & L2 & L3 & L4).
    destruct (Z.eqb_spec (top s) (t T)) as [E|E]; cbn [fst].
    + destruct (L4 E) as (D1 & D2 & D3).
      assert (K : lkind (pc (upd (thr s) u (next_op T) 0%nat)) = lkind (pc (thr s 0%nat)))
        by (apply pc0_upd; rewrite next_op_lkind, <- HT, Hpc; reflexivity).
      eapply (inv_update s _ u _ I); [reflexivity | | | | | | ].
      * intros Hu. rewrite HT. apply next_op_hx; auto.
      * unfold Ls; cbn [thr bot top]. rewrite K. fold (Ls s). lia.
      * unfold Lc; cbn [thr bot top cur arrs]. rewrite K. fold (Lc s). lia.
      * cbn [cur narr]. lia.
      * apply next_op_lok.
      * intros v Hv Lv. unfold local_ok in *. cbn [top bot cur arrs narr].
        assert (ELs : Ls {| top := t T + 1; bot := bot s; cur := cur s; arrs := arrs s; narr := narr s;
                            thr := upd (thr s) u (next_op T); nthr := nthr s |} = Ls s)
          by (unfold Ls; cbn [thr bot]; rewrite K; reflexivity).
        rewrite ELs, <- E. apply lok_top_inc; auto. lia.
    + apply local_step; auto.
      * rewrite next_op_lkind, <- HT, Hpc. reflexivity.
      * intros Hu. rewrite HT. apply next_op_hx; auto.
      * apply next_op_lok.
  - (* Fin *) exact I.
Qed.
