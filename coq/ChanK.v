(* C11: client of T1K for include/fiber_signal.h (single-waiter signal) and
   include/fiber_channel.h (unbounded MPSC channel, bounded channel), as they
   run on the T1 machine.  One client type for the three header-only
   primitives, because the channels call the signal: the models Signal.v,
   UChan.v, BChan.v are this machine with their own program decoders, and the
   invariants of ChanKProofs.v are proved once, for arbitrary programs.
   Harnesses: rt/h_signal.c, rt/h_uchan.c, rt/h_bchan.c.

   Client cells (trace loc = 500 + cell), chosen so that the three unbounded
   families never collide:
     3        signal.waiter        (0 = NO_WAITER, -1 = RAISED, 1000+t = fiber t)
     7, 11    unbounded channel: queue.head, queue.tail (node ids; node 1 = stub)
     15, 19   bounded channel: high, low
     4t+2     fiber t's scratch field      (-1 = READY_TO_WAKE)
     4i+1     bounded channel buffer[i]
     8n, 8n+4 mpsc node n: data, next      (n >= 1)

   fiber_signal_wait:
     scratch := NULL (plain); CAS(waiter, NO_WAITER -> self) release;
     on success { state := WAITING; set_wait_location/value := &scratch/-1
                  (silent); yield  [maintenance: scratch := -1; sleep];
                  scratch := NULL }
     waiter := NO_WAITER  (seq_cst store)
   fiber_signal_raise:
     old := xchg(waiter, RAISED) release;
     if old is a fiber { waiter := NO_WAITER (seq_cst store);
                         while (old->scratch != -1) ;   (one plain read per turn)
                         old->state := READY; schedule(old); return 1 }
     return 0
   unbounded send(n):  [harness: n->data := v]  n->next := NULL;
     prev := xchg(tail, n) release; prev->next := n;  raise
   unbounded receive:  loop { hd := head; hn := hd->next;
     if hn { head := hn; d := hn->data; hd->data := d; return hd [harness reads hd->data] }
     wait }                                  (try_receive: one turn, NULL -> 0)
   bounded send(v):  loop { lo := load_acq(low); hi := load_acq(high); b := buffer[hi mod size];
     if (!b && hi - lo < size && CAS(high, hi -> hi+1) release) { buffer[hi mod size] := v; raise }
     else fiber_yield }
   bounded receive:  loop { hi := load_acq(high); lo := load_acq(low); m := buffer[lo mod size];
     if (m && hi > lo) { buffer[lo mod size] := 0; store_rel(low, lo+1); return m }
     wait }                                  (try_receive: one turn, nothing -> 0)      *)
From Coq Require Import List ZArith Lia Bool Arith.
From LF Require Import Conc T1K.
Import ListNotations.
Local Open Scope Z_scope.

Definition c_waiter : nat := 3.
Definition c_head : nat := 7.
Definition c_tail : nat := 11.
Definition c_high : nat := 15.
Definition c_low : nat := 19.
Definition c_scr (t : nat) : nat := (4 * t + 2)%nat.
Definition c_buf (i : nat) : nat := (4 * i + 1)%nat.
Definition c_dat (n : nat) : nat := (8 * n)%nat.
Definition c_nxt (n : nat) : nat := (8 * n + 4)%nat.

Definition NO_WAITER := 0.
Definition RAISED := -1.
Definition READY_TO_WAKE := -1.

Inductive cop :=
| OWait | ORaise
| OUSend (n : nat) (v : Z) | OURecv | OUTry
| OBSend (v : Z) | OBRecv | OBTry.

(* who called fiber_signal_wait *)
Inductive wk := WKRet | WKURecv | WKBRecv.

(* client continuation frames; p = rest of the program, k = index (from 1) of the current call *)
Inductive cc :=
| KNext (p : list cop) (k : nat)
(* fiber_signal_wait *)
| KWClr (a : wk) (p : list cop) (k : nat)          (* scratch cleared: CAS next *)
| KWCas (a : wk) (p : list cop) (k : nat)          (* the CAS returned *)
| KWSlept (a : wk) (p : list cop) (k : nat)        (* the yield returned: we were woken *)
| KWClr2 (a : wk) (p : list cop) (k : nat)         (* scratch cleared after waking *)
| KWEnd (a : wk) (p : list cop) (k : nat)          (* waiter := NO_WAITER done *)
(* fiber_signal_raise *)
| KRX (p : list cop) (k : nat)                     (* the exchange returned the old word *)
| KRSt (f : nat) (p : list cop) (k : nat)          (* waiter := NO_WAITER done: spin *)
| KRSpin (f : nat) (p : list cop) (k : nat)        (* one read of f's scratch returned *)
| KRRdy (f : nat) (p : list cop) (k : nat)         (* f->state := READY done: schedule f *)
(* unbounded send *)
| KUData (n : nat) (p : list cop) (k : nat)
| KUNull (n : nat) (p : list cop) (k : nat)
| KUXchg (n : nat) (p : list cop) (k : nat)
| KULink (p : list cop) (k : nat)
(* unbounded receive (blk = true) / try_receive (blk = false) *)
| KUHead (blk : bool) (p : list cop) (k : nat)
| KUNxt (blk : bool) (hd : nat) (p : list cop) (k : nat)
| KUSetHead (hd hn : nat) (p : list cop) (k : nat)
| KURead (hd : nat) (p : list cop) (k : nat)
| KUWrite (hd : nat) (p : list cop) (k : nat)
| KUUse (p : list cop) (k : nat)
(* bounded send *)
| KBLow (v : Z) (p : list cop) (k : nat)
| KBHigh (v lo : Z) (p : list cop) (k : nat)
| KBSlot (v lo hi : Z) (p : list cop) (k : nat)
| KBCas (v hi : Z) (p : list cop) (k : nat)
| KBWrite (p : list cop) (k : nat)
| KBYield (v : Z) (p : list cop) (k : nat)
(* bounded receive / try_receive *)
| KQHigh (blk : bool) (p : list cop) (k : nat)
| KQLow (blk : bool) (hi : Z) (p : list cop) (k : nat)
| KQSlot (blk : bool) (hi lo : Z) (p : list cop) (k : nat)
| KQClear (m lo : Z) (p : list cop) (k : nat)
| KQStore (m : Z) (p : list cop) (k : nat).

Definition retev (t k : nat) (v : Z) : list Z := [Zn t; Zn k; 909; v].

Definition wait_start (t : nat) (a : wk) (p : list cop) (k : nat) : stack cc :=
  [CWrite (c_scr t) 0; FC (KWClr a p k)].
Definition raise_start (p : list cop) (k : nat) : stack cc :=
  [CXchgC c_waiter RAISED 3; FC (KRX p k)].
Definition urecv_start (blk : bool) (p : list cop) (k : nat) : stack cc :=
  [CRead c_head; FC (KUHead blk p k)].
Definition bsend_start (v : Z) (p : list cop) (k : nat) : stack cc :=
  [CLoadC c_low 2; FC (KBLow v p k)].
Definition brecv_start (blk : bool) (p : list cop) (k : nat) : stack cc :=
  [CLoadC c_high 2; FC (KQHigh blk p k)].

(* first access of call k of the program *)
Definition start (t : nat) (p : list cop) (k : nat) : stack cc :=
  match p with
  | [] => []
  | OWait :: r => wait_start t WKRet r k
  | ORaise :: r => raise_start r k
  | OUSend n v :: r => [CWrite (c_dat n) v; FC (KUData n r k)]
  | OURecv :: r => urecv_start true r k
  | OUTry :: r => urecv_start false r k
  | OBSend v :: r => bsend_start v r k
  | OBRecv :: r => brecv_start true r k
  | OBTry :: r => brecv_start false r k
  end.

(* call k returns v: report, go to the first access of the next call *)
Definition fin (m : kmem) (t : nat) (p : list cop) (k : nat) (v : Z) : kmem * list Z * stack cc :=
  (m, retev t k v, start t p (S k)).

Definition bidx (size v : Z) : nat := Z.to_nat (v mod size).

Definition cret (size : Z) (m : kmem) (t : nat) (c : cc) (v : Z) : kmem * list Z * stack cc :=
  match c with
  | KNext p k => (m, [], start t p k)
  (* ---- wait ---- *)
  | KWClr a p k => (m, [], [CCasC c_waiter NO_WAITER (fname t) 3; FC (KWCas a p k)])
  | KWCas a p k =>
      if v =? 1 then (m, [], [SWState (c_scr t) READY_TO_WAKE; FC (KWSlept a p k)])
      else (m, [], [CStoreC c_waiter NO_WAITER 5; FC (KWEnd a p k)])
  | KWSlept a p k => (m, [], [CWrite (c_scr t) 0; FC (KWClr2 a p k)])
  | KWClr2 a p k => (m, [], [CStoreC c_waiter NO_WAITER 5; FC (KWEnd a p k)])
  | KWEnd a p k =>
      match a with
      | WKRet => fin m t p k 0
      | WKURecv => (m, [], urecv_start true p k)
      | WKBRecv => (m, [], brecv_start true p k)
      end
  (* ---- raise ---- *)
  | KRX p k =>
      if (v =? NO_WAITER) || (v =? RAISED) then fin m t p k 0
      else (m, [], [CStoreC c_waiter NO_WAITER 5; FC (KRSt (tid_of_name v) p k)])
  | KRSt f p k => (m, [], [CRead (c_scr f); FC (KRSpin f p k)])
  | KRSpin f p k =>
      if v =? READY_TO_WAKE then (m, [], [FStWrite f ST_READY; FC (KRRdy f p k)])
      else (m, [], [CRead (c_scr f); FC (KRSpin f p k)])
  | KRRdy f p k =>
      (wake m f, ev t 901 919 (Zn f) ++ retev t k 1, start t p (S k))
  (* ---- unbounded send ---- *)
  | KUData n p k => (m, [], [CWrite (c_nxt n) 0; FC (KUNull n p k)])
  | KUNull n p k => (m, [], [CXchgC c_tail (Zn n) 3; FC (KUXchg n p k)])
  | KUXchg n p k => (m, [], [CWrite (c_nxt (Z.to_nat v)) (Zn n); FC (KULink p k)])
  | KULink p k => (m, [], raise_start p k)
  (* ---- unbounded receive ---- *)
  | KUHead blk p k => (m, [], [CRead (c_nxt (Z.to_nat v)); FC (KUNxt blk (Z.to_nat v) p k)])
  | KUNxt blk hd p k =>
      if v =? 0 then (if blk then (m, [], wait_start t WKURecv p k) else fin m t p k 0)
      else (m, [], [CWrite c_head v; FC (KUSetHead hd (Z.to_nat v) p k)])
  | KUSetHead hd hn p k => (m, [], [CRead (c_dat hn); FC (KURead hd p k)])
  | KURead hd p k => (m, [], [CWrite (c_dat hd) v; FC (KUWrite hd p k)])
  | KUWrite hd p k => (m, [], [CRead (c_dat hd); FC (KUUse p k)])
  | KUUse p k => fin m t p k v
  (* ---- bounded send ---- *)
  | KBLow x p k => (m, [], [CLoadC c_high 2; FC (KBHigh x v p k)])
  | KBHigh x lo p k => (m, [], [CRead (c_buf (bidx size v)); FC (KBSlot x lo v p k)])
  | KBSlot x lo hi p k =>
      if (v =? 0) && (hi - lo <? size)
      then (m, [], [CCasC c_high hi (hi + 1) 3; FC (KBCas x hi p k)])
      else (m, [], [YRead; FC (KBYield x p k)])
  | KBCas x hi p k =>
      if v =? 1 then (m, [], [CWrite (c_buf (bidx size hi)) x; FC (KBWrite p k)])
      else (m, [], [YRead; FC (KBYield x p k)])
  | KBWrite p k => (m, [], raise_start p k)
  | KBYield x p k => (m, [], bsend_start x p k)
  (* ---- bounded receive ---- *)
  | KQHigh blk p k => (m, [], [CLoadC c_low 2; FC (KQLow blk v p k)])
  | KQLow blk hi p k => (m, [], [CRead (c_buf (bidx size v)); FC (KQSlot blk hi v p k)])
  | KQSlot blk hi lo p k =>
      if negb (v =? 0) && (lo <? hi)
      then (m, [], [CWrite (c_buf (bidx size lo)) 0; FC (KQClear v lo p k)])
      else if blk then (m, [], wait_start t WKBRecv p k) else fin m t p k 0
  | KQClear x lo p k => (m, [], [CStoreC c_low (lo + 1) 3; FC (KQStore x p k)])
  | KQStore x p k => fin m t p k x
  end.

Record st := { mem : kmem; stk : nat -> stack cc; nthr : nat; csize : Z }.

Definition step (s : st) (t : nat) : st * list Z :=
  let '(m1, e1, s1) := kstep cc (cret (csize s)) (mem s) t (stk s t) in
  ({| mem := m1; stk := upd (stk s) t s1; nthr := nthr s; csize := csize s |}, e1).

Definition status_of (s : st) (t : nat) : status :=
  if (t <? nthr s)%nat then kstatus cc (mem s) t (stk s t) else SDone.

(* all cells 0 except the queue's head and tail, which point to the stub node 1 *)
Definition init_mem : kmem :=
  set_cell (set_cell (kinit 0 (fun _ => 0)) c_head 1) c_tail 1.

Definition init (size : Z) (progs : list (list cop)) : st :=
  {| mem := init_mem;
     stk := fun t => [Start; FC (KNext (nth t progs []) 1)];
     nthr := length progs; csize := size |}.

Definition M : machine :=
  {| mstate := st; mstep := step; mstatus := status_of; mthreads := nthr |}.
