(* C09, part 3: the time base of fiber_sleep / fiber_event_wake_sleepers and
   the chain walk.

   Environment: the timer fires (Tick): T = number of expirations so far.
   Implementation state: timer_trigger_count C; `unread` = expirations sitting
   in the timer fd; `infl` = counts that some poller has already read from the
   fd (poll loop, OUTSIDE the sleep lock on the pinned tree) but not yet added
   to C; the sleepers tree.  Always  T = C + unread + sum infl.

   Everything that touches C or the tree runs under sleep_spinlock, hence one
   atomic event each:
     Sleep ms    fiber_sleep: [read the timer: C += unread]  deadline = C + ms;
                 insert; (yield; the lock is released after the switch)
     PollRead    the poll loop reads the timer fd before calling wake_sleepers
     PollWake k  fiber_event_wake_sleepers with the k-th in-flight count:
                 C += count [+ unread]; remove every chain with key < C; walk
   Which of the bracketed parts exist is the configuration `cfg`, computed from
   the statement tokens extracted from the sources (cfg_cur).

   The chain walk is modelled separately with node ownership: a node lives in
   the frame of its sleeping fiber and is havoc as soon as that fiber has been
   scheduled; a read of a havoc node returns whatever the environment chooses. *)
From Coq Require Import List ZArith NArith Lia Bool Arith Permutation Sorting.Sorted.
From LF Require Import SleepTree SleepTreeProofs SleepAst gen.SleepGen.
Import ListNotations.

(* ================= the chain walk ================= *)
(* A pointer is represented by the chain reachable from it (NULL = []).  The
   environment supplies the value of the k-th havoc read. *)
Record wst := { w_live : bool;                (* current node still owned by its (unscheduled) fiber *)
                w_fib : option nat;           (* to_schedule *)
                w_saved : option (list nat);  (* next *)
                w_next : option (list nat);   (* new value of to_wake *)
                w_out : list nat;             (* fibers scheduled so far *)
                w_k : nat }.                  (* havoc reads so far *)

Definition walk_tok (env : nat -> list nat) (h : nat) (r : list nat) (x : wst) (tok : walk_stmt) : wst :=
  let rd_next := if w_live x then (r, w_k x) else (env (w_k x), S (w_k x)) in
  match tok with
  | WAssert | WSetReady => x
  | WGetWaiter =>
      if w_live x then {| w_live := true; w_fib := Some h; w_saved := w_saved x; w_next := w_next x;
                          w_out := w_out x; w_k := w_k x |}
      else {| w_live := false; w_fib := Some (hd 0 (env (w_k x))); w_saved := w_saved x; w_next := w_next x;
              w_out := w_out x; w_k := S (w_k x) |}
  | WSaveNext => {| w_live := w_live x; w_fib := w_fib x; w_saved := Some (fst rd_next); w_next := w_next x;
                    w_out := w_out x; w_k := snd rd_next |}
  | WSchedule =>
      match w_fib x with
      | Some f => {| w_live := if Nat.eqb f h then false else w_live x; w_fib := w_fib x; w_saved := w_saved x;
                     w_next := w_next x; w_out := w_out x ++ [f]; w_k := w_k x |}
      | None => x
      end
  | WAdvanceNode => {| w_live := w_live x; w_fib := w_fib x; w_saved := w_saved x; w_next := Some (fst rd_next);
                       w_out := w_out x; w_k := snd rd_next |}
  | WAdvanceSaved => {| w_live := w_live x; w_fib := w_fib x; w_saved := w_saved x; w_next := w_saved x;
                        w_out := w_out x; w_k := w_k x |}
  end.

(* do { body } while (to_wake);  -- fuel bounds the number of iterations *)
Fixpoint walk (body : list walk_stmt) (env : nat -> list nat) (fuel : nat) (cur : list nat)
         (out : list nat) (k : nat) : list nat :=
  match fuel, cur with
  | S f, h :: r =>
      let x := fold_left (walk_tok env h r) body
                 {| w_live := true; w_fib := None; w_saved := None; w_next := None; w_out := out; w_k := k |} in
      match w_next x with
      | Some c => walk body env f c (w_out x) (w_k x)
      | None => w_out x
      end
  | _, _ => out
  end.

Definition walk_pinned : list walk_stmt := [WAssert; WGetWaiter; WSetReady; WSchedule; WAdvanceNode].
Definition walk_fixed : list walk_stmt := [WAssert; WGetWaiter; WSaveNext; WSetReady; WSchedule; WAdvanceSaved].

Definition run_walk (body : list walk_stmt) (env : nat -> list nat) (ch : list nat) : list nat :=
  walk body env (S (length ch)) ch [] 0.

Lemma walk_fixed_gen env : forall ch f out k, (length ch <= f)%nat -> walk walk_fixed env f ch out k = out ++ ch.
Proof.
  induction ch as [|h r IH]; intros f out k Hf.
  - destruct f; cbn; now rewrite app_nil_r.
  - destruct f as [|f]; [cbn in Hf; lia|]. cbn.
    rewrite IH by (cbn in Hf; lia). now rewrite <- app_assoc.
Qed.

(* reading `next` before scheduling: the walk schedules exactly the chain,
   whatever the environment does with the nodes of fibers already scheduled *)
Lemma walk_fixed_exact env ch : run_walk walk_fixed env ch = ch.
Proof. unfold run_walk. rewrite walk_fixed_gen; auto. Qed.

Lemma walk_pinned_step env h r f out k :
  walk walk_pinned env (S f) (h :: r) out k = walk walk_pinned env f (env k) (out ++ [h]) (S k).
Proof. cbn. rewrite Nat.eqb_refl. reflexivity. Qed.

(* ================= the time base ================= *)
Record cfg := { sleep_drains : bool; wake_drains : bool; poll_reads : bool }.

Definition sleep_pinned_body : list sleep_stmt :=
  [SComputeMs; SInitNode; SLock; SDeadline; SSetKey; SInsert; SGetMgr; SGetFiber; SSetWaiter; SSetWaiting;
   SUnlockLater; SYield; SReturn].
Definition sleep_fixed_body : list sleep_stmt :=
  [SComputeMs; SInitNode; SLock; SReadTimer; SDeadline; SSetKey; SInsert; SGetMgr; SGetFiber; SSetWaiter;
   SSetWaiting; SUnlockLater; SYield; SReturn].
Definition wake_pinned_pro : list wake_stmt := [KLock; KAdd; KDecl].
Definition wake_fixed_pro : list wake_stmt := [KLock; KReadTimer; KAdd; KDecl].
Definition poll_pinned_body : list poll_stmt := [PDecl; PReadTimer; PSkipIfNone; PWakeCount].
Definition poll_fixed_body : list poll_stmt := [PWakeZero].

Definition cfg_of (sb : list sleep_stmt) (wp : list wake_stmt) (pb : list poll_stmt) : cfg :=
  {| sleep_drains := list_eqb sleep_stmt_eqb sb sleep_fixed_body;
     wake_drains := list_eqb wake_stmt_eqb wp wake_fixed_pro;
     poll_reads := list_eqb poll_stmt_eqb pb poll_pinned_body |}.
Definition cfg_cur : cfg := cfg_of sleep_body wake_prologue poll_timer_body.
Definition cfg_pinned : cfg := {| sleep_drains := false; wake_drains := false; poll_reads := true |}.
(* the first candidate repair: only fiber_sleep reads the timer under the lock *)
Definition cfg_candidate : cfg := {| sleep_drains := true; wake_drains := false; poll_reads := true |}.
Definition cfg_fixed : cfg := {| sleep_drains := true; wake_drains := true; poll_reads := false |}.
(* every read of the timer happens under the sleep lock *)
Definition cfg_safe (c : cfg) : bool := sleep_drains c && wake_drains c && negb (poll_reads c).
Definition walk_cur_fixed : bool := list_eqb walk_stmt_eqb walk_body walk_fixed.

(* the statement sequences found in the sources are known ones *)
Lemma sleepgen_bodies_known :
  (list_eqb sleep_stmt_eqb sleep_body sleep_pinned_body || list_eqb sleep_stmt_eqb sleep_body sleep_fixed_body) &&
  (list_eqb wake_stmt_eqb wake_prologue wake_pinned_pro || list_eqb wake_stmt_eqb wake_prologue wake_fixed_pro) &&
  (list_eqb poll_stmt_eqb poll_timer_body poll_pinned_body || list_eqb poll_stmt_eqb poll_timer_body poll_fixed_body) &&
  (list_eqb walk_stmt_eqb walk_body walk_pinned || list_eqb walk_stmt_eqb walk_body walk_fixed) &&
  (* the timer is read by the poll loop or by wake_sleepers: C does advance *)
  (poll_reads cfg_cur || wake_drains cfg_cur) = true.
Proof. vm_compute. reflexivity. Qed.

Inductive ev := Tick | Sleep (ms : N) | PollRead | PollWake (k : nat).

Record sl := { sid : nat; tcall : N; sms : N; sbase : N }.
Record st := { T : N; C : N; unread : N; infl : list N; tree : tr; nextid : nat;
               slog : list sl; wlog : list (nat * N) }.

Definition init : st :=
  {| T := 0; C := 0; unread := 0; infl := []; tree := Leaf; nextid := 1; slog := []; wlog := [] |}.

Definition sumN (l : list N) : N := fold_right N.add 0%N l.
Fixpoint take_nth (k : nat) (l : list N) : N * list N :=
  match l, k with
  | [], _ => (0%N, [])
  | x :: r, O => (x, r)
  | x :: r, S k' => let '(v, r') := take_nth k' r in (v, x :: r')
  end.

Local Open Scope N_scope.

Ltac sf := cbn [T C unread infl tree nextid slog wlog sid tcall sms sbase].
Ltac sfh := cbn [T C unread infl tree nextid slog wlog sid tcall sms sbase] in *.

Section Model.
  Variable c : cfg.
  Variable wk : list nat -> list nat.     (* fibers scheduled by the walk of one chain *)

  Definition step (s : st) (e : ev) : st :=
    match e with
    | Tick => {| T := T s + 1; C := C s; unread := unread s + 1; infl := infl s; tree := tree s;
                 nextid := nextid s; slog := slog s; wlog := wlog s |}
    | Sleep ms =>
        let C1 := if sleep_drains c then C s + unread s else C s in
        let u1 := if sleep_drains c then 0 else unread s in
        {| T := T s; C := C1; unread := u1; infl := infl s;
           tree := insert (tree s) (C1 + ms) (nextid s); nextid := S (nextid s);
           slog := {| sid := nextid s; tcall := T s; sms := ms; sbase := C1 |} :: slog s; wlog := wlog s |}
    | PollRead =>
        if poll_reads c && negb (unread s =? 0)
        then {| T := T s; C := C s; unread := 0; infl := unread s :: infl s; tree := tree s;
                nextid := nextid s; slog := slog s; wlog := wlog s |}
        else s
    | PollWake k =>
        let '(x, infl') := if poll_reads c then take_nth k (infl s) else (0, infl s) in
        if poll_reads c && (x =? 0) then s
        else
          let C1 := C s + x + (if wake_drains c then unread s else 0) in
          let u1 := if wake_drains c then 0 else unread s in
          let '(cs, t') := drain (tree s) C1 in
          {| T := T s; C := C1; unread := u1; infl := infl'; tree := t'; nextid := nextid s; slog := slog s;
             wlog := wlog s ++ map (fun i => (i, T s)) (flat_map (fun ch => wk (snd ch)) cs) |}
    end.

  Definition run (s : st) (es : list ev) : st := fold_left step es s.

  (* ---------- invariant ---------- *)
  Definition tree_ids (t : tr) : list nat := map snd (elems t).

  Record Inv (s : st) : Prop := {
    i_time : T s = C s + unread s + sumN (infl s);
    i_noinfl : poll_reads c = false -> infl s = [];
    i_bst : bst (tree s);
    i_tree : forall k i, In (k, i) (elems (tree s)) ->
             exists e, In e (slog s) /\ sid e = i /\ k = sbase e + sms e;
    i_base : forall e, In e (slog s) -> sbase e <= tcall e;
    i_ids : forall e, In e (slog s) -> (sid e < nextid s)%nat;
    i_nodup : NoDup (map sid (slog s))
  }.

  Lemma sumN_cons x l : sumN (x :: l) = x + sumN l.
  Proof. reflexivity. Qed.

  Lemma take_nth_sum k l : sumN l = fst (take_nth k l) + sumN (snd (take_nth k l)).
  Proof.
    revert k. induction l as [|x r IH]; intros k; [destruct k; reflexivity|].
    destruct k as [|k]; [reflexivity|]. cbn [take_nth]. specialize (IH k).
    destruct (take_nth k r) as [v r']. cbn [fst snd] in *. rewrite !sumN_cons. lia.
  Qed.

  Lemma take_nth_nil k : take_nth k [] = (0, []).
  Proof. destruct k; reflexivity. Qed.

  Lemma inv_init : Inv init.
  Proof.
    constructor; cbn; auto; try (intros; contradiction); try constructor.
  Qed.

  Lemma drain_subset t b cs t' x : drain t b = (cs, t') -> In x (elems t') -> In x (elems t).
  Proof. intros H Hx. rewrite <- (drain_elems _ _ _ _ H). apply in_or_app. auto. Qed.

  Lemma inv_step s e : Inv s -> Inv (step s e).
  Proof.
    intros I. pose proof I as [It In_ Ib Itr Iba Iid Ind]. destruct e as [|ms| |k]; cbn [step].
    - constructor; sf; auto. lia.
    - constructor; cbn [T C unread infl tree nextid slog wlog].
      + destruct (sleep_drains c); lia.
      + auto.
      + now apply insert_bst.
      + intros k i Hin.
        apply (Permutation_in _ (insert_elems _ _ _)) in Hin. destruct Hin as [Heq|Hin].
        * inversion Heq; subst. eexists. split; [left; reflexivity|]. sf. auto.
        * destruct (Itr _ _ Hin) as (e & He & H1 & H2). exists e. split; [right; auto|auto].
      + intros e [<-|He]; sf; [destruct (sleep_drains c); lia | auto].
      + intros e [<-|He]; sf; [lia | specialize (Iid _ He); lia].
      + cbn [map]. sf. constructor; auto. intros Hin. apply in_map_iff in Hin. destruct Hin as (e & He1 & He2).
        specialize (Iid _ He2). lia.
    - destruct (poll_reads c && negb (unread s =? 0)) eqn:E; [|exact I].
      apply andb_true_iff in E. destruct E as [E1 E2].
      constructor; sf; auto; [rewrite sumN_cons; lia | intros; congruence].
    - destruct (poll_reads c) eqn:Ep.
      + pose proof (take_nth_sum k (infl s)) as Hs. destruct (take_nth k (infl s)) as [x infl'] eqn:Et.
        cbn [fst snd] in Hs. cbn [andb]. destruct (x =? 0) eqn:Ex; [exact I|].
        destruct (drain (tree s) (C s + x + (if wake_drains c then unread s else 0))) as [cs t'] eqn:Ed.
        pose proof (tree_remove_exact_l _ _ _ _ Ib Ed) as (_ & _ & _ & _ & _ & Hb').
        constructor; cbn [T C unread infl tree nextid slog wlog]; auto.
        * destruct (wake_drains c); lia.
        * intros; congruence.
        * intros k0 i Hin. apply Itr. eapply drain_subset; eauto.
      + cbn [andb].
        destruct (drain (tree s) (C s + 0 + (if wake_drains c then unread s else 0))) as [cs t'] eqn:Ed.
        pose proof (tree_remove_exact_l _ _ _ _ Ib Ed) as (_ & _ & _ & _ & _ & Hb').
        constructor; cbn [T C unread infl tree nextid slog wlog]; auto.
        * destruct (wake_drains c); lia.
        * intros k0 i Hin. apply Itr. eapply drain_subset; eauto.
  Qed.

  Lemma inv_run es : forall s, Inv s -> Inv (run s es).
  Proof. induction es as [|e r IH]; intros s I; cbn; auto. apply IH. now apply inv_step. Qed.

  (* ---------- history invariant: needs an exact walk ---------- *)
  Hypothesis Hwk : forall ch, wk ch = ch.

  Record Hist (s : st) : Prop := {
    h_perm : Permutation (tree_ids (tree s) ++ map fst (wlog s)) (map sid (slog s));
    h_late : forall i tw, In (i, tw) (wlog s) ->
             exists e, In e (slog s) /\ sid e = i /\ sbase e + sms e < tw /\ tw <= T s
  }.

  Lemma flat_map_snd_pairs cs : map snd (flat_map pairs_of cs) = flat_map (fun ch : N * list nat => snd ch) cs.
  Proof.
    induction cs as [|[k ch] r IH]; cbn; auto. rewrite map_app, IH. f_equal.
    unfold pairs_of. cbn. rewrite map_map. cbn. apply map_id.
  Qed.

  Lemma map_fst_tag (t : N) (l : list nat) : map fst (map (fun i => (i, t)) l) = l.
  Proof. induction l; cbn; congruence. Qed.

  Lemma flat_map_wk cs : flat_map (fun ch : N * list nat => wk (snd ch)) cs = flat_map (fun ch => snd ch) cs.
  Proof. induction cs as [|a r IH]; cbn; auto. now rewrite Hwk, IH. Qed.

  Lemma hist_wake s b cs t' :
    Inv s -> Hist s -> b <= T s -> drain (tree s) b = (cs, t') ->
    forall s', tree s' = t' -> slog s' = slog s -> T s' = T s ->
    wlog s' = wlog s ++ map (fun i => (i, T s)) (flat_map (fun ch => wk (snd ch)) cs) ->
    Hist s'.
  Proof.
    intros I H Hb Ed s' Et Es ET Ew. destruct H as [Hp Hl]. destruct I as [It In_ Ib Itr Iba Iid Ind].
    pose proof (tree_remove_exact_l _ _ _ _ Ib Ed) as (Hcs & _ & _ & _ & _ & _).
    pose proof (drain_elems _ _ _ _ Ed) as He.
    constructor.
    - rewrite Et, Es, Ew, flat_map_wk. rewrite map_app, map_fst_tag.
      etransitivity; [|exact Hp]. unfold tree_ids. rewrite <- He, map_app, flat_map_snd_pairs.
      set (A := flat_map (fun ch : N * list nat => snd ch) cs).
      set (B := map snd (elems t')). set (W := map fst (wlog s)).
      rewrite (Permutation_app_comm A B). rewrite <- app_assoc.
      apply Permutation_app_head. apply Permutation_app_comm.
    - rewrite Es, Ew, ET. intros i tw Hin. apply in_app_or in Hin. destruct Hin as [Hin|Hin]; [auto|].
      apply in_map_iff in Hin. destruct Hin as (j & Hj & Hin). inversion Hj; subst j tw. clear Hj.
      rewrite flat_map_wk in Hin. apply in_flat_map in Hin. destruct Hin as ([k ch] & Hc & Hi). cbn in Hi.
      assert (Hk : k < b).
      { rewrite Hcs in Hc. apply filter_In in Hc. destruct Hc as [_ Hc]. cbn in Hc. now apply N.ltb_lt. }
      assert (Hel : In (k, i) (elems (tree s))).
      { rewrite <- He. apply in_or_app. left. apply in_flat_map. exists (k, ch). split; auto.
        unfold pairs_of. cbn. apply in_map_iff. exists i. auto. }
      destruct (Itr _ _ Hel) as (e & He1 & He2 & He3). exists e. repeat split; auto; lia.
  Qed.

  Lemma hist_step s e : Inv s -> Hist s -> Hist (step s e).
  Proof.
    intros I H. pose proof I as [It In_ Ib Itr Iba Iid Ind]. pose proof H as [Hp Hl].
    destruct e as [|ms| |k]; cbn [step].
    - constructor; sf; auto. intros i tw Hin. destruct (Hl _ _ Hin) as (e & ? & ? & ? & ?). exists e. repeat split; auto. lia.
    - constructor; cbn [T C unread infl tree nextid slog wlog].
      + unfold tree_ids.
        rewrite (Permutation_map snd (insert_elems (tree s) _ (nextid s))). cbn [map snd app]. sf. constructor. exact Hp.
      + intros i tw Hin. destruct (Hl _ _ Hin) as (e & ? & ? & ? & ?). exists e. repeat split; auto. now right.
    - destruct (poll_reads c && negb (unread s =? 0)); [|auto]. constructor; sf; auto.
    - destruct (poll_reads c) eqn:Ep.
      + pose proof (take_nth_sum k (infl s)) as Hs. destruct (take_nth k (infl s)) as [x infl'] eqn:Et. cbn [fst snd] in Hs.
        cbn [andb]. destruct (x =? 0); [auto|].
        destruct (drain (tree s) (C s + x + (if wake_drains c then unread s else 0))) as [cs t'] eqn:Ed.
        eapply (hist_wake s _ cs t' I H); [|exact Ed|reflexivity..].
        destruct (wake_drains c); lia.
      + cbn [andb].
        destruct (drain (tree s) (C s + 0 + (if wake_drains c then unread s else 0))) as [cs t'] eqn:Ed.
        eapply (hist_wake s _ cs t' I H); [|exact Ed|reflexivity..].
        destruct (wake_drains c); lia.
  Qed.

  Lemma hist_init : Hist init.
  Proof. constructor; cbn; [constructor | intros; contradiction]. Qed.

  Lemma hist_run es : forall s, Inv s -> Hist s -> Inv (run s es) /\ Hist (run s es).
  Proof.
    induction es as [|e r IH]; intros s I H; cbn; auto.
    apply IH; [now apply inv_step | now apply hist_step].
  Qed.

  (* ---------- consequences ---------- *)
  Lemma nodup_map_inj {A B} (f : A -> B) (l : list A) a b :
    NoDup (map f l) -> In a l -> In b l -> f a = f b -> a = b.
  Proof.
    induction l as [|x r IH]; cbn; [contradiction|]. intros Hn Ha Hb Hf. inversion Hn as [|? ? Hx Hr]; subst.
    destruct Ha as [->|Ha], Hb as [->|Hb]; auto.
    - exfalso. apply Hx. rewrite Hf. now apply in_map.
    - exfalso. apply Hx. rewrite <- Hf. now apply in_map.
  Qed.

  (* each sleeper is scheduled at most once, only sleepers are scheduled, and
     a sleeper is either still in the tree or has been scheduled -- never both *)
  Lemma exactly_once_l es :
    let s := run init es in
    NoDup (tree_ids (tree s) ++ map fst (wlog s)) /\
    (forall i, In i (map sid (slog s)) <-> In i (tree_ids (tree s)) \/ In i (map fst (wlog s))).
  Proof.
    destruct (hist_run es init inv_init hist_init) as [I H]. cbn zeta. split.
    - eapply Permutation_NoDup; [symmetry; apply (h_perm _ H)|apply (i_nodup _ I)].
    - intros i. rewrite <- in_app_iff. split; intros Hi.
      + eapply Permutation_in; [symmetry; apply (h_perm _ H)|exact Hi].
      + eapply Permutation_in; [apply (h_perm _ H)|exact Hi].
  Qed.

  (* never early, relative to the tick count the deadline was computed from *)
  Lemma never_early_l es i tw :
    let s := run init es in
    In (i, tw) (wlog s) ->
    exists e, In e (slog s) /\ sid e = i /\ sbase e <= tcall e /\
              tw + (tcall e - sbase e) >= tcall e + sms e + 1.
  Proof.
    destruct (hist_run es init inv_init hist_init) as [I H]. cbn zeta. intros Hin.
    destruct (h_late _ H _ _ Hin) as (e & He & Hi & Hlt & _).
    exists e. pose proof (i_base _ I _ He). repeat split; auto. lia.
  Qed.

  (* with every timer read under the lock, the base is the true tick count *)
  Lemma base_exact_l es :
    cfg_safe c = true ->
    let s := run init es in forall e, In e (slog s) -> sbase e = tcall e.
  Proof.
    intros Hc. unfold cfg_safe in Hc. apply andb_true_iff in Hc. destruct Hc as [Hc Hp].
    apply andb_true_iff in Hc. destruct Hc as [Hs Hw]. apply negb_true_iff in Hp.
    cbn zeta. assert (G : forall es s, Inv s -> (forall e, In e (slog s) -> sbase e = tcall e) ->
                          forall e, In e (slog (run s es)) -> sbase e = tcall e).
    { clear es. induction es as [|ev r IH]; intros s I Hb; cbn; auto.
      apply IH; [now apply inv_step|]. destruct ev as [|ms| |k]; cbn [step]; auto.
      - rewrite Hs. cbn. intros e [<-|He]; auto. cbn.
        pose proof (i_time _ I). rewrite (i_noinfl _ I Hp) in *. cbn in *. lia.
      - rewrite Hp. cbn. auto.
      - rewrite Hp. cbn [andb]. destruct (drain (tree s) _). cbn. auto. }
    apply G; [apply inv_init|cbn; contradiction].
  Qed.

  (* no lost wake-up: once wake_sleepers has run (it reads the timer itself),
     every sleeper whose deadline has passed has been scheduled *)
  Lemma no_lost_wakeup_l es k :
    cfg_safe c = true ->
    let s := run init (es ++ [PollWake k]) in
    C s = T s /\
    forall e, In e (slog s) -> tcall e + sms e < T s -> In (sid e) (map fst (wlog s)).
  Proof.
    intros Hc. pose proof Hc as Hc'. unfold cfg_safe in Hc'. apply andb_true_iff in Hc'. destruct Hc' as [Hc' Hp].
    apply andb_true_iff in Hc'. destruct Hc' as [Hs Hw]. apply negb_true_iff in Hp.
    cbn zeta. unfold run. rewrite fold_left_app. fold (run init es). cbn [fold_left].
    destruct (hist_run es init inv_init hist_init) as [I H].
    pose proof (base_exact_l es Hc) as Hbase. cbn zeta in Hbase.
    pose proof (inv_step _ (PollWake k) I) as I'. pose proof (hist_step _ (PollWake k) I H) as H'.
    set (s := run init es) in *.
    assert (Hslog : slog (step s (PollWake k)) = slog s).
    { cbn [step]. rewrite Hp. cbn [andb]. destruct (drain (tree s) _). reflexivity. }
    assert (HC : C (step s (PollWake k)) = T (step s (PollWake k)) /\
                 forall kk i, In (kk, i) (elems (tree (step s (PollWake k)))) -> T (step s (PollWake k)) <= kk).
    { cbn [step]. rewrite Hp, Hw. cbn [andb].
      destruct (drain (tree s) (C s + 0 + unread s)) as [cs t'] eqn:Ed. cbn [T C tree].
      pose proof (i_time _ I) as It. rewrite (i_noinfl _ I Hp) in It. cbn in It.
      split; [lia|]. intros kk i Hin.
      pose proof (tree_remove_exact_l _ _ _ _ (i_bst _ I) Ed) as (_ & Hf & _).
      unfold elems in Hin. rewrite Hf in Hin. apply in_flat_map in Hin. destruct Hin as ([k0 ch] & Hc0 & Hi).
      apply filter_In in Hc0. destruct Hc0 as [_ Hc0]. cbn in Hc0. apply negb_true_iff, N.ltb_ge in Hc0.
      unfold pairs_of in Hi. cbn in Hi. apply in_map_iff in Hi. destruct Hi as (j & Hj & _). inversion Hj; subst. lia. }
    destruct HC as [HC Hrem]. split; [exact HC|].
    intros e He Hdue.
    assert (Hin : In (sid e) (map sid (slog (step s (PollWake k))))) by now apply in_map.
    eapply Permutation_in in Hin; [|symmetry; apply (h_perm _ H')].
    apply in_app_or in Hin. destruct Hin as [Hin|Hin]; [exfalso|exact Hin].
    unfold tree_ids in Hin. apply in_map_iff in Hin. destruct Hin as ([kk i] & Hi & Hel). cbn in Hi. subst i.
    destruct (i_tree _ I' _ _ Hel) as (e' & He' & Hsid & Hk).
    assert (e' = e) by (eapply nodup_map_inj; [apply (i_nodup _ I')|auto..]). subst e'.
    specialize (Hrem _ _ Hel). rewrite Hslog in He. specialize (Hbase _ He). lia.
  Qed.
End Model.

(* ================= refutations (concrete replays of the model) ================= *)
Definition exact_walk (ch : list nat) : list nat := ch.

(* F-C09a: 100 expirations nobody has read; sleep 11 ticks; the next poll
   wakes the sleeper at the tick it went to sleep *)
Lemma stale_base_refuted_l :
  let s := run cfg_pinned exact_walk init (repeat Tick 100 ++ [Sleep 11; PollRead; PollWake 0]) in
  slog s = [{| sid := 1; tcall := 100; sms := 11; sbase := 0 |}] /\ wlog s = [(1%nat, 100)].
Proof. vm_compute. auto. Qed.

(* the candidate repair (only fiber_sleep reads the timer under the lock): a
   poller has read 50 expirations and is preempted before taking the lock *)
Lemma inflight_refuted_l :
  let s := run cfg_candidate exact_walk init (repeat Tick 50 ++ [PollRead; Sleep 11; PollWake 0]) in
  slog s = [{| sid := 1; tcall := 50; sms := 11; sbase := 0 |}] /\ wlog s = [(1%nat, 50)].
Proof. vm_compute. auto. Qed.

(* the same two schedules with every timer read under the lock *)
Lemma fixed_replays_l :
  wlog (run cfg_fixed exact_walk init (repeat Tick 100 ++ [Sleep 11; PollRead; PollWake 0])) = [] /\
  wlog (run cfg_fixed exact_walk init (repeat Tick 50 ++ [PollRead; Sleep 11; PollWake 0])) = [] /\
  wlog (run cfg_fixed exact_walk init (repeat Tick 50 ++ [PollRead; Sleep 11; PollWake 0] ++ repeat Tick 12 ++ [PollWake 0]))
    = [(1%nat, 62)].
Proof. vm_compute. auto. Qed.

(* F-C09b: three sleepers share a deadline; the head of the chain is scheduled,
   runs at once on another thread and its frame is reused: (i) zeros -> the
   rest of the chain is never scheduled although it has left the tree;
   (ii) a pointer to another node -> a fiber that is not due is scheduled *)
Definition env_zero : nat -> list nat := fun _ => [].
Definition env_decoy : nat -> list nat := fun k => match k with O => [9%nat] | _ => [] end.
Lemma walk_refuted_l :
  run_walk walk_pinned env_zero [1; 3; 2]%nat = [1%nat] /\
  run_walk walk_pinned env_decoy [1; 3; 2]%nat = [1; 9]%nat /\
  (let s := run cfg_fixed (run_walk walk_pinned env_zero) init
              ([Sleep 11; Sleep 11; Sleep 11] ++ repeat Tick 12 ++ [PollWake 0]) in
   tree s = Leaf /\ map fst (wlog s) = [1%nat] /\ map sid (slog s) = [3; 2; 1]%nat).
Proof. vm_compute. auto. Qed.
