(* Proofs about the semaphore model (coq/Sem.v on coq/T1K.v): an inductive
   invariant over every reachable state, for any initial value >= 0, any number
   of fibers, any programs, any schedule; ghost counters live in an
   instrumented machine [ist] that erases to the executable model. *)
From Coq Require Import List ZArith Lia Bool Arith.
From LF Require Import Conc T1K Sem.
Import ListNotations.
Local Open Scope Z_scope.

(* ------------------------------------------------------------------ *)
(* sums over the threads 0 .. n-1                                       *)
Fixpoint total (w : nat -> Z) (n : nat) : Z :=
  match n with O => 0 | S k => total w k + w k end.

Lemma total_ext w w' n : (forall t, (t < n)%nat -> w t = w' t) -> total w n = total w' n.
Proof.
  induction n as [|n IH]; intros H; cbn; auto.
  rewrite IH by (intros; apply H; lia). rewrite (H n) by lia. reflexivity.
Qed.

Lemma total_upd w w' n t :
  (t < n)%nat -> (forall u, u <> t -> w' u = w u) -> total w' n = total w n - w t + w' t.
Proof.
  induction n as [|n IH]; intros Ht H; [lia|]. cbn.
  destruct (Nat.eq_dec t n) as [->|Hne].
  - rewrite (total_ext w' w n) by (intros; apply H; lia). lia.
  - rewrite IH by (auto; lia). rewrite (H n) by lia. lia.
Qed.

Lemma total_nonneg w n : (forall t, 0 <= w t) -> 0 <= total w n.
Proof. intros H. induction n; cbn; [lia|]. specialize (H n). lia. Qed.

Lemma total_ge w n t : (forall u, 0 <= w u) -> (t < n)%nat -> w t <= total w n.
Proof.
  intros H. induction n as [|n IH]; intros Ht; [lia|]. cbn.
  pose proof (total_nonneg w n H). pose proof (H n).
  destruct (Nat.eq_dec t n) as [->|Hne]; [lia|]. specialize (IH ltac:(lia)). lia.
Qed.

Lemma total_pos w n : 0 < total w n -> exists t, (t < n)%nat /\ 0 < w t.
Proof.
  induction n as [|n IH]; cbn; intros H; [lia|].
  destruct (Z_lt_le_dec 0 (w n)) as [Hp|Hp].
  - exists n. split; [lia|auto].
  - destruct IH as [t [A B]]; [lia|]. exists t. split; [lia|auto].
Qed.

Lemma total_zero w n t : (forall u, 0 <= w u) -> total w n = 0 -> (t < n)%nat -> w t = 0.
Proof. intros H E Ht. pose proof (total_ge w n t H Ht). specialize (H t). lia. Qed.

(* ------------------------------------------------------------------ *)
(* the stacks a semaphore fiber can have                                *)
Notation stack := (T1K.stack sc).

Definition run (m : kmem) (t : nat) : Prop := fstate m t = ST_RUNNING /\ slot_mpmc m t = None.
Definition pre (m : kmem) (t : nat) : Prop := fstate m t = ST_WAITING /\ slot_mpmc m t = Some O.

Inductive shape (m : kmem) (t : nat) : stack -> Prop :=
| sh_done : slot_mpmc m t = None -> shape m t []
| sh_init p k : slot_mpmc m t = None -> shape m t [Start; FC (SNext p k)]
| sh_sub p k : run m t -> shape m t [WFSub 0 1 5; FC (SWaitSub p k)]
| sh_qwait p k : run m t -> shape m t [QWait 0; FC (SWaited p k)]
| sh_wyread p k : pre m t -> shape m t [YRead; FC (SWaited p k)]
| sh_wynext p k : pre m t -> shape m t [YNext ST_WAITING; FC (SWaited p k)]
| sh_swread p k : pre m t -> shape m t [SwRead; YLoop; FC (SWaited p k)]
| sh_swdone p k : pre m t -> shape m t [SwDone; YLoop; FC (SWaited p k)]
| sh_mread p k : pre m t -> shape m t [MRead; YLoop; FC (SWaited p k)]
| sh_asleep_b p k : slot_mpmc m t = None -> blocked m t = true -> fstate m t = ST_WAITING ->
                    shape m t [Asleep; YLoop; FC (SWaited p k)]
| sh_asleep_r p k : slot_mpmc m t = None -> blocked m t = false -> fstate m t = ST_READY ->
                    shape m t [Asleep; YLoop; FC (SWaited p k)]
| sh_resume p k : slot_mpmc m t = None -> shape m t [Resume; YLoop; FC (SWaited p k)]
| sh_ryread p k : run m t -> shape m t [YRead; FC (SWaited p k)]
| sh_rynext p k : run m t -> shape m t [YNext ST_RUNNING; FC (SWaited p k)]
| sh_tload p k : run m t -> shape m t [WLoadW 0 2; FC (STryLoad p k)]
| sh_tcas p k v : run m t -> 0 < v -> shape m t [WCasW 0 v (v - 1) 3; FC (STryCas p k)]
| sh_pload p k b : run m t -> shape m t [WLoadW 0 2; FC (SPostLoad p k b)]
| sh_pready p k f : run m t -> shape m t [QReady f; FC (SPostWoke p k)]
| sh_padd p k : run m t -> shape m t [WFAdd 0 1 5; FC (SPostAdded p k)]
| sh_pcas p k v : run m t -> 0 <= v -> shape m t [WCasW 0 v (v + 1) 3; FC (SPostCas p k)]
| sh_pyread p k : run m t -> shape m t [YRead; FC (SPostDone p k)]
| sh_pynext p k : run m t -> shape m t [YNext ST_RUNNING; FC (SPostDone p k)].

Lemma start_shape m t p k : run m t -> shape m t (start p k).
Proof. intros R. destruct p as [|[| |] p]; cbn; constructor; auto. apply R. Qed.

(* the shape of a thread only depends on its own state / slot / blocked flag *)
Lemma shape_frame m m' t T :
  shape m t T -> fstate m' t = fstate m t -> slot_mpmc m' t = slot_mpmc m t ->
  blocked m' t = blocked m t -> shape m' t T.
Proof.
  intros H E1 E2 E3. unfold run, pre in *.
  destruct H; (constructor; unfold run, pre; rewrite ?E1, ?E2, ?E3; solve [auto]).
Qed.

(* ------------------------------------------------------------------ *)
(* phase counts                                                         *)
Definition kqwait (T : stack) : Z := match T with QWait _ :: _ => 1 | _ => 0 end.
Definition kpop (T : stack) : Z := match T with QReady _ :: _ => 1 | _ => 0 end.
Definition kadd (T : stack) : Z := match T with WFAdd _ _ _ :: _ => 1 | _ => 0 end.
(* a post that has not yet had its effect on the counter *)
Definition kpp (T : stack) : Z :=
  match T with
  | [_; FC c] => match c with
                 | SPostLoad _ _ _ | SPostWoke _ _ | SPostAdded _ _ | SPostCas _ _ => 1
                 | _ => 0
                 end
  | _ => 0
  end.
Definition kslot (o : option nat) : Z := match o with Some _ => 1 | None => 0 end.

(* announced waiters whose push on the waiter queue is still to come *)
Definition wpre (s : st) (t : nat) : Z := kslot (slot_mpmc (mem s) t) + kqwait (stk s t).
Definition NPRE (s : st) : Z := total (wpre s) (nthr s).
Definition NPOP (s : st) : Z := total (fun t => kpop (stk s t)) (nthr s).
Definition NADD (s : st) : Z := total (fun t => kadd (stk s t)) (nthr s).
Definition NPP (s : st) : Z := total (fun t => kpp (stk s t)) (nthr s).
Definition QLEN (s : st) : Z := Z.of_nat (length (mq (mem s) 0)).
Definition counter (s : st) : Z := word (mem s) 0.

Lemma kslot_nonneg o : 0 <= kslot o. Proof. destruct o; cbn; lia. Qed.
Lemma kqwait_nonneg T : 0 <= kqwait T. Proof. destruct T as [|[] ?]; cbn; lia. Qed.
Lemma kpop_nonneg T : 0 <= kpop T. Proof. destruct T as [|[] ?]; cbn; lia. Qed.
Lemma kadd_nonneg T : 0 <= kadd T. Proof. destruct T as [|[] ?]; cbn; lia. Qed.
Lemma kpp_nonneg T : 0 <= kpp T.
Proof.
  destruct T as [|a [|b [|? ?]]]; cbn; try lia; destruct b; try lia.
  match goal with c : sc |- _ => destruct c; lia end.
Qed.
Lemma wpre_nonneg s t : 0 <= wpre s t.
Proof. unfold wpre. pose proof (kslot_nonneg (slot_mpmc (mem s) t)). pose proof (kqwait_nonneg (stk s t)). lia. Qed.

(* ------------------------------------------------------------------ *)
(* instrumented machine: ghost history counters                         *)
Record gh := {
  gP : Z;        (* posts begun *)
  gPcas : Z;     (* posts that took effect by their CAS (no waiter announced) *)
  gPwake : Z;    (* posts that took effect by their fetch_add (after waking a waiter) *)
  gWfast : Z;    (* waits whose fetch_sub found a unit *)
  gWslow : Z;    (* waits whose fetch_sub announced a waiter *)
  gTok : Z;      (* successful trywaits *)
  gR : Z         (* fibers made READY by a post *)
}.
Definition bP h := {| gP := gP h + 1; gPcas := gPcas h; gPwake := gPwake h; gWfast := gWfast h; gWslow := gWslow h; gTok := gTok h; gR := gR h |}.
Definition bPcas h := {| gP := gP h; gPcas := gPcas h + 1; gPwake := gPwake h; gWfast := gWfast h; gWslow := gWslow h; gTok := gTok h; gR := gR h |}.
Definition bPwake h := {| gP := gP h; gPcas := gPcas h; gPwake := gPwake h + 1; gWfast := gWfast h; gWslow := gWslow h; gTok := gTok h; gR := gR h |}.
Definition bWfast h := {| gP := gP h; gPcas := gPcas h; gPwake := gPwake h; gWfast := gWfast h + 1; gWslow := gWslow h; gTok := gTok h; gR := gR h |}.
Definition bWslow h := {| gP := gP h; gPcas := gPcas h; gPwake := gPwake h; gWfast := gWfast h; gWslow := gWslow h + 1; gTok := gTok h; gR := gR h |}.
Definition bTok h := {| gP := gP h; gPcas := gPcas h; gPwake := gPwake h; gWfast := gWfast h; gWslow := gWslow h; gTok := gTok h + 1; gR := gR h |}.
Definition bR h := {| gP := gP h; gPcas := gPcas h; gPwake := gPwake h; gWfast := gWfast h; gWslow := gWslow h; gTok := gTok h; gR := gR h + 1 |}.

Record ist := { base : st; ini : Z; g : gh }.

(* the first load of a post call is about to happen: the call has just begun *)
Definition fresh_post (T : stack) : bool :=
  match T with
  | [WLoadW _ _; FC (SPostLoad _ _ true)] => true
  | _ => false
  end.

(* ghost effect of the access thread t performs in state s; T' = t's stack afterwards *)
Definition gstep (s : st) (t : nat) (T' : stack) (h : gh) : gh :=
  let c := counter s in
  let h1 :=
    match stk s t with
    | WFSub _ _ _ :: _ => if 1 <=? c then bWfast h else bWslow h
    | WFAdd _ _ _ :: _ => bPwake h
    | QReady _ :: _ => bR h
    | [WCasW _ e _ _; FC (STryCas _ _)] => if c =? e then bTok h else h
    | [WCasW _ e _ _; FC (SPostCas _ _)] => if c =? e then bPcas h else h
    | _ => h
    end in
  if fresh_post T' then bP h1 else h1.

Definition istep (x : ist) (t : nat) : ist :=
  let s' := fst (step (base x) t) in
  {| base := s'; ini := ini x; g := gstep (base x) t (stk s' t) (g x) |}.

Definition gh0 := {| gP := 0; gPcas := 0; gPwake := 0; gWfast := 0; gWslow := 0; gTok := 0; gR := 0 |}.
Definition iinit (v : Z) (progs : list (list sop)) : ist := {| base := init v progs; ini := v; g := gh0 |}.

Inductive ireach (v : Z) (progs : list (list sop)) : ist -> Prop :=
| ir_init : ireach v progs (iinit v progs)
| ir_step x t : ireach v progs x -> status_of (base x) t = SReady -> ireach v progs (istep x t).

Lemma istep_erase x t : base (istep x t) = fst (step (base x) t).
Proof. reflexivity. Qed.

Lemma ireach_base v progs x : ireach v progs x -> reachable M (init v progs) (base x).
Proof.
  induction 1 as [|x t R IH E]; [constructor|].
  rewrite istep_erase. exact (reach_step M (init v progs) (base x) t IH E).
Qed.

Lemma reachable_ireach v progs s :
  reachable M (init v progs) s -> exists x, ireach v progs x /\ base x = s.
Proof.
  induction 1 as [|s t R [x [Rx E]] Hs].
  - exists (iinit v progs). split; [constructor|reflexivity].
  - subst s. exists (istep x t). split; [constructor; auto|reflexivity].
Qed.

(* waits / trywaits that have succeeded: returned, or been made READY by a post *)
Definition succeeded (x : ist) : Z := gWfast (g x) + gTok (g x) + gR (g x).
Definition posts_begun (x : ist) : Z := gP (g x).
Definition posts_effective (x : ist) : Z := gPcas (g x) + gPwake (g x).

(* ------------------------------------------------------------------ *)
(* the invariant                                                        *)
(* fiber f sleeps in fiber_semaphore_wait and no post has made it READY yet *)
Definition asleepW (s : st) (f : nat) : Prop :=
  (exists p k, stk s f = [Asleep; YLoop; FC (SWaited p k)]) /\ blocked (mem s) f = true.

Record Struct (s : st) : Prop := {
  s_shape : forall t, shape (mem s) t (stk s t);
  s_hi : forall t, (nthr s <= t)%nat -> exists r, stk s t = Start :: r;
  s_slots : forall t, slot_mutex (mem s) t = None /\ slot_wait (mem s) t = None /\
                      slot_sched (mem s) t = false /\ pend (mem s) t = O;
  s_nodup : NoDup (mq (mem s) 0);
  s_mq : forall f, In f (mq (mem s) 0) -> asleepW s f;
  s_qr : forall t f r, stk s t = QReady f :: r -> asleepW s f /\ ~ In f (mq (mem s) 0);
  s_qr_uni : forall t u f r r', stk s t = QReady f :: r -> stk s u = QReady f :: r' -> t = u;
  s_blk : forall f, asleepW s f -> In f (mq (mem s) 0) \/ exists t r, stk s t = QReady f :: r;
  (* "counter < 0 = number of announced waiters": waiters not yet pushed + queued +
     popped but not yet READY + READY but not yet compensated by the post's fetch_add *)
  s_bal : NPRE s + QLEN s + NPOP s + NADD s = Z.max 0 (- counter s)
}.

Record Cnt (x : ist) : Prop := {
  c_ini : 0 <= ini x;
  c_c : counter (base x) = ini x + gPcas (g x) + gPwake (g x) - gWfast (g x) - gWslow (g x) - gTok (g x);
  c_p : gP (g x) = gPcas (g x) + gPwake (g x) + NPP (base x);
  c_r : gR (g x) = gPwake (g x) + NADD (base x);
  c_w : gWslow (g x) = NPRE (base x) + QLEN (base x) + NPOP (base x) + gR (g x)
}.

Definition LInv (x : ist) : Prop := Struct (base x) /\ Cnt x.

(* ------------------------------------------------------------------ *)
Lemma total_const0 n : total (fun _ => 0) n = 0.
Proof. induction n; cbn; lia. Qed.

Lemma init_linv v progs : 0 <= v -> LInv (iinit v progs).
Proof.
  intros Hv.
  assert (Z0 : forall w, (forall t, w t = 0) -> total w (length progs) = 0).
  { intros w H. rewrite (total_ext w (fun _ => 0)) by (intros; apply H). apply total_const0. }
  assert (E1 : NPRE (init v progs) = 0) by (apply Z0; reflexivity).
  assert (E2 : NPOP (init v progs) = 0) by (apply Z0; reflexivity).
  assert (E3 : NADD (init v progs) = 0) by (apply Z0; reflexivity).
  assert (E4 : NPP (init v progs) = 0) by (apply Z0; reflexivity).
  split; constructor; cbn [base iinit ini g gh0 gP gPcas gPwake gWfast gWslow gTok gR];
    rewrite ?E1, ?E2, ?E3, ?E4; unfold QLEN, counter.
  - intros t. constructor. reflexivity.
  - intros t _. eexists. reflexivity.
  - intros t. cbn. auto.
  - constructor.
  - intros f [].
  - intros t f r H. discriminate.
  - intros t u f r r' H. discriminate.
  - intros f [[p [k H]] _]. discriminate.
  - cbn. lia.
  - lia.
  - cbn. lia.
  - lia.
  - lia.
  - cbn. lia.
Qed.

(* ------------------------------------------------------------------ *)
(* one step changes the stack of thread t and the memory                *)
Definition mk (s : st) (m' : kmem) (t : nat) (T' : stack) : st :=
  {| mem := m'; stk := upd (stk s) t T'; nthr := nthr s |}.

Lemma asleepW_other s m' t T' f :
  f <> t -> blocked m' f = blocked (mem s) f -> (asleepW (mk s m' t T') f <-> asleepW s f).
Proof.
  intros Hne Hb. unfold asleepW, mk; cbn [mem stk]. rewrite upd_other by assumption. rewrite Hb. tauto.
Qed.

Lemma totals_upd s m' t T' :
  (t < nthr s)%nat -> (forall u, u <> t -> slot_mpmc m' u = slot_mpmc (mem s) u) ->
  NPRE (mk s m' t T') = NPRE s - (kslot (slot_mpmc (mem s) t) + kqwait (stk s t)) + (kslot (slot_mpmc m' t) + kqwait T') /\
  NPOP (mk s m' t T') = NPOP s - kpop (stk s t) + kpop T' /\
  NADD (mk s m' t T') = NADD s - kadd (stk s t) + kadd T' /\
  NPP (mk s m' t T') = NPP s - kpp (stk s t) + kpp T'.
Proof.
  intros Ht Hs. unfold NPRE, NPOP, NADD, NPP. cbn [nthr mk].
  repeat split.
  - rewrite (total_upd (wpre s) (wpre (mk s m' t T')) (nthr s) t Ht).
    + unfold wpre. cbn [mem stk mk]. rewrite upd_same. reflexivity.
    + intros u Hu. unfold wpre. cbn [mem stk mk]. rewrite upd_other by assumption. rewrite Hs by assumption. reflexivity.
  - rewrite (total_upd (fun u => kpop (stk s u)) (fun u => kpop (stk (mk s m' t T') u)) (nthr s) t Ht).
    + cbn [stk mk]. rewrite upd_same. reflexivity.
    + intros u Hu. cbn [stk mk]. rewrite upd_other by assumption. reflexivity.
  - rewrite (total_upd (fun u => kadd (stk s u)) (fun u => kadd (stk (mk s m' t T') u)) (nthr s) t Ht).
    + cbn [stk mk]. rewrite upd_same. reflexivity.
    + intros u Hu. cbn [stk mk]. rewrite upd_other by assumption. reflexivity.
  - rewrite (total_upd (fun u => kpp (stk s u)) (fun u => kpp (stk (mk s m' t T') u)) (nthr s) t Ht).
    + cbn [stk mk]. rewrite upd_same. reflexivity.
    + intros u Hu. cbn [stk mk]. rewrite upd_other by assumption. reflexivity.
Qed.

(* own weights are below the totals *)
Lemma own_le s t : (t < nthr s)%nat ->
  kslot (slot_mpmc (mem s) t) + kqwait (stk s t) <= NPRE s /\ kpop (stk s t) <= NPOP s /\
  kadd (stk s t) <= NADD s /\ kpp (stk s t) <= NPP s.
Proof.
  intros Ht. repeat split.
  - apply (total_ge (wpre s) (nthr s) t); auto. intros; apply wpre_nonneg.
  - apply (total_ge (fun u => kpop (stk s u)) (nthr s) t); auto. intros; apply kpop_nonneg.
  - apply (total_ge (fun u => kadd (stk s u)) (nthr s) t); auto. intros; apply kadd_nonneg.
  - apply (total_ge (fun u => kpp (stk s u)) (nthr s) t); auto. intros; apply kpp_nonneg.
Qed.

Lemma counts_nonneg s : 0 <= NPRE s /\ 0 <= NPOP s /\ 0 <= NADD s /\ 0 <= NPP s /\ 0 <= QLEN s.
Proof.
  repeat split; try (apply total_nonneg; intros).
  - apply wpre_nonneg. - apply kpop_nonneg. - apply kadd_nonneg. - apply kpp_nonneg. - unfold QLEN; lia.
Qed.

(* a step that does not touch the waiter queue, wakes nobody and puts nobody to sleep *)
Lemma local_step x t m' T' h' :
  let s := base x in
  LInv x -> (t < nthr s)%nat ->
  (forall u, u <> t -> fstate m' u = fstate (mem s) u) ->
  (forall u, u <> t -> slot_mpmc m' u = slot_mpmc (mem s) u) ->
  blocked m' = blocked (mem s) -> mq m' = mq (mem s) ->
  slot_mutex m' = slot_mutex (mem s) -> slot_wait m' = slot_wait (mem s) ->
  slot_sched m' = slot_sched (mem s) -> pend m' = pend (mem s) ->
  ~ asleepW s t -> kpop (stk s t) = 0 -> kpop T' = 0 ->
  (forall p k, T' <> [Asleep; YLoop; FC (SWaited p k)]) ->
  shape m' t T' ->
  (forall a, a = Z.max 0 (- word (mem s) 0) ->
             kslot (slot_mpmc (mem s) t) + kqwait (stk s t) + kadd (stk s t) <= a ->
             a - (kslot (slot_mpmc (mem s) t) + kqwait (stk s t)) + (kslot (slot_mpmc m' t) + kqwait T')
               - kadd (stk s t) + kadd T' = Z.max 0 (- word m' 0)) ->
  word m' 0 - word (mem s) 0 = (gPcas h' - gPcas (g x)) + (gPwake h' - gPwake (g x))
       - (gWfast h' - gWfast (g x)) - (gWslow h' - gWslow (g x)) - (gTok h' - gTok (g x)) ->
  gP h' - gP (g x) = (gPcas h' - gPcas (g x)) + (gPwake h' - gPwake (g x)) + (kpp T' - kpp (stk s t)) ->
  gR h' - gR (g x) = (gPwake h' - gPwake (g x)) + (kadd T' - kadd (stk s t)) ->
  gWslow h' - gWslow (g x) =
    (kslot (slot_mpmc m' t) + kqwait T') - (kslot (slot_mpmc (mem s) t) + kqwait (stk s t)) + (gR h' - gR (g x)) ->
  LInv {| base := mk s m' t T'; ini := ini x; g := h' |}.
Proof.
  intros s [S C] Ht Hfs Hsl Hbl Hmq Hm1 Hm2 Hm3 Hm4 Hna Hq Hq' Has' Hsh Hbal Hc Hp Hr Hw.
  destruct (totals_upd s m' t T' Ht Hsl) as (E1 & E2 & E3 & E4).
  destruct (own_le s t Ht) as (O1 & O2 & O3 & O4).
  destruct (counts_nonneg s) as (N1 & N2 & N3 & N4 & N5).
  assert (EQ : QLEN (mk s m' t T') = QLEN s) by (unfold QLEN; cbn [mem mk]; rewrite Hmq; reflexivity).
  assert (AW : forall f, f <> t -> (asleepW (mk s m' t T') f <-> asleepW s f)).
  { intros f Hf. apply asleepW_other; auto. rewrite Hbl. reflexivity. }
  assert (NAT' : ~ asleepW (mk s m' t T') t).
  { intros [[p [k E]] _]. cbn [stk mk] in E. rewrite upd_same in E. exact (Has' p k E). }
  split.
  - constructor; cbn [base mem stk nthr mk].
    + intros u. destruct (Nat.eq_dec u t) as [->|Hu].
      * rewrite upd_same. exact Hsh.
      * rewrite upd_other by assumption. apply (shape_frame (mem s)); auto.
        -- apply (s_shape s S).
        -- rewrite Hbl. reflexivity.
    + intros u Hu. rewrite upd_other by lia. apply (s_hi s S); auto.
    + intros u. rewrite Hm1, Hm2, Hm3, Hm4. apply (s_slots s S).
    + rewrite Hmq. apply (s_nodup s S).
    + intros f Hf. rewrite Hmq in Hf. pose proof (s_mq s S f Hf) as A.
      assert (f <> t) by (intros ->; auto). apply AW; auto.
    + intros u f r E. destruct (Nat.eq_dec u t) as [->|Hu].
      * rewrite upd_same in E. rewrite E in Hq'. cbn in Hq'. lia.
      * rewrite upd_other in E by assumption. destruct (s_qr s S u f r E) as [A B].
        assert (f <> t) by (intros ->; auto). split; [apply AW; auto|rewrite Hmq; auto].
    + intros u v f r r' E1' E2'.
      destruct (Nat.eq_dec u t) as [->|Hu]; [rewrite upd_same in E1'; rewrite E1' in Hq'; cbn in Hq'; lia|].
      destruct (Nat.eq_dec v t) as [->|Hv]; [rewrite upd_same in E2'; rewrite E2' in Hq'; cbn in Hq'; lia|].
      rewrite upd_other in E1', E2' by assumption. eapply (s_qr_uni s S); eauto.
    + intros f A. destruct (Nat.eq_dec f t) as [->|Hf]; [exfalso; auto|].
      apply AW in A; auto. destruct (s_blk s S f A) as [B|[u [r B]]].
      * left. rewrite Hmq. auto.
      * right. exists u, r. rewrite upd_other; auto. intros ->. rewrite B in Hq. cbn in Hq. lia.
    + fold (mk s m' t T'). rewrite E1, E2, E3, EQ, Hq, Hq'. unfold counter. cbn [mem mk].
      pose proof (s_bal s S) as B. unfold counter in B.
      specialize (Hbal _ eq_refl). rewrite <- B in Hbal. lia.
  - destruct C as [C0 C1 C2 C3 C4]. unfold counter in *.
    fold s in C1, C2, C3, C4. constructor; cbn [base ini g]; unfold counter; cbn [mem mk]; rewrite ?E1, ?E2, ?E3, ?E4, ?EQ; try lia.
Qed.

Lemma NoDup_snoc {A} (l : list A) a : NoDup l -> ~ In a l -> NoDup (l ++ [a]).
Proof.
  induction l as [|b l IH]; cbn; intros H Hn.
  - constructor; auto; constructor.
  - inversion H; subst. constructor.
    + intros Hi. apply in_app_or in Hi. destruct Hi as [Hi|[Hi|[]]]; auto.
    + apply IH; auto.
Qed.

Lemma not_asleep_top s t a r :
  stk s t = a :: r -> a <> Asleep -> ~ asleepW s t.
Proof. intros E Ha [[p [k E']] _]. rewrite E in E'. inversion E'. auto. Qed.

(* do_maintenance of a waiter: push on the waiter queue, then sleep *)
Lemma push_step x t p k m' :
  let s := base x in
  LInv x -> (t < nthr s)%nat ->
  stk s t = [MRead; YLoop; FC (SWaited p k)] ->
  fstate m' = fstate (mem s) -> slot_mpmc m' = upd (slot_mpmc (mem s)) t None ->
  blocked m' = upd (blocked (mem s)) t true ->
  mq m' 0%nat = mq (mem s) 0 ++ [t] -> word m' = word (mem s) ->
  slot_mutex m' = slot_mutex (mem s) -> slot_wait m' = slot_wait (mem s) ->
  slot_sched m' = slot_sched (mem s) -> pend m' = pend (mem s) ->
  LInv {| base := mk s m' t [Asleep; YLoop; FC (SWaited p k)]; ini := ini x; g := g x |}.
Proof.
  intros s [S C] Ht HT Hfs Hsl Hbl Hmq Hwd Hm1 Hm2 Hm3 Hm4.
  set (T' := [Asleep; YLoop; FC (SWaited p k)]).
  assert (Hsl' : forall u, u <> t -> slot_mpmc m' u = slot_mpmc (mem s) u).
  { intros u Hu. rewrite Hsl. apply upd_other; auto. }
  destruct (totals_upd s m' t T' Ht Hsl') as (E1 & E2 & E3 & E4).
  assert (PRE : pre (mem s) t).
  { pose proof (s_shape s S t) as H. rewrite HT in H. inversion H; auto. }
  destruct PRE as [P1 P2].
  assert (EQ : QLEN (mk s m' t T') = QLEN s + 1).
  { unfold QLEN; cbn [mem mk]. rewrite Hmq, app_length. cbn [length]. lia. }
  assert (NA : ~ asleepW s t) by (apply (not_asleep_top s t _ _ HT); discriminate).
  assert (AW : forall f, f <> t -> (asleepW (mk s m' t T') f <-> asleepW s f)).
  { intros f Hf. apply asleepW_other; auto. rewrite Hbl. apply upd_other; auto. }
  assert (AT : asleepW (mk s m' t T') t).
  { split; cbn [mem stk mk]; rewrite ?upd_same; [exists p, k; reflexivity|]. rewrite Hbl, upd_same; auto. }
  assert (NQ : forall u f r, stk s u = QReady f :: r -> u <> t).
  { intros u f r E ->. rewrite HT in E. discriminate. }
  assert (K1 : kqwait (stk s t) = 0 /\ kpop (stk s t) = 0 /\ kadd (stk s t) = 0 /\ kpp (stk s t) = 0)
    by (rewrite HT; repeat split; reflexivity).
  destruct K1 as (K1 & K2 & K3 & K4).
  assert (K5 : kqwait T' = 0 /\ kpop T' = 0 /\ kadd T' = 0 /\ kpp T' = 0) by (repeat split; reflexivity).
  destruct K5 as (K5 & K6 & K7 & K8).
  rewrite K1, K5, Hsl, upd_same, P2 in E1. rewrite K2, K6 in E2. rewrite K3, K7 in E3. rewrite K4, K8 in E4.
  cbn [kslot] in E1.
  split.
  - constructor; cbn [base mem stk nthr mk].
    + intros u. destruct (Nat.eq_dec u t) as [->|Hu].
      * rewrite upd_same. apply sh_asleep_b.
        -- rewrite Hsl, upd_same; auto.
        -- rewrite Hbl, upd_same; auto.
        -- rewrite Hfs; auto.
      * rewrite upd_other by assumption. apply (shape_frame (mem s)); auto.
        -- apply (s_shape s S).
        -- rewrite Hfs; auto.
        -- rewrite Hbl. apply upd_other; auto.
    + intros u Hu. rewrite upd_other by lia. apply (s_hi s S); auto.
    + intros u. rewrite Hm1, Hm2, Hm3, Hm4. apply (s_slots s S).
    + rewrite Hmq. apply NoDup_snoc; [apply (s_nodup s S)|]. intros Hi. apply NA. apply (s_mq s S); auto.
    + intros f Hf. rewrite Hmq in Hf. apply in_app_or in Hf. destruct Hf as [Hf|[<-|[]]]; auto.
      pose proof (s_mq s S f Hf) as A. assert (f <> t) by (intros ->; auto). apply AW; auto.
    + intros u f r E. destruct (Nat.eq_dec u t) as [->|Hu]; [rewrite upd_same in E; discriminate|].
      rewrite upd_other in E by assumption. destruct (s_qr s S u f r E) as [A B].
      assert (f <> t) by (intros ->; auto). split; [apply AW; auto|].
      rewrite Hmq. intros Hi. apply in_app_or in Hi. destruct Hi as [Hi|[Hi|[]]]; auto.
    + intros u v f r r' E1' E2'.
      destruct (Nat.eq_dec u t) as [->|Hu]; [rewrite upd_same in E1'; discriminate|].
      destruct (Nat.eq_dec v t) as [->|Hv]; [rewrite upd_same in E2'; discriminate|].
      rewrite upd_other in E1', E2' by assumption. eapply (s_qr_uni s S); eauto.
    + intros f A. rewrite Hmq. destruct (Nat.eq_dec f t) as [->|Hf]; [left; apply in_or_app; right; left; auto|].
      apply AW in A; auto. destruct (s_blk s S f A) as [B|[u [r B]]].
      * left. apply in_or_app; auto.
      * right. exists u, r. rewrite upd_other; auto. eapply NQ; eauto.
    + fold (mk s m' t T'). rewrite E1, E2, E3, EQ. unfold counter. cbn [mem mk]. rewrite Hwd.
      pose proof (s_bal s S) as B. unfold counter in B. lia.
  - destruct C as [C0 C1 C2 C3 C4]. unfold counter in *. fold s in C1, C2, C3, C4.
    constructor; cbn [base ini g]; unfold counter; cbn [mem mk]; rewrite ?E1, ?E2, ?E3, ?E4, ?EQ, ?Hwd; try lia.
Qed.

(* post: the load saw a negative counter and the trypop of the waiter queue succeeded *)
Lemma pop_step x t p k b f rest m' :
  let s := base x in
  LInv x -> (t < nthr s)%nat ->
  stk s t = [WLoadW 0 2; FC (SPostLoad p k b)] -> mq (mem s) 0%nat = f :: rest ->
  fstate m' = fstate (mem s) -> slot_mpmc m' = slot_mpmc (mem s) ->
  blocked m' = blocked (mem s) -> mq m' 0%nat = rest -> word m' = word (mem s) ->
  slot_mutex m' = slot_mutex (mem s) -> slot_wait m' = slot_wait (mem s) ->
  slot_sched m' = slot_sched (mem s) -> pend m' = pend (mem s) ->
  LInv {| base := mk s m' t [QReady f; FC (SPostWoke p k)]; ini := ini x; g := g x |}.
Proof.
  intros s [S C] Ht HT HQ Hfs Hsl Hbl Hmq Hwd Hm1 Hm2 Hm3 Hm4.
  set (T' := [QReady f; FC (SPostWoke p k)]).
  assert (Hsl' : forall u, u <> t -> slot_mpmc m' u = slot_mpmc (mem s) u) by (intros; rewrite Hsl; auto).
  destruct (totals_upd s m' t T' Ht Hsl') as (E1 & E2 & E3 & E4).
  assert (RUN : run (mem s) t).
  { pose proof (s_shape s S t) as H. rewrite HT in H. inversion H; auto. }
  assert (EQ : QLEN s = QLEN (mk s m' t T') + 1).
  { unfold QLEN; cbn [mem mk]. rewrite Hmq, HQ. cbn [length]. lia. }
  assert (NA : ~ asleepW s t) by (apply (not_asleep_top s t _ _ HT); discriminate).
  assert (AW : forall g, g <> t -> (asleepW (mk s m' t T') g <-> asleepW s g)).
  { intros g Hg. apply asleepW_other; auto. rewrite Hbl. auto. }
  assert (NQ : forall u g r, stk s u = QReady g :: r -> u <> t).
  { intros u g r E ->. rewrite HT in E. discriminate. }
  pose proof (s_nodup s S) as ND. rewrite HQ in ND.
  assert (NDf : ~ In f rest) by (inversion ND; auto). assert (NDr : NoDup rest) by (inversion ND; auto).
  assert (Af : asleepW s f) by (apply (s_mq s S); rewrite HQ; left; auto).
  assert (Hft : f <> t) by (intros ->; auto).
  assert (K1 : kqwait (stk s t) = 0 /\ kpop (stk s t) = 0 /\ kadd (stk s t) = 0 /\ kpp (stk s t) = 1)
    by (rewrite HT; repeat split; reflexivity).
  destruct K1 as (K1 & K2 & K3 & K4).
  assert (K5 : kqwait T' = 0 /\ kpop T' = 1 /\ kadd T' = 0 /\ kpp T' = 1) by (repeat split; reflexivity).
  destruct K5 as (K5 & K6 & K7 & K8).
  rewrite K1, K5, Hsl in E1. rewrite K2, K6 in E2. rewrite K3, K7 in E3. rewrite K4, K8 in E4.
  split.
  - constructor; cbn [base mem stk nthr mk].
    + intros u. destruct (Nat.eq_dec u t) as [->|Hu].
      * rewrite upd_same. apply sh_pready. destruct RUN. split; [rewrite Hfs|rewrite Hsl]; auto.
      * rewrite upd_other by assumption.
        apply (shape_frame (mem s)); [apply (s_shape s S)|rewrite Hfs; auto|rewrite Hsl; auto|rewrite Hbl; auto].
    + intros u Hu. rewrite upd_other by lia. apply (s_hi s S); auto.
    + intros u. rewrite Hm1, Hm2, Hm3, Hm4. apply (s_slots s S).
    + rewrite Hmq. auto.
    + intros g Hg. rewrite Hmq in Hg.
      assert (A : asleepW s g) by (apply (s_mq s S); rewrite HQ; right; auto).
      assert (g <> t) by (intros ->; auto). apply AW; auto.
    + intros u g r E. destruct (Nat.eq_dec u t) as [->|Hu].
      * rewrite upd_same in E. inversion E; subst g r. split; [apply AW; auto|rewrite Hmq; auto].
      * rewrite upd_other in E by assumption. destruct (s_qr s S u g r E) as [A B].
        assert (g <> t) by (intros ->; auto). split; [apply AW; auto|].
        rewrite Hmq. intros Hi. apply B. rewrite HQ. right; auto.
    + intros u v g r r' E1' E2'.
      destruct (Nat.eq_dec u t) as [->|Hu]; destruct (Nat.eq_dec v t) as [->|Hv]; auto.
      * rewrite upd_same in E1'. rewrite upd_other in E2' by assumption. inversion E1'; subst g r.
        exfalso. destruct (s_qr s S v f r' E2') as [_ B]. apply B. rewrite HQ. left; auto.
      * rewrite upd_same in E2'. rewrite upd_other in E1' by assumption. inversion E2'; subst g r'.
        exfalso. destruct (s_qr s S u f r E1') as [_ B]. apply B. rewrite HQ. left; auto.
      * rewrite upd_other in E1', E2' by assumption. eapply (s_qr_uni s S); eauto.
    + intros g A. rewrite Hmq. destruct (Nat.eq_dec g t) as [->|Hg].
      * exfalso. destruct A as [[p0 [k0 E]] _]. cbn [stk mk] in E. rewrite upd_same in E. discriminate.
      * apply AW in A; auto. destruct (s_blk s S g A) as [B|[u [r B]]].
        -- rewrite HQ in B. destruct B as [<-|B]; [|left; auto].
           right. exists t, [FC (SPostWoke p k)]. rewrite upd_same. reflexivity.
        -- right. exists u, r. rewrite upd_other; auto. eapply NQ; eauto.
    + fold (mk s m' t T'). rewrite E1, E2, E3. unfold counter. cbn [mem mk]. rewrite Hwd.
      pose proof (s_bal s S) as B. unfold counter in B. lia.
  - destruct C as [C0 C1 C2 C3 C4]. unfold counter in *. fold s in C1, C2, C3, C4.
    constructor; cbn [base ini g]; unfold counter; cbn [mem mk]; rewrite ?E1, ?E2, ?E3, ?E4, ?Hwd; try lia.
Qed.

(* post: wake_from_mpmc_queue makes the popped fiber READY and schedules it *)
Lemma ready_step x t p k f m' :
  let s := base x in
  LInv x -> (t < nthr s)%nat ->
  stk s t = [QReady f; FC (SPostWoke p k)] ->
  fstate m' = upd (fstate (mem s)) f ST_READY -> slot_mpmc m' = slot_mpmc (mem s) ->
  blocked m' = upd (blocked (mem s)) f false -> mq m' = mq (mem s) -> word m' = word (mem s) ->
  slot_mutex m' = slot_mutex (mem s) -> slot_wait m' = slot_wait (mem s) ->
  slot_sched m' = slot_sched (mem s) -> pend m' = pend (mem s) ->
  LInv {| base := mk s m' t [WFAdd 0 1 5; FC (SPostAdded p k)]; ini := ini x; g := bR (g x) |}.
Proof.
  intros s [S C] Ht HT Hfs Hsl Hbl Hmq Hwd Hm1 Hm2 Hm3 Hm4.
  set (T' := [WFAdd 0 1 5; FC (SPostAdded p k)]).
  assert (Hsl' : forall u, u <> t -> slot_mpmc m' u = slot_mpmc (mem s) u) by (intros; rewrite Hsl; auto).
  destruct (totals_upd s m' t T' Ht Hsl') as (E1 & E2 & E3 & E4).
  assert (RUN : run (mem s) t).
  { pose proof (s_shape s S t) as H. rewrite HT in H. inversion H; auto. }
  assert (EQ : QLEN (mk s m' t T') = QLEN s) by (unfold QLEN; cbn [mem mk]; rewrite Hmq; reflexivity).
  assert (NA : ~ asleepW s t) by (apply (not_asleep_top s t _ _ HT); discriminate).
  destruct (s_qr s S t f _ HT) as [Af Nf].
  assert (Hft : f <> t) by (intros ->; auto).
  assert (AW : forall g, g <> t -> g <> f -> (asleepW (mk s m' t T') g <-> asleepW s g)).
  { intros g Hg Hg'. apply asleepW_other; auto. rewrite Hbl. apply upd_other; auto. }
  assert (NAf : ~ asleepW (mk s m' t T') f).
  { intros [_ B]. cbn [mem mk] in B. rewrite Hbl, upd_same in B. discriminate. }
  assert (NAt : ~ asleepW (mk s m' t T') t).
  { intros [[p0 [k0 E]] _]. cbn [stk mk] in E. rewrite upd_same in E. discriminate. }
  assert (K1 : kqwait (stk s t) = 0 /\ kpop (stk s t) = 1 /\ kadd (stk s t) = 0 /\ kpp (stk s t) = 1)
    by (rewrite HT; repeat split; reflexivity).
  destruct K1 as (K1 & K2 & K3 & K4).
  assert (K5 : kqwait T' = 0 /\ kpop T' = 0 /\ kadd T' = 1 /\ kpp T' = 1) by (repeat split; reflexivity).
  destruct K5 as (K5 & K6 & K7 & K8).
  rewrite K1, K5, Hsl in E1. rewrite K2, K6 in E2. rewrite K3, K7 in E3. rewrite K4, K8 in E4.
  split.
  - constructor; cbn [base mem stk nthr mk].
    + intros u. destruct (Nat.eq_dec u t) as [->|Hu]; [|destruct (Nat.eq_dec u f) as [->|Huf]].
      * rewrite upd_same. apply sh_padd. destruct RUN. split; [rewrite Hfs, upd_other by auto|rewrite Hsl]; auto.
      * rewrite upd_other by assumption. destruct Af as [[p0 [k0 E]] B]. rewrite E.
        pose proof (s_shape s S f) as H. rewrite E in H.
        apply sh_asleep_r.
        -- rewrite Hsl. inversion H; auto.
        -- rewrite Hbl, upd_same; auto.
        -- rewrite Hfs, upd_same; auto.
      * rewrite upd_other by assumption.
        apply (shape_frame (mem s)); [apply (s_shape s S)|rewrite Hfs, upd_other; auto|rewrite Hsl; auto|rewrite Hbl, upd_other; auto].
    + intros u Hu. rewrite upd_other by lia. apply (s_hi s S); auto.
    + intros u. rewrite Hm1, Hm2, Hm3, Hm4. apply (s_slots s S).
    + rewrite Hmq. apply (s_nodup s S).
    + intros g Hg. rewrite Hmq in Hg. pose proof (s_mq s S g Hg) as A.
      assert (g <> t) by (intros ->; auto). assert (g <> f) by (intros ->; auto). apply AW; auto.
    + intros u g r E. destruct (Nat.eq_dec u t) as [->|Hu]; [rewrite upd_same in E; discriminate|].
      rewrite upd_other in E by assumption. destruct (s_qr s S u g r E) as [A B].
      assert (g <> t) by (intros ->; auto).
      assert (g <> f) by (intros ->; apply Hu; eapply (s_qr_uni s S); eauto).
      split; [apply AW; auto|rewrite Hmq; auto].
    + intros u v g r r' E1' E2'.
      destruct (Nat.eq_dec u t) as [->|Hu]; [rewrite upd_same in E1'; discriminate|].
      destruct (Nat.eq_dec v t) as [->|Hv]; [rewrite upd_same in E2'; discriminate|].
      rewrite upd_other in E1', E2' by assumption. eapply (s_qr_uni s S); eauto.
    + intros g A. rewrite Hmq.
      destruct (Nat.eq_dec g t) as [->|Hg]; [exfalso; auto|].
      destruct (Nat.eq_dec g f) as [->|Hgf]; [exfalso; auto|].
      apply AW in A; auto. destruct (s_blk s S g A) as [B|[u [r B]]]; [left; auto|].
      right. exists u, r. rewrite upd_other; auto. intros ->. rewrite HT in B. inversion B. auto.
    + fold (mk s m' t T'). rewrite E1, E2, E3, EQ. unfold counter. cbn [mem mk]. rewrite Hwd.
      pose proof (s_bal s S) as B. unfold counter in B. lia.
  - destruct C as [C0 C1 C2 C3 C4]. unfold counter in *. fold s in C1, C2, C3, C4.
    constructor; cbn [base ini g bR gP gPcas gPwake gWfast gWslow gTok gR]; unfold counter; cbn [mem mk];
      rewrite ?E1, ?E2, ?E3, ?E4, ?EQ, ?Hwd; try lia.
Qed.

(* ------------------------------------------------------------------ *)
Lemma istep_form x t m' e' T' :
  kstep sc cret (mem (base x)) t (stk (base x) t) = (m', e', T') ->
  istep x t = {| base := mk (base x) m' t T'; ini := ini x; g := gstep (base x) t T' (g x) |}.
Proof. intros H. unfold istep, step. rewrite H. cbn. unfold mk. rewrite upd_same. reflexivity. Qed.

Ltac loc_tac L Hlt HT :=
  apply local_step;
  [ exact L | exact Hlt
  | intros u Hu; cbn; rewrite ?upd_other by auto; reflexivity
  | intros u Hu; cbn; rewrite ?upd_other by auto; reflexivity
  | reflexivity | reflexivity | reflexivity | reflexivity | reflexivity | reflexivity
  | try (apply (not_asleep_top _ _ _ _ HT); discriminate)
  | rewrite HT; reflexivity | reflexivity | intros; discriminate
  | | | | | | ].

Ltac boolp :=
  repeat match goal with
  | H : (_ <=? _) = true |- _ => apply Z.leb_le in H
  | H : (_ <=? _) = false |- _ => apply Z.leb_gt in H
  | H : (_ <? _) = true |- _ => apply Z.ltb_lt in H
  | H : (_ <? _) = false |- _ => apply Z.ltb_ge in H
  | H : (_ =? _) = true |- _ => apply Z.eqb_eq in H
  | H : (_ =? _) = false |- _ => apply Z.eqb_neq in H
  end.

Ltac num HT :=
  unfold gstep, counter; rewrite ?HT; cbn -[Z.add Z.sub Z.max Z.opp]; rewrite ?upd_same;
  repeat match goal with H : slot_mpmc _ _ = _ |- _ => rewrite !H end; cbn -[Z.add Z.sub Z.max Z.opp];
  intros;
  repeat match goal with |- context [if ?b then _ else _] => destruct b eqn:?; cbn -[Z.add Z.sub Z.max Z.opp] end;
  boolp; try lia.

Ltac runsh := first [split; cbn; rewrite ?upd_same; solve [auto] | cbn; rewrite ?upd_same; solve [auto]].

Lemma linv_step x t : LInv x -> status_of (base x) t = SReady -> LInv (istep x t).
Proof.
  intros L E. pose proof L as [S C].
  unfold status_of in E. destruct (t <? nthr (base x))%nat eqn:Hlt; [|discriminate].
  apply Nat.ltb_lt in Hlt.
  pose proof (s_shape _ S t) as H. remember (stk (base x) t) as T eqn:HT. symmetry in HT.
  destruct (s_slots _ S t) as (SL1 & SL2 & SL3 & SL4).
  destruct H as [ R2 | p k R2 | p k [R1 R2] | p k [R1 R2] | p k [P1 P2] | p k [P1 P2] | p k [P1 P2] | p k [P1 P2]
                | p k [P1 P2] | p k R2 B F | p k R2 B F | p k R2 | p k [R1 R2] | p k [R1 R2] | p k [R1 R2]
                | p k v [R1 R2] Hv | p k b [R1 R2] | p k f [R1 R2] | p k [R1 R2] | p k v [R1 R2] Hv
                | p k [R1 R2] | p k [R1 R2] ].
  - (* done *) cbn in E. discriminate.
  - (* Start *)
    destruct p as [|[| |] p];
      (erewrite istep_form; [|rewrite HT; cbn; reflexivity]);
      loc_tac L Hlt HT; try (num HT; fail); try (constructor; runsh).
  - (* wait: fetch_sub *)
    destruct (0 <=? word (mem (base x)) 0 - 1) eqn:Hc.
    + destruct p as [|[| |] p];
        (erewrite istep_form; [|rewrite HT; cbn; rewrite Hc; cbn; reflexivity]);
        loc_tac L Hlt HT; try (num HT; fail); try (constructor; runsh).
    + erewrite istep_form; [|rewrite HT; cbn; rewrite Hc; cbn; reflexivity].
      loc_tac L Hlt HT; try (num HT; fail); try (constructor; runsh).
  - (* wait: QWait *)
    erewrite istep_form; [|rewrite HT; cbn; reflexivity].
    loc_tac L Hlt HT; try (num HT; fail). apply sh_wyread. runsh.
  - (* wait: YRead before sleeping *)
    erewrite istep_form; [|rewrite HT; cbn; rewrite P1; reflexivity].
    loc_tac L Hlt HT; try (num HT; fail). apply sh_wynext. runsh.
  - (* YNext WAITING *)
    erewrite istep_form; [|rewrite HT; cbn; reflexivity].
    loc_tac L Hlt HT; try (num HT; fail). apply sh_swread. runsh.
  - (* SwRead *)
    erewrite istep_form; [|rewrite HT; cbn; rewrite P1; cbn; reflexivity].
    loc_tac L Hlt HT; try (num HT; fail). apply sh_swdone. runsh.
  - (* SwDone *)
    erewrite istep_form; [|rewrite HT; cbn; reflexivity].
    loc_tac L Hlt HT; try (num HT; fail). apply sh_mread. runsh.
  - (* MRead: push + sleep *)
    erewrite istep_form;
      [|rewrite HT; cbn; rewrite P1; cbn; unfold run_slots; rewrite SL3, P2; cbn; rewrite SL1, SL2;
        unfold sleep; cbn; rewrite SL4; cbn; reflexivity].
    replace (gstep (base x) t [Asleep; YLoop; FC (SWaited p k)] (g x)) with (g x)
      by (unfold gstep; rewrite HT; reflexivity).
    apply push_step; auto; try reflexivity.
  - (* asleep and blocked: not ready *)
    cbn in E. rewrite B in E. discriminate.
  - (* asleep, made READY: resume *)
    erewrite istep_form; [|rewrite HT; cbn; reflexivity].
    loc_tac L Hlt HT; try (num HT; fail).
    + intros [_ B']. congruence.
    + apply sh_resume. auto.
  - (* Resume *)
    erewrite istep_form; [|rewrite HT; cbn; reflexivity].
    loc_tac L Hlt HT; try (num HT; fail). apply sh_ryread. runsh.
  - (* YRead after resuming *)
    erewrite istep_form; [|rewrite HT; cbn; rewrite R1; reflexivity].
    loc_tac L Hlt HT; try (num HT; fail). apply sh_rynext. runsh.
  - (* YNext RUNNING: wait returns *)
    destruct p as [|[| |] p];
      (erewrite istep_form; [|rewrite HT; cbn; reflexivity]);
      loc_tac L Hlt HT; try (num HT; fail); try (constructor; runsh).
  - (* trywait: load *)
    destruct (0 <? word (mem (base x)) 0) eqn:Hc.
    + erewrite istep_form; [|rewrite HT; cbn; rewrite Hc; cbn; reflexivity].
      loc_tac L Hlt HT; try (num HT; fail). apply sh_tcas; [runsh|boolp; lia].
    + destruct p as [|[| |] p];
        (erewrite istep_form; [|rewrite HT; cbn; rewrite Hc; cbn; reflexivity]);
        loc_tac L Hlt HT; try (num HT; fail); try (constructor; runsh).
  - (* trywait: CAS *)
    destruct (word (mem (base x)) 0 =? v) eqn:Hc.
    + destruct p as [|[| |] p];
        (erewrite istep_form; [|rewrite HT; cbn; rewrite Hc; cbn; reflexivity]);
        loc_tac L Hlt HT; try (num HT; fail); try (constructor; runsh).
    + erewrite istep_form; [|rewrite HT; cbn; rewrite Hc; cbn; reflexivity].
      loc_tac L Hlt HT; try (num HT; fail). constructor; runsh.
  - (* post: load *)
    destruct (word (mem (base x)) 0 <? 0) eqn:Hc.
    + destruct (mq (mem (base x)) 0%nat) as [|f rest] eqn:HQ.
      * erewrite istep_form; [|rewrite HT; cbn; rewrite Hc; unfold mq_pop; rewrite HQ; cbn; reflexivity].
        loc_tac L Hlt HT; try (num HT; fail). constructor; runsh.
      * erewrite istep_form; [|rewrite HT; cbn; rewrite Hc; unfold mq_pop; rewrite HQ; cbn; reflexivity].
        replace (gstep (base x) t [QReady f; FC (SPostWoke p k)] (g x)) with (g x)
          by (unfold gstep; rewrite HT; reflexivity).
        eapply pop_step; eauto; try reflexivity.
    + erewrite istep_form; [|rewrite HT; cbn; rewrite Hc; cbn; reflexivity].
      loc_tac L Hlt HT; try (num HT; fail). apply sh_pcas; [runsh|boolp; lia].
  - (* post: QReady *)
    destruct (s_qr _ S t f _ HT) as [[_ Bf] _].
    erewrite istep_form; [|rewrite HT; cbn; unfold wake; cbn; rewrite Bf; cbn; reflexivity].
    replace (gstep (base x) t [WFAdd 0 1 5; FC (SPostAdded p k)] (g x)) with (bR (g x))
      by (unfold gstep; rewrite HT; reflexivity).
    apply (ready_step x t p k f); auto; try reflexivity.
  - (* post: fetch_add *)
    erewrite istep_form; [|rewrite HT; cbn; reflexivity].
    loc_tac L Hlt HT; try (num HT; fail). constructor; runsh.
  - (* post: CAS *)
    destruct (word (mem (base x)) 0 =? v) eqn:Hc.
    + destruct p as [|[| |] p];
        (erewrite istep_form; [|rewrite HT; cbn; rewrite Hc; cbn; reflexivity]);
        loc_tac L Hlt HT; try (num HT; fail); try (constructor; runsh).
    + erewrite istep_form; [|rewrite HT; cbn; rewrite Hc; cbn; reflexivity].
      loc_tac L Hlt HT; try (num HT; fail). constructor; runsh.
  - (* post: yield, YRead *)
    erewrite istep_form; [|rewrite HT; cbn; rewrite R1; reflexivity].
    loc_tac L Hlt HT; try (num HT; fail). apply sh_pynext. runsh.
  - (* post: yield returns *)
    destruct p as [|[| |] p];
      (erewrite istep_form; [|rewrite HT; cbn; reflexivity]);
      loc_tac L Hlt HT; try (num HT; fail); try (constructor; runsh).
Qed.

Theorem ireach_linv v progs x : 0 <= v -> ireach v progs x -> LInv x.
Proof.
  intros Hv R. induction R as [|x t R IH E]; [apply init_linv; auto|apply linv_step; auto].
Qed.

Lemma ireach_ini v progs x : ireach v progs x -> ini x = v.
Proof. induction 1; auto. Qed.

Definition irun (x : ist) (sch : list nat) : ist :=
  fold_left (fun y t => match status_of (base y) t with SReady => istep y t | _ => y end) sch x.

Lemma ireach_irun v progs sch : forall x, ireach v progs x -> ireach v progs (irun x sch).
Proof.
  induction sch as [|t r IH]; intros x R; cbn; auto. apply IH.
  destruct (status_of (base x) t) eqn:E; auto. constructor; auto.
Qed.

(* ------------------------------------------------------------------ *)
(* the statements used by Properties_C06.v                              *)

Lemma total_le w w' n : (forall t, (t < n)%nat -> w t <= w' t) -> total w n <= total w' n.
Proof.
  induction n as [|n IH]; intros H; cbn; [lia|].
  specialize (IH ltac:(intros; apply H; lia)). specialize (H n ltac:(lia)). lia.
Qed.

Lemma total_sub w w' n : total (fun t => w t - w' t) n = total w n - total w' n.
Proof. induction n as [|n IH]; cbn; lia. Qed.

Lemma shape_kadd_kpp m t T : shape m t T -> kadd T <= kpp T.
Proof. intros H. destruct H; cbn; lia. Qed.

(* a post in progress that has not (yet) made any fiber READY *)
Definition post_unwoken (T : stack) : Prop :=
  (exists p k b, T = [WLoadW 0 2; FC (SPostLoad p k b)]) \/
  (exists p k f, T = [QReady f; FC (SPostWoke p k)]) \/
  (exists p k v, T = [WCasW 0 v (v + 1) 3; FC (SPostCas p k)]).

Lemma shape_unwoken m t T : shape m t T -> 0 < kpp T - kadd T -> post_unwoken T /\ T <> [] /\ forall r, T <> Asleep :: r.
Proof.
  intros H. destruct H; cbn; try lia; intros _.
  - split; [left; eauto|split; intros; discriminate].
  - split; [right; left; eauto|split; intros; discriminate].
  - split; [right; right; eauto|split; intros; discriminate].
Qed.

(* the wait call of fiber t has decremented the counter below zero and its push on
   the waiter queue is still pending in its maintenance slot *)
Definition announced (s : st) (t : nat) : Prop :=
  slot_mpmc (mem s) t = Some O \/ exists r, stk s t = QWait 0 :: r.

(* fiber t is inside fiber_semaphore_wait, has found no unit and no post has made it READY *)
Definition waiting (s : st) (t : nat) : Prop := announced s t \/ asleepW s t.

Lemma hi_top s t : Struct s -> (nthr s <= t)%nat -> slot_mpmc (mem s) t = None /\ exists r, stk s t = Start :: r.
Proof.
  intros S Ht. destruct (s_hi s S t Ht) as [r E]. split; [|eauto].
  pose proof (s_shape s S t) as H. rewrite E in H. inversion H; auto.
Qed.

Lemma waiting_counts s t : Struct s -> waiting s t -> 1 <= NPRE s + QLEN s + NPOP s.
Proof.
  intros S W. destruct (counts_nonneg s) as (N1 & N2 & N3 & N4 & N5).
  destruct W as [A|A].
  - assert (Ht : (t < nthr s)%nat).
    { destruct (Nat.lt_ge_cases t (nthr s)) as [|Hge]; auto. exfalso.
      destruct (hi_top s t S Hge) as [B [r E]]. destruct A as [A|[r' A]]; [congruence|]. rewrite E in A. discriminate. }
    destruct (own_le s t Ht) as (O1 & _).
    assert (1 <= kslot (slot_mpmc (mem s) t) + kqwait (stk s t)).
    { pose proof (kslot_nonneg (slot_mpmc (mem s) t)). pose proof (kqwait_nonneg (stk s t)).
      destruct A as [A|[r A]]; [rewrite A in *; cbn [kslot] in *; lia|rewrite A in *; cbn [kqwait] in *; lia]. }
    lia.
  - destruct (s_blk s S t A) as [B|[u [r B]]].
    + unfold QLEN. destruct (mq (mem s) 0%nat); [destruct B|cbn [length]; lia].
    + assert (Hu : (u < nthr s)%nat).
      { destruct (Nat.lt_ge_cases u (nthr s)) as [|Hge]; auto. exfalso.
        destruct (hi_top s u S Hge) as [_ [r' E]]. rewrite E in B. discriminate. }
      destruct (own_le s u Hu) as (_ & O2 & _). rewrite B in O2. cbn in O2. lia.
Qed.

Lemma over_admission_of_linv x : LInv x -> succeeded x <= ini x + posts_begun x.
Proof.
  intros [S [C0 C1 C2 C3 C4]]. unfold succeeded, posts_begun.
  pose proof (s_bal _ S) as B.
  assert (NADD (base x) <= NPP (base x)).
  { apply total_le. intros t _. apply (shape_kadd_kpp (mem (base x)) t). apply (s_shape _ S). }
  destruct (counts_nonneg (base x)) as (N1 & N2 & N3 & N4 & N5). lia.
Qed.

Lemma counter_of_linv x : LInv x ->
  counter (base x) = ini x + gPcas (g x) + gPwake (g x) - gWfast (g x) - gWslow (g x) - gTok (g x) /\
  Z.max 0 (- counter (base x)) = NPRE (base x) + QLEN (base x) + NPOP (base x) + NADD (base x).
Proof. intros [S C]. split; [apply (c_c x C)|symmetry; apply (s_bal _ S)]. Qed.

Lemma no_lost_post_of_linv x t : LInv x -> waiting (base x) t ->
  counter (base x) < 0 /\
  ini x + posts_effective x - succeeded x <= 0 /\
  (0 < ini x + posts_begun x - succeeded x ->
   exists u, (u < nthr (base x))%nat /\ post_unwoken (stk (base x) u) /\ status_of (base x) u = SReady).
Proof.
  intros [S [C0 C1 C2 C3 C4]] W. pose proof (waiting_counts _ t S W) as W1.
  pose proof (s_bal _ S) as B.
  destruct (counts_nonneg (base x)) as (N1 & N2 & N3 & N4 & N5).
  unfold succeeded, posts_begun, posts_effective. repeat split; try lia.
  intros Hp.
  assert (0 < total (fun u => kpp (stk (base x) u) - kadd (stk (base x) u)) (nthr (base x))).
  { rewrite total_sub. fold (NPP (base x)). fold (NADD (base x)). lia. }
  apply total_pos in H. destruct H as [u [Hu Hk]]. exists u. split; auto.
  destruct (shape_unwoken _ u _ (s_shape _ S u) Hk) as (A1 & A2 & A3). split; auto.
  unfold status_of. apply Nat.ltb_lt in Hu. rewrite Hu.
  destruct (stk (base x) u) as [|a r]; [congruence|]. destruct a; try reflexivity. exfalso. eapply A3; eauto.
Qed.

(* nothing can run: every fiber has finished or sleeps *)
Definition quiescent (s : st) : Prop := forall t, (t < nthr s)%nat -> status_of s t <> SReady.
(* every fiber has finished or is inside rt_block_self (possibly already made READY) *)
Definition settled (s : st) : Prop := forall t, (t < nthr s)%nat -> stk s t = [] \/ exists r, stk s t = Asleep :: r.

Lemma quiescent_settled s : quiescent s -> settled s.
Proof.
  intros Q t Ht. specialize (Q t Ht). unfold status_of in Q. apply Nat.ltb_lt in Ht. rewrite Ht in Q.
  destruct (stk s t) as [|a r]; auto. right. destruct a; cbn in Q; try congruence. eauto.
Qed.

Lemma settled_counts s : Struct s -> settled s -> NPRE s = 0 /\ NPOP s = 0 /\ NADD s = 0 /\ NPP s = 0.
Proof.
  intros S Q.
  assert (Z0 : forall w, (forall t, (t < nthr s)%nat -> w t = 0) -> total w (nthr s) = 0).
  { intros w H. rewrite (total_ext w (fun _ => 0)) by auto. apply total_const0. }
  assert (K : forall t, (t < nthr s)%nat ->
            wpre s t = 0 /\ kpop (stk s t) = 0 /\ kadd (stk s t) = 0 /\ kpp (stk s t) = 0).
  { intros t Ht. pose proof (s_shape s S t) as H. unfold wpre.
    destruct (Q t Ht) as [E|[r E]]; rewrite E in *.
    - inversion H. cbn. match goal with H : slot_mpmc _ _ = None |- _ => rewrite H end. repeat split; reflexivity.
    - inversion H; subst; cbn; repeat split; auto;
        match goal with H : slot_mpmc _ _ = None |- _ => rewrite H; reflexivity end. }
  repeat split; apply Z0; intros t Ht; apply K; auto.
Qed.

Lemma settled_waiting s t : Struct s -> settled s -> waiting s t -> In t (mq (mem s) 0).
Proof.
  intros S Q W.
  assert (NS : forall u a r, stk s u = a :: r -> a <> Asleep -> (u < nthr s)%nat -> False).
  { intros u a r E Ha Hu. destruct (Q u Hu) as [E'|[r' E']]; rewrite E in E'; [discriminate|]. inversion E'. auto. }
  destruct W as [A|A].
  - exfalso.
    assert (Ht : (t < nthr s)%nat).
    { destruct (Nat.lt_ge_cases t (nthr s)) as [|Hge]; auto. exfalso.
      destruct (hi_top s t S Hge) as [B [r E]]. destruct A as [A|[r' A]]; [congruence|]. rewrite E in A. discriminate. }
    destruct A as [A|[r A]].
    + pose proof (s_shape s S t) as H.
      destruct (Q t Ht) as [E|[r E]]; rewrite E in H; inversion H; congruence.
    + apply (NS t _ _ A); auto. discriminate.
  - destruct (s_blk s S t A) as [B|[u [r B]]]; auto. exfalso.
    assert (Hu : (u < nthr s)%nat).
    { destruct (Nat.lt_ge_cases u (nthr s)) as [|Hge]; auto. exfalso.
      destruct (hi_top s u S Hge) as [_ [r' E]]. rewrite E in B. discriminate. }
    apply (NS u _ _ B); auto. discriminate.
Qed.

Lemma quiescence_of_linv x : LInv x -> settled (base x) ->
  (forall t, waiting (base x) t -> In t (mq (mem (base x)) 0)) /\
  posts_begun x = posts_effective x /\
  (mq (mem (base x)) 0%nat <> [] ->
     counter (base x) = - QLEN (base x) /\ ini x + posts_begun x = succeeded x).
Proof.
  intros [S [C0 C1 C2 C3 C4]] Q. destruct (settled_counts _ S Q) as (Z1 & Z2 & Z3 & Z4).
  pose proof (s_bal _ S) as B. unfold succeeded, posts_begun, posts_effective.
  split; [intros t W; apply settled_waiting; auto|]. split; [lia|].
  intros Hne. assert (1 <= QLEN (base x)).
  { unfold QLEN. destruct (mq (mem (base x)) 0%nat); [congruence|cbn [length]; lia]. }
  lia.
Qed.

Lemma value_of_linv x : LInv x -> settled (base x) ->
  counter (base x) = ini x + posts_begun x - succeeded x - QLEN (base x) /\
  (mq (mem (base x)) 0%nat = [] -> counter (base x) = ini x + posts_begun x - succeeded x /\ 0 <= counter (base x)).
Proof.
  intros [S [C0 C1 C2 C3 C4]] Q. destruct (settled_counts _ S Q) as (Z1 & Z2 & Z3 & Z4).
  pose proof (s_bal _ S) as B. unfold succeeded, posts_begun.
  split; [lia|]. intros E. assert (QLEN (base x) = 0) by (unfold QLEN; rewrite E; reflexivity). lia.
Qed.

(* ---- trywait ---- *)
Lemma trywait_shape s t p k : Struct s ->
  In (FC (STryLoad p k)) (stk s t) \/ In (FC (STryCas p k)) (stk s t) ->
  stk s t = [WLoadW 0 2; FC (STryLoad p k)] \/
  exists v, 0 < v /\ stk s t = [WCasW 0 v (v - 1) 3; FC (STryCas p k)].
Proof.
  intros S H. pose proof (s_shape s S t) as Sh.
  destruct Sh; cbn in H;
    repeat match goal with H : _ \/ _ |- _ => destruct H as [H|H] end;
    try discriminate; try contradiction.
  - inversion H; subst. left; reflexivity.
  - inversion H; subst. right; eauto.
Qed.

Lemma trywait_ready s t p k : Struct s -> (t < nthr s)%nat ->
  In (FC (STryLoad p k)) (stk s t) \/ In (FC (STryCas p k)) (stk s t) -> status_of s t = SReady.
Proof.
  intros S Ht H. unfold status_of. apply Nat.ltb_lt in Ht. rewrite Ht.
  destruct (trywait_shape s t p k S H) as [E|[v [_ E]]]; rewrite E; reflexivity.
Qed.

Lemma trywait_load_step s t p k :
  stk s t = [WLoadW 0 2; FC (STryLoad p k)] ->
  snd (step s t) = ev t (l_word 0) 22 (pc64 (counter s)) ++ (if 0 <? counter s then [] else retev t k 0) /\
  counter (fst (step s t)) = counter s.
Proof.
  intros E. unfold step, counter. rewrite E. cbn.
  destruct (0 <? word (mem s) 0); cbn; auto.
Qed.

Lemma trywait_cas_step s t p k v :
  stk s t = [WCasW 0 v (v - 1) 3; FC (STryCas p k)] ->
  if counter s =? v
  then snd (step s t) = ev t (l_word 0) 73 (pc64 (v - 1)) ++ retev t k 1 /\ counter (fst (step s t)) = v - 1
  else snd (step s t) = ev t (l_word 0) 83 (pc64 (counter s)) /\ counter (fst (step s t)) = counter s.
Proof.
  intros E. unfold step, counter. rewrite E. cbn.
  destruct (word (mem s) 0 =? v); cbn; auto.
Qed.

Lemma reachable_struct v progs s : 0 <= v -> reachable M (init v progs) s -> Struct s.
Proof.
  intros Hv R. destruct (reachable_ireach v progs s R) as [x [Rx <-]].
  apply (ireach_linv v progs x Hv Rx).
Qed.

(* ---- the same statements from reachability (used verbatim by Properties_C06.v) ---- *)
Lemma over_admission_reach v progs x : 0 <= v -> ireach v progs x -> succeeded x <= v + posts_begun x.
Proof.
  intros Hv R. rewrite <- (ireach_ini v progs x R).
  exact (over_admission_of_linv x (ireach_linv v progs x Hv R)).
Qed.

Lemma counter_reach v progs x : 0 <= v -> ireach v progs x ->
  counter (base x) = v + gPcas (g x) + gPwake (g x) - gWfast (g x) - gWslow (g x) - gTok (g x) /\
  Z.max 0 (- counter (base x)) = NPRE (base x) + QLEN (base x) + NPOP (base x) + NADD (base x).
Proof.
  intros Hv R. rewrite <- (ireach_ini v progs x R).
  exact (counter_of_linv x (ireach_linv v progs x Hv R)).
Qed.

Lemma trywait_reach v progs s t p k :
  0 <= v -> reachable M (init v progs) s ->
  In (FC (STryLoad p k)) (stk s t) \/ In (FC (STryCas p k)) (stk s t) ->
  ((t < nthr s)%nat -> status_of s t = SReady) /\
  ((stk s t = [WLoadW 0 2; FC (STryLoad p k)] /\
    snd (step s t) = ev t (l_word 0) 22 (pc64 (counter s)) ++ (if 0 <? counter s then [] else retev t k 0) /\
    counter (fst (step s t)) = counter s)
   \/
   (exists c, 0 < c /\ stk s t = [WCasW 0 c (c - 1) 3; FC (STryCas p k)] /\
      if counter s =? c
      then snd (step s t) = ev t (l_word 0) 73 (pc64 (c - 1)) ++ retev t k 1 /\ counter (fst (step s t)) = c - 1
      else snd (step s t) = ev t (l_word 0) 83 (pc64 (counter s)) /\ counter (fst (step s t)) = counter s)).
Proof.
  intros Hv R H. pose proof (reachable_struct v progs s Hv R) as S.
  split; [intros Ht; exact (trywait_ready s t p k S Ht H)|].
  destruct (trywait_shape s t p k S H) as [E|[c [Hc E]]].
  - left. split; [exact E|exact (trywait_load_step s t p k E)].
  - right. exists c. split; [exact Hc|]. split; [exact E|exact (trywait_cas_step s t p k c E)].
Qed.

Lemma no_lost_post_reach v progs x t :
  0 <= v -> ireach v progs x -> waiting (base x) t ->
  counter (base x) < 0 /\
  v + posts_effective x - succeeded x <= 0 /\
  (0 < v + posts_begun x - succeeded x ->
   exists u, (u < nthr (base x))%nat /\ post_unwoken (stk (base x) u) /\ status_of (base x) u = SReady).
Proof.
  intros Hv R. rewrite <- (ireach_ini v progs x R).
  exact (no_lost_post_of_linv x t (ireach_linv v progs x Hv R)).
Qed.

Lemma quiescence_reach v progs x :
  0 <= v -> ireach v progs x -> quiescent (base x) ->
  (forall t, waiting (base x) t -> In t (mq (mem (base x)) 0)) /\
  posts_begun x = posts_effective x /\
  (mq (mem (base x)) 0%nat <> [] ->
     counter (base x) = - QLEN (base x) /\ v + posts_begun x = succeeded x).
Proof.
  intros Hv R Q. rewrite <- (ireach_ini v progs x R).
  exact (quiescence_of_linv x (ireach_linv v progs x Hv R) (quiescent_settled _ Q)).
Qed.

Lemma value_reach v progs x :
  0 <= v -> ireach v progs x -> settled (base x) ->
  counter (base x) = v + posts_begun x - succeeded x - QLEN (base x) /\
  (mq (mem (base x)) 0%nat = [] ->
     counter (base x) = v + posts_begun x - succeeded x /\ 0 <= counter (base x)).
Proof.
  intros Hv R Q. rewrite <- (ireach_ini v progs x R).
  exact (value_of_linv x (ireach_linv v progs x Hv R) Q).
Qed.
