(* Proofs about the LIFO model (coq/Lifo.v): an inductive invariant over every
   reachable state of the machine instrumented with ghosts:
     stk  = the abstract content (list of node ids, top first),
     hist = the history of effects (push / pop at their successful DCAS, an
            empty-pop at its head load), in the order they took effect,
     ver  = number of successful DCAS so far,
     sver t = value of ver when thread t last loaded the counter word.
   Any number of threads, any programs, any schedule, immediate node reuse. *)
From Coq Require Import List ZArith Lia Bool Arith.
From LF Require Import Conc DcasLib Lifo.
Import ListNotations.

(* ---------- the instrumented machine ---------- *)
Inductive hev := HPush (t n : nat) | HPop (t n : nat) | HEmpty (t : nat).

Record ist := { base : st; stk : list nat; hist : list hev; ver : nat; sver : nat -> nat }.

Definition cas_ok (s : st) (T : tst) : bool := (ctr s =? sc T)%Z && (head s =? sh T).

Definition lstep (x : ist) (t : nat) : ist :=
  let s := base x in
  let T := thr s t in
  let s' := fst (step s t) in
  match pc T with
  | PCtr | QCtr => {| base := s'; stk := stk x; hist := hist x; ver := ver x; sver := upd (sver x) t (ver x) |}
  | PCas => if cas_ok s T
            then {| base := s'; stk := node T :: stk x; hist := hist x ++ [HPush t (node T)];
                    ver := S (ver x); sver := sver x |}
            else {| base := s'; stk := stk x; hist := hist x; ver := ver x; sver := sver x |}
  | QCas => if cas_ok s T
            then {| base := s'; stk := tl (stk x); hist := hist x ++ [HPop t (sh T)];
                    ver := S (ver x); sver := sver x |}
            else {| base := s'; stk := stk x; hist := hist x; ver := ver x; sver := sver x |}
  | QHead => match head s with
             | O => {| base := s'; stk := stk x; hist := hist x ++ [HEmpty t]; ver := ver x; sver := sver x |}
             | S _ => {| base := s'; stk := stk x; hist := hist x; ver := ver x; sver := sver x |}
             end
  | _ => {| base := s'; stk := stk x; hist := hist x; ver := ver x; sver := sver x |}
  end.

Lemma lstep_erase x t : base (lstep x t) = fst (step (base x) t).
Proof.
  unfold lstep. destruct (pc (thr (base x) t)); try reflexivity.
  - destruct (cas_ok _ _); reflexivity.
  - destruct (head (base x)); reflexivity.
  - destruct (cas_ok _ _); reflexivity.
Qed.

Definition iinit k start progs : ist :=
  {| base := init k start progs; stk := []; hist := []; ver := 0; sver := fun _ => 0 |}.

Inductive ireach k start progs : ist -> Prop :=
| ir_init : ireach k start progs (iinit k start progs)
| ir_step x t : ireach k start progs x -> ireach k start progs (lstep x t).

Lemma reachable_ireach k start progs s :
  reachable M (init k start progs) s -> exists x, ireach k start progs x /\ base x = s.
Proof.
  induction 1 as [|s t R IH St].
  - exists (iinit k start progs). split; [constructor|reflexivity].
  - destruct IH as (x & Rx & <-). exists (lstep x t). split; [constructor; auto|apply lstep_erase].
Qed.

Definition irun (x : ist) (sch : list nat) : ist := fold_left lstep sch x.
Lemma ireach_irun k start progs sch : forall x, ireach k start progs x -> ireach k start progs (irun x sch).
Proof. induction sch as [|t r IH]; intros x R; cbn; auto. apply IH. constructor. exact R. Qed.

(* the sequential stack specification: replaying the history *)
Fixpoint replay (h : list hev) (s : list nat) : option (list nat) :=
  match h with
  | [] => Some s
  | HPush _ n :: r => replay r (n :: s)
  | HPop _ n :: r => match s with
                     | a :: s' => if Nat.eqb a n then replay r s' else None
                     | [] => None
                     end
  | HEmpty _ :: r => match s with [] => replay r [] | _ :: _ => None end
  end.

Lemma replay_app h1 h2 : forall s,
  replay (h1 ++ h2) s = match replay h1 s with Some s1 => replay h2 s1 | None => None end.
Proof.
  induction h1 as [|e r IH]; intros s; cbn; auto.
  destruct e; auto.
  - destruct s as [|a s']; auto. destruct (Nat.eqb a n); auto.
  - destruct s; auto.
Qed.

(* ---------- the invariant ---------- *)
Definition scok (start : Z) (vr sv : nat) (T : tst) : Prop :=
  sc T = (start + Z.of_nat sv)%Z /\ sv <= vr.

Definition lok (start : Z) (hd : nat) (nx : nat -> nat) (vr sv : nat) (T : tst) : Prop :=
  match pc T with
  | PCtr => In (node T) (own T)
  | PHead => In (node T) (own T) /\ scok start vr sv T
  | PNext => In (node T) (own T) /\ scok start vr sv T /\ (sv = vr -> hd = sh T)
  | PCas => In (node T) (own T) /\ scok start vr sv T /\ (sv = vr -> hd = sh T /\ nx (node T) = sh T)
  | QCtr => True
  | QHead => scok start vr sv T
  | QNext => scok start vr sv T /\ sh T <> 0 /\ (sv = vr -> hd = sh T)
  | QCas => scok start vr sv T /\ sh T <> 0 /\ (sv = vr -> hd = sh T /\ nx (sh T) = sn T)
  | Fin => True
  end.

Record LInv (U : nat -> Prop) (start : Z) (x : ist) : Prop := {
  g_chain : chain (next (base x)) (head (base x)) (stk x);
  g_nodup : NoDup (stk x);
  g_ver : ctr (base x) = (start + Z.of_nat (ver x))%Z;
  g_own_nodup : forall t, NoDup (own (thr (base x) t));
  g_own_nz : forall t n, In n (own (thr (base x) t)) -> n <> 0;
  g_own_disj : forall t u n, In n (own (thr (base x) t)) -> In n (own (thr (base x) u)) -> t = u;
  g_own_stk : forall t n, In n (own (thr (base x) t)) -> ~ In n (stk x);
  g_all : forall n, U n -> In n (stk x) \/ exists t, In n (own (thr (base x) t));
  g_loc : forall t, lok start (head (base x)) (next (base x)) (ver x) (sver x t) (thr (base x) t);
  g_hist : replay (hist x) [] = Some (stk x)
}.

Definition fresh_pc (T : tst) : Prop :=
  pc T = Fin \/ pc T = QCtr \/ (pc T = PCtr /\ In (node T) (own T)).

Lemma begin_spec t p : forall ow i, own (fst (begin t ow p i)) = ow /\ fresh_pc (fst (begin t ow p i)).
Proof.
  induction p as [|o r IH]; intros ow i; cbn.
  - split; auto. left; auto.
  - destruct o.
    + destruct ow as [|b ow'].
      * specialize (IH [] (S i)). destruct (begin t [] r (S i)) as [T e]. exact IH.
      * cbn [fst own]. split; auto. right; right. cbn [pc node own]. split; auto.
        apply nth_In. apply Nat.mod_upper_bound. cbn; lia.
    + cbn. split; auto. right; left; auto.
    + cbn. split; auto. right; left; auto.
Qed.

Lemma fresh_lok start hd nx vr sv T : fresh_pc T -> lok start hd nx vr sv T.
Proof. unfold fresh_pc, lok. intros [E|[E|[E H]]]; rewrite E; auto. Qed.

(* a successful DCAS of another thread bumps ver: every condition "sv = vr"
   of the other threads becomes false *)
Lemma lok_bump start hd nx hd' nx' vr sv T : lok start hd nx vr sv T -> lok start hd' nx' (S vr) sv T.
Proof. unfold lok, scok. destruct (pc T); intuition lia. Qed.

Ltac thr_cases u t :=
  destruct (Nat.eq_dec u t) as [->|?];
  [ rewrite ?upd_same in * | rewrite ?(upd_other _ t _ u) in * by assumption ].

(* a step that changes only thread t's private state (same owned nodes) *)
Lemma private_step U start x t T' svf hist' :
  LInv U start x ->
  own T' = own (thr (base x) t) ->
  (forall u, u <> t -> svf u = sver x u) ->
  lok start (head (base x)) (next (base x)) (ver x) (svf t) T' ->
  replay hist' [] = Some (stk x) ->
  LInv U start {| base := set_thr (base x) t T'; stk := stk x; hist := hist'; ver := ver x; sver := svf |}.
Proof.
  intros [Ic Ind Iv Ion Ioz Iod Ios Ia Il Ih] Ho Hs Hl Hh.
  constructor; cbn [base stk hist ver sver set_thr ctr head next thr]; auto.
  - intros u. thr_cases u t; auto. rewrite Ho; auto.
  - intros u n. thr_cases u t; eauto. rewrite Ho; eauto.
  - intros u v n. thr_cases u t; thr_cases v t; rewrite ?Ho; eauto.
  - intros u n. thr_cases u t; rewrite ?Ho; eauto.
  - intros n Hn. destruct (Ia n Hn) as [?|[u Hu]]; auto. right. exists u.
    thr_cases u t; rewrite ?Ho; auto.
  - intros u. thr_cases u t; auto. rewrite Hs by assumption. apply Il.
Qed.

(* node->next = snapshot head: a plain write to a node the thread owns *)
Lemma write_step U start x t :
  LInv U start x -> pc (thr (base x) t) = PNext ->
  let s := base x in let T := thr s t in
  LInv U start
    {| base := {| ctr := ctr s; head := head s; next := upd (next s) (node T) (sh T);
                  thr := upd (thr s) t {| pc := PCas; sc := sc T; sh := sh T; sn := sn T; node := node T;
                                          drain := drain T; own := own T; prog := prog T; opi := opi T |};
                  nthr := nthr s |};
       stk := stk x; hist := hist x; ver := ver x; sver := sver x |}.
Proof.
  intros [Ic Ind Iv Ion Ioz Iod Ios Ia Il Ih] Hpc s T.
  assert (LT := Il t). fold s T in LT. unfold lok in LT. fold s in Hpc. fold T in Hpc. rewrite Hpc in LT.
  destruct LT as (Lin & Lsc & Lh).
  assert (Hns : ~ In (node T) (stk x)) by (apply (Ios t); exact Lin).
  constructor; cbn [base stk hist ver sver ctr head next thr]; auto.
  - apply chain_upd; auto.
  - intros u. thr_cases u t; cbn [own]; auto; try apply Ion.
  - intros u n. thr_cases u t; cbn [own]; eauto; try apply Ioz.
  - intros u v n. thr_cases u t; thr_cases v t; cbn [own]; eauto;
      try apply (Iod t v n); try apply (Iod u t n).
  - intros u n. thr_cases u t; cbn [own]; eauto; try apply (Ios t n).
  - intros n Hn. destruct (Ia n Hn) as [?|[u Hu]]; auto. right. exists u. thr_cases u t; auto.
  - intros u. thr_cases u t.
    + unfold lok; cbn [pc node own sh sc sn]. split; [exact Lin|]. split; [exact Lsc|].
      intros E. split; auto. apply upd_same.
    + assert (Lu := Il u). fold s in Lu. unfold lok in *.
      destruct (pc (thr s u)) eqn:Hu; auto.
      * destruct Lu as (A & B & C). split; auto. split; auto. intros E. destruct (C E) as [C1 C2]. split; auto.
        rewrite upd_other; auto. intros E2. apply n. apply (Iod u t (node (thr s u))); auto.
        rewrite E2. exact Lin.
      * destruct Lu as (B & Z & C). split; auto. split; auto. intros E. destruct (C E) as [C1 C2]. split; auto.
        rewrite upd_other; auto. intros E2. apply Hns. rewrite <- E2, <- C1.
        apply (chain_head_in (next s)); auto. rewrite C1; auto.
Qed.

Lemma cas_ok_true s T : cas_ok s T = true -> ctr s = sc T /\ head s = sh T.
Proof. unfold cas_ok. rewrite andb_true_iff, Z.eqb_eq, Nat.eqb_eq. auto. Qed.

(* successful DCAS of a push *)
Lemma push_step U start x t T' :
  LInv U start x ->
  let s := base x in let T := thr s t in
  pc T = PCas -> ctr s = sc T ->
  own T' = remove Nat.eq_dec (node T) (own T) -> fresh_pc T' ->
  LInv U start
    {| base := {| ctr := (ctr s + 1)%Z; head := node T; next := next s; thr := upd (thr s) t T'; nthr := nthr s |};
       stk := node T :: stk x; hist := hist x ++ [HPush t (node T)]; ver := S (ver x); sver := sver x |}.
Proof.
  intros [Ic Ind Iv Ion Ioz Iod Ios Ia Il Ih] s T Hpc Hc Ho Hf.
  assert (LT := Il t). fold s T in LT. unfold lok in LT. rewrite Hpc in LT.
  destruct LT as (Lin & [Lsc Lle] & Lh). fold s in Iv.
  assert (Ev : sver x t = ver x) by lia. destruct (Lh Ev) as [Eh En].
  assert (Hns : ~ In (node T) (stk x)) by (apply (Ios t); exact Lin).
  constructor; cbn [base stk hist ver sver ctr head next thr]; auto.
  - cbn. split; auto. split; [apply (Ioz t); exact Lin|]. rewrite En, <- Eh. exact Ic.
  - constructor; auto.
  - lia.
  - intros u. thr_cases u t; auto. rewrite Ho. apply nodup_remove; apply Ion.
  - intros u n. thr_cases u t; eauto. rewrite Ho. intros Hi. apply in_remove in Hi. apply (Ioz t n); tauto.
  - intros u v n. thr_cases u t; thr_cases v t; rewrite ?Ho; eauto.
    + intros H1 H2. apply in_remove in H1. apply (Iod t v n); tauto.
    + intros H1 H2. apply in_remove in H2. apply (Iod u t n); tauto.
  - intros u n. thr_cases u t; rewrite ?Ho; intros Hi [E|Hs].
    + apply in_remove in Hi. destruct Hi; congruence.
    + apply in_remove in Hi. destruct Hi. apply (Ios t n); auto.
    + apply n0. apply (Iod u t n); auto. rewrite <- E; exact Lin.
    + apply (Ios u n); auto.
  - intros n Hn. destruct (Ia n Hn) as [?|[u Hu]]; [left; right; auto|].
    destruct (Nat.eq_dec n (node T)) as [->|Hne]; [left; left; auto|]. right. exists u.
    thr_cases u t; auto. rewrite Ho. apply in_in_remove; auto.
  - intros u. thr_cases u t; [apply fresh_lok; auto|]. eapply lok_bump. apply Il.
  - rewrite replay_app, Ih. reflexivity.
Qed.

(* successful DCAS of a pop *)
Lemma pop_step U start x t T' :
  LInv U start x ->
  let s := base x in let T := thr s t in
  pc T = QCas -> ctr s = sc T ->
  own T' = sh T :: own T -> fresh_pc T' ->
  LInv U start
    {| base := {| ctr := (ctr s + 1)%Z; head := sn T; next := next s; thr := upd (thr s) t T'; nthr := nthr s |};
       stk := tl (stk x); hist := hist x ++ [HPop t (sh T)]; ver := S (ver x); sver := sver x |}.
Proof.
  intros [Ic Ind Iv Ion Ioz Iod Ios Ia Il Ih] s T Hpc Hc Ho Hf.
  assert (LT := Il t). fold s T in LT. unfold lok in LT. rewrite Hpc in LT.
  destruct LT as ([Lsc Lle] & Lz & Lh). fold s in Iv.
  assert (Ev : sver x t = ver x) by lia. destruct (Lh Ev) as [Eh En].
  fold s in Ic. rewrite Eh in Ic.
  destruct (chain_cons_inv _ _ _ Ic Lz) as (r & Er & Cr). rewrite Er in *. rewrite En in Cr.
  inversion Ind as [|? ? Hnr Hdr]; subst.
  assert (Hfree : forall u, ~ In (sh T) (own (thr s u))).
  { intros u Hi. apply (Ios u (sh T) Hi). left; auto. }
  constructor; cbn [base stk hist ver sver ctr head next thr tl]; auto.
  - lia.
  - intros u. thr_cases u t; auto. rewrite Ho. constructor; [apply Hfree|apply Ion].
  - intros u n. thr_cases u t; eauto. rewrite Ho. intros [<-|Hi]; auto. apply (Ioz t n Hi).
  - intros u v n. thr_cases u t; thr_cases v t; rewrite ?Ho; eauto.
    + intros [<-|H1] H2; [exfalso; apply (Hfree v); exact H2|apply (Iod t v n); auto].
    + intros H1 [<-|H2]; [exfalso; apply (Hfree u); exact H1|apply (Iod u t n); auto].
  - intros u n. thr_cases u t; rewrite ?Ho.
    + intros [<-|Hi] Hs; auto. apply (Ios t n Hi). right; auto.
    + intros Hi Hs. apply (Ios u n Hi). right; auto.
  - intros n Hn. destruct (Ia n Hn) as [[<-|?]|[u Hu]]; auto.
    + right. exists t. rewrite upd_same, Ho. left; auto.
    + right. exists u. thr_cases u t; auto. rewrite Ho. right; auto.
  - intros u. thr_cases u t; [apply fresh_lok; auto|]. eapply lok_bump. apply Il.
  - rewrite replay_app, Ih. cbn. rewrite Nat.eqb_refl. reflexivity.
Qed.

Lemma drain_fresh T : fresh_pc {| pc := QCtr; sc := sc T; sh := sh T; sn := sn T; node := node T; drain := true;
                                   own := sh T :: own T; prog := prog T; opi := opi T |}.
Proof. right; left; reflexivity. Qed.

Theorem linv_step U start x t : LInv U start x -> LInv U start (lstep x t).
Proof.
  intros I. unfold lstep, step. remember (base x) as s eqn:Hs. remember (thr s t) as T eqn:HT.
  assert (LT := g_loc _ _ _ I t). rewrite <- Hs, <- HT in LT. unfold lok in LT.
  assert (Hid : forall u, u <> t -> sver x u = sver x u) by auto.
  destruct (pc T) eqn:Hpc; cbn [fst].
  - (* PCtr *) subst s. apply private_step; auto.
    + rewrite <- HT; reflexivity.
    + intros u Hu. apply upd_other; auto.
    + rewrite upd_same. unfold lok, scok; cbn. split; auto. split; auto. apply (g_ver _ _ _ I).
    + apply (g_hist _ _ _ I).
  - (* PHead *) subst s. apply private_step; auto.
    + rewrite <- HT; reflexivity.
    + unfold lok; cbn. destruct LT as [A B]. repeat split; auto; apply B.
    + apply (g_hist _ _ _ I).
  - (* PNext *) subst s T. apply write_step; auto.
  - (* PCas *)
    destruct (cas_ok s T) eqn:Ec; unfold cas_ok in Ec; rewrite Ec.
    + apply cas_ok_true in Ec. destruct Ec as [Ec Eh].
      destruct (next_op t T (remove Nat.eq_dec (node T) (own T))) as [T' e] eqn:En. cbn [fst].
      pose proof (begin_spec t (prog T) (remove Nat.eq_dec (node T) (own T)) (opi T)) as [B1 B2].
      unfold next_op in En. rewrite En in B1, B2. cbn [fst] in B1, B2.
      subst s T. apply push_step; auto.
    + cbn [fst]. subst s. apply private_step; auto.
      * rewrite <- HT; reflexivity.
      * unfold lok; cbn. tauto.
      * apply (g_hist _ _ _ I).
  - (* QCtr *) subst s. apply private_step; auto.
    + rewrite <- HT; reflexivity.
    + intros u Hu. apply upd_other; auto.
    + rewrite upd_same. unfold lok, scok; cbn. split; auto. apply (g_ver _ _ _ I).
    + apply (g_hist _ _ _ I).
  - (* QHead *)
    destruct (head s) eqn:Eh.
    + destruct (next_op t T (own T)) as [T' e] eqn:En. cbn [fst].
      pose proof (begin_spec t (prog T) (own T) (opi T)) as [B1 B2].
      unfold next_op in En. rewrite En in B1, B2. cbn [fst] in B1, B2.
      subst s. apply private_step; auto.
      * rewrite <- HT; auto.
      * apply fresh_lok; auto.
      * rewrite replay_app, (g_hist _ _ _ I). cbn.
        pose proof (g_chain _ _ _ I) as C. rewrite Eh in C. apply chain_zero in C. rewrite C. reflexivity.
    + cbn [fst]. subst s. apply private_step; auto.
      * rewrite <- HT; reflexivity.
      * unfold lok; cbn. rewrite Eh. repeat split; auto; try apply LT.
      * apply (g_hist _ _ _ I).
  - (* QNext *) subst s. apply private_step; auto.
    + rewrite <- HT; reflexivity.
    + unfold lok; cbn. destruct LT as (A & B & C). split; [exact A|]. split; [exact B|].
      intros E. split; [apply C; exact E|reflexivity].
    + apply (g_hist _ _ _ I).
  - (* QCas *)
    destruct (cas_ok s T) eqn:Ec; unfold cas_ok in Ec; rewrite Ec.
    + apply cas_ok_true in Ec. destruct Ec as [Ec Eh].
      destruct (drain T) eqn:Ed.
      * cbn [fst]. subst s T. apply pop_step; auto. apply drain_fresh.
      * destruct (next_op t T (sh T :: own T)) as [T' e] eqn:En. cbn [fst].
        pose proof (begin_spec t (prog T) (sh T :: own T) (opi T)) as [B1 B2].
        unfold next_op in En. rewrite En in B1, B2. cbn [fst] in B1, B2.
        subst s T. apply pop_step; auto.
    + cbn [fst]. subst s. apply private_step; auto.
      * rewrite <- HT; reflexivity.
      * unfold lok; cbn. auto.
      * apply (g_hist _ _ _ I).
  - (* Fin *)
    destruct x; cbn in *; subst; exact I.
Qed.

(* ---------- initial state ---------- *)
Definition univ (k nt n : nat) : Prop := exists t, In n (init_own k nt t).

Lemma init_own_in k nt t n : In n (init_own k nt t) <-> t < nt /\ t * k + 1 <= n < t * k + 1 + k.
Proof.
  unfold init_own. destruct (Nat.ltb_spec t nt).
  - rewrite in_seq. tauto.
  - cbn. split; [tauto|lia].
Qed.

(* every node id 1 .. k*nt exists *)
Lemma univ_range k nt n : 1 <= n <= k * nt -> univ k nt n.
Proof.
  intros H. destruct k as [|k']; [lia|]. set (k := S k') in *.
  exists ((n - 1) / k). apply init_own_in.
  pose proof (Nat.div_mod (n - 1) k ltac:(lia)) as D.
  pose proof (Nat.mod_upper_bound (n - 1) k ltac:(lia)) as B.
  split.
  - apply Nat.div_lt_upper_bound; lia.
  - nia.
Qed.

Lemma init_linv k start progs : LInv (univ k (length progs)) start (iinit k start progs).
Proof.
  assert (Ow : forall t, own (thr (init k start progs) t) = init_own k (length progs) t).
  { intros t. cbn. apply begin_spec. }
  constructor; cbn [base stk hist ver sver iinit]; try rewrite Ow; auto.
  - cbn. reflexivity.
  - constructor.
  - cbn. lia.
  - intros t. rewrite Ow. unfold init_own. destruct (t <? length progs); [apply seq_NoDup|constructor].
  - intros t n. rewrite Ow, init_own_in. lia.
  - intros t u n. rewrite !Ow, !init_own_in. intros (A1 & A2) (B1 & B2).
    destruct (Nat.lt_trichotomy t u) as [L|[E|L]]; auto; exfalso; nia.
  - intros n [t Ht]. right. exists t. rewrite Ow. exact Ht.
  - intros t. apply fresh_lok. cbn. apply begin_spec.
Qed.

Theorem ireach_linv k start progs x :
  ireach k start progs x -> LInv (univ k (length progs)) start x.
Proof. induction 1; [apply init_linv|apply linv_step; auto]. Qed.

(* ---------- the statements used by Properties_C20.v ---------- *)

(* counter equality at the DCAS => no successful DCAS since the counter load,
   and everything the thread read is still current *)
Lemma push_snapshot_of_linv U start x t :
  LInv U start x -> pc (thr (base x) t) = PCas -> ctr (base x) = sc (thr (base x) t) ->
  sver x t = ver x /\ head (base x) = sh (thr (base x) t) /\
  next (base x) (node (thr (base x) t)) = sh (thr (base x) t) /\
  In (node (thr (base x) t)) (own (thr (base x) t)) /\ ~ In (node (thr (base x) t)) (stk x).
Proof.
  intros I Hpc Hc. assert (LT := g_loc _ _ _ I t). unfold lok in LT. rewrite Hpc in LT.
  destruct LT as (Lin & [Lsc Lle] & Lh). pose proof (g_ver _ _ _ I) as Iv.
  assert (Ev : sver x t = ver x) by lia. destruct (Lh Ev). repeat split; auto.
  apply (g_own_stk _ _ _ I t); auto.
Qed.

Lemma pop_snapshot_of_linv U start x t :
  LInv U start x -> pc (thr (base x) t) = QCas -> ctr (base x) = sc (thr (base x) t) ->
  sver x t = ver x /\ head (base x) = sh (thr (base x) t) /\
  next (base x) (sh (thr (base x) t)) = sn (thr (base x) t) /\
  exists r, stk x = sh (thr (base x) t) :: r /\ chain (next (base x)) (sn (thr (base x) t)) r.
Proof.
  intros I Hpc Hc. assert (LT := g_loc _ _ _ I t). unfold lok in LT. rewrite Hpc in LT.
  destruct LT as ([Lsc Lle] & Lz & Lh). pose proof (g_ver _ _ _ I) as Iv.
  assert (Ev : sver x t = ver x) by lia. destruct (Lh Ev) as [Eh En]. repeat split; auto.
  pose proof (g_chain _ _ _ I) as C. rewrite Eh in C.
  destruct (chain_cons_inv _ _ _ C Lz) as (r & Er & Cr). exists r. split; auto. rewrite <- En. exact Cr.
Qed.

(* the snapshot counter never runs ahead, and ver counts the updates *)
Lemma counter_of_linv U start x t :
  LInv U start x ->
  ctr (base x) = (start + Z.of_nat (ver x))%Z /\
  (match pc (thr (base x) t) with
   | PHead | PNext | PCas | QHead | QNext | QCas =>
       sc (thr (base x) t) = (start + Z.of_nat (sver x t))%Z /\ sver x t <= ver x
   | _ => True end).
Proof.
  intros I. split; [apply (g_ver _ _ _ I)|].
  assert (LT := g_loc _ _ _ I t). unfold lok, scok in LT.
  destruct (pc (thr (base x) t)); tauto.
Qed.

Fixpoint pushes (n : nat) (h : list hev) : nat :=
  match h with
  | [] => 0
  | HPush _ m :: r => (if Nat.eqb m n then 1 else 0) + pushes n r
  | _ :: r => pushes n r
  end.
Fixpoint pops (n : nat) (h : list hev) : nat :=
  match h with
  | [] => 0
  | HPop _ m :: r => (if Nat.eqb m n then 1 else 0) + pops n r
  | _ :: r => pops n r
  end.

Lemma replay_count n h : forall s s', replay h s = Some s' ->
  count_occ Nat.eq_dec s n + pushes n h = pops n h + count_occ Nat.eq_dec s' n.
Proof.
  induction h as [|e r IH]; intros s s' H; cbn in H.
  - inversion H; subst. cbn. lia.
  - destruct e as [u m|u m|u].
    + apply IH in H. cbn [pushes pops]. cbn [count_occ] in H.
      destruct (Nat.eq_dec m n); destruct (Nat.eqb_spec m n); try congruence; lia.
    + destruct s as [|a s0]; [discriminate|]. destruct (Nat.eqb_spec a m); [|discriminate]. subst a.
      apply IH in H. cbn [pushes pops count_occ].
      destruct (Nat.eq_dec m n); destruct (Nat.eqb_spec m n); try congruence; lia.
    + destruct s; [|discriminate]. apply IH in H. cbn [pushes pops]. exact H.
Qed.

Lemma exactly_once_of_linv U start x :
  LInv U start x ->
  replay (hist x) [] = Some (stk x) /\
  chain (next (base x)) (head (base x)) (stk x) /\
  forall n, pushes n (hist x) = pops n (hist x) + (if in_dec Nat.eq_dec n (stk x) then 1 else 0).
Proof.
  intros I. split; [apply (g_hist _ _ _ I)|]. split; [apply (g_chain _ _ _ I)|].
  intros n. pose proof (replay_count n _ _ _ (g_hist _ _ _ I)) as C. cbn in C.
  pose proof (g_nodup _ _ _ I) as D. rewrite (NoDup_count_occ Nat.eq_dec) in D. specialize (D n).
  destruct (in_dec Nat.eq_dec n (stk x)) as [Hi|Hi].
  - apply (count_occ_In Nat.eq_dec) in Hi. lia.
  - apply (count_occ_not_In Nat.eq_dec) in Hi. lia.
Qed.

Lemma no_lost_no_dup_of_linv U start x :
  LInv U start x ->
  NoDup (stk x) /\
  (forall t, NoDup (own (thr (base x) t))) /\
  (forall t n, In n (own (thr (base x) t)) -> ~ In n (stk x)) /\
  (forall t u n, In n (own (thr (base x) t)) -> In n (own (thr (base x) u)) -> t = u) /\
  (forall n, U n -> In n (stk x) \/ exists t, In n (own (thr (base x) t))).
Proof.
  intros I. repeat split.
  - apply (g_nodup _ _ _ I).
  - apply (g_own_nodup _ _ _ I).
  - apply (g_own_stk _ _ _ I).
  - apply (g_own_disj _ _ _ I).
  - apply (g_all _ _ _ I).
Qed.

(* pop returns NULL only from an empty stack: at its head load *)
Lemma pop_null_of_linv U start x t :
  LInv U start x -> pc (thr (base x) t) = QHead -> head (base x) = 0 -> stk x = [].
Proof.
  intros I _ E. pose proof (g_chain _ _ _ I) as C. rewrite E in C. eapply chain_zero; eauto.
Qed.

(* a push only ever pushes a node the pushing thread owns *)
Lemma push_owned_of_linv U start x t :
  LInv U start x ->
  match pc (thr (base x) t) with
  | PCtr | PHead | PNext | PCas => In (node (thr (base x) t)) (own (thr (base x) t))
  | _ => True end.
Proof.
  intros I. assert (LT := g_loc _ _ _ I t). unfold lok in LT.
  destruct (pc (thr (base x) t)); tauto.
Qed.
