(* C11 — channels and signals: property theorems (statements only; proofs in
   ChanKBase.v / ChanKProofs.v (signal protocol), UChanProofs.v (unbounded MPSC
   channel), BChanProofs.v (bounded channel), ChanKStrand.v (no stranded
   receiver), MChanProofs.v / MChanProofs2.v / MChanAbs.v (multi channel)).

   Models: ChanK.M is the T1K client for include/fiber_signal.h and
   include/fiber_channel.h; Signal.init progs = UChan.init progs = ChanK.init 2
   progs and BChan.init k progs = ChanK.init (2^k) progs are the same machine
   with their own program decoders, so every theorem below, stated for
   ChanK.init size progs with arbitrary programs, covers the three lock-step
   models.  MChan.M is the T1K client for include/fiber_multi_channel.h.

   signal_single_waiter (documented discipline of the headers) appears as the
   hypothesis [single_waiter w progs]: only fiber w ever calls
   fiber_signal_wait, directly or through a blocking receive; all other fibers
   may raise / send / try_receive as they like. *)
From Coq Require Import List ZArith Lia Bool Arith.
From LF Require Import Conc T1K ChanK ChanKBase ChanKProofs ChanKStrand.
From LF Require Signal UChan BChan MChan UChanProofs BChanProofs MChanProofs MChanProofs2 MChanAbs.
Import ListNotations.
Local Open Scope Z_scope.

(* ================= 1. the signal ================= *)

(* The word is NO_WAITER, RAISED or the single waiter (signal_single_waiter as
   an invariant of the word). *)
Theorem signal_word_domain :
  forall w size progs (s : ChanK.st),
    single_waiter w progs -> reachable ChanK.M (ChanK.init size progs) s ->
    word s = NO_WAITER \/ word s = RAISED \/ word s = fname w.
Proof. intros w size progs s H R. exact (j_dom w s (reachable_J w size progs s H R)). Qed.
Print Assumptions signal_word_domain.

(* No lost raise.  [registered w s]: w's registering CAS succeeded and w has not
   been resumed yet (it is on its way to sleep, or asleep).  If the word no
   longer names w — some raise has exchanged it after the CAS — then a raiser
   r <> w is committed to waking w (it holds w and sits between its exchange
   and its schedule(w)), or the wake-up has already been delivered (w is
   runnable again).  Together with [raise_seen] (a raise that exchanged before
   the CAS makes the CAS fail: that wait returns without sleeping) and
   [raise_remembered] (a RAISED word stays RAISED until the waiter consumes it;
   RAISED -> RAISED coalesces) this is "seen or remembered, never lost". *)
Theorem signal_no_lost_raise :
  forall w size progs (s : ChanK.st),
    single_waiter w progs -> reachable ChanK.M (ChanK.init size progs) s ->
    (registered w s -> word s <> fname w ->
       (exists r, r <> w /\ committed s r w) \/ wake_delivered w s) /\
    (forall a p k, stk s w = [CCasC c_waiter NO_WAITER (fname w) 3; FC (KWCas a p k)] ->
       word s <> NO_WAITER ->
       stk (fst (ChanK.step s w)) w = [CStoreC c_waiter NO_WAITER 5; FC (KWEnd a p k)]) /\
    (forall t, t <> w -> no_claims s -> word s = RAISED -> word (fst (ChanK.step s t)) = RAISED).
Proof.
  intros w size progs s H R. pose proof (reachable_J w size progs s H R) as Hj.
  split; [|split].
  - intros A B. exact (no_lost_raise w s Hj (idle_beyond_reachable size progs s R) A B).
  - intros a p k E W. exact (raise_seen s w a p k E W).
  - intros t Ht N W. exact (raise_remembered w s t Hj Ht N W).
Qed.
Print Assumptions signal_no_lost_raise.

(* The C01-style ordering: a raiser reaches "old->state = READY; schedule(old)"
   only when old = w, w's maintenance has written the ready-to-wake marker and
   w is asleep (state WAITING, blocked): never woken before asleep. *)
Theorem signal_wake_after_sleep :
  forall w size progs (s : ChanK.st) r f p k,
    single_waiter w progs -> reachable ChanK.M (ChanK.init size progs) s ->
    stk s r = [FStWrite f ST_READY; FC (KRRdy f p k)] ->
    f = w /\ r <> w /\
    (exists a p' k', stk s w = [Asleep; YLoop; FC (KWSlept a p' k')]) /\
    cell (mem s) (c_scr w) = READY_TO_WAKE /\ blocked (mem s) w = true /\ fstate (mem s) w = ST_WAITING.
Proof.
  intros w size progs s r f p k H R E.
  exact (wake_after_sleep w s r f p k (reachable_J w size progs s H R) E).
Qed.
Print Assumptions signal_wake_after_sleep.

(* ================= 2. unbounded MPSC channel ================= *)

(* History theorem with ghost logs (instrumented machine UChanProofs.ist, erased
   by UChanProofs.base to ChanK states: uchan_ireach_sound / _complete):
   xlog = (sender, message) in the order of the tail exchanges, rlog = messages
   in the order the receiver returns them.  The received sequence is a prefix
   of the exchange order; each sender's exchanges are its sends in program
   order; so every received message was sent, per-sender order is preserved,
   and (distinct values) nothing is received twice. *)
Theorem chan_exactly_once_in_sender_order :
  forall w size progs x,
    UChanProofs.uchan_progs_ok w progs -> UChanProofs.ireach size progs x ->
    (exists rest, map snd (UChanProofs.xlog x) = UChanProofs.rlog x ++ rest) /\
    (forall t, exists rest, UChanProofs.usends (nth t progs []) =
                            UChanProofs.sender_proj t (UChanProofs.xlog x) ++ rest) /\
    (forall v, In v (UChanProofs.rlog x) ->
       exists t, In (t, v) (UChanProofs.xlog x) /\ In v (UChanProofs.usends (nth t progs []))) /\
    (UChanProofs.distinct_values progs ->
       NoDup (map snd (UChanProofs.xlog x)) /\ NoDup (UChanProofs.rlog x)) /\
    reachable ChanK.M (ChanK.init size progs) (UChanProofs.base x).
Proof.
  intros w size progs x H R. repeat split.
  - exact (UChanProofs.uchan_fifo w size progs x H R).
  - intros t. exact (UChanProofs.uchan_sender_order w size progs x t H R).
  - intros v Hv. exact (UChanProofs.uchan_received_was_sent w size progs x v H R Hv).
  - apply (UChanProofs.uchan_no_duplicate w size progs x H H0 R).
  - apply (UChanProofs.uchan_no_duplicate w size progs x H H0 R).
  - exact (UChanProofs.uchan_ireach_sound size progs x R).
Qed.
Print Assumptions chan_exactly_once_in_sender_order.

(* No stranded receiver ("sender publishes first and raises second; receiver clears the
   signal first and re-checks second").  [wkind (stk s w) = Some WKURecv /\ sleepy (ph w s)]:
   the receiver is inside the fiber_signal_wait of a blocking receive, before being resumed
   (about to clear its scratch, about to CAS, registered and on its way to sleep, or
   asleep); [avail_u s]: the queue holds a linked message (head->next <> NULL).  Then a
   thread is about to perform a raise's exchange (the sender that linked it, between its
   link and its raise), or — if the receiver is registered — a raiser is committed to
   waking it or the wake-up has been delivered, or — if it has not registered yet — the
   word is RAISED, so its CAS will fail and it re-checks the queue (signal_no_lost_raise). *)
Theorem chan_receiver_not_stranded :
  forall w size progs (s : ChanK.st),
    single_waiter w progs -> UChanProofs.uchan_progs_ok w progs ->
    reachable ChanK.M (ChanK.init size progs) s ->
    wkind (stk s w) = Some WKURecv -> sleepy (ph w s) = true -> avail_u s ->
    (exists r, at_rx (stk s r) = true) \/
    (registered w s /\ ((exists r, r <> w /\ committed s r w) \/ wake_delivered w s)) \/
    (~ registered w s /\ word s = RAISED).
Proof. exact uchan_receiver_not_stranded. Qed.
Print Assumptions chan_receiver_not_stranded.

(* ================= 3. bounded channel ================= *)

(* high - low never exceeds the capacity; a sender writes its slot only while
   the slot is NULL (and no other sender is about to write the same slot); the
   receiver clears exactly the slot of index low, which holds the non-NULL
   message it returns. *)
Theorem bounded_capacity :
  forall size w progs (s : ChanK.st), 0 < size -> BChanProofs.bchan_progs_ok w progs ->
    reachable ChanK.M (ChanK.init size progs) s ->
    let high := cell (mem s) c_high in let low := cell (mem s) c_low in
    (0 <= low /\ 0 <= high - low <= size) /\
    (forall t c v p k, stk s t = [CWrite c v; FC (KBWrite p k)] ->
       cell (mem s) c = 0 /\ v <> 0 /\
       (exists i, low <= i < high /\ c = c_buf (bidx size i)) /\
       (forall u v' p' k', stk s u = [CWrite c v'; FC (KBWrite p' k')] -> u = t)) /\
    (forall t c v m l p k, stk s t = [CWrite c v; FC (KQClear m l p k)] ->
       t = w /\ l = low /\ low < high /\ c = c_buf (bidx size low) /\ v = 0 /\
       cell (mem s) c = m /\ m <> 0).
Proof. exact BChanProofs.bchan_capacity. Qed.
Print Assumptions bounded_capacity.

(* clog = (sender, message) in the order of the successful high CAS, rlog =
   messages in the order of the receiver's low stores: rlog is a prefix of clog,
   the unreceived rest is exactly high - low long, per-sender order = program
   order, and the value a receive returns is the one claimed for its index. *)
Theorem bounded_exactly_once_in_order :
  forall size w progs (x : BChanProofs.bist), 0 < size -> BChanProofs.bchan_progs_ok w progs ->
    BChanProofs.bireach size progs x ->
    let s := BChanProofs.bbase x in
    let high := cell (mem s) c_high in let low := cell (mem s) c_low in
    (exists rest, map snd (BChanProofs.bclog x) = BChanProofs.brlog x ++ rest /\
                  Z.of_nat (length rest) = high - low) /\
    Z.of_nat (length (BChanProofs.bclog x)) = high /\ Z.of_nat (length (BChanProofs.brlog x)) = low /\
    Forall (fun v => v <> 0) (map snd (BChanProofs.bclog x)) /\
    (forall t, exists pend, BChanProofs.bsends (nth t progs []) =
                            BChanProofs.bsent_by t (BChanProofs.bclog x) ++ pend) /\
    (forall t c v mo m p k, stk s t = [CStoreC c v mo; FC (KQStore m p k)] ->
       t = w /\ v = low + 1 /\
       nth_error (map snd (BChanProofs.bclog x)) (length (BChanProofs.brlog x)) = Some m).
Proof. exact BChanProofs.bchan_fifo. Qed.
Print Assumptions bounded_exactly_once_in_order.

(* No stranded receiver, bounded channel: [avail_b s]: the slot the receiver reads next
   (index low) holds a message.  Same conclusion as chan_receiver_not_stranded.  (The proof
   also covers the receiver that is still reading with a stale value of high: U_b.) *)
Theorem bounded_receiver_not_stranded :
  forall w size progs (s : ChanK.st),
    0 < size -> single_waiter w progs -> BChanProofs.bchan_progs_ok w progs ->
    reachable ChanK.M (ChanK.init size progs) s ->
    wkind (stk s w) = Some WKBRecv -> sleepy (ph w s) = true -> avail_b s ->
    (exists r, at_rx (stk s r) = true) \/
    (registered w s /\ ((exists r, r <> w /\ committed s r w) \/ wake_delivered w s)) \/
    (~ registered w s /\ word s = RAISED).
Proof. exact bchan_receiver_not_stranded. Qed.
Print Assumptions bounded_receiver_not_stranded.

(* ================= 4. multi channel ================= *)

(* MChan.init k progs is the protocol in /repo (fix 30a0183): blocked senders and blocked
   receivers are kept in separate lists, a send wakes a receiver, a receive wakes a sender.
   MChan.init_ol true k progs is the ORIGINAL protocol with ONE list for both. *)

(* Regression of finding F-C11: the original one-list protocol strands a fiber.  Capacity
   2, senders 0,1,2 x 2 messages, receivers 3,4 x 3 messages, the 239-step schedule
   MChanProofs.strand_sched: buffer empty, sender 2 and receiver 4 both asleep in the one
   waiter list, nobody runnable — on an execution that respects mutual exclusion of the
   channel lock.  (The same schedule on the two-list model completes:
   MChanProofs.strand_fixed_completes; on the code in /repo: corpus/C11.txt.) *)
Theorem multichan_no_stranded_one_list_refuted :
  exists k progs s, reachable MChan.M (MChan.init_ol true k progs) s /\
                    MChanProofs2.reach_excl true k progs s /\ MChanProofs.stranded s.
Proof.
  exists 1%nat, MChanProofs.strand_progs, MChanProofs.strand_state.
  split; [exact MChanProofs.strand_reachable|].
  exact MChanProofs2.strand_state_reach_excl.
Qed.
Print Assumptions multichan_no_stranded_one_list_refuted.

(* Capacity and exactly-once-in-order of the protocol in /repo, relative to mutual exclusion
   of the channel lock: [reach_excl false k progs] = reachable from MChan.init k progs through
   states in which at most one fiber holds the channel lock (MChanProofs2.holds / excl).
   The hypothesis is DISCHARGED in Properties_C11_excl.v (multichan_lock_exclusion,
   multichan_reach_excl: every reachable state of MChan.M satisfies excl, for both list
   variants), which also states the unconditional theorems multichan_capacity and
   multichan_exactly_once_in_order.  The two relative statements are kept here under their
   _partial names because the unconditional ones are derived from them. *)
Theorem multichan_capacity_partial :
  forall (k : nat) (progs : list (list MChan.mop)) (s : MChan.st),
    MChanProofs2.reach_excl false k progs s ->
    0 <= cell (MChan.mem s) MChan.c_high - cell (MChan.mem s) MChan.c_low <= MChan.csize s /\
    forall t c x p kk,
      MChan.stk s t = [CWrite c x; FC (MChan.MSBuf p kk)] ->
      c = MChan.c_buf (MChan.bidx (MChan.csize s) (cell (MChan.mem s) MChan.c_high)) /\
      cell (MChan.mem s) c = 0.
Proof. exact (MChanProofs2.multichan_capacity_partial false). Qed.
Print Assumptions multichan_capacity_partial.

Theorem multichan_exactly_once_in_order_partial :
  forall (k : nat) (progs : list (list MChan.mop)) (x : MChanProofs2.ist),
    MChanProofs2.ireach_excl false k progs x ->
    MChanProofs2.prefix (MChanProofs2.rlog x) (MChanProofs2.slog x) /\
    cell (MChan.mem (MChanProofs2.base x)) MChan.c_high = MChanProofs2.Zlen (MChanProofs2.slog x) /\
    cell (MChan.mem (MChanProofs2.base x)) MChan.c_low = MChanProofs2.Zlen (MChanProofs2.rlog x).
Proof. exact (MChanProofs2.multichan_exactly_once_in_order_partial false). Qed.
Print Assumptions multichan_exactly_once_in_order_partial.

(* No stranded sender / receiver with the two lists.  Full statement (NOT proved on the
   faithful model):
     multichan_no_stranded : forall k progs s,
       reachable MChan.M (MChan.init k progs) s -> ~ MChanProofs.stranded s.
   Proved: on the abstract attempt-level two-list protocol MChanAbs.ast2 / astep2 (each send /
   receive attempt atomic, as it is under the channel lock; a blocked sender queues on ws, a
   blocked receiver on wr; a completed send wakes the top of wr, a completed receive the top
   of ws), for ANY number of senders and receivers, any operation counts, any capacity:
   (1) the obligation invariant: a blocked sender while the buffer has room implies a sender
       that is awake with operations left; a blocked receiver while a message is buffered
       implies an awake receiver with operations left (wake credits: ws <> [] -> size - cnt <=
       #awake senders, wr <> [] -> cnt <= #awake receivers);
   (2) hence no reachable state is stranded;
   and, as regression, (3) the one-list abstract protocol does strand with several senders and
   receivers (MChanAbs.abs_stranded_example).
   The FULL statement is proved in Properties_C11_ref.v (multichan_no_stranded, for arbitrary
   programs, directly on the faithful model: the wake-credit invariant of MChanAbs.Inv2 carried
   over to the concrete states on top of the ownership machine of MChanExclBase.v; no refinement
   to MChanAbs is needed).  The abstract result below is kept as the readable protocol-level
   argument and as the home of the one-list regression (abs_stranded_example). *)
Theorem multichan_no_stranded_partial :
  (forall (size nfib : nat) (st0 st : MChanAbs.ast2),
     (0 < size)%nat -> MChanAbs.ainit2 st0 -> MChanAbs.areach2 size nfib st0 st ->
     ((exists i, (i < nfib)%nat /\ MChanAbs.fawake (MChanAbs.fib2 st i) = false /\
                 MChanAbs.fkind (MChanAbs.fib2 st i) = MChanAbs.Sender) /\
      (MChanAbs.cnt2 st < size)%nat ->
      exists j, (j < nfib)%nat /\ MChanAbs.fkind (MChanAbs.fib2 st j) = MChanAbs.Sender /\
                MChanAbs.fawake (MChanAbs.fib2 st j) = true /\ (0 < MChanAbs.frem (MChanAbs.fib2 st j))%nat) /\
     ((exists i, (i < nfib)%nat /\ MChanAbs.fawake (MChanAbs.fib2 st i) = false /\
                 MChanAbs.fkind (MChanAbs.fib2 st i) = MChanAbs.Receiver) /\
      (0 < MChanAbs.cnt2 st)%nat ->
      exists j, (j < nfib)%nat /\ MChanAbs.fkind (MChanAbs.fib2 st j) = MChanAbs.Receiver /\
                MChanAbs.fawake (MChanAbs.fib2 st j) = true /\ (0 < MChanAbs.frem (MChanAbs.fib2 st j))%nat)) /\
  (forall (size nfib : nat) (st0 st : MChanAbs.ast2),
     (0 < size)%nat -> MChanAbs.ainit2 st0 -> MChanAbs.areach2 size nfib st0 st ->
     ~ MChanAbs.stranded2 size nfib st) /\
  (MChanAbs.ainit MChanAbs.ex_init /\ MChanAbs.areach 2 5 MChanAbs.ex_init MChanAbs.ex_final /\
   MChanAbs.stranded 2 5 MChanAbs.ex_final).
Proof.
  split; [exact MChanAbs.abs2_obligation|].
  split; [exact MChanAbs.abs2_no_stranded | exact MChanAbs.abs_stranded_example].
Qed.
Print Assumptions multichan_no_stranded_partial.

(* ================= non-vacuity ================= *)
Definition ex_sig_progs : list (list cop) := [[OWait]; [ORaise]].
Definition ex_sig_state sch := fst (run_sched ChanK.M (ChanK.init 2 ex_sig_progs) sch).

Lemma ex_sig_single : single_waiter 0 ex_sig_progs.
Proof. intros t Ht. destruct t as [|[|t]]; [congruence | reflexivity | destruct t; reflexivity]. Qed.

(* the waiter has registered (3 steps), the raiser has exchanged (2 steps): registered,
   the word no longer names the waiter, raiser 1 is committed *)
Example ex_committed :
  let s := ex_sig_state [0;0;0;1;1]%nat in
  reachable ChanK.M (ChanK.init 2 ex_sig_progs) s /\ registered 0 s /\ word s <> fname 0 /\ committed s 1 0.
Proof. split; [apply run_sched_reachable; constructor | vm_compute; repeat split; discriminate]. Qed.

(* ... and after the waiter's maintenance has written the marker the raiser reaches
   the READY write: the hypothesis of signal_wake_after_sleep is met *)
Example ex_ready :
  let s := ex_sig_state [0;0;0;1;1;0;0;0;0;0;0;0;1;1]%nat in
  reachable ChanK.M (ChanK.init 2 ex_sig_progs) s /\
  exists p k, stk s 1%nat = [FStWrite 0%nat ST_READY; FC (KRRdy 0%nat p k)].
Proof. split; [apply run_sched_reachable; constructor | vm_compute; eauto]. Qed.

(* a raise before the CAS: the CAS fails *)
Example ex_seen :
  let s := ex_sig_state [0;0;1;1]%nat in
  reachable ChanK.M (ChanK.init 2 ex_sig_progs) s /\ word s = RAISED /\
  exists a p k, stk s 0%nat = [CCasC c_waiter NO_WAITER (fname 0) 3; FC (KWCas a p k)].
Proof. split; [apply run_sched_reachable; constructor | vm_compute; split; eauto]. Qed.

(* the receiver sleeps in a blocking receive while a sender has linked a message and is
   about to raise: the hypotheses of chan_receiver_not_stranded are met *)
Definition ex_u_progs : list (list cop) := [[OURecv]; [OUSend 2 41]].
Example ex_u_avail :
  let s := fst (run_sched ChanK.M (ChanK.init 2 ex_u_progs) [0;0;0;0;0;0;0;0;0;0;0;0;0;1;1;1;1;1]%nat) in
  reachable ChanK.M (ChanK.init 2 ex_u_progs) s /\
  wkind (stk s 0%nat) = Some WKURecv /\ sleepy (ph 0 s) = true /\ avail_u s /\ at_rx (stk s 1%nat) = true.
Proof. split; [apply run_sched_reachable; constructor | vm_compute; repeat split; discriminate]. Qed.
