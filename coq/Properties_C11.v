(* C11 — channels and signals: property theorems (statements only; proofs in
   ChanKProofs.v, UChanProofs.v, BChanProofs.v, MChanProofs.v). *)
From Coq Require Import List ZArith Lia Bool Arith.
From LF Require Import Conc T1K ChanK Signal UChan BChan MChan MChanProofs.
Import ListNotations.
Local Open Scope Z_scope.

(* ---- multi channel: the stranding question (finding F-C11) ----
   Full statement that does NOT hold:
     multichan_no_stranded : forall k progs s,
       reachable MChan.M (MChan.init k progs) s -> ~ stranded s.
   It is refuted on the faithful model: capacity 2, senders 0,1,2 x 2 messages,
   receivers 3,4 x 3 messages, the 239-step schedule MChanProofs.strand_sched
   (replayed on the real code: corpus/C11.txt, identical trace). *)
Theorem multichan_no_stranded_refuted :
  exists k progs s, reachable MChan.M (MChan.init k progs) s /\ stranded s.
Proof.
  exists 1%nat, strand_progs, strand_state. split; [exact strand_reachable | exact strand_stranded].
Qed.
Print Assumptions multichan_no_stranded_refuted.
