#!/bin/sh
# Re-checks every compiled property file (and everything it depends on) with Coq's independent checker and
# lists the axioms each relies on.  usage: tools/coqchk_all.sh [outfile]   (4 in parallel; several minutes)
cd "$(dirname "$0")/../coq"
out=${1:-../notes/coqchk_report.txt}
ls Properties_*.vo | sed 's/\.vo$//' | xargs -P 4 -I{} sh -c 'timeout 3000 coqchk -o -silent -Q . LF LF.{} > /tmp/coqchk_{}.log 2>&1; echo "{} rc=$?"' > /tmp/coqchk_rc.txt
{
  echo "coqchk -o -silent -Q . LF LF.Properties_* (Coq 8.16.1), $(date -u +%Y-%m-%d)"
  for f in $(ls Properties_*.vo | sed 's/\.vo$//'); do
    echo "== $f: $(grep "^$f " /tmp/coqchk_rc.txt)"
    sed -n '/CONTEXT SUMMARY/,$p' /tmp/coqchk_$f.log | grep -A1 -E "Axioms|type-in-type|unsafe|positivity" | grep -v "^--" | tr -s ' ' | sed 's/^/   /'
  done
} > "$out"
rm -f /tmp/coqchk_*.log /tmp/coqchk_rc.txt
echo "written $out"
