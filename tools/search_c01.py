#!/usr/bin/env python3
"""Long random search for a C01/C02 violation on the real runtime (T2).
usage: search_c01.py <minutes> <outfile>   (uses VERIF_REPO if set)"""
import random, sys, time, os
sys.path.insert(0, os.path.join(os.path.dirname(os.path.abspath(__file__))))
from vf import core
from vf.props import C01

mins = float(sys.argv[1]); out = sys.argv[2]
ctx = core.Ctx("C01", "thorough", 0)
exe = C01.build(ctx)
t0 = time.time(); seed = 1000; total = 0
found = []
while time.time() - t0 < mins * 60 and len(found) < 5:
    rng = random.Random(seed); seed += 1
    cases = []
    for _ in range(4000):
        nk = rng.choice([2, 3, 3, 4, 4])
        nf = rng.randint(3, 8)
        progs = []
        for _f in range(nf):
            p = [(rng.choice([17, 17, 17, 9, 15, 15, 16, 2, 3, 1, 7, 8, 10]), rng.randint(0, 1)) for _ in range(rng.randint(2, 7))]
            progs.append(p)
        length = rng.randint(200, 4000)
        cases.append(core.fmt_case([80000, nk], progs, core.random_sched(rng, nk, length, rng.randrange(3))))
    impl = core.run_sharded([exe], cases, timeout=900)
    total += len(cases)
    for c, l in zip(cases, impl):
        w = C01.monitor(c, core.parse_trace(l) if l else None, l)
        if w:
            found.append((w, c))
            with open(out, "a") as f:
                f.write("# %s\n%s\n" % (w, c))
    print("seed", seed, "total", total, "found", len(found), flush=True)
ctx.cleanup()
print("done", total, len(found))
