#!/usr/bin/env python3
"""second-round prompt: same as seed_prompt.py plus a one-line note on what a previous attempt changed (to avoid duplicates)"""
import json, subprocess, sys, glob
pid, wt = sys.argv[1], sys.argv[2]
base = subprocess.check_output([sys.executable, '/verif/tools/seed_prompt.py', pid, wt]).decode()
prev = []
for f in sorted(glob.glob('/verif/seeded/%s_*/meta.json' % pid)):
    m = json.load(open(f))
    prev.append("- " + (m.get('what_it_breaks', '')[:420].replace('\n', ' ')))
note = ("\n\nNote: an earlier, independent attempt at this task already produced the following change; do NOT repeat it or a close variant — "
        "pick a different function, a different mechanism (e.g. ordering vs. arithmetic vs. a dropped re-check vs. a wrong wake-up target) and a "
        "different triggering scenario:\n" + "\n".join(prev) + "\n") if prev else ""
print(base.replace("Deliver, in", note + "\nDeliver, in", 1))
