#!/usr/bin/env python3
"""Run every translator (source -> coq/gen/*.v).  Each translator aborts on a
construct it does not recognise."""
import os, subprocess, sys
here = os.path.dirname(os.path.abspath(__file__))
rc = 0
for f in sorted(os.listdir(here)):
    if f.startswith("gen_") and f != "gen_all.py" and f.endswith(".py"):
        r = subprocess.call([sys.executable, os.path.join(here, f)])
        rc = rc or r
sys.exit(rc)
