#!/usr/bin/env python3
"""Translator for C09:  include/fiber_event.h, src/fiber_event_native.c,
src/fiber_io.c  ->  coq/gen/SleepGen.v   (+ a C probe, + structural flags)

Reads the working tree under $VERIF_REPO (default /repo) and extracts

  * FIBER_TIME_RESOLUTION_MS and the way fiber_event_init programs the timer
    (period = FIBER_TIME_RESOLUTION_MS * <mult> ns, level-triggered EPOLLIN);
  * the `sleep_ms` expression of fiber_sleep as a typed C expression AST
    (coq/SleepAst.v: operand types explicit, so that a 32-bit wrap is in the
    model), and the argument expressions of the fiber_sleep calls in the libc
    shims sleep / usleep / nanosleep of src/fiber_io.c;
  * the statement sequence of fiber_sleep, of fiber_event_wake_sleepers
    (prologue + body of the chain walk) and of the timer branch of the poll
    loop, each statement mapped to one token of coq/SleepAst.v.

It ABORTS (exit status 3, message on stderr) on any statement, expression
form, type or literal it does not recognise.  It never guesses.  Output is
deterministic and only rewritten when its content changes.

usage: gen_sleep.py [--out FILE | --stdout] [--probe FILE] [--flags]
  --probe FILE  also write the C probe (the extracted expressions re-printed
                from the AST, plus the verbatim source text) used by the
                differential run of rt/h_sleep.c (mode arith)
  --flags       print a JSON summary (constants, re-printed vs. source text,
                structural flags) on stdout and do not write SleepGen.v
"""
import json
import os
import re
import sys

VERIF = os.path.dirname(os.path.dirname(os.path.dirname(os.path.abspath(__file__))))
REPO = os.environ.get("VERIF_REPO", "/repo")
OUT = os.path.join(VERIF, "coq", "gen", "SleepGen.v")


class Reject(Exception):
    pass


def reject(msg):
    raise Reject(msg)


# ---------------------------------------------------------------------------
# lexical level
# ---------------------------------------------------------------------------
def strip_comments(text):
    out, i, n = [], 0, len(text)
    while i < n:
        c = text[i]
        if c == '"' or c == "'":
            j = i + 1
            while j < n and text[j] != c:
                j += 2 if text[j] == "\\" else 1
            if j >= n:
                reject("unterminated literal")
            out.append(text[i:j + 1])
            i = j + 1
        elif text.startswith("//", i):
            j = text.find("\n", i)
            i = n if j < 0 else j
        elif text.startswith("/*", i):
            j = text.find("*/", i + 2)
            if j < 0:
                reject("unterminated comment")
            out.append(" " + "\n" * text.count("\n", i, j + 2))
            i = j + 2
        else:
            out.append(c)
            i += 1
    return "".join(out)


TOKEN = re.compile(r"""\s*(?:(?P<id>[A-Za-z_][A-Za-z_0-9]*)|(?P<num>0[xX][0-9a-fA-F]+[uUlL]*|[0-9]+[uUlL]*)
                       |(?P<str>"(?:\\.|[^"\\])*")
                       |(?P<op>->|\+=|-=|\*=|/=|==|!=|<=|>=|&&|\|\||\+\+|--|<<|>>|[-+*/%&|^~!<>=?:;,.(){}\[\]]))""", re.X)


def tokenize(text):
    toks, i = [], 0
    text = text.strip()
    while i < len(text):
        m = TOKEN.match(text, i)
        if not m or m.end() == i:
            reject("cannot tokenize near %r" % text[i:i + 30])
        toks.append(m.group(m.lastgroup))
        i = m.end()
        while i < len(text) and text[i].isspace():
            i += 1
    return toks


def canon(text):
    return " ".join(tokenize(text))


def select_linux(body):
    """keep the `#if defined(__linux__)` branches, drop SOLARIS / #else ones."""
    out, stack = [], []          # stack of [taking, taken_before]
    for line in body.split("\n"):
        s = line.strip()
        if s.startswith("#"):
            d = re.sub(r"\s+", " ", s)
            if d == "#if defined(__linux__)":
                stack.append([True, True])
            elif d == "#elif defined(SOLARIS)" and stack:
                stack[-1][0] = False
            elif d == "#else" and stack:
                stack[-1][0] = not stack[-1][1]
                stack[-1][1] = True
            elif d == "#endif" and stack:
                stack.pop()
            elif d.startswith("#error") and stack and not stack[-1][0]:
                pass
            else:
                reject("unrecognised preprocessor line: %s" % s)
            continue
        if all(t for t, _ in stack):
            out.append(line)
    if stack:
        reject("unbalanced #if")
    return "\n".join(out)


def function(text, name, sig_re):
    """(parameter text, body text) of the definition of `name`."""
    m = re.search(r"(?m)^" + sig_re + r"\s*" + re.escape(name) + r"\s*\(([^)]*)\)\s*\{", text)
    if not m:
        reject("definition of %s not found" % name)
    i = m.end()
    depth, j = 1, i
    while j < len(text) and depth:
        if text[j] == "{":
            depth += 1
        elif text[j] == "}":
            depth -= 1
        j += 1
    if depth:
        reject("unbalanced braces in %s" % name)
    return m.group(1), text[i:j - 1]


# ---------------------------------------------------------------------------
# typed expressions
# ---------------------------------------------------------------------------
CAST_TYPES = {
    ("uint64_t",): "U64", ("uint32_t",): "U32", ("int64_t",): "I64", ("int32_t",): "I32",
    ("int",): "I32", ("unsigned",): "U32", ("unsigned", "int"): "U32", ("long",): "I64",
    ("unsigned", "long"): "U64", ("size_t",): "U64", ("time_t",): "I64", ("useconds_t",): "U32",
    ("long", "long"): "I64", ("unsigned", "long", "long"): "U64",
}
PRINT_TY = {"U64": "uint64_t", "U32": "uint32_t", "I64": "int64_t", "I32": "int32_t"}
RANGE = {"U32": (0, 2 ** 32 - 1), "I32": (-2 ** 31, 2 ** 31 - 1), "U64": (0, 2 ** 64 - 1), "I64": (-2 ** 63, 2 ** 63 - 1)}


def literal(tok):
    m = re.fullmatch(r"(0[xX][0-9a-fA-F]+|[0-9]+)([uUlL]*)", tok)
    if not m:
        reject("bad literal %s" % tok)
    body, suf = m.group(1), m.group(2).lower()
    if body.startswith("0") and len(body) > 1 and not body.lower().startswith("0x"):
        reject("octal literal %s not supported" % tok)
    v = int(body, 0)
    hexa = body.lower().startswith("0x")
    if suf not in ("", "u", "l", "ul", "lu", "ll", "ull", "llu"):
        reject("bad literal suffix %s" % tok)
    uns, lng = "u" in suf, "l" in suf
    if uns:
        cands = ["U64"] if lng else ["U32", "U64"]
    elif lng:
        cands = ["I64", "U64"] if hexa else ["I64"]
    else:
        cands = ["I32", "U32", "I64", "U64"] if hexa else ["I32", "I64"]
    for t in cands:
        if RANGE[t][0] <= v <= RANGE[t][1]:
            return ("const", v, t)
    reject("literal %s does not fit any type" % tok)


class ExprParser:
    def __init__(self, toks, names):
        self.t, self.i, self.names = toks, 0, names

    def peek(self, k=0):
        return self.t[self.i + k] if self.i + k < len(self.t) else None

    def eat(self, x=None):
        tok = self.peek()
        if tok is None or (x is not None and tok != x):
            reject("expected %s, found %s in %s" % (x, tok, " ".join(self.t)))
        self.i += 1
        return tok

    def expr(self):
        a = self.term()
        while self.peek() in ("+", "-"):
            op = self.eat()
            b = self.term()
            a = ("add" if op == "+" else "sub", a, b)
        return a

    def term(self):
        a = self.unary()
        while self.peek() in ("*", "/", "%"):
            op = self.eat()
            b = self.unary()
            a = ({"*": "mul", "/": "div", "%": "mod"}[op], a, b)
        return a

    def cast_type(self):
        """if the tokens at i are `( type )`, return (cty, length) else None"""
        if self.peek() != "(":
            return None
        j, ws = 1, []
        while self.peek(j) is not None and re.fullmatch(r"[A-Za-z_][A-Za-z_0-9]*", self.peek(j)):
            ws.append(self.peek(j))
            j += 1
        if self.peek(j) != ")" or not ws:
            return None
        if tuple(ws) in CAST_TYPES:
            return CAST_TYPES[tuple(ws)], j + 1
        if " ".join(ws) in self.names:
            return None
        reject("unrecognised cast type (%s)" % " ".join(ws))

    def unary(self):
        c = self.cast_type()
        if c:
            self.i += c[1]
            return ("cast", c[0], self.unary())
        return self.primary()

    def primary(self):
        tok = self.peek()
        if tok is None:
            reject("unexpected end of expression")
        if tok == "(":
            self.eat("(")
            e = self.expr()
            self.eat(")")
            return e
        if re.fullmatch(r"[0-9].*", tok):
            self.eat()
            return literal(tok)
        if re.fullmatch(r"[A-Za-z_][A-Za-z_0-9]*", tok):
            self.eat()
            name = tok
            if self.peek() == "->":
                self.eat()
                name = name + "->" + self.eat()
            if name not in self.names:
                reject("unknown identifier %s in expression" % name)
            v, t = self.names[name]
            return ("var", v, t, name)
        reject("unexpected token %s in expression" % tok)


def parse_expr(text, names):
    toks = tokenize(text)
    p = ExprParser(toks, names)
    e = p.expr()
    if p.i != len(toks):
        reject("trailing tokens in expression: %s" % " ".join(toks[p.i:]))
    return e


PREC = {"add": 1, "sub": 1, "mul": 2, "div": 2, "mod": 2, "cast": 3, "var": 4, "const": 4}
OPS = {"add": "+", "sub": "-", "mul": "*", "div": "/", "mod": "%"}


def const_text(v, t):
    return str(v) + {"I32": "", "U32": "U", "I64": "L", "U64": "UL"}[t]


def print_c(e):
    k = e[0]
    if k == "var":
        return e[3]
    if k == "const":
        return const_text(e[1], e[2])
    if k == "cast":
        a = print_c(e[2])
        if PREC[e[2][0]] < 3:
            a = "(" + a + ")"
        return "(" + PRINT_TY[e[1]] + ")" + a
    a, b = print_c(e[1]), print_c(e[2])
    if PREC[e[1][0]] < PREC[k]:
        a = "(" + a + ")"
    if PREC[e[2][0]] <= PREC[k]:
        b = "(" + b + ")"
    return "%s %s %s" % (a, OPS[k], b)


def print_coq(e):
    k = e[0]
    if k == "var":
        return "(EVar %s %s)" % (e[1], e[2])
    if k == "const":
        return "(EConst %d %s)" % (e[1], e[2])
    if k == "cast":
        return "(ECast %s %s)" % (e[1], print_coq(e[2]))
    return "(E%s %s %s)" % (k.capitalize(), print_coq(e[1]), print_coq(e[2]))


def param_types(params, want):
    """parameter list text -> {name: cty}; `want` = expected names"""
    res = {}
    for p in params.split(","):
        ws = tokenize(p)
        if not ws:
            continue
        name, ty = ws[-1], tuple(w for w in ws[:-1] if w != "const")
        if ty not in CAST_TYPES:
            reject("unrecognised parameter type %s" % " ".join(ws))
        res[name] = CAST_TYPES[ty]
    for w in want:
        if w not in res:
            reject("parameter %s not found in (%s)" % (w, params))
    return res


# ---------------------------------------------------------------------------
# statement sequences
# ---------------------------------------------------------------------------
def match_statements(body, table, what):
    """body: canonical token string; table: list of (pattern, token).  Patterns
    are canonical token strings; `@E@` stands for an expression up to the
    closing `;`.  Returns (tokens, captured expressions)."""
    toks, caps, pos = [], [], 0
    comp = []
    for pat, tok in table:
        rx = re.escape(canon(pat.replace("@E@", "QQEXPRQQ"))).replace("QQEXPRQQ", r"([^;{}]+?)")
        comp.append((re.compile(rx + r"(?= |$)"), tok))
    while pos < len(body):
        if body[pos] == " ":
            pos += 1
            continue
        for rx, tok in comp:
            m = rx.match(body, pos)
            if m:
                if tok is not None:
                    toks.append(tok)
                caps.extend(m.groups())
                pos = m.end()
                break
        else:
            reject("%s: unrecognised statement near `%s`" % (what, body[pos:pos + 90]))
    return toks, caps


SLEEP_TABLE = [
    ("const uint64_t sleep_ms = @E@ ;", "SComputeMs"),
    ("waiter_el_t wake_info = { } ;", "SInitNode"),
    ("fiber_spinlock_lock ( & sleep_spinlock ) ;", "SLock"),
    ("timer_trigger_count += fiber_event_read_timer ( ) ;", "SReadTimer"),
    ("const uint64_t wake_time = timer_trigger_count + sleep_ms ;", "SDeadline"),
    ("wake_info . wake_time = wake_time ;", "SSetKey"),
    ("waiter_insert ( & sleepers , & wake_info ) ;", "SInsert"),
    ("fiber_manager_t * const manager = fiber_manager_get ( ) ;", "SGetMgr"),
    ("fiber_t * const this_fiber = manager -> current_fiber ;", "SGetFiber"),
    ("wake_info . waiter = this_fiber ;", "SSetWaiter"),
    ("this_fiber -> state = FIBER_STATE_WAITING ;", "SSetWaiting"),
    ("manager -> spinlock_to_unlock = & sleep_spinlock ;", "SUnlockLater"),
    ("fiber_manager_yield ( manager ) ;", "SYield"),
    ("return FIBER_SUCCESS ;", "SReturn"),
]
SLEEP_GUARD = "if ( event_fd < 0 ) { fiber_do_real_sleep ( seconds , useconds ) ; return FIBER_SUCCESS ; }"

WAKE_TABLE = [
    ("fiber_spinlock_lock ( & sleep_spinlock ) ;", "KLock"),
    ("trigger_count += fiber_event_read_timer ( ) ;", "KReadTimer"),
    ("timer_trigger_count += trigger_count ;", "KAdd"),
    ("waiter_el_t * to_wake = NULL ;", "KDecl"),
]
WALK_TABLE = [
    ("assert ( to_wake -> waiter ) ;", "WAssert"),
    ("fiber_t * const to_schedule = ( fiber_t * ) to_wake -> waiter ;", "WGetWaiter"),
    ("waiter_el_t * const next = to_wake -> next ;", "WSaveNext"),
    ("to_schedule -> state = FIBER_STATE_READY ;", "WSetReady"),
    ("fiber_manager_schedule ( manager , to_schedule ) ;", "WSchedule"),
    ("to_wake = to_wake -> next ;", "WAdvanceNode"),
    ("to_wake = next ;", "WAdvanceSaved"),
]
POLL_TABLE = [
    ("uint64_t timer_count = 0 ;", "PDecl"),
    ("const int ret = fibershim_read ( timer_fd , & timer_count , sizeof ( timer_count ) ) ;", "PReadTimer"),
    ("if ( ret != sizeof ( timer_count ) ) { assert ( errno == EWOULDBLOCK || errno == EAGAIN ) ; continue ; }",
     "PSkipIfNone"),
    ("fiber_event_wake_sleepers ( manager , timer_count ) ;", "PWakeCount"),
    ("fiber_event_wake_sleepers ( manager , 0 ) ;", "PWakeZero"),
]
READ_TIMER_BODY = canon(
    "uint64_t timer_count = 0; if (fibershim_read(timer_fd, &timer_count, sizeof(timer_count)) != "
    "sizeof(timer_count)) { return 0; } return timer_count;")


def extract():
    def rd(*p):
        try:
            return open(os.path.join(REPO, *p)).read()
        except OSError as ex:
            reject(str(ex))

    hdr = strip_comments(rd("include", "fiber_event.h"))
    nat = strip_comments(rd("src", "fiber_event_native.c"))
    io = strip_comments(rd("src", "fiber_io.c"))
    g = {}

    m = re.findall(r"(?m)^\s*#\s*define\s+FIBER_TIME_RESOLUTION_MS\s+(\S+)\s*$", hdr)
    if len(m) != 1 or not re.fullmatch(r"[0-9]+", m[0]):
        reject("FIBER_TIME_RESOLUTION_MS: expected exactly one decimal #define, found %r" % m)
    g["res_ms"] = int(m[0])
    if not g["res_ms"]:
        reject("FIBER_TIME_RESOLUTION_MS is 0")
    m = re.search(r"extern\s+int\s+fiber_sleep\s*\(([^)]*)\)\s*;", hdr)
    if not m:
        reject("prototype of fiber_sleep not found in fiber_event.h")
    proto = param_types(m.group(1), ["seconds", "useconds"])
    if proto["seconds"] != proto["useconds"]:
        reject("fiber_sleep parameters of different types")
    g["param_ty"] = proto["seconds"]

    # --- timer programming (fiber_event_init, linux branch) ---
    _, init = function(nat, "fiber_event_init", r"int")
    init = canon(select_linux(init))
    if "timer_fd = timerfd_create ( CLOCK_MONOTONIC , TFD_NONBLOCK ) ;" not in init:
        reject("fiber_event_init: timerfd_create(CLOCK_MONOTONIC, TFD_NONBLOCK) not found")
    mi = re.search(r"in \. it_interval \. tv_nsec = FIBER_TIME_RESOLUTION_MS \* ([0-9]+) ;", init)
    mv = re.search(r"in \. it_value \. tv_nsec = FIBER_TIME_RESOLUTION_MS \* ([0-9]+) ;", init)
    if not mi or not mv or mi.group(1) != mv.group(1):
        reject("fiber_event_init: timer period is not FIBER_TIME_RESOLUTION_MS * <n> for both value and interval")
    if re.search(r"in \. it_(interval|value) \. tv_sec =", init):
        reject("fiber_event_init: timer seconds field set")
    g["period_mult"] = int(mi.group(1))
    if "timerfd_settime ( timer_fd , 0 , & in , & out ) ;" not in init:
        reject("fiber_event_init: timerfd_settime(timer_fd, 0, &in, &out) not found")
    if "fibershim_read = ( readFnType ) fiber_load_symbol ( \"read\" ) ;" not in init:
        reject("fiber_event_init: fibershim_read is not the real read")
    if "e . events = EPOLLIN ; e . data . fd = timer_fd ; ret = epoll_ctl ( the_event_fd , EPOLL_CTL_ADD , timer_fd , & e ) ;" not in init:
        reject("fiber_event_init: timer fd is not registered level-triggered EPOLLIN")
    g["level"] = True

    # --- optional helper ---
    have_helper = re.search(r"(?m)^static\s+uint64_t\s+fiber_event_read_timer\s*\(", nat) is not None
    if have_helper:
        _, hb = function(nat, "fiber_event_read_timer", r"static\s+uint64_t")
        if canon(select_linux(hb)) != READ_TIMER_BODY:
            reject("fiber_event_read_timer: unrecognised body")

    # --- fiber_sleep ---
    params, body = function(nat, "fiber_sleep", r"int")
    pt = param_types(params, ["seconds", "useconds"])
    if pt != proto:
        reject("fiber_sleep definition and prototype disagree")
    body = canon(select_linux(body))
    if not body.startswith(SLEEP_GUARD):
        reject("fiber_sleep: missing `event_fd < 0` guard")
    toks, caps = match_statements(body[len(SLEEP_GUARD):], SLEEP_TABLE, "fiber_sleep")
    if toks.count("SComputeMs") != 1:
        reject("fiber_sleep: expected exactly one sleep_ms computation")
    names = {"seconds": ("VSeconds", pt["seconds"]), "useconds": ("VUseconds", pt["useconds"])}
    g["sleep_src"] = caps[0].strip()
    g["sleep_expr"] = parse_expr(caps[0], names)
    g["sleep_body"] = toks
    if "SReadTimer" in toks and not have_helper:
        reject("fiber_sleep uses fiber_event_read_timer, which is not defined")

    # --- fiber_event_wake_sleepers ---
    params, body = function(nat, "fiber_event_wake_sleepers", r"static\s+void")
    if canon(params) != canon("fiber_manager_t* manager, uint64_t trigger_count"):
        reject("fiber_event_wake_sleepers: unrecognised parameters")
    body = canon(select_linux(body))
    loop_open = canon("while ((to_wake = waiter_remove_less_than(&sleepers, timer_trigger_count))) { do {")
    loop_close = canon("} while (to_wake); } fiber_spinlock_unlock(&sleep_spinlock);")
    a = body.find(loop_open)
    if a < 0 or not body.endswith(loop_close):
        reject("fiber_event_wake_sleepers: removal loop / chain walk / unlock not in the expected shape")
    pro, walk = body[:a], body[a + len(loop_open):len(body) - len(loop_close)]
    g["wake_prologue"], _ = match_statements(pro, WAKE_TABLE, "fiber_event_wake_sleepers")
    g["walk_body"], _ = match_statements(walk, WALK_TABLE, "chain walk")
    if "KReadTimer" in g["wake_prologue"] and not have_helper:
        reject("fiber_event_wake_sleepers uses fiber_event_read_timer, which is not defined")

    # --- timer branch of the poll loop ---
    _, body = function(nat, "fiber_poll_events_internal", r"static\s+int")
    body = canon(select_linux(body))
    head = canon("if (the_fd == timer_fd) {")
    a = body.find(head)
    if a < 0 or body.count(head) != 1:
        reject("poll loop: timer branch not found")
    i, depth = a + len(head), 1
    j = i
    while j < len(body) and depth:
        if body[j] == "{":
            depth += 1
        elif body[j] == "}":
            depth -= 1
        j += 1
    g["poll_body"], _ = match_statements(body[i:j - 1], POLL_TABLE, "poll loop timer branch")
    if not body[j:].lstrip().startswith("else {"):
        reject("poll loop: timer branch is not followed by the fd branch")

    # --- libc shims ---
    def shim(name, sig, pnames, varmap):
        params, body = function(io, name, sig)
        ptxt = canon(params)
        body = canon(body)
        m = re.match(r"if \( ! thread_locked && fiber_manager_get \( \) \) \{ fiber_sleep \( (.+?) \) ; (.*?)\} else \{",
                     body)
        if not m:
            reject("%s: fiber branch not in the expected shape" % name)
        rest = m.group(2).strip()
        if rest not in ("", canon("if (rmtp) { rmtp->tv_sec = 0; rmtp->tv_nsec = 0; }")):
            reject("%s: unrecognised statements after fiber_sleep: %s" % (name, rest))
        args, depth, cur = [], 0, []
        for t in m.group(1).split(" "):
            if t == "(":
                depth += 1
            elif t == ")":
                depth -= 1
            if t == "," and depth == 0:
                args.append(" ".join(cur))
                cur = []
            else:
                cur.append(t)
        args.append(" ".join(cur))
        if len(args) != 2:
            reject("%s: fiber_sleep called with %d arguments" % (name, len(args)))
        if ptxt != canon(pnames):
            reject("%s: unrecognised parameters (%s)" % (name, params))
        return ([parse_expr(a, varmap) for a in args], args)

    g["w_sleep"], g["w_sleep_src"] = shim("sleep", r"unsigned\s+int", "unsigned int seconds",
                                          {"seconds": ("VSeconds", "U32")})
    g["w_usleep"], g["w_usleep_src"] = shim("usleep", r"int", "useconds_t useconds",
                                            {"useconds": ("VUseconds", "U32")})
    g["w_nanosleep"], g["w_nanosleep_src"] = shim(
        "nanosleep", r"int", "const struct timespec* rqtp, struct timespec* rmtp",
        {"rqtp->tv_sec": ("VTvSec", "I64"), "rqtp->tv_nsec": ("VTvNsec", "I64")})
    return g


# ---------------------------------------------------------------------------
# output
# ---------------------------------------------------------------------------
def coq_text(g):
    L = []
    L.append("(* GENERATED by tools/gen/gen_sleep.py from include/fiber_event.h,")
    L.append("   src/fiber_event_native.c and src/fiber_io.c -- do not edit.  *)")
    L.append("From Coq Require Import List ZArith.")
    L.append("From LF Require Import SleepAst.")
    L.append("Import ListNotations.")
    L.append("Local Open Scope Z_scope.")
    L.append("")
    L.append("Definition res_ms : Z := %d.                (* FIBER_TIME_RESOLUTION_MS *)" % g["res_ms"])
    L.append("Definition timer_period_mult : Z := %d.    (* it_value/it_interval.tv_nsec = RES_MS * this *)" % g["period_mult"])
    L.append("Definition timer_level_triggered : bool := %s." % ("true" if g["level"] else "false"))
    L.append("Definition sleep_param_ty : cty := %s.       (* fiber_sleep(uint32_t, uint32_t) *)" % g["param_ty"])
    L.append("Definition sleep_ms_ty : cty := U64.         (* const uint64_t sleep_ms = ... *)")
    L.append("(* %s *)" % g["sleep_src"])
    L.append("Definition sleep_ms_expr : cexpr :=\n  %s." % print_coq(g["sleep_expr"]))
    for nm in ("sleep", "usleep", "nanosleep"):
        e = g["w_" + nm]
        L.append("(* %s: fiber_sleep(%s, %s) *)" % (nm, g["w_%s_src" % nm][0], g["w_%s_src" % nm][1]))
        L.append("Definition wrap_%s : cexpr * cexpr :=\n  (%s,\n   %s)." % (nm, print_coq(e[0]), print_coq(e[1])))
    L.append("Definition sleep_body : list sleep_stmt :=\n  [%s]." % "; ".join(g["sleep_body"]))
    L.append("Definition wake_prologue : list wake_stmt :=\n  [%s]." % "; ".join(g["wake_prologue"]))
    L.append("Definition walk_body : list walk_stmt :=\n  [%s]." % "; ".join(g["walk_body"]))
    L.append("Definition poll_timer_body : list poll_stmt :=\n  [%s]." % "; ".join(g["poll_body"]))
    return "\n".join(L) + "\n"


def probe_text(g):
    P = []
    P.append("/* GENERATED by tools/gen/gen_sleep.py --probe: the expressions of fiber_sleep and of")
    P.append("   the libc shims, re-printed from the extracted AST, and the verbatim source text. */")
    P.append("#include <stdint.h>\n#include <time.h>\n#include <unistd.h>")
    P.append("uint64_t probe_sleep_ms(uint32_t seconds, uint32_t useconds) {\n  const uint64_t sleep_ms = %s;\n  return sleep_ms;\n}"
             % print_c(g["sleep_expr"]))
    P.append("uint64_t probe_sleep_ms_src(uint32_t seconds, uint32_t useconds) {\n  const uint64_t sleep_ms = %s;\n  return sleep_ms;\n}"
             % g["sleep_src"])
    P.append("static uint32_t cap_s, cap_us;")
    P.append("static int cap_fiber_sleep(uint32_t seconds, uint32_t useconds) { cap_s = seconds; cap_us = useconds; return 0; }")
    P.append("void probe_sleep(unsigned int seconds, uint32_t* s, uint32_t* us) {\n  cap_fiber_sleep(%s, %s);\n  *s = cap_s; *us = cap_us;\n}"
             % (print_c(g["w_sleep"][0]), print_c(g["w_sleep"][1])))
    P.append("void probe_usleep(useconds_t useconds, uint32_t* s, uint32_t* us) {\n  cap_fiber_sleep(%s, %s);\n  *s = cap_s; *us = cap_us;\n}"
             % (print_c(g["w_usleep"][0]), print_c(g["w_usleep"][1])))
    P.append("void probe_nanosleep(long long sec, long nsec, uint32_t* s, uint32_t* us) {\n  struct timespec ts; ts.tv_sec = sec; ts.tv_nsec = nsec;\n"
             "  const struct timespec* rqtp = &ts;\n  cap_fiber_sleep(%s, %s);\n  *s = cap_s; *us = cap_us;\n}"
             % (print_c(g["w_nanosleep"][0]), print_c(g["w_nanosleep"][1])))
    return "\n".join(P) + "\n"


def flags(g):
    sb, wp, wb, pb = g["sleep_body"], g["wake_prologue"], g["walk_body"], g["poll_body"]

    def before(l, a, b):
        return a in l and b in l and l.index(a) < l.index(b)
    texts = {"sleep_ms": (canon(print_c(g["sleep_expr"])), canon(g["sleep_src"]))}
    for nm in ("sleep", "usleep", "nanosleep"):
        for k in (0, 1):
            texts["%s.arg%d" % (nm, k)] = (canon(print_c(g["w_" + nm][k])), canon(g["w_%s_src" % nm][k]))
    return {
        "res_ms": g["res_ms"], "period_mult": g["period_mult"],
        "sleep_ms_text": print_c(g["sleep_expr"]),
        "reprinted_equals_source": {k: a == b for k, (a, b) in texts.items()},
        "sleep_body": sb, "wake_prologue": wp, "walk_body": wb, "poll_timer_body": pb,
        "sleep_reads_timer_under_lock": before(sb, "SLock", "SReadTimer") and before(sb, "SReadTimer", "SDeadline"),
        "wake_reads_timer_under_lock": before(wp, "KLock", "KReadTimer") and before(wp, "KReadTimer", "KAdd"),
        "poll_reads_timer_outside_lock": "PReadTimer" in pb,
        "walk_next_before_schedule": before(wb, "WSaveNext", "WSchedule") and "WAdvanceSaved" in wb and "WAdvanceNode" not in wb,
    }


def main(argv):
    out, to_stdout, probe, want_flags = OUT, False, None, False
    i = 0
    while i < len(argv):
        a = argv[i]
        if a == "--out":
            out = argv[i + 1]
            i += 1
        elif a == "--stdout":
            to_stdout = True
        elif a == "--probe":
            probe = argv[i + 1]
            i += 1
        elif a == "--flags":
            want_flags = True
        else:
            sys.stderr.write(__doc__)
            return 2
        i += 1
    try:
        g = extract()
    except Reject as ex:
        sys.stderr.write("gen_sleep.py: REJECTED: %s\n" % ex)
        return 3
    if probe:
        with open(probe, "w") as f:
            f.write(probe_text(g))
    if want_flags:
        print(json.dumps(flags(g), indent=1, sort_keys=True))
        return 0
    text = coq_text(g)
    if to_stdout:
        sys.stdout.write(text)
        return 0
    old = None
    try:
        old = open(out).read()
    except OSError:
        pass
    if old != text:
        os.makedirs(os.path.dirname(out), exist_ok=True)
        with open(out, "w") as f:
            f.write(text)
    return 0


if __name__ == "__main__":
    sys.exit(main(sys.argv[1:]))
