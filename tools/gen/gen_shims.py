#!/usr/bin/env python3
"""Translator for C08: src/fiber_io.c + src/fiber_event_native.c -> coq/gen/ShimGen.v

Reads the working tree ($VERIF_REPO, default /repo), Linux branch, and emits

  * for every I/O shim (read readv recv recvfrom recvmsg write writev send
    sendto sendmsg accept connect close fcntl ioctl pipe socket socketpair) a
    record: real call, wait direction, retry-loop shape, whether MSG_DONTWAIT is
    tested, errno class that triggers the retry, whether the new descriptor is
    passed to setup_socket;
  * the `should_block` condition: guard conjuncts and the mask expression as an
    AST over (flags, IO_FLAG_BLOCKING, IO_FLAG_WAITABLE);
  * for every function that indexes fd_info[] / wait_info[]: whether every
    index site is dominated by a test  0 <= i < max_fd  (asserts do not count:
    the library is built with NDEBUG);
  * what fcntl(F_SETFL)/ioctl(FIONBIO)/close/pipe/setup_socket do to the flag
    byte;
  * the structure of the descriptor-wait layer (registration ORs interest and
    arms ONESHOT, poller clears fired bits / re-arms the rest / wakes ALL
    waiters, close DELetes and wakes all with an error);
  * IO_FLAG_* constants.

It ABORTS (exit status 3, message on stderr) on any shim / statement whose shape
it does not recognise; it never guesses.  Output is deterministic and only
rewritten when it changes.

usage: gen_shims.py [--out FILE | --stdout] [--json]
"""
import json
import os
import re
import sys

VERIF = os.path.dirname(os.path.dirname(os.path.dirname(os.path.abspath(__file__))))
REPO = os.environ.get("VERIF_REPO", "/repo")
SRC_IO = os.path.join(REPO, "src", "fiber_io.c")
SRC_EV = os.path.join(REPO, "src", "fiber_event_native.c")
OUT = os.path.join(VERIF, "coq", "gen", "ShimGen.v")

SHIMS = ["read", "readv", "recv", "recvfrom", "recvmsg", "write", "writev", "send", "sendto",
         "sendmsg", "accept", "connect", "close", "fcntl", "ioctl", "pipe", "socket", "socketpair"]
HAS_FLAGS_ARG = {"recv", "recvfrom", "recvmsg", "send", "sendto", "sendmsg"}


class Reject(Exception):
    pass


def reject(msg):
    raise Reject(msg)


# ---------------------------------------------------------------------------
# lexical level
# ---------------------------------------------------------------------------
def strip_comments(text):
    out, i, n = [], 0, len(text)
    while i < n:
        c = text[i]
        if c == '"' or c == "'":
            j = i + 1
            while j < n and text[j] != c:
                j += 2 if text[j] == "\\" else 1
            if j >= n:
                reject("unterminated literal")
            out.append(text[i:j + 1])
            i = j + 1
        elif text.startswith("//", i):
            j = text.find("\n", i)
            i = n if j < 0 else j
        elif text.startswith("/*", i):
            j = text.find("*/", i + 2)
            if j < 0:
                reject("unterminated comment")
            out.append(" " + "\n" * text.count("\n", i, j + 2))
            i = j + 2
        else:
            out.append(c)
            i += 1
    return "".join(out)


def preprocess(text, defined=("__linux__",)):
    """evaluate #if/#elif/#else/#endif for the Linux build, collect object-like
    #defines, drop every other directive.  Only the condition forms that occur
    in the two files are understood."""
    text = strip_comments(text)
    # join continuation lines
    text = re.sub(r"\\\n", " ", text)
    macros = {}
    out = []
    stack = []  # [active_before, taken, active_now]

    def evalcond(c):
        c = c.strip()
        toks = re.findall(r"defined\s*\(\s*\w+\s*\)|defined\s+\w+|!|&&|\|\||\(|\)|\w+|>|<|\d+", c)
        py = []
        for t in toks:
            m = re.match(r"defined\s*\(?\s*(\w+)", t)
            if m:
                py.append(str(m.group(1) in defined))
            elif t == "!":
                py.append(" not ")
            elif t == "&&":
                py.append(" and ")
            elif t == "||":
                py.append(" or ")
            elif t in "()<>":
                py.append(t)
            elif t.isdigit():
                py.append(t)
            elif t == "FD_SETSIZE":
                py.append("1024")
            else:
                reject("preprocessor condition not understood: #if %s" % c)
        try:
            return bool(eval("".join(py)))
        except Exception:
            reject("preprocessor condition not understood: #if %s" % c)

    for line in text.split("\n"):
        s = line.strip()
        active = all(f[2] for f in stack)
        if s.startswith("#"):
            d = re.match(r"#\s*(\w+)\s*(.*)", s)
            if not d:
                reject("directive not understood: %s" % s)
            k, rest = d.group(1), d.group(2)
            if k == "if":
                v = evalcond(rest) if active else False
                stack.append([active, v, active and v])
            elif k == "ifdef":
                v = rest.strip() in defined or rest.strip() in macros
                stack.append([active, v, active and v])
            elif k == "ifndef":
                v = not (rest.strip() in defined or rest.strip() in macros)
                stack.append([active, v, active and v])
            elif k == "elif":
                f = stack[-1]
                v = (not f[1]) and f[0] and evalcond(rest)
                f[2] = v
                f[1] = f[1] or v
            elif k == "else":
                f = stack[-1]
                f[2] = f[0] and not f[1]
                f[1] = True
            elif k == "endif":
                stack.pop()
            elif k == "define" and active:
                m = re.match(r"(\w+)(\(?)(.*)", rest)
                if m and m.group(2) != "(":
                    macros[m.group(1)] = m.group(3).strip()
            elif k in ("include", "error", "undef", "define", "pragma"):
                if k == "error" and active:
                    reject("active #error: %s" % rest)
            else:
                reject("directive not understood: %s" % s)
            out.append("")
        else:
            out.append(line if active else "")
    if stack:
        reject("unbalanced #if")
    return "\n".join(out), macros


TOK = re.compile(r"\s*(?:(\d+[uUlL]*|0x[0-9a-fA-F]+[uUlL]*)|([A-Za-z_]\w*)|(\"(?:\\.|[^\"\\])*\")|"
                 r"(->|\+\+|--|<<=|>>=|<<|>>|<=|>=|==|!=|&&|\|\||[-+*/%&|^]=|\.\.\.|[-+*/%&|^~!<>=?:;,.(){}\[\]]))")


def tokenize(text):
    toks, i, n = [], 0, len(text)
    while i < n:
        m = TOK.match(text, i)
        if not m:
            if text[i:].strip() == "":
                break
            reject("cannot tokenize near: %r" % text[i:i + 40])
        i = m.end()
        if m.group(1) is not None:
            toks.append(("num", m.group(1)))
        elif m.group(2) is not None:
            toks.append(("id", m.group(2)))
        elif m.group(3) is not None:
            toks.append(("str", m.group(3)))
        else:
            toks.append(("op", m.group(4)))
    return toks


def functions(text):
    """top-level function definitions: name -> (header tokens, body tokens)"""
    toks = tokenize(text)
    res = {}
    i, n, depth = 0, len(toks), 0
    start = 0
    while i < n:
        t = toks[i]
        if t == ("op", "{") and depth == 0:
            # find matching close
            j, d = i, 0
            while j < n:
                if toks[j] == ("op", "{"):
                    d += 1
                elif toks[j] == ("op", "}"):
                    d -= 1
                    if d == 0:
                        break
                j += 1
            if j >= n:
                reject("unbalanced braces")
            head = toks[start:i]
            # function definition: header ends with ')' and contains '('
            if head and head[-1] == ("op", ")") and ("op", "=") not in head and ("id", "typedef") not in head \
                    and ("id", "struct") != head[0] and ("id", "enum") != head[0]:
                # name = identifier before the '(' matching the final ')'
                d, k = 0, len(head) - 1
                while k >= 0:
                    if head[k] == ("op", ")"):
                        d += 1
                    elif head[k] == ("op", "("):
                        d -= 1
                        if d == 0:
                            break
                    k -= 1
                if k > 0 and head[k - 1][0] == "id":
                    res[head[k - 1][1]] = (head, toks[i:j + 1])
            i = j + 1
            start = i
            # skip trailing declarator / ';' of struct/typedef definitions
            while i < n and toks[i] != ("op", ";") and toks[i][0] != "id" or (i < n and toks[i] == ("op", ";")):
                if toks[i] == ("op", ";"):
                    i += 1
                    start = i
                    break
                i += 1
            continue
        if t == ("op", ";") and depth == 0:
            start = i + 1
        i += 1
    return res


# ---------------------------------------------------------------------------
# expressions (C precedence) and statements
# ---------------------------------------------------------------------------
BASE_TYPES = {"int", "long", "unsigned", "char", "void", "const", "struct", "ssize_t", "size_t", "socklen_t",
              "uint64_t", "uint32_t", "uint8_t", "intptr_t", "va_list", "rlim_t", "short", "signed", "static",
              "volatile", "_Atomic"}


def is_typename(name):
    return name in BASE_TYPES or name.endswith("_t") or name.endswith("Type") or name in ("epoll_event", "rlimit", "itimerspec")


BINPREC = [("||",), ("&&",), ("|",), ("^",), ("&",), ("==", "!="), ("<", ">", "<=", ">="), ("<<", ">>"),
           ("+", "-"), ("*", "/", "%")]
ASSIGN = ("=", "|=", "&=", "+=", "-=", "^=", "<<=", ">>=", "*=", "/=", "%=")


class P:
    def __init__(self, toks):
        self.t = toks
        self.i = 0

    def peek(self, k=0):
        return self.t[self.i + k] if self.i + k < len(self.t) else ("eof", "")

    def next(self):
        x = self.peek()
        self.i += 1
        return x

    def accept(self, v):
        if self.peek() == ("op", v):
            self.i += 1
            return True
        return False

    def expect(self, v):
        if not self.accept(v):
            reject("expected %r, found %r (near token %d: %s)" %
                   (v, self.peek()[1], self.i, " ".join(x[1] for x in self.t[max(0, self.i - 8):self.i + 4])))

    # ---- expressions
    def expr(self):
        e = self.assign()
        while self.accept(","):
            e = ("comma", e, self.assign())
        return e

    def assign(self):
        lhs = self.cond()
        p = self.peek()
        if p[0] == "op" and p[1] in ASSIGN:
            self.next()
            return ("assign", p[1], lhs, self.assign())
        return lhs

    def cond(self):
        c = self.binary(0)
        if self.accept("?"):
            a = self.expr()
            self.expect(":")
            b = self.cond()
            return ("?:", c, a, b)
        return c

    def binary(self, lvl):
        if lvl == len(BINPREC):
            return self.unary()
        e = self.binary(lvl + 1)
        while self.peek()[0] == "op" and self.peek()[1] in BINPREC[lvl]:
            op = self.next()[1]
            e = ("bin", op, e, self.binary(lvl + 1))
        return e

    def looks_like_cast(self):
        # '(' type-name ')' followed by an operand
        if self.peek() != ("op", "("):
            return False
        j = self.i + 1
        seen = False
        while j < len(self.t) and self.t[j] != ("op", ")"):
            k, v = self.t[j]
            if k == "id" and is_typename(v):
                seen = True
            elif (k, v) == ("op", "*") and seen:
                pass
            else:
                return False
            j += 1
        if not seen or j >= len(self.t):
            return False
        nk, nv = self.t[j + 1] if j + 1 < len(self.t) else ("eof", "")
        return nk in ("id", "num", "str") or (nk == "op" and nv in ("(", "*", "&", "-", "!", "~"))

    def unary(self):
        p = self.peek()
        if p[0] == "op" and p[1] in ("!", "~", "-", "+", "*", "&", "++", "--"):
            self.next()
            return ("un", p[1], self.unary())
        if p == ("id", "sizeof"):
            self.next()
            if self.accept("("):
                d, txt = 1, []
                while d:
                    x = self.next()
                    if x == ("op", "("):
                        d += 1
                    elif x == ("op", ")"):
                        d -= 1
                        if not d:
                            break
                    elif x[0] == "eof":
                        reject("sizeof")
                    txt.append(x[1])
                return ("sizeof", " ".join(txt))
            return ("sizeof", show(self.unary()))
        if self.looks_like_cast():
            self.next()
            ty = []
            while self.peek() != ("op", ")"):
                ty.append(self.next()[1])
            self.next()
            return ("cast", " ".join(ty), self.unary())
        return self.postfix()

    def postfix(self):
        p = self.next()
        if p[0] == "num":
            e = ("num", p[1])
        elif p[0] == "str":
            e = ("str", p[1])
            while self.peek()[0] == "str":
                e = ("str", e[1] + self.next()[1])
        elif p[0] == "id":
            e = ("id", p[1])
        elif p == ("op", "("):
            e = self.expr()
            self.expect(")")
        elif p == ("op", "{"):
            # empty initialiser  {}
            self.expect("}")
            e = ("init0",)
        else:
            reject("unexpected token %r in expression" % (p[1],))
        while True:
            if self.peek() == ("op", "(") and e == ("id", "va_arg"):
                self.next()
                a0 = self.assign()
                self.expect(",")
                ty = []
                while self.peek() != ("op", ")"):
                    ty.append(self.next()[1])
                self.next()
                e = ("call", e, [a0, ("id", "".join(ty))])
            elif self.accept("("):
                args = []
                if not self.accept(")"):
                    args.append(self.assign())
                    while self.accept(","):
                        args.append(self.assign())
                    self.expect(")")
                e = ("call", e, args)
            elif self.accept("["):
                ix = self.expr()
                self.expect("]")
                e = ("idx", e, ix)
            elif self.accept("."):
                e = ("mem", ".", e, self.next()[1])
            elif self.accept("->"):
                e = ("mem", "->", e, self.next()[1])
            elif self.peek() in (("op", "++"), ("op", "--")):
                e = ("post", self.next()[1], e)
            else:
                return e

    # ---- statements
    def block(self):
        self.expect("{")
        ss = []
        while not self.accept("}"):
            ss.append(self.stmt())
        return ss

    def stmt_or_block(self):
        if self.peek() == ("op", "{"):
            return self.block()
        return [self.stmt()]

    def stmt(self):
        p = self.peek()
        if p == ("op", "{"):
            return ("block", self.block())
        if p == ("op", ";"):
            self.next()
            return ("empty",)
        if p[0] == "id":
            k = p[1]
            if k == "if":
                self.next()
                self.expect("(")
                c = self.expr()
                self.expect(")")
                th = self.stmt_or_block()
                el = None
                if self.peek() == ("id", "else"):
                    self.next()
                    el = self.stmt_or_block()
                return ("if", c, th, el)
            if k == "while":
                self.next()
                self.expect("(")
                c = self.expr()
                self.expect(")")
                return ("while", c, self.stmt_or_block())
            if k == "do":
                self.next()
                b = self.stmt_or_block()
                if self.next() != ("id", "while"):
                    reject("do without while")
                self.expect("(")
                c = self.expr()
                self.expect(")")
                self.expect(";")
                return ("do", b, c)
            if k == "for":
                self.next()
                self.expect("(")
                a = None if self.peek() == ("op", ";") else self.expr()
                self.expect(";")
                b = None if self.peek() == ("op", ";") else self.expr()
                self.expect(";")
                c = None if self.peek() == ("op", ")") else self.expr()
                self.expect(")")
                return ("for", a, b, c, self.stmt_or_block())
            if k == "return":
                self.next()
                e = None if self.peek() == ("op", ";") else self.expr()
                self.expect(";")
                return ("return", e)
            if k in ("continue", "break"):
                self.next()
                self.expect(";")
                return (k,)
            if k == "_Static_assert":
                while self.next() != ("op", ";"):
                    pass
                return ("empty",)
            if is_typename(k) and self.is_decl():
                return self.decl()
        e = self.expr()
        self.expect(";")
        return ("expr", e)

    def is_decl(self):
        # type tokens, then an identifier that is not followed by '(' … heuristic good for these files
        j = self.i
        while j < len(self.t) and ((self.t[j][0] == "id" and is_typename(self.t[j][1])) or self.t[j] == ("op", "*")):
            j += 1
        return j > self.i and j < len(self.t) and self.t[j][0] == "id" and \
            self.t[j + 1] in (("op", "="), ("op", ";"), ("op", "["), ("op", ","))

    def decl(self):
        ty = []
        while (self.peek()[0] == "id" and is_typename(self.peek()[1])) or self.peek() == ("op", "*"):
            ty.append(self.next()[1])
        name = self.next()[1]
        dims = ""
        while self.accept("["):
            dims += "[" + show(self.expr()) + "]"
            self.expect("]")
        init = None
        if self.accept("="):
            init = self.assign()
        self.expect(";")
        return ("decl", " ".join(ty) + dims, name, init)


def show(e):
    """canonical text of an expression (fully parenthesised binary operators)"""
    if e is None:
        return ""
    k = e[0]
    if k in ("id", "num", "str"):
        return e[1]
    if k == "bin":
        return "(%s%s%s)" % (show(e[2]), e[1], show(e[3]))
    if k == "un":
        return "%s%s" % (e[1], show(e[2]))
    if k == "post":
        return "%s%s" % (show(e[2]), e[1])
    if k == "call":
        return "%s(%s)" % (show(e[1]), ",".join(show(a) for a in e[2]))
    if k == "idx":
        return "%s[%s]" % (show(e[1]), show(e[2]))
    if k == "mem":
        return "%s%s%s" % (show(e[2]), e[1], e[3])
    if k == "cast":
        return "(%s)%s" % (e[1].replace(" ", ""), show(e[2]))
    if k == "assign":
        return "%s%s%s" % (show(e[2]), e[1], show(e[3]))
    if k == "sizeof":
        return "sizeof(%s)" % e[1].replace(" ", "")
    if k == "init0":
        return "{}"
    if k == "comma":
        return "%s,%s" % (show(e[1]), show(e[2]))
    if k == "?:":
        return "(%s?%s:%s)" % (show(e[1]), show(e[2]), show(e[3]))
    reject("show: %r" % (e,))


def conj(e):
    """flatten an && chain"""
    if e[0] == "bin" and e[1] == "&&":
        return conj(e[2]) + conj(e[3])
    return [e]


def disj(e):
    if e[0] == "bin" and e[1] == "||":
        return disj(e[2]) + disj(e[3])
    return [e]


def sshow(s):
    """canonical one-line text of a statement (used for whitelists / messages)"""
    k = s[0]
    if k == "expr":
        return show(s[1]) + ";"
    if k == "decl":
        return "%s %s%s;" % (s[1], s[2], "=" + show(s[3]) if s[3] is not None else "")
    if k == "return":
        return "return %s;" % show(s[1]) if s[1] is not None else "return;"
    if k == "if":
        return "if(%s){%s}%s" % (show(s[1]), "".join(sshow(x) for x in s[2]),
                                 "else{%s}" % "".join(sshow(x) for x in s[3]) if s[3] is not None else "")
    if k == "while":
        return "while(%s){%s}" % (show(s[1]), "".join(sshow(x) for x in s[2]))
    if k == "do":
        return "do{%s}while(%s);" % ("".join(sshow(x) for x in s[1]), show(s[2]))
    if k == "for":
        return "for(%s;%s;%s){%s}" % (show(s[1]), show(s[2]), show(s[3]), "".join(sshow(x) for x in s[4]))
    if k == "block":
        return "{%s}" % "".join(sshow(x) for x in s[1])
    if k in ("empty",):
        return ""
    return k + ";"


def is_assert(s):
    return s[0] == "expr" and s[1][0] == "call" and show(s[1][1]) == "assert"


def drop_asserts(ss):
    """NDEBUG build: assert(...) expands to nothing"""
    out = []
    for s in ss:
        if is_assert(s) or s[0] == "empty":
            continue
        k = s[0]
        if k == "if":
            out.append(("if", s[1], drop_asserts(s[2]), drop_asserts(s[3]) if s[3] is not None else None))
        elif k == "while":
            out.append(("while", s[1], drop_asserts(s[2])))
        elif k == "do":
            out.append(("do", drop_asserts(s[1]), s[2]))
        elif k == "for":
            out.append(("for", s[1], s[2], s[3], drop_asserts(s[4])))
        elif k == "block":
            out.append(("block", drop_asserts(s[1])))
        else:
            out.append(s)
    return out


def parse_body(toks):
    p = P(toks)
    ss = p.block()
    if p.peek()[0] != "eof":
        reject("trailing tokens after function body")
    return drop_asserts(ss)


def params_of(head, macros):
    """parameter names of a function header (macro parameter lists expanded)"""
    d, k = 0, len(head) - 1
    while k >= 0:
        if head[k] == ("op", ")"):
            d += 1
        elif head[k] == ("op", "("):
            d -= 1
            if d == 0:
                break
        k -= 1
    inner = head[k + 1:-1]
    if len(inner) == 1 and inner[0][0] == "id" and inner[0][1] in macros:
        inner = tokenize(macros[inner[0][1]])
    names, cur = [], []
    for t in inner + [("op", ",")]:
        if t == ("op", ","):
            ids = [x[1] for x in cur if x[0] == "id"]
            # strip array suffix:  int sv[2]
            if cur and cur != [("op", "...")] and ids:
                nm = ids[-1]
                names.append(nm)
            cur = []
        else:
            if t[0] == "num":
                continue
            cur.append(t)
    return names


# ---------------------------------------------------------------------------
# bounds analysis: every  ARR[i]  dominated by  0 <= i < max_fd ?
# ---------------------------------------------------------------------------
def bound_facts(c, positive, unsigned_max):
    """facts (strings 'lo:<i>' / 'hi:<i>') implied by condition c being true
    (positive) or false (not positive)"""
    facts = set()
    if positive:
        parts = conj(c)
    else:
        parts = disj(c)
    for p in parts:
        q = p
        neg = not positive
        while q[0] == "un" and q[1] == "!":
            q = q[2]
            neg = not neg
        if q[0] != "bin":
            continue
        op, a, b = q[1], show(q[2]), show(q[3])
        if neg:
            op = {"<": ">=", ">=": "<", ">": "<=", "<=": ">", "==": "!=", "!=": "=="}.get(op, None)
            if op is None:
                continue
        if op == "<" and b == "max_fd":
            facts.add("hi:" + a)
            if unsigned_max:
                facts.add("lo:" + a)     # int i converted to unsigned: negative i compares >= max_fd
        if op == ">" and a == "max_fd":
            facts.add("hi:" + b)
            if unsigned_max:
                facts.add("lo:" + b)
        if op == ">=" and b in ("0",):
            facts.add("lo:" + a)
        if op == ">" and b in ("-1",):
            facts.add("lo:" + a)
        if op == "<=" and a == "0":
            facts.add("lo:" + b)
    return facts


def index_sites(e, arrays, acc):
    """all (array, index text) occurrences in expression e, left to right;
    && / || record the conjuncts that guard the right operand"""
    if e is None or not isinstance(e, tuple):
        return
    k = e[0]
    if k == "idx" and e[1][0] == "id" and e[1][1] in arrays:
        acc.append((e[1][1], show(e[2]), e))
        index_sites(e[2], arrays, acc)
        return
    for x in e[1:]:
        if isinstance(x, tuple):
            index_sites(x, arrays, acc)
        elif isinstance(x, list):
            for y in x:
                index_sites(y, arrays, acc)


def always_returns(ss):
    if not ss:
        return False
    s = ss[-1]
    if s[0] == "return":
        return True
    if s[0] == "if" and s[3] is not None:
        return always_returns(s[2]) and always_returns(s[3])
    if s[0] == "block":
        return always_returns(s[1])
    return False


def analyse_bounds(ss, arrays, unsigned_max, aliases=None):
    """returns list of (array, index, guarded)"""
    res = []
    alias = {}     # const int NAME = <conjunction>;  NAME true implies the facts of the conjunction

    def bfacts(c, positive):
        f = bound_facts(c, positive, unsigned_max)
        if positive:
            for p in conj(c):
                if p[0] == "id" and p[1] in alias:
                    f |= alias[p[1]]
        return f

    def cond_sites(c, facts):
        # && chain: conjunct k guarded by conjuncts < k
        parts = conj(c)
        f = set(facts)
        for p in parts:
            if p[0] == "bin" and p[1] == "||":
                g = set(f)
                for d in disj(p):
                    expr_sites(d, g)
                    g |= bfacts(d, False)
            else:
                expr_sites(p, f)
            f |= bfacts(p, True)

    def expr_sites(e, facts):
        acc = []
        index_sites(e, arrays, acc)
        for (arr, ix, _) in acc:
            res.append((arr, ix, ("lo:" + ix) in facts and ("hi:" + ix) in facts))

    def walk(ss, facts):
        facts = set(facts)
        for s in ss:
            k = s[0]
            if k == "if":
                cond_sites(s[1], facts)
                walk(s[2], facts | bfacts(s[1], True))
                if s[3] is not None:
                    walk(s[3], facts | bfacts(s[1], False))
                if always_returns(s[2]) and s[3] is None:
                    facts |= bfacts(s[1], False)
            elif k == "while":
                cond_sites(s[1], facts)
                walk(s[2], facts | bfacts(s[1], True))
            elif k == "do":
                walk(s[1], facts)
                cond_sites(s[2], facts)
            elif k == "for":
                for x in s[1:4]:
                    if x is not None:
                        expr_sites(x, facts)
                walk(s[4], facts)
            elif k == "block":
                walk(s[1], facts)
            elif k == "decl":
                if s[3] is not None:
                    if s[1].replace("const ", "") in ("int", "bool") and s[3][0] == "bin" and s[3][1] == "&&":
                        cond_sites(s[3], facts)
                        alias[s[2]] = bfacts(s[3], True)
                    else:
                        expr_sites(s[3], facts)
            elif k == "expr":
                expr_sites(s[1], facts)
            elif k == "return":
                if s[1] is not None:
                    expr_sites(s[1], facts)
    walk(ss, set())
    return res


# ---------------------------------------------------------------------------
# shims
# ---------------------------------------------------------------------------
def strip_loader(ss, real):
    """first statement:  if (!fibershim_X) { fibershim_X = (T)dlsym(RTLD_NEXT, "X"); }"""
    want = re.compile(r'^if\(!fibershim_(\w+)\)\{fibershim_\1=\(\w+\)dlsym\(RTLD_NEXT,"(\w+)"\);\}$')
    out, found = [], None
    for s in ss:
        m = want.match(sshow(s)) if s[0] == "if" else None
        if m and m.group(1) == real:
            if m.group(2) != real:
                reject("shim %s loads symbol %s" % (real, m.group(2)))
            found = m.group(2)
        else:
            out.append(s)
    return out, found


EAGAIN_TXT = {"((errno==EWOULDBLOCK)||(errno==EAGAIN))", "((errno==EAGAIN)||(errno==EWOULDBLOCK))"}
# a helper that re-reads errno on the current kernel thread (set by translate() when the
# source defines it with the expected body and noinline)
EAGAIN_HELPER = "fiber_io_would_block()"
HELPER_OK = [False]


def split_retry_cond(c, retvar, fdvar, name):
    """condition of a retry loop -> (errno class, dontwait tested)"""
    parts = [show(p) for p in conj(c)]
    if not parts or parts[0] != "(%s<0)" % retvar:
        reject("%s: retry condition does not start with %s < 0: %s" % (name, retvar, show(c)))
    rest = parts[1:]
    if not rest:
        reject("%s: retry condition has no errno test" % name)
    fresh = False
    if rest[0] in EAGAIN_TXT:
        err = "EAGAIN"
    elif rest[0] == EAGAIN_HELPER and HELPER_OK[0]:
        err = "EAGAIN"
        fresh = True
    elif rest[0] == "(errno==EINPROGRESS)":
        err = "EINPROGRESS"
    else:
        reject("%s: errno test not recognised: %s" % (name, rest[0]))
    rest = rest[1:]
    dw = False
    if rest and rest[0] == "!(flags&MSG_DONTWAIT)":
        dw = True
        rest = rest[1:]
    if rest != ["should_block(%s)" % fdvar]:
        reject("%s: retry condition must end with should_block(%s): %s" % (name, fdvar, show(c)))
    FRESH[name] = fresh
    return err, dw


FRESH = {}


def wait_stmt(s, fdvar, name):
    """if (!fiber_wait_for_event(fd, DIR)) { return -1; }  -> DIR"""
    m = re.match(r"^if\(!fiber_wait_for_event\((\w+),FIBER_POLL_(IN|OUT)\)\)\{return -1;\}$", sshow(s))
    if not m or m.group(1) != fdvar:
        reject("%s: wait step not recognised: %s" % (name, sshow(s)))
    return "Dir" + m.group(2).capitalize()


def real_call_stmt(e, real, params, name):
    """fibershim_X(<the shim's own parameters, in order>)"""
    want = "fibershim_%s(%s)" % (real, ",".join(params))
    if show(e) != want:
        reject("%s: real call is not %s: %s" % (name, want, show(e)))


def shim_shape(name, head, body, macros):
    params = params_of(head, macros)
    if not params:
        reject("%s: no parameters" % name)
    fdvar = params[0]
    ss, loaded = strip_loader(body, name)
    if loaded != name:
        reject("%s: lazy dlsym(RTLD_NEXT, \"%s\") prelude not found" % (name, name))
    info = {"name": name, "real": loaded, "dir": "DirNone", "shape": None, "dontwait": False,
            "retry_errno": "ENone", "newfd": False, "fdvar": fdvar}
    txt = [sshow(s) for s in ss]

    # ---- PreWaitLoop:  T ret; do { if (c) wait; ret = real; } while (retry); return ret;
    if len(ss) == 3 and ss[0][0] == "decl" and ss[0][3] is None and ss[1][0] == "do" and txt[2] == "return %s;" % ss[0][2]:
        ret = ss[0][2]
        b = ss[1][1]
        if len(b) != 2 or b[0][0] != "if" or b[0][3] is not None or len(b[0][2]) != 1:
            reject("%s: do-body not recognised: %s" % (name, sshow(ss[1])))
        pre = [show(p) for p in conj(b[0][1])]
        dwpre = False
        if pre and pre[0] == "!(flags&MSG_DONTWAIT)":
            dwpre = True
            pre = pre[1:]
        if pre != ["should_block(%s)" % fdvar]:
            reject("%s: pre-wait test not recognised: %s" % (name, show(b[0][1])))
        info["dir"] = wait_stmt(b[0][2][0], fdvar, name)
        if b[1][0] != "expr" or b[1][1][0] != "assign" or b[1][1][1] != "=" or show(b[1][1][2]) != ret:
            reject("%s: real call statement not recognised: %s" % (name, sshow(b[1])))
        real_call_stmt(b[1][1][3], name, params, name)
        err, dw = split_retry_cond(ss[1][2], ret, fdvar, name)
        if dw != dwpre:
            reject("%s: MSG_DONTWAIT tested in only one of the two conditions" % name)
        info.update(shape="PreWaitLoop", dontwait=dw, retry_errno=err)
        return info

    # ---- PostFailLoop / SingleRetry:  T ret = real; while|if (retry) { wait; ret = real; } [tail] return ret;
    if len(ss) >= 3 and ss[0][0] == "decl" and ss[0][3] is not None and ss[1][0] in ("while", "if") \
            and (ss[1][0] == "while" or ss[1][3] is None) and len(ss[1][2]) == 2 \
            and ss[1][2][1][0] == "expr" and ss[1][2][1][1][0] == "assign":
        ret = ss[0][2]
        real_call_stmt(ss[0][3], name, params, name)
        err, dw = split_retry_cond(ss[1][1], ret, fdvar, name)
        b = ss[1][2]
        info["dir"] = wait_stmt(b[0], fdvar, name)
        if b[1][1][1] != "=" or show(b[1][1][2]) != ret:
            reject("%s: retry statement not recognised: %s" % (name, sshow(b[1])))
        real_call_stmt(b[1][1][3], name, params, name)
        tail = txt[2:]
        if tail == ["return %s;" % ret]:
            pass
        elif tail == ["if((%s>0)){if((setup_socket(%s)<0)){close(%s);return -1;}}" % (ret, ret, ret), "return %s;" % ret] or \
                tail == ["if((%s>=0)){if((setup_socket(%s)<0)){close(%s);return -1;}}" % (ret, ret, ret), "return %s;" % ret]:
            info["newfd"] = True
        else:
            reject("%s: statements after the retry not recognised: %s" % (name, " ".join(tail)))
        info.update(shape="PostFailLoop" if ss[1][0] == "while" else "SingleRetry", dontwait=dw, retry_errno=err)
        return info

    # ---- SingleWait (connect): T ret = real; if (ret<0 && errno==EINPROGRESS && should_block) { wait; SO_ERROR; return 0; } return ret;
    if len(ss) == 3 and ss[0][0] == "decl" and ss[0][3] is not None and ss[1][0] in ("if", "while") and txt[2] == "return %s;" % ss[0][2]:
        ret = ss[0][2]
        real_call_stmt(ss[0][3], name, params, name)
        err, dw = split_retry_cond(ss[1][1], ret, fdvar, name)
        b = ss[1][2]
        info["dir"] = wait_stmt(b[0], fdvar, name)
        rest = [sshow(x) for x in b[1:]]
        want = ["int so_error;", "socklen_t outSize=sizeof(so_error);",
                "if(getsockopt(%s,SOL_SOCKET,SO_ERROR,&so_error,&outSize)){return -1;}" % fdvar,
                "if(so_error){errno=so_error;return -1;}", "return 0;"]
        if rest != want or ss[1][0] != "if" or ss[1][3] is not None:
            reject("%s: completion sequence after the wait not recognised: %s" % (name, " ".join(rest)))
        if err != "EINPROGRESS":
            reject("%s: SO_ERROR completion after a wait for %s" % (name, err))
        info.update(shape="SingleWait", dontwait=dw, retry_errno=err)
        return info
    return None   # not a waiting shim: handled by the caller


def mask_ast(e):
    """expression over fd_info[fd].flags_, IO_FLAG_* -> AST (tuple) and Coq text"""
    k = e[0]
    if k == "mem" and show(e) .startswith("fd_info[") and e[3] == "flags_":
        return ("MFlags",)
    if k == "id" and e[1] == "IO_FLAG_BLOCKING":
        return ("MB",)
    if k == "id" and e[1] == "IO_FLAG_WAITABLE":
        return ("MW",)
    if k == "num":
        return ("MConst", int(e[1].rstrip("uUlL"), 0))
    if k == "bin" and e[1] in ("&", "|", "==", "!="):
        return ({"&": "MAnd", "|": "MOr", "==": "MEq", "!=": "MNe"}[e[1]], mask_ast(e[2]), mask_ast(e[3]))
    if k == "un" and e[1] == "!":
        return ("MNot", mask_ast(e[2]))
    reject("should_block: mask expression not understood: %s" % show(e))


def mask_coq(a):
    if len(a) == 1:
        return a[0]
    if a[0] == "MConst":
        return "(MConst %d)" % a[1]
    return "(%s %s)" % (a[0], " ".join(mask_coq(x) for x in a[1:]))


def mask_code(a):
    """prefix integer encoding (the model's run_case decodes it)"""
    tag = {"MFlags": 0, "MB": 1, "MW": 2, "MConst": 3, "MAnd": 4, "MOr": 5, "MEq": 6, "MNe": 7, "MNot": 8}[a[0]]
    if a[0] == "MConst":
        return [tag, a[1]]
    out = [tag]
    for x in a[1:]:
        out += mask_code(x)
    return out


def analyse_should_block(body, max_unsigned):
    ss = body
    txt = [sshow(s) for s in ss]
    if len(ss) != 2 or ss[0][0] != "if" or ss[0][3] is not None or [sshow(x) for x in ss[0][2]] != ["return 1;"] \
            or txt[1] != "return 0;":
        reject("should_block: body not recognised: %s" % " ".join(txt))
    parts = conj(ss[0][1])
    guards, mask = [], None
    for p in parts:
        t = show(p)
        if t == "!thread_locked":
            guards.append("GNotLocked")
        elif t == "fd_info":
            guards.append("GInit")
        elif t == "(fd<max_fd)":
            guards.append("GBelowMax")
        elif t == "(fd>=0)":
            guards.append("GNonNeg")
        elif "flags_" in t:
            if mask is not None:
                reject("should_block: two mask conjuncts")
            if guards.count("GBelowMax") == 0:
                pass
            mask = mask_ast(p)
        else:
            reject("should_block: conjunct not recognised: %s" % t)
    if mask is None:
        reject("should_block: no test of the flag byte")
    return guards, mask


def flag_updates(ss, name):
    """atomic_fetch_or/and on fd_info[..].flags_ and plain stores, in order"""
    ups = []

    def ex(e):
        if not isinstance(e, tuple):
            return
        if e[0] == "call" and show(e[1]) in ("atomic_fetch_or", "atomic_fetch_and") and len(e[2]) == 2:
            tgt, val = show(e[2][0]), show(e[2][1])
            m = re.match(r"^&fd_info\[(.+)\]\.flags_$", tgt)
            if not m:
                reject("%s: atomic update of something else than fd_info[].flags_: %s" % (name, tgt))
            ups.append((show(e[1]), m.group(1), val))
            return
        if e[0] == "assign" and "flags_" in show(e[2]):
            m = re.match(r"^fd_info\[(.+)\]\.flags_$", show(e[2]))
            if not m or e[1] != "=":
                reject("%s: store to flags_ not recognised: %s" % (name, show(e)))
            ups.append(("store", m.group(1), show(e[3])))
            return
        for x in e[1:]:
            if isinstance(x, tuple):
                ex(x)
            elif isinstance(x, list):
                for y in x:
                    ex(y)

    def walk(ss):
        for s in ss:
            k = s[0]
            if k in ("if",):
                ex(s[1]); walk(s[2]); walk(s[3] or [])
            elif k == "while":
                ex(s[1]); walk(s[2])
            elif k == "do":
                walk(s[1]); ex(s[2])
            elif k == "for":
                walk(s[4])
            elif k == "block":
                walk(s[1])
            elif k == "decl":
                ex(s[3])
            elif k in ("expr", "return"):
                ex(s[1])
    walk(ss)
    return ups


FLAGVAL = {"(IO_FLAG_BLOCKING|IO_FLAG_WAITABLE)": "SetBoth", "(IO_FLAG_WAITABLE|IO_FLAG_BLOCKING)": "SetBoth",
           "~IO_FLAG_BLOCKING": "ClearB", "IO_FLAG_BLOCKING": "SetB", "0": "Zero"}


def translate():
    io_txt, io_macros = preprocess(open(SRC_IO).read())
    ev_txt, ev_macros = preprocess(open(SRC_EV).read())
    io_fns = functions(io_txt)
    ev_fns = functions(ev_txt)
    R = {"shims": [], "consts": {}}
    for c in ("IO_FLAG_BLOCKING", "IO_FLAG_WAITABLE"):
        if c not in io_macros or not re.match(r"^\d+$", io_macros[c]):
            reject("constant %s not found" % c)
        R["consts"][c] = int(io_macros[c])
    # type of max_fd in each file
    m = re.search(r"static\s+(\w+)\s+max_fd\s*=", io_txt)
    if not m:
        reject("fiber_io.c: declaration of max_fd not found")
    R["io_max_fd_type"] = m.group(1)
    io_unsigned = m.group(1) in ("rlim_t", "size_t", "unsigned", "uint64_t", "uint32_t")
    if m.group(1) not in ("rlim_t", "size_t", "unsigned", "uint64_t", "uint32_t", "int", "long"):
        reject("fiber_io.c: type of max_fd not understood: %s" % m.group(1))
    m = re.search(r"static\s+(\w+)\s+max_fd\s*=", ev_txt)
    if not m:
        reject("fiber_event_native.c: declaration of max_fd not found")
    R["ev_max_fd_type"] = m.group(1)
    ev_unsigned = m.group(1) in ("rlim_t", "size_t", "unsigned", "uint64_t", "uint32_t")

    HELPER_OK[0] = False
    if "fiber_io_would_block" in io_fns:
        head, btoks = io_fns["fiber_io_would_block"]
        htxt = " ".join(t[1] for t in head)
        body = [sshow(x) for x in parse_body(btoks)]
        if body != ["return ((errno==EWOULDBLOCK)||(errno==EAGAIN));"] and body != ["return ((errno==EAGAIN)||(errno==EWOULDBLOCK));"]:
            reject("fiber_io_would_block: body not recognised: %s" % " ".join(body))
        if "noinline" not in htxt:
            reject("fiber_io_would_block must be noinline (otherwise the errno location is cached again)")
        HELPER_OK[0] = True
    FRESH.clear()
    bodies = {}
    for n in SHIMS + ["should_block", "setup_socket"]:
        if n not in io_fns:
            if n in SHIMS:
                continue
            reject("fiber_io.c: function %s not found" % n)
        bodies[n] = parse_body(io_fns[n][1])
    missing = [n for n in SHIMS if n not in bodies]
    if missing:
        reject("fiber_io.c: shims not found: %s" % " ".join(missing))

    # ---- should_block
    guards, mask = analyse_should_block(bodies["should_block"], io_unsigned)
    R["sb_guards"], R["sb_mask"] = guards, mask

    # ---- bounds
    bounds = {}
    for n in ["should_block", "setup_socket", "pipe", "fcntl", "ioctl", "close"]:
        sites = analyse_bounds(bodies[n], {"fd_info"}, io_unsigned)
        if n != "ioctl" and n != "fcntl" and not sites:
            reject("%s: expected an fd_info[] access" % n)
        bounds[n] = sites
    for n in ["fiber_wait_for_event", "fiber_fd_closed", "fiber_poll_events_internal", "fiber_event_wake_waiters"]:
        if n not in ev_fns:
            reject("fiber_event_native.c: function %s not found" % n)
    evb = {n: parse_body(ev_fns[n][1]) for n in
           ["fiber_wait_for_event", "fiber_fd_closed", "fiber_poll_events_internal", "fiber_event_wake_waiters"]}
    for n in ["fiber_wait_for_event", "fiber_fd_closed", "fiber_poll_events_internal"]:
        sites = analyse_bounds(evb[n], {"wait_info"}, ev_unsigned)
        if not sites:
            reject("%s: expected a wait_info[] access" % n)
        bounds[n] = sites
    R["bounds"] = {n: all(g for (_, _, g) in s) for n, s in bounds.items()}
    R["bounds_sites"] = {n: [(a, i, g) for (a, i, g) in s] for n, s in bounds.items()}

    # ---- waiting shims
    for n in SHIMS:
        head, _ = io_fns[n]
        if n in ("close", "fcntl", "ioctl", "pipe", "socket", "socketpair"):
            continue
        info = shim_shape(n, head, bodies[n], io_macros)
        if info is None:
            reject("shim %s: shape not recognised:\n  %s" % (n, "\n  ".join(sshow(s) for s in bodies[n])))
        R["shims"].append(info)

    # the errno test that follows a wait is evaluated on the kernel thread the fiber resumed on
    R["errno_fresh"] = all(FRESH.get(x["name"], False) for x in R["shims"] if x["retry_errno"] == "EAGAIN")

    # ---- close
    ss, loaded = strip_loader(bodies["close"], "close")
    txt = [sshow(s) for s in ss]
    guard_forms = ("if((fd_info&&(fd<max_fd))){fd_info[fd].flags_=0;}",
                   "if(((fd_info&&(fd>=0))&&(fd<max_fd))){fd_info[fd].flags_=0;}",
                   "if(((fd>=0)&&(fd<max_fd))){fd_info[fd].flags_=0;}")
    if loaded != "close" or len(txt) != 3 or txt[0] != "fiber_fd_closed(fd);" or txt[1] not in guard_forms \
            or txt[2] != "return fibershim_close(fd);":
        reject("close: body not recognised: %s" % " ".join(txt))
    R["shims"].append({"name": "close", "real": "close", "dir": "DirNone", "shape": "NoWait", "dontwait": False,
                       "retry_errno": "ENone", "newfd": False, "fdvar": "fd"})
    R["close_notifies_waiters"] = True
    R["close_clears_flags"] = True

    # ---- fcntl: which (cmd,val) are intercepted, what they do, what reaches the real call
    fb = bodies["fcntl"]
    ftxt = [sshow(s) for s in fb]
    pre = ["va_list args;", "va_start(args,cmd);", "long val=va_arg(args,long);", "va_end(args);"]
    if ftxt[:4] != pre:
        reject("fcntl: argument prelude not recognised: %s" % " ".join(ftxt[:4]))
    rest = fb[4:]
    loader = 'if(!fibershim_fcntl){fibershim_fcntl=(fcntlFnType)dlsym(RTLD_NEXT,"fcntl");}'
    tracking = [
        "const int managed=(((!thread_locked&&(fd>=0))&&(fd<max_fd))&&(fd_info[fd].flags_&IO_FLAG_WAITABLE));",
        "if((managed&&(cmd==F_SETFL))){if((val&O_NONBLOCK)){atomic_fetch_and(&fd_info[fd].flags_,~IO_FLAG_BLOCKING);}"
        "else{atomic_fetch_or(&fd_info[fd].flags_,IO_FLAG_BLOCKING);}val|=O_NONBLOCK;}",
        loader,
        "int ret=fibershim_fcntl(fd,cmd,val);",
        "if((((managed&&(cmd==F_GETFL))&&(ret>=0))&&(fd_info[fd].flags_&IO_FLAG_BLOCKING))){ret&=~O_NONBLOCK;}",
        "return ret;"]
    if [sshow(x) for x in rest] == tracking:
        R["fcntl_tracks_mode"] = True
        R["fcntl_managed_only"] = True
    else:
        R["fcntl_tracks_mode"] = False
        if len(rest) != 3 or rest[0][0] != "if" or show(rest[0][1]) != "!thread_locked" or rest[0][3] is not None or \
                sshow(rest[1]) != loader or sshow(rest[2]) != "return fibershim_fcntl(fd,cmd,val);":
            reject("fcntl: body not recognised: %s" % " ".join(ftxt[4:]))
        inner = rest[0][2]
        if len(inner) != 2 or inner[0][0] != "if" or inner[0][3] is not None or \
                sshow(inner[1]) != "if((cmd==F_SETFL)){val|=O_NONBLOCK;}":
            reject("fcntl: intercept block not recognised: %s" % " ".join(sshow(x) for x in inner))
        cparts = [show(p) for p in conj(inner[0][1])]
        if cparts[:2] != ["(cmd==F_SETFL)", "((val==O_NONBLOCK)||(val==O_NDELAY))"]:
            reject("fcntl: intercept condition not recognised: %s" % show(inner[0][1]))
        extra = cparts[2:]
        allowed_extra = {"(fd>=0)", "(fd<max_fd)", "fd_info", "(fd_info[fd].flags_&IO_FLAG_WAITABLE)"}
        for x in extra:
            if x not in allowed_extra:
                reject("fcntl: extra intercept conjunct not recognised: %s" % x)
        R["fcntl_managed_only"] = "(fd_info[fd].flags_&IO_FLAG_WAITABLE)" in extra
        ups = flag_updates(inner[0][2], "fcntl")
        body_txt = [sshow(x) for x in inner[0][2]]
        if ups != [("atomic_fetch_and", "fd", "~IO_FLAG_BLOCKING")] or body_txt != ["atomic_fetch_and(&fd_info[fd].flags_,~IO_FLAG_BLOCKING);", "return 0;"]:
            reject("fcntl: intercept action not recognised: %s" % " ".join(body_txt))
    R["shims"].append({"name": "fcntl", "real": "fcntl", "dir": "DirNone", "shape": "NoWait", "dontwait": False,
                       "retry_errno": "ENone", "newfd": False, "fdvar": "fd"})

    # ---- ioctl
    ib = bodies["ioctl"]
    itxt = [sshow(s) for s in ib]
    pre = ["va_list args;", "va_start(args,request);", "void * val=va_arg(args,void*);", "va_end(args);"]
    if itxt[:4] != pre:
        reject("ioctl: argument prelude not recognised: %s" % " ".join(itxt[:4]))
    rest = ib[4:]
    if len(rest) != 3 or rest[0][0] != "if" or rest[0][3] is not None or \
            sshow(rest[1]) != 'if(!fibershim_ioctl){fibershim_ioctl=(ioctlFnType)dlsym(RTLD_NEXT,"ioctl");}' or \
            sshow(rest[2]) != "return fibershim_ioctl(d,request,val);":
        reject("ioctl: body not recognised: %s" % " ".join(itxt[4:]))
    cparts = [show(p) for p in conj(rest[0][1])]
    if cparts[:2] != ["!thread_locked", "(request==FIONBIO)"]:
        reject("ioctl: intercept condition not recognised: %s" % show(rest[0][1]))
    for x in cparts[2:]:
        if x not in {"(d>=0)", "(d<max_fd)", "fd_info", "(fd_info[d].flags_&IO_FLAG_WAITABLE)"}:
            reject("ioctl: extra intercept conjunct not recognised: %s" % x)
    R["ioctl_managed_only"] = "(fd_info[d].flags_&IO_FLAG_WAITABLE)" in cparts[2:]
    want = ["if(!val){errno=EINVAL;return -1;}",
            "if(*(int*)val){atomic_fetch_and(&fd_info[d].flags_,~IO_FLAG_BLOCKING);}else{atomic_fetch_or(&fd_info[d].flags_,IO_FLAG_BLOCKING);}",
            "return 0;"]
    got = [sshow(x) for x in rest[0][2]]
    if got != want:
        reject("ioctl: intercept action not recognised: %s" % " ".join(got))
    R["shims"].append({"name": "ioctl", "real": "ioctl", "dir": "DirNone", "shape": "NoWait", "dontwait": False,
                       "retry_errno": "ENone", "newfd": False, "fdvar": "d"})

    # ---- descriptor creation: setup_socket / pipe mark the new descriptors BLOCKING|WAITABLE
    ups = flag_updates(bodies["setup_socket"], "setup_socket")
    if ups != [("atomic_fetch_or", "sock", "(IO_FLAG_BLOCKING|IO_FLAG_WAITABLE)")]:
        reject("setup_socket: flag update not recognised: %r" % (ups,))
    if "const int ret=fibershim_fcntl(sock,F_SETFL,O_NONBLOCK);" not in [sshow(s) for s in bodies["setup_socket"]]:
        reject("setup_socket: does not put the descriptor in non-blocking mode")
    ups = flag_updates(bodies["pipe"], "pipe")
    if ups != [("atomic_fetch_or", "pipefd[0]", "(IO_FLAG_BLOCKING|IO_FLAG_WAITABLE)"),
               ("atomic_fetch_or", "pipefd[1]", "(IO_FLAG_BLOCKING|IO_FLAG_WAITABLE)")]:
        reject("pipe: flag updates not recognised (both ends must be marked BLOCKING|WAITABLE): %r" % (ups,))
    ptxt = "".join(sshow(s) for s in bodies["pipe"])
    for k in (0, 1):
        if "ret=fibershim_fcntl(pipefd[%d],F_SETFL,O_NONBLOCK);" % k not in ptxt:
            reject("pipe: end %d is not put in non-blocking mode" % k)
    for n, calls in (("socket", ["setup_socket(sock)"]), ("socketpair", ["setup_socket(sv[0])", "setup_socket(sv[1])"])):
        t = "".join(sshow(s) for s in bodies[n])
        for c in calls:
            if c not in t:
                reject("%s: %s not called" % (n, c))
    for n in ("pipe", "socket", "socketpair"):
        R["shims"].append({"name": n, "real": n, "dir": "DirNone", "shape": "NoWait", "dontwait": False,
                           "retry_errno": "ENone", "newfd": True, "fdvar": ""})

    # ---- descriptor-wait layer (statement whitelists; anything else aborts)
    W = {}
    wt = [sshow(s) for s in evb["fiber_event_wake_waiters"]]
    inner = ["fiber_t * const to_schedule=(fiber_t*)info->waiters;", "info->waiters=to_schedule->scratch;",
             "to_schedule->scratch=NULL;", "to_schedule->state=FIBER_STATE_READY;",
             "to_schedule->scratch=(void*)result;", "fiber_manager_schedule(manager,to_schedule);"]
    if wt == ["while(info->waiters){%s}" % "".join(inner)]:
        W["wake_all"] = True
    elif wt == ["if(info->waiters){%s}" % "".join(inner)]:
        W["wake_all"] = False
    else:
        reject("fiber_event_wake_waiters: body not recognised: %s" % " ".join(wt))

    # poller: find the else-branch handling a descriptor event
    def find_fd_branch(ss):
        for s in ss:
            if s[0] == "for":
                for x in s[4]:
                    if x[0] == "if" and show(x[1]) == "(the_fd==timer_fd)" and x[3] is not None:
                        return x[3]
            for sub in ([s[2], s[3] or []] if s[0] == "if" else [s[1]] if s[0] in ("block", "do") else [s[2]] if s[0] == "while" else []):
                r = find_fd_branch(sub)
                if r is not None:
                    return r
        return None
    br = find_fd_branch(evb["fiber_poll_events_internal"])
    if br is None:
        reject("fiber_poll_events_internal: descriptor branch not found")
    bt = [sshow(s) for s in br]
    known = {
        "fd_wait_info_t * const info=&wait_info[the_fd];": None,
        "fiber_spinlock_lock(&info->spinlock);": "poll_locks",
        "info->events&=~events[i].events;": "poll_clears_fired",
        "info->events&=(EPOLLIN|EPOLLOUT);": None,
        "if(info->events){struct epoll_event e;e.events=(EPOLLONESHOT|info->events);e.data.fd=the_fd;epoll_ctl(event_fd,EPOLL_CTL_MOD,e.data.fd,&e);}": "poll_rearms_rest",
        "fiber_event_wake_waiters(manager,info,0);": "poll_wakes",
        "fiber_spinlock_unlock(&info->spinlock);": "poll_unlocks",
    }
    for k in ("poll_locks", "poll_clears_fired", "poll_rearms_rest", "poll_wakes", "poll_unlocks"):
        W[k] = False
    order = []
    for t in bt:
        if t not in known:
            reject("fiber_poll_events_internal: statement not recognised in the descriptor branch: %s" % t)
        if known[t]:
            W[known[t]] = True
            order.append(known[t])
    canonical = ["poll_locks", "poll_clears_fired", "poll_rearms_rest", "poll_wakes", "poll_unlocks"]
    W["poll_order_ok"] = order == [k for k in canonical if k in order]

    ct = [sshow(s) for s in evb["fiber_fd_closed"]]
    known = {
        "if((event_fd<0)){return;}": None,
        "if(((fd<0)||(fd>=max_fd))){return;}": None,
        "if(((fd>=max_fd)||(fd<0))){return;}": None,
        "fd_wait_info_t * const info=&wait_info[fd];": None,
        "fiber_spinlock_lock(&info->spinlock);": "close_locks",
        "if((info->events||info->added)){epoll_ctl(event_fd,EPOLL_CTL_DEL,fd,NULL);info->events=0;info->added=0;}": "close_deletes",
        "fiber_event_wake_waiters(fiber_manager_get(),info,-1);": "close_wakes_error",
        "fiber_spinlock_unlock(&info->spinlock);": "close_unlocks",
    }
    for k in ("close_locks", "close_deletes", "close_wakes_error", "close_unlocks"):
        W[k] = False
    for t in ct:
        if t not in known:
            reject("fiber_fd_closed: statement not recognised: %s" % t)
        if known[t]:
            W[known[t]] = True

    wt = [sshow(s) for s in evb["fiber_wait_for_event"]]
    known = {
        "fd_wait_info_t * const info=&wait_info[fd];": None,
        "if(((fd<0)||(fd>=max_fd))){return FIBER_ERROR;}": None,
        "fiber_spinlock_lock(&info->spinlock);": "wait_locks",
        "if((events&FIBER_POLL_IN)){info->events|=EPOLLIN;}": "wait_ors_in",
        "if((events&FIBER_POLL_OUT)){info->events|=EPOLLOUT;}": "wait_ors_out",
        "struct epoll_event e={};": None,
        "e.events=(EPOLLONESHOT|info->events);": "wait_oneshot",
        "e.data.fd=fd;": None,
        "if(!info->added){epoll_ctl(event_fd,EPOLL_CTL_ADD,fd,&e);info->added=1;}else{epoll_ctl(event_fd,EPOLL_CTL_MOD,fd,&e);}": "wait_arms",
        "fiber_manager_t * const manager=fiber_manager_get();": None,
        "manager->event_wait_count+=1;": None,
        "fiber_t * const this_fiber=manager->current_fiber;": None,
        "this_fiber->scratch=info->waiters;": "wait_links",
        "info->waiters=this_fiber;": "wait_enqueues",
        "this_fiber->state=FIBER_STATE_WAITING;": "wait_sets_waiting",
        "manager->spinlock_to_unlock=&info->spinlock;": "wait_unlock_after_switch",
        "fiber_manager_yield(manager);": "wait_yields",
        "return (this_fiber->scratch?FIBER_ERROR:FIBER_SUCCESS);": "wait_reports_close",
    }
    keys = [v for v in known.values() if v]
    for k in keys:
        W[k] = False
    order = []
    for t in wt:
        if t not in known:
            reject("fiber_wait_for_event: statement not recognised: %s" % t)
        if known[t]:
            W[known[t]] = True
            order.append(known[t])
    W["wait_order_ok"] = order == [k for k in keys if k in order]
    R["wait"] = W
    return R


# ---------------------------------------------------------------------------
# output
# ---------------------------------------------------------------------------
def cbool(b):
    return "true" if b else "false"


def shim_id(n):
    return "S" + n.capitalize()


def emit_coq(R):
    L = []
    L.append("(* GENERATED by tools/gen/gen_shims.py from src/fiber_io.c and src/fiber_event_native.c")
    L.append("   (Linux branch, NDEBUG).  Do not edit: this file is rewritten from the source on")
    L.append("   every run of the C08 check and the lemmas of Properties_C08.v are re-checked")
    L.append("   against it. *)")
    L.append("From Coq Require Import List ZArith.")
    L.append("From LF Require Import FdShim.")
    L.append("Import ListNotations.")
    L.append("Open Scope Z_scope.")
    L.append("")
    L.append("Definition io_flag_blocking : Z := %d." % R["consts"]["IO_FLAG_BLOCKING"])
    L.append("Definition io_flag_waitable : Z := %d." % R["consts"]["IO_FLAG_WAITABLE"])
    L.append("")
    L.append("(* should_block(fd): conjunction of the guards below and (mask <> 0) *)")
    L.append("Definition sb_guards : list sb_guard := [%s]." % "; ".join(R["sb_guards"]))
    L.append("Definition sb_mask : mexp := %s." % mask_coq(R["sb_mask"]))
    L.append("(* max_fd is declared %s in fiber_io.c and %s in fiber_event_native.c *)" %
             (R["io_max_fd_type"], R["ev_max_fd_type"]))
    L.append("")
    L.append("(* one record per shim *)")
    L.append("Definition shims : list shim :=")
    rows = []
    for s in R["shims"]:
        rows.append("  {| sh_id := %s; sh_real := %s; sh_dir := %s; sh_shape := %s; sh_dontwait := %s;\n"
                    "     sh_retry := %s; sh_newfd := %s |}" %
                    (shim_id(s["name"]), shim_id(s["real"]), s["dir"], s["shape"], cbool(s["dontwait"]),
                     s["retry_errno"], cbool(s["newfd"])))
    L.append("  [\n" + ";\n".join(rows) + " ].")
    L.append("")
    L.append("(* every fd_info[] / wait_info[] index site of the function is dominated by a test")
    L.append("   0 <= i < max_fd  (assert() does not count) *)")
    for n in ["should_block", "close", "fcntl", "ioctl", "setup_socket", "pipe",
              "fiber_fd_closed", "fiber_wait_for_event", "fiber_poll_events_internal"]:
        sites = "; ".join("%s[%s]:%s" % (a, i, "checked" if g else "UNCHECKED") for (a, i, g) in R["bounds_sites"][n])
        L.append("Definition bc_%s : bool := %s.  (* %s *)" % (n, cbool(R["bounds"][n]), sites))
    L.append("")
    L.append("(* fcntl(F_SETFL,O_NONBLOCK) / ioctl(FIONBIO) are intercepted only for descriptors")
    L.append("   the library manages (flag WAITABLE set) *)")
    L.append("Definition fcntl_managed_only : bool := %s." % cbool(R["fcntl_managed_only"]))
    L.append("Definition ioctl_managed_only : bool := %s." % cbool(R["ioctl_managed_only"]))
    L.append("(* fcntl(F_SETFL, v) derives the caller-visible mode from v & O_NONBLOCK for every v, and")
    L.append("   F_GETFL reports it (otherwise only v == O_NONBLOCK exactly is recognised) *)")
    L.append("Definition fcntl_tracks_mode : bool := %s." % cbool(R["fcntl_tracks_mode"]))
    L.append("(* the EAGAIN test of every retry condition re-reads errno through a noinline helper, i.e. on")
    L.append("   the kernel thread the fiber resumed on (an inline `errno` may use the location of the")
    L.append("   thread it ran on before fiber_wait_for_event: __errno_location() is declared const) *)")
    L.append("Definition errno_fresh : bool := %s." % cbool(R["errno_fresh"]))
    L.append("")
    L.append("(* descriptor-wait layer *)")
    for k in sorted(R["wait"]):
        L.append("Definition ev_%s : bool := %s." % (k, cbool(R["wait"][k])))
    L.append("")
    return "\n".join(L)



def meval(a, fl, B, W):
    k = a[0]
    if k == "MFlags":
        return fl
    if k == "MB":
        return B
    if k == "MW":
        return W
    if k == "MConst":
        return a[1]
    if k == "MNot":
        return 1 if meval(a[1], fl, B, W) == 0 else 0
    x, y = meval(a[1], fl, B, W), meval(a[2], fl, B, W)
    return {"MAnd": x & y, "MOr": x | y, "MEq": int(x == y), "MNe": int(x != y)}[k]


EXPECTED_DIR = {"read": "DirIn", "readv": "DirIn", "recv": "DirIn", "recvfrom": "DirIn", "recvmsg": "DirIn",
                "accept": "DirIn", "write": "DirOut", "writev": "DirOut", "send": "DirOut", "sendto": "DirOut",
                "sendmsg": "DirOut", "connect": "DirOut"}
WAIT_KEYS = ["wake_all", "poll_locks", "poll_clears_fired", "poll_rearms_rest", "poll_wakes", "poll_unlocks",
             "poll_order_ok", "close_locks", "close_deletes", "close_wakes_error", "close_unlocks", "wait_locks",
             "wait_ors_in", "wait_ors_out", "wait_oneshot", "wait_arms", "wait_links", "wait_enqueues",
             "wait_sets_waiting", "wait_unlock_after_switch", "wait_yields", "wait_reports_close", "wait_order_ok"]


def blocking_ok(s):
    return (s["shape"] in ("PreWaitLoop", "PostFailLoop") or
            (s["shape"] == "SingleWait" and s["retry_errno"] == "EINPROGRESS") or
            (s["shape"] == "NoWait" and s["retry_errno"] == "ENone"))


def status(R):
    """the side conditions of Properties_C08.v, evaluated here only to choose which
    lemma to state in ShimMatch.v; Coq re-computes them (vm_compute), so a wrong
    evaluation here cannot make a false lemma pass"""
    B, W = R["consts"]["IO_FLAG_BLOCKING"], R["consts"]["IO_FLAG_WAITABLE"]
    m = R["sb_mask"]
    waiting = [s for s in R["shims"] if s["retry_errno"] != "ENone"]
    st = {}
    st["table_sane"] = (
        len(R["shims"]) == 18 and
        all(s["real"] == s["name"] and s["dir"] == EXPECTED_DIR.get(s["name"], "DirNone") for s in R["shims"]) and
        all(s["dontwait"] for s in waiting if s["name"] in HAS_FLAGS_ARG) and
        all(g in R["sb_guards"] for g in ("GNotLocked", "GInit", "GBelowMax")) and B == 1 and W == 2 and
        meval(m, B | W, B, W) != 0)
    st["mask_unmanaged"] = meval(m, 0, B, W) == 0 and meval(m, B, B, W) == 0
    st["blocking_table"] = all(blocking_ok(s) for s in waiting)
    st["mask"] = all(meval(m, fl, B, W) == 0 for fl in (0, B, W, B | W) if fl & B == 0)
    b = R["bounds"]
    st["bounds"] = b["should_block"] and b["close"] and b["fiber_fd_closed"] and b["fcntl"] and b["ioctl"]
    st["managed"] = R["fcntl_managed_only"] and R["ioctl_managed_only"]
    st["wait_layer"] = all(R["wait"][k] for k in WAIT_KEYS)
    st["fcntl_tracks"] = R["fcntl_tracks_mode"]
    st["errno_fresh"] = R["errno_fresh"]
    return st


def shim_record(s):
    return ("{| sh_id := %s; sh_real := %s; sh_dir := %s; sh_shape := %s; sh_dontwait := %s; "
            "sh_retry := %s; sh_newfd := %s |}" %
            (shim_id(s["name"]), shim_id(s["real"]), s["dir"], s["shape"], cbool(s["dontwait"]),
             s["retry_errno"], cbool(s["newfd"])))


def emit_match(R):
    st = status(R)
    L = []
    L.append("(* GENERATED by tools/gen/gen_shims.py together with ShimGen.v.  For each side")
    L.append("   condition of Properties_C08.v: the lemma that it holds for the current tree and")
    L.append("   the unconditional theorem, or the lemma that it fails and the refutation.")
    L.append("   Which of the two is stated is chosen by the translator; Coq re-computes the")
    L.append("   condition, so a wrong choice does not compile.  The check REQUIRES the *_holds")
    L.append("   lemmas; a *_fails lemma is a finding. *)")
    L.append("From Coq Require Import List ZArith Bool.")
    L.append("From LF Require Import FdShim FdShimProofs Properties_C08.")
    L.append("From LF Require Import gen.ShimGen.")
    L.append("Import ListNotations.")
    L.append("Open Scope Z_scope.")
    L.append("")

    def holds(name, cond):
        L.append("Lemma %s_holds : %s = true.\nProof. vm_compute. reflexivity. Qed.\nPrint Assumptions %s_holds." % (name, cond, name))

    def fails(name, cond):
        L.append("Lemma %s_fails : %s = false.\nProof. vm_compute. reflexivity. Qed.\nPrint Assumptions %s_fails." % (name, cond, name))

    def thm(name, body):
        L.append("Definition %s := %s.\nPrint Assumptions %s." % (name, body, name))

    (holds if st["table_sane"] else fails)("table_sane", "table_sane_b")
    L.append("")
    if st["blocking_table"]:
        holds("blocking_table", "blocking_table_b")
        thm("shim_blocking_never_eagain_here", "shim_blocking_never_eagain blocking_table_holds")
    else:
        fails("blocking_table", "blocking_table_b")
        thm("blocking_shape_refuted", "shim_blocking_never_eagain_refutable blocking_table_fails")
        for s in R["shims"]:
            if s["retry_errno"] != "ENone" and not blocking_ok(s):
                code = {"EAGAIN": 1, "EINPROGRESS": 4}[s["retry_errno"]]
                nm = "%s_%s_refuted" % (s["name"], {"SingleRetry": "single_retry", "SingleWait": "single_wait",
                                                     "NoWait": "no_wait"}.get(s["shape"], "shape"))
                L.append("(* %s in blocking mode, descriptor never closed: the second real call also finds" % s["name"])
                L.append("   nothing (another fiber took the connection) and its errno is returned *)")
                L.append("Lemma %s :\n  snd (run %s false (fun _ => RErr %d) (fun _ => true) (fun _ => true) 4) =\n"
                         "  Some (FromReal (RErr %d)).\nProof. vm_compute. reflexivity. Qed.\nPrint Assumptions %s."
                         % (nm, shim_record(s), code, code, nm))
    L.append("")
    if st["mask"]:
        holds("mask", "mask_b")
        if st["table_sane"]:
            thm("shim_nonblocking_immediate_here", "shim_nonblocking_immediate mask_holds table_sane_holds")
    else:
        fails("mask", "mask_b")
        thm("should_block_mask_refuted", "shim_nonblocking_immediate_refutable mask_fails")
    if st["mask_unmanaged"]:
        holds("mask_unmanaged", "mask_unmanaged_b")
        thm("unmanaged_never_blocks_here", "unmanaged_never_blocks mask_unmanaged_holds")
    else:
        fails("mask_unmanaged", "mask_unmanaged_b")
    L.append("")
    if st["bounds"]:
        holds("bounds", "bounds_b")
        thm("shim_bad_fd_in_bounds_here", "shim_bad_fd_in_bounds bounds_holds")
    else:
        fails("bounds", "bounds_b")
        thm("bad_fd_bounds_refuted", "shim_bad_fd_in_bounds_refutable bounds_fails")
        b = R["bounds"]
        if not b["fiber_fd_closed"]:
            L.append("(* close(-1): fiber_fd_closed indexes wait_info[-1] *)")
            L.append("Lemma close_bad_fd_refuted : forall max_fd, In (WaitInfo, -1) (close_sites K max_fd (-1)) /\\ in_range max_fd (-1) = false.\n"
                     "Proof. intros m. split; [apply unchecked_fd_closed; reflexivity|reflexivity]. Qed.\nPrint Assumptions close_bad_fd_refuted.")
        if not b["fcntl"]:
            L.append("(* fcntl(-1, F_SETFL, O_NONBLOCK): read-modify-write of fd_info[-1]%s *)" %
                     ("" if R["fcntl_managed_only"] else ", reports success whatever the kernel says"))
            L.append("Lemma fcntl_bad_fd_refuted : forall max_fd, In (FdInfo, -1) (fcntl_sites K max_fd (-1) 0)%s.\n"
                     "Proof. intros m. %s Qed.\nPrint Assumptions fcntl_bad_fd_refuted." %
                     (("" if R["fcntl_managed_only"] else " /\\ fcntl_result K W max_fd (-1) 0 (RErr 2) = ROk 0"),
                      ("apply (unchecked_fcntl K W m); reflexivity." if R["fcntl_managed_only"] else
                       "destruct (unchecked_fcntl K W m eq_refl (-1) 0) as [H1 H2]. split; [exact H1|apply H2; reflexivity].")))
        if not b["ioctl"]:
            L.append("(* ioctl(-1, FIONBIO, &on): read-modify-write of fd_info[-1] *)")
            L.append("Lemma ioctl_bad_fd_refuted : forall max_fd, In (FdInfo, -1) (ioctl_sites K max_fd (-1) 0)%s.\n"
                     "Proof. intros m. %s Qed.\nPrint Assumptions ioctl_bad_fd_refuted." %
                     (("" if R["ioctl_managed_only"] else " /\\ ioctl_result K W max_fd (-1) 0 (RErr 2) = ROk 0"),
                      ("apply (unchecked_ioctl K W m); reflexivity." if R["ioctl_managed_only"] else
                       "destruct (unchecked_ioctl K W m eq_refl (-1) 0) as [H1 H2]. split; [exact H1|apply H2; reflexivity].")))
    L.append("")
    if st["managed"]:
        holds("managed", "managed_b")
        thm("shim_closed_fd_passthrough_here", "shim_closed_fd_passthrough managed_holds")
    else:
        fails("managed", "managed_b")
        L.append("(* descriptor 5 of a table of 100, closed (byte 0): the kernel says EBADF, the caller is told 0 *)")
        L.append("Lemma closed_fd_not_validated_refuted :\n  fcntl_result K W 100 5 0 (RErr 2) = ROk 0 \\/ ioctl_result K W 100 5 0 (RErr 2) = ROk 0.\n"
                 "Proof. vm_compute. auto. Qed.\nPrint Assumptions closed_fd_not_validated_refuted.")
    L.append("")
    if st["wait_layer"]:
        holds("wait_layer", "wait_layer_b")
        thm("fdwait_every_waiter_woken_here", "fdwait_every_waiter_woken (eq_refl : ev_wake_all = true)")
    else:
        fails("wait_layer", "wait_layer_b")
        if not R["wait"]["wake_all"]:
            thm("fdwait_first_only_refuted", "fdwait_every_waiter_woken_refutable (eq_refl : ev_wake_all = false)")
    L.append("")
    if st["fcntl_tracks"]:
        holds("fcntl_tracks", "fcntl_tracks_b")
        thm("mode_follows_setfl_here", "mode_follows_setfl fcntl_tracks_holds")
    else:
        fails("fcntl_tracks", "fcntl_tracks_b")
        L.append("(* F_SETFL with O_NONBLOCK and any other bit (what F_GETFL returns for a socket, O_RDWR) is not")
        L.append("   recognised, and F_SETFL without O_NONBLOCK never restores blocking mode *)")
    L.append("")
    (holds if st["errno_fresh"] else fails)("errno_fresh", "errno_fresh_b")
    L.append("")
    return "\n".join(L)


def to_json(R):
    return json.dumps({
        "consts": R["consts"], "sb_guards": R["sb_guards"], "sb_mask": mask_coq(R["sb_mask"]),
        "sb_mask_code": mask_code(R["sb_mask"]),
        "shims": [{k: v for k, v in s.items() if k != "fdvar"} for s in R["shims"]],
        "bounds": R["bounds"], "wait": R["wait"],
        "fcntl_managed_only": R["fcntl_managed_only"], "ioctl_managed_only": R["ioctl_managed_only"],
        "fcntl_tracks_mode": R["fcntl_tracks_mode"], "errno_fresh": R["errno_fresh"],
        "status": status(R),
    }, indent=1, sort_keys=True)


def main(argv):
    out, mode = OUT, "file"
    js = False
    i = 1
    while i < len(argv):
        if argv[i] == "--out":
            out = argv[i + 1]
            i += 2
        elif argv[i] == "--stdout":
            mode = "stdout"
            i += 1
        elif argv[i] == "--json":
            js = True
            i += 1
        else:
            sys.stderr.write(__doc__)
            return 2
    try:
        R = translate()
    except Reject as r:
        sys.stderr.write("gen_shims: ABORT: %s\n" % r)
        return 3
    except OSError as e:
        sys.stderr.write("gen_shims: ABORT: %s\n" % e)
        return 3
    if js:
        sys.stdout.write(to_json(R) + "\n")
        return 0
    text = emit_coq(R)
    mtext = emit_match(R)
    if mode == "stdout":
        sys.stdout.write(text)
        sys.stdout.write("\n(* ---------------- ShimMatch.v ---------------- *)\n")
        sys.stdout.write(mtext)
        return 0
    os.makedirs(os.path.dirname(out), exist_ok=True)
    for path, body in ((out, text), (os.path.join(os.path.dirname(out), "ShimMatch.v"), mtext)):
        try:
            old = open(path).read()
        except OSError:
            old = None
        if old != body:
            tmp = path + ".tmp.%d" % os.getpid()
            with open(tmp, "w") as f:
                f.write(body)
            os.replace(tmp, path)
    return 0


if __name__ == "__main__":
    sys.exit(main(sys.argv))
