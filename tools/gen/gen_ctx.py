#!/usr/bin/env python3
"""Translator for C19: src/fiber_context.c  ->  coq/gen/CtxGen.v

Reads the x86-64 FIBER_FAST_SWITCHING branch of $VERIF_REPO/src/fiber_context.c
(default /repo) and writes the Coq model of

  * the __asm__ template of fiber_context_swap, parsed into the small ISA of
    coq/CtxIsa.v (swap_code), its operand constraints resolved to registers
    (swap_inputs / swap_outputs), its clobber list (swap_clobbers), whether
    it is `volatile`, and whether the asm statement is the last statement of
    the function (swap_asm_is_last);
  * the NON-asm statements of fiber_context_swap that precede the asm, in
    order, each with the preprocessor condition it is under
    (FIBER_STACK_SPLIT / __SANITIZE_THREAD__) and whether it is unconditional
    in C (swap_prologue): asserts, the two operand declarations,
    __splitstack_getcontext(from) / __splitstack_setcontext(to),
    __tsan_switch_to_fiber(to), the prefetches.  `if (c) call;` around a
    recognised call is recorded as CONDITIONAL (a match lemma then fails);
    any other statement shape is rejected;
  * how fiber_context_init / fiber_context_destroy call the stack allocator
    (init_alloc_calls, destroy_free_calls, destroy_guard_not_thread);
  * the initial frame that fiber_context_init builds: the stack-top
    expression, the alignment mask, and the ordered list of
    `*--ctx_stack_pointer = ...` pushes / bare decrements (init_pushes).

It ABORTS (exit status 3, message on stderr) on any instruction, operand form,
constraint, clobber or init statement that it does not recognise, and removes
the previously generated file (a stale model must not be mistaken for the
current source).  It never guesses.  The output is deterministic (no timestamps, no absolute paths) and is
only rewritten when its content changes.

usage: gen_ctx.py [--out FILE | --stdout] [--encoding]
  --encoding   print the integer fingerprint of the generated model (the same
               list that Ctx.run_case returns for the case "0") and exit.
"""
import os
import re
import sys

VERIF = os.path.dirname(os.path.dirname(os.path.dirname(os.path.abspath(__file__))))
REPO = os.environ.get("VERIF_REPO", "/repo")
SRC = os.path.join(REPO, "src", "fiber_context.c")
OUT = os.path.join(VERIF, "coq", "gen", "CtxGen.v")

REGS = ["rax", "rcx", "rdx", "rbx", "rsp", "rbp", "rsi", "rdi",
        "r8", "r9", "r10", "r11", "r12", "r13", "r14", "r15"]
# machine constraint letters of the i386 back-end that name exactly one register
CONSTRAINT_REG = {"a": "rax", "b": "rbx", "c": "rcx", "d": "rdx", "S": "rsi", "D": "rdi"}


class Reject(Exception):
    pass


def reject(msg):
    raise Reject(msg)


# ---------------------------------------------------------------------------
# lexical helpers
# ---------------------------------------------------------------------------
def strip_comments(text):
    """remove // and /* */ comments, keep string/char literals and newlines."""
    out, i, n = [], 0, len(text)
    while i < n:
        c = text[i]
        if c == '"' or c == "'":
            j = i + 1
            while j < n and text[j] != c:
                j += 2 if text[j] == "\\" else 1
            if j >= n:
                reject("unterminated literal")
            out.append(text[i:j + 1])
            i = j + 1
        elif text.startswith("//", i):
            j = text.find("\n", i)
            i = n if j < 0 else j
        elif text.startswith("/*", i):
            j = text.find("*/", i + 2)
            if j < 0:
                reject("unterminated comment")
            out.append("\n" * text.count("\n", i, j + 2))
            i = j + 2
        else:
            out.append(c)
            i += 1
    return "".join(out)


def x86_64_branch(text):
    """the lines of the `#elif defined(__x86_64__) && defined(FIBER_FAST_SWITCHING)`
    group of the top-level back-end selection, and the directives nested in it."""
    lines = text.split("\n")
    depth, start, end = 0, None, None
    pat = re.compile(r"^\s*#\s*elif\s+defined\s*\(\s*__x86_64__\s*\)\s*&&\s*defined\s*\(\s*FIBER_FAST_SWITCHING\s*\)\s*$")
    for k, line in enumerate(lines):
        d = re.match(r"^\s*#\s*(if|ifdef|ifndef|elif|else|endif)\b", line)
        if not d:
            continue
        kind = d.group(1)
        if start is None:
            if kind in ("if", "ifdef", "ifndef"):
                depth += 1
            elif kind == "endif":
                depth -= 1
            elif kind == "elif" and depth == 1 and pat.match(line):
                start = k + 1
                depth = 1
        else:
            if kind in ("if", "ifdef", "ifndef"):
                depth += 1
            elif kind == "endif":
                depth -= 1
                if depth == 0:
                    end = k
                    break
            elif kind in ("elif", "else") and depth == 1:
                end = k
                break
    if start is None or end is None:
        reject("cannot find the `#elif defined(__x86_64__) && defined(FIBER_FAST_SWITCHING)` branch")
    return lines[start:end]


def drop_nested_conditionals(lines, what):
    """remove nested #if..#endif groups; they must not touch what we model."""
    out, depth, buf = [], 0, []
    for line in lines:
        d = re.match(r"^\s*#\s*(\w+)", line)
        if d and d.group(1) in ("if", "ifdef", "ifndef"):
            depth += 1
            buf.append(line)
            continue
        if d and d.group(1) == "endif":
            if depth == 0:
                reject("unbalanced #endif inside the x86_64 branch")
            depth -= 1
            buf.append(line)
            if depth == 0:
                blob = "\n".join(buf)
                if re.search(r"ctx_stack_pointer|\basm\b|__asm__|__asm\b", blob):
                    reject("%s: a nested preprocessor conditional touches ctx_stack_pointer "
                           "or contains inline assembly:\n%s" % (what, blob))
                buf = []
            continue
        if depth:
            buf.append(line)
            continue
        if d and d.group(1) in ("include",):
            continue
        if d:
            reject("%s: unexpected preprocessor directive: %s" % (what, line.strip()))
        out.append(line)
    if depth:
        reject("unterminated nested #if")
    return out


def mark_nested_conditionals(lines, what):
    """keep the nested #if structure as marker statements `__VF_IF("cond");` /
    `__VF_ENDIF();` so that every C statement can be tagged with its guard."""
    out, depth = [], 0
    for line in lines:
        d = re.match(r"^\s*#\s*(\w+)\s*(.*?)\s*$", line)
        if not d:
            out.append(line)
            continue
        kind, rest = d.group(1), d.group(2)
        if kind == "include":
            continue
        if kind in ("ifdef", "if"):
            depth += 1
            out.append('__VF_IF("%s");' % rest.replace('"', ""))
        elif kind == "endif":
            if depth == 0:
                reject("unbalanced #endif inside the x86_64 branch")
            depth -= 1
            out.append("__VF_ENDIF();")
        else:
            reject("%s: preprocessor directive not modelled inside the x86_64 branch: %s"
                   % (what, line.strip()))
    if depth:
        reject("unterminated nested #if")
    return out


GUARDS = {"FIBER_STACK_SPLIT": "GSplit", "__SANITIZE_THREAD__": "GTsan"}


def guarded_statements(body, what):
    """[(guard, statement)] of a function body whose nested conditionals were marked."""
    out, stack = [], []
    for st in split_statements(body):
        m = re.fullmatch(r'__VF_IF\("(.*)"\);', st)
        if m:
            if stack:
                reject("%s: nested preprocessor conditionals two deep are not modelled" % what)
            if m.group(1) not in GUARDS:
                reject("%s: preprocessor condition %r is not one of %s"
                       % (what, m.group(1), sorted(GUARDS)))
            stack.append(GUARDS[m.group(1)])
            continue
        if st == "__VF_ENDIF();":
            stack.pop()
            continue
        if "__VF_" in st:
            reject("%s: a preprocessor conditional cuts through a statement: %s" % (what, st[:80]))
        out.append((stack[-1] if stack else "GAlways", st))
    return out


def split_if(sq):
    """squeezed `if(COND)BODY` -> (COND, BODY) or None"""
    if not sq.startswith("if("):
        return None
    depth, j = 1, 3
    while j < len(sq) and depth:
        depth += {"(": 1, ")": -1}.get(sq[j], 0)
        j += 1
    if depth:
        reject("unbalanced parentheses in: %s" % sq[:80])
    return sq[3:j - 1], sq[j:]


def classify_prologue(sq, frm, to, locals_, where):
    """kind of one (squeezed) statement that precedes the asm in fiber_context_swap;
    returns (kind, unconditional)."""
    f, t = re.escape(frm), re.escape(to)
    if re.fullmatch(r"assert\((%s|%s)\);" % (f, t), sq):
        return "KAssert", True
    m = re.fullmatch(r"void\*\*\*const(\w+)=&%s->ctx_stack_pointer;" % f, sq)
    if m:
        locals_["from_sp"] = m.group(1)
        return "KDeclFromSlot", True
    m = re.fullmatch(r"void\*\*const(\w+)=%s->ctx_stack_pointer;" % t, sq)
    if m:
        locals_["to_sp"] = m.group(1)
        return "KDeclToSp", True
    if re.fullmatch(r"__splitstack_getcontext\(%s->splitstack_context\);" % f, sq):
        return "KSplitGetFrom", True
    if re.fullmatch(r"__splitstack_setcontext\(%s->splitstack_context\);" % t, sq):
        return "KSplitSetTo", True
    if re.fullmatch(r"__tsan_switch_to_fiber\(%s->tsan_fiber,0\);" % t, sq):
        return "KTsanSwitchTo", True
    if "to_sp" in locals_ and re.fullmatch(
            r"__builtin_prefetch\((\(void\*\*\))?%s([+-]\d+(/\d+)?)?,[01],[0-3]\);"
            % re.escape(locals_["to_sp"]), sq):
        return "KPrefetchTo", True
    cond = split_if(sq)
    if cond:
        c, body = cond
        if body.startswith("{") and body.endswith("}"):
            body = body[1:-1]
        if body.count(";") == 1 and body.endswith(";"):
            kind, unc = classify_prologue(body, frm, to, locals_, where)
            if kind.startswith("KDecl"):
                reject("%s: a declaration inside an if: %s" % (where, sq[:100]))
            return kind, False          # recorded as CONDITIONAL: the match lemma will fail
    reject("%s: statement before the asm is not of a recognised shape: %s" % (where, sq[:120]))


def parse_prologue(marked):
    names, body = find_function(marked, "fiber_context_swap")
    if len(names) != 2:
        reject("fiber_context_swap: expected 2 parameters, found %r" % names)
    frm, to = names
    out, locals_ = [], {}
    for guard, st in guarded_statements(body, "fiber_context_swap"):
        if re.match(r"^(__asm__|__asm|asm)\b", st):
            if guard != "GAlways":
                reject("fiber_context_swap: the asm statement is inside a preprocessor conditional")
            break
        kind, unc = classify_prologue(squeeze(st), frm, to, locals_, "fiber_context_swap")
        out.append((guard, kind, unc))
    return out


def parse_stack_calls(marked, first_sp_after_alloc=True):
    """how fiber_context_init / fiber_context_destroy call the stack allocator."""
    names, body = find_function(marked, "fiber_context_init")
    ctx, size = names[0], names[1]
    n_alloc, alloc_first, seen_sp = 0, True, False
    for guard, st in guarded_statements(body, "fiber_context_init"):
        sq = squeeze(st)
        if "ctx_stack_pointer" in sq:
            seen_sp = True
        if "fiber_context_alloc_stack" in sq:
            if guard != "GAlways" or not re.fullmatch(
                    r"if\(!fiber_context_alloc_stack\(%s,%s\)\)\{returnFIBER_ERROR;\}"
                    % (re.escape(ctx), re.escape(size)), sq):
                reject("fiber_context_init: unrecognised use of fiber_context_alloc_stack: %s" % sq[:120])
            n_alloc += 1
            if seen_sp:
                alloc_first = False
        elif re.search(r"\b(malloc|mmap|free|munmap|fiber_free_stack|__splitstack_\w+)\(", sq):
            reject("fiber_context_init: direct allocator call is not modelled: %s" % sq[:120])
    names, body = find_function(marked, "fiber_context_destroy")
    if len(names) != 1:
        reject("fiber_context_destroy: expected 1 parameter")
    c = re.escape(names[0])
    top = split_statements(body)
    n_free, guard_not_thread = 0, False
    if len(top) == 1:
        cond = split_if(squeeze(top[0]))
        if cond and re.fullmatch(r"%s&&!%s->is_thread" % (c, c), cond[0]):
            guard_not_thread = True
    if not guard_not_thread:
        reject("fiber_context_destroy: body is not `if (ctx && !ctx->is_thread) { ... }`")
    m = re.search(r"\{(.*)\}\s*$", top[0], re.S)
    for guard, st in guarded_statements(m.group(1), "fiber_context_destroy"):
        sq = squeeze(st)
        if re.fullmatch(r"fiber_free_stack\(%s\);" % c, sq):
            if guard != "GAlways":
                reject("fiber_context_destroy: fiber_free_stack under a preprocessor conditional")
            n_free += 1
        elif re.fullmatch(r"STACK_DEREGISTER\(%s\);" % c, sq):
            pass
        elif guard == "GTsan" and re.fullmatch(r"__tsan_destroy_fiber\(%s->tsan_fiber\);" % c, sq):
            pass
        else:
            reject("fiber_context_destroy: statement not of a recognised shape: %s" % sq[:120])
    return {"n_alloc": n_alloc, "alloc_first": alloc_first, "n_free": n_free,
            "guard_not_thread": guard_not_thread}


def find_function(text, name):
    """(parameter-name list, body text without the outer braces) of a definition."""
    for m in re.finditer(r"\b%s\s*\(" % re.escape(name), text):
        i = m.end()
        depth, j = 1, i
        while j < len(text) and depth:
            depth += {"(": 1, ")": -1}.get(text[j], 0)
            j += 1
        params = text[i:j - 1]
        k = j
        while k < len(text) and text[k].isspace():
            k += 1
        if k >= len(text) or text[k] != "{":
            continue                      # a declaration or a call
        depth, e = 1, k + 1
        in_str = None
        while e < len(text) and depth:
            c = text[e]
            if in_str:
                if c == "\\":
                    e += 1
                elif c == in_str:
                    in_str = None
            elif c in "\"'":
                in_str = c
            elif c == "{":
                depth += 1
            elif c == "}":
                depth -= 1
            e += 1
        if depth:
            reject("unbalanced braces in %s" % name)
        names = []
        for p in params.split(","):
            mm = re.search(r"([A-Za-z_]\w*)\s*$", p.strip())
            if not mm:
                reject("cannot read the parameter list of %s: %r" % (name, params))
            names.append(mm.group(1))
        return names, text[k + 1:e - 1]
    reject("definition of %s not found in the x86_64 FIBER_FAST_SWITCHING branch" % name)


def split_statements(body):
    """top-level `;`-terminated statements of a function body; a statement
    that opens a brace block (if/for/...) is returned whole."""
    out, cur, depth, in_str, i = [], [], 0, None, 0
    while i < len(body):
        c = body[i]
        cur.append(c)
        if in_str:
            if c == "\\":
                i += 1
                cur.append(body[i])
            elif c == in_str:
                in_str = None
        elif c in "\"'":
            in_str = c
        elif c in "({[":
            depth += 1
        elif c in ")}]":
            depth -= 1
            if c == "}" and depth == 0:
                out.append("".join(cur).strip())
                cur = []
        elif c == ";" and depth == 0:
            out.append("".join(cur).strip())
            cur = []
        i += 1
    rest = "".join(cur).strip()
    if rest:
        reject("trailing text after the last statement: %r" % rest)
    return [s for s in out if s and s != ";"]


def squeeze(s):
    return re.sub(r"\s+", "", s)


def c_int(tok):
    t = tok.strip()
    m = re.fullmatch(r"(-?)(0[xX][0-9a-fA-F]+|[0-9]+)[uUlL]*", t)
    if not m:
        reject("not an integer literal: %r" % tok)
    v = int(m.group(2), 16) if m.group(2).lower().startswith("0x") else (
        int(m.group(2), 8) if len(m.group(2)) > 1 and m.group(2)[0] == "0" else int(m.group(2)))
    return -v if m.group(1) else v


# ---------------------------------------------------------------------------
# fiber_context_init
# ---------------------------------------------------------------------------
def parse_init(branch):
    names, body = find_function(branch, "fiber_context_init")
    if len(names) != 4:
        reject("fiber_context_init: expected 4 parameters, found %r" % names)
    ctx, _size, fn, param = names
    sp = re.escape(ctx) + r"->ctx_stack_pointer"
    stmts = [squeeze(s) for s in split_statements(body) if "ctx_stack_pointer" in s]
    if not stmts:
        reject("fiber_context_init: no statement mentions ctx_stack_pointer")
    top = re.fullmatch(sp + r"=\(void\*\*\)\(\(char\*\)" + re.escape(ctx) + r"->ctx_stack\+" +
                       re.escape(ctx) + r"->ctx_stack_size\)-(\w+);", stmts[0])
    if not top:
        reject("fiber_context_init: unrecognised stack-top computation: %s" % stmts[0])
    back = c_int(top.group(1))
    if back < 0:
        reject("fiber_context_init: negative stack-top adjustment")
    if len(stmts) < 2:
        reject("fiber_context_init: alignment statement missing")
    al = re.fullmatch(sp + r"=\(void\*\)\(\(uintptr_t\)" + sp + r"&~(\w+)\);", stmts[1])
    if not al:
        reject("fiber_context_init: unrecognised alignment statement: %s" % stmts[1])
    mask = c_int(al.group(1))
    if mask < 0 or (mask & (mask + 1)) != 0:
        reject("fiber_context_init: alignment mask 0x%x is not of the form 2^k-1" % mask)
    items, assert_mask, seen_assert = [], None, False
    for s in stmts[2:]:
        if seen_assert:
            reject("fiber_context_init: ctx_stack_pointer is used after the alignment assert: %s" % s)
        if re.fullmatch(r"--" + sp + ";", s):
            items.append("IFiller")
            continue
        m = re.fullmatch(r"\*--" + sp + r"=(.+);", s)
        if m:
            rhs = m.group(1)
            if rhs == param:
                items.append("IParam")
            elif rhs in ("(void*)" + fn, fn):
                items.append("IFn")
            elif rhs in ("NULL", "(void*)0"):
                items.append("INull")
            elif rhs == "0":
                items.append("IZero")
            else:
                reject("fiber_context_init: unrecognised pushed value: %s" % s)
            continue
        m = re.fullmatch(r"assert\(\(\(uintptr_t\)" + sp + r"&(\w+)\)==0\);", s)
        if m:
            assert_mask = c_int(m.group(1))
            seen_assert = True
            continue
        reject("fiber_context_init: unrecognised statement on ctx_stack_pointer: %s" % s)
    return {"back": back, "mask": mask, "items": items,
            "assert_mask": -1 if assert_mask is None else assert_mask}


# ---------------------------------------------------------------------------
# fiber_context_swap
# ---------------------------------------------------------------------------
def c_string_value(lit):
    body, out, i = lit[1:-1], [], 0
    while i < len(body):
        c = body[i]
        if c == "\\":
            i += 1
            e = body[i]
            if e == "n":
                out.append("\n")
            elif e == "t":
                out.append("\t")
            elif e in "\\\"'":
                out.append(e)
            else:
                reject("asm template: unsupported escape \\%s" % e)
        else:
            out.append(c)
        i += 1
    return "".join(out)


def tokenize_asm_args(s):
    """tokens of the parenthesised asm argument: ('str', value) | ('p', char) | ('id', text)"""
    toks, i = [], 0
    while i < len(s):
        c = s[i]
        if c.isspace():
            i += 1
        elif c == '"':
            j = i + 1
            while s[j] != '"':
                j += 2 if s[j] == "\\" else 1
            toks.append(("str", c_string_value(s[i:j + 1])))
            i = j + 1
        elif c in ":,()[]":
            toks.append(("p", c))
            i += 1
        else:
            j = i
            while j < len(s) and not s[j].isspace() and s[j] not in ':,()[]"':
                j += 1
            toks.append(("id", s[i:j]))
            i = j
    return toks


def parse_operands(toks, what):
    """[name] "constraint" (expr) , ...   -> list of (name, constraint, expr)"""
    ops, i = [], 0
    while i < len(toks):
        if toks[i] != ("p", "["):
            reject("asm %s operands: expected `[name]`, got %r (positional operands are not supported)"
                   % (what, toks[i]))
        if toks[i + 1][0] != "id" or toks[i + 2] != ("p", "]"):
            reject("asm %s operands: malformed operand name" % what)
        name = toks[i + 1][1]
        if toks[i + 3][0] != "str":
            reject("asm %s operand %s: constraint string missing" % (what, name))
        cons = toks[i + 3][1]
        if toks[i + 4] != ("p", "("):
            reject("asm %s operand %s: expression missing" % (what, name))
        depth, j, expr = 1, i + 5, []
        while depth:
            if j >= len(toks):
                reject("asm operand %s: unbalanced parentheses" % name)
            t = toks[j]
            if t == ("p", "("):
                depth += 1
            elif t == ("p", ")"):
                depth -= 1
            if depth:
                expr.append(t[1])
            j += 1
        ops.append((name, cons, "".join(expr)))
        i = j
        if i < len(toks):
            if toks[i] != ("p", ","):
                reject("asm %s operands: expected `,`" % what)
            i += 1
    return ops


def parse_reg(tok, opmap, where):
    m = re.fullmatch(r"%\[(\w+)\]", tok)
    if m:
        if m.group(1) not in opmap:
            reject("%s: operand %%[%s] is not declared in the constraint lists" % (where, m.group(1)))
        return opmap[m.group(1)]
    m = re.fullmatch(r"%%(\w+)", tok)
    if m and m.group(1) in REGS:
        return m.group(1)
    reject("%s: not a 64-bit general register or named operand: %r" % (where, tok))


def parse_mem(tok, opmap, where):
    m = re.fullmatch(r"(-?(?:0[xX][0-9a-fA-F]+|[0-9]+))?\((%%\w+|%\[\w+\])\)", tok)
    if not m:
        return None
    disp = c_int(m.group(1)) if m.group(1) else 0
    return disp, parse_reg(m.group(2), opmap, where)


def split_operands(s):
    out, cur, depth = [], [], 0
    for c in s:
        if c == "(":
            depth += 1
        elif c == ")":
            depth -= 1
        if c == "," and depth == 0:
            out.append("".join(cur).strip())
            cur = []
        else:
            cur.append(c)
    out.append("".join(cur).strip())
    return out


def parse_template(template, opmap):
    code, labels_defined, labels_used = [], [], []
    lines = []
    for raw in re.split(r"[\n;]", template):
        line = raw.strip()
        while True:
            m = re.match(r"^(\d+):\s*", line)
            if not m:
                break
            lines.append(("label", int(m.group(1))))
            line = line[m.end():]
        if line:
            lines.append(("ins", line))
    for kind, line in lines:
        if kind == "label":
            if line in labels_defined:
                reject("asm template: local label %d defined twice (not supported)" % line)
            labels_defined.append(line)
            code.append(("ILabel", line))
            continue
        where = "asm instruction `%s`" % line
        m = re.match(r"^(\S+)\s*(.*)$", line)
        mn, ops = m.group(1), split_operands(m.group(2)) if m.group(2).strip() else []
        if mn == "leaq":
            if len(ops) != 2:
                reject(where + ": leaq takes two operands")
            mm = re.fullmatch(r"(\d+)f\(%%rip\)", ops[0])
            if not mm:
                reject(where + ": only `leaq <n>f(%%rip), reg` (forward local label) is modelled")
            lab = int(mm.group(1))
            if lab in labels_defined:
                reject(where + ": label %d is already defined before this forward reference" % lab)
            labels_used.append(lab)
            code.append(("ILeaLabel", lab, parse_reg(ops[1], opmap, where)))
        elif mn == "movq":
            if len(ops) != 2:
                reject(where + ": movq takes two operands")
            src_mem = parse_mem(ops[0], opmap, where)
            dst_mem = parse_mem(ops[1], opmap, where)
            if src_mem and dst_mem:
                reject(where + ": memory to memory move")
            if src_mem:
                code.append(("ILoad", src_mem[0], src_mem[1], parse_reg(ops[1], opmap, where)))
            elif dst_mem:
                code.append(("IStore", parse_reg(ops[0], opmap, where), dst_mem[0], dst_mem[1]))
            else:
                code.append(("IMov", parse_reg(ops[0], opmap, where), parse_reg(ops[1], opmap, where)))
        elif mn == "pushq":
            if len(ops) != 1:
                reject(where + ": pushq takes one operand")
            code.append(("IPush", parse_reg(ops[0], opmap, where)))
        elif mn == "popq":
            if len(ops) != 1:
                reject(where + ": popq takes one operand")
            code.append(("IPop", parse_reg(ops[0], opmap, where)))
        elif mn in ("add", "addq"):
            if len(ops) != 2 or not ops[0].startswith("$"):
                reject(where + ": only `add $imm, reg` is modelled")
            code.append(("IAddImm", c_int(ops[0][1:]), parse_reg(ops[1], opmap, where)))
        elif mn == "jmp":
            if len(ops) != 1 or not ops[0].startswith("*"):
                reject(where + ": only `jmp *reg` is modelled")
            code.append(("IJmp", parse_reg(ops[0][1:], opmap, where)))
        else:
            reject(where + ": instruction not in the modelled ISA subset")
    for lab in labels_used:
        if lab not in labels_defined:
            reject("asm template: label %d is referenced but never defined" % lab)
    return code


def parse_swap(branch):
    names, body = find_function(branch, "fiber_context_swap")
    if len(names) != 2:
        reject("fiber_context_swap: expected 2 parameters, found %r" % names)
    frm, to = names
    stmts = split_statements(body)
    asm_idx = [k for k, s in enumerate(stmts) if re.match(r"^(__asm__|__asm|asm)\b", s)]
    if len(asm_idx) != 1:
        reject("fiber_context_swap: expected exactly one asm statement, found %d" % len(asm_idx))
    k = asm_idx[0]
    s = stmts[k]
    m = re.match(r"^(__asm__|__asm|asm)\s*((?:volatile|__volatile__)?)\s*\((.*)\)\s*;$", s, re.S)
    if not m:
        reject("fiber_context_swap: cannot parse the asm statement head: %s" % s[:60])
    volatile = bool(m.group(2))
    toks = tokenize_asm_args(m.group(3))
    # template: leading string literals
    i, template = 0, ""
    while i < len(toks) and toks[i][0] == "str":
        template += toks[i][1]
        i += 1
    if not template:
        reject("asm statement without template")
    sections = [[]]
    depth = 0
    for t in toks[i:]:
        if t == ("p", "("):
            depth += 1
        elif t == ("p", ")"):
            depth -= 1
        if t == ("p", ":") and depth == 0:
            sections.append([])
        else:
            sections[-1].append(t)
    if sections[0]:
        reject("asm statement: unexpected tokens after the template: %r" % sections[0][:3])
    sections = sections[1:]
    if len(sections) > 3:
        reject("asm statement: more than three operand sections (asm goto is not modelled)")
    while len(sections) < 3:
        sections.append([])
    outs = parse_operands(sections[0], "output")
    ins = parse_operands(sections[1], "input")
    opmap, outputs, inputs = {}, [], []
    for (name, cons, expr) in outs:
        mm = re.fullmatch(r"[=+]&?([A-Za-z])", cons)
        if not mm or mm.group(1) not in CONSTRAINT_REG:
            reject("asm output operand [%s]: constraint %r does not name a single register" % (name, cons))
        if name in opmap:
            reject("asm operand name %s used twice" % name)
        opmap[name] = CONSTRAINT_REG[mm.group(1)]
        outputs.append(opmap[name])
    # what the C code binds to the input operands
    decl = {}
    for st in stmts[:k]:
        sq = squeeze(st)
        mm = re.fullmatch(r"void\*\*\*const(\w+)=&" + re.escape(frm) + r"->ctx_stack_pointer;", sq)
        if mm:
            decl[mm.group(1)] = "SrcFromSlot"
        mm = re.fullmatch(r"void\*\*const(\w+)=" + re.escape(to) + r"->ctx_stack_pointer;", sq)
        if mm:
            decl[mm.group(1)] = "SrcToSp"
    for (name, cons, expr) in ins:
        if cons not in CONSTRAINT_REG:
            reject("asm input operand [%s]: constraint %r does not name a single register "
                   "(known: %s)" % (name, cons, " ".join(sorted(CONSTRAINT_REG))))
        if name in opmap:
            reject("asm operand name %s used twice" % name)
        opmap[name] = CONSTRAINT_REG[cons]
        e = squeeze(expr)
        if e == "&" + frm + "->ctx_stack_pointer":
            src = "SrcFromSlot"
        elif e == to + "->ctx_stack_pointer":
            src = "SrcToSp"
        elif e in decl:
            src = decl[e]
        else:
            reject("asm input operand [%s]: cannot tell what C expression %r denotes "
                   "(expected &from->ctx_stack_pointer or to->ctx_stack_pointer)" % (name, expr))
        inputs.append((src, opmap[name]))
    regs_in = [r for (_, r) in inputs] + outputs
    if len(set(regs_in)) != len(regs_in):
        reject("asm operands: two operands are tied to the same register")
    clobbers = []
    ctoks = sections[2]
    for j, t in enumerate(ctoks):
        if j % 2 == 1:
            if t != ("p", ","):
                reject("asm clobber list: expected `,`")
            continue
        if t[0] != "str":
            reject("asm clobber list: expected a string, got %r" % (t,))
        c = t[1]
        if c == "cc":
            clobbers.append("CCc")
        elif c == "memory":
            clobbers.append("CMemory")
        elif c.lstrip("%") in REGS:
            clobbers.append("CReg " + c.lstrip("%").upper())
        else:
            reject("asm clobber %r is not recognised" % c)
    code = parse_template(template, opmap)
    # anything after the asm statement?
    is_last = (k == len(stmts) - 1)
    return {"code": code, "inputs": inputs, "outputs": outputs, "clobbers": clobbers,
            "volatile": volatile, "is_last": is_last}


# ---------------------------------------------------------------------------
# output
# ---------------------------------------------------------------------------
def coq_z(v):
    return "(%d)" % v if v < 0 else "%d" % v


def coq_instr(t):
    k = t[0]
    if k == "ILeaLabel":
        return "ILeaLabel %d %s" % (t[1], t[2].upper())
    if k == "ILoad":
        return "ILoad %s %s %s" % (coq_z(t[1]), t[2].upper(), t[3].upper())
    if k == "IStore":
        return "IStore %s %s %s" % (t[1].upper(), coq_z(t[2]), t[3].upper())
    if k == "IMov":
        return "IMov %s %s" % (t[1].upper(), t[2].upper())
    if k in ("IPush", "IPop", "IJmp"):
        return "%s %s" % (k, t[1].upper())
    if k == "IAddImm":
        return "IAddImm %s %s" % (coq_z(t[1]), t[2].upper())
    if k == "ILabel":
        return "ILabel %d" % t[1]
    raise AssertionError(k)


def regno(r):
    return REGS.index(r.lower())


def encoding(init, swap):
    """the integer fingerprint; must equal CtxIsa.encode_model on the generated file."""
    out = []
    for t in swap["code"]:
        k = t[0]
        if k == "ILeaLabel":
            out += [1, t[1], regno(t[2]), 0]
        elif k == "ILoad":
            out += [2, t[1], regno(t[2]), regno(t[3])]
        elif k == "IStore":
            out += [3, regno(t[1]), t[2], regno(t[3])]
        elif k == "IMov":
            out += [4, regno(t[1]), regno(t[2]), 0]
        elif k == "IPush":
            out += [5, regno(t[1]), 0, 0]
        elif k == "IPop":
            out += [6, regno(t[1]), 0, 0]
        elif k == "IAddImm":
            out += [7, t[1], regno(t[2]), 0]
        elif k == "IJmp":
            out += [8, regno(t[1]), 0, 0]
        elif k == "ILabel":
            out += [9, t[1], 0, 0]
    out += [-1]
    for (src, r) in swap["inputs"]:
        out += [1 if src == "SrcFromSlot" else 2, regno(r)]
    out += [-2, init["back"], init["mask"]]
    out += [{"IFiller": 1, "IParam": 2, "INull": 3, "IFn": 4, "IZero": 5}[x] for x in init["items"]]
    out += [-3]
    return out


def render(init, swap):
    L = []
    a = L.append
    a("(* GENERATED by tools/gen/gen_ctx.py from src/fiber_context.c (x86-64,")
    a("   FIBER_FAST_SWITCHING branch).  Do not edit: this file is rewritten from the")
    a("   source on every run of the C19 check and the theorems of")
    a("   Properties_C19.v are re-checked against it. *)")
    a("From Coq Require Import List ZArith.")
    a("From LF Require Import CtxIsa.")
    a("Import ListNotations.")
    a("Open Scope Z_scope.")
    a("")
    a("(* the __asm__ template of fiber_context_swap, one entry per instruction / label *)")
    a("Definition swap_code : list instr :=")
    body = ";\n    ".join(coq_instr(t) for t in swap["code"])
    a("  [ " + body + " ].")
    a("")
    a("(* input operands: what the C code passes, and the register the constraint names *)")
    a("Definition swap_inputs : list (operand_src * reg) :=")
    a("  [" + "; ".join("(%s, %s)" % (s, r.upper()) for (s, r) in swap["inputs"]) + "].")
    a("Definition swap_outputs : list reg := [" + "; ".join(r.upper() for r in swap["outputs"]) + "].")
    a("Definition swap_clobbers : list clobber := [" + "; ".join(swap["clobbers"]) + "].")
    a("Definition swap_volatile : bool := %s." % ("true" if swap["volatile"] else "false"))
    a("(* every statement of fiber_context_swap that precedes the asm, in order, with the")
    a("   preprocessor condition it is under and whether it is unconditional in C *)")
    a("Definition swap_prologue : list pcall :=")
    a("  [ " + ";\n    ".join("PCall %s %s %s" % (g, k, "true" if u else "false")
                              for (g, k, u) in swap["prologue"]) + " ].")
    a("(* the asm statement is the last statement of fiber_context_swap *)")
    a("Definition swap_asm_is_last : bool := %s." % ("true" if swap["is_last"] else "false"))
    a("")
    a("(* fiber_context_init: sp := (void** )(stack + size) - init_top_back_words;")
    a("   sp := sp & ~init_align_mask; then, in order: *)")
    a("Definition init_top_back_words : Z := %s." % coq_z(init["back"]))
    a("Definition init_align_mask : Z := %s." % coq_z(init["mask"]))
    a("Definition init_pushes : list init_item :=")
    a("  [" + "; ".join(init["items"]) + "].")
    sc = init["stack_calls"]
    a("(* stack management: top-level `if (!fiber_context_alloc_stack(ctx, size)) return FIBER_ERROR;`")
    a("   statements of fiber_context_init (and whether they precede every use of the stack")
    a("   pointer); fiber_free_stack(ctx) calls of fiber_context_destroy, whose whole body is")
    a("   `if (ctx && !ctx->is_thread) { ... }` *)")
    a("Definition init_alloc_calls : nat := %d." % sc["n_alloc"])
    a("Definition init_alloc_first : bool := %s." % ("true" if sc["alloc_first"] else "false"))
    a("Definition destroy_free_calls : nat := %d." % sc["n_free"])
    a("Definition destroy_guard_not_thread : bool := %s." % ("true" if sc["guard_not_thread"] else "false"))
    a("(* mask of the alignment assert that follows the pushes (-1: no assert) *)")
    a("Definition init_assert_mask : Z := %s." % coq_z(init["assert_mask"]))
    a("")
    return "\n".join(L)


def translate():
    try:
        text = open(SRC).read()
    except OSError as e:
        reject("cannot read %s: %s" % (SRC, e))
    text = strip_comments(text)
    lines = x86_64_branch(text)
    branch = "\n".join(drop_nested_conditionals(lines, "x86_64 branch"))
    init = parse_init(branch)
    swap = parse_swap(branch)
    marked = "\n".join(mark_nested_conditionals(lines, "x86_64 branch"))
    swap["prologue"] = parse_prologue(marked)
    init["stack_calls"] = parse_stack_calls(marked)
    return init, swap


def main(argv):
    out = OUT
    to_stdout = False
    want_encoding = False
    i = 1
    while i < len(argv):
        if argv[i] == "--out":
            out = argv[i + 1]
            i += 2
        elif argv[i] == "--stdout":
            to_stdout = True
            i += 1
        elif argv[i] == "--encoding":
            want_encoding = True
            i += 1
        else:
            sys.stderr.write(__doc__)
            return 2
    try:
        init, swap = translate()
    except (Reject, IndexError, KeyError) as e:
        what = str(e) if isinstance(e, Reject) else "malformed construct (%r)" % (e,)
        sys.stderr.write("gen_ctx: REJECTED %s: %s\n" % (SRC, what))
        if not (to_stdout or want_encoding):
            # no model of the current source exists: do not leave a stale one behind
            for stale in (out, out + "o", out + "os", out + "ok", out[:-2] + ".glob"):
                try:
                    os.remove(stale)
                except OSError:
                    pass
            sys.stderr.write("gen_ctx: removed %s (it described an earlier version of the source)\n" % out)
        return 3
    if want_encoding:
        print(" ".join(str(x) for x in encoding(init, swap)))
        return 0
    txt = render(init, swap)
    if to_stdout:
        sys.stdout.write(txt)
        return 0
    os.makedirs(os.path.dirname(out), exist_ok=True)
    try:
        old = open(out).read()
    except OSError:
        old = None
    if old != txt:
        tmp = out + ".tmp%d" % os.getpid()
        with open(tmp, "w") as f:
            f.write(txt)
        os.replace(tmp, out)
    return 0


if __name__ == "__main__":
    sys.exit(main(sys.argv))
