#!/usr/bin/env python3
"""prints the prompt given to a fresh sub-agent that must break one property
(it gets ONLY the property text and a scratch worktree; nothing from /verif)."""
import json, sys
pid = sys.argv[1]; wt = sys.argv[2]
p = {json.loads(l)['id']: json.loads(l) for l in open('/verif/properties.jsonl')}[pid]
print(f"""You are given a scratch git worktree of the C library libfiber (an M:N user-space fiber runtime) at {wt} . Work ONLY inside that directory (never touch /repo or /verif, do not read anything under /verif). 

Here is a semantic property that libfiber is supposed to satisfy:

  Title: {p['title']}
  Statement: {p['statement']}
  Quantified over: {p['quantifier']['text']}
  Relevant files: {', '.join(p['anchors']['files'])}

Your task: produce a realistic change to libfiber's source (under {wt}/src or {wt}/include) that BREAKS this property while the library still compiles and the existing test suite still passes. It should be the kind of mistake a maintainer could plausibly make in a refactoring or "optimisation" (a weakened memory order, a re-ordered pair of statements, an off-by-one in a comparison, a removed re-check, a wrong field, a lost wake-up in a rare window …), and it must need something SPECIFIC to manifest — a particular interleaving, a multi-step sequence of operations, an unusual input, a boundary value, or two cooperating sites that each look fine alone — not something ordinary use exposes at once.

Deliver, in {wt}/seeded_out/ :
  1. patch.diff — `git diff` of your change (source files only; keep it small);
  2. a demonstration — a small C program (demo.c) plus a build/run script (run_demo.sh) that exits non-zero / prints FAIL with your change and exits 0 / prints PASS without it. If the failure needs a particular interleaving, make the demo force it deterministically if you can (e.g. with sched_yield/usleep placement, a hook compiled only into the demo, or by driving the lock-free API from threads in a controlled order); if it is probabilistic, loop until it fails and say how often it fails;
  3. meta.json — {{"property": "{pid}", "what_it_breaks": "...", "needs_to_manifest": "...", "how_you_ran": "..."}}.

How to build and test (offline; no network): 
  cmake -G Ninja -S {wt} -B {wt}/_b -DCMAKE_BUILD_TYPE=RelWithDebInfo -DCMAKE_C_FLAGS=-Wno-error -DFIBER_RUN_TESTS_WITH_BUILD=OFF && cmake --build {wt}/_b && ctest --test-dir {wt}/_b -j8 --timeout 900
(The suite has 35 tests and takes a few seconds; test_semaphore is known to be flaky; all others must pass with your change.) To link a demo against the library: gcc -O2 -fsplit-stack -DFIBER_STACK_SPLIT -I{wt}/include demo.c {wt}/_b/libfiber.a -lpthread -ldl -lm -o demo . Header-only containers (include/*.h) can be used from plain pthreads without the runtime.
Verify all of it yourself: suite passes with the change; demo fails with the change and passes on the pristine tree (do NOT use `git stash` (the stash is shared by all worktrees of this repository); use `git diff -- src include > mine.diff; git checkout -- src include; ...; git apply mine.diff` to switch). Remove {wt}/_b when you are done. Report briefly what you changed and why it is hard to notice.""")
