#!/bin/sh
# usage: tools/try_seed.sh <check id> <patch.diff> [tier]
# runs the check against a scratch copy of /repo with the patch applied (never touches /repo)
set -e
id=$1; patch=$2; tier=${3:-quick}
d=$(mktemp -d /root/scratch/seedtry.XXXXXX)
cp -r /repo/include /repo/src "$d/"
( cd "$d" && patch -p1 -s < "$patch" )
cd /verif
set +e
# evidence and replays of a run against a modified tree must not overwrite the committed ones
mkdir -p "$d/evidence" /root/scratch/seed_replays
VERIF_EVIDENCE_DIR="$d/evidence" VERIF_REPLAYS_DIR=/root/scratch/seed_replays VERIF_REPO="$d" ./check "$id" "$tier" > "$d/out.txt" 2>&1
rc=$?
grep -c '^VIOLATION' "$d/out.txt" | sed 's/^/violations: /'
grep '^VIOLATION' "$d/out.txt" | head -3
tail -1 "$d/out.txt"
echo "rc=$rc"
rm -rf "$d"
