#!/bin/sh
# re-runs every stored seeded change against the quick check of its property (scratch copy, never /repo):
# every one must make the check exit 1.  usage: tools/seed_regression.sh [jobs]   -> table on stdout
cd "$(dirname "$0")/.."
jobs=${1:-3}
ls -d seeded/*/ | sed 's#seeded/##; s#/##' | xargs -P "$jobs" -I{} sh -c '
  s={}; id=${s%%_*}; d=$(mktemp -d /root/scratch/sr.XXXXXX); cp -r /repo/include /repo/src "$d/";
  if ! (cd "$d" && patch -p1 -s < /verif/seeded/$s/patch.diff >/dev/null 2>&1); then echo "$s PATCH-DOES-NOT-APPLY"; rm -rf "$d"; exit 0; fi
  mkdir -p "$d/ev" /root/scratch/seed_replays
  out=$(VERIF_EVIDENCE_DIR="$d/ev" VERIF_REPLAYS_DIR=/root/scratch/seed_replays VERIF_REPO="$d" ./check "$id" quick 2>&1); rc=$?
  nv=$(echo "$out" | grep -c "^VIOLATION"); nfi=$(echo "$out" | grep "^VIOLATION" | grep -c "no-failing-input-found")
  echo "$s rc=$rc violations=$nv without-input=$nfi"; rm -rf "$d"'
