"""Core of the /verif check driver: Coq obligations, instrumented build of the
files under test from /repo's working tree, lock-step correspondence between
the extracted model and the implementation, implementation-side monitors,
evidence and VIOLATION reporting (DESIGN.md sections 4, 5, 10)."""
import hashlib
import json
import os
import random
import re
import shutil
import subprocess
import sys
import tempfile
import time
from concurrent.futures import ThreadPoolExecutor

VERIF = os.path.dirname(os.path.dirname(os.path.dirname(os.path.abspath(__file__))))
REPO = os.environ.get("VERIF_REPO", "/repo")
COQ = os.path.join(VERIF, "coq")
RT = os.path.join(VERIF, "rt")
DRIVER = os.environ.get("VERIF_DRIVER") or os.path.join(VERIF, "build", "driver")
NPROC = int(os.environ.get("VERIF_JOBS", "16"))
GUARD = "LIBFIBER_VERIF"

GREP_GATE = re.compile(
    r"\b(Admitted|admit|Axiom|Parameter|Conjecture|Unset\s+Guard|bypass_check|type-in-type|"
    r"Admit\s+Obligations|Unset\s+Positivity|Unset\s+Universe)\b")


class Ctx:
    """State of one check run."""

    def __init__(self, pid, tier, seed):
        self.pid = pid
        self.tier = tier
        self.seed = seed
        self.t0 = time.time()
        self.scratch = tempfile.mkdtemp(prefix="vf_%s_" % pid, dir=scratch_root())
        self.obligations = []      # (name, ok, detail)
        self.assumptions = {}      # theorem -> text
        self.failures = []         # dicts describing what no longer checks
        self.violations = []       # (replay_path, text)
        self.known_printed = []
        self.coverage = {}
        self.samples = []
        self.trusted = []
        self.stats = {}

    def oblige(self, name, ok, detail=""):
        self.obligations.append((name, bool(ok), detail))
        if not ok:
            self.failures.append({"kind": "obligation", "name": name, "detail": detail[-2000:]})

    def cleanup(self):
        shutil.rmtree(self.scratch, ignore_errors=True)


def scratch_root():
    root = os.environ.get("VERIF_SCRATCH", "/root/scratch")
    os.makedirs(root, exist_ok=True)
    return root


def sh(cmd, cwd=None, timeout=None, env=None, input=None):
    e = dict(os.environ)
    if env:
        e.update(env)
    try:
        p = subprocess.run(cmd, cwd=cwd, shell=isinstance(cmd, str), stdout=subprocess.PIPE,
                           stderr=subprocess.STDOUT, timeout=timeout, env=e, input=input)
        return p.returncode, p.stdout.decode("utf-8", "replace")
    except subprocess.TimeoutExpired as ex:
        out = ex.stdout.decode("utf-8", "replace") if ex.stdout else ""
        return 124, out + "\nTIMEOUT after %ss" % timeout


# --------------------------------------------------------------------------
# Coq side
# --------------------------------------------------------------------------
def coq_files_closure(vfile):
    """transitive LF dependencies of a .v file (by scanning Require lines)."""
    seen, todo = [], [vfile]
    while todo:
        f = todo.pop()
        if f in seen:
            continue
        seen.append(f)
        try:
            txt = open(os.path.join(COQ, f)).read()
        except OSError:
            continue
        todo.extend(coq_deps(f))
    return seen


def coq_deps(f):
    try:
        txt = open(os.path.join(COQ, f)).read()
    except OSError:
        return []
    deps = []
    for m in re.finditer(r"From\s+LF\s+Require\s+(?:Import\s+|Export\s+)?([^.]*(?:\.[A-Za-z_][^.\s]*)*)\.", txt):
        for name in m.group(1).split():
            deps.append(name.replace(".", "/") + ".v")
    return deps


def coq_make(ctx, targets, timeout=1500):
    """Incremental build of the .vo closure of the targets with plain coqc
    (full .vo, no -vos), one flock per file so concurrent checks can share the
    tree.  Returns (rc, output)."""
    import fcntl
    order, seen = [], set()

    def visit(f):
        if f in seen:
            return
        seen.add(f)
        for d in coq_deps(f):
            visit(d)
        order.append(f)
    for t in targets:
        visit(t[:-1] if t.endswith(".vo") else t)
    log = []
    for f in order:
        src = os.path.join(COQ, f)
        vo = src + "o"
        if not os.path.exists(src):
            return 1, "missing source %s" % f
        with open(src + ".lock", "w") as lk:
            fcntl.flock(lk, fcntl.LOCK_EX)
            try:
                stale = (not os.path.exists(vo)) or os.path.getmtime(vo) < os.path.getmtime(src)
                if not stale:
                    for d in coq_deps(f):
                        dvo = os.path.join(COQ, d) + "o"
                        if os.path.exists(dvo) and os.path.getmtime(dvo) > os.path.getmtime(vo):
                            stale = True
                if stale:
                    rc, out = sh(["coqc", "-Q", ".", "LF", f], cwd=COQ, timeout=timeout)
                    log.append("coqc %s -> %d\n%s" % (f, rc, out[-3000:]))
                    if rc != 0:
                        return rc, "\n".join(log)
            finally:
                fcntl.flock(lk, fcntl.LOCK_UN)
        try:
            os.remove(src + ".lock")
        except OSError:
            pass
    return 0, "\n".join(log)


def coq_property(ctx, propfile, theorems):
    """Compile the closure of Properties_<id>.v, then re-run coqc on the
    property file itself so that Print Assumptions output is from this run."""
    files = coq_files_closure(propfile)
    # grep gate over the whole closure
    bad = []
    for f in files:
        try:
            for i, line in enumerate(open(os.path.join(COQ, f)), 1):
                code = re.sub(r"\(\*.*?\*\)", "", line)
                if GREP_GATE.search(code):
                    bad.append("%s:%d: %s" % (f, i, line.strip()))
        except OSError:
            bad.append("%s: missing" % f)
    ctx.oblige("gate:no-admit-no-axiom(%d files)" % len(files), not bad, "\n".join(bad))
    vo = propfile[:-2] + ".vo"
    rc, out = coq_make(ctx, [vo])
    ctx.oblige("coq:make %s" % vo, rc == 0, out)
    if rc != 0:
        for t in theorems:
            ctx.oblige("theorem:%s" % t, False, "closure did not compile")
        return False
    rc, out = sh(["coqc", "-Q", ".", "LF", propfile], cwd=COQ, timeout=600)
    ctx.oblige("coq:coqc %s" % propfile, rc == 0, out)
    # parse Print Assumptions blocks: they follow each theorem in order
    blocks = re.split(r"(?m)^(?=Closed under the global context|Axioms:)", out)
    blocks = [b.strip() for b in blocks if b.strip().startswith(("Closed under", "Axioms:"))]
    src = open(os.path.join(COQ, propfile)).read()
    printed = re.findall(r"Print\s+Assumptions\s+([A-Za-z0-9_']+)\s*\.", src)
    for t in theorems:
        stated = re.search(r"(Theorem|Lemma|Corollary)\s+%s\b" % re.escape(t), src) is not None
        if not stated or t not in printed:
            ctx.oblige("theorem:%s" % t, False, "not stated / no Print Assumptions in %s" % propfile)
            continue
        idx = printed.index(t)
        txt = blocks[idx] if idx < len(blocks) else "(no output)"
        ctx.assumptions[t] = " ".join(txt.split())[:600]
        ok = rc == 0 and assumptions_ok(txt)
        ctx.oblige("theorem:%s" % t, ok, txt)
    return rc == 0


STDLIB_AXIOMS = (
    "functional_extensionality_dep", "proof_irrelevance", "classic", "JMeq_eq",
    "eq_rect_eq", "propositional_extensionality", "constructive_definite_description",
    "constructive_indefinite_description", "ClassicalDedekindReals", "sig_forall_dec",
    "sig_not_dec", "PrimInt63", "PrimFloat", "Uint63", "epsilon_statement")


def assumptions_ok(txt):
    if txt.startswith("Closed under the global context"):
        return True
    names = re.findall(r"(?m)^([A-Za-z0-9_.']+)\s*:", txt)
    for n in names:
        if not any(n.endswith(a) or a in n for a in STDLIB_AXIOMS):
            return False
    return True


# --------------------------------------------------------------------------
# implementation side
# --------------------------------------------------------------------------
REPO_CFLAGS = ["-O0", "-g", "-std=gnu11", "-fsanitize=thread", "-DNDEBUG", "-D" + GUARD,
               "-DFIBER_FAST_SWITCHING", "-DFIBER_STACK_MMAP", "-D_GNU_SOURCE",
               "-I" + os.path.join(REPO, "include"), "-I" + RT]


def build_harness(ctx, name, harness_c, repo_sources=(), extra_flags=(), rt_objs=("rt.c",), extra_rt=()):
    """compile harness + listed /repo sources with access instrumentation and
    link against the lock-step runtime (never libtsan)."""
    objs = []
    for r in rt_objs:
        o = os.path.join(ctx.scratch, "%s_%s.o" % (name, r.replace(".c", "")))
        rc, out = sh(["gcc", "-O1", "-g", "-I" + RT, "-c", os.path.join(RT, r), "-o", o])
        if rc != 0:
            raise RuntimeError("rt build failed: " + out)
        objs.append(o)
    srcs = [os.path.join(RT, harness_c)] + [os.path.join(RT, x) for x in extra_rt] + \
           [os.path.join(REPO, s) for s in repo_sources]
    for s in srcs:
        o = os.path.join(ctx.scratch, "%s_%s.o" % (name, os.path.basename(s).replace(".c", "")))
        rc, out = sh(["gcc"] + REPO_CFLAGS + list(extra_flags) + ["-c", s, "-o", o])
        if rc != 0:
            ctx.oblige("build:%s" % os.path.basename(s), False, out)
            return None
        objs.append(o)
    exe = os.path.join(ctx.scratch, name)
    rc, out = sh(["gcc"] + objs + ["-lpthread", "-ldl", "-lm", "-o", exe])
    if rc != 0:
        ctx.oblige("link:%s" % name, False, out)
        return None
    return exe


# --------------------------------------------------------------------------
# initial-state contract (rt/h_init.c): the REAL init/create function of every
# primitive, run on dirty (0x5a) memory, must establish the documented initial
# state and the first non-blocking operations must behave.  Sequential, not
# instrumented; one forked child per primitive.
# --------------------------------------------------------------------------
INIT_SOURCES = ["src/fiber_mutex.c", "src/fiber_cond.c", "src/fiber_semaphore.c", "src/fiber_rwlock.c",
                "src/fiber_barrier.c", "src/fiber_spinlock.c", "src/hazard_pointer.c", "src/work_queue.c",
                "src/work_stealing_deque.c", "src/fiber_scheduler_wsd.c"]
# production configuration of the sources: no sanitizer, asserts enabled, no verification hooks;
# malloc hands out 0x5a-filled memory, calloc zeroed memory (its contract)
INIT_CFLAGS = [f for f in REPO_CFLAGS if f not in ("-fsanitize=thread", "-DNDEBUG", "-D" + GUARD)] + \
              ["-Dmalloc=h_init_malloc", "-Dcalloc=h_init_calloc"]
_INIT_LINE = re.compile(r"^([A-Za-z0-9_]+) (ok|FAIL .*)$")


def build_init(ctx):
    """build rt/h_init.c + the real sources once per check run (cached on ctx)."""
    if hasattr(ctx, "init_exe"):
        return ctx.init_exe
    ctx.init_exe = None
    exe = os.path.join(ctx.scratch, "h_init")
    srcs = [os.path.join(RT, "h_init.c")] + [os.path.join(REPO, s) for s in INIT_SOURCES]
    rc, out = sh(["gcc"] + INIT_CFLAGS + srcs + ["-lpthread", "-o", exe], timeout=300)
    if rc != 0:
        ctx.oblige("build:h_init", False, out)
        return None
    ctx.init_exe = exe
    return exe


def run_init(exe, names=()):
    """-> ({name: (ok, text, line)}, raw output)"""
    rc, out = sh([exe] + list(names), timeout=900)
    res = {}
    for l in out.split("\n"):
        m = _INIT_LINE.match(l.strip())
        if m:
            res[m.group(1)] = (m.group(2) == "ok", m.group(2)[5:] if m.group(2) != "ok" else "", l.strip())
    return res, out


def init_contract(ctx, names):
    """one obligation per primitive in `names`; a FAIL line is a concrete violation
    (replay case = the primitive's name)."""
    exe = build_init(ctx)
    if not exe:
        return False
    if not hasattr(ctx, "init_results"):
        ctx.init_results = run_init(exe)
    res, out = ctx.init_results
    allok = True
    for n in names:
        if n not in res:
            ctx.oblige("init-contract:%s" % n, False, "no verdict for %s in the output of h_init:\n%s" % (n, out[-1500:]))
            allok = False
            continue
        ok, text, line = res[n]
        ctx.oblige("init-contract:%s" % n, ok, line if ok else out[-1500:])
        if not ok:
            allok = False
            report_violation(ctx, "h_init", n, "init contract: " + text, line)
    t = "rt/h_init.c: sequential harness with stubs for the runtime entry points (no context switch); sources built " \
        "without sanitizer/NDEBUG/verification hooks, malloc -> 0x5a-filled, calloc -> zeroed"
    if t not in ctx.trusted:
        ctx.trusted = list(ctx.trusted) + [t]
    ctx.stats["h_init"] = {"primitives": sorted(set(ctx.stats.get("h_init", {}).get("primitives", []) + list(names))),
                           "rule": "real init/create on 0x5a-filled memory, initial fields + first non-blocking operations"}
    return allok


def replay_init(ctx, payload):
    exe = build_init(ctx)
    name = str(payload.get("case") or "")
    if not exe or not name:
        print("nothing to replay (h_init did not build or no primitive named)")
        return 2
    res, out = run_init(exe, [name])
    print("h_init %s  (real init/create on 0x5a-filled memory, then the first non-blocking operations)" % name)
    print(out.rstrip())
    return 0 if (name in res and res[name][0]) else 1


def run_sharded(cmd, cases, timeout=600):
    """run `cmd` over the case lines, one output line per case, in parallel."""
    if not cases:
        return []
    n = min(NPROC, max(1, len(cases) // 8))
    shards = [cases[i::n] for i in range(n)]

    def one(lines):
        data = ("\n".join(lines) + "\n").encode()
        rc, out = sh(cmd, input=data, timeout=timeout)
        res = out.split("\n")
        if res and res[-1] == "":
            res.pop()
        return res

    with ThreadPoolExecutor(max_workers=n) as ex:
        outs = list(ex.map(one, shards))
    result = [None] * len(cases)
    for k, o in enumerate(outs):
        idxs = list(range(k, len(cases), n))
        for j, i in enumerate(idxs):
            result[i] = o[j] if j < len(o) else "MISSING"
    return result


def run_search(ctx, exe, cases):
    """search mode: the cases as they are (same schedules as the lock-step runs), then again with RT_CATCHALL=1 (every byte
    of the object under test a scheduling point, which shifts the schedules).  Returns (cases + cases, lines); a
    violation found in the first half is reported without the '+catchall' suffix (see report_violation)."""
    plain = run_sharded([exe], cases)
    ca = run_sharded(["env", "RT_CATCHALL=1", exe], cases)
    ctx.plain_lines = set(l for l in plain if l)
    return list(cases) + list(cases), plain + ca


def model_run(model, cases):
    return run_sharded([DRIVER, model], cases)


def parse_trace(line):
    """trace line -> list of (tid, loc, kind, val); None if not a trace."""
    try:
        v = [int(x) for x in line.split()]
    except ValueError:
        return None
    if len(v) % 4:
        return None
    return [tuple(v[i:i + 4]) for i in range(0, len(v), 4)]


def tso_variant(case, rng, pflush=0.35):
    """the same case with store-buffer flush tokens (100+t) sprinkled into its schedule: for the x86-TSO search mode of
    rt/rt.c (RT_TSO=1), in which a weaker-than-seq_cst atomic store stays in its thread's store buffer until flushed"""
    v = [int(x) for x in case.split()]
    i = 1 + v[0]
    nt = v[i]; i += 1
    for _ in range(nt):
        i += 1 + 2 * v[i]
    ns = v[i]
    sched = v[i + 1:i + 1 + ns]
    # alternate between eager phases (every store flushed right away: sequentially consistent) and lazy phases (stores
    # stay buffered), switching at random: a delayed store matters when what precedes it is visible and it is not
    out = []
    eager = rng.random() < 0.5
    for x in sched:
        out.append(x)
        if rng.random() < pflush * 0.25 + 0.03:
            eager = not eager
        if eager and 0 <= x < 100:
            out += [100 + x, 100 + x]
        elif rng.random() < pflush * 0.1:
            out.append(100 + rng.randrange(max(nt, 1)))
    return " ".join(str(x) for x in v[:i] + [len(out)] + out)


TSO_CMD = ["env", "RT_CATCHALL=1", "RT_TSO=1"]


def tso_search(ctx, label, exe, cases, monitor, limit=3, known=None, seed=7):
    """search mode under x86-TSO: monitor-only runs of `cases` with randomly delayed atomic stores"""
    import random as _r
    rng = _r.Random(ctx.seed * 131 + seed)
    cs = [tso_variant(c, rng, rng.choice([0.0, 0.1, 0.35, 0.7])) for c in cases]
    impl = run_sharded(TSO_CMD + [exe], cs)
    n = 0
    for c, line in zip(cs, impl):
        why = safe_monitor(monitor, c, parse_trace(line) if line is not None else None, line)
        if why:
            n += 1
            if n <= limit:
                report_violation(ctx, label + "+tso", c, "under x86-TSO (delayed atomic stores): " + why, line, known)
    return len(cs), n


def strip_aux(line):
    """drop the monitor-only observations (kind 979) from an implementation trace line"""
    if line is None or " 979 " not in line:
        return line
    v = line.split()
    if len(v) % 4:
        return line
    out = []
    for i in range(0, len(v), 4):
        if v[i + 2] != "979":
            out += v[i:i + 4]
    return " ".join(out)


def first_diff(a, b):
    ta, tb = a.split(), b.split()
    for i in range(min(len(ta), len(tb))):
        if ta[i] != tb[i]:
            return i // 4
    return min(len(ta), len(tb)) // 4


def safe_monitor(monitor, case, tr, raw):
    """run a property monitor; a crash marker in the trace or a trace the
    monitor cannot interpret is itself reported as a failure of the run."""
    if tr is not None:
        for (t, loc, kind, val) in tr:
            if t == -9 and kind == -9:
                return "the code under test crashed with signal %d under this schedule" % val
    if raw is not None and raw.startswith("HANG"):
        return "the code under test ran without reaching a scheduling point (hang)"
    try:
        return monitor(case, tr, raw)
    except Exception as e:   # noqa: BLE001
        return "the implementation trace does not have the shape the monitor expects (%s: %s)" % (type(e).__name__, e)


def correspond(ctx, label, model, exe, cases, monitor=None, known=None, aux=False):
    """lock-step: same cases through the implementation and the extracted
    model; traces must be identical (aux=True: the harness emits monitor-only
    observations of kind 979, which are removed before the comparison; only for
    harnesses whose output is in trace-quadruple format).  The monitor (property oracle on the
    implementation trace) runs on every case regardless."""
    t0 = time.time()
    impl = run_sharded([exe], cases)
    mod = model_run(model, cases)
    ndiff, nmon = 0, 0
    nontrivial = set()
    steps = 0
    for i, c in enumerate(cases):
        tr = parse_trace(impl[i]) if impl[i] is not None else None
        if tr is not None:
            steps += len(tr)
            if any(k // 10 in (8, 12) for (_, _, k, _) in tr) or any(k == 909 and v == 0 for (_, _, k, v) in tr):
                nontrivial.add(c)
        if (strip_aux(impl[i]) if aux else impl[i]) != mod[i]:
            ndiff += 1
            if ndiff <= 3:
                d = first_diff((strip_aux(impl[i]) if aux else impl[i]) or "", mod[i] or "")
                ctx.failures.append({"kind": "correspondence", "label": label, "case": c,
                                     "impl": (impl[i] or "")[:4000], "model": (mod[i] or "")[:4000],
                                     "first_diff_event": d})
        if monitor is not None:
            why = safe_monitor(monitor, c, tr, impl[i])
            if why:
                nmon += 1
                report_violation(ctx, label, c, why, impl[i], known)
    ctx.oblige("correspondence:%s(%d cases)" % (label, len(cases)), ndiff == 0,
               "%d of %d traces differ" % (ndiff, len(cases)))
    st = ctx.stats.setdefault(label, {})
    st.update({"cases": len(cases), "trace_events": steps, "differ": ndiff,
               "monitor_violations": nmon, "nontrivial": len(nontrivial),
               "wall_s": round(time.time() - t0, 2)})
    if cases:
        k = len(cases) // 2
        ctx.samples.append({"harness": label, "case": cases[k], "impl_trace_head": (impl[k] or "")[:300]})
    return ndiff == 0 and nmon == 0


# --------------------------------------------------------------------------
# violations / known findings / evidence
# --------------------------------------------------------------------------
def load_known():
    p = os.path.join(VERIF, "known_findings.json")
    try:
        return json.load(open(p))
    except OSError:
        return {"findings": [], "fixed": []}


def write_replay(ctx, payload):
    d = os.path.join(os.environ.get("VERIF_REPLAYS_DIR") or os.path.join(VERIF, "replays"), ctx.pid)
    os.makedirs(d, exist_ok=True)
    blob = json.dumps(payload, indent=1, sort_keys=True)
    h = hashlib.sha1(blob.encode()).hexdigest()[:12]
    path = os.path.join(d, h + ".json")
    with open(path, "w") as f:
        f.write(blob)
    return path


def report_violation(ctx, label, case, why, trace, known=None):
    """a concrete failing input on the implementation."""
    if label.endswith("+catchall") and trace in getattr(ctx, "plain_lines", ()):
        label = label[:-len("+catchall")]
    if known:
        for k in known:
            if k["match"](label, case, why):
                if k["id"] not in ctx.known_printed:
                    ctx.known_printed.append(k["id"])
                    print("KNOWN-FINDING: property=%s %s" % (ctx.pid, k["what"]))
                return
    if len(ctx.violations) >= 5:
        ctx.violations.append((None, why))
        return
    path = write_replay(ctx, {"property": ctx.pid, "harness": label, "case": case, "why": why,
                              "impl_trace": (trace or "")[:20000], "seed": ctx.seed,
                              "repo_head": repo_head()})
    ctx.violations.append((path, why))
    print("VIOLATION property=%s replay=%s" % (ctx.pid, path))
    sys.stdout.flush()


def repo_head():
    rc, out = sh(["git", "-C", REPO, "rev-parse", "HEAD"])
    rc2, st = sh(["git", "-C", REPO, "status", "--porcelain", "--untracked-files=no"])
    return out.strip() + ("+dirty" if st.strip() else "")


def finish(ctx, level="proof", checker_cmd="", extra_assumptions=()):
    """Decide the outcome, write evidence, print VIOLATION lines, exit."""
    nob = len(ctx.obligations)
    ndis = sum(1 for (_, ok, _) in ctx.obligations if ok)
    broken = [f for f in ctx.failures]
    if broken and not ctx.violations:
        # something no longer checks and the search found no concrete failure
        path = write_replay(ctx, {"property": ctx.pid, "no_longer_checks": broken[:6],
                                  "seed": ctx.seed, "repo_head": repo_head(),
                                  "note": "a proof obligation or the model/implementation correspondence "
                                          "stopped checking; the search over the model and the implementation "
                                          "found no concrete failing input"})
        ctx.violations.append((path, "no-failing-input-found"))
        names = "; ".join(sorted(set(f.get("name") or f.get("label") or "?" for f in broken)))[:200]
        print("VIOLATION property=%s replay=%s (%s no longer checks) no-failing-input-found"
              % (ctx.pid, path, names))
    ev = {
        "property_id": ctx.pid,
        "tier": ctx.tier,
        "seed": ctx.seed,
        "level": level,
        "coverage": dict({
            "obligations": nob,
            "discharged": ndis,
            "checker_cmd": checker_cmd or "cd /verif/coq && make (coqc 8.16.1, full .vo) ; coqc Properties_%s.v" % ctx.pid,
            "trusted_base": ctx.trusted,
            "obligation_list": [{"name": n, "ok": ok} for (n, ok, _) in ctx.obligations],
            "print_assumptions": ctx.assumptions,
            "samples": ctx.samples[:8] or ["(no cases run)"],
            "harness_stats": ctx.stats,
            "known_findings_printed": ctx.known_printed,
        }, **ctx.coverage),
        "assumptions": list(extra_assumptions),
        "wall_s": round(time.time() - ctx.t0, 2),
        "violations": len(ctx.violations),
    }
    evdir = os.environ.get("VERIF_EVIDENCE_DIR") or os.path.join(VERIF, "evidence")
    os.makedirs(evdir, exist_ok=True)
    with open(os.path.join(evdir, ctx.pid + ".json"), "w") as f:
        json.dump(ev, f, indent=1)
    ctx.cleanup()
    ok = not ctx.violations
    print("%s %s: obligations %d/%d, violations %d, %.1fs" %
          (ctx.pid, "OK" if ok else "FAILED", ndis, nob, len(ctx.violations), time.time() - ctx.t0))
    sys.exit(0 if ok else 1)


# --------------------------------------------------------------------------
# case generation helpers
# --------------------------------------------------------------------------
def fmt_case(params, progs, sched):
    out = [len(params)] + list(params) + [len(progs)]
    for p in progs:
        out.append(len(p))
        for (a, b) in p:
            out += [a, b]
    out.append(len(sched))
    out += list(sched)
    return " ".join(str(x) for x in out)


def interleavings(counts, limit=None):
    """all interleavings of threads with the given step counts."""
    res = []

    def go(rem, acc):
        if limit and len(res) >= limit:
            return
        if all(r == 0 for r in rem):
            res.append(list(acc))
            return
        for t, r in enumerate(rem):
            if r:
                rem[t] -= 1
                acc.append(t)
                go(rem, acc)
                acc.pop()
                rem[t] += 1
    go(list(counts), [])
    return res


def random_sched(rng, nthreads, length, style):
    if style == 0:      # uniform
        return [rng.randrange(nthreads) for _ in range(length)]
    if style == 1:      # bursts: few preemptions
        s = []
        while len(s) < length:
            t = rng.randrange(nthreads)
            s += [t] * rng.randint(1, 12)
        return s[:length]
    if style == 3:      # uniform prefix, then one thread stalled for a long stretch, then uniform again
        a = rng.randint(0, max(0, length // 2))
        stalled = rng.randrange(nthreads)
        others = [t for t in range(nthreads) if t != stalled] or [stalled]
        b = rng.randint(20, max(21, length // 2))
        return ([rng.randrange(nthreads) for _ in range(a)] + [rng.choice(others) for _ in range(b)] +
                [rng.randrange(nthreads) for _ in range(max(0, length - a - b))])
    # one thread stalled for a long time, others run
    stalled = rng.randrange(nthreads)
    others = [t for t in range(nthreads) if t != stalled] or [stalled]
    s = []
    k = rng.randint(1, 6)
    s += [stalled] * k
    s += [rng.choice(others) for _ in range(length - k - 3)]
    s += [stalled] * 3
    return s
