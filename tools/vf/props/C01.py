"""C01 (one kernel thread at a time; resumed only from a saved state; reclaimed
only when unused) and the runtime half of C02 (every schedule is followed by
exactly one run): Coq theorems over the protocol machine coq/Kernel.v + runs of
the WHOLE real runtime under the baton scheduler (rt/t2.c) whose protocol-event
traces are (a) checked by the implementation-side monitor below and (b) fed to
the extracted acceptor of the protocol machine (trace inclusion)."""
import os
import random

from vf import core

THEOREMS = ["C01_exclusive", "C01_resume_only_saved", "C01_reclaim", "C02_sched_conservation"]
T2_SOURCES = ["src/fiber_manager.c", "src/fiber.c", "src/fiber_mutex.c", "src/fiber_spinlock.c",
              "src/hazard_pointer.c", "src/fiber_cond.c", "src/fiber_semaphore.c", "src/fiber_barrier.c",
              "src/fiber_context.c", "src/fiber_scheduler_wsd.c", "src/work_stealing_deque.c",
              "src/fiber_event_native.c", "src/fiber_io.c", "src/fiber_rwlock.c", "src/work_queue.c"]
T2_FLAGS = ["-Dpthread_create=t2_pthread_create", "-Depoll_wait=t2_epoll_wait",
            "-Dtimerfd_create=t2_timerfd_create", "-Dtimerfd_settime=t2_timerfd_settime"]

EV_SCHED, EV_NEXT, EV_STEAL, EV_SW_OLD, EV_RESUMED, EV_DESTROY, EV_CREATE, EV_CREATE_T = 951, 952, 953, 954, 955, 956, 957, 958
EV_SW_NEW = 964


def monitor(case, tr, raw):
    """C01/C02 oracle on the protocol events of a real run."""
    if tr is None:
        return "implementation produced no trace: %s" % (raw or "")[:80]
    ctx = {}          # fiber -> ('fresh',) | ('live', t) | ('saved',)
    cur = {}          # kernel thread -> fiber
    state = {}
    pend = {}         # schedules not yet consumed by next()
    handed = {}       # thread -> fiber returned by next() and not yet switched to
    destroyed = set()
    nthread_fibers = 0
    sw_old = {}
    finished = False
    idle = {}        # queued fiber -> {thread: polls since it became runnable}
    owed = {}        # thread -> finished fiber it has just switched away from and must reclaim next
    qthread = {}     # queued fiber -> kernel thread on whose run queue it was put
    ycount = {}      # queued, runnable fiber -> yields of that thread's running fibers since it became runnable there
    nfib = 0
    relabel = None   # first store of READY over RUNNING by a thread the fiber does not run on
    maint = {}       # scheduler-loop (maintenance) fiber -> its kernel thread
    for (t, loc, kind, val) in tr:
        if loc == 910 and kind == 99 and val == 0:
            # an idle kernel thread polls (twice per scheduler-loop iteration in T2); a queued, runnable fiber must be
            # picked up by the time every kernel thread has gone through a full idle iteration after it became runnable
            for f, n in pend.items():
                if n and state.get(f) != 5:
                    ps = idle.setdefault(f, {})
                    ps[t] = ps.get(t, 0) + 1
                    if nthread_fibers and len(ps) == nthread_fibers and min(ps.values()) >= 3:
                        return "every kernel thread went idle (3 polls each) while runnable fiber %d stayed queued" % f
        if kind == -9:
            return "the runtime crashed (signal %d) under this schedule" % val
        if kind in (9, 19) and 400 <= loc < 400 + 20 * 64 and 2 <= (loc - 400) % 20 <= 6 and (loc - 400) // 20 != t \
                and (loc - 400) // 20 < max(nthread_fibers, 1):
            return ("kernel thread %d %s a deferred-action slot (field %d) of kernel thread %d's manager: a fiber is acting "
                    "through the manager of a thread it no longer runs on, so that thread's pending unlock / publication / "
                    "reclamation is performed before (or instead of) its own context switch"
                    % (t, "wrote" if kind == 19 else "read", (loc - 400) % 20, (loc - 400) // 20))
        if kind == 19 and 400 <= loc < 400 + 20 * 64 and (loc - 400) % 20 == 7 and val >= 1000:
            maint[val] = (loc - 400) // 20          # kernel thread (loc-400)/20 names its scheduler-loop fiber
            continue
        if kind == 19 and 400 <= loc < 400 + 20 * 64 and (loc - 400) % 20 == 8:
            # a fiber_manager_yield on kernel thread t: every fiber that is queued on t's run queue and runnable (not
            # still SAVING on its previous thread) must be handed out after a bounded number of them (C10)
            for g, tq in qthread.items():
                if tq == t and state.get(g) != 5:
                    ycount[g] = ycount.get(g, 0) + 1
                    if ycount[g] > 4 * max(nfib, 2) + 20:
                        return ("runnable fiber %d has been sitting in the run queue of kernel thread %d for %d yields of "
                                "that thread's running fibers without being handed out (%d fibers exist)" % (g, t, ycount[g], nfib))
            continue
        if kind != 919 and 200 <= loc < 400:
            f = 1000 + (loc - 200)
            if f in destroyed:
                return "fiber %d's control block accessed by thread %d after it was reclaimed" % (f, t)
            if kind == 19:
                first = f not in state
                if val == 2 and state.get(f) == 1 and ctx.get(f, ('?',))[0] == 'live' and ctx[f][1] != t and relabel is None:
                    # only the thread a fiber runs on may turn RUNNING into READY (when it switches away from it and
                    # re-queues it); a waker stores READY into a fiber that has labelled itself WAITING
                    relabel = ("thread %d stored READY into fiber %d while that fiber is RUNNING on thread %d: its next "
                               "fiber_yield does not re-queue it (switch_to re-queues RUNNING fibers only), so a runnable "
                               "fiber drops out of every run queue" % (t, f, ctx[f][1]))
                state[f] = val
                idle.pop(f, None)
                if val == 1 and not first and f in ctx and ctx[f][0] == 'live' and ctx[f][1] != t:
                    return "fiber %d marked RUNNING by thread %d while it is executing on thread %d" % (f, t, ctx[f][1])
            continue
        if kind == 909 and 1000 <= loc < 1100 and val == 80:
            return "fiber %d: two readers blocked on one descriptor did not each receive their byte" % (loc - 1000)
        if kind == 909 and 1000 <= loc < 1100 and val == 79:
            return ("fiber %d: a fiber_join racing with a fiber_detach of the same target returned neither the result nor "
                    "FIBER_ERROR" % (loc - 1000))
        if kind == 909 and 1000 <= loc < 1100 and val == 78:
            return "fiber %d: a writer held the rwlock together with another writer or a reader" % (loc - 1000)
        if kind == 909 and 1000 <= loc < 1100 and val == 77:
            return "fiber %d returned from fiber_multi_signal_wait although the signal had not been raised for it" % (loc - 1000)
        if kind != 919:
            continue
        if t in owed and 951 <= loc <= 958 and loc != EV_RESUMED and not (loc == EV_DESTROY and val == owed[t]):
            # do_maintenance reclaims the finished predecessor before anything else
            return ("finished fiber %d was switched away from on thread %d and never reclaimed: the successor's "
                    "maintenance moved on without destroying it" % (owed[t], t))
        if loc == 959:
            return ("thread %d pushed / popped fiber %d on another kernel thread's run queue: a run queue has one owner "
                    "(only steals may come from other threads)" % (t, val))
        if loc == 910 and val == 3:
            finished = True
        elif loc == EV_CREATE_T:
            nfib += 1
            ctx[val] = ('live', nthread_fibers)
            cur[nthread_fibers] = val
            nthread_fibers += 1
        elif loc == EV_CREATE:
            nfib += 1
            ctx[val] = ('fresh',)
            pend[val] = 0
        elif loc == EV_SCHED:
            if val in destroyed:
                return "reclaimed fiber %d scheduled" % val
            if val in maint:
                return ("the scheduler-loop fiber %d of kernel thread %d was put on a run queue like a user fiber: another "
                        "kernel thread can take it and run this thread's scheduler loop (one fiber run by two threads)"
                        % (val, maint[val]))
            pend[val] = pend.get(val, 0) + 1
            qthread[val] = t
            ycount[val] = 0
            idle.pop(val, None)
            if pend[val] > 1:
                return "fiber %d scheduled twice for one wake-up (queued twice)" % val
        elif loc == EV_NEXT:
            if pend.get(val, 0) != 1:
                return "run queue handed out fiber %d which is not queued exactly once (pending=%d)" % (val, pend.get(val, 0))
            pend[val] = 0
            qthread.pop(val, None); ycount.pop(val, None)
            if t in handed:
                return "thread %d took fiber %d from the queue but never ran %d" % (t, val, handed[t])
            handed[t] = val
        elif loc == EV_STEAL:
            if val in qthread:
                qthread[val] = t          # the thief puts it at the front of its own run queue
                ycount[val] = 0
        elif loc == EV_SW_OLD:
            sw_old[t] = val
        elif loc == EV_SW_NEW:
            old, new = sw_old.pop(t, None), val
            if cur.get(t) != old:
                return "thread %d switches away from %s but was running %s" % (t, old, cur.get(t))
            if new in destroyed:
                return "thread %d switches to reclaimed fiber %d" % (t, new)
            c = ctx.get(new)
            if c is None:
                return "switch to unknown fiber %d" % new
            if c[0] == 'live':
                return ("fiber %d resumed on thread %d while it is still executing on thread %d "
                        "(its suspension has not completed)" % (new, t, c[1]))
            if handed.get(t) == new:
                del handed[t]
            elif t in handed:
                return "thread %d took %d from the queue but switched to %d" % (t, handed[t], new)
            ctx[old] = ('saved',)
            ctx[new] = ('live', t)
            cur[t] = new
            if state.get(old) == 4 and old not in destroyed:
                owed[t] = old
        elif loc == EV_DESTROY:
            f = val
            if f in destroyed:
                return "fiber %d reclaimed twice" % f
            c = ctx.get(f)
            if c is None or c[0] != 'saved':
                return "fiber %d reclaimed while its context is %s" % (f, c)
            if state.get(f) != 4:
                return "fiber %d reclaimed in state %s (not DONE)" % (f, state.get(f))
            if pend.get(f, 0):
                return "fiber %d reclaimed while queued" % f
            destroyed.add(f)
            if owed.get(t) == f:
                del owed[t]
    if not finished:
        return "the main fiber never finished (some fiber is stranded or the schedule bound was hit)" + \
            ("; earlier in this run " + relabel if relabel else "")
    return relabel


def to_labels(tr, nk):
    """decode the protocol events of a T2 trace into the label quadruples of
    coq/Kernel.v (glue; the judgement is made by the extracted acceptor)."""
    out = [nk]
    seen_first_write = set()
    sw_old = {}
    pos = []          # trace index of each label, for diagnostics
    for i, (t, loc, kind, val) in enumerate(tr):
        lab = None
        if kind == 19 and 200 <= loc < 400:
            f = loc - 200
            if f < nk and f not in seen_first_write:
                seen_first_write.add(f)        # fiber_create_from_thread's own initialisation
                continue
            lab = (2, t, f, val)
        elif kind in (9, 19) and 400 <= loc < 400 + 20 * 16:
            owner, field = divmod(loc - 400, 20)
            if field in (2, 3, 4, 5, 6):
                if kind == 19 and field == 6 and val >= 1000:
                    lab = (3, t, val - 1000, 0)
                    if owner != t:
                        out += [11, t, owner, 0]; pos.append(i)
                else:
                    lab = (11, t, owner, 0)
        elif kind == 919:
            if loc == EV_CREATE:
                lab = (1, t, val - 1000, 0)
            elif loc == EV_SCHED:
                lab = (4, t, val - 1000, 0)
            elif loc == EV_NEXT:
                lab = (5, t, val - 1000, 0)
            elif loc == EV_STEAL:
                lab = (6, t, val - 1000, 0)
            elif loc == EV_SW_OLD:
                sw_old[t] = val - 1000
            elif loc == EV_SW_NEW:
                lab = (7, t, sw_old.pop(t, 0), val - 1000)
            elif loc == EV_RESUMED:
                lab = (8, t, 0, 0)
            elif loc == EV_DESTROY:
                lab = (9, t, val - 1000, 0)
        if lab:
            out += list(lab); pos.append(i)
    return out, pos


def gen_cases(ctx, tier):
    rng = random.Random(ctx.seed * 7919 + 1)
    cases = []
    n = 250 if tier == "quick" else 6000
    for _ in range(n):
        nk = rng.choice([1, 2, 2, 3, 3, 4])
        nf = rng.randint(1, 6)
        progs = []
        for _f in range(nf):
            p = []
            for _ in range(rng.randint(1, 6)):
                opc = rng.choice([1, 1, 2, 3, 2, 3, 4, 5, 6, 7, 8, 9, 9, 9, 10, 10, 11, 12, 13, 13, 14, 14, 15, 15, 16, 17, 17, 18, 18, 18, 19, 19, 20, 20, 21, 21, 22, 23, 23, 26, 26])
                p.append((opc, rng.randint(0, 1)))
            progs.append(p)
        length = rng.randint(50, 2500)
        cases.append(core.fmt_case([60000, nk], progs, core.random_sched(rng, nk, length, rng.randrange(3))))
    # join/detach-heavy programs: finishing fibers that wait for their joiner (and are stolen meanwhile), joiners woken
    # by a fiber that has migrated: the wake-up paths where a stale kernel-thread pointer would be used
    nj = n // 2
    for _ in range(nj):
        nk = rng.choice([2, 2, 3, 3, 4])
        nf = rng.randint(1, 5)
        progs = [[(rng.choice([10, 10, 10, 11, 23, 23, 1, 3, 2]), rng.randint(0, 1)) for _ in range(rng.randint(1, 6))]
                 for _f in range(nf)]
        cases.append(core.fmt_case([60000, nk], progs, core.random_sched(rng, nk, rng.randint(50, 2500), rng.randrange(3))))
    for _ in range(2 * n):
        nk = rng.choice([2, 3, 3, 4])
        progs = [[(10, rng.randint(0, 1))] * rng.randint(1, 4) for _f in range(rng.randint(1, 3))]
        cases.append(core.fmt_case([60000, nk], progs,
                                   core.random_sched(rng, nk, rng.randint(30, 1500), rng.choice([0, 1, 2, 3, 3, 3]))))
    # several fibers blocked on ONE descriptor while the poller handles its readiness (fd waits under work stealing)
    for _ in range(2 * n):
        nk = rng.choice([2, 2, 3, 4])
        progs = [[(rng.choice([26, 26, 26, 12, 1]), rng.randint(0, 1)) for _ in range(rng.randint(1, 3))]
                 for _f in range(rng.randint(1, 3))]
        cases.append(core.fmt_case([60000, nk], progs,
                                   core.random_sched(rng, nk, rng.randint(30, 2500), rng.choice([0, 1, 2, 3, 3, 3]))))
    # the main fiber's first blocking call is a sleep; the other fibers sleep and yield
    ns = n // 2
    for _ in range(ns):
        nk = rng.choice([2, 2, 3, 4])
        progs = [[(rng.choice([18, 18, 18, 1, 3, 2]), rng.randint(0, 1)) for _ in range(rng.randint(1, 4))]
                 for _f in range(rng.randint(1, 4))]
        cases.append(core.fmt_case([60000, nk, rng.choice([1, 2])], progs,
                                   core.random_sched(rng, nk, rng.randint(30, 1500), rng.randrange(3))))
    ctx.coverage["case_distribution"] = {"random_programs": n, "join_heavy_programs": nj, "create_join_only": 2 * n,
                                         "main_sleeps_first": ns, "shared_descriptor_waits": 2 * n}
    return cases


def build(ctx):
    return core.build_harness(ctx, "h_kernel", "h_kernel.c", repo_sources=T2_SOURCES,
                              extra_flags=T2_FLAGS, extra_rt=("t2.c",))


def corpus():
    p = os.path.join(core.VERIF, "corpus", "C01.txt")
    try:
        return [l.strip() for l in open(p) if l.strip() and not l.startswith("#")]
    except OSError:
        return []


def accept_traces(ctx, cases, impl):
    """feed the protocol events of every real run to the extracted acceptor of
    coq/Kernel.v; returns (number accepted, list of (case, diag))."""
    labs, idx = [], []
    for i, (c, l) in enumerate(zip(cases, impl)):
        tr = core.parse_trace(l) if l else None
        if tr is None:
            continue
        nk = int(c.split()[2])
        lab, pos = to_labels(tr, max(1, min(nk, 8)))
        labs.append(" ".join(map(str, lab)))
        idx.append((i, tr, pos, lab))
    res = core.model_run("kernel", labs)
    rejected = []
    for (i, tr, pos, lab), r in zip(idx, res):
        v = r.split()
        if not v or v[0] != "-1":
            k = int(v[0]) if v and v[0].lstrip("-").isdigit() else -1
            q = lab[1 + 4 * k:5 + 4 * k] if k >= 0 else []
            rejected.append((cases[i], "event %s (label %s) is not enabled in the protocol machine; state summary %s"
                             % (tr[pos[k]] if 0 <= k < len(pos) else "?", q, " ".join(v[1:]))))
    return len(labs) - len(rejected), rejected


def lint_obligation(ctx):
    """source obligation shared by C01, C02 and C04: no pointer to the calling kernel thread's manager is used across a
    call that may move the fiber to another kernel thread (tools/lint/stale_manager.py; the defect class of F-C01)"""
    import sys
    rc, out = core.sh([sys.executable, os.path.join(core.VERIF, "tools", "lint", "stale_manager.py"), core.REPO])
    ctx.oblige("source-lint:manager pointer re-fetched after every call that may switch kernel threads", rc == 0, out)
    ctx.coverage["stale_manager_lint"] = "clean" if rc == 0 else out.strip().split("\n")[:5]


def runtime_layer(ctx, name, what, opchoice, quick_n=200, nks=(2, 2, 3, 3, 4), seedoff=0, progs_fn=None):
    """a property's primitive exercised on the WHOLE real runtime (T2 machine) and judged by the runtime oracle: used
    by the checks of the blocking primitives, whose lock-step models run on the T1 machine (no migration between
    kernel threads, no run queues)"""
    lint_obligation(ctx)
    exe = build(ctx)
    if not exe:
        return
    rng = random.Random(ctx.seed * 7919 + 4242 + seedoff)
    n = quick_n if ctx.tier == "quick" else quick_n * 20
    cases = []
    for _ in range(n):
        nk = rng.choice(list(nks))
        if progs_fn is not None and rng.random() < 0.5:
            progs = progs_fn(rng)
        else:
            progs = [[(rng.choice(opchoice), rng.randint(0, 1)) for _ in range(rng.randint(1, 6))]
                     for _f in range(rng.randint(1, 5))]
        cases.append(core.fmt_case([60000, nk], progs,
                                   core.random_sched(rng, nk, rng.randint(30, 2500), rng.choice([0, 1, 2, 3, 3]))))
    impl = core.run_sharded([exe], cases, timeout=900)
    bad = 0
    for c, line in zip(cases, impl):
        why = core.safe_monitor(monitor, c, core.parse_trace(line) if line is not None else None, line)
        if why:
            bad += 1
            if bad <= 3:
                core.report_violation(ctx, "kernel", c, "%s: %s" % (what, why), line)
    ctx.coverage["%s_runtime_layer_t2" % name] = {"runs": len(cases), "violations": bad}
    ctx.oblige("%s-t2(%d runs)" % (name, len(cases)), bad == 0, "%d runs judged a violation" % bad)


def run(ctx):
    ctx.trusted = TRUSTED
    core.coq_property(ctx, "Properties_C01.v", THEOREMS)
    lint_obligation(ctx)
    exe = build(ctx)
    if exe:
        cases = corpus() + gen_cases(ctx, ctx.tier)
        t0 = __import__("time").time()
        impl = core.run_sharded([exe], cases, timeout=900)
        nmon = 0
        events = 0
        for c, l in zip(cases, impl):
            tr = core.parse_trace(l) if l else None
            events += len(tr or [])
            why = monitor(c, tr, l)
            if why:
                nmon += 1
                core.report_violation(ctx, "kernel", c, why, l)
        nacc, rejected = accept_traces(ctx, cases, impl)
        for (c, why) in rejected[:3]:
            ctx.failures.append({"kind": "correspondence", "label": "kernel-acceptor", "case": c, "detail": why})
        ctx.oblige("correspondence:kernel protocol machine accepts the real runtime's event traces (%d runs)" % len(cases),
                   not rejected, "%d of %d traces rejected" % (len(rejected), len(cases)))
        ctx.stats["kernel"] = {"cases": len(cases), "trace_events": events, "accepted": nacc,
                               "rejected": len(rejected), "monitor_violations": nmon,
                               "wall_s": round(__import__("time").time() - t0, 2)}
        ctx.samples.append({"harness": "kernel", "case": cases[len(cases) // 2][:400],
                            "impl_trace_head": (impl[len(cases) // 2] or "")[:300]})
        ctx.coverage.update({"traces_validated_against_impl": nacc, "evaluations": len(cases),
                             "distinct_nontrivial": len(set(cases)),
                             "rule": "case = (kernel thread count, one op list per fiber over yield / mutex / semaphore / "
                                     "condition wait+signal+broadcast / create+join / create+detach, schedule of kernel threads); "
                                     "every case has >= 1 fiber besides the main fiber; distinct by construction"})
        if ctx.failures and not ctx.violations:
            search(ctx, exe)
    core.finish(ctx, extra_assumptions=ASSUME)


def search(ctx, exe):
    c2 = core.Ctx(ctx.pid, "thorough", ctx.seed + 1000)
    try:
        cases = gen_cases(c2, "thorough")[:6000]
    finally:
        c2.cleanup()
    impl = core.run_sharded([exe], cases, timeout=900)
    for c, line in zip(cases, impl):
        why = core.safe_monitor(monitor, c, core.parse_trace(line) if line is not None else None, line)
        if why:
            core.report_violation(ctx, "kernel", c, why, line)
            if len(ctx.violations) >= 3:
                break


def replay(ctx, payload):
    exe = build(ctx)
    c = payload.get("case")
    if not exe or not c:
        print("nothing to replay (no concrete case in this file)")
        return 2
    impl = core.run_sharded([exe], [c])[0]
    why = monitor(c, core.parse_trace(impl), impl)
    nacc, rej = accept_traces(ctx, [c], [impl])
    print("case:  %s\nimpl trace: %s ...\nmonitor: %s\nacceptor: %s" %
          (c[:300], (impl or "")[:300], why or "ok", rej[0][1] if rej else "accepted"))
    return 1 if (why or rej) else 0


TRUSTED = [
    "Coq 8.16.1 kernel + vm_compute (no native_compute)",
    "Print Assumptions of each theorem (recorded under print_assumptions)",
    "extraction: ExtrOcamlBasic only; OCaml driver",
    "rt/rt.c baton scheduler + rt/t2.c (whole real runtime: real context switch, run queues, managers; kernel threads under "
    "the baton; epoll never blocks; the timer is an eventfd advanced one tick per idle poll / main-fiber round); guarded protocol-event hooks in /repo",
    "tools/vf/props/C01.py:to_labels (decoding of trace events into labels) and the inference of the end of do_maintenance (Kernel.kstep_auto)",
    "protocol machine coq/Kernel.v written by hand; tie = trace inclusion: every event of every real run must be enabled in the machine",
]
ASSUME = ["run queues of all threads abstracted to one bag (stealing only moves entries; C02 deque theorems)",
          "an entry published in a wait object is obtained by at most one waker (container exactly-once: C13/C15; lock discipline C03/C18)",
          "waiters published by deferred actions are treated as available from the start of the maintenance after their swap",
          "fd / sleep waits are not exercised by the T2 programs (they use the same deferred-unlock pattern P3)"]
