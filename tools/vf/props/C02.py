"""C02 every runnable fiber is run by exactly one thread, once per wake-up.
Three layers, each with its own theorems and its own tie to the code:
  (1) the Chase-Lev deque (coq/Wsd.v, WsdTSO.v; lock-step on work_stealing_deque.c)   -> C02_deque
  (2) the scheduler over atomic deques (coq/Sched.v; lock-step on fiber_scheduler_wsd.c) -> C10's model
  (3) the whole runtime (coq/Kernel.v acceptor + monitors on real runs)                 -> C01's machine
"""
import os

from vf import core
from vf.props import C01, C02_deque, C10

SCHED_THEOREMS = ["sched_conservation_1thread"]
KERNEL_THEOREMS = ["C02_sched_conservation"]


def run(ctx):
    ctx.trusted = sorted(set(C02_deque.TRUSTED + C10.TRUSTED + C01.TRUSTED)) if hasattr(C02_deque, "TRUSTED") else C01.TRUSTED
    # (1) deque: theorems + lock-step + monitor (+ search on failure)
    C02_deque.run_part(ctx)
    # (2) scheduler layer
    layers = ["deque"]
    if os.path.exists(os.path.join(core.COQ, "Properties_C10.v")):
        core.coq_property(ctx, "Properties_C10.v", SCHED_THEOREMS)
        layers.append("scheduler")
    exe = C10.build(ctx)
    if exe:
        cases = C10.corpus() + C10.gen_cases(ctx, ctx.tier)
        core.correspond(ctx, "sched", "sched", exe, cases, C10.monitor)
    # (3) whole runtime
    if os.path.exists(os.path.join(core.COQ, "Properties_C01.v")):
        core.coq_property(ctx, "Properties_C01.v", KERNEL_THEOREMS)
        layers.append("runtime")
    ctx.coverage["theorem_layers_included"] = layers
    C01.lint_obligation(ctx)
    kexe = C01.build(ctx)
    if kexe:
        kcases = C01.corpus() + C01.gen_cases(ctx, ctx.tier)
        impl = core.run_sharded([kexe], kcases, timeout=900)
        nmon = 0
        for c, l in zip(kcases, impl):
            why = C01.monitor(c, core.parse_trace(l) if l else None, l)
            if why:
                nmon += 1
                core.report_violation(ctx, "kernel", c, why, l)
        nacc, rejected = C01.accept_traces(ctx, kcases, impl)
        for (c, why) in rejected[:3]:
            ctx.failures.append({"kind": "correspondence", "label": "kernel-acceptor", "case": c, "detail": why})
        ctx.oblige("correspondence:kernel protocol machine accepts the real runtime's event traces (%d runs)" % len(kcases),
                   not rejected, "%d of %d traces rejected" % (len(rejected), len(kcases)))
        ctx.stats["kernel"] = {"cases": len(kcases), "accepted": nacc, "rejected": len(rejected),
                               "monitor_violations": nmon}
    tot = sum(st.get("cases", 0) for st in ctx.stats.values())
    ctx.coverage.update({
        "traces_validated_against_impl": sum(st.get("cases", 0) - st.get("differ", 0) - st.get("rejected", 0)
                                             for st in ctx.stats.values()),
        "evaluations": tot, "distinct_nontrivial": sum(st.get("nontrivial", st.get("accepted", 0)) for st in ctx.stats.values()),
        "rule": "deque: owner/thief programs x schedules (non-trivial = a CAS failed or a call returned EMPTY/ABORT); "
                "scheduler: kernel-thread programs x schedules; runtime: fiber programs x kernel-thread schedules"})
    if ctx.failures and not ctx.violations:
        if kexe:
            C01.search(ctx, kexe)
    core.init_contract(ctx, ["wsd_circular_array", "wsd_work_stealing_deque", "fiber_scheduler_wsd"])  # rt/h_init.c: real init on dirty memory
    core.finish(ctx, extra_assumptions=ASSUME)


def replay(ctx, payload):
    if payload.get("harness") == "h_init":
        return core.replay_init(ctx, payload)
    h = payload.get("harness")
    if h == "kernel":
        return C01.replay(ctx, payload)
    if h in ("sched", "sched+catchall"):
        return C10.replay(ctx, payload)
    return C02_deque.replay(ctx, payload)


ASSUME = ["layering: the scheduler model treats deque operations as atomic (justified by the deque theorems, owner-only "
          "discipline proved for the scheduler in Properties_C10/C01); the runtime machine treats all run queues as one bag",
          "the x86-TSO deque model (WsdTSO.v) is not tied to the C code by traces; the SC one is",
          "top/bottom stay below 2^63; malloc does not fail"]
