"""C05 fiber condition variable: Coq theorems (Properties_C05.v) + lock-step correspondence
of the real src/fiber_cond.c + src/fiber_mutex.c + src/fiber_manager.c (wait/wake/maintenance
with the deferred mutex unlock) on the T1 machine with coq/Cond.v (client of coq/T1K.v) +
implementation-side monitor (released <= claimed, count accounting, atomic unlock-and-wait,
wait returns locked, nobody stranded)."""
import os
import random

from vf import core

THEOREMS = ["cond_count_inv", "cond_no_spurious", "cond_single_consumer", "cond_signal_not_lost",
            "cond_atomic_unlock_wait", "cond_wait_returns_locked", "cond_erasure"]
WAIT, WAITIF, SIGNAL, SIGNALM, BCAST, BCASTM, SETFLAG, READ = 1, 2, 3, 4, 5, 6, 7, 8
T1_SOURCES = ["src/fiber_manager.c", "src/fiber.c", "src/fiber_mutex.c", "src/fiber_cond.c",
              "src/fiber_spinlock.c", "src/hazard_pointer.c"]
T1_FLAGS = ["-Dpthread_create=t1_pthread_create"]
L_UM, L_IM, L_CNT, L_CHEAD = 300, 310, 320, 321
L_FLAG, L_OWNER = 501, 502


L_REST = 3900     # search mode: byte b of the user mutex = 3900 + b, of the cond = 4900 + b (bytes registered otherwise keep their locs)


def parse_case(case):
    v = [int(x) for x in case.split()]
    i = 1 + v[0]
    n = v[i]; i += 1
    progs = []
    for _ in range(n):
        k = v[i]; i += 1
        progs.append([(v[i + 2 * j], v[i + 2 * j + 1]) for j in range(k)])
        i += 2 * k
    return v[1:1 + v[0]], progs


def monitor(case, tr, raw, stats=None):
    """Property oracle on the implementation trace alone."""
    if tr is None:
        return "implementation produced no trace: %s" % (raw or "")[:80]
    # search mode (RT_CATCHALL=1): accesses to bytes of the object(s) that have no location of their own are
    # scheduling points, not events of the protocol judged here
    tr = [e for e in tr if e[1] < L_REST or e[2] in (909, 919)]
    _, progs = parse_case(case)
    n = len(progs)
    opidx = [0] * n
    owner = None                 # who wrote the owner cell last and has not released the user mutex
    reg = claimed = rel = returned = 0
    transient = 0                # signals between their fetch_sub (found nobody) and the fetch_add back
    in_transient = set()
    waiting = set()              # registered, not yet scheduled from the cond list
    registered_now = set()       # threads that registered in their current call
    flagseen = {}
    lasthead = {}                # thread -> list head it wrote last (a pop in progress)
    callsched = [0] * n          # fibers scheduled from the cond list in the current call
    expect = {}                  # thread -> number of waiters its signal/broadcast claimed
    im_holder = None             # holder of the internal mutex as seen through the cond list accesses
    blocked, spinning = [], []
    in_maint_unlock = set()      # waiters between their deferred unlock and their sleep
    returned_now = set()         # waiters whose cond_wait returned in the current call

    def cur_op(t):
        return progs[t][opidx[t]][0] if t < n and opidx[t] < len(progs[t]) else None

    for (t, loc, kind, val) in tr:
        K = kind // 10
        if kind == 919 and loc == 0 and val in (7, 8):
            (blocked if val == 7 else spinning).append(t)
            continue
        if t >= n:
            continue
        if kind == 919 and loc == 0 and val == 1:
            in_maint_unlock.discard(t)
        op = cur_op(t)
        if loc == L_OWNER and kind == 19:
            if owner is not None and owner != t:
                return "thread %d entered the critical section of the user mutex while %d holds it" % (t, owner)
            owner = t
        elif loc == L_FLAG and kind == 9:
            flagseen[t] = val
        elif loc == L_UM and K == 5:
            if owner != t:
                return "user mutex unlocked by %d but the owner is %s" % (t, owner)
            owner = None
            if op in (WAIT, WAITIF) and t in registered_now and t not in returned_now and val != 0:
                in_maint_unlock.add(t)
            if (op == WAIT or (op == WAITIF and flagseen.get(t) == 0)) and t not in registered_now:
                return ("user mutex released on behalf of waiter %d before it registered in waiter_count "
                        "(unlock and wait are not atomic)" % t)
        elif loc == L_CNT:
            if K in (2, 4, 5, 6):
                want = reg - claimed - transient
                if val != want:
                    return ("waiter_count observed %d by thread %d but registered - claimed = %d - %d "
                            "(transient %d)" % (val, t, reg, claimed, transient))
            if op in (WAIT, WAITIF):
                if K == 5:
                    reg += 1
                    waiting.add(t)
                    registered_now.add(t)
            elif op in (SIGNAL, SIGNALM):
                if K == 6:
                    if val >= 1:
                        claimed += 1
                        expect[t] = 1
                    else:
                        transient += 1
                        in_transient.add(t)
                        expect[t] = 0
                        if stats is not None:
                            stats["transient"] = stats.get("transient", 0) + 1
                elif K == 5 and t in in_transient:
                    in_transient.discard(t)
                    transient -= 1
            elif op in (BCAST, BCASTM):
                if K in (4, 2) and t not in expect:
                    claimed += val
                    expect[t] = val
                    if stats is not None and val >= 2:
                        stats["bcast2"] = stats.get("bcast2", 0) + 1
        elif loc in (301, 311, 321) and kind == 19:
            lasthead[t] = loc
        elif loc == 901 and kind == 919:
            src = lasthead.pop(t, None)
            if src == L_CHEAD:
                if val not in waiting:
                    return "thread %d scheduled fiber %d from the cond list, which is not a registered waiter" % (t, val)
                waiting.discard(val)
                rel += 1
                callsched[t] += 1
                if rel > claimed:
                    return "waiter %d released without a signal/broadcast claim (released %d > claimed %d)" % (val, rel, claimed)
        elif kind == 99 and loc == 900 and stats is not None:
            if op in (SIGNAL, SIGNALM, BCAST, BCASTM) and t in expect:
                stats["spin"] = stats.get("spin", 0) + 1
        elif kind == 9 and 100 <= loc < 200 and loc % 2 == 1 and val == 0 and stats is not None:
            if t in in_maint_unlock:        # a failed pop of the deferred unlock: retried at once
                stats["maint_spin"] = stats.get("maint_spin", 0) + 1
        elif kind == 909:
            if op in (WAIT, WAITIF) and val == 11:
                returned += 1
                returned_now.add(t)
                if t in waiting:
                    return "waiter %d returned from cond_wait without having been released" % t
                if t not in registered_now:
                    return "waiter %d returned from cond_wait without having registered" % t
                continue
            if val == 7 and op != READ:
                return "owner cell of thread %d was overwritten while it held the user mutex" % t
            if op in (SIGNAL, SIGNALM, BCAST, BCASTM):
                if t not in expect:
                    return "signal/broadcast by %d returned without examining waiter_count" % t
                if callsched[t] != expect[t]:
                    return ("%s by %d claimed %d registered waiter(s) but released %d before returning"
                            % ("signal" if op in (SIGNAL, SIGNALM) else "broadcast", t, expect[t], callsched[t]))
                if t in in_transient:
                    return "signal by %d returned leaving waiter_count decremented" % t
            expect.pop(t, None)
            callsched[t] = 0
            registered_now.discard(t)
            returned_now.discard(t)
            in_maint_unlock.discard(t)
            flagseen.pop(t, None)
            opidx[t] += 1
    if spinning:
        return "thread %d still running when the drain budget ended (live-lock?)" % spinning[0]
    for t in blocked:
        if t not in waiting:
            return "thread %d blocked forever although it is not an unreleased waiter (stranded)" % t
    if claimed > rel:
        return "lost signal: %d waiters claimed but only %d released at quiescence" % (claimed, rel)
    if len(blocked) != reg - rel:
        return "%d threads blocked but registered - released = %d" % (len(blocked), reg - rel)
    for t in range(n):
        if t not in blocked and opidx[t] != len(progs[t]):
            return "thread %d ended after %d of %d calls" % (t, opidx[t], len(progs[t]))
    if stats is not None and blocked:
        stats["blocked_runs"] = stats.get("blocked_runs", 0) + 1
    return None


SIGS = [SIGNAL, SIGNALM, BCAST, BCASTM]


def gen_cases(ctx, tier):
    rng = random.Random(ctx.seed * 7919 + 5)
    cases = []
    # covering family: the signaller's call lands after k steps of the waiter, and is itself
    # preempted after j steps
    for sig in SIGS:
        for wop in (WAIT, WAITIF):
            for k in range(0, 34):
                for j in (0, 2, 3, 4, 6, 9, 14):
                    sched = [0] * (1 + k) + [1] * (1 + j) + [0] * 12 + [1] * 60 + [0] * 40
                    cases.append(core.fmt_case([1500], [[(wop, 0)], [(sig, 0)]], sched))
    # flag protocol: waiter checks the predicate, setter sets it then signals
    for k in range(0, 40):
        for sig in SIGS:
            sched = [0] * (1 + k) + [1] * 200
            cases.append(core.fmt_case([2000], [[(WAITIF, 0)], [(SETFLAG, 0), (sig, 0)]], sched))
    # two waiters and one broadcaster / two signallers (internal mutex contention, single consumer)
    for k in range(0, 30):
        for j in range(0, 6):
            s3 = [0] * (1 + k) + [1] * (1 + (k * 5 + j * 7) % 31) + [2] * (2 + j * 5) + [0, 1] * 20 + [2] * 80
            cases.append(core.fmt_case([2500], [[(WAIT, 0)], [(WAIT, 0)], [(rng.choice([BCAST, BCASTM]), 0)]], s3))
            s4 = [0] * 40 + [1] * (3 + k) + [2] * (3 + j * 4) + [1, 2] * 60
            cases.append(core.fmt_case([2500], [[(WAIT, 0), (WAIT, 0)], [(SIGNAL, 0), (rng.choice(SIGS), 0)],
                                                [(rng.choice(SIGS), 0), (SIGNAL, 0)]], s4))
    ncov = len(cases)
    nrand = 1500 if tier == "quick" else 40000
    for i in range(nrand):
        nt = rng.choice([2, 2, 3, 3, 4, 5])
        style = i % 3
        progs = []
        for t in range(nt):
            ln = rng.randint(1, 3)
            if style == 0:      # anything
                progs.append([(rng.randint(1, 8), 0) for _ in range(ln)])
            elif style == 1:    # waiters on the low tids, signallers on the others
                if t < (nt + 1) // 2:
                    progs.append([(rng.choice([WAIT, WAITIF, WAIT]), 0) for _ in range(ln)])
                else:
                    progs.append([(rng.choice(SIGS + [SETFLAG, READ]), 0) for _ in range(ln + 1)])
            else:               # every fiber waits and signals (re-waiting fibers)
                progs.append([(rng.choice([WAIT, SIGNAL, BCAST, SIGNALM, WAITIF, BCASTM]), 0) for _ in range(ln + 1)])
        length = rng.randint(5, 90 * nt)
        cases.append(core.fmt_case([4000], progs, core.random_sched(rng, nt, length, rng.randrange(3))))
    # single thread: sequential behaviour (a lone wait blocks forever)
    nseq = 40
    for _ in range(nseq):
        progs = [[(rng.choice([SIGNAL, SIGNALM, BCAST, BCASTM, SETFLAG, READ]), 0) for _ in range(rng.randint(1, 6))]]
        if rng.random() < 0.5:
            progs[0].append((rng.choice([WAIT, WAITIF]), 0))
        cases.append(core.fmt_case([500], progs, []))
    ctx.coverage["case_distribution"] = {"covering_signal_vs_wait": ncov, "random_programs": nrand,
                                         "sequential": nseq, "total": len(cases)}
    return cases


def build(ctx):
    return core.build_harness(ctx, "h_cond", "h_cond.c", repo_sources=T1_SOURCES,
                              extra_flags=T1_FLAGS, rt_objs=("rt.c",), extra_rt=("t1.c",))


def corpus():
    p = os.path.join(core.VERIF, "corpus", "C05.txt")
    try:
        return [l.strip() for l in open(p) if l.strip() and not l.startswith("#")]
    except OSError:
        return []


def run(ctx):
    ctx.trusted = TRUSTED
    core.coq_property(ctx, "Properties_C05.v", THEOREMS)
    exe = build(ctx)
    if exe:
        cases = corpus() + gen_cases(ctx, ctx.tier)
        stats = {}
        ok = core.correspond(ctx, "cond", "cond", exe, cases, lambda c, tr, raw: monitor(c, tr, raw, stats))
        st = ctx.stats["cond"]
        ctx.coverage.update({"traces_validated_against_impl": st["cases"] - st["differ"],
                             "evaluations": st["cases"],
                             "distinct_nontrivial": stats.get("spin", 0) + stats.get("transient", 0),
                             "path_coverage": {"signal_found_nobody(transient -1)": stats.get("transient", 0),
                                               "yields_of_a_claiming_signal/broadcast(spin on unlinked waiter or "
                                               "contended unlock)": stats.get("spin", 0),
                                               "broadcast_of_2_or_more": stats.get("bcast2", 0),
                                               "pop_retries_inside_do_maintenance(deferred unlock spins on an unlinked "
                                               "mutex waiter)": stats.get("maint_spin", 0),
                                               "runs_ending_with_unsignalled_waiters": stats.get("blocked_runs", 0)},
                             "rule": "case = (wait/wait-if/signal/broadcast/set-flag/read programs per fiber, schedule)"})
        if (not ok or ctx.failures) and not ctx.violations:
            search(ctx, exe)
    from vf.props import C01
    def _sigstorm(rng):     # several fibers signalling WITHOUT the user mutex at once, waiters that re-wait immediately
        progs = [[(15, 0)] * rng.randint(3, 6) for _ in range(rng.randint(2, 4))] + \
                [[(17, 0)] * rng.randint(1, 3) for _ in range(rng.randint(1, 3))]
        rng.shuffle(progs)
        return progs
    C01.runtime_layer(ctx, "cond", "condition variable on the whole runtime", [9, 9, 15, 15, 15, 16, 17, 7, 8, 1, 2, 3],
                      nks=(2, 3, 3, 4, 4), seedoff=5, progs_fn=_sigstorm)
    core.init_contract(ctx, ["fiber_cond"])  # rt/h_init.c: real init on dirty memory
    core.finish(ctx, extra_assumptions=ASSUME)


def search(ctx, exe):
    c2 = core.Ctx(ctx.pid, "thorough", ctx.seed + 1000)
    try:
        cases = gen_cases(c2, "thorough")[:20000]
    finally:
        c2.cleanup()
    # RT_CATCHALL: every byte of the cond and the user mutex objects is a scheduling point (fields the model does not know included)
    scases, impl = core.run_search(ctx, exe, cases)   # plain schedules first, then with every byte of the object a scheduling point
    for c, line in zip(scases, impl):
        why = core.safe_monitor(monitor, c, core.parse_trace(line) if line else None, line)
        if why:
            core.report_violation(ctx, "cond+catchall", c, why, line)
            if len(ctx.violations) >= 3:
                break


def replay(ctx, payload):
    if payload.get("harness") == "kernel":
        from vf.props import C01
        return C01.replay(ctx, payload)
    if payload.get("harness") == "h_init":
        return core.replay_init(ctx, payload)
    exe = build(ctx)
    c = payload.get("case")
    if not exe or not c:
        print("nothing to replay (no concrete case in this file)")
        return 2
    if str(payload.get("harness", "")).endswith("+catchall"):
        impl = core.run_sharded(["env", "RT_CATCHALL=1", exe], [c])[0]
        why = core.safe_monitor(monitor, c, core.parse_trace(impl) if impl is not None else None, impl)
        print("case:  %s\nimpl (every byte of the object a scheduling point):  %s\nmonitor: %s" % (c, impl, why or "ok"))
        return 1 if why else 0
    impl = core.run_sharded([exe], [c])[0]
    mod = core.model_run("cond", [c])[0]
    why = monitor(c, core.parse_trace(impl), impl)
    print("case:  %s\nimpl:  %s\nmodel: %s\nmonitor: %s\nlock-step: %s" %
          (c, impl, mod, why or "ok", "identical" if impl == mod else "DIFFER"))
    return 1 if (why or impl != mod) else 0


TRUSTED = [
    "Coq 8.16.1 kernel + vm_compute (no native_compute)",
    "Print Assumptions of each theorem (recorded under print_assumptions)",
    "extraction: ExtrOcamlBasic only; OCaml driver coq/extract/driver.ml",
    "rt/rt.c (TSan-hook baton scheduler) and rt/t1.c (T1 machine: real fiber_manager.c/fiber.c, one pthread per fiber; "
    "context switch, run queues and event layer replaced)",
    "hand-written models coq/T1K.v + coq/Cond.v (Cond.kstepC overrides T1K.kstep for one case: the yield of a failed "
    "pop inside do_maintenance returns at once, without a scheduling point (repo 9f9cf90), and the pop is retried); "
    "tie = identical per-access traces",
    "proof chain: CondPhase.pstep_sim (phases = stacks), CondSteps.inv_reach (invariant), CondThm (statements)",
    "SC interleaving; -O0 instrumented build",
]
ASSUME = ["given C01 and C02 (a fiber behaves as a sequential process that is resumed once per wake-up): the T1 cut of DESIGN.md 3.4",
          "a yield inside do_maintenance (deferred unlock that must spin) returns at once (repo 9f9cf90: the scheduler-loop "
          "fiber is never queued); on T1 it is not a scheduling point",
          "every waiter passes the same user mutex (cond->caller_mutex discipline) and holds it when calling cond_wait"]
